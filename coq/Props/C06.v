(* Props.C06 — exactly the NULL-valued samples of non-index curves become NaN.
   Statements only; the proofs are in Proofs/DataReadProofs.v.

   Reading.  After either engine has produced the columns (cells: CNum tok = the double
   CPython's float() assigns to the token text, CNaN, CStr s = text), las.py applies the
   header NULL per column: Model/DataRead.v null_columns nulleq strict 0 cols, where column
   k of the list is curve k (k = 0 is the index), strict = (null_policy = 'strict') and
   nulleq tok = (float(tok) == NULL value) is the ORACLE for IEEE equality (Model/Read.v
   instantiates it from the ~Well NULL item).  Every theorem below holds FOR EVERY nulleq:
   "however either is spelled" is exactly that the replacement depends on the token only
   through nulleq, i.e. through the double it denotes.

   Proved at full strength (all columns, all cells, unbounded sizes):
     C06_iff            strict policy, float column, not the index: the column is mapped
                        cell by cell, CNum t -> CNaN when nulleq t, everything else kept;
     C06_iff_cellwise   the same as an iff for every position i: the result cell is NaN iff
                        the input cell is NaN already or is a number equal to NULL, and every
                        result cell that is not NaN is the input cell;
     C06_index_kept     column 0 is returned unchanged under both policies;
     C06_text_untouched a column containing a text cell is returned unchanged;
     C06_none_policy    with null_policy='none' no column changes;
     C06_columnwise     column j of the result depends on column j of the input only, with
                        curve index k + j;
     C06_length         the number of columns and every column length are preserved.
   C06_iff, C06_index_kept, C06_text_untouched, C06_none_policy are unfolding lemmas of
   null_column / null_columns (they hold for every oracle, also the constantly-false one); the
   property theorems about Read.read and Read.nulleq (C06_read_null, C06_read_cell_iff,
   C06_nulleq_numeric, C06_null_not_numeric) are in the block "read level" at the end of this file.
   Not covered here: the write side (NaN -> str(NULL), write->read cycle) is checked on the
   implementation by the harness (harness/props/c06.py) and belongs to the writer model of
   C01/C16; the read substitutions of the other null policies are outside Model/Read.v.
   Oracle assumption: nulleq (numeric equality of a sample and NULL). *)
From Coq Require Import List NArith Bool String.
Import ListNotations.
Require Import PyStr DataRead DataReadProofs.
Open Scope string_scope.
Open Scope list_scope.

Theorem C06_iff : forall (nulleq : list N -> bool) idx col,
  is_float_col col = true -> idx <> 0%nat ->
  null_column nulleq true idx col =
  map (fun c => match c with CNum t => if nulleq t then CNaN else c | _ => c end) col.
Proof. exact null_column_strict. Qed.

Theorem C06_iff_cellwise : forall (nulleq : list N -> bool) idx col,
  is_float_col col = true -> idx <> 0%nat ->
  forall i c, nth_error col i = Some c ->
  exists c', nth_error (null_column nulleq true idx col) i = Some c' /\
    (c' = CNaN <-> (c = CNaN \/ exists t, c = CNum t /\ nulleq t = true)) /\
    (c' <> CNaN -> c' = c).
Proof. exact null_column_cellwise. Qed.

Theorem C06_index_kept : forall (nulleq : list N -> bool) strict col,
  null_column nulleq strict 0 col = col.
Proof. exact null_column_index. Qed.

Theorem C06_text_untouched : forall (nulleq : list N -> bool) strict idx col,
  is_float_col col = false -> null_column nulleq strict idx col = col.
Proof. exact null_column_text. Qed.

Theorem C06_none_policy : forall (nulleq : list N -> bool),
  (forall idx col, null_column nulleq false idx col = col) /\
  (forall cols k, null_columns nulleq false k cols = cols).
Proof. intros nulleq. split; [exact (null_column_none nulleq)|exact (null_columns_none nulleq)]. Qed.

Theorem C06_columnwise : forall (nulleq : list N -> bool) strict cols k j,
  (j < List.length cols)%nat ->
  nth j (null_columns nulleq strict k cols) [] = null_column nulleq strict (k + j) (nth j cols []).
Proof. exact null_columns_nth. Qed.

Theorem C06_length : forall (nulleq : list N -> bool) strict cols k,
  List.length (null_columns nulleq strict k cols) = List.length cols /\
  forall j, List.length (nth j (null_columns nulleq strict k cols) []) = List.length (nth j cols []).
Proof.
  intros nulleq strict cols k. split;
    [exact (null_columns_length nulleq strict cols k)|exact (null_columns_col_length nulleq strict cols k)].
Qed.

(* non-vacuity: NULL = -999.25 in two spellings; an index column, a float column holding
   both spellings, a near-NULL value and a NaN, and a text column *)
Definition ex_nulleq (t : list N) : bool :=
  str_eqb t (s2l "-999.25") || str_eqb t (s2l "-9.9925E2").
Definition ex_cols : list (list cell) :=
  [ [CNum (s2l "-999.25"); CNum (s2l "2")];
    [CNum (s2l "-999.25"); CNum (s2l "-9.9925E2"); CNum (s2l "-999.2500001"); CNaN];
    [CStr (s2l "-999.25"); CNum (s2l "-999.25")] ].

Example C06_ex_strict :
  null_columns ex_nulleq true 0 ex_cols =
  [ [CNum (s2l "-999.25"); CNum (s2l "2")];
    [CNaN; CNaN; CNum (s2l "-999.2500001"); CNaN];
    [CStr (s2l "-999.25"); CNum (s2l "-999.25")] ].
Proof. vm_compute. reflexivity. Qed.
Example C06_ex_hyps :
  is_float_col (nth 1 ex_cols []) = true /\ is_float_col (nth 2 ex_cols []) = false /\ 1%nat <> 0%nat.
Proof. repeat split. discriminate. Qed.
Example C06_ex_none : null_columns ex_nulleq false 0 ex_cols = ex_cols.
Proof. vm_compute. reflexivity. Qed.

Print Assumptions C06_iff.
Print Assumptions C06_iff_cellwise.
Print Assumptions C06_index_kept.
Print Assumptions C06_text_untouched.
Print Assumptions C06_none_policy.
Print Assumptions C06_columnwise.
Print Assumptions C06_length.

(* ---- the NULL -> NaN loop is the Python's -----------------------------------------------------------
   null_columns / bind_columns / data_for_curves equal the block of LASFile.read from
   `data_assigned_to_curves = {...}` to the end of the data-section loop, re-translated on every run
   from /repo (translators/funcs.py -> Gen/Funcs.v: py_bind_columns): which columns are scanned
   (version_NULL = the strict policy, dtype float, not the index), that the samples equal to the NULL value
   and nothing else become NaN, and how the columns are bound to the curves.  The numpy operations are the
   operations of bind_rops (Proofs/FuncsPinBind.v), read on lists of cells; the columns have one common
   length L (the engines yield the columns of a rectangular array). *)
Require Import Num SectionParse Read Funcs FuncsPinBind.
Theorem C06_null_bind_current : forall numeq tr strict pn items datas cols L,
  List.length datas = List.length items ->
  (forall c, In c cols -> List.length c = L) ->
  py_bind_columns (bind_rops numeq tr) (combine items datas) cols strict pn
  = Some (let cols' := null_columns (nulleq numeq pn) strict 0 cols in
          let items' := bind_columns tr items 0 cols' in
          combine items' (data_for_curves (List.length items') cols')).
Proof. exact bind_pin. Qed.
Print Assumptions C06_null_bind_current.

(* ==== BEGIN block "read level" (audit D1) =======================================================
   The theorems above are the branches of null_column for an arbitrary oracle (C06_iff,
   C06_index_kept, C06_text_untouched, C06_none_policy are UNFOLDING LEMMAS of null_column /
   null_columns; C06_iff_cellwise, C06_columnwise, C06_length are their list-level consequences).
   The theorems of this block are about Read.read (Proofs/ReadDataShape.v):
     C06_read_null      whenever read succeeds (data not ignored): the data array is
                        data_for_curves (number of curves) (null_columns (Read.nulleq numeq NULL)
                        strict 0 cols), cols = what the engine returned for the LAST data section
                        (engine_out: numpy engine when selected and it does not raise, else the
                        normal engine), NULL = p_null of the state the first pass ended with; and
                        that NULL is None (no NULL read) or the value of an item found under NULL
                        in a ~W-lettered header section of this text (null_source) -- nothing
                        else can set it;
     C06_read_cell_iff  hence, cell by cell: cell (i,j) of the result is NaN iff the engine's cell
                        (i,j) is NaN already (a "nan" token) or j is not the index column, the
                        policy is strict, column j is numeric and the cell is a number t with
                        Read.nulleq numeq NULL t = true; every other cell is the engine's cell;
     C06_nulleq_numeric Read.nulleq numeq NULL t = true only when NULL is an int z or a float
                        literal x and the oracle says float(t) == float(str(z)) / float(x): the
                        comparison is numeric equality of the two doubles, whatever the spellings;
     C06_null_not_numeric  a NULL that is absent, a text (NULL. N/A) or None makes Read.nulleq
                        constantly false and null_columns the identity: no cell is nulled
                        (C06_read_null_not_numeric: the same for the array read returns).
   Columns j >= length cols (declared curves without a data column) are NaN-filled by
   data_for_curves (C07_data_columns); they hold no sample of the file.
   Still not proved here: the write side (NaN -> str(NULL)); null policies other than strict/none. *)
Require Import Num SectionParse Sections Read ReadCongr ReadDataShape.

Theorem C06_read_null : forall fhex fstr numeq o text l,
  read fhex fstr numeq o text = ROk l -> o_ignore_data o = false ->
  exists ps d,
    first_pass o (lines_keep text) ps_init (find_sections (lines_keep text)) = inl ps /\
    dlm_of (p_dlm ps) = Some d /\
    (p_null ps = None \/
     exists v, p_null ps = Some v /\ null_source o (lines_keep text) (find_sections (lines_keep text)) v) /\
    (data_sections_of text = [] -> l_data l = []) /\
    (forall pre p, data_sections_of text = pre ++ [p] ->
     exists l0 cols r,
       read_data_sections fhex fstr numeq o (lines_keep text) ps d pre (p_las ps) = inl l0 /\
       engine_out fhex fstr o (p_wrapped ps) d (body_lines (lines_keep text) p)
                  (List.length (s_items (l_curves l0))) (wrap_decl l0) = DOk cols /\
       Forall (fun c => List.length c = r) cols /\
       (List.length cols <= List.length (s_items (l_curves l)))%nat /\
       l_data l = data_for_curves (List.length (s_items (l_curves l)))
                    (null_columns (nulleq numeq (p_null ps)) (o_null_strict o) 0%nat cols)).
Proof. exact read_data_null. Qed.

Theorem C06_read_cell_iff : forall fhex fstr numeq o text l,
  read fhex fstr numeq o text = ROk l -> o_ignore_data o = false ->
  forall pre p, data_sections_of text = pre ++ [p] ->
  exists ps d l0 cols,
    first_pass o (lines_keep text) ps_init (find_sections (lines_keep text)) = inl ps /\
    dlm_of (p_dlm ps) = Some d /\
    read_data_sections fhex fstr numeq o (lines_keep text) ps d pre (p_las ps) = inl l0 /\
    engine_out fhex fstr o (p_wrapped ps) d (body_lines (lines_keep text) p)
               (List.length (s_items (l_curves l0))) (wrap_decl l0) = DOk cols /\
    forall j colj i c, nth_error cols j = Some colj -> nth_error colj i = Some c ->
    exists c',
      nth_error (nth j (l_data l) []) i = Some c' /\
      (c' = CNaN <->
         c = CNaN \/
         (j <> 0%nat /\ o_null_strict o = true /\ is_float_col colj = true /\
          exists t, c = CNum t /\ nulleq numeq (p_null ps) t = true)) /\
      (c' <> CNaN -> c' = c).
Proof. exact read_cell_nan_iff. Qed.

Theorem C06_nulleq_numeric : forall numeq pn t, nulleq numeq pn t = true ->
  (exists z, pn = Some (VInt z) /\ numeq t (z_to_str z) = true) \/
  (exists x, pn = Some (VFloat x) /\ numeq t x = true).
Proof. exact nulleq_numeric. Qed.

(* null_not_numeric pn: pn is None, Some (VStr _) or Some VNone *)
Theorem C06_null_not_numeric : forall numeq pn,
  match pn with Some (VInt _) | Some (VFloat _) => False | _ => True end ->
  (forall t, nulleq numeq pn t = false) /\
  (forall strict cols k, null_columns (nulleq numeq pn) strict k cols = cols).
Proof.
  intros numeq pn H. split; [exact (nulleq_not_numeric numeq pn H)|].
  intros strict cols k. apply null_columns_never. exact (nulleq_not_numeric numeq pn H).
Qed.

Theorem C06_read_null_not_numeric : forall fhex fstr numeq o text l,
  read fhex fstr numeq o text = ROk l -> o_ignore_data o = false ->
  forall pre p, data_sections_of text = pre ++ [p] ->
  exists ps d l0 cols,
    first_pass o (lines_keep text) ps_init (find_sections (lines_keep text)) = inl ps /\
    dlm_of (p_dlm ps) = Some d /\
    read_data_sections fhex fstr numeq o (lines_keep text) ps d pre (p_las ps) = inl l0 /\
    engine_out fhex fstr o (p_wrapped ps) d (body_lines (lines_keep text) p)
               (List.length (s_items (l_curves l0))) (wrap_decl l0) = DOk cols /\
    (match p_null ps with Some (VInt _) | Some (VFloat _) => False | _ => True end ->
     l_data l = data_for_curves (List.length (s_items (l_curves l))) cols).
Proof. exact read_null_not_numeric. Qed.

(* non-vacuity: concrete files.  ~W holds NULL -999.25; the data section spells it in three
   ways, in the index column too, next to a near-NULL value, a "nan" token and a text column.
   rd_fhex: float() succeeds on decimal literals and "nan"; rd_numeq: exact decimal equality. *)
From Coq Require Import ZArith.
Require Import NumLit.
Definition rd_fhex (t : list N) : option (list N) :=
  match py_float_dec t with
  | Some _ => Some t
  | None => if str_eqb t (s2l "nan") then Some (s2l "nan") else None
  end.
Definition rd_numeq (a b : list N) : bool :=
  match py_float_dec a, py_float_dec b with
  | Some x, Some y =>
      let mx := (if d_neg x then - dec_mant x else dec_mant x)%Z in
      let my := (if d_neg y then - dec_mant y else dec_mant y)%Z in
      let lo := Z.min (dec_e10 x) (dec_e10 y) in
      (mx * 10 ^ (dec_e10 x - lo) =? my * 10 ^ (dec_e10 y - lo))%Z
  | _, _ => false
  end.
Definition rd_text (well : list string) (data : list string) : list N :=
  flat_map (fun l => s2l l ++ [10%N])
    (["~V"; "VERS. 2.0 : v"; "WRAP. NO : w"; "~W"] ++ well ++
     ["~C"; "DEPT.M : d"; "A. : a"; "B. : b"; "T. : t"; "~A"] ++ data).
Definition rd_o (numpy : bool) : ropts := mkropts false CasePreserve numpy true false.
Definition rd_data (r : rres) : option (list (list cell)) :=
  match r with ROk l => Some (l_data l) | RErr _ => None end.
Definition rd_rows : list string := ["-999.25 -999.2500 -9.9925E2 x"; "2 -999.2500001 nan y"].
Definition rd_rows_num : list string := ["-999.25 -999.2500 -9.9925E2 7"; "2 -999.2500001 nan -999.25"].

(* both engines (the text column makes the numpy engine fall back): index kept, the three
   spellings nulled, the near-NULL value kept, the text column untouched *)
Example C06_ex_read : forall np,
  rd_data (read rd_fhex (fun t => t) rd_numeq (rd_o np) (rd_text ["NULL. -999.25 : n"] rd_rows))
  = Some [ [CNum (s2l "-999.25"); CNum (s2l "2")]; [CNaN; CNum (s2l "-999.2500001")]; [CNaN; CNaN];
           [CStr (s2l "x"); CStr (s2l "y")] ].
Proof. intros [|]; vm_compute; reflexivity. Qed.
(* all-numeric body: the numpy engine itself (np = true) and the normal engine agree *)
Example C06_ex_read_numeric : forall np,
  rd_data (read rd_fhex (fun t => t) rd_numeq (rd_o np) (rd_text ["NULL. -999.25 : n"] rd_rows_num))
  = Some [ [CNum (s2l "-999.25"); CNum (s2l "2")]; [CNaN; CNum (s2l "-999.2500001")]; [CNaN; CNaN];
           [CNum (s2l "7"); CNaN] ].
Proof. intros [|]; vm_compute; reflexivity. Qed.
(* no NULL item in ~W, and a NULL that is a text: nothing is nulled *)
Example C06_ex_read_no_null : forall np,
  rd_data (read rd_fhex (fun t => t) rd_numeq (rd_o np) (rd_text [] rd_rows_num))
  = Some [ [CNum (s2l "-999.25"); CNum (s2l "2")]; [CNum (s2l "-999.2500"); CNum (s2l "-999.2500001")];
           [CNum (s2l "-9.9925E2"); CNaN]; [CNum (s2l "7"); CNum (s2l "-999.25")] ].
Proof. intros [|]; vm_compute; reflexivity. Qed.
Example C06_ex_read_text_null : forall np,
  rd_data (read rd_fhex (fun t => t) rd_numeq (rd_o np) (rd_text ["NULL. N/A : n"] rd_rows_num))
  = rd_data (read rd_fhex (fun t => t) rd_numeq (rd_o np) (rd_text [] rd_rows_num)).
Proof. intros [|]; vm_compute; reflexivity. Qed.
(* the hypotheses of C06_read_null / C06_read_cell_iff are met by the first file: read succeeds,
   data is not ignored, there is exactly one data section, and the NULL held is the float -999.25 *)
Example C06_ex_read_hyps : forall np,
  (exists l, read rd_fhex (fun t => t) rd_numeq (rd_o np) (rd_text ["NULL. -999.25 : n"] rd_rows) = ROk l) /\
  o_ignore_data (rd_o np) = false /\
  (exists p, data_sections_of (rd_text ["NULL. -999.25 : n"] rd_rows) = [] ++ [p]) /\
  (exists ps, first_pass (rd_o np) (lines_keep (rd_text ["NULL. -999.25 : n"] rd_rows)) ps_init
                (find_sections (lines_keep (rd_text ["NULL. -999.25 : n"] rd_rows))) = inl ps /\
              p_null ps = Some (VFloat (s2l "-999.25"))).
Proof.
  intros np. split; [|split; [reflexivity|split]].
  - destruct np; eexists; vm_compute; reflexivity.
  - eexists. vm_compute. reflexivity.
  - destruct np; eexists; split; vm_compute; reflexivity.
Qed.

Print Assumptions C06_read_null.
Print Assumptions C06_read_cell_iff.
Print Assumptions C06_nulleq_numeric.
Print Assumptions C06_null_not_numeric.
Print Assumptions C06_read_null_not_numeric.
(* ==== END block "read level" (audit D1) ========================================================= *)
