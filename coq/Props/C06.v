(* Props.C06 — exactly the NULL-valued samples of non-index curves become NaN.
   Statements only; the proofs are in Proofs/DataReadProofs.v.

   Reading.  After either engine has produced the columns (cells: CNum tok = the double
   CPython's float() assigns to the token text, CNaN, CStr s = text), las.py applies the
   header NULL per column: Model/DataRead.v null_columns nulleq strict 0 cols, where column
   k of the list is curve k (k = 0 is the index), strict = (null_policy = 'strict') and
   nulleq tok = (float(tok) == NULL value) is the ORACLE for IEEE equality (Model/Read.v
   instantiates it from the ~Well NULL item).  Every theorem below holds FOR EVERY nulleq:
   "however either is spelled" is exactly that the replacement depends on the token only
   through nulleq, i.e. through the double it denotes.

   Proved at full strength (all columns, all cells, unbounded sizes):
     C06_iff            strict policy, float column, not the index: the column is mapped
                        cell by cell, CNum t -> CNaN when nulleq t, everything else kept;
     C06_iff_cellwise   the same as an iff for every position i: the result cell is NaN iff
                        the input cell is NaN already or is a number equal to NULL, and every
                        result cell that is not NaN is the input cell;
     C06_index_kept     column 0 is returned unchanged under both policies;
     C06_text_untouched a column containing a text cell is returned unchanged;
     C06_none_policy    with null_policy='none' no column changes;
     C06_columnwise     column j of the result depends on column j of the input only, with
                        curve index k + j;
     C06_length         the number of columns and every column length are preserved.
   Not covered here: the write side (NaN -> str(NULL), write->read cycle) is checked on the
   implementation by the harness (harness/props/c06.py) and belongs to the writer model of
   C01/C16; the read substitutions of the other null policies are outside Model/Read.v.
   Oracle assumption: nulleq (numeric equality of a sample and NULL). *)
From Coq Require Import List NArith Bool String.
Import ListNotations.
Require Import PyStr DataRead DataReadProofs.
Open Scope string_scope.
Open Scope list_scope.

Theorem C06_iff : forall (nulleq : list N -> bool) idx col,
  is_float_col col = true -> idx <> 0%nat ->
  null_column nulleq true idx col =
  map (fun c => match c with CNum t => if nulleq t then CNaN else c | _ => c end) col.
Proof. exact null_column_strict. Qed.

Theorem C06_iff_cellwise : forall (nulleq : list N -> bool) idx col,
  is_float_col col = true -> idx <> 0%nat ->
  forall i c, nth_error col i = Some c ->
  exists c', nth_error (null_column nulleq true idx col) i = Some c' /\
    (c' = CNaN <-> (c = CNaN \/ exists t, c = CNum t /\ nulleq t = true)) /\
    (c' <> CNaN -> c' = c).
Proof. exact null_column_cellwise. Qed.

Theorem C06_index_kept : forall (nulleq : list N -> bool) strict col,
  null_column nulleq strict 0 col = col.
Proof. exact null_column_index. Qed.

Theorem C06_text_untouched : forall (nulleq : list N -> bool) strict idx col,
  is_float_col col = false -> null_column nulleq strict idx col = col.
Proof. exact null_column_text. Qed.

Theorem C06_none_policy : forall (nulleq : list N -> bool),
  (forall idx col, null_column nulleq false idx col = col) /\
  (forall cols k, null_columns nulleq false k cols = cols).
Proof. intros nulleq. split; [exact (null_column_none nulleq)|exact (null_columns_none nulleq)]. Qed.

Theorem C06_columnwise : forall (nulleq : list N -> bool) strict cols k j,
  (j < List.length cols)%nat ->
  nth j (null_columns nulleq strict k cols) [] = null_column nulleq strict (k + j) (nth j cols []).
Proof. exact null_columns_nth. Qed.

Theorem C06_length : forall (nulleq : list N -> bool) strict cols k,
  List.length (null_columns nulleq strict k cols) = List.length cols /\
  forall j, List.length (nth j (null_columns nulleq strict k cols) []) = List.length (nth j cols []).
Proof.
  intros nulleq strict cols k. split;
    [exact (null_columns_length nulleq strict cols k)|exact (null_columns_col_length nulleq strict cols k)].
Qed.

(* non-vacuity: NULL = -999.25 in two spellings; an index column, a float column holding
   both spellings, a near-NULL value and a NaN, and a text column *)
Definition ex_nulleq (t : list N) : bool :=
  str_eqb t (s2l "-999.25") || str_eqb t (s2l "-9.9925E2").
Definition ex_cols : list (list cell) :=
  [ [CNum (s2l "-999.25"); CNum (s2l "2")];
    [CNum (s2l "-999.25"); CNum (s2l "-9.9925E2"); CNum (s2l "-999.2500001"); CNaN];
    [CStr (s2l "-999.25"); CNum (s2l "-999.25")] ].

Example C06_ex_strict :
  null_columns ex_nulleq true 0 ex_cols =
  [ [CNum (s2l "-999.25"); CNum (s2l "2")];
    [CNaN; CNaN; CNum (s2l "-999.2500001"); CNaN];
    [CStr (s2l "-999.25"); CNum (s2l "-999.25")] ].
Proof. vm_compute. reflexivity. Qed.
Example C06_ex_hyps :
  is_float_col (nth 1 ex_cols []) = true /\ is_float_col (nth 2 ex_cols []) = false /\ 1%nat <> 0%nat.
Proof. repeat split. discriminate. Qed.
Example C06_ex_none : null_columns ex_nulleq false 0 ex_cols = ex_cols.
Proof. vm_compute. reflexivity. Qed.

Print Assumptions C06_iff.
Print Assumptions C06_iff_cellwise.
Print Assumptions C06_index_kept.
Print Assumptions C06_text_untouched.
Print Assumptions C06_none_policy.
Print Assumptions C06_columnwise.
Print Assumptions C06_length.

(* ---- the NULL -> NaN loop is the Python's -----------------------------------------------------------
   null_columns / bind_columns / data_for_curves equal the block of LASFile.read from
   `data_assigned_to_curves = {...}` to the end of the data-section loop, re-translated on every run
   from /repo (translators/funcs.py -> Gen/Funcs.v: py_bind_columns): which columns are scanned
   (version_NULL = the strict policy, dtype float, not the index), that the samples equal to the NULL value
   and nothing else become NaN, and how the columns are bound to the curves.  The numpy operations are the
   operations of bind_rops (Proofs/FuncsPinBind.v), read on lists of cells; the columns have one common
   length L (the engines yield the columns of a rectangular array). *)
Require Import Num SectionParse Read Funcs FuncsPinBind.
Theorem C06_null_bind_current : forall numeq tr strict pn items datas cols L,
  List.length datas = List.length items ->
  (forall c, In c cols -> List.length c = L) ->
  py_bind_columns (bind_rops numeq tr) (combine items datas) cols strict pn
  = Some (let cols' := null_columns (nulleq numeq pn) strict 0 cols in
          let items' := bind_columns tr items 0 cols' in
          combine items' (data_for_curves (List.length items') cols')).
Proof. exact bind_pin. Qed.
Print Assumptions C06_null_bind_current.
