(* Props.C06 — placeholder; theorems are being added. *)
Require Import PyStr DataRead.
