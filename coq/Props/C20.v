(* Props.C20 — every file lasio opens is closed again, whatever fails and wherever.
   Statements only; the proofs are in Proofs/IOSkelProofs.v, the skeletons in Gen/Skel.v
   (re-translated from lasio/las.py, lasio/reader.py and lasio/convert_version.py on every run;
   every other source file of the package is scanned for open sites: C20_no_other_open_sites).

   Reading.  A call is a run `exec s σ o σ'` of the function's open/close skeleton s in the
   nondeterministic semantics of Model/IOSkel.v: every MayRaise / Open / Close may complete
   or raise, so "an OSError at the k-th low-level operation, for every k" and "each
   input-induced exception" are instances.  σ = (owned, touched, lost):
     owned   — variables holding a file lasio opened in this call that is open now,
     touched — caller-supplied objects lasio called close() on,
     lost    — open files whose variable was overwritten (never closable).
   The property: started owning nothing, the call ends (o = return, raise, fall off the end)
   owning nothing open and having lost nothing; write()/to_csv() touch no caller object.

   Strength: PARTIAL by nature.  Proved: no control path of the translated skeletons leaks,
   for all fault sequences.  Assumed (harness ASSUMPTIONS): the translator marks everything
   that can raise; close() closes; called functions open nothing themselves. *)
From Coq Require Import List Arith Bool String.
Import ListNotations.
Require Import IOSkel IOSkelProofs IOSkelTrace IOSkelTraceProofs Skel.

(* ---- the general theorems: ALL programs, ALL fault sequences -------------------------- *)
Theorem C20_sound : forall s, leak_free s = true ->
  forall tc n o σ', exec s ([], tc, n) o σ' -> owned σ' = [] /\ lost σ' = n.
Proof. exact leak_free_sound. Qed.

(* handles owned-and-open at exit are among those at entry (described by A), plus, at a
   `return`, the ones handed to the caller *)
Theorem C20_sound_general : forall A rets s, leak_free_from A rets s = true ->
  forall σ o σ', incl (owned σ) A -> NoDup (owned σ) -> exec s σ o σ' ->
    incl (owned σ') (match o with ORet => A ++ rets | _ => A end) /\ lost σ' = lost σ
    /\ o <> OBrk /\ o <> OCnt.
Proof. exact leak_free_from_sound. Qed.

(* helpers that return the file they opened (open_with_codecs, open_file) *)
Theorem C20_ret_sound : forall rets s, leak_free_ret rets s = true ->
  forall tc n o σ', exec s ([], tc, n) o σ' ->
    match o with ORet => incl (owned σ') rets | _ => owned σ' = [] end /\ lost σ' = n.
Proof. exact leak_free_ret_sound. Qed.

Theorem C20_caller_untouched_sound : forall s σ o σ', exec s σ o σ' ->
  caller_handles_untouched s = true -> touched σ' = touched σ.
Proof. exact caller_handles_untouched_sound. Qed.

(* ---- the tie's acceptor is sound: an observed sequence of open / open-failed / close events
   that `accepts` admits is the event sequence of a run of the skeleton (xexec = exec with its
   events), and for a leak-free skeleton that run ends owning nothing open ---------------- *)
Theorem C20_trace_acceptor_sound : forall s tr raised, accepts s tr raised = true ->
  exists o σ', xexec s ([], [], 0) tr o σ' /\ outcome_is raised o.
Proof. exact accepts_sound. Qed.
Theorem C20_xexec_is_exec : (forall s σ tr o σ', xexec s σ tr o σ' -> exec s σ o σ') /\
                            (forall s σ o σ', exec s σ o σ' -> exists tr, xexec s σ tr o σ').
Proof. exact (conj xexec_exec exec_xexec). Qed.
Theorem C20_accepted_is_clean : forall s tr raised, leak_free s = true -> accepts s tr raised = true ->
  exists o σ', xexec s ([], [], 0) tr o σ' /\ outcome_is raised o /\ owned σ' = [] /\ lost σ' = 0.
Proof. exact accepted_is_clean. Qed.

(* ---- today's source: the skeletons regenerated from /repo ----------------------------- *)
(* read() with open_file / open_with_codecs / adhoc_test_encoding inlined at their calls *)
Theorem C20_read : leak_free skel_read = true.
Proof. vm_compute. reflexivity. Qed.
Theorem C20_write : leak_free skel_write = true.
Proof. vm_compute. reflexivity. Qed.
Theorem C20_to_csv : leak_free skel_to_csv = true.
Proof. vm_compute. reflexivity. Qed.
Theorem C20_adhoc : leak_free skel_adhoc = true.
Proof. vm_compute. reflexivity. Qed.
(* these two return the file they opened: nothing open on a raise, only the returned handle
   open on return (it is the caller's from then on; read() closes it in its finally) *)
Theorem C20_open_with_codecs : leak_free_ret rets_open_with_codecs skel_open_with_codecs = true.
Proof. vm_compute. reflexivity. Qed.
Theorem C20_open_file : leak_free_ret rets_open_file skel_open_file = true.
Proof. vm_compute. reflexivity. Qed.
(* the API functions hand no handle to their caller *)
Theorem C20_api_returns_nothing : rets_read = [] /\ rets_write = [] /\ rets_to_csv = [].
Proof. vm_compute. repeat split. Qed.
(* the one open site of the package outside las.py / reader.py: the converter script
   (lasio/convert_version.py: lasio.read(in); with open(out) as f: las.write(f)) *)
Theorem C20_convert_version : leak_free skel_convert_version = true.
Proof. vm_compute. reflexivity. Qed.
Theorem C20_convert_version_exec : forall tc n o σ',
  exec skel_convert_version ([], tc, n) o σ' -> owned σ' = [] /\ lost σ' = n.
Proof. exact (leak_free_sound _ C20_convert_version). Qed.

(* the semantic statements for the three API calls *)
Theorem C20_read_exec : forall tc n o σ', exec skel_read ([], tc, n) o σ' -> owned σ' = [] /\ lost σ' = n.
Proof. exact (leak_free_sound _ C20_read). Qed.
Theorem C20_write_exec : forall tc n o σ', exec skel_write ([], tc, n) o σ' -> owned σ' = [] /\ lost σ' = n.
Proof. exact (leak_free_sound _ C20_write). Qed.
Theorem C20_to_csv_exec : forall tc n o σ', exec skel_to_csv ([], tc, n) o σ' -> owned σ' = [] /\ lost σ' = n.
Proof. exact (leak_free_sound _ C20_to_csv). Qed.

(* file objects supplied by the caller to write() / to_csv() are never closed *)
Theorem C20_caller_untouched_write : caller_handles_untouched skel_write = true.
Proof. vm_compute. reflexivity. Qed.
Theorem C20_caller_untouched_to_csv : caller_handles_untouched skel_to_csv = true.
Proof. vm_compute. reflexivity. Qed.
Theorem C20_caller_untouched_write_exec : forall σ o σ', exec skel_write σ o σ' -> touched σ' = touched σ.
Proof. intros σ o σ' X. exact (caller_handles_untouched_sound _ _ _ _ X C20_caller_untouched_write). Qed.
Theorem C20_caller_untouched_to_csv_exec : forall σ o σ', exec skel_to_csv σ o σ' -> touched σ' = touched σ.
Proof. intros σ o σ' X. exact (caller_handles_untouched_sound _ _ _ _ X C20_caller_untouched_to_csv). Qed.

(* NO source file of the lasio package (every lasio/**/*.py: __init__, las_version, examples, convert_version, excel,
   ... — not only the modules las.py imports) calls an opener (open, io.open, x.open, io.FileIO, os.fdopen,
   TextIOWrapper, NamedTemporaryFile, GzipFile, ZipFile, ... : translators/skeleton.py OPENERS) or reaches one under
   another name (f = open, from io import open as f, getattr(io, "open")) outside the translated functions.
   lasio.read(..) and LASFile(..) are therefore LASFile.read plus code that opens nothing. *)
Theorem C20_no_other_open_sites : other_open_sites = [].
Proof. reflexivity. Qed.

(* ---- non-vacuity ------------------------------------------------------------------------ *)
(* the analysis rejects a leaking skeleton, and the semantics really exhibits the leak *)
Definition leaky : stmt := Seq (Open 0) (Seq MayRaise (Close 0)).
Example C20_ex_leaky_rejected : leak_free leaky = false.
Proof. vm_compute. reflexivity. Qed.
Example C20_ex_leaky_leaks : exec leaky ([], [], 0) ORaise ([0], [], 0).
Proof.
  unfold leaky. eapply XSeqN. - exact (XOpenN 0 [] [] 0).
  - cbn. eapply XSeqX. + apply XMayR. + discriminate.
Qed.
(* lasio's write() before the repair (F14): open, write, close with no finally *)
Definition write_before_fix : stmt :=
  seqs [MayRaise; If (Open 3) Skip; MayRaise; Guarded 3 (Close 3)].
Example C20_ex_write_before_fix_rejected : leak_free write_before_fix = false.
Proof. vm_compute. reflexivity. Qed.
Example C20_ex_write_before_fix_leaks : exec write_before_fix ([], [], 0) ORaise ([3], [], 0).
Proof.
  unfold write_before_fix. cbn [seqs]. eapply XSeqN. - apply XMayN.
  - eapply XSeqN. + apply XIfL. exact (XOpenN 3 [] [] 0).
    + cbn. eapply XSeqX. * apply XMayR. * discriminate.
Qed.
(* ... and the repaired shape is accepted; a close that itself raises is covered *)
Example C20_ex_write_after_fix :
  leak_free (seqs [MayRaise; If (Open 3) Skip; TryFinally MayRaise (Guarded 3 (Close 3))]) = true.
Proof. vm_compute. reflexivity. Qed.
Example C20_ex_close_raises : exec (TryFinally MayRaise (Close 3)) ([3], [], 0) ORaise ([], [], 0).
Proof. eapply XFinX. - apply XMayN. - exact (XCloseR 3 [3] [] 0). - discriminate. Qed.
(* the guard cannot be used to skip the close of an open file *)
Example C20_ex_guard_not_skippable : forall o σ',
  exec (Guarded 3 (Close 3)) ([3], [], 0) o σ' -> owned σ' = [].
Proof.
  intros o σ' X. inversion X; subst.
  - inversion H4; subst; reflexivity.
  - discriminate.
Qed.
(* the acceptor admits the events of a clean write(path) and rejects a run that never closes *)
Example C20_ex_trace_accepted : accepts skel_write [EOpen 3; EClose 3] false = true.
Proof. vm_compute. reflexivity. Qed.
Example C20_ex_trace_rejected : accepts skel_write [EOpen 3] true = false.
Proof. vm_compute. reflexivity. Qed.
(* overwriting a variable that holds an open file loses the file: rejected, and visible *)
Example C20_ex_rebind_rejected : leak_free (Seq (Open 0) (Seq (Rebind 0) (Close 0))) = false.
Proof. vm_compute. reflexivity. Qed.
Example C20_ex_rebind_loses : exec (Seq (Open 0) (Seq (Rebind 0) (Close 0))) ([], [], 0) ONorm ([], [], 1).
Proof.
  eapply XSeqN. - exact (XOpenN 0 [] [] 0). - cbn. eapply XSeqN.
  + exact (XRebind 0 [0] [] 0). + cbn. exact (XCloseN 0 [] [] 1).
Qed.
Example C20_ex_reopen_rejected : leak_free (Seq (Open 0) (Seq (Open 0) (Close 0))) = false.
Proof. vm_compute. reflexivity. Qed.
(* a with-block inside a loop that is left by break, as in adhoc_test_encoding *)
Example C20_ex_with_break : leak_free (Loop (With 0 (Seq MayRaise Break))) = true.
Proof. vm_compute. reflexivity. Qed.
(* closing what the caller supplied is detected, and visible in the semantics; read() does
   close a file object passed to it (outside the property's wording: write()/to_csv() only) *)
Example C20_ex_closearg_rejected : caller_handles_untouched (TryFinally MayRaise (CloseArg 3)) = false.
Proof. reflexivity. Qed.
Example C20_ex_closearg_touches : exec (CloseArg 3) ([], [], 0) ONorm ([], [3], 0).
Proof. exact (XCloseArgN 3 [] [] 0). Qed.
Example C20_ex_read_closes_caller_object : caller_handles_untouched skel_read = false.
Proof. vm_compute. reflexivity. Qed.
(* the skeletons do open files: the theorems above are not about programs without Open *)
Fixpoint opens (s:stmt) : nat :=
  match s with
  | Open _ => 1
  | Seq a b | If a b | TryFinally a b | TryExcept a b => opens a + opens b
  | Loop b | Call b => opens b
  | _ => 0
  end.
Example C20_ex_skeletons_open : opens skel_read = 4 /\ opens skel_write = 1 /\ opens skel_to_csv = 1.
Proof. vm_compute. repeat split. Qed.
Example C20_ex_read_can_open : exists σ', exec (Open 2) ([], [], 0) ONorm σ' /\ owned σ' = [2].
Proof. eexists. split. - exact (XOpenN 2 [] [] 0). - reflexivity. Qed.

Print Assumptions C20_sound.
Print Assumptions C20_sound_general.
Print Assumptions C20_ret_sound.
Print Assumptions C20_caller_untouched_sound.
Print Assumptions C20_trace_acceptor_sound.
Print Assumptions C20_xexec_is_exec.
Print Assumptions C20_accepted_is_clean.
Print Assumptions C20_read.
Print Assumptions C20_write.
Print Assumptions C20_to_csv.
Print Assumptions C20_adhoc.
Print Assumptions C20_open_with_codecs.
Print Assumptions C20_open_file.
Print Assumptions C20_read_exec.
Print Assumptions C20_write_exec.
Print Assumptions C20_to_csv_exec.
Print Assumptions C20_caller_untouched_write.
Print Assumptions C20_caller_untouched_to_csv.
Print Assumptions C20_caller_untouched_write_exec.
Print Assumptions C20_caller_untouched_to_csv_exec.
Print Assumptions C20_no_other_open_sites.
Print Assumptions C20_api_returns_nothing.
Print Assumptions C20_convert_version.
Print Assumptions C20_convert_version_exec.
Print Assumptions C20_api_returns_nothing.
