(* Props.C01 — numeric curve data survives write -> read within the printed precision.
   Statements only; proofs in Proofs/SplitWsFacts.v, Proofs/TextWrapProofs.v,
   Proofs/WriteDataProofs.v (which reuse Proofs/RegexSubFacts.v and Proofs/DataReadProofs.v).

   Reading.  The in-memory data is an r x c matrix `rows` of cells (r >= 1, c >= 1), a cell
   being CNum t (a finite sample, identified by a text t that denotes it) or CNaN.  The writer
   (Model/Writer.v, data part of `write`) prints cell (i, j) as the text
        tok i j = fmtv (col_fmt o j) t      for CNum t   (fmtv f t = f % x, ORACLE)
        tok i j = nt                        for CNaN     (nt = str(NULL value))
   (field_tok; tok_matrix fmtv o nt rows = the r x c matrix of these texts), puts the spacer
   (lhs_spacer for column 0) in front, right-justifies in len_numeric_field when there is one
   (field_width), concatenates the fields of a row (row_text) and, when WRAP is YES, passes
   every row through textwrap (PyLib/TextWrap.v wrap, width = data_width).  The reader splits
   the physical lines (numpy engine: str.split after the comment cut; normal engine: the read
   substitutions, ^Z removal, sow_regex.findall), and, for the normal engine, flattens all
   tokens and reshapes them by the column count (Model/DataRead.v).

   "Recovered to within half a unit of the last printed digit" is read as: THE TOKEN THAT
   REACHES float() ON THE WAY BACK IS EXACTLY THE TEXT  fmt % x  THAT WAS WRITTEN, in the same
   row and column: cell (i, j) of the result is  mk_num fhex (tok i j)  (mk_num t = the double
   float(t), NaN cell when float(t) is nan).  That float(fmt % x) is within half a unit of the
   last printed digit of x is the ORACLE assumption that CPython's % and float() are correctly
   rounded; it is outside lasio and is not modelled.

   Proved at full strength (unbounded numbers of rows and columns, any width, any format text):
     C01_padded_tokens     str.split() of  pad_0 t_0 pad_1 t_1 ...  is  [t_0; t_1; ...] when the
                           t_k are non-empty and white-space-free, the pad_k are white space and
                           pad_k, k >= 1, is non-empty;
     C01_row_tokens        a written row splits back into exactly its field texts, provided
                           they are non-empty and white-space-free, the spacers are white space
                           and every column >= 1 is "separated" (spacer non-empty, or the
                           right-justification really pads that field); the row is produced
                           (row_text = Some line);
     C01_wrap_tokens       for EVERY text and EVERY width, flat_map split (wrap w s) = split s:
                           wrapping never loses, splits, merges or reorders a token (the lines
                           are cut only next to a blank chunk; long tokens go alone on a line);
     C01_wrap_no_blank_line  no line returned by wrap is empty or made of blanks only (so no
                           wrapped line is skipped or counted as an empty row);
     C01_wrap_fits         a returned line longer than the width contains no blank (it is one
                           over-long chunk; break_long_words=False);
     C01_chunks            the chunk list of textwrap: its concatenation is the text, chunks
                           are non-empty, homogeneous, and adjacent chunks differ in kind;
     C01_nan_is_null, C01_nan_without_null, C01_num_is_fmt, C01_col_fmt
                           NaN is written as the NULL text; without a NULL item the data lines
                           are not produced (opt_all ... = None, which `write` turns into
                           WErr WKeyError = Python's KeyError); a number is written as
                           fmt % x with the per-column format when column_fmt has the column,
                           else fmt;
     C01_lines_defined, C01_lines_tokens, C01_wrapped_tokens
                           with a NULL item the data lines are always produced; line i splits
                           into row i of the token matrix; the flat token list of the wrapped
                           lines is the flat token list of the unwrapped ones;
     C01_clean_line_of_tokens, C01_subs_local
                           a physical line is `clean` (no '#', no double or single quote, no
                           chr 26, none of the three read substitutions comma-decimal-mark,
                           run-on(-), run-on(.) matches anywhere in the stripped line) as soon
                           as each of its str.split() fields is: white space carries none of
                           these characters, and the three patterns AS TRANSLATED FROM THE
                           SOURCE TODAY (Gen/Regexes.v) consist of classes of non-space
                           characters only, without look-around or anchor, so no match can
                           extend across white space (Proofs/RegexLocalFacts.v nomatch_tokens);
     C01_data_roundtrip    (composition; hypotheses on the OPTIONS and the TOKENS only) for
                           the written lines rts, with any line terminator eol that strip()
                           removes ([] and "\n" are instances):
                           UNWRAPPED  numpy_engine and normal_engine (every substitution list,
                           column count c) return the same columns `cols`, and
                           inspect_data_section (twice) sniffs c;
                           WRAPPED at ANY width w  the normal engine with the declared column
                           count c returns the same `cols`;
                           cols has c columns, each with r cells, and column j is
                           [mk_num (tok 0 j); mk_num (tok 1 j); ...]: same number of curves, same
                           order, same number of rows, the token read back is the token written;
     C01_data_roundtrip_lines  the same with the cleanliness asked of the produced physical
                           lines (clean_lineb) instead of the tokens;
     C01_roundtrip_cell    cell by cell: cols[j][i] = mk_num (field_tok ... rows[i][j]);
     C01_write_data_lines  the text returned by Model/Writer.v write (whole function, every
                           option) ENDS with exactly these lines: the rows of the in-memory
                           file as it is after the call (las_rows), printed by row_text with
                           the NULL text of its ~Well section (las_null_text), passed through
                           TextWrap.wrap (wo_data_width o) when the wrap flag is set (it is the
                           `wrap` option when given), each followed by a newline.
   Hypotheses of C01_data_roundtrip (the domain; all decidable: wr_tokb, separatedb):
     * every tok i j is non-empty, white-space-free, float() accepts it (num_tok) and it is
       clean: no '#', quote, chr 26, and none of the three substitution patterns matches
       inside it (clean_tokb).  This is what one expects of the text a numeric % format
       prints (digits, at most one '.', a sign only in front or after the 'e') and of a
       numeric NULL text, but fmtv and nt are uninterpreted here, so it is a hypothesis;
     * lhs_spacer and spacer consist of white space; every row is `separated` (the clause
       the harness's in_domain checks on every generated case).
   Not proved here / partial with respect to the property text:
     * the composition is stated on the data lines (C01_write_data_lines: they are what write
       emits; then Writer.row_text / TextWrap.wrap -> DataRead engines), not on Model/Read.v
       read (Model/Writer.v write ...): that the reader cuts the ~A section at exactly these
       lines (Model/Sections.v body_lines, shared with C02/C05) and derives c, WRAP and NULL from
       the written header (mnemonics, curve count: the header round trip C03/C11) is covered
       here only by the correspondence runs of the harness;
     * NULL on the way back: the NULL text comes back as the numeric cell mk_num nt and is then
       mapped to NaN by null_columns — C06_iff / C06_iff_cellwise; the index column is never
       nulled — C06_index_kept (Props/C06.v);
     * the numeric clause rests on the %/float() oracle (above).
   Oracle / trust assumptions: fmtv (f % x), fmt_pi (width of the automatic numeric field),
   fhex (float(tok)), genfromtxt as modelled in Model/DataRead.v, textwrap as modelled in
   PyLib/TextWrap.v (validated on every generated row by the harness). *)
From Coq Require Import List NArith Bool String.
Import ListNotations.
Require Import PyStr Regex Regexes NumLit TextWrap DataRead Writer.
Require Import RegexSubFacts RegexLocalFacts SplitWsFacts TextWrapProofs DataReadProofs WriteDataProofs
  WriteDataTextProofs.
Open Scope string_scope.
Open Scope list_scope.

(* ---- 1. tokens of a written row ---------------------------------------------------------- *)
Theorem C01_padded_tokens : forall pairs : list (list N * list N),
  Forall (fun '(pad, t) => forallb is_space pad = true /\ t <> [] /\
                           forallb (fun c => negb (is_space c)) t = true) pairs ->
  Forall (fun '(pad, t) => pad <> []) (tl pairs) ->
  split_ws (List.concat (map (fun '(pad, t) => pad ++ t) pairs)) = map snd pairs.
Proof.
  intros pairs H1 H2.
  rewrite (map_ext (fun '(pad, t) => pad ++ t) padtok) by (intros [pad t]; reflexivity).
  apply split_ws_padded.
  - eapply Forall_impl; [|exact H1]. intros [pad t] H. exact H.
  - eapply Forall_impl; [|exact H2]. intros [pad t] H. exact H.
Qed.

Theorem C01_row_tokens : forall fmtv fmt_pi o null_text (row : list cell) (toks : list (list N)),
  List.length toks = List.length row ->
  (forall j c, nth_error row j = Some c ->
               cell_text fmtv (col_fmt o j) null_text c = Some (nth j toks [])) ->
  Forall (fun t => t <> [] /\ forallb (fun c => negb (is_space c)) t = true) toks ->
  forallb is_space (wo_lhs_spacer o) = true -> forallb is_space (wo_spacer o) = true ->
  (forall j, (1 <= j < List.length toks)%nat ->
     wo_spacer o <> [] \/
     exists l, field_width fmt_pi o = Some l /\ (List.length (nth j toks []) < l)%nat) ->
  exists line, row_text fmtv fmt_pi o null_text 0 row = Some line /\ split_ws line = toks.
Proof. exact row_tokens. Qed.

(* ---- 2. wrapping ------------------------------------------------------------------------- *)
Theorem C01_wrap_tokens : forall (w : nat) (line : list N),
  flat_map split_ws (TextWrap.wrap w line) = split_ws line.
Proof. exact wrap_tokens. Qed.

Theorem C01_wrap_no_blank_line : forall (w : nat) (s l : list N),
  In l (TextWrap.wrap w s) -> l <> [] /\ forallb (fun c => (c =? 32)%N) l = false.
Proof. exact wrap_no_blank_line. Qed.

Theorem C01_wrap_fits : forall (w : nat) (s l : list N),
  In l (TextWrap.wrap w s) ->
  (List.length l <= w)%nat \/ forallb (fun c => negb (c =? 32)%N) l = true.
Proof. exact wrap_fits. Qed.

Theorem C01_chunks : forall s : list N,
  List.concat (chunks s) = s /\
  exists b, altk b (chunks s).
Proof. intros s. split; [apply chunks_concat|apply chunks_altk]. Qed.

(* ---- 3. cells ------------------------------------------------------------------------------ *)
Theorem C01_nan_is_null : forall fmtv f nt, cell_text fmtv f (Some nt) CNaN = Some nt.
Proof. exact cell_text_nan. Qed.

Theorem C01_nan_without_null : forall fmtv fmt_pi o (rows : list (list cell)) row,
  In row rows -> In CNaN row ->
  cell_text fmtv (wo_fmt o) None CNaN = None /\
  opt_all (map (row_text fmtv fmt_pi o None 0) rows) = None.
Proof. intros. split; [reflexivity|eapply rows_nan_nonull; eassumption]. Qed.

Theorem C01_num_is_fmt : forall fmtv f nt t, cell_text fmtv f nt (CNum t) = Some (fmtv f t).
Proof. exact cell_text_num. Qed.

Theorem C01_col_fmt : forall o j,
  (forall f, NoDup (map fst (wo_column_fmt o)) -> In (j, f) (wo_column_fmt o) -> col_fmt o j = f) /\
  (~ In j (map fst (wo_column_fmt o)) -> col_fmt o j = wo_fmt o).
Proof. intros o j. split; [intros f; apply col_fmt_own|apply col_fmt_default]. Qed.

(* ---- 4. the data lines and their way back ------------------------------------------------- *)
Theorem C01_tok_matrix_nth : forall fmtv o nt (rows : list (list cell)) i j row c,
  nth_error rows i = Some row -> nth_error row j = Some c ->
  nth j (nth i (tok_matrix fmtv o nt rows) []) [] =
  match c with CNum t => fmtv (col_fmt o j) t | CNaN => nt | CStr s => s end.
Proof.
  intros fmtv o nt rows i j row c Hi Hj. unfold tok_matrix.
  rewrite (nth_indep _ [] (row_toks fmtv o nt [])), map_nth.
  - rewrite (nth_error_nth _ _ _ Hi). apply row_toks_nth. exact Hj.
  - rewrite map_length. apply nth_error_Some. rewrite Hi. discriminate.
Qed.

Theorem C01_lines_defined : forall fmtv fmt_pi o nt (rows : list (list cell)),
  exists rts, opt_all (map (row_text fmtv fmt_pi o (Some nt) 0) rows) = Some rts /\
              List.length rts = List.length rows.
Proof.
  intros. exists (map (row_line fmtv fmt_pi o nt) rows). split; [apply lines_defined|apply map_length].
Qed.

Theorem C01_lines_tokens : forall fmtv fmt_pi o nt (rows : list (list cell)) rts,
  Forall (Forall good_tok) (tok_matrix fmtv o nt rows) ->
  forallb is_space (wo_lhs_spacer o) = true -> forallb is_space (wo_spacer o) = true ->
  Forall (separated fmt_pi o) (tok_matrix fmtv o nt rows) ->
  opt_all (map (row_text fmtv fmt_pi o (Some nt) 0) rows) = Some rts ->
  map split_ws rts = tok_matrix fmtv o nt rows.
Proof. exact lines_tokens. Qed.

Theorem C01_wrapped_tokens : forall (w : nat) (rts : list (list N)),
  List.concat (map split_ws (flat_map (TextWrap.wrap w) rts)) = List.concat (map split_ws rts).
Proof. exact wrapped_tokens. Qed.

Theorem C01_data_roundtrip_lines :
  forall fmtv fmt_pi fhex fstr o nt subs (rows : list (list cell)) c rts eol,
  (0 < c)%nat -> rows <> [] ->
  Forall (fun row : list cell => List.length row = c) rows ->
  let T := tok_matrix fmtv o nt rows in
  Forall (Forall (num_tok fhex)) T ->
  forallb is_space (wo_lhs_spacer o) = true -> forallb is_space (wo_spacer o) = true ->
  Forall (separated fmt_pi o) T ->
  forallb is_space eol = true ->
  opt_all (map (row_text fmtv fmt_pi o (Some nt) 0) rows) = Some rts ->
  let cols := map (map (mk_num fhex)) (transpose_n c T) in
  (let body := map (fun l => l ++ eol) rts in
   Forall (fun raw => clean_lineb raw = true) body ->
   numpy_engine fhex body = Some cols /\
   normal_engine fhex fstr DSpace subs c body = DOk cols /\
   fst (inspect_twice DSpace body subs) = Some c) /\
  (forall w, let wbody := map (fun l => l ++ eol) (flat_map (TextWrap.wrap w) rts) in
   Forall (fun raw => clean_lineb raw = true) wbody ->
   normal_engine fhex fstr DSpace subs c wbody = DOk cols) /\
  List.length cols = c /\
  forall j, (j < c)%nat ->
    nth j cols [] = map (fun toks => mk_num fhex (nth j toks [])) T /\
    List.length (nth j cols []) = List.length rows.
Proof. exact data_roundtrip. Qed.

(* cleanliness of a line from its tokens *)
Theorem C01_clean_line_of_tokens : forall raw : list N,
  Forall (fun t => clean_tokb t = true) (split_ws raw) -> clean_lineb raw = true.
Proof. exact clean_line_of_tokens. Qed.

Theorem C01_subs_local :
  (re_local rx_sub_comma = true /\ nomatchb rx_sub_comma [] [] = true) /\
  (re_local rx_sub_runon_minus = true /\ nomatchb rx_sub_runon_minus [] [] = true) /\
  (re_local rx_sub_runon_dot = true /\ nomatchb rx_sub_runon_dot [] [] = true).
Proof. exact subs_are_local. Qed.

Theorem C01_nomatch_tokens : forall r (line : list N),
  re_local r = true -> nomatchb r [] [] = true ->
  (forall t, In t (split_ws line) -> nomatchb r [] t = true) ->
  nomatchb r [] line = true.
Proof. exact nomatch_tokens. Qed.

Theorem C01_data_roundtrip :
  forall fmtv fmt_pi fhex fstr o nt subs (rows : list (list cell)) c rts eol,
  (0 < c)%nat -> rows <> [] ->
  Forall (fun row : list cell => List.length row = c) rows ->
  let T := tok_matrix fmtv o nt rows in
  Forall (Forall (wr_tok fhex)) T ->
  forallb is_space (wo_lhs_spacer o) = true -> forallb is_space (wo_spacer o) = true ->
  Forall (separated fmt_pi o) T ->
  forallb is_space eol = true ->
  opt_all (map (row_text fmtv fmt_pi o (Some nt) 0) rows) = Some rts ->
  let cols := map (map (mk_num fhex)) (transpose_n c T) in
  let body := map (fun l => l ++ eol) rts in
  (numpy_engine fhex body = Some cols /\
   normal_engine fhex fstr DSpace subs c body = DOk cols /\
   fst (inspect_twice DSpace body subs) = Some c) /\
  (forall w, normal_engine fhex fstr DSpace subs c
               (map (fun l => l ++ eol) (flat_map (TextWrap.wrap w) rts)) = DOk cols) /\
  List.length cols = c /\
  forall j, (j < c)%nat ->
    nth j cols [] = map (fun toks => mk_num fhex (nth j toks [])) T /\
    List.length (nth j cols []) = List.length rows.
Proof. exact data_roundtrip_tokens. Qed.

Theorem C01_roundtrip_cell : forall fmtv fhex o nt (rows : list (list cell)) c i j row cell,
  (j < c)%nat -> nth_error rows i = Some row -> nth_error row j = Some cell ->
  nth_error (nth j (map (map (mk_num fhex)) (transpose_n c (tok_matrix fmtv o nt rows))) []) i =
  Some (mk_num fhex (match cell with CNum t => fmtv (col_fmt o j) t | CNaN => nt | CStr s => s end)).
Proof. exact roundtrip_cell. Qed.

(* the data lines are what `write` emits *)
Theorem C01_write_data_lines : forall fmtv fmt_diff fmt_pi fstr fzero numeq o m text m',
  write fmtv fmt_diff fmt_pi fstr fzero numeq o m = WOk text m' ->
  exists (head : list N) (wrapflag : bool) (rts : list (list N)),
    opt_all (map (row_text fmtv fmt_pi o (las_null_text fstr (m_las m')) 0) (las_rows (m_las m'))) = Some rts /\
    text = head ++ flat_map (fun ln => ln ++ [ch_nl])
                     (if wrapflag then flat_map (TextWrap.wrap (wo_data_width o)) rts else rts) /\
    (forall b, wo_wrap o = Some b -> wrapflag = b).
Proof. exact write_data_lines. Qed.

(* the domain predicate on a physical line is the character / substitution part of C02's *)
Theorem C01_clean_is_dom2 : forall fhex c raw,
  is_data_lineb fhex c raw =
  clean_lineb raw && Nat.eqb (List.length (split_ws (strip raw))) c
  && forallb (is_float_tok fhex) (split_ws (strip raw)).
Proof. exact is_data_lineb_clean. Qed.

(* ---- non-vacuity ---------------------------------------------------------------------------- *)
(* toy oracles: the default format prints the sample text as it is, any other format appends
   a digit; float() = decimal literals; "%.5f" % pi has 7 characters *)
Definition ex_fmtv (f t : list N) : list N := match f with [] => t | _ => t ++ s2l "0" end.
Definition ex_fmt_pi (f : list N) : list N := s2l "3.14159".
Definition ex_fhex (t : list N) : option (list N) :=
  match py_float_dec t with Some _ => Some t | None => None end.
Definition ex_fstr (t : list N) : list N := t.
Definition ex_nt : list N := s2l "-999.25".

(* spacer " ", automatic field width (10), column 1 has its own format, width 24 *)
Definition ex_o : wopts :=
  mkwopts None (Some true) [] [(1%nat, s2l "%.2f")] LAuto [] [32%N] 24 60 (s2l "~ASCII") false.
(* no spacer at all, fixed field width 10: separation comes from the right-justification *)
Definition ex_o2 : wopts :=
  mkwopts None (Some true) [] [] (LFixed 10) [] [] 20 60 (s2l "~ASCII") false.
(* no spacer, field width 9 = the length of the longest token: outside the domain *)
Definition ex_o3 : wopts :=
  mkwopts None (Some true) [] [] (LFixed 9) [] [] 20 60 (s2l "~ASCII") false.

Definition ex_rows : list (list cell) :=
  [ [CNum (s2l "100.5"); CNum (s2l "2.5"); CNaN; CNum (s2l "-1e-05")];
    [CNum (s2l "101.0"); CNaN; CNum (s2l "-3"); CNum (s2l "12345.678")] ].

Definition ex_rts (o : wopts) : list (list N) :=
  match opt_all (map (row_text ex_fmtv ex_fmt_pi o (Some ex_nt) 0) ex_rows) with Some r => r | None => [] end.

Example C01_ex_lines :
  ex_rts ex_o = [ s2l "     100.5       2.50    -999.25     -1e-05";
                  s2l "     101.0    -999.25         -3  12345.678" ] /\
  ex_rts ex_o2 = [ s2l "     100.5       2.5   -999.25    -1e-05";
                   s2l "     101.0   -999.25        -3 12345.678" ].
Proof. split; vm_compute; reflexivity. Qed.

Example C01_ex_wrapped :
  flat_map (TextWrap.wrap 24) (ex_rts ex_o) =
  [ s2l "     100.5       2.50"; s2l "-999.25     -1e-05";
    s2l "     101.0    -999.25"; s2l "-3  12345.678" ] /\
  TextWrap.wrap 4 (s2l "  12345.678   1 2   3") = [ s2l "12345.678"; s2l "1 2"; s2l "3" ].
Proof. split; vm_compute; reflexivity. Qed.

(* every hypothesis of C01_data_roundtrip holds for ex_o (spacer-separated) ... *)
Example C01_ex_hyps :
  (0 < 4)%nat /\ ex_rows <> [] /\ Forall (fun row : list cell => List.length row = 4%nat) ex_rows /\
  Forall (Forall (wr_tok ex_fhex)) (tok_matrix ex_fmtv ex_o ex_nt ex_rows) /\
  Forall (Forall (num_tok ex_fhex)) (tok_matrix ex_fmtv ex_o ex_nt ex_rows) /\
  forallb is_space (wo_lhs_spacer ex_o) = true /\ forallb is_space (wo_spacer ex_o) = true /\
  Forall (separated ex_fmt_pi ex_o) (tok_matrix ex_fmtv ex_o ex_nt ex_rows) /\
  opt_all (map (row_text ex_fmtv ex_fmt_pi ex_o (Some ex_nt) 0) ex_rows) = Some (ex_rts ex_o) /\
  Forall (fun raw => clean_lineb raw = true) (map (fun l => l ++ [10%N]) (ex_rts ex_o)) /\
  Forall (fun raw => clean_lineb raw = true)
         (map (fun l => l ++ [10%N]) (flat_map (TextWrap.wrap 24) (ex_rts ex_o))).
Proof.
  split; [repeat constructor|]. split; [discriminate|]. split; [repeat constructor|].
  split; [apply wr_tok_matrixb; vm_compute; reflexivity|].
  split; [apply num_tok_matrixb; vm_compute; reflexivity|].
  split; [reflexivity|]. split; [reflexivity|].
  split; [apply separated_matrixb; vm_compute; reflexivity|].
  split; [vm_compute; reflexivity|].
  split; apply Forall_forall; apply forallb_forall; vm_compute; reflexivity.
Qed.

(* ... and for ex_o2, where only the right-justification separates the fields *)
Example C01_ex_hyps2 :
  Forall (separated ex_fmt_pi ex_o2) (tok_matrix ex_fmtv ex_o2 ex_nt ex_rows) /\
  Forall (Forall (wr_tok ex_fhex)) (tok_matrix ex_fmtv ex_o2 ex_nt ex_rows) /\
  Forall (fun raw => clean_lineb raw = true) (map (fun l => l ++ [10%N]) (ex_rts ex_o2)).
Proof.
  split; [apply separated_matrixb; vm_compute; reflexivity|].
  split; [apply wr_tok_matrixb; vm_compute; reflexivity|].
  apply Forall_forall; apply forallb_forall; vm_compute; reflexivity.
Qed.

(* what the theorem then says, computed: unwrapped through both engines, wrapped through the
   normal engine; the NULL text comes back as the number -999.25 (NaN after C06) *)
Definition ex_cols : list (list cell) :=
  [ [CNum (s2l "100.5"); CNum (s2l "101.0")]; [CNum (s2l "2.50"); CNum (s2l "-999.25")];
    [CNum (s2l "-999.25"); CNum (s2l "-3")]; [CNum (s2l "-1e-05"); CNum (s2l "12345.678")] ].
Example C01_ex_engines :
  numpy_engine ex_fhex (map (fun l => l ++ [10%N]) (ex_rts ex_o)) = Some ex_cols /\
  normal_engine ex_fhex ex_fstr DSpace default_subs 4 (map (fun l => l ++ [10%N]) (ex_rts ex_o)) = DOk ex_cols /\
  normal_engine ex_fhex ex_fstr DSpace default_subs 4
    (map (fun l => l ++ [10%N]) (flat_map (TextWrap.wrap 24) (ex_rts ex_o))) = DOk ex_cols /\
  map (map (mk_num ex_fhex)) (transpose_n 4 (tok_matrix ex_fmtv ex_o ex_nt ex_rows)) = ex_cols.
Proof. repeat split; vm_compute; reflexivity. Qed.

(* the domain is not trivial: without spacer and without padding two fields run together
   (ex_o3 is not `separated`), and a run-on line is not clean *)
Example C01_ex_outside :
  forallb (separatedb ex_fmt_pi ex_o3) (tok_matrix ex_fmtv ex_o3 ex_nt ex_rows) = false /\
  map split_ws (ex_rts ex_o3) =
  [ [s2l "100.5"; s2l "2.5"; s2l "-999.25"; s2l "-1e-05"];
    [s2l "101.0"; s2l "-999.25"; s2l "-312345.678"] ] /\
  map clean_lineb [s2l "1.5 2-3"; s2l "1,5 2"; s2l "1.2.3 4"; s2l "1 2 #c"; s2l "1.5 -2e-05 3"]
  = [false; false; false; false; true] /\
  map clean_tokb [s2l "2-3"; s2l "1,5"; s2l "1.2.3"; s2l "NaN.5"; s2l "#c"; s2l "-2e-05"; s2l "-999.25"; s2l "nan"]
  = [false; false; false; false; false; true; true; true].
Proof. repeat split; vm_compute; reflexivity. Qed.

Print Assumptions C01_padded_tokens.
Print Assumptions C01_row_tokens.
Print Assumptions C01_wrap_tokens.
Print Assumptions C01_wrap_no_blank_line.
Print Assumptions C01_wrap_fits.
Print Assumptions C01_chunks.
Print Assumptions C01_nan_is_null.
Print Assumptions C01_nan_without_null.
Print Assumptions C01_num_is_fmt.
Print Assumptions C01_col_fmt.
Print Assumptions C01_tok_matrix_nth.
Print Assumptions C01_lines_defined.
Print Assumptions C01_lines_tokens.
Print Assumptions C01_wrapped_tokens.
Print Assumptions C01_clean_line_of_tokens.
Print Assumptions C01_subs_local.
Print Assumptions C01_nomatch_tokens.
Print Assumptions C01_data_roundtrip.
Print Assumptions C01_data_roundtrip_lines.
Print Assumptions C01_roundtrip_cell.
Print Assumptions C01_write_data_lines.
Print Assumptions C01_clean_is_dom2.

(* ====================================================================================== *)
(* FILE LEVEL (appended).  Proofs in Proofs/FileRoundTrip*.v.                               *)
(* ====================================================================================== *)
(* The composition listed above as "not proved here" — that the reader cuts the ~A section at
   exactly the written data lines and derives the column count, WRAP and NULL from the written
   header — is proved here on Model/Read.v read applied to the text Model/Writer.v write
   returns.  Notation as in Props/C03.v (file-level part): hs is the written form of the header
   (hs_las hs = the file in memory after the call), dl the line that opens the data section,
   nt the NULL text, rts the printed rows.

     C01_file_roundtrip   under header_hyps / text_hyps / wrap_ok (Props/C03.v:
                          C03_file_hyps_unfold, C03_text_hyps_unfold, C03_wrap_ok_unfold), the
                          hypotheses of C01_data_roundtrip on the token matrix of the rows of
                          the file in memory (data_hyps: at least one curve and one row; every
                          token wr_tok; spacers white space; separated) and data_text_hyps
                          (spacers newline-free, no token contains '~'), with ignore_data off:
                            read text = ROk l,
                            the four header sections / ~Other / custom sections of l are as in
                            C03_file_roundtrip (header_read_back),
                            l_data l = data_result ro pn c T
                                     = null_columns (nulleq pn) strict 0 (mk_num of column j of T)
                          where c = number of curves of the file in memory, T = the written
                          token matrix, pn = the NULL value the reader found (null_read: the
                          value read back of the unique ~Well item of class NULL).  Both
                          engines (the numpy engine when the options select it and WRAP is
                          not YES), wrapped (any width, the reader reshapes by the number of
                          curves because the sniffed count never exceeds it:
                          C01_sniffed_count_bounded) or not;
     C01_file_roundtrip_checked   the same with the hypotheses as one executable predicate;
     C01_file_data_shape  the result has c columns, each with as many cells as rows written;
                          column j is the NULL rule applied to the tokens of column j;
     C01_file_index_kept  the index column is never nulled: column 0 = the written tokens;
     C01_file_cell_num    a finite sample of a non-index curve comes back as the token
                          fmt % x (or NaN when that token equals NULL: C06);
     C01_file_cell_nan    a NaN sample of a non-index curve comes back as NaN under
                          null_policy strict, given the ORACLE hypothesis
                          nulleq numeq pn nt = true (float(str(NULL)) == NULL as read back);
     C01_rows_width       the rows the writer prints have one cell per curve.
   Curves: same number, same order, same metadata (header_read_back on ~Curves; the columns are
   bound one to one: bind_columns with as many columns as curves changes nothing).
   Still not proved: null policies other than strict/none, DLM other than SPACE, files whose
   curves have unequal lengths (the writer then prints no data). *)
Require Import Num Tables SectionParse Sections Read ReadCongr ReadInvProofs SectionsProofs BlocksCongr
  WriteOptionsProofs WriteHeaderProofs WriteReadProofs ItemsBindProofs
  FileRoundTripText FileRoundTripBlocks FileRoundTripFind FileRoundTripFirstPass FileRoundTripHeader
  FileRoundTripData FileRoundTripLines FileRoundTrip FileRoundTripMain FileRoundTripCheck.
Local Open Scope N_scope.

Theorem C01_file_roundtrip : forall fmtv fmt_diff fmt_pi fstr fzero numeq fhex ro o m text m' hs dl rts vit nt,
  write fmtv fmt_diff fmt_pi fstr fzero numeq o m = WOk text m' ->
  write_sections fmtv fmt_diff fstr fzero numeq (wo_version o) (wo_wrap o) (col_fmt o 0%nat) m = Some hs ->
  dsh_of fmtv fmt_pi fstr o hs = Some dl ->
  las_null_text fstr (hs_las hs) = Some nt ->
  opt_all (map (row_text fmtv fmt_pi o (Some nt) 0%nat) (las_rows (hs_las hs))) = Some rts ->
  header_hyps fstr ro hs vit -> text_hyps o hs -> wrap_ok fstr (o_mcase ro) hs ->
  let c := List.length (s_items (l_curves (hs_las hs))) in
  data_hyps fmtv fmt_pi fhex o nt (las_rows (hs_las hs)) c ->
  data_text_hyps fmtv o nt (las_rows (hs_las hs)) ->
  o_ignore_data ro = false ->
  exists l pn,
    read fhex fstr numeq ro text = ROk l /\
    header_read_back fstr ro hs l /\ null_read fstr ro hs pn /\
    l_data l = data_result fhex numeq ro pn c (tok_matrix fmtv o nt (las_rows (hs_las hs))).
Proof. exact read_written_file. Qed.

Theorem C01_file_roundtrip_checked : forall fmtv fmt_diff fmt_pi fstr fzero numeq fhex ro o m text m' hs dl rts nt,
  write fmtv fmt_diff fmt_pi fstr fzero numeq o m = WOk text m' ->
  write_sections fmtv fmt_diff fstr fzero numeq (wo_version o) (wo_wrap o) (col_fmt o 0%nat) m = Some hs ->
  dsh_of fmtv fmt_pi fstr o hs = Some dl ->
  las_null_text fstr (hs_las hs) = Some nt ->
  opt_all (map (row_text fmtv fmt_pi o (Some nt) 0%nat) (las_rows (hs_las hs))) = Some rts ->
  file_hypsb fmtv fmt_pi fstr fhex ro o hs nt = true -> o_ignore_data ro = false ->
  exists l pn,
    read fhex fstr numeq ro text = ROk l /\
    header_read_back fstr ro hs l /\ null_read fstr ro hs pn /\
    l_data l = data_result fhex numeq ro pn (List.length (s_items (l_curves (hs_las hs))))
                 (tok_matrix fmtv o nt (las_rows (hs_las hs))).
Proof. exact read_written_file_checked. Qed.

Theorem C01_data_hyps_unfold : forall fmtv fmt_pi fhex o nt rows c,
  data_hyps fmtv fmt_pi fhex o nt rows c <->
  ((0 < c)%nat /\ rows <> [] /\ Forall (fun row : list cell => List.length row = c) rows /\
   Forall (Forall (wr_tok fhex)) (tok_matrix fmtv o nt rows) /\
   forallb is_space (wo_lhs_spacer o) = true /\ forallb is_space (wo_spacer o) = true /\
   Forall (separated fmt_pi o) (tok_matrix fmtv o nt rows)).
Proof. reflexivity. Qed.

Theorem C01_data_text_hyps_unfold : forall fmtv o nt rows,
  data_text_hyps fmtv o nt rows <->
  (in_str 10 (wo_lhs_spacer o) = false /\ in_str 10 (wo_spacer o) = false /\
   Forall (Forall (fun t => in_str 126 t = false)) (tok_matrix fmtv o nt rows)).
Proof. reflexivity. Qed.

Theorem C01_data_result_unfold : forall fhex numeq ro pn c T,
  data_result fhex numeq ro pn c T =
  null_columns (nulleq numeq pn) (o_null_strict ro) 0%nat (map (map (mk_num fhex)) (transpose_n c T)).
Proof. reflexivity. Qed.

Theorem C01_rows_width : forall l,
  Forall (fun row : list cell => List.length row = List.length (s_items (l_curves l))) (las_rows l).
Proof. exact las_rows_width. Qed.

(* the data section of the written file as read_one_data reads it *)
Theorem C01_file_data_core_unwrapped : forall fmtv fmt_pi fhex fstr numeq ro pw pn o nt rows c rts cs wd,
  data_hyps fmtv fmt_pi fhex o nt rows c ->
  opt_all (map (row_text fmtv fmt_pi o (Some nt) 0%nat) rows) = Some rts ->
  List.length (s_items cs) = c ->
  exists eng,
    data_core fhex fstr numeq ro pw pn DSpace (map add_nl rts) cs wd =
    inl (cs, data_result fhex numeq ro pn c (tok_matrix fmtv o nt rows), eng).
Proof. exact data_core_unwrapped. Qed.

Theorem C01_file_data_core_wrapped : forall fmtv fmt_pi fhex fstr numeq ro pw pn o nt rows c rts cs w,
  data_hyps fmtv fmt_pi fhex o nt rows c ->
  opt_all (map (row_text fmtv fmt_pi o (Some nt) 0%nat) rows) = Some rts ->
  List.length (s_items cs) = c ->
  hval_is_str pw (s2l "YES") = true ->
  data_core fhex fstr numeq ro pw pn DSpace (map add_nl (flat_map (TextWrap.wrap w) rts)) cs true =
  inl (cs, data_result fhex numeq ro pn c (tok_matrix fmtv o nt rows), false).
Proof. exact data_core_wrapped. Qed.

(* the sniffed column count is one of the per-line counts, so it is bounded by their bound *)
Theorem C01_sniffed_count_bounded : forall d body c,
  (forall subs, Forall (fun raw => is_skip raw = true \/ (dcount d subs raw <= c)%nat) body) ->
  forall subs n, fst (inspect_twice d body subs) = Some n -> (n <= c)%nat.
Proof. exact inspect_twice_bound. Qed.

Theorem C01_file_data_shape : forall fhex numeq ro pn c T,
  List.length (data_result fhex numeq ro pn c T) = c /\
  forall j, (j < c)%nat ->
    List.length (nth j (data_result fhex numeq ro pn c T) []) = List.length T /\
    nth j (data_result fhex numeq ro pn c T) [] =
      null_column (nulleq numeq pn) (o_null_strict ro) j (map (fun toks => mk_num fhex (nth j toks [])) T).
Proof. exact data_result_shape. Qed.

Theorem C01_file_index_kept : forall fhex numeq ro pn c T, (0 < c)%nat ->
  nth 0 (data_result fhex numeq ro pn c T) [] = map (fun toks => mk_num fhex (nth 0 toks [])) T.
Proof. exact data_result_index. Qed.

Theorem C01_file_cell_num : forall fmtv numeq fhex ro o pn c nt (rows : list (list cell)) i j row t,
  (0 < j < c)%nat -> o_null_strict ro = true ->
  nth_error rows i = Some row -> nth_error row j = Some (CNum t) ->
  nth_error (nth j (data_result fhex numeq ro pn c (tok_matrix fmtv o nt rows)) []) i =
  Some (match mk_num fhex (fmtv (col_fmt o j) t) with
        | CNum t' => if nulleq numeq pn t' then CNaN else CNum t'
        | x => x
        end).
Proof. exact file_num_roundtrip. Qed.

Theorem C01_file_cell_nan : forall fmtv numeq fhex ro o pn c nt (rows : list (list cell)) i j row,
  (0 < j < c)%nat -> o_null_strict ro = true ->
  nth_error rows i = Some row -> nth_error row j = Some CNaN ->
  nulleq numeq pn nt = true ->
  nth_error (nth j (data_result fhex numeq ro pn c (tok_matrix fmtv o nt rows)) []) i = Some CNaN.
Proof. exact file_nan_roundtrip. Qed.

(* ---- non-vacuity: a four-curve file with NaN samples, unwrapped and wrapped at width 24 ------ *)
Definition fy_fmt_diff (f a b : list N) : list N := a.
Definition fy_fzero (t : list N) : bool := false.
Definition fy_numeq (a b : list N) : bool := str_eqb a b.
Definition fy_m : mlas :=
  mkmlas (mklas (mksect [new_item (s2l "VERS") [] (VFloat (s2l "2.0")) (s2l "v"); new_item (s2l "WRAP") [] (VStr (s2l "NO")) [];
                         new_item (s2l "DLM") [] (VStr (s2l "SPACE")) []] false)
                (mksect [new_item (s2l "STRT") (s2l "M") (VFloat (s2l "100.5")) []; new_item (s2l "STOP") (s2l "M") (VFloat (s2l "101.0")) [];
                         new_item (s2l "STEP") (s2l "M") (VFloat (s2l "0.5")) []; new_item (s2l "NULL") [] (VFloat (s2l "-999.25")) []] false)
                (mksect [new_item (s2l "DEPT") (s2l "M") (VStr []) []; new_item (s2l "A") [] (VStr []) [];
                         new_item (s2l "B") [] (VStr []) []; new_item (s2l "C") [] (VStr []) []] false)
                (mksect [] false) [] []
                [ [CNum (s2l "100.5"); CNum (s2l "101.0")]; [CNum (s2l "2.5"); CNaN]; [CNaN; CNum (s2l "-3")];
                  [CNum (s2l "-1e-05"); CNum (s2l "12345.678")] ] true)
         None.
Definition fy_o (w : option bool) : wopts :=
  mkwopts (Some W20) w [] [(1%nat, s2l "%.2f")] LAuto [] [32] 24 60 (s2l "~ASCII") false.
Definition fy_ro (numpy : bool) : ropts := mkropts false CasePreserve numpy true false.
Definition fy_write (w : option bool) := write ex_fmtv fy_fmt_diff ex_fmt_pi ex_fstr fy_fzero fy_numeq (fy_o w) fy_m.
Definition fy_text (w : option bool) : list N := match fy_write w with WOk t _ => t | WErr _ => [] end.
Definition fy_hs (w : option bool) : hdr_sections :=
  match write_sections ex_fmtv fy_fmt_diff ex_fstr fy_fzero fy_numeq (Some W20) w (col_fmt (fy_o w) 0%nat) fy_m with
  | Some hs => hs
  | None => mkhs false V20 [] [] [] [] [] empty_las
  end.
Definition fy_dl (w : option bool) : list N :=
  match dsh_of ex_fmtv ex_fmt_pi ex_fstr (fy_o w) (fy_hs w) with Some d => d | None => [] end.
Definition fy_rts (w : option bool) : list (list N) :=
  match opt_all (map (row_text ex_fmtv ex_fmt_pi (fy_o w) (Some ex_nt) 0%nat) (las_rows (hs_las (fy_hs w)))) with
  | Some r => r | None => [] end.
Definition fy_cols : list (list cell) :=
  [ [CNum (s2l "100.5"); CNum (s2l "101.0")]; [CNum (s2l "2.50"); CNaN]; [CNaN; CNum (s2l "-3")];
    [CNum (s2l "-1e-05"); CNum (s2l "12345.678")] ].

Example C01_ex_file_text_wrapped :
  l2s (fy_text (Some true)) =
"~Version ---------------------------------------------------
VERS.   2.0 : CWLS log ASCII Standard -VERSION 2.0
WRAP.   YES : Multiple lines per depth step
DLM . SPACE : 
~Well ------------------------------------------------------
STRT.M  100.5 : 
STOP.M  101.0 : 
STEP.M  101.0 : 
NULL. -999.25 : 
~Curve Information -----------------------------------------
DEPT.M  : 
A   .   : 
B   .   : 
C   .   : 
~Params ----------------------------------------------------
~Other -----------------------------------------------------
~ASCII -----------------------------------------------------
     100.5       2.50
-999.25     -1e-05
     101.0    -999.25
-3  12345.678
"%string.
Proof. vm_compute. reflexivity. Qed.

(* the hypotheses hold, wrapped or not *)
Example C01_ex_file_domain : forall w numpy,
  write_sections ex_fmtv fy_fmt_diff ex_fstr fy_fzero fy_numeq (wo_version (fy_o w)) (wo_wrap (fy_o w)) (col_fmt (fy_o w) 0%nat) fy_m
    = Some (fy_hs w) /\
  file_hypsb ex_fmtv ex_fmt_pi ex_fstr ex_fhex (fy_ro numpy) (fy_o w) (fy_hs w) ex_nt = true.
Proof. intros [[|]|] [|]; split; vm_compute; reflexivity. Qed.

(* read of the written text, computed: NaN restored through NULL, index column kept, "2.5"
   printed with the column's own format; the numpy engine was used for the unwrapped text *)
Example C01_ex_file_read :
  map (fun w => match read ex_fhex ex_fstr fy_numeq (fy_ro true) (fy_text w) with
                | ROk l => Some (l_data l, l_engine_numpy l) | RErr _ => None end)
      [None; Some true]
  = [Some (fy_cols, true); Some (fy_cols, false)].
Proof. vm_compute. reflexivity. Qed.

(* the theorem applied to it: every hypothesis discharged by computation *)
Example C01_ex_file_theorem : forall w numpy,
  exists l, read ex_fhex ex_fstr fy_numeq (fy_ro numpy) (fy_text w) = ROk l /\
            header_read_back ex_fstr (fy_ro numpy) (fy_hs w) l /\ l_data l = fy_cols.
Proof.
  intros w numpy.
  assert (Hw : write ex_fmtv fy_fmt_diff ex_fmt_pi ex_fstr fy_fzero fy_numeq (fy_o w) fy_m
               = WOk (fy_text w) (mkmlas (hs_las (fy_hs w)) None))
    by (destruct w as [[|]|]; vm_compute; reflexivity).
  destruct (C01_ex_file_domain w numpy) as (Hs & Hb).
  assert (Hdl : dsh_of ex_fmtv ex_fmt_pi ex_fstr (fy_o w) (fy_hs w) = Some (fy_dl w))
    by (destruct w as [[|]|]; vm_compute; reflexivity).
  assert (Hnt : las_null_text ex_fstr (hs_las (fy_hs w)) = Some ex_nt)
    by (destruct w as [[|]|]; vm_compute; reflexivity).
  assert (Hrts : opt_all (map (row_text ex_fmtv ex_fmt_pi (fy_o w) (Some ex_nt) 0%nat) (las_rows (hs_las (fy_hs w)))) = Some (fy_rts w))
    by (destruct w as [[|]|]; vm_compute; reflexivity).
  destruct (C01_file_roundtrip_checked ex_fmtv fy_fmt_diff ex_fmt_pi ex_fstr fy_fzero fy_numeq ex_fhex (fy_ro numpy) (fy_o w) fy_m
              (fy_text w) (mkmlas (hs_las (fy_hs w)) None) (fy_hs w) (fy_dl w) (fy_rts w) ex_nt Hw Hs Hdl Hnt Hrts Hb eq_refl)
    as (l & pn & Hread & Hrb & Hpn & Hdata).
  exists l. split; [exact Hread|]. split; [exact Hrb|]. rewrite Hdata.
  assert (Epn : pn = Some (VFloat (s2l "-999.25"))).
  { revert Hpn. unfold null_read. destruct w as [[|]|]; vm_compute; intros E; exact E. }
  rewrite Epn. destruct w as [[|]|]; vm_compute; reflexivity.
Qed.

Print Assumptions C01_file_roundtrip.
Print Assumptions C01_file_roundtrip_checked.
Print Assumptions C01_data_hyps_unfold.
Print Assumptions C01_data_text_hyps_unfold.
Print Assumptions C01_data_result_unfold.
Print Assumptions C01_rows_width.
Print Assumptions C01_file_data_core_unwrapped.
Print Assumptions C01_file_data_core_wrapped.
Print Assumptions C01_sniffed_count_bounded.
Print Assumptions C01_file_data_shape.
Print Assumptions C01_file_index_kept.
Print Assumptions C01_file_cell_num.
Print Assumptions C01_file_cell_nan.

(* ---- the layout of the data section is the Python's ----------------------------------------------------
   field_width, col_fmt, the spacers, field_text and the rows written (row_text of every row, wrapped by
   textwrap when `wrap`, each line followed by "\n") equal the code of writer.write re-translated on every
   run from /repo (translators/funcs.py -> Gen/Funcs.v): the `if len_numeric_field is None:` block, the nested
   functions get_column_fmt / get_left_spacing / format_data_section_line, and the block from
   `twrapper = ...` to the end of write.  cell_wops (Proofs/FuncsPinWriteData.v) reads the external
   operations on a sample (np.isnan, fmt % x, str) and fmt % np.pi / TextWrapper.wrap as the oracles fmtv,
   fmt_pi and PyLib/TextWrap.wrap.  The columns are all nrows long (they are the columns of las.data). *)
From Coq Require Import ZArith.
Require Import Funcs FuncsPinWriteData.
Theorem C01_lnf_current : forall fmtv fmt_pi fmt,
  py_len_numeric_field (cell_wops fmtv fmt_pi) None fmt
  = Some (Z.of_nat (let plen := List.length (fmt_pi fmt) in auto_lnf (S plen) plen 10)).
Proof. exact lnf_pin. Qed.
Theorem C01_col_fmt_current : forall o j,
  py_get_column_fmt (Z.of_nat j) (cfmt_dict o) (wo_fmt o) = Some (col_fmt o j).
Proof. exact (col_fmt_pin (fun _ _ => nil) (fun _ => nil)). Qed.
Theorem C01_spacing_current : forall j lhs sp,
  py_get_left_spacing (Z.of_nat j) lhs sp = if Nat.eqb j 0 then lhs else sp.
Proof. exact (left_spacing_pin (fun _ _ => nil) (fun _ => nil)). Qed.
Theorem C01_field_current : forall fmtv fmt_pi o j null_text c,
  py_format_data_section_line (cell_wops fmtv fmt_pi) c (col_fmt o j) (lnf_z fmt_pi o)
    (if Nat.eqb j 0 then wo_lhs_spacer o else wo_spacer o) null_text
  = field_text fmtv fmt_pi o j null_text c.
Proof. exact field_text_pin. Qed.
Theorem C01_data_rows_current : forall fmtv fmt_pi o null_text cols nrows wrap lines lc out,
  (forall c, In c cols -> List.length c = nrows) ->
  py_write_data_rows (cell_wops fmtv fmt_pi) (Z.of_nat nrows) (Z.of_nat (List.length cols)) cols wrap (Z.of_nat (wo_data_width o))
    lines lc out (cfmt_dict o) (wo_fmt o) (wo_lhs_spacer o) (wo_spacer o) (lnf_z fmt_pi o) null_text
  = option_map (fun rts => out ++ emit (if wrap then flat_map (TextWrap.wrap (wo_data_width o)) rts else rts))
               (opt_all (List.map (row_text fmtv fmt_pi o null_text 0) (rows_of nrows cols))).
Proof. exact data_rows_pin. Qed.
Print Assumptions C01_lnf_current.
Print Assumptions C01_col_fmt_current.
Print Assumptions C01_spacing_current.
Print Assumptions C01_field_current.
Print Assumptions C01_data_rows_current.
