(* Props.C01 — placeholder; theorems are being added. *)
Require Import PyStr Writer.
