(* Props.C09 — reading is invariant under presentation-only changes of the text.
   Statements only; proofs in Proofs/StripFacts.v (strip, lines_keep), Proofs/ReadInvProofs.v
   (each consumer of the lines), Proofs/ReadCongr.v (read as a function of what the consumers
   see of each section), Proofs/BlocksCongr.v (blocks of C05; the transformation family).

   Formal reading.  read o text is LASFile.read (Model/Read.v); parse_body the header-items
   loop; normal_items / normal_engine, genfromtxt_rows / numpy_engine the two data engines;
   inspect / inspect_twice the column sniffer.  One theorem per generator of the family, each
   for a change at an ARBITRARY site (a ++ x :: b vs a ++ b), most also for any number of
   changes at once (ins_lines, Forall2 streq), then whole-read theorems and composition.

   Proved at full strength (all texts / line lists; induction, no bound):
     C09_blank_header, C09_comment_header   a blank line / a line whose first non-blank
                         character is a comment character, anywhere in a header section;
     C09_blank_data, C09_comment_data       the same in a data section, for BOTH engines (token
                         stream of the normal engine, rows of the numpy engine, hence the
                         columns), and C09_sniff_blank / C09_sniff_comment / C09_sniff_skipped:
                         the column sniffer (both passes) -- unconditional since the sample
                         window counts data lines (lasio 5035e7a) and hyphens are counted on data
                         lines only (lasio d2ac2bb); both were genuine defects found here;
     C09_strip_padding   strip (ws1 ++ l ++ ws2) = strip l; C09_padding_*: every consumer (header
                         loop, section table, ~Other text, normal engine, numpy engine,
                         sniffer) gives the same result on two line lists that are pointwise
                         equal after strip; C09_padding_read: hence the whole read does;
     C09_crlf_lines, C09_crlf_read          lines_keep of the CRLF text = the LF lines with CR
                         before LF; read (crlf t) = read t;
     C09_final_newline, C09_final_newline_read   with / without the final newline: same lines up
                         to the last terminator; same read;
     C09_rewrap_tokens   the normal engine is a function of the concatenated per-line token
                         lists and of n_columns; C09_rewrap_data / C09_rewrap_data_clean: for a
                         WRAP=YES section the whole data-section read is the same when the
                         reshape width is (C09_rewrap_width: it is the curve count whenever the
                         file declares WRAP YES and the sniffed count is smaller or
                         undetermined) and either the sniffer recommends the same substitutions
                         or the substitutions fire on no line (C09_rewrap_clean_lines);
     C09_rewrap_read     the WHOLE read of a file that says WRAP YES and declares >= m curves is
                         unchanged when its data blocks are re-wrapped at any token boundaries
                         (rewrap_rel m d: equal token streams under the file's delimiter d,
                         substitutions fire on no line, counts sniffed on either wrapping < m);
     C09_redelimit_space the tokens of a SPACE-delimited line are its white-space separated
                         fields: any amount of blanks/tabs between and around them gives the
                         same tokens (lines without quotes / ^Z on which the substitutions do
                         not fire -- C02_sub_identity gives that from "no regex match");
                         C09_redelimit_comma: a comma-joined line splits back into its tokens;
     C09_blocks          read depends on the blocks (C05) only through what each block's consumer
                         sees: equal titles + indistinguishable bodies => equal read, wherever
                         the blocks lie (line numbers shift);
     C09_skip_read       any number of blank / '#' lines at any sites of header and data
                         blocks (and any non-title lines before the first section): equal read;
     C09_compose, C09_compose_read   generic: a relation whose single steps preserve f preserves it
                         along every finite chain (steps in either direction); instantiated
                         with the union of the generators above (pres_step).
   Partial / not claimed:
     - re-wrapping is proved on the domain named above; outside it (a wrapping on which a
       run-on-hyphen / decimal-comma substitution fires, or whose physical lines all carry as
       many values as there are curves or more) lasio's sniffing heuristics decide, and only
       the correspondence checks those.
     - COMMA / TAB with padding blanks: the model identifies a numeric cell by its token text,
       so " 1" and "1" are different tokens although float() maps them to the same value; that
       equality is a fact about CPython's float (oracle fhex), exercised by the correspondence
       only.  Changing DLM itself changes a header item, so it is outside "equal header items".
     - ~Other: blank lines are content there; insertion is not claimed (skip_ins_block demands
       equal bodies for ~O blocks); white space at line ends is covered (the text is built from
       stripped lines). *)
From Coq Require Import List Arith NArith Bool String.
Import ListNotations.
Require Import PyStr Regex NumLit Num Tables SectionParse Sections DataRead Read.
Require Import RegexSubFacts SplitWsFacts StripFacts SectionsProofs JunkProofs ReadInvProofs ReadCongr BlocksCongr RewrapRead.
Open Scope string_scope.
Open Scope list_scope.
Open Scope N_scope.

(* ---- 1. header sections ------------------------------------------------------------------- *)
Theorem C09_blank_header : forall v k c ig cc tr a x b acc,
  strip x = [] ->
  parse_body v k c ig cc tr (a ++ x :: b) acc = parse_body v k c ig cc tr (a ++ b) acc.
Proof. exact blank_header. Qed.

Theorem C09_comment_header : forall v k c ig cc tr a x b acc ch r,
  strip x = ch :: r -> in_str ch cc = true ->
  parse_body v k c ig cc tr (a ++ x :: b) acc = parse_body v k c ig cc tr (a ++ b) acc.
Proof. exact comment_header. Qed.

Theorem C09_skipped_header : forall v k c ig cc tr lines lines' acc,
  ins_lines (fun x => classify v k c cc x = LSkip) lines lines' ->
  parse_body v k c ig cc tr lines' acc = parse_body v k c ig cc tr lines acc.
Proof. exact parse_body_ins_skipped. Qed.

(* ---- 2. data sections ----------------------------------------------------------------------- *)
Theorem C09_blank_data : forall fhex fstr d subs n a x b,
  strip x = [] ->
  normal_items d subs (a ++ x :: b) = normal_items d subs (a ++ b) /\
  genfromtxt_rows (a ++ x :: b) = genfromtxt_rows (a ++ b) /\
  normal_engine fhex fstr d subs n (a ++ x :: b) = normal_engine fhex fstr d subs n (a ++ b) /\
  numpy_engine fhex (a ++ x :: b) = numpy_engine fhex (a ++ b).
Proof. exact blank_data_all. Qed.

Theorem C09_comment_data : forall fhex fstr d subs n a x b,
  startswith [ch_hash] (strip x) = true ->
  normal_items d subs (a ++ x :: b) = normal_items d subs (a ++ b) /\
  genfromtxt_rows (a ++ x :: b) = genfromtxt_rows (a ++ b) /\
  normal_engine fhex fstr d subs n (a ++ x :: b) = normal_engine fhex fstr d subs n (a ++ b) /\
  numpy_engine fhex (a ++ x :: b) = numpy_engine fhex (a ++ b).
Proof. exact comment_data_all. Qed.

Theorem C09_sniff_skipped : forall d subs body body',
  ins_lines (fun x => is_skip x = true) body body' ->
  inspect_twice d body' subs = inspect_twice d body subs.
Proof. exact inspect_twice_ins_skipped. Qed.

Theorem C09_sniff_blank : forall d subs a x b,
  strip x = [] -> inspect_twice d (a ++ x :: b) subs = inspect_twice d (a ++ b) subs.
Proof. exact sniff_blank. Qed.

Theorem C09_sniff_comment : forall d subs a x b,
  startswith [ch_hash] (strip x) = true -> inspect_twice d (a ++ x :: b) subs = inspect_twice d (a ++ b) subs.
Proof. exact sniff_comment. Qed.

(* the three together: the data readers cannot tell the two bodies apart *)
Theorem C09_skipped_data : forall b b',
  ins_lines (fun x => is_skip x = true) b b' -> data_equiv b' b.
Proof. exact data_equiv_ins_skipped. Qed.

(* ---- 3. white space around lines ------------------------------------------------------------- *)
Theorem C09_strip_padding : forall ws1 l ws2,
  forallb is_space ws1 = true -> forallb is_space ws2 = true -> strip (ws1 ++ l ++ ws2) = strip l.
Proof. exact strip_pad. Qed.

Theorem C09_strip_idempotent : forall l, strip (strip l) = strip l.
Proof. exact strip_idem. Qed.

Theorem C09_strip_blank : forall l, strip l = [] <-> forallb is_space l = true.
Proof. exact strip_nil_iff. Qed.

Theorem C09_padding_map : forall pad : list N -> list N,
  (forall l, strip (pad l) = strip l) -> forall ls, Forall2 streq (map pad ls) ls.
Proof. exact Forall2_map_pad. Qed.

Theorem C09_padding_header : forall v k c ig cc tr lines lines',
  Forall2 streq lines lines' ->
  forall acc, parse_body v k c ig cc tr lines acc = parse_body v k c ig cc tr lines' acc.
Proof. exact parse_body_streq. Qed.

Theorem C09_padding_sections : forall ls ls',
  Forall2 streq ls ls' -> find_sections ls = find_sections ls'.
Proof. exact find_sections_streq. Qed.

Theorem C09_padding_other : forall ls ls' p,
  Forall2 streq ls ls' -> other_text ls p = other_text ls' p.
Proof. exact other_text_streq. Qed.

Theorem C09_padding_data : forall b b', Forall2 streq b b' -> data_equiv b b'.
Proof. exact data_equiv_streq. Qed.

Theorem C09_padding_read : forall fhex fstr numeq o t t',
  Forall2 streq (lines_keep t) (lines_keep t') ->
  read fhex fstr numeq o t = read fhex fstr numeq o t'.
Proof. exact read_streq. Qed.

(* ---- 4. CRLF, final newline --------------------------------------------------------------------- *)
Theorem C09_crlf_strip : forall l, strip (l ++ [13; 10]) = strip (l ++ [10]) /\ strip (l ++ [10]) = strip l.
Proof. exact strip_terminators. Qed.

Theorem C09_crlf_lines : forall s,
  lines_keep (crlf s) = map crlf (lines_keep s) /\ Forall2 streq (lines_keep (crlf s)) (lines_keep s).
Proof. exact lines_keep_crlf_both. Qed.

Theorem C09_crlf_read : forall fhex fstr numeq o t,
  read fhex fstr numeq o (crlf t) = read fhex fstr numeq o t.
Proof. exact read_crlf. Qed.

Theorem C09_final_newline : forall t c, c <> 10 ->
  exists ls l, lines_keep (t ++ [c]) = ls ++ [l] /\ lines_keep (t ++ [c; 10]) = ls ++ [l ++ [10]].
Proof. exact lines_keep_final_newline. Qed.

Theorem C09_final_newline_read : forall fhex fstr numeq o t c, c <> 10 ->
  read fhex fstr numeq o (t ++ [c; 10]) = read fhex fstr numeq o (t ++ [c]).
Proof. exact read_final_newline. Qed.

(* ---- 5. re-wrapping, re-delimiting --------------------------------------------------------------- *)
Theorem C09_tokens_of_lines : forall d subs body,
  normal_items d subs body = List.concat (map (toks d subs) body).
Proof. exact normal_items_toks. Qed.

Theorem C09_rewrap_tokens : forall fhex fstr d subs n a b,
  List.concat (map (toks d subs) a) = List.concat (map (toks d subs) b) ->
  normal_items d subs a = normal_items d subs b /\
  normal_engine fhex fstr d subs n a = normal_engine fhex fstr d subs n b.
Proof. exact rewrap_tokens_all. Qed.

Theorem C09_rewrap_data : forall fhex fstr numeq o pw pn d b b' cs wd sn sn' subs,
  hval_is_str pw (s2l "YES") = true ->
  inspect_twice d b (match d with DComma => comma_delim_subs | _ => default_subs end) = (sn, subs) ->
  inspect_twice d b' (match d with DComma => comma_delim_subs | _ => default_subs end) = (sn', subs) ->
  n_columns_of sn (List.length (s_items cs)) wd = n_columns_of sn' (List.length (s_items cs)) wd ->
  List.concat (map (toks d subs) b) = List.concat (map (toks d subs) b') ->
  data_core fhex fstr numeq o pw pn d b cs wd = data_core fhex fstr numeq o pw pn d b' cs wd.
Proof. exact data_core_rewrap. Qed.

Theorem C09_rewrap_data_clean : forall fhex fstr numeq o pw pn d b b' cs wd,
  hval_is_str pw (s2l "YES") = true ->
  (forall raw subs, In raw (b ++ b') -> apply_subs subs (strip raw) = strip raw) ->
  n_columns_of (fst (inspect_twice d b (match d with DComma => comma_delim_subs | _ => default_subs end)))
               (List.length (s_items cs)) wd =
  n_columns_of (fst (inspect_twice d b' (match d with DComma => comma_delim_subs | _ => default_subs end)))
               (List.length (s_items cs)) wd ->
  List.concat (map (toks d []) b) = List.concat (map (toks d []) b') ->
  data_core fhex fstr numeq o pw pn d b cs wd = data_core fhex fstr numeq o pw pn d b' cs wd.
Proof. exact data_core_rewrap_clean. Qed.

(* the whole read: data blocks re-wrapped (rewrap_rel m d: substitutions fire on no line, equal
   token streams, sniffed counts below m), every other block untouched, in a file that says
   WRAP YES and declares at least m curves *)
Theorem C09_rewrap_read : forall fhex fstr numeq m d o t t' pre pre' bs bs',
  lines_keep t = pre ++ render bs -> lines_keep t' = pre' ++ render bs' ->
  notitles pre -> notitles pre' -> Forall wf_block bs -> Forall wf_block bs' ->
  Forall2 (rewrap_block m d) bs bs' ->
  (forall ps, first_pass o (lines_keep t)
                (mkps (VFloat (s2l "2.0")) (VStr (s2l "YES")) None (VStr (s2l "SPACE")) empty_las [] [])
                (find_sections (lines_keep t)) = inl ps ->
     dlm_of (p_dlm ps) = Some d /\ hval_is_str (p_wrapped ps) (s2l "YES") = true /\ wrap_decl (p_las ps) = true /\
     (m <= List.length (s_items (l_curves (p_las ps))))%nat) ->
  read fhex fstr numeq o t = read fhex fstr numeq o t'.
Proof. exact read_rewrap_blocks. Qed.

Theorem C09_rewrap_clean_lines : forall b, forallb clean_line b = true ->
  forall raw subs, In raw b -> apply_subs subs (strip raw) = strip raw.
Proof. exact clean_lines_subs. Qed.

Theorem C09_rewrap_width : forall sn nc,
  (match sn with Some n => (n < nc)%nat | None => True end) -> n_columns_of sn nc true = nc.
Proof. exact n_columns_of_wrapped. Qed.

Theorem C09_redelimit_space : forall subs raw raw',
  startswith [ch_hash] (strip raw) = false -> apply_subs subs (strip raw) = strip raw ->
  in_str 26 raw = false -> in_str 34 raw = false -> in_str 39 raw = false ->
  startswith [ch_hash] (strip raw') = false -> apply_subs subs (strip raw') = strip raw' ->
  in_str 26 raw' = false -> in_str 34 raw' = false -> in_str 39 raw' = false ->
  split_ws raw = split_ws raw' -> toks DSpace subs raw = toks DSpace subs raw'.
Proof. exact toks_space_ws. Qed.

Theorem C09_redelimit_space_fields : forall pairs,
  Forall (fun p => forallb is_space (fst p) = true /\ good_tok (snd p)) pairs ->
  Forall (fun p => fst p <> []) (tl pairs) ->
  in_str 34 (List.concat (map padtok pairs)) = false -> in_str 39 (List.concat (map padtok pairs)) = false ->
  split_line DSpace (List.concat (map padtok pairs)) = map snd pairs.
Proof. exact split_line_space_padded. Qed.

Theorem C09_redelimit_comma : forall ts,
  ts <> [] -> Forall (fun t => in_str ch_comma t = false) ts ->
  split_line DComma (join [ch_comma] ts) = ts.
Proof. exact split_line_comma_join. Qed.

(* ---- 6. whole read on blocks; composition ---------------------------------------------------------- *)
Theorem C09_blocks : forall fhex fstr numeq o t t' pre bs pre' bs',
  lines_keep t = pre ++ render bs -> lines_keep t' = pre' ++ render bs' ->
  notitles pre -> notitles pre' -> Forall wf_block bs -> Forall wf_block bs' ->
  Forall2 block_equiv bs bs' ->
  read fhex fstr numeq o t = read fhex fstr numeq o t'.
Proof. exact read_blocks_congr. Qed.

Theorem C09_skip_read : forall fhex fstr numeq o t t' pre pre' bs bs',
  lines_keep t = pre ++ render bs -> lines_keep t' = pre' ++ render bs' ->
  notitles pre -> notitles pre' -> Forall wf_block bs ->
  Forall2 skip_ins_block bs bs' ->
  read fhex fstr numeq o t' = read fhex fstr numeq o t.
Proof. exact read_ins_skipped. Qed.

Theorem C09_compose : forall (T A : Type) (f : T -> A) (R : T -> T -> Prop),
  (forall x y, R x y -> f x = f y) -> forall x y, chain T R x y -> f x = f y.
Proof. exact chain_inv. Qed.

Theorem C09_compose_list : forall (T A : Type) (f : T -> A) (R : T -> T -> Prop),
  (forall x y, R x y -> f x = f y) -> forall ys x z, path T R x ys z -> f x = f z.
Proof. exact path_inv. Qed.

Theorem C09_step_read : forall fhex fstr numeq o t t',
  pres_step t t' -> read fhex fstr numeq o t = read fhex fstr numeq o t'.
Proof. exact pres_step_read. Qed.

Theorem C09_compose_read : forall fhex fstr numeq o t t',
  chain _ pres_step t t' -> read fhex fstr numeq o t = read fhex fstr numeq o t'.
Proof. exact pres_chain_read. Qed.

(* ---- non-vacuity ------------------------------------------------------------------------------------- *)
Definition nl (s : string) : list N := s2l s ++ [10].
Definition ex_fhex (t : list N) : option (list N) :=
  match py_float_dec t with Some _ => Some t | None => None end.
Definition ex_fstr (t : list N) : list N := t.
Definition ex_numeq (a b : list N) : bool := str_eqb a b.
Definition ex_opts : ropts := mkropts false CaseUpper true true false.

Definition ex_blocks : list block :=
  [ (nl "~Version", [nl " VERS. 2.0 : v"; nl " WRAP.  NO : w"]);
    (nl "~Well", [nl " STRT.M 1.0 : start"; nl " NULL. -999.25 : null"]);
    (nl "~Curve", [nl " DEPT.M : depth"; nl " A.V : a"]);
    (nl "~ASCII", [nl " 1.0 -2.0"; nl " 3.0 -999.25"]);
    (nl "~Params", [nl " X. 1 : x"]) ].
Definition ex_blocks_noise : list block :=
  [ (nl "~Version", [nl ""; nl " VERS. 2.0 : v"; nl "# a comment - with a hyphen"; nl " WRAP.  NO : w"; nl "   "]);
    (nl "~Well", [nl " STRT.M 1.0 : start"; nl "#"; nl " NULL. -999.25 : null"]);
    (nl "~Curve", [nl "   # c"; nl " DEPT.M : depth"; nl " A.V : a"]);
    (nl "~ASCII", [nl "# c - d"; nl " 1.0 -2.0"; nl ""; nl " 3.0 -999.25"; nl " # last"]);
    (nl "~Params", [nl " X. 1 : x"; nl ""]) ].
Definition ex_text : list N := List.concat (render ex_blocks).
Definition ex_text_noise : list N := List.concat (render ex_blocks_noise).

Ltac ins_tac := repeat first [ apply ji_nil | apply ji_keep | apply ji_junk; [vm_compute; reflexivity|] ].

Example C09_ex_hyps :
  lines_keep ex_text = [] ++ render ex_blocks /\ lines_keep ex_text_noise = [] ++ render ex_blocks_noise /\
  Forall wf_block ex_blocks /\ Forall2 skip_ins_block ex_blocks ex_blocks_noise.
Proof.
  split; [vm_compute; reflexivity|]. split; [vm_compute; reflexivity|]. split; [repeat constructor|].
  repeat (apply Forall2_cons || apply Forall2_nil); (split; [reflexivity|]);
    cbn [fst snd];
    match goal with |- match ?t with _ => _ end => let r := eval vm_compute in t in change t with r end; cbv iota; ins_tac.
Qed.

Example C09_ex_read :
  match read ex_fhex ex_fstr ex_numeq ex_opts ex_text,
        read ex_fhex ex_fstr ex_numeq ex_opts ex_text_noise,
        read ex_fhex ex_fstr ex_numeq ex_opts (crlf ex_text_noise) with
  | ROk l, ROk l', ROk l'' =>
      l_data l = [ [CNum (s2l "1.0"); CNum (s2l "3.0")]; [CNum (s2l "-2.0"); CNaN] ] /\ l' = l /\ l'' = l
  | _, _, _ => False
  end.
Proof. vm_compute. repeat split. Qed.

Example C09_ex_lines :
  lines_keep (s2l "a" ++ [13; 10] ++ s2l " b") = [s2l "a" ++ [13; 10]; s2l " b"] /\
  strip (s2l "a" ++ [13; 10]) = s2l "a" /\ crlf (nl "a") = s2l "a" ++ [13; 10] /\
  strip ([9; 32] ++ s2l "x y" ++ [32; 13; 10]) = s2l "x y".
Proof. repeat split; vm_compute; reflexivity. Qed.

Example C09_ex_rewrap :
  List.concat (map (toks DSpace default_subs) [nl "1 2 3"; nl "4 5 6"]) =
  List.concat (map (toks DSpace default_subs) [nl "1"; nl "2 3 4"; nl ""; nl "5 6"]) /\
  normal_engine ex_fhex ex_fstr DSpace default_subs 3 [nl "1"; nl "2 3 4"; nl ""; nl "5 6"] =
  DOk [ [CNum (s2l "1"); CNum (s2l "4")]; [CNum (s2l "2"); CNum (s2l "5")]; [CNum (s2l "3"); CNum (s2l "6")] ].
Proof. split; vm_compute; reflexivity. Qed.

(* a WRAP YES file with three curves, wrapped in two ways *)
Definition ex_wrap_hdr : list block :=
  [ (nl "~Version", [nl " VERS. 2.0 : v"; nl " WRAP. YES : w"]);
    (nl "~Curve", [nl " DEPT.M : depth"; nl " A.V : a"; nl " B.V : b"]) ].
Definition ex_wrap_a : list (list N) := [nl "1.0"; nl "2.0 3.0"; nl "4.0"; nl "5.0 6.0"].
Definition ex_wrap_b : list (list N) := [nl "1.0 2.0"; nl "3.0"; nl ""; nl "4.0 5.0"; nl "6.0"].
Definition ex_wrap_text (body : list (list N)) : list N :=
  List.concat (render (ex_wrap_hdr ++ [(nl "~ASCII", body)])).
Definition ex_normal : ropts := mkropts false CaseUpper false true false.

Example C09_ex_rewrap_rel : rewrap_rel 3 DSpace ex_wrap_a ex_wrap_b.
Proof.
  split; [|split].
  - intros raw subs Hin. apply (clean_lines_subs (ex_wrap_a ++ ex_wrap_b)); [vm_compute; reflexivity|exact Hin].
  - vm_compute. reflexivity.
  - vm_compute. split; exact I.
Qed.

Example C09_ex_rewrap_read :
  read ex_fhex ex_fstr ex_numeq ex_normal (ex_wrap_text ex_wrap_a) =
  read ex_fhex ex_fstr ex_numeq ex_normal (ex_wrap_text ex_wrap_b).
Proof.
  apply (read_rewrap_blocks ex_fhex ex_fstr ex_numeq 3 DSpace ex_normal _ _ [] []
           (ex_wrap_hdr ++ [(nl "~ASCII", ex_wrap_a)]) (ex_wrap_hdr ++ [(nl "~ASCII", ex_wrap_b)])).
  - vm_compute. reflexivity.
  - vm_compute. reflexivity.
  - reflexivity.
  - reflexivity.
  - repeat constructor.
  - repeat constructor.
  - repeat (apply Forall2_cons || apply Forall2_nil); (split; [reflexivity|]);
      try (vm_compute; reflexivity).
    match goal with |- match ?t with _ => _ end => let r := eval vm_compute in t in change t with r end; cbv iota.
    right. exact C09_ex_rewrap_rel.
  - intros ps H. vm_compute in H. injection H as <-. split; [vm_compute; reflexivity|]. split; [vm_compute; reflexivity|].
    split; [vm_compute; reflexivity|]. vm_compute. repeat constructor.
Qed.

Example C09_ex_rewrap_value :
  match read ex_fhex ex_fstr ex_numeq ex_normal (ex_wrap_text ex_wrap_b) with
  | ROk l => l_data l = [ [CNum (s2l "1.0"); CNum (s2l "4.0")]; [CNum (s2l "2.0"); CNum (s2l "5.0")];
                          [CNum (s2l "3.0"); CNum (s2l "6.0")] ]
  | RErr _ => False
  end.
Proof. vm_compute. reflexivity. Qed.

Example C09_ex_redelimit :
  split_ws (s2l "1.5   -2" ++ [9] ++ s2l "x ") = split_ws (s2l " 1.5 -2 x") /\
  toks DSpace default_subs (s2l "1.5   -2" ++ [9] ++ s2l "x ") = [s2l "1.5"; s2l "-2"; s2l "x"] /\
  split_line DComma (join [ch_comma] [s2l "1.5"; s2l "-2"; s2l "x"]) = [s2l "1.5"; s2l "-2"; s2l "x"].
Proof. repeat split; vm_compute; reflexivity. Qed.

Print Assumptions C09_blank_header.
Print Assumptions C09_comment_header.
Print Assumptions C09_skipped_header.
Print Assumptions C09_blank_data.
Print Assumptions C09_comment_data.
Print Assumptions C09_sniff_skipped.
Print Assumptions C09_sniff_blank.
Print Assumptions C09_sniff_comment.
Print Assumptions C09_skipped_data.
Print Assumptions C09_strip_padding.
Print Assumptions C09_strip_idempotent.
Print Assumptions C09_strip_blank.
Print Assumptions C09_padding_map.
Print Assumptions C09_padding_header.
Print Assumptions C09_padding_sections.
Print Assumptions C09_padding_other.
Print Assumptions C09_padding_data.
Print Assumptions C09_padding_read.
Print Assumptions C09_crlf_strip.
Print Assumptions C09_crlf_lines.
Print Assumptions C09_crlf_read.
Print Assumptions C09_final_newline.
Print Assumptions C09_final_newline_read.
Print Assumptions C09_tokens_of_lines.
Print Assumptions C09_rewrap_tokens.
Print Assumptions C09_rewrap_data.
Print Assumptions C09_rewrap_width.
Print Assumptions C09_rewrap_data_clean.
Print Assumptions C09_rewrap_read.
Print Assumptions C09_rewrap_clean_lines.
Print Assumptions C09_redelimit_space.
Print Assumptions C09_redelimit_space_fields.
Print Assumptions C09_redelimit_comma.
Print Assumptions C09_blocks.
Print Assumptions C09_skip_read.
Print Assumptions C09_compose.
Print Assumptions C09_compose_list.
Print Assumptions C09_step_read.
Print Assumptions C09_compose_read.

(* ---- the sniffer of the model IS reader.inspect_data_section as it stands today ---------------------
   Blank and comment lines of ~A neither count as rows of the sampling window nor take part in the hyphen
   test: Model/DataRead.inspect equals, for every input, the function re-translated on this run from /repo
   (py_inspect_data_section in Gen/Funcs.v); see C02_inspect_current and Proofs/FuncsPinInspect.v. *)
From Coq Require Import ZArith.
Require Import Funcs FuncsPinInspect.
Theorem C09_inspect_current : forall d file first last title subs,
  py_inspect_data_section (skipn first file) (Z.of_nat first, Z.of_nat last) (List.map sub_pair subs) [ch_hash]
                          (Some (split_line d))
  = let (n, subs') := inspect d (body_lines file (mkspos first last title)) subs in
    Some (ncols_Z n, List.map sub_pair subs').
Proof. exact inspect_pin. Qed.
Print Assumptions C09_inspect_current.

(* ---- the item stream of the normal engine IS the generator `items` as it stands today ----------------
   Model/DataRead.normal_items (strip, comment test, substitutions, chr(26) removal, empty lines skipped,
   splitting, end of section) equals, for every input, the generator nested in
   reader.read_data_section_iterative_normal_engine re-translated on this run (py_engine_items: the list of
   the values it yields; np.float64 is an operation of num_ops), and the array the engine reshapes is
   np.array of that stream over Sections.body_lines (py_engine_array).  Proofs/FuncsPinEngine.v. *)
Require Import FuncsPinEngine.
Theorem C09_engine_items_current : forall (V F : Type) (nops : num_ops V F) d l first last subs,
  py_engine_items nops l (Z.of_nat first) (Z.of_nat last) [ch_hash] (List.map sub_pair subs) (split_line d)
  = List.map (tok_val nops) (normal_items d subs (firstn (last - first) l)).
Proof. exact engine_items_pin. Qed.
Theorem C09_engine_array_current : forall (V F A : Type) (nops : num_ops V F) (np_array : list (F + list N) -> A) d
                                          file first last title subs,
  py_engine_array nops np_array (skipn first file) (Z.of_nat first, Z.of_nat last) (List.map sub_pair subs) [ch_hash] (split_line d)
  = np_array (List.map (tok_val nops) (normal_items d subs (body_lines file (mkspos first last title)))).
Proof. exact engine_array_pin. Qed.
Print Assumptions C09_engine_items_current.
Print Assumptions C09_engine_array_current.
