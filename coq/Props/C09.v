(* Props.C09 — placeholder; theorems are being added. *)
Require Import PyStr Read.
