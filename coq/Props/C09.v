(* Props.C09 — reading is invariant under presentation-only changes of the text.
   Statements only; proofs in Proofs/StripFacts.v (strip, lines_keep), Proofs/ReadInvProofs.v
   (each consumer of the lines), Proofs/ReadCongr.v (read as a function of what the consumers
   see of each section), Proofs/BlocksCongr.v (blocks of C05; the transformation family).

   Formal reading.  read o text is LASFile.read (Model/Read.v); parse_body the header-items
   loop; normal_items / normal_engine, genfromtxt_rows / numpy_engine the two data engines;
   inspect / inspect_twice the column sniffer.  One theorem per generator of the family, each
   for a change at an ARBITRARY site (a ++ x :: b vs a ++ b), most also for any number of
   changes at once (ins_lines, Forall2 streq), then whole-read theorems and composition.

   Proved at full strength (all texts / line lists; induction, no bound):
     C09_blank_header, C09_comment_header   a blank line / a line whose first non-blank
                         character is a comment character, anywhere in a header section;
     C09_blank_data, C09_comment_data       the same in a data section, for BOTH engines (token
                         stream of the normal engine, rows of the numpy engine, hence the
                         columns), and C09_sniff_blank / C09_sniff_comment / C09_sniff_skipped:
                         the column sniffer (both passes) -- unconditional since the sample
                         window counts data lines (lasio 5035e7a) and hyphens are counted on data
                         lines only (lasio d2ac2bb); both were genuine defects found here;
     C09_strip_padding   strip (ws1 ++ l ++ ws2) = strip l; C09_padding_*: every consumer (header
                         loop, section table, ~Other text, normal engine, numpy engine,
                         sniffer) gives the same result on two line lists that are pointwise
                         equal after strip; C09_padding_read: hence the whole read does;
     C09_crlf_lines, C09_crlf_read          lines_keep of the CRLF text = the LF lines with CR
                         before LF; read (crlf t) = read t;
     C09_final_newline, C09_final_newline_read   with / without the final newline: same lines up
                         to the last terminator; same read;
     C09_rewrap_tokens   the normal engine is a function of the concatenated per-line token
                         lists and of n_columns; C09_rewrap_data / C09_rewrap_data_clean: for a
                         WRAP=YES section the whole data-section read is the same when the
                         reshape width is (C09_rewrap_width: it is the curve count whenever the
                         file declares WRAP YES and the sniffed count is smaller or
                         undetermined) and either the sniffer recommends the same substitutions
                         or the substitutions fire on no line (C09_rewrap_clean_lines);
     C09_rewrap_read     the WHOLE read of a file that says WRAP YES and declares >= m curves is
                         unchanged when its data blocks are re-wrapped at any token boundaries
                         (rewrap_rel m d: equal token streams under the file's delimiter d,
                         substitutions fire on no line, counts sniffed on either wrapping < m);
                         NOTE (audit D5 d): "< m" (sniff_below) EXCLUDES the wrapping with all
                         values of a depth step on one line of a file with m curves, which the
                         quantifier names; C09_rewrap_read_le (block D5 below) has "<= m"
                         (rewrap_rel_le) and covers it; more values on a line than curves stay out;
     C09_redelimit_space the tokens of a SPACE-delimited line are its white-space separated
                         fields: any amount of blanks/tabs between and around them gives the
                         same tokens (lines without quotes / ^Z on which the substitutions do
                         not fire -- C02_sub_identity gives that from "no regex match");
                         C09_redelimit_comma: a comma-joined line splits back into its tokens;
     C09_blocks          read depends on the blocks (C05) only through what each block's consumer
                         sees: equal titles + indistinguishable bodies => equal read, wherever
                         the blocks lie (line numbers shift);
     C09_skip_read       any number of blank / '#' lines at any sites of header and data
                         blocks (and any non-title lines before the first section): equal read;
     C09_compose, C09_compose_read   generic: a relation whose single steps preserve f preserves it
                         along every finite chain (steps in either direction); instantiated
                         with pres_step = ps_ws (white space at line ends, CRLF, final newline)
                         + ps_skip (blank / '#' lines) + ps_blocks (blocks their consumers cannot
                         tell apart) -- NOT the union of all generators above (audit D5 c):
                         re-wrapping and re-spacing / re-delimiting are not steps of pres_step;
     C09_compose_read_ext  (block D5 at the end of the file) the composition theorem over the
                         extended relation pres_step_ext o = pres_step + ps_rewrap (C09_rewrap_read_le)
                         + ps_redelimit d / ps_respace (C09_redelimit_read: data bodies that are
                         line by line alike under the file's delimiter d -- C09_lines_alike_data;
                         for SPACE: plain lines with equal str.split() fields, C09_respace_line,
                         i.e. C09_redelimit_space lifted from token lists to read);
     C09_header_padding  blanks / tabs between the FIELDS of a header line: this is C04's statement
                         (C04_parse_all holds under any padding6); the corollary here says two
                         layouts of the same fields parse to the same item, and
                         C09_header_padding_section turns it into the header premise of
                         C09_blocks / ps_blocks (lines pairwise hline_alike => same items).
   Partial / not claimed:
     - re-wrapping is proved on the domain named above (C09_rewrap_read: sniffed count < m;
       C09_rewrap_read_le: <= m, m <= number of curves); outside it (a wrapping on which a
       run-on-hyphen / decimal-comma substitution fires, or with a physical line that carries
       MORE values than there are curves) lasio's sniffing heuristics decide, and only
       the correspondence checks those.
     - re-spacing of SPACE data is proved for plain lines (no quote characters, no ^Z, no '#'
       inside the line, no substitution fires); TAB: C09_redelimit_read takes line_alike DTab
       as a premise, no closed form of the TAB splitter is proved.
     - COMMA / TAB with padding blanks: the model identifies a numeric cell by its token text,
       so " 1" and "1" are different tokens although float() maps them to the same value; that
       equality is a fact about CPython's float (oracle fhex), exercised by the correspondence
       only (C09_redelimit_comma_unique: under COMMA the model's tokens determine the line).
       Changing DLM itself changes a header item, so it is outside "equal header items".
     - header inter-field spacing is covered through C04 on C04's domain (conformant fields,
       sect_ok); lines outside it (no colon, name_with_dots in ~Curves, ...) only by the
       correspondence.
     - ~Other: blank lines are content there; insertion is not claimed (skip_ins_block demands
       equal bodies for ~O blocks); white space at line ends is covered (the text is built from
       stripped lines). *)
From Coq Require Import List Arith NArith Bool String.
Import ListNotations.
Require Import PyStr Regex NumLit Num Tables SectionParse Sections DataRead Read.
Require Import RegexSubFacts SplitWsFacts StripFacts SectionsProofs JunkProofs ReadInvProofs ReadCongr BlocksCongr RewrapRead.
Open Scope string_scope.
Open Scope list_scope.
Open Scope N_scope.

(* ---- 1. header sections ------------------------------------------------------------------- *)
Theorem C09_blank_header : forall v k c ig cc tr a x b acc,
  strip x = [] ->
  parse_body v k c ig cc tr (a ++ x :: b) acc = parse_body v k c ig cc tr (a ++ b) acc.
Proof. exact blank_header. Qed.

Theorem C09_comment_header : forall v k c ig cc tr a x b acc ch r,
  strip x = ch :: r -> in_str ch cc = true ->
  parse_body v k c ig cc tr (a ++ x :: b) acc = parse_body v k c ig cc tr (a ++ b) acc.
Proof. exact comment_header. Qed.

Theorem C09_skipped_header : forall v k c ig cc tr lines lines' acc,
  ins_lines (fun x => classify v k c cc x = LSkip) lines lines' ->
  parse_body v k c ig cc tr lines' acc = parse_body v k c ig cc tr lines acc.
Proof. exact parse_body_ins_skipped. Qed.

(* ---- 2. data sections ----------------------------------------------------------------------- *)
Theorem C09_blank_data : forall fhex fstr d subs n a x b,
  strip x = [] ->
  normal_items d subs (a ++ x :: b) = normal_items d subs (a ++ b) /\
  genfromtxt_rows (a ++ x :: b) = genfromtxt_rows (a ++ b) /\
  normal_engine fhex fstr d subs n (a ++ x :: b) = normal_engine fhex fstr d subs n (a ++ b) /\
  numpy_engine fhex (a ++ x :: b) = numpy_engine fhex (a ++ b).
Proof. exact blank_data_all. Qed.

Theorem C09_comment_data : forall fhex fstr d subs n a x b,
  startswith [ch_hash] (strip x) = true ->
  normal_items d subs (a ++ x :: b) = normal_items d subs (a ++ b) /\
  genfromtxt_rows (a ++ x :: b) = genfromtxt_rows (a ++ b) /\
  normal_engine fhex fstr d subs n (a ++ x :: b) = normal_engine fhex fstr d subs n (a ++ b) /\
  numpy_engine fhex (a ++ x :: b) = numpy_engine fhex (a ++ b).
Proof. exact comment_data_all. Qed.

Theorem C09_sniff_skipped : forall d subs body body',
  ins_lines (fun x => is_skip x = true) body body' ->
  inspect_twice d body' subs = inspect_twice d body subs.
Proof. exact inspect_twice_ins_skipped. Qed.

Theorem C09_sniff_blank : forall d subs a x b,
  strip x = [] -> inspect_twice d (a ++ x :: b) subs = inspect_twice d (a ++ b) subs.
Proof. exact sniff_blank. Qed.

Theorem C09_sniff_comment : forall d subs a x b,
  startswith [ch_hash] (strip x) = true -> inspect_twice d (a ++ x :: b) subs = inspect_twice d (a ++ b) subs.
Proof. exact sniff_comment. Qed.

(* the three together: the data readers cannot tell the two bodies apart *)
Theorem C09_skipped_data : forall b b',
  ins_lines (fun x => is_skip x = true) b b' -> data_equiv b' b.
Proof. exact data_equiv_ins_skipped. Qed.

(* ---- 3. white space around lines ------------------------------------------------------------- *)
Theorem C09_strip_padding : forall ws1 l ws2,
  forallb is_space ws1 = true -> forallb is_space ws2 = true -> strip (ws1 ++ l ++ ws2) = strip l.
Proof. exact strip_pad. Qed.

Theorem C09_strip_idempotent : forall l, strip (strip l) = strip l.
Proof. exact strip_idem. Qed.

Theorem C09_strip_blank : forall l, strip l = [] <-> forallb is_space l = true.
Proof. exact strip_nil_iff. Qed.

Theorem C09_padding_map : forall pad : list N -> list N,
  (forall l, strip (pad l) = strip l) -> forall ls, Forall2 streq (map pad ls) ls.
Proof. exact Forall2_map_pad. Qed.

Theorem C09_padding_header : forall v k c ig cc tr lines lines',
  Forall2 streq lines lines' ->
  forall acc, parse_body v k c ig cc tr lines acc = parse_body v k c ig cc tr lines' acc.
Proof. exact parse_body_streq. Qed.

Theorem C09_padding_sections : forall ls ls',
  Forall2 streq ls ls' -> find_sections ls = find_sections ls'.
Proof. exact find_sections_streq. Qed.

Theorem C09_padding_other : forall ls ls' p,
  Forall2 streq ls ls' -> other_text ls p = other_text ls' p.
Proof. exact other_text_streq. Qed.

Theorem C09_padding_data : forall b b', Forall2 streq b b' -> data_equiv b b'.
Proof. exact data_equiv_streq. Qed.

Theorem C09_padding_read : forall fhex fstr numeq o t t',
  Forall2 streq (lines_keep t) (lines_keep t') ->
  read fhex fstr numeq o t = read fhex fstr numeq o t'.
Proof. exact read_streq. Qed.

(* ---- 4. CRLF, final newline --------------------------------------------------------------------- *)
Theorem C09_crlf_strip : forall l, strip (l ++ [13; 10]) = strip (l ++ [10]) /\ strip (l ++ [10]) = strip l.
Proof. exact strip_terminators. Qed.

Theorem C09_crlf_lines : forall s,
  lines_keep (crlf s) = map crlf (lines_keep s) /\ Forall2 streq (lines_keep (crlf s)) (lines_keep s).
Proof. exact lines_keep_crlf_both. Qed.

Theorem C09_crlf_read : forall fhex fstr numeq o t,
  read fhex fstr numeq o (crlf t) = read fhex fstr numeq o t.
Proof. exact read_crlf. Qed.

Theorem C09_final_newline : forall t c, c <> 10 ->
  exists ls l, lines_keep (t ++ [c]) = ls ++ [l] /\ lines_keep (t ++ [c; 10]) = ls ++ [l ++ [10]].
Proof. exact lines_keep_final_newline. Qed.

Theorem C09_final_newline_read : forall fhex fstr numeq o t c, c <> 10 ->
  read fhex fstr numeq o (t ++ [c; 10]) = read fhex fstr numeq o (t ++ [c]).
Proof. exact read_final_newline. Qed.

(* ---- 5. re-wrapping, re-delimiting --------------------------------------------------------------- *)
Theorem C09_tokens_of_lines : forall d subs body,
  normal_items d subs body = List.concat (map (toks d subs) body).
Proof. exact normal_items_toks. Qed.

Theorem C09_rewrap_tokens : forall fhex fstr d subs n a b,
  List.concat (map (toks d subs) a) = List.concat (map (toks d subs) b) ->
  normal_items d subs a = normal_items d subs b /\
  normal_engine fhex fstr d subs n a = normal_engine fhex fstr d subs n b.
Proof. exact rewrap_tokens_all. Qed.

Theorem C09_rewrap_data : forall fhex fstr numeq o pw pn d b b' cs wd sn sn' subs,
  hval_is_str pw (s2l "YES") = true ->
  inspect_twice d b (match d with DComma => comma_delim_subs | _ => default_subs end) = (sn, subs) ->
  inspect_twice d b' (match d with DComma => comma_delim_subs | _ => default_subs end) = (sn', subs) ->
  n_columns_of sn (List.length (s_items cs)) wd = n_columns_of sn' (List.length (s_items cs)) wd ->
  List.concat (map (toks d subs) b) = List.concat (map (toks d subs) b') ->
  data_core fhex fstr numeq o pw pn d b cs wd = data_core fhex fstr numeq o pw pn d b' cs wd.
Proof. exact data_core_rewrap. Qed.

Theorem C09_rewrap_data_clean : forall fhex fstr numeq o pw pn d b b' cs wd,
  hval_is_str pw (s2l "YES") = true ->
  (forall raw subs, In raw (b ++ b') -> apply_subs subs (strip raw) = strip raw) ->
  n_columns_of (fst (inspect_twice d b (match d with DComma => comma_delim_subs | _ => default_subs end)))
               (List.length (s_items cs)) wd =
  n_columns_of (fst (inspect_twice d b' (match d with DComma => comma_delim_subs | _ => default_subs end)))
               (List.length (s_items cs)) wd ->
  List.concat (map (toks d []) b) = List.concat (map (toks d []) b') ->
  data_core fhex fstr numeq o pw pn d b cs wd = data_core fhex fstr numeq o pw pn d b' cs wd.
Proof. exact data_core_rewrap_clean. Qed.

(* the whole read: data blocks re-wrapped (rewrap_rel m d: substitutions fire on no line, equal
   token streams, sniffed counts below m), every other block untouched, in a file that says
   WRAP YES and declares at least m curves *)
Theorem C09_rewrap_read : forall fhex fstr numeq m d o t t' pre pre' bs bs',
  lines_keep t = pre ++ render bs -> lines_keep t' = pre' ++ render bs' ->
  notitles pre -> notitles pre' -> Forall wf_block bs -> Forall wf_block bs' ->
  Forall2 (rewrap_block m d) bs bs' ->
  (forall ps, first_pass o (lines_keep t)
                (mkps (VFloat (s2l "2.0")) (VStr (s2l "YES")) None (VStr (s2l "SPACE")) empty_las [] [])
                (find_sections (lines_keep t)) = inl ps ->
     dlm_of (p_dlm ps) = Some d /\ hval_is_str (p_wrapped ps) (s2l "YES") = true /\ wrap_decl (p_las ps) = true /\
     (m <= List.length (s_items (l_curves (p_las ps))))%nat) ->
  read fhex fstr numeq o t = read fhex fstr numeq o t'.
Proof. exact read_rewrap_blocks. Qed.

Theorem C09_rewrap_clean_lines : forall b, forallb clean_line b = true ->
  forall raw subs, In raw b -> apply_subs subs (strip raw) = strip raw.
Proof. exact clean_lines_subs. Qed.

Theorem C09_rewrap_width : forall sn nc,
  (match sn with Some n => (n < nc)%nat | None => True end) -> n_columns_of sn nc true = nc.
Proof. exact n_columns_of_wrapped. Qed.

Theorem C09_redelimit_space : forall subs raw raw',
  startswith [ch_hash] (strip raw) = false -> apply_subs subs (strip raw) = strip raw ->
  in_str 26 raw = false -> in_str 34 raw = false -> in_str 39 raw = false ->
  startswith [ch_hash] (strip raw') = false -> apply_subs subs (strip raw') = strip raw' ->
  in_str 26 raw' = false -> in_str 34 raw' = false -> in_str 39 raw' = false ->
  split_ws raw = split_ws raw' -> toks DSpace subs raw = toks DSpace subs raw'.
Proof. exact toks_space_ws. Qed.

Theorem C09_redelimit_space_fields : forall pairs,
  Forall (fun p => forallb is_space (fst p) = true /\ good_tok (snd p)) pairs ->
  Forall (fun p => fst p <> []) (tl pairs) ->
  in_str 34 (List.concat (map padtok pairs)) = false -> in_str 39 (List.concat (map padtok pairs)) = false ->
  split_line DSpace (List.concat (map padtok pairs)) = map snd pairs.
Proof. exact split_line_space_padded. Qed.

Theorem C09_redelimit_comma : forall ts,
  ts <> [] -> Forall (fun t => in_str ch_comma t = false) ts ->
  split_line DComma (join [ch_comma] ts) = ts.
Proof. exact split_line_comma_join. Qed.

(* ---- 6. whole read on blocks; composition ---------------------------------------------------------- *)
Theorem C09_blocks : forall fhex fstr numeq o t t' pre bs pre' bs',
  lines_keep t = pre ++ render bs -> lines_keep t' = pre' ++ render bs' ->
  notitles pre -> notitles pre' -> Forall wf_block bs -> Forall wf_block bs' ->
  Forall2 block_equiv bs bs' ->
  read fhex fstr numeq o t = read fhex fstr numeq o t'.
Proof. exact read_blocks_congr. Qed.

Theorem C09_skip_read : forall fhex fstr numeq o t t' pre pre' bs bs',
  lines_keep t = pre ++ render bs -> lines_keep t' = pre' ++ render bs' ->
  notitles pre -> notitles pre' -> Forall wf_block bs ->
  Forall2 skip_ins_block bs bs' ->
  read fhex fstr numeq o t' = read fhex fstr numeq o t.
Proof. exact read_ins_skipped. Qed.

Theorem C09_compose : forall (T A : Type) (f : T -> A) (R : T -> T -> Prop),
  (forall x y, R x y -> f x = f y) -> forall x y, chain T R x y -> f x = f y.
Proof. exact chain_inv. Qed.

Theorem C09_compose_list : forall (T A : Type) (f : T -> A) (R : T -> T -> Prop),
  (forall x y, R x y -> f x = f y) -> forall ys x z, path T R x ys z -> f x = f z.
Proof. exact path_inv. Qed.

Theorem C09_step_read : forall fhex fstr numeq o t t',
  pres_step t t' -> read fhex fstr numeq o t = read fhex fstr numeq o t'.
Proof. exact pres_step_read. Qed.

Theorem C09_compose_read : forall fhex fstr numeq o t t',
  chain _ pres_step t t' -> read fhex fstr numeq o t = read fhex fstr numeq o t'.
Proof. exact pres_chain_read. Qed.

(* ---- non-vacuity ------------------------------------------------------------------------------------- *)
Definition nl (s : string) : list N := s2l s ++ [10].
Definition ex_fhex (t : list N) : option (list N) :=
  match py_float_dec t with Some _ => Some t | None => None end.
Definition ex_fstr (t : list N) : list N := t.
Definition ex_numeq (a b : list N) : bool := str_eqb a b.
Definition ex_opts : ropts := mkropts false CaseUpper true true false.

Definition ex_blocks : list block :=
  [ (nl "~Version", [nl " VERS. 2.0 : v"; nl " WRAP.  NO : w"]);
    (nl "~Well", [nl " STRT.M 1.0 : start"; nl " NULL. -999.25 : null"]);
    (nl "~Curve", [nl " DEPT.M : depth"; nl " A.V : a"]);
    (nl "~ASCII", [nl " 1.0 -2.0"; nl " 3.0 -999.25"]);
    (nl "~Params", [nl " X. 1 : x"]) ].
Definition ex_blocks_noise : list block :=
  [ (nl "~Version", [nl ""; nl " VERS. 2.0 : v"; nl "# a comment - with a hyphen"; nl " WRAP.  NO : w"; nl "   "]);
    (nl "~Well", [nl " STRT.M 1.0 : start"; nl "#"; nl " NULL. -999.25 : null"]);
    (nl "~Curve", [nl "   # c"; nl " DEPT.M : depth"; nl " A.V : a"]);
    (nl "~ASCII", [nl "# c - d"; nl " 1.0 -2.0"; nl ""; nl " 3.0 -999.25"; nl " # last"]);
    (nl "~Params", [nl " X. 1 : x"; nl ""]) ].
Definition ex_text : list N := List.concat (render ex_blocks).
Definition ex_text_noise : list N := List.concat (render ex_blocks_noise).

Ltac ins_tac := repeat first [ apply ji_nil | apply ji_keep | apply ji_junk; [vm_compute; reflexivity|] ].

Example C09_ex_hyps :
  lines_keep ex_text = [] ++ render ex_blocks /\ lines_keep ex_text_noise = [] ++ render ex_blocks_noise /\
  Forall wf_block ex_blocks /\ Forall2 skip_ins_block ex_blocks ex_blocks_noise.
Proof.
  split; [vm_compute; reflexivity|]. split; [vm_compute; reflexivity|]. split; [repeat constructor|].
  repeat (apply Forall2_cons || apply Forall2_nil); (split; [reflexivity|]);
    cbn [fst snd];
    match goal with |- match ?t with _ => _ end => let r := eval vm_compute in t in change t with r end; cbv iota; ins_tac.
Qed.

Example C09_ex_read :
  match read ex_fhex ex_fstr ex_numeq ex_opts ex_text,
        read ex_fhex ex_fstr ex_numeq ex_opts ex_text_noise,
        read ex_fhex ex_fstr ex_numeq ex_opts (crlf ex_text_noise) with
  | ROk l, ROk l', ROk l'' =>
      l_data l = [ [CNum (s2l "1.0"); CNum (s2l "3.0")]; [CNum (s2l "-2.0"); CNaN] ] /\ l' = l /\ l'' = l
  | _, _, _ => False
  end.
Proof. vm_compute. repeat split. Qed.

Example C09_ex_lines :
  lines_keep (s2l "a" ++ [13; 10] ++ s2l " b") = [s2l "a" ++ [13; 10]; s2l " b"] /\
  strip (s2l "a" ++ [13; 10]) = s2l "a" /\ crlf (nl "a") = s2l "a" ++ [13; 10] /\
  strip ([9; 32] ++ s2l "x y" ++ [32; 13; 10]) = s2l "x y".
Proof. repeat split; vm_compute; reflexivity. Qed.

Example C09_ex_rewrap :
  List.concat (map (toks DSpace default_subs) [nl "1 2 3"; nl "4 5 6"]) =
  List.concat (map (toks DSpace default_subs) [nl "1"; nl "2 3 4"; nl ""; nl "5 6"]) /\
  normal_engine ex_fhex ex_fstr DSpace default_subs 3 [nl "1"; nl "2 3 4"; nl ""; nl "5 6"] =
  DOk [ [CNum (s2l "1"); CNum (s2l "4")]; [CNum (s2l "2"); CNum (s2l "5")]; [CNum (s2l "3"); CNum (s2l "6")] ].
Proof. split; vm_compute; reflexivity. Qed.

(* a WRAP YES file with three curves, wrapped in two ways *)
Definition ex_wrap_hdr : list block :=
  [ (nl "~Version", [nl " VERS. 2.0 : v"; nl " WRAP. YES : w"]);
    (nl "~Curve", [nl " DEPT.M : depth"; nl " A.V : a"; nl " B.V : b"]) ].
Definition ex_wrap_a : list (list N) := [nl "1.0"; nl "2.0 3.0"; nl "4.0"; nl "5.0 6.0"].
Definition ex_wrap_b : list (list N) := [nl "1.0 2.0"; nl "3.0"; nl ""; nl "4.0 5.0"; nl "6.0"].
Definition ex_wrap_text (body : list (list N)) : list N :=
  List.concat (render (ex_wrap_hdr ++ [(nl "~ASCII", body)])).
Definition ex_normal : ropts := mkropts false CaseUpper false true false.

Example C09_ex_rewrap_rel : rewrap_rel 3 DSpace ex_wrap_a ex_wrap_b.
Proof.
  split; [|split].
  - intros raw subs Hin. apply (clean_lines_subs (ex_wrap_a ++ ex_wrap_b)); [vm_compute; reflexivity|exact Hin].
  - vm_compute. reflexivity.
  - vm_compute. split; exact I.
Qed.

Example C09_ex_rewrap_read :
  read ex_fhex ex_fstr ex_numeq ex_normal (ex_wrap_text ex_wrap_a) =
  read ex_fhex ex_fstr ex_numeq ex_normal (ex_wrap_text ex_wrap_b).
Proof.
  apply (read_rewrap_blocks ex_fhex ex_fstr ex_numeq 3 DSpace ex_normal _ _ [] []
           (ex_wrap_hdr ++ [(nl "~ASCII", ex_wrap_a)]) (ex_wrap_hdr ++ [(nl "~ASCII", ex_wrap_b)])).
  - vm_compute. reflexivity.
  - vm_compute. reflexivity.
  - reflexivity.
  - reflexivity.
  - repeat constructor.
  - repeat constructor.
  - repeat (apply Forall2_cons || apply Forall2_nil); (split; [reflexivity|]);
      try (vm_compute; reflexivity).
    match goal with |- match ?t with _ => _ end => let r := eval vm_compute in t in change t with r end; cbv iota.
    right. exact C09_ex_rewrap_rel.
  - intros ps H. vm_compute in H. injection H as <-. split; [vm_compute; reflexivity|]. split; [vm_compute; reflexivity|].
    split; [vm_compute; reflexivity|]. vm_compute. repeat constructor.
Qed.

Example C09_ex_rewrap_value :
  match read ex_fhex ex_fstr ex_numeq ex_normal (ex_wrap_text ex_wrap_b) with
  | ROk l => l_data l = [ [CNum (s2l "1.0"); CNum (s2l "4.0")]; [CNum (s2l "2.0"); CNum (s2l "5.0")];
                          [CNum (s2l "3.0"); CNum (s2l "6.0")] ]
  | RErr _ => False
  end.
Proof. vm_compute. reflexivity. Qed.

Example C09_ex_redelimit :
  split_ws (s2l "1.5   -2" ++ [9] ++ s2l "x ") = split_ws (s2l " 1.5 -2 x") /\
  toks DSpace default_subs (s2l "1.5   -2" ++ [9] ++ s2l "x ") = [s2l "1.5"; s2l "-2"; s2l "x"] /\
  split_line DComma (join [ch_comma] [s2l "1.5"; s2l "-2"; s2l "x"]) = [s2l "1.5"; s2l "-2"; s2l "x"].
Proof. repeat split; vm_compute; reflexivity. Qed.

Print Assumptions C09_blank_header.
Print Assumptions C09_comment_header.
Print Assumptions C09_skipped_header.
Print Assumptions C09_blank_data.
Print Assumptions C09_comment_data.
Print Assumptions C09_sniff_skipped.
Print Assumptions C09_sniff_blank.
Print Assumptions C09_sniff_comment.
Print Assumptions C09_skipped_data.
Print Assumptions C09_strip_padding.
Print Assumptions C09_strip_idempotent.
Print Assumptions C09_strip_blank.
Print Assumptions C09_padding_map.
Print Assumptions C09_padding_header.
Print Assumptions C09_padding_sections.
Print Assumptions C09_padding_other.
Print Assumptions C09_padding_data.
Print Assumptions C09_padding_read.
Print Assumptions C09_crlf_strip.
Print Assumptions C09_crlf_lines.
Print Assumptions C09_crlf_read.
Print Assumptions C09_final_newline.
Print Assumptions C09_final_newline_read.
Print Assumptions C09_tokens_of_lines.
Print Assumptions C09_rewrap_tokens.
Print Assumptions C09_rewrap_data.
Print Assumptions C09_rewrap_width.
Print Assumptions C09_rewrap_data_clean.
Print Assumptions C09_rewrap_read.
Print Assumptions C09_rewrap_clean_lines.
Print Assumptions C09_redelimit_space.
Print Assumptions C09_redelimit_space_fields.
Print Assumptions C09_redelimit_comma.
Print Assumptions C09_blocks.
Print Assumptions C09_skip_read.
Print Assumptions C09_compose.
Print Assumptions C09_compose_list.
Print Assumptions C09_step_read.
Print Assumptions C09_compose_read.

(* ---- the sniffer of the model IS reader.inspect_data_section as it stands today ---------------------
   Blank and comment lines of ~A neither count as rows of the sampling window nor take part in the hyphen
   test: Model/DataRead.inspect equals, for every input, the function re-translated on this run from /repo
   (py_inspect_data_section in Gen/Funcs.v); see C02_inspect_current and Proofs/FuncsPinInspect.v. *)
From Coq Require Import ZArith.
Require Import Funcs FuncsPinInspect.
Theorem C09_inspect_current : forall d file first last title subs,
  py_inspect_data_section (skipn first file) (Z.of_nat first, Z.of_nat last) (List.map sub_pair subs) [ch_hash]
                          (Some (split_line d))
  = let (n, subs') := inspect d (body_lines file (mkspos first last title)) subs in
    Some (ncols_Z n, List.map sub_pair subs').
Proof. exact inspect_pin. Qed.
Print Assumptions C09_inspect_current.

(* ---- the item stream of the normal engine IS the generator `items` as it stands today ----------------
   Model/DataRead.normal_items (strip, comment test, substitutions, chr(26) removal, empty lines skipped,
   splitting, end of section) equals, for every input, the generator nested in
   reader.read_data_section_iterative_normal_engine re-translated on this run (py_engine_items: the list of
   the values it yields; np.float64 is an operation of num_ops), and the array the engine reshapes is
   np.array of that stream over Sections.body_lines (py_engine_array).  Proofs/FuncsPinEngine.v. *)
Require Import FuncsPinEngine.
Theorem C09_engine_items_current : forall (V F : Type) (nops : num_ops V F) d l first last subs,
  py_engine_items nops l (Z.of_nat first) (Z.of_nat last) [ch_hash] (List.map sub_pair subs) (split_line d)
  = List.map (tok_val nops) (normal_items d subs (firstn (last - first) l)).
Proof. exact engine_items_pin. Qed.
Theorem C09_engine_array_current : forall (V F A : Type) (nops : num_ops V F) (np_array : list (F + list N) -> A) d
                                          file first last title subs,
  py_engine_array nops np_array (skipn first file) (Z.of_nat first, Z.of_nat last) (List.map sub_pair subs) [ch_hash] (split_line d)
  = np_array (List.map (tok_val nops) (normal_items d subs (body_lines file (mkspos first last title)))).
Proof. exact engine_array_pin. Qed.
Print Assumptions C09_engine_items_current.
Print Assumptions C09_engine_array_current.

(* ==== BEGIN block (audit D5): extended family -- re-wrap (sniffed count <= curve count), re-space / re-delimit
   lifted to read, header inter-field padding (C04), composition over the extended step relation ==== *)
Require Import SplitWsFacts PresExt HeaderLineSpec HeaderPadding.
Open Scope list_scope.
Open Scope N_scope.

(* ---- 7. re-wrapping with ALL values of a depth step on one line --------------------------------------
   C09_rewrap_read needs the column count sniffed on either wrapping to be < m (sniff_below), which excludes the
   wrapping "every depth step on one line" of a file with m curves (sniffed = m).  rewrap_rel_le asks for <= m only:
   with WRAP declared the reshape width is the curve count as soon as the sniffed count does not exceed it
   (C09_rewrap_width_le).  Still outside: physical lines that carry MORE values than there are curves (two depth
   steps on one line): lasio then reshapes to the sniffed width. *)
Theorem C09_rewrap_width_le : forall sn nc, sniff_le nc sn -> n_columns_of sn nc true = nc.
Proof. exact n_columns_of_wrapped_le. Qed.

Theorem C09_rewrap_le_weaken : forall m d b b', rewrap_block m d b b' -> rewrap_block_le m d b b'.
Proof. exact rewrap_block_weaken. Qed.

Theorem C09_rewrap_read_le : forall fhex fstr numeq o m d t t' pre pre' bs bs',
  lines_keep t = pre ++ render bs -> lines_keep t' = pre' ++ render bs' ->
  notitles pre -> notitles pre' -> Forall wf_block bs -> Forall wf_block bs' ->
  Forall2 (rewrap_block_le m d) bs bs' ->
  (forall ps, first_pass o (lines_keep t)
                (mkps (VFloat (s2l "2.0")) (VStr (s2l "YES")) None (VStr (s2l "SPACE")) empty_las [] [])
                (find_sections (lines_keep t)) = inl ps ->
     dlm_of (p_dlm ps) = Some d /\
     (hval_is_str (p_wrapped ps) (s2l "YES") = true /\ wrap_decl (p_las ps) = true /\
      (m <= List.length (s_items (l_curves (p_las ps))))%nat)) ->
  read fhex fstr numeq o t = read fhex fstr numeq o t'.
Proof. exact read_rewrap_le. Qed.

(* ---- 8. re-spacing / re-delimiting of data lines, lifted to read ---------------------------------------
   line_alike d x y: the three data readers take the same from the two physical lines under delimiter d (skip flag,
   hyphen flag and token count for the sniffer; tokens after EVERY list of substitutions for the normal engine; numpy
   tokens).  data_alike d: the same for whole bodies.  data_equiv (all delimiters at once) is too strong here: the
   blanks between SPACE-delimited fields are visible under COMMA. *)
Theorem C09_lines_alike_data : forall d b b', Forall2 (line_alike d) b b' -> data_alike d b b'.
Proof. exact lines_alike_data. Qed.

Theorem C09_alike_of_equiv : forall d b b', data_equiv b b' -> data_alike d b b'.
Proof. exact data_equiv_alike. Qed.

Theorem C09_alike_of_streq : forall d x y, streq x y -> line_alike d x y.
Proof. exact line_alike_streq. Qed.

(* SPACE: plain lines (no ^Z, no quote characters, no '#', no read substitution fires) with the same str.split()
   fields -- any blanks / tabs between and around the fields *)
Theorem C09_respace_line : forall x y, plain_line x -> plain_line y -> split_ws x = split_ws y ->
  line_alike DSpace x y.
Proof. exact respace_line_alike. Qed.

Theorem C09_respace_data : forall b b', respace_lines b b' -> data_alike DSpace b b'.
Proof. exact respace_data. Qed.

(* COMMA: the token texts determine the line (the model keeps " 2" and "2" apart, see the header), so two lines
   with equal token lists are the same line: only white space at the line ends can differ (the C09_padding theorems) *)
Theorem C09_redelimit_comma_unique : forall l l', split_line DComma l = split_line DComma l' -> l = l'.
Proof. exact redelimit_comma_unique. Qed.

(* the whole read: data blocks replaced by bodies alike under the file's delimiter d; header / ~Other blocks as
   their consumers see them (rel_block) *)
Theorem C09_redelimit_read : forall fhex fstr numeq o d t t' pre pre' bs bs',
  lines_keep t = pre ++ render bs -> lines_keep t' = pre' ++ render bs' ->
  notitles pre -> notitles pre' -> Forall wf_block bs -> Forall wf_block bs' ->
  Forall2 (alike_block d) bs bs' ->
  (forall ps, first_pass o (lines_keep t)
                (mkps (VFloat (s2l "2.0")) (VStr (s2l "YES")) None (VStr (s2l "SPACE")) empty_las [] [])
                (find_sections (lines_keep t)) = inl ps ->
     dlm_of (p_dlm ps) = Some d /\ True) ->
  read fhex fstr numeq o t = read fhex fstr numeq o t'.
Proof. exact read_alike. Qed.

Theorem C09_respace_block_alike : forall b b', respace_block b b' -> alike_block DSpace b b'.
Proof. exact respace_block_alike. Qed.

(* ---- 9. header lines: inter-field padding is C04's statement --------------------------------------------
   C04_parse_all is padding-independent; hence two layouts of the same four fields parse to the same hline
   (C09_header_padding), two header sections whose lines are pairwise hline_alike (equal after strip, or item lines
   with the same parsed fields) parse to the same items (C09_header_padding_section = the THeader premise of
   block_equiv / rel_block), and C09_blocks / ps_blocks compose it with the rest. *)
Theorem C09_header_padding : forall (p0 p1 p2 p3 p4 p5 q0 q1 q2 q3 q4 q5 mn u v d : list N) (ic ip : bool),
  padding6 p0 p1 p2 p3 p4 p5 = true -> padding6 q0 q1 q2 q3 q4 q5 = true ->
  conf_mnem mn = true -> conf_unit u = true -> conf_text v = true -> conf_text d = true ->
  value_set_off p2 v = true -> value_set_off q2 v = true ->
  sect_ok ic ip (layout p0 mn p1 u p2 v p3 p4 d p5) u v p3 p4 d = true ->
  sect_ok ic ip (layout q0 mn q1 u q2 v q3 q4 d q5) u v q3 q4 d = true ->
  HeaderLine.read_header_line (layout p0 mn p1 u p2 v p3 p4 d p5) ic ip =
  HeaderLine.read_header_line (layout q0 mn q1 u q2 v q3 q4 d q5) ic ip /\
  HeaderLine.read_header_line (layout p0 mn p1 u p2 v p3 p4 d p5) ic ip = Some (HeaderLine.mkhl mn u v d).
Proof. exact header_padding_line. Qed.

Theorem C09_header_padding_section : forall t b b',
  Forall2 (hline_alike (kind_of_title (strip t))) b b' ->
  forall v c ig, parse_section v t c ig [ch_hash] b = parse_section v t c ig [ch_hash] b'.
Proof. exact parse_section_hlines. Qed.

Theorem C09_header_padding_alike : forall k x y (p1 p2 p3 p4 q1 q2 q3 q4 mn u v d : list N),
  strip x = layout [] mn p1 u p2 v p3 p4 d [] -> strip y = layout [] mn q1 u q2 v q3 q4 d [] ->
  padding6 [] p1 p2 p3 p4 [] = true -> padding6 [] q1 q2 q3 q4 [] = true ->
  conf_mnem mn = true -> conf_unit u = true -> conf_text v = true -> conf_text d = true ->
  value_set_off p2 v = true -> value_set_off q2 v = true ->
  sect_ok (kc k) (kp k) (layout [] mn p1 u p2 v p3 p4 d []) u v p3 p4 d = true ->
  sect_ok (kc k) (kp k) (layout [] mn q1 u q2 v q3 q4 d []) u v q3 q4 d = true ->
  hd 0 mn <> ch_hash -> hd 0 mn <> ch_tilde ->
  hline_alike k x y.
Proof. exact header_padding_alike. Qed.

(* ---- 10. composition over the extended family ----------------------------------------------------------
   pres_step_ext o = pres_step (ps_base: ps_ws, ps_skip, ps_blocks) + ps_rewrap (domain rewrap_rel_le, file says
   WRAP YES with >= m curves) + ps_redelimit d (data blocks alike under the file's delimiter d) + ps_respace (its
   SPACE instance on plain lines).  The relation depends on the read options o because the file-level premises of
   ps_rewrap / ps_redelimit speak about first_pass o.  C09_compose_read is kept; it is the ps_base fragment. *)
Theorem C09_step_read_ext : forall fhex fstr numeq o t t',
  pres_step_ext o t t' -> read fhex fstr numeq o t = read fhex fstr numeq o t'.
Proof. exact pres_step_ext_read. Qed.

Theorem C09_compose_read_ext : forall fhex fstr numeq o t t',
  chain _ (pres_step_ext o) t t' -> read fhex fstr numeq o t = read fhex fstr numeq o t'.
Proof. exact pres_chain_ext_read. Qed.

Theorem C09_compose_read_ext_list : forall fhex fstr numeq o t mids t',
  path _ (pres_step_ext o) t mids t' -> read fhex fstr numeq o t = read fhex fstr numeq o t'.
Proof. exact pres_path_ext_read. Qed.

(* ---- non-vacuity of the block --------------------------------------------------------------------------- *)
(* three wrappings of the WRAP YES file above: one value per line group (ex_wrap_a), every depth step on ONE line
   (ex_wrap_full: sniffed count 3 = number of curves, outside rewrap_rel 3, inside rewrap_rel_le 3), and the latter
   re-spaced with tabs and runs of blanks *)
Definition ex_wrap_full : list (list N) := [nl "1.0 2.0 3.0"; nl "4.0 5.0 6.0"].
Definition ex_wrap_full_sp : list (list N) :=
  [s2l "  1.0" ++ [9] ++ s2l "2.0    3.0 " ++ [10]; s2l "4.0  5.0" ++ [9; 9] ++ s2l "6.0" ++ [13; 10]].

Example C09_ex_full_outside_old :
  fst (inspect_twice DSpace ex_wrap_full default_subs) = Some 3%nat /\ ~ rewrap_rel 3 DSpace ex_wrap_a ex_wrap_full.
Proof.
  split; [vm_compute; reflexivity|]. intros (_ & _ & _ & H). vm_compute in H. apply (Nat.lt_irrefl 3). exact H.
Qed.

Example C09_ex_rewrap_rel_le : rewrap_rel_le 3 DSpace ex_wrap_a ex_wrap_full.
Proof.
  split; [|split].
  - intros raw subs Hin. apply (clean_lines_subs (ex_wrap_a ++ ex_wrap_full)); [vm_compute; reflexivity|exact Hin].
  - vm_compute. reflexivity.
  - vm_compute. split; [exact I|]. repeat constructor.
Qed.

Ltac file_tac := intros ps H; vm_compute in H; injection H as <-; vm_compute; repeat split; repeat constructor.

Lemma ex_wrap_step : pres_step_ext ex_normal (ex_wrap_text ex_wrap_a) (ex_wrap_text ex_wrap_full).
Proof.
  apply (ps_rewrap ex_normal 3 DSpace _ _ [] [] (ex_wrap_hdr ++ [(nl "~ASCII", ex_wrap_a)])
                   (ex_wrap_hdr ++ [(nl "~ASCII", ex_wrap_full)])).
  - vm_compute. reflexivity.
  - vm_compute. reflexivity.
  - reflexivity.
  - reflexivity.
  - repeat constructor.
  - repeat constructor.
  - repeat (apply Forall2_cons || apply Forall2_nil); unfold rewrap_block_le, rel_block, rel_view, block_view;
      (split; [reflexivity|]).
    + match goal with |- match ?t with _ => _ end => let r := eval vm_compute in t in change t with r end; cbv iota.
      reflexivity.
    + match goal with |- match ?t with _ => _ end => let r := eval vm_compute in t in change t with r end; cbv iota.
      reflexivity.
    + match goal with |- match ?t with _ => _ end => let r := eval vm_compute in t in change t with r end; cbv iota.
      right. exact C09_ex_rewrap_rel_le.
  - file_tac.
Qed.

Lemma ex_plain : forall x, In x (ex_wrap_full ++ ex_wrap_full_sp) -> plain_line x.
Proof.
  intros x Hin. assert (C : forallb clean_line (ex_wrap_full ++ ex_wrap_full_sp) = true) by (vm_compute; reflexivity).
  assert (B : forallb (fun x => negb (in_str 26 x) && negb (in_str 34 x) && negb (in_str 39 x) && negb (in_str ch_hash x))
                      (ex_wrap_full ++ ex_wrap_full_sp) = true) by (vm_compute; reflexivity).
  rewrite forallb_forall in B. specialize (B x Hin).
  apply andb_true_iff in B as [B B4]. apply andb_true_iff in B as [B B3]. apply andb_true_iff in B as [B1 B2].
  apply negb_true_iff in B1, B2, B3, B4. repeat split; try assumption.
  intros subs. apply (clean_lines_subs _ C). exact Hin.
Qed.

Example C09_ex_respace_lines : respace_lines ex_wrap_full ex_wrap_full_sp.
Proof.
  repeat constructor; try (apply ex_plain; vm_compute; tauto); vm_compute; reflexivity.
Qed.

Lemma ex_respace_step : pres_step_ext ex_normal (ex_wrap_text ex_wrap_full) (ex_wrap_text ex_wrap_full_sp).
Proof.
  apply (ps_respace ex_normal _ _ [] [] (ex_wrap_hdr ++ [(nl "~ASCII", ex_wrap_full)])
                    (ex_wrap_hdr ++ [(nl "~ASCII", ex_wrap_full_sp)])).
  - vm_compute. reflexivity.
  - vm_compute. reflexivity.
  - reflexivity.
  - reflexivity.
  - repeat constructor.
  - repeat constructor.
  - repeat (apply Forall2_cons || apply Forall2_nil); (split; [reflexivity|]);
      match goal with |- match ?t with _ => _ end => let r := eval vm_compute in t in change t with r end; cbv iota;
      try reflexivity.
    exact C09_ex_respace_lines.
  - file_tac.
Qed.

(* one chain through three generators of different kinds: re-wrap, then re-space, then CRLF line ends; the last
   step is taken backwards *)
Example C09_ex_compose_ext :
  read ex_fhex ex_fstr ex_numeq ex_normal (ex_wrap_text ex_wrap_a) =
  read ex_fhex ex_fstr ex_numeq ex_normal (crlf (ex_wrap_text ex_wrap_full_sp)).
Proof.
  apply C09_compose_read_ext.
  apply (chain_fwd _ _ _ _ _ ex_wrap_step). apply (chain_fwd _ _ _ _ _ ex_respace_step).
  eapply chain_bwd; [|apply chain_nil]. apply ps_base, ps_ws. apply lines_keep_crlf_streq.
Qed.

Example C09_ex_compose_ext_value :
  match read ex_fhex ex_fstr ex_numeq ex_normal (crlf (ex_wrap_text ex_wrap_full_sp)) with
  | ROk l => l_data l = [ [CNum (s2l "1.0"); CNum (s2l "4.0")]; [CNum (s2l "2.0"); CNum (s2l "5.0")];
                          [CNum (s2l "3.0"); CNum (s2l "6.0")] ]
  | RErr _ => False
  end.
Proof. vm_compute. reflexivity. Qed.

(* header lines re-padded between the fields: same items, through C04 *)
Example C09_ex_header_padding :
  hline_alike KWell (nl " STRT.M 1.0 : start") (s2l "STRT  .M" ++ [9] ++ s2l "  1.0:start  " ++ [10]) /\
  hline_alike KCurves (nl " DEPT.M : depth") (nl "DEPT   .M      :      depth").
Proof.
  split.
  - apply (header_padding_alike KWell _ _ [] (s2l " ") (s2l " ") (s2l " ") (s2l "  ") ([9] ++ s2l "  ") [] []
                                (s2l "STRT") (s2l "M") (s2l "1.0") (s2l "start"));
      try (vm_compute; reflexivity); vm_compute; discriminate.
  - apply (header_padding_alike KCurves _ _ [] [] (s2l " ") (s2l " ") (s2l "   ") [] (s2l "      ") (s2l "      ")
                                (s2l "DEPT") (s2l "M") [] (s2l "depth"));
      try (vm_compute; reflexivity); vm_compute; discriminate.
Qed.

Example C09_ex_header_padding_section :
  forall v c ig,
  parse_section v (nl "~Well") c ig [ch_hash] [nl " STRT.M 1.0 : start"; nl " NULL. -999.25 : null"] =
  parse_section v (nl "~Well") c ig [ch_hash]
    [s2l "STRT  .M" ++ [9] ++ s2l "  1.0:start  " ++ [10]; nl ""; nl " NULL. -999.25 : null   "].
Proof.
  intros v c ig. unfold parse_section.
  replace (kind_of_title (strip (nl "~Well"))) with KWell by (vm_compute; reflexivity).
  match goal with |- parse_body ?v ?k ?c ?ig ?cc ?tr _ ?acc = _ =>
    transitivity (parse_body v k c ig cc tr
                    [s2l "STRT  .M" ++ [9] ++ s2l "  1.0:start  " ++ [10]; nl " NULL. -999.25 : null   "] acc) end.
  - apply parse_body_hlines. constructor; [exact (proj1 C09_ex_header_padding)|].
    constructor; [left; vm_compute; reflexivity|constructor].
  - symmetry. apply C09_skipped_header. ins_tac.
Qed.

Print Assumptions C09_rewrap_width_le.
Print Assumptions C09_rewrap_le_weaken.
Print Assumptions C09_rewrap_read_le.
Print Assumptions C09_lines_alike_data.
Print Assumptions C09_alike_of_equiv.
Print Assumptions C09_alike_of_streq.
Print Assumptions C09_respace_line.
Print Assumptions C09_respace_data.
Print Assumptions C09_redelimit_comma_unique.
Print Assumptions C09_redelimit_read.
Print Assumptions C09_respace_block_alike.
Print Assumptions C09_header_padding.
Print Assumptions C09_header_padding_section.
Print Assumptions C09_header_padding_alike.
Print Assumptions C09_step_read_ext.
Print Assumptions C09_compose_read_ext.
Print Assumptions C09_compose_read_ext_list.
(* ==== END block (audit D5) ==== *)

(* ---- the header-section loop of the model IS reader.parse_header_items_section as it stands today ----
   Model/SectionParse.parse_section (parse_body: blank and comment lines skipped, the "~" line that ends the
   section, read_line in try / except / else, the ignore_header_errors branch - skip with a warning or
   LASHeaderError -, the mnemonic_case mapping, the parser built from the title, append) equals, for every file,
   pair of line numbers satisfying section_extent (what find_sections produces), version other than 3.0, case,
   flag and comment characters, the function re-translated on this run from /repo
   (py_parse_header_items_section in Gen/Funcs.v).  None = LASHeaderError.  Proofs/FuncsPinParseSection.v. *)
From Coq Require Import ZArith.
Require Import Funcs HeaderLine FuncsPinStandardize FuncsPinNum FuncsPinParseSection.
Theorem C09_parse_section_current : forall fstr fzero file first last title v c ign cc,
  startswith [ch_tilde] (strip (pyo_readline_line (skipn first file))) = true -> v <> V30 ->
  section_extent file first last cc ->
  py_parse_header_items_section (hval_ops fstr fzero) num_hval_ops hsect_ops (skipn first file)
    (Z.of_nat first, Z.of_nat last) v ign (case_str c) (List.map (fun ch : N => [ch]) cc)
  = match parse_section v (pyo_readline_line (skipn first file)) c ign cc (body_lines file (mkspos first last title)) with
    | POk items => Some (case_transforms c, items)
    | PErr _ => None
    end.
Proof. exact parse_section_pin. Qed.
Print Assumptions C09_parse_section_current.
