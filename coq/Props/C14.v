(* Props.C14 — the curve collection of a LASFile behaves like an ordered list model under every
   edit history.  Statements only; proofs in Proofs/CurvesProofs.v (refinement, views) and
   Proofs/CurvesInvProofs.v (invariant); model Model/Curves.v (on Model/Items.v), list model
   Model/CurvesSpec.v.

   Reading.  State = the ~Curves section of a LASFile (Model.Items section whose items carry
   the curve's array as a list of abstract sample ids).  abs projects it to the plain list
   [(original name, (unit, value, descr), array)].  spec_step is the plain list model: it
   knows positions only (append / insert / del / update fields / l[i] = e / set_data).  An
   API call that names a curve by MNEMONIC is resolved to a position through keys() as it is
   at the moment of the call (resolve: list.index on the session mnemonics, exact match);
   how keys() relates to the list is stated separately: C14_obs_keys / C14_obs_keys_exact
   (key n addresses position n, by item access and by list.index) under C13's invariant,
   which C14_inv_* show is kept by every operation.

   C14_refine is ONE equation for every operation: on success the new abstract list is the
   list model's, on failure the exception classes coincide (and a failing call leaves the
   curves alone: step_keep).  C14_refinement / C14_outcomes lift it to all histories by
   induction.  KeyError, ValueError, IndexError, AssertionError occur as in lasio; TypeError
   does not occur on this domain (int positions, arrays / CurveItems as values).

   FULL-STRENGTH / PARTIAL.  The refinement and the view theorems hold for ALL states and
   histories.  The invariant (hence "las[k] finds curve k" for every reachable state) is
   proved with C13's exclusion no_suffix_clash (no literal mnemonic "u:<k>" next to a curve
   named u) -- those theorems are named _partial; without the exclusion they are false
   (C14_keys_refuted: las["A:1"] = array; append A; append A gives keys A:1, A:1, A:2), the
   known finding suffix-clash.
   WHICH session name keys() shows for position n (the refinement observes mnemonic-keyed calls
   through the implementation's own keys(), audit D8) is fixed by the block "audit D8" at the
   end of the file: C14_keys_closed_form_partial (keys = spec_keys of the list model's names on
   histories that never take a curve out of a duplicated group) and C14_set_data_keys.

   The statement's "operations on one LASFile never affect another" is true BY CONSTRUCTION
   in a functional model (a world is a list of sections, wstep rewrites one component):
   C14_independent / C14_independent_history only spell that out.  The obligation that
   carries weight is the correspondence run over pairs of real LASFile objects edited
   alternately (harness/props/c14.py compares every file after every step and checks the
   untouched one did not change).

   Not expressible here: numpy view-vs-copy semantics (set_data stores views of the caller's
   array; append_curve keeps the caller's array object) -- arrays are immutable values;
   object aliasing (one CurveItem object in two LASFiles); pandas DataFrames. *)
From Coq Require Import List NArith ZArith Bool String.
Import ListNotations.
Require Import PyStr Items ItemsSpec ItemsProofs ItemsInvProofs Curves CurvesSpec CurvesProofs CurvesInvProofs.
Open Scope N_scope.

(* ---- refinement, one operation ------------------------------------------------------------ *)
Theorem C14_refine : forall s o, ires_map abs (step s o) = spec_step (abs s) (resolve (keys s) o).
Proof. exact refine. Qed.

Theorem C14_refine_append_curve : forall s a,
  ires_map abs (append_curve s a) = IOk (abs s ++ [entry_of a]).
Proof. exact refine_append_curve. Qed.

Theorem C14_refine_insert_curve : forall s ix a,
  ires_map abs (insert_curve s ix a) = IOk (py_insert ix (entry_of a) (abs s)).
Proof. exact refine_insert_curve. Qed.

Theorem C14_refine_append_curve_item : forall s x,
  ires_map abs (append_curve_item s x) =
  match x with CItem a => IOk (abs s ++ [entry_of a]) | NotCurveItem => IErr AssertionError end.
Proof. exact refine_append_curve_item. Qed.

Theorem C14_refine_insert_curve_item : forall s ix x,
  ires_map abs (insert_curve_item s ix x) =
  match x with CItem a => IOk (py_insert ix (entry_of a) (abs s)) | NotCurveItem => IErr AssertionError end.
Proof. exact refine_insert_curve_item. Qed.

(* delete_curve(mnemonic=, ix=): ValueError for an unknown (or missing) mnemonic, IndexError for
   a position out of range, otherwise `del l[z]` *)
Theorem C14_refine_delete_curve : forall s mn ix,
  ires_map abs (delete_curve s mn ix) =
  match resolve_addr (keys s) mn ix with
  | IOk z => match py_del z (abs s) with Some l => IOk l | None => IErr IndexError end
  | IErr e => IErr e
  end.
Proof. exact refine_delete_curve. Qed.

Theorem C14_refine_update_curve : forall s mn ix u,
  ires_map abs (update_curve s mn ix u) =
  match resolve_addr (keys s) mn ix with
  | IOk z => match py_index (List.length (abs s)) z with
             | Some n => IOk (update_at n (upd_entry u) (abs s))
             | None => IErr IndexError
             end
  | IErr e => IErr e
  end.
Proof. exact refine_update_curve. Qed.

(* replace_curve_item(ix, item) is `l[ix] = e`, negative positions included *)
Theorem C14_refine_replace_curve_item : forall s ix a,
  ires_map abs (replace_curve_item s ix a) =
  match py_set ix (entry_of a) (abs s) with Some l => IOk l | None => IErr IndexError end.
Proof. exact refine_replace_curve_item. Qed.

(* las[k] = value, and its four branches *)
Theorem C14_refine_setitem : forall s k v,
  ires_map abs (setitem s k v) = spec_step (abs s) (resolve (keys s) (OSetItem k v)).
Proof. exact refine_setitem. Qed.
Theorem C14_refine_setitem_array_present : forall s k d n, key_index (keys s) k = Some n ->
  ires_map abs (setitem s k (VArr d)) = spec_step (abs s) (SUpdate (Z.of_nat n) (mkUpd (Some d) None None None)).
Proof. exact refine_setitem_array_present. Qed.
Theorem C14_refine_setitem_array_missing : forall s k d, key_index (keys s) k = None ->
  ires_map abs (setitem s k (VArr d)) = IOk (abs s ++ [(k, ([], [], []), d)]).
Proof. exact refine_setitem_array_missing. Qed.
Theorem C14_refine_setitem_item_mismatch : forall s k a, k <> useful_of (c_mnem a) ->
  setitem s k (VItem a) = IErr KeyError.
Proof. exact refine_setitem_item_mismatch. Qed.
Theorem C14_refine_setitem_item_present : forall s k a n, k = useful_of (c_mnem a) -> key_index (keys s) k = Some n ->
  ires_map abs (setitem s k (VItem a)) = spec_step (abs s) (SReplace (Z.of_nat n) (entry_of a)).
Proof. exact refine_setitem_item_present. Qed.
Theorem C14_refine_setitem_item_missing : forall s k a, k = useful_of (c_mnem a) -> key_index (keys s) k = None ->
  ires_map abs (setitem s k (VItem a)) = IOk (abs s ++ [entry_of a]).
Proof. exact refine_setitem_item_missing. Qed.

Theorem C14_refine_set_data : forall s a names t,
  ires_map abs (set_data s a names t) = spec_set_data (abs s) a names t.
Proof. exact refine_set_data. Qed.
(* bind_cols is total by a clause that set_data never reaches: it always has enough names and
   exactly as many columns as curves *)
Theorem C14_set_data_lengths : forall s (cols : list (list N)) names,
  (List.length (items s) <= List.length cols)%nat ->
  let s1 := extend s (List.length cols - List.length (items s)) in
  (List.length (items s1) <= List.length (names_for s1 names))%nat /\ List.length (items s1) = List.length cols.
Proof. exact set_data_lengths. Qed.

(* ---- refinement, every history -------------------------------------------------------------- *)
Theorem C14_refinement : forall ops s, abs (run s ops) = fold_left spec_keep (resolved s ops) (abs s).
Proof. exact refinement. Qed.
Theorem C14_outcomes : forall ops s, outcomes s ops = spec_outcomes (abs s) (resolved s ops).
Proof. exact outcomes_agree. Qed.

(* ---- the views ---------------------------------------------------------------------------------- *)
(* mnemonic indexing: with pairwise distinct session mnemonics (C13's I1), las[keys()[n]] is the
   array at position n of the list ... *)
Theorem C14_obs_keys : forall s n k, I1 s -> nth_error (keys s) n = Some k ->
  las_getitem s (KStr k) = spec_int (abs s) (Z.of_nat n).
Proof. exact obs_key. Qed.
(* ... and the list.index resolution that delete_curve / update_curve / las[k] = x use finds n *)
Theorem C14_obs_keys_exact : forall s n k, I1 s -> nth_error (keys s) n = Some k -> key_index (keys s) k = Some n.
Proof. exact key_index_own. Qed.
Theorem C14_obs_keys_sound : forall ks k n, key_index ks k = Some n -> nth_error ks n = Some k.
Proof. exact key_index_sound. Qed.
(* a name that is not a key: KeyError from las[k], "not in list" for the resolution *)
Theorem C14_obs_missing_key : forall s k, ~ In k (keys s) -> las_getitem s (KStr k) = IErr KeyError.
Proof. exact obs_missing_key. Qed.
Theorem C14_obs_missing_index : forall ks k, ~ In k ks <-> key_index ks k = None.
Proof. exact key_index_missing. Qed.
(* integer indexing is list indexing, negative and out-of-range positions included *)
Theorem C14_obs_int_index : forall s z, las_getitem s (KInt z) = spec_int (abs s) z.
Proof. exact obs_int. Qed.
Theorem C14_obs_values : forall s, values s = spec_values (abs s).
Proof. exact obs_values. Qed.
Theorem C14_obs_items : forall s, las_items s = combine (keys s) (values s).
Proof. exact obs_items. Qed.
Theorem C14_obs_index : forall s, las_index s = spec_int (abs s) 0.
Proof. exact obs_index. Qed.
Theorem C14_obs_get_curve : forall s n it, I1 s -> nth_error (items s) n = Some it -> get_curve s (sess it) = Some it.
Proof. exact obs_get_curve. Qed.
(* data: defined exactly when all curves have one length r; then it has r rows, one column per
   curve, and column i is curve i *)
Theorem C14_obs_data_defined : forall s r, items s <> [] ->
  (forall it, In it (items s) -> List.length (it_data it) = r) ->
  las_data s = IOk (transpose r (values s)) /\ las_data_shape s = IOk (r, List.length (items s)).
Proof. exact obs_data_defined. Qed.
Theorem C14_obs_data_empty : forall s, items s = [] -> las_data s = IOk [] /\ las_data_shape s = IOk (O, O).
Proof. exact obs_data_empty. Qed.
Theorem C14_obs_data_ragged : forall s a b, In a (items s) -> In b (items s) ->
  List.length (it_data a) <> List.length (it_data b) ->
  las_data s = IErr ValueError /\ las_data_shape s = IErr ValueError.
Proof. exact obs_data_ragged. Qed.
Theorem C14_obs_data_columns : forall s rows i it, las_data s = IOk rows -> nth_error (items s) i = Some it ->
  column i rows = List.map Some (it_data it).
Proof. exact obs_data_columns. Qed.

(* ---- C13's invariant under the curve operations ------------------------------------------------ *)
Theorem C14_inv_fresh : Inv fresh_las.
Proof. exact inv_fresh. Qed.
Theorem C14_inv_read_partial : forall tr l, no_suffix_clash tr (List.map c_mnem l) -> Inv (read_curves tr l).
Proof. exact inv_read. Qed.
(* `brought s o` = the mnemonics the call brings into the curve list (the new curve's name; the
   names list of set_data and "" for its unnamed curves; the key of las[k] = array only when k
   is not yet a key) *)
Theorem C14_inv_step_partial : forall s o,
  Inv s -> no_suffix_clash (transforms s) (origs s ++ brought s o) -> Inv (step_keep s o).
Proof. exact inv_step. Qed.
Theorem C14_inv_reachable_partial : forall s ops,
  Inv s -> no_suffix_clash (transforms s) (origs s ++ brought_all s ops) -> Inv (run s ops).
Proof. exact inv_reachable_from. Qed.
(* the same with the state-independent bound op_names (every key of las[k] = array counted) *)
Theorem C14_inv_reachable_names_partial : forall s ops,
  Inv s -> no_suffix_clash (transforms s) (origs s ++ flat_map op_names ops) -> Inv (run s ops).
Proof. exact inv_reachable_names. Qed.
(* composed: after ANY history from a state with the invariant, key n finds the array at position
   n of the list model driven by the same (resolved) history, and list.index finds n *)
Theorem C14_reachable_lookup_partial : forall s ops n k,
  Inv s -> no_suffix_clash (transforms s) (origs s ++ brought_all s ops) ->
  nth_error (keys (run s ops)) n = Some k ->
  las_getitem (run s ops) (KStr k) = spec_int (fold_left spec_keep (resolved s ops) (abs s)) (Z.of_nat n)
  /\ key_index (keys (run s ops)) k = Some n.
Proof. exact reachable_lookup. Qed.

(* ---- several LASFiles (by construction, see the header) ---------------------------------------- *)
Theorem C14_independent : forall w t o j, j <> t -> nth_error (wstep w t o) j = nth_error w j.
Proof. exact wstep_other. Qed.
(* whatever the interleaving, a LASFile ends where its own sub-history takes it *)
Theorem C14_independent_history : forall ops w t,
  nth_error (wrun w ops) t = option_map (fun s => run s (ops_of t ops)) (nth_error w t).
Proof. exact wrun_projection. Qed.

(* ---- what the pinned tree did (refutations of the pre-fix variants) ------------------------------ *)
Definition cv (m : string) (d : list N) : cargs := mkCargs (s2l m) [] [] [] d.
Definition two_curves : section := run fresh_las [OAppendCurve (cv "A" [1; 2]); OAppendCurve (cv "B" [3; 4])].
(* F11: set_data(truncate=True) with an array wider than the curve list: the list model takes the
   first two columns, the pinned code raised IndexError *)
Theorem C14_truncate_refuted_prefix :
  exists s cols l, spec_set_data (abs s) (Arr2 cols) None true = IOk l /\
                   set_data_truncate_prefix s cols = IErr IndexError /\
                   ires_map abs (set_data s (Arr2 cols) None true) = IOk l.
Proof.
  exists two_curves, [[5; 6]; [7; 8]; [9; 10]]. eexists. split; [vm_compute; reflexivity|].
  split; vm_compute; reflexivity.
Qed.
(* replace_curve_item(-1, item) before 290a2b1: the new item lands one position too early *)
Theorem C14_replace_negative_refuted_prefix :
  exists s a s', replace_curve_item_prefix s (-1) a = IOk s' /\
                 IOk (abs s') <> spec_step (abs s) (SReplace (-1) (entry_of a)).
Proof.
  exists two_curves, (cv "C" [5; 6]). eexists. split; [vm_compute; reflexivity|].
  vm_compute. intro H. discriminate H.
Qed.
(* without C13's exclusion keys() does not identify positions: the known finding suffix-clash *)
Theorem C14_keys_refuted :
  exists ops n k, nth_error (keys (run fresh_las ops)) n = Some k /\
                  las_getitem (run fresh_las ops) (KStr k) <> spec_int (abs (run fresh_las ops)) (Z.of_nat n).
Proof.
  exists [OSetItem (s2l "A:1") (VArr [1; 2]); OAppendCurve (cv "A" [3; 4]); OAppendCurve (cv "A" [5; 6])], 1%nat.
  eexists. split; [vm_compute; reflexivity|]. vm_compute. intro H. discriminate H.
Qed.

(* ---- non-vacuity ----------------------------------------------------------------------------------- *)
Definition ex_ops : list op :=
  [OAppendCurve (cv "A" [1; 2]); OAppendCurve (cv "a" [3; 4]); OInsertCurve (-1) (cv "A" [5; 6]);
   OSetItem (s2l "A:2") (VArr [7; 8]); OSetItem (s2l "B") (VArr [9; 10]); ODelete (Some (s2l "A:1")) None;
   OReplace (-1) (cv "" [11; 12]); OUpdate None (Some (-2)%Z) (mkUpd None (Some (s2l "m")) None None);
   OSetItem (s2l "UNKNOWN") (VItem (cv "" [13; 14])); ODelete (Some (s2l "Z")) None; ODelete None (Some 9%Z);
   OAppendItem NotCurveItem; OSetItem (s2l "X") (VItem (cv "Y" []));
   OSetData (Arr2 [[21; 22]; [23; 24]; [25; 26]; [27; 28]]) (Some [s2l "P"; s2l "P"]) false;
   OSetData (Arr2 [[31; 32]; [33; 34]; [35; 36]; [37; 38]; [39; 40]]) None true;
   OSetData (Arr2 [[41; 42]]) None false].
Example C14_ex_keys :
  keys (run fresh_las ex_ops) = [s2l "P:1"; s2l "P:2"; s2l "UNKNOWN:1"; s2l "UNKNOWN:2"].
Proof. vm_compute. reflexivity. Qed.
Example C14_ex_abs :
  abs (run fresh_las ex_ops) =
  [(s2l "P", ([], [], []), [31; 32]); (s2l "P", (s2l "m", [], []), [33; 34]);
   ([], ([], [], []), [35; 36]); ([], ([], [], []), [37; 38])].
Proof. vm_compute. reflexivity. Qed.
Example C14_ex_outcomes :
  outcomes fresh_las ex_ops =
  [None; None; None; None; None; None; None; None; None; Some ValueError; Some IndexError;
   Some AssertionError; Some KeyError; None; None; Some IndexError].
Proof. vm_compute. reflexivity. Qed.
Example C14_ex_hypothesis : no_suffix_clash false (origs fresh_las ++ brought_all fresh_las ex_ops).
Proof. apply colon_free_no_clash. vm_compute. reflexivity. Qed.
Example C14_ex_inv : Inv (run fresh_las ex_ops).
Proof. apply C14_inv_reachable_partial; [exact C14_inv_fresh|exact C14_ex_hypothesis]. Qed.
Example C14_ex_lookup :
  las_getitem (run fresh_las ex_ops) (KStr (s2l "UNKNOWN:1")) = IOk [35; 36] /\
  las_getitem (run fresh_las ex_ops) (KStr (s2l "unknown:1")) = IErr KeyError /\
  las_getitem (run fresh_las ex_ops) (KInt (-1)) = IOk [37; 38] /\
  las_getitem (run fresh_las ex_ops) (KInt 4) = IErr IndexError.
Proof. vm_compute. repeat split. Qed.
Example C14_ex_data :
  las_data (run fresh_las ex_ops) = IOk [[31; 33; 35; 37]; [32; 34; 36; 38]] /\
  las_data_shape (run fresh_las ex_ops) = IOk (2%nat, 4%nat) /\
  las_data (run fresh_las (ex_ops ++ [OAppendCurve (cv "Q" [1; 2; 3])])) = IErr ValueError.
Proof. vm_compute. repeat split. Qed.
(* a read LASFile (mnemonic_transforms on): "a" joins the group of "A" *)
Example C14_ex_read :
  keys (run (read_curves true [cv "A" [1]; cv "B" [2]; cv "A" [3]]) [OAppendCurve (cv "a" [4]); ODelete None (Some 0%Z)])
  = [s2l "B"; s2l "A:2"; s2l "a:3"].
Proof. vm_compute. reflexivity. Qed.
Example C14_ex_pair :
  List.map keys (wrun [fresh_las; read_curves true [cv "A" [1]]]
                      [(0%nat, OAppendCurve (cv "A" [2])); (1%nat, OAppendCurve (cv "a" [3])); (0%nat, ODelete None (Some 0%Z))])
  = [[]; [s2l "A:1"; s2l "a:2"]].
Proof. vm_compute. reflexivity. Qed.

Print Assumptions C14_refine.
Print Assumptions C14_refine_append_curve.
Print Assumptions C14_refine_insert_curve.
Print Assumptions C14_refine_append_curve_item.
Print Assumptions C14_refine_insert_curve_item.
Print Assumptions C14_refine_delete_curve.
Print Assumptions C14_refine_update_curve.
Print Assumptions C14_refine_replace_curve_item.
Print Assumptions C14_refine_setitem.
Print Assumptions C14_refine_setitem_array_present.
Print Assumptions C14_refine_setitem_array_missing.
Print Assumptions C14_refine_setitem_item_mismatch.
Print Assumptions C14_refine_setitem_item_present.
Print Assumptions C14_refine_setitem_item_missing.
Print Assumptions C14_refine_set_data.
Print Assumptions C14_set_data_lengths.
Print Assumptions C14_refinement.
Print Assumptions C14_outcomes.
Print Assumptions C14_obs_keys.
Print Assumptions C14_obs_keys_exact.
Print Assumptions C14_obs_keys_sound.
Print Assumptions C14_obs_missing_key.
Print Assumptions C14_obs_missing_index.
Print Assumptions C14_obs_int_index.
Print Assumptions C14_obs_values.
Print Assumptions C14_obs_items.
Print Assumptions C14_obs_index.
Print Assumptions C14_obs_get_curve.
Print Assumptions C14_obs_data_defined.
Print Assumptions C14_obs_data_empty.
Print Assumptions C14_obs_data_ragged.
Print Assumptions C14_obs_data_columns.
Print Assumptions C14_inv_fresh.
Print Assumptions C14_inv_read_partial.
Print Assumptions C14_inv_step_partial.
Print Assumptions C14_inv_reachable_partial.
Print Assumptions C14_inv_reachable_names_partial.
Print Assumptions C14_reachable_lookup_partial.
Print Assumptions C14_independent.
Print Assumptions C14_independent_history.
Print Assumptions C14_truncate_refuted_prefix.
Print Assumptions C14_replace_negative_refuted_prefix.
Print Assumptions C14_keys_refuted.

(* ==== BEGIN block (audit D8): keys() against the list model -- closed form of the session names ==== *)
(* The refinement theorems above observe mnemonic-keyed calls through the implementation's own keys() (resolve
   (keys s)); C13's invariant links keys to names only up to "useful name, optionally :<k>" and does not say WHICH k.
   This block fixes it.  spec_keys tr names (Model/ItemsSpec.v) is a function of the list model's names alone: a name
   whose group (matching useful mnemonics: equal, or equal up to case when the file was read with case
   normalisation) has one member shows its useful form (UNKNOWN for a blank), the j-th member of a larger group, in
   list order, shows <useful>:<j>.

   C14_keys_closed_form_partial: after a history the keys ARE spec_keys of the names of the list model driven by the
   same (resolved) history -- so keys [A:2; A:1] for curves [A; A] is excluded -- for histories of
     append_curve / insert_curve / append_curve_item / insert_curve_item, update_curve, las[k] = array (update or
     append), las[k] = CurveItem on a new key, set_data (every form), AND delete_curve / replace_curve_item /
     las[k] = CurveItem on an existing key when the curve taken out has an un-duplicated name at that moment
   (keeps_all, decided on the run).  No exclusion of names is needed (no_suffix_clash plays no part).
   PARTIAL, and what is missing: deleting or replacing a member of a DUPLICATED group.  There the closed form is
   false, because lasio does not re-number on deletion and a replacement re-numbers the group of the new item only
   (C14_keys_closed_form_stale: A, A, delete 0 gives keys [A:2], closed form [A]); what holds for those steps is
   C13_numbering_delete (the other keys are unchanged) and C13_numbering_replace (the new item's group is 1..n in
   list order).  A following set_data with a non-empty array restores the closed form whatever the keys were
   (C14_set_data_keys). *)
Require Import KeysClosedForm KeysClosedFormDel.

Theorem C14_keys_read : forall tr l,
  keys (read_curves tr l) = spec_keys tr (List.map c_mnem l) /\ origs (read_curves tr l) = List.map c_mnem l /\
  transforms (read_curves tr l) = tr.
Proof. exact read_curves_canon. Qed.

Theorem C14_keys_step_partial : forall s o, keys s = spec_keys (transforms s) (origs s) -> keeps s o = true ->
  keys (step_keep s o) = spec_keys (transforms s) (origs (step_keep s o)).
Proof. exact step_keys_keeps. Qed.

Theorem C14_keys_closed_form_partial : forall ops s,
  keys s = spec_keys (transforms s) (origs s) -> keeps_all s ops = true ->
  keys (run s ops) = spec_keys (transforms s) (List.map e_name (fold_left spec_keep (resolved s ops) (abs s))).
Proof. exact keys_closed_form_keeps. Qed.

(* the state-independent sub-class: no delete, no replace, las[k] = CurveItem only on new keys *)
Theorem C14_keys_grows_keeps : forall ops s, grows_all s ops = true -> keeps_all s ops = true.
Proof. exact grows_all_keeps. Qed.

Theorem C14_set_data_keys : forall s cols0 names (t : bool) s',
  size_pos (if t then firstn (List.length (items s)) cols0 else cols0) = true ->
  set_data s (Arr2 cols0) names t = IOk s' ->
  keys s' = spec_keys (transforms s) (origs s') /\ transforms s' = transforms s.
Proof. exact set_data_keys. Qed.

Theorem C14_keys_closed_form_stale :
  let ops := [OAppendCurve (cvA [1]); OAppendCurve (cvA [2]); ODelete None (Some 0%Z)] in
  keeps_all fresh_las ops = false /\
  keys (run fresh_las ops) = [[65; 58; 50]] /\
  spec_keys false (origs (run fresh_las ops)) = [[65]].
Proof. exact keys_closed_form_stale. Qed.

(* non-vacuity: a read LASFile (case normalisation on), duplicates, blanks, deletion and replacement of
   un-duplicated curves, las[k] = ..., set_data *)
Definition ex_keep_ops : list op :=
  [OAppendCurve (cv "a" [4]); OInsertCurve 1 (cv "" [5]); OSetItem (s2l "Q") (VArr [6]); ODelete (Some (s2l "B")) None;
   OAppendItem (CItem (cv "" [7])); OReplace 4 (cv "A" [8]); OSetItem (s2l "UNKNOWN:1") (VArr [9]);
   OSetItem (s2l "R") (VItem (cv "R" [10])); OUpdate None (Some 0%Z) (mkUpd None (Some (s2l "m")) None None);
   ODelete (Some (s2l "nope")) None; OSetItem (s2l "R") (VItem (cv "R" [11]))].
Example C14_ex_keeps :
  let s0 := read_curves true [cv "A" [1]; cv "B" [2]; cv "A" [3]] in
  keys s0 = spec_keys (transforms s0) (origs s0) /\ keeps_all s0 ex_keep_ops = true /\ grows_all s0 ex_keep_ops = false /\
  keys (run s0 ex_keep_ops) = [s2l "A:1"; s2l "UNKNOWN:1"; s2l "A:2"; s2l "a:3"; s2l "A:4"; s2l "UNKNOWN:2"; s2l "R"] /\
  List.map e_name (fold_left spec_keep (resolved s0 ex_keep_ops) (abs s0)) = [s2l "A"; []; s2l "A"; s2l "a"; s2l "A"; []; s2l "R"].
Proof.
  cbv zeta. split; [vm_compute; reflexivity|]. split; [vm_compute; reflexivity|].
  split; [vm_compute; reflexivity|]. split; vm_compute; reflexivity.
Qed.
Example C14_ex_closed_form :
  let s0 := read_curves true [cv "A" [1]; cv "B" [2]; cv "A" [3]] in
  keys (run s0 ex_keep_ops) = spec_keys true (List.map e_name (fold_left spec_keep (resolved s0 ex_keep_ops) (abs s0))).
Proof.
  cbv zeta. apply (C14_keys_closed_form_partial ex_keep_ops (read_curves true [cv "A" [1]; cv "B" [2]; cv "A" [3]])).
  - apply (proj1 C14_ex_keeps).
  - apply (proj1 (proj2 C14_ex_keeps)).
Qed.
(* set_data wipes stale suffixes: A, A, delete 0 -> [A:2]; set_data(2 columns) -> [A, UNKNOWN] *)
Example C14_ex_set_data_keys :
  keys (run fresh_las [OAppendCurve (cvA [1; 2]); OAppendCurve (cvA [3; 4]); ODelete None (Some 0%Z);
                       OSetData (Arr2 [[5; 6]; [7; 8]]) None false]) = [s2l "A"; s2l "UNKNOWN"].
Proof. vm_compute. reflexivity. Qed.

Print Assumptions C14_keys_read.
Print Assumptions C14_keys_step_partial.
Print Assumptions C14_keys_closed_form_partial.
Print Assumptions C14_keys_grows_keeps.
Print Assumptions C14_set_data_keys.
Print Assumptions C14_keys_closed_form_stale.
(* ==== END block (audit D8) ==== *)
