(* Props.C18 — JSON, CSV, Excel, DataFrame and depth views carry the same values as the curves.
   Statements only; the proofs are in Proofs/ExportProofs.v, the model in Model/Export.v.

   Reading.  A LASFile value [las] is its four standard sections (items with session mnemonic,
   original mnemonic, unit, value, description and — for curves — samples), the ~Other text,
   further sections, the two mnemonic_transforms flags and index_unit.  Header values are text,
   Python int, numpy integer, float (finite double [Fin id], NaN, +inf, -inf; np.float64 is a
   float) or None; samples are floats or text.  A finite double is an abstract identifier: no
   floating point is modelled.

   This property is PARTIAL BY NATURE.  Proved here: lasio's own logic — the encoder's value
   mapping and the shape of the JSON document, the CSV header and record layout, the cell
   layout of both Excel sheets, the DataFrame view and its round trip, the index-unit decision
   procedure on the DEPTH_UNITS table generated from defaults.py, and the unit arithmetic in Q.
   Assumed (oracles, exercised by the correspondence run but not proved): that json / csv /
   numpy / pandas / openpyxl store and return what they are handed (openpyxl: numbers to 16
   significant digits, non-finite numbers as empty cells), str() / float() of doubles, str.upper,
   and float64 rounding in depth_m / depth_ft (the identity below is exact in Q; in float64 it
   holds within a few ulp, checked by the harness within 4 ulp).
   JSON has no infinity: the repaired encoder writes +/-inf as null, like NaN (a strict parser
   must accept the text for every LASFile, so an infinite number cannot be "a number"). *)
From Coq Require Import List NArith ZArith Bool String QArith.
Import ListNotations.
Require Import PyStr Tables Export ExportProofs.
Open Scope string_scope.
Open Scope list_scope.
Open Scope N_scope.

(* ------------------------------------------------------------------------------------ *)
(* to_json()/json always produce text a strict JSON parser accepts: for EVERY LASFile value
   the document contains none of the tokens NaN / Infinity / -Infinity. *)
Theorem C18_json_strict : forall l : las, strict_json (to_json l) = true.
Proof. exact to_json_strict. Qed.

(* ... carrying every header value and every curve sample.  Keys are session mnemonics (distinct
   within a section: C13; the hypothesis is only that, duplicates of original mnemonics are
   fine).  [std_items l] = Version, Well, Curves, Parameter. *)
Theorem C18_json_values : forall l : las,
  (forall name its, In (name, its) (std_items l) -> NoDup (map session its) ->
     exists d, dict_get name (jmeta (to_json l)) = Some (JDict d) /\
               forall it, In it its -> dict_get (session it) d = Some (json_of_value (value it)))
  /\ dict_get (s2l "Other") (jmeta (to_json l)) = Some (JText (other l))
  /\ (NoDup (map session (curves l)) ->
      forall c, In c (curves l) ->
        dict_get (session c) (jdata (to_json l)) = Some (map json_of_sample (data c))).
Proof. exact to_json_values. Qed.

(* numbers as numbers (integers stay integers, numpy integers included), text as text,
   NaN as null *)
Theorem C18_json_value_map :
  (forall s, json_of_value (HStr s) = JStr s)
  /\ (forall z, json_of_value (HInt z) = JInt z)
  /\ (forall z, json_of_value (HNpInt z) = JInt z)
  /\ (forall id, json_of_value (HFloat (Fin id)) = JNum id)
  /\ json_of_value (HFloat FNaN) = JNull
  /\ json_of_value HNone = JNull
  /\ (forall id, json_of_sample (SNum (Fin id)) = JNum id)
  /\ json_of_sample (SNum FNaN) = JNull
  /\ (forall s, json_of_sample (SText s) = JStr s).
Proof. exact json_value_map. Qed.

(* ------------------------------------------------------------------------------------ *)
(* to_csv: after the header rows, one record per depth step (n = number of depth steps; a file
   without curves has none), whose fields are, in curve order, str() of that step's sample of
   each curve ([field_of str_of]; that float(str(x)) = x is the oracle).  Rows: unbounded. *)
Theorem C18_csv_rows : forall (str_of : fid -> list N) (l : las) (o : csv_opts) (n : nat),
  (forall c, In c (curves l) -> List.length (data c) = n) ->
  exists rows,
    to_csv str_of l o = Ok (csv_header (curves l) o ++ rows)
    /\ List.length rows = (match curves l with [] => 0 | _ => n end)%nat
    /\ forall i row, nth_error rows i = Some row ->
         Forall2 (fun c f => exists x, nth_error (data c) i = Some x /\ f = field_of str_of x)
                 (curves l) row.
Proof. exact to_csv_rows. Qed.

(* the header rows are exactly the requested ones: [requested] is the curves' original mnemonics
   / units for True, nothing for False, the given list otherwise; a mnemonic row when names were
   requested (with the units in [] or () appended when units were requested and units_loc says
   so), then a unit row when units were requested and units_loc is 'line'. *)
Theorem C18_csv_header : forall (cs : list item) (o : csv_opts),
  let mn := requested (o_mnemonics o) (map orig cs) in
  let un := requested (o_units o) (map unit_ cs) in
  csv_header cs o =
    (match mn with
     | [] => []
     | _ => [ match o_loc o, un with
              | LocSquare, _ :: _ => zip_with (bracketed 91 93) mn un
              | LocRound, _ :: _ => zip_with (bracketed 40 41) mn un
              | _, _ => mn
              end ]
     end)
    ++ (match un, o_loc o with
        | _ :: _, LocLine => [un]
        | _, _ => []
        end).
Proof. exact csv_header_spec. Qed.

(* ------------------------------------------------------------------------------------ *)
(* to_excel.  [xl_get ws r c] is what the sheet holds at (r, c) after the cell writes ws.
   Header sheet: the title row, then one row per item of ~Version, ~Well, ~Parameter, ~Curves
   in that order ([header_items]), holding section, session mnemonic, unit, value, description;
   nothing below.  Curves sheet: column i is curve i — its session mnemonic, then its samples,
   NaN as the empty string; nothing below or to the right. *)
Theorem C18_excel_rows : forall l : las,
  ((forall c, xl_get (excel_header_writes l) 0 c = nth_error title_cells c)
   /\ (forall k nm it c, nth_error (header_items l) k = Some (nm, it) ->
         xl_get (excel_header_writes l) (S k) c = nth_error (item_cells nm it) c)
   /\ (forall r c, (List.length (header_items l) < r)%nat -> xl_get (excel_header_writes l) r c = None))
  /\
  ((forall i c0, nth_error (curves l) i = Some c0 ->
      xl_get (excel_curve_writes l) 0 i = Some (XStr (session c0))
      /\ (forall j x, nth_error (data c0) j = Some x ->
            xl_get (excel_curve_writes l) (S j) i = Some (xcell_of_sample x))
      /\ (forall r, (List.length (data c0) < r)%nat -> xl_get (excel_curve_writes l) r i = None))
   /\ (forall r i, (List.length (curves l) <= i)%nat -> xl_get (excel_curve_writes l) r i = None))
  /\ xcell_of_sample (SNum FNaN) = XStr []
  /\ (forall id, xcell_of_sample (SNum (Fin id)) = XNum (Fin id))
  /\ (forall s, xcell_of_sample (SText s) = XStr s).
Proof.
  intro l. split; [exact (excel_header_spec l)|]. split; [exact (excel_curves_spec l)|].
  repeat split; reflexivity.
Qed.

(* ------------------------------------------------------------------------------------ *)
(* df(): the first curve is the index, the other curves are the columns, by session mnemonic,
   with the same samples.  (The model of set_index is faithful for distinct labels only; the
   statement needs no such hypothesis because the index label is looked up first-match.) *)
Theorem C18_df : forall (l : las) (n : nat),
  (forall c, In c (curves l) -> List.length (data c) = n) ->
  df_view l =
    match curves l with
    | [] => Ok {| df_index_name := None; df_index := []; df_cols := [] |}
    | c0 :: rest => Ok {| df_index_name := Some (session c0); df_index := data c0;
                          df_cols := map (fun c => (session c, data c)) rest |}
    end.
Proof. exact df_view_spec. Qed.

(* set_data_from_df(df()) restores the same curve names and values, and leaves everything else
   alone.  Names: session mnemonics, non-blank and pairwise distinct under the section's own
   comparison ([names_ok]; C13's invariant).  For any str.upper.  (The ORIGINAL mnemonics
   become the session mnemonics: "A","A" come back as "A:1","A:2" — recorded, third clause.) *)
Theorem C18_df_roundtrip : forall (upper : list N -> list N) (l : las) (n : nat) (d : dframe),
  (0 < n)%nat ->
  curves l <> [] ->
  (forall c, In c (curves l) -> List.length (data c) = n) ->
  names_ok upper (curves_ci l) (curves l) ->
  df_view l = Ok d ->
  exists l', set_data_from_df upper d l = Ok l'
    /\ map session (curves l') = map session (curves l)
    /\ map data (curves l') = map data (curves l)
    /\ map orig (curves l') = map session (curves l)
    /\ version l' = version l /\ well l' = well l /\ params l' = params l /\ other l' = other l
    /\ extra l' = extra l /\ index_unit l' = index_unit l.
Proof. exact roundtrip_rows. Qed.

(* no depth steps (this includes the file without curves): the curves are left as they are,
   provided the section is in the state assign_duplicate_suffixes leaves it in *)
Theorem C18_df_roundtrip_norows : forall (upper : list N -> list N) (l : las) (d : dframe),
  (forall c, In c (curves l) -> List.length (data c) = 0%nat) ->
  assign_suffixes upper (curves_ci l) (curves l) = curves l ->
  df_view l = Ok d ->
  exists l', set_data_from_df upper d l = Ok l' /\ curves l' = curves l.
Proof. exact roundtrip_norows. Qed.

(* ------------------------------------------------------------------------------------ *)
(* index unit: read() without index_unit= decides from the units of STRT, STOP, STEP (when
   present in ~Well) and of the first curve, against Tables.depth_units (generated from
   defaults.DEPTH_UNITS on every run).  [spelled upper u ps]: u is a listed spelling of the
   class, or upper-cases to the same text as one — for ANY str.upper. *)
Theorem C18_units_places : forall upper l u,
  In u (check_units upper l) <->
  (exists key it, In key [s2l "STRT"; s2l "STOP"; s2l "STEP"]
                  /\ find_item upper (well_ci l) key (well l) = Some it /\ u = unit_ it)
  \/ (exists c t, curves l = c :: t /\ u = unit_ c).
Proof. exact check_units_places. Qed.

(* recognised: some checked unit is spelled in class k and no checked unit is spelled in another
   class -> index_unit = k *)
Theorem C18_units_recognised : forall upper l k ps,
  In (k, ps) depth_units ->
  (exists u, In u (check_units upper l) /\ spelled upper u ps) ->
  (forall k' ps', In (k', ps') depth_units ->
     (exists u, In u (check_units upper l) /\ spelled upper u ps') -> k' = k) ->
  read_index_unit upper None l = Some k.
Proof. exact units_recognised. Qed.

(* every listed spelling is "spelled"; and, when str.upper maps a-z to A-Z and leaves the other
   ASCII characters alone, so is every ASCII case variant of an ASCII spelling *)
Theorem C18_units_listed : forall upper ps p, In p ps -> spelled upper p ps.
Proof. exact listed_spelled. Qed.
Theorem C18_units_recognised_ascii_case : forall upper, ascii_agree upper ->
  forall ps p u, In p ps -> is_ascii p = true -> is_ascii u = true -> ascii_up u = ascii_up p ->
  spelled upper u ps.
Proof. exact ascii_case_spelled. Qed.

(* the usual file: every checked place carries a spelling (any case) of ONE class k -> index_unit
   = k.  [classes_disjoint upper]: upper-casing does not identify spellings of different classes
   of the table; for today's table it follows from [ascii_agree] and the oracle fact that
   upper-casing keeps a non-ASCII character in the (two Cyrillic) non-ASCII spellings. *)
Theorem C18_units_recognised_all : forall upper, classes_disjoint upper ->
  forall l k ps, In (k, ps) depth_units ->
  check_units upper l <> [] ->
  (forall v, In v (check_units upper l) -> spelled upper v ps) ->
  read_index_unit upper None l = Some k.
Proof. exact units_recognised_all. Qed.
Theorem C18_units_table_disjoint : forall upper,
  ascii_agree upper -> nonascii_kept upper -> classes_disjoint upper.
Proof. exact classes_disjoint_today. Qed.

(* conflict: units spelled in two different classes -> undefined *)
Theorem C18_units_conflict : forall upper l k1 ps1 k2 ps2,
  In (k1, ps1) depth_units -> In (k2, ps2) depth_units -> k1 <> k2 ->
  (exists u, In u (check_units upper l) /\ spelled upper u ps1) ->
  (exists u, In u (check_units upper l) /\ spelled upper u ps2) ->
  read_index_unit upper None l = None.
Proof. exact units_conflict. Qed.

(* nothing recognised -> undefined *)
Theorem C18_units_unrecognised : forall upper l,
  (forall k ps, In (k, ps) depth_units -> ~ exists u, In u (check_units upper l) /\ spelled upper u ps) ->
  read_index_unit upper None l = None.
Proof. exact units_unrecognised. Qed.

(* the table of today's defaults.py: distinct keys, and it contains the spellings the
   documentation lists (an edit of DEPTH_UNITS that drops one breaks this obligation) *)
Definition documented_spellings : list (list N * list N) :=
  [ (s2l "FT", s2l "FT"); (s2l "FT", s2l "F"); (s2l "FT", s2l "FEET"); (s2l "FT", s2l "FOOT");
    (s2l "M", s2l "M"); (s2l "M", s2l "METER"); (s2l "M", s2l "METERS"); (s2l "M", s2l "METRE");
    (s2l "M", s2l "METRES"); (s2l "M", [1084; 1077; 1090; 1077; 1088]); (s2l "M", [1084]);
    (s2l ".1IN", s2l ".1IN"); (s2l ".1IN", s2l "0.1IN"); (s2l ".1IN", s2l ".1INCH"); (s2l ".1IN", s2l "0.1INCH") ].
Definition table_has (kp : list N * list N) : bool :=
  existsb (fun e => str_eqb (fst e) (fst kp) && existsb (str_eqb (snd kp)) (snd e)) depth_units.
Theorem C18_units_table_current :
  NoDup (map fst depth_units) /\ forallb table_has documented_spellings = true.
Proof. split; [exact depth_units_keys_nodup|vm_compute; reflexivity]. Qed.

(* ------------------------------------------------------------------------------------ *)
(* depth_m = depth_ft * 0.3048 (= 381/1250), exactly, in Q, for every class of the table and
   index curves of any length (induction on the rows) *)
Theorem C18_depth_consistent : forall upper, ascii_agree upper ->
  forall k ps, In (k, ps) depth_units ->
  forall xs : list Q, exists m f,
    depth_m upper (Some k) xs = Ok m /\ depth_ft upper (Some k) xs = Ok f
    /\ Forall2 Qeq m (map (fun y => Qmult y k3048) f).
Proof. exact depth_consistent. Qed.

(* ------------------------------------------------------------------------------------ *)
(* non-vacuity and sanity: concrete instances evaluated by the kernel *)
Definition fx (s : string) : sample := SNum (Fin (s2l s)).
Definition ex_well : list item :=
  [ mkItem (s2l "STRT") (s2l "STRT") (s2l "Feet") (HFloat FNaN) (s2l "START") [];
    mkItem (s2l "RUN") (s2l "RUN") [] (HNpInt 7) [] [];
    mkItem (s2l "N") (s2l "N") [] (HInt 5) [] [];
    mkItem (s2l "WELL") (s2l "WELL") [] (HStr (s2l "W1")) [] [];
    mkItem (s2l "X") (s2l "X") [] (HFloat (Fin (s2l "2.5"))) [] [] ].
Definition ex_curves : list item :=
  [ mkItem (s2l "DEPT") (s2l "DEPT") (s2l "ft") (HStr []) [] [fx "1.0"; fx "2.0"];
    mkItem (s2l "A:1") (s2l "A") [] (HStr []) [] [fx "1.5"; SNum FNaN];
    mkItem (s2l "A:2") (s2l "A") [] (HStr []) [] [SText (s2l "abc"); SText []] ].
Definition ex_las : las := mkLas [] ex_well ex_curves [] (s2l "note") [] false false None.

Example C18_ex_json :
  to_json ex_las =
  {| jmeta := [ (s2l "Version", JDict []);
                (s2l "Well", JDict [ (s2l "STRT", JNull); (s2l "RUN", JInt 7); (s2l "N", JInt 5);
                                     (s2l "WELL", JStr (s2l "W1")); (s2l "X", JNum (s2l "2.5")) ]);
                (s2l "Curves", JDict [ (s2l "DEPT", JStr []); (s2l "A:1", JStr []); (s2l "A:2", JStr []) ]);
                (name_params, JDict []); (s2l "Other", JText (s2l "note")) ];
     jdata := [ (s2l "DEPT", [JNum (s2l "1.0"); JNum (s2l "2.0")]);
                (s2l "A:1", [JNum (s2l "1.5"); JNull]);
                (s2l "A:2", [JStr (s2l "abc"); JStr []]) ] |}.
Proof. vm_compute. reflexivity. Qed.

(* strict_json is not trivially true, and the dispatch of the pinned tree violated both JSON
   theorems: the default STRT (NaN) became the token NaN, a numpy integer became null *)
Example C18_ex_strict_rejects :
  strict_json {| jmeta := [(s2l "Well", JDict [(s2l "STRT", JTok FNaN)])]; jdata := [] |} = false.
Proof. reflexivity. Qed.
Example C18_ex_pinned_refuted :
  atom_strict (json_of_value_pinned (HFloat FNaN)) = false
  /\ json_of_value_pinned (HNpInt 7) = JNull /\ json_of_value (HNpInt 7) = JInt 7.
Proof. repeat split; reflexivity. Qed.

Example C18_ex_csv :
  to_csv (fun id => id) ex_las (mkCsvOpts SelTrue SelTrue LocSquare) =
  Ok [ [s2l "DEPT [ft]"; s2l "A []"; s2l "A []"];
       [s2l "1.0"; s2l "1.5"; s2l "abc"];
       [s2l "2.0"; s2l "nan"; []] ].
Proof. vm_compute. reflexivity. Qed.
Example C18_ex_csv_line :
  csv_header ex_curves (mkCsvOpts (SelList [s2l "d"; s2l "a"; s2l "b"]) SelTrue LocLine) =
  [ [s2l "d"; s2l "a"; s2l "b"]; [s2l "ft"; []; []] ].
Proof. vm_compute. reflexivity. Qed.

Example C18_ex_excel :
  xl_get (excel_header_writes ex_las) 2 3 = Some (XInt 7)
  /\ xl_get (excel_header_writes ex_las) 6 1 = Some (XStr (s2l "DEPT"))
  /\ xl_get (excel_curve_writes ex_las) 2 1 = Some (XStr [])
  /\ xl_get (excel_curve_writes ex_las) 1 2 = Some (XStr (s2l "abc"))
  /\ xl_get (excel_curve_writes ex_las) 3 0 = None.
Proof. vm_compute. repeat split; reflexivity. Qed.

Example C18_ex_names_ok : names_ok ascii_up false ex_curves.
Proof.
  split; intros c [<-|[<-|[<-|[]]]]; vm_compute; try reflexivity; repeat constructor.
Qed.
Example C18_ex_roundtrip :
  match df_view ex_las with
  | Ok d => match set_data_from_df ascii_up d ex_las with
            | Ok l' => map session (curves l') = map session ex_curves
                       /\ map data (curves l') = map data ex_curves
            | Err _ => False
            end
  | Err _ => False
  end.
Proof. vm_compute. split; reflexivity. Qed.

(* index unit: STRT says "Feet", the first curve "ft": one class; with a curve in metres they
   conflict; "km" is not a depth unit *)
Example C18_ex_unit_feet : read_index_unit ascii_up None ex_las = Some (s2l "FT").
Proof. vm_compute. reflexivity. Qed.
Definition with_curve0_unit (u : list N) : las :=
  mkLas [] ex_well [mkItem (s2l "DEPT") (s2l "DEPT") u (HStr []) [] []] [] [] [] false false None.
Example C18_ex_unit_conflict : read_index_unit ascii_up None (with_curve0_unit (s2l "metres")) = None.
Proof. vm_compute. reflexivity. Qed.
Example C18_ex_unit_other :
  read_index_unit ascii_up None (mkLas [] [] [mkItem (s2l "T") (s2l "T") (s2l "km") (HStr []) [] []] [] [] [] false false None) = None.
Proof. vm_compute. reflexivity. Qed.
Example C18_ex_ascii_agree : ascii_agree ascii_up.
Proof. intros s _. reflexivity. Qed.
(* the hypotheses of C18_units_table_disjoint are satisfiable (by the ASCII-only upper) *)
Example C18_ex_nonascii_kept : nonascii_kept ascii_up.
Proof.
  intros k ps p Hin Hp A. revert k ps p Hin Hp A.
  assert (H : forallb (fun e => forallb (fun p => implb (negb (is_ascii p)) (negb (is_ascii (ascii_up p)))) (snd e)) depth_units = true)
    by (vm_compute; reflexivity).
  intros k ps p Hin Hp A. rewrite forallb_forall in H. specialize (H (k, ps) Hin).
  rewrite forallb_forall in H. specialize (H p Hp). rewrite A in H. simpl in H.
  apply negb_true_iff. exact H.
Qed.

(* 1000 ft = 304.8 m; 1200 tenth-inches = 10 ft = 3.048 m *)
Example C18_ex_depth :
  depth_m ascii_up (Some (s2l "FT")) [(1000 # 1)%Q] = Ok [((1000 # 1) * (381 # 1250))%Q]
  /\ depth_ft ascii_up (Some (s2l ".1IN")) [(1200 # 1)%Q] = Ok [((1200 # 1) / (120 # 1))%Q]
  /\ depth_m ascii_up None [(1 # 1)%Q] = Err LASUnknownUnitError.
Proof. vm_compute. repeat split; reflexivity. Qed.

Print Assumptions C18_json_strict.
Print Assumptions C18_json_values.
Print Assumptions C18_json_value_map.
Print Assumptions C18_csv_rows.
Print Assumptions C18_csv_header.
Print Assumptions C18_excel_rows.
Print Assumptions C18_df.
Print Assumptions C18_df_roundtrip.
Print Assumptions C18_df_roundtrip_norows.
Print Assumptions C18_units_places.
Print Assumptions C18_units_recognised.
Print Assumptions C18_units_listed.
Print Assumptions C18_units_recognised_ascii_case.
Print Assumptions C18_units_recognised_all.
Print Assumptions C18_units_table_disjoint.
Print Assumptions C18_units_conflict.
Print Assumptions C18_units_unrecognised.
Print Assumptions C18_units_table_current.
Print Assumptions C18_depth_consistent.

(* ---- the NaN / inf -> null decision is the Python's -------------------------------------------------
   json_of_value and json_of_sample equal las._json_value, re-translated on every run from /repo
   (translators/funcs.py -> Gen/Funcs.v: py_json_value), followed by json's own dispatch json_native;
   export_jops (Proofs/FuncsPinJson.v) reads the isinstance tests, np.isfinite, int(x) and float(x) on the
   model's values. *)
Require Import Funcs FuncsPinJson.
Theorem C18_json_value_current : forall v, json_of_value v = json_native (py_json_value export_jops v).
Proof. exact json_value_pin. Qed.
Theorem C18_json_sample_current : forall x,
  json_of_sample x = json_native (py_json_value export_jops (value_of_sample x)).
Proof. exact json_sample_pin. Qed.
Print Assumptions C18_json_value_current.
Print Assumptions C18_json_sample_current.
