(* Proofs.FileRoundTrip — the capstone: Model/Read.v read applied to the text returned by
   Model/Writer.v write gives back the file that was written (the in-memory file after the
   call), at the level of the WHOLE FILE:
     * the four header sections, item by item (metadata as C03 expects them);
     * the ~Other text (each line stripped);
     * the data: as many columns as curves, as many rows as written, every cell the token that
       was written for it (C01), NULL tokens of non-index curves mapped to NaN (C06);
     * no custom section.
   Composition of FileRoundTripText (text -> six blocks), FileRoundTripBlocks (C05: section
   table), FileRoundTripHeader (first pass, C03), FileRoundTripData (data section, C01/C06/C07).
   Hypotheses in this file are on the written LINES where that is simplest (no line is a
   title / contains a newline); Proofs/FileRoundTripLines.v derives them from the items and
   the tokens. *)
From Coq Require Import List Arith NArith ZArith Bool Lia String.
Import ListNotations.
Require Import PyStr Regex NumLit Num HeaderLine Tables SectionParse Sections DataRead Read TextWrap Writer.
Require Import StripFacts SectionsProofs ReadProofs ReadInvProofs ReadCongr BlocksCongr ItemsBindProofs
  OrderTableProofs WriteHeaderProofs WriteOptionsProofs WriteReadProofs WriteDataProofs WriteDataTextProofs
  FileRoundTripText FileRoundTripBlocks FileRoundTripFind FileRoundTripFirstPass FileRoundTripHeader
  FileRoundTripData.
Open Scope string_scope.
Open Scope list_scope.
Open Scope N_scope.

Section WithOracles.
Variable fmtv : list N -> list N -> list N.
Variable fmt_diff : list N -> list N -> list N -> list N.
Variable fmt_pi : list N -> list N.
Variable fstr : list N -> list N.
Variable fzero : list N -> bool.
Variable numeq : list N -> list N -> bool.
Variable fhex : list N -> option (list N).

(* ---- read, from its two passes ------------------------------------------------------------------ *)
Lemma read_of_passes ro text ps d l :
  find_sections (lines_keep text) <> [] ->
  first_pass ro (lines_keep text) ps0 (find_sections (lines_keep text)) = inl ps ->
  dlm_of (p_dlm ps) = Some d -> o_ignore_data ro = false ->
  read_data_sections fhex fstr numeq ro (lines_keep text) ps d
    (match p_data ps with [] => p_las3data ps | x => x end) (p_las ps) = inl l ->
  read fhex fstr numeq ro text = ROk l.
Proof.
  unfold read, ps0. cbv zeta. destruct (find_sections (lines_keep text)) as [|s sl]; [intros H; contradiction|].
  intros _ Hfp Hd Hig Hr. rewrite Hfp, Hd, Hig, Hr. reflexivity.
Qed.

Lemma read_header_only ro text ps d :
  find_sections (lines_keep text) <> [] ->
  first_pass ro (lines_keep text) ps0 (find_sections (lines_keep text)) = inl ps ->
  dlm_of (p_dlm ps) = Some d -> o_ignore_data ro = true ->
  read fhex fstr numeq ro text = ROk (p_las ps).
Proof.
  unfold read, ps0. cbv zeta. destruct (find_sections (lines_keep text)) as [|s sl]; [intros H; contradiction|].
  intros _ Hfp Hd Hig. rewrite Hfp, Hd, Hig. reflexivity.
Qed.

(* ---- hypotheses on the steering items of the written ~Version / ~Well sections ------------------ *)
(* DLM: no item in the name class of DLM (as the reader compares names), or one that says SPACE.
   (The writer sets the value of the item whose SESSION mnemonic is DLM to SPACE in the written
   copy of ~Version; when that item is the one of the name class the hypothesis holds by
   construction; two or more DLM items are outside the statement.) *)
Definition dlm_ok (c : mcase) (hs : hdr_sections) : Prop :=
  match filter (in_class c (s2l "DLM")) (hs_vers_items hs) with
  | [] => True
  | [dit] => vstr fstr (i_value dit) = s2l "SPACE"
  | _ => False
  end.

(* WRAP: when the data are written wrapped there is exactly one WRAP item and it says YES
   (write(wrap=True) sets it) *)
Definition wrap_ok (c : mcase) (hs : hdr_sections) : Prop :=
  hs_wrap hs = true ->
  exists wit, filter (in_class c (s2l "WRAP")) (hs_vers_items hs) = [wit] /\ vstr fstr (i_value wit) = s2l "YES".

Lemma read_value_text_version name s : num s = VStr s -> read_value KVersion name s = VStr s.
Proof. intros H. unfold read_value. destruct (is_number_string name); [reflexivity|exact H]. Qed.

Lemma dlm_read_back c ie hs iV :
  read_back_of fstr (hs_version hs) KVersion c ie (hs_lv hs) (hs_vers_items hs) iV -> dlm_ok c hs ->
  dlm_of (find_val (trc c) (s2l "DLM") iV (VStr (s2l "SPACE"))) = Some DSpace.
Proof.
  intros (PV & MV) H. unfold dlm_ok in H. unfold find_val.
  destruct (filter (in_class c (s2l "DLM")) (hs_vers_items hs)) as [|dit [|d2 r]] eqn:Ef; [| |contradiction].
  - rewrite (read_back_find_absent fstr _ KVersion c [ch_hash] ie (s2l "DLM") eq_refl _ _ iV PV MV Ef). reflexivity.
  - destruct (read_back_find_unique fstr _ KVersion c [ch_hash] ie (s2l "DLM") eq_refl _ _ iV dit PV MV Ef) as (x & Fx & Mx).
    rewrite Fx. replace (i_value x) with (i_value (expected_item fstr KVersion c dit)) by (symmetry; apply (f_equal m_value Mx)).
    unfold expected_item, new_item. cbn [i_value]. rewrite H, read_value_text_version by reflexivity. reflexivity.
Qed.

Lemma wrap_read_back c ie hs iV :
  read_back_of fstr (hs_version hs) KVersion c ie (hs_lv hs) (hs_vers_items hs) iV -> wrap_ok c hs ->
  hs_wrap hs = true ->
  hval_is_str (find_val (trc c) (s2l "WRAP") iV (VStr (s2l "YES"))) (s2l "YES") = true /\
  wrap_decl (mklas (mksect iV (trc c)) (mksect [] false) (mksect [] false) (mksect [] false) [] [] [] false) = true.
Proof.
  intros (PV & MV) H Hw. destruct (H Hw) as (wit & Ef & Ev).
  destruct (read_back_find_unique fstr _ KVersion c [ch_hash] ie (s2l "WRAP") eq_refl _ _ iV wit PV MV Ef) as (x & Fx & Mx).
  assert (Vx : i_value x = VStr (s2l "YES")).
  { replace (i_value x) with (i_value (expected_item fstr KVersion c wit)) by (symmetry; apply (f_equal m_value Mx)).
    unfold expected_item, new_item. cbn [i_value]. rewrite Ev. apply read_value_text_version. reflexivity. }
  unfold find_val, wrap_decl. cbn [l_version s_items s_transforms]. rewrite Fx, Vx. split; reflexivity.
Qed.

Lemma wrap_decl_version l l' : l_version l = l_version l' -> wrap_decl l = wrap_decl l'.
Proof. unfold wrap_decl. intros ->. reflexivity. Qed.

(* ---- the whole file --------------------------------------------------------------------------- *)
(* what is asked of the header of the file in memory after the call (hs: its written form) *)
Definition header_hyps (ro : ropts) (hs : hdr_sections) (vit : hitem) : Prop :=
  let c := o_mcase ro in
  let v := hs_version hs in
  section_ok fstr v KVersion [ch_hash] (hs_vers_items hs) /\
  section_ok fstr v KWell [ch_hash] (s_items (l_well (hs_las hs))) /\
  section_ok fstr v KCurves [ch_hash] (s_items (l_curves (hs_las hs))) /\
  section_ok fstr v KParameter [ch_hash] (s_items (l_params (hs_las hs))) /\
  std_version v /\ fstr_vers_ok fstr /\
  filter (in_class c (s2l "VERS")) (hs_vers_items hs) = [vit] /\
  dlm_ok c hs.

(* the header sections, the ~Other text and the custom sections of what read returns *)
Definition header_read_back (ro : ropts) (hs : hdr_sections) (l : las) : Prop :=
  let c := o_mcase ro in
  map meta (s_items (l_version l)) = map (fun it => meta (expected_item fstr KVersion c it)) (hs_vers_items hs) /\
  map meta (s_items (l_well l)) = map (fun it => meta (expected_item fstr KWell c it)) (s_items (l_well (hs_las hs))) /\
  map meta (s_items (l_curves l)) = map (fun it => meta (expected_item fstr KCurves c it)) (s_items (l_curves (hs_las hs))) /\
  map meta (s_items (l_params l)) = map (fun it => meta (expected_item fstr KParameter c it)) (s_items (l_params (hs_las hs))) /\
  l_other l = other_read (l_other (hs_las hs)) /\
  l_custom l = [] /\
  s_transforms (l_version l) = trc c /\ s_transforms (l_well l) = trc c /\
  s_transforms (l_curves l) = trc c /\ s_transforms (l_params l) = trc c.

(* the NULL value the reader holds after the first pass *)
Definition null_read (ro : ropts) (hs : hdr_sections) : option hval -> Prop := fun pn =>
  match filter (in_class (o_mcase ro) (s2l "NULL")) (s_items (l_well (hs_las hs))) with
  | [] => pn = None
  | [nit] => pn = Some (i_value (expected_item fstr KWell (o_mcase ro) nit))
  | _ => True
  end.

Lemma null_read_back c ie hs iW ro : c = o_mcase ro ->
  read_back_of fstr (hs_version hs) KWell c ie (hs_lw hs) (s_items (l_well (hs_las hs))) iW ->
  null_read ro hs (find_opt (trc c) (s2l "NULL") iW None).
Proof.
  intros -> (PW & MW). unfold null_read, find_opt.
  destruct (filter (in_class (o_mcase ro) (s2l "NULL")) (s_items (l_well (hs_las hs)))) as [|nit [|n2 r]] eqn:Ef; [| |exact I].
  - rewrite (read_back_find_absent fstr _ KWell _ [ch_hash] ie (s2l "NULL") eq_refl _ _ iW PW MW Ef). reflexivity.
  - destruct (read_back_find_unique fstr _ KWell _ [ch_hash] ie (s2l "NULL") eq_refl _ _ iW nit PW MW Ef) as (x & Fx & Mx).
    rewrite Fx. f_equal. apply (f_equal m_value Mx).
Qed.

(* 3. C03 at file level: the first pass (and the whole read when the data are ignored) *)
Theorem read_written_header_lines ro o m text m' hs dl rts vit :
  write fmtv fmt_diff fmt_pi fstr fzero numeq o m = WOk text m' ->
  write_sections fmtv fmt_diff fstr fzero numeq (wo_version o) (wo_wrap o) (col_fmt o 0%nat) m = Some hs ->
  dsh_of fmtv fmt_pi fstr o hs = Some dl ->
  opt_all (map (row_text fmtv fmt_pi o (las_null_text fstr (hs_las hs)) 0%nat) (las_rows (hs_las hs))) = Some rts ->
  data_header_ok (wo_data_section_header o) ->
  lines_nlfree o hs dl (data_lines_of o hs rts) -> bodies_notitle hs (data_lines_of o hs rts) ->
  header_hyps ro hs vit ->
  exists ps p6 l,
    find_sections (lines_keep text) <> [] /\
    first_pass ro (lines_keep text) ps0 (find_sections (lines_keep text)) = inl ps /\
    p_las ps = l /\ header_read_back ro hs l /\ l_data l = [] /\
    version_of (p_version ps) = Some (hs_version hs) /\
    dlm_of (p_dlm ps) = Some DSpace /\
    null_read ro hs (p_null ps) /\
    (wrap_ok (o_mcase ro) hs -> hs_wrap hs = true ->
       hval_is_str (p_wrapped ps) (s2l "YES") = true /\ wrap_decl l = true) /\
    p_data ps = [p6] /\ p_las3data ps = [] /\
    body_lines (lines_keep text) p6 = map add_nl (data_lines_of o hs rts) /\
    (o_ignore_data ro = true -> read fhex fstr numeq ro text = ROk l).
Proof.
  intros Hw Hs Hdl Hrts Hdh Hnl Hnt (OkV & OkW & OkC & OkP & Hstd & Hfs & HuV & Hdlm).
  destruct (written_text_lines fmtv fmt_diff fmt_pi fstr fzero numeq o m text m' Hw)
    as (hs0 & dl0 & rts0 & Hs0 & _ & Hdl0 & Hrts0 & _ & Hlk).
  rewrite Hs in Hs0. injection Hs0 as <-. rewrite Hdl in Hdl0. injection Hdl0 as <-.
  rewrite Hrts in Hrts0. injection Hrts0 as <-. specialize (Hlk Hnl).
  destruct (dsh_of_shape fmtv fmt_pi fstr o hs dl Hdl) as (rest & Edl).
  destruct (first_pass_written fmtv fmt_diff fstr fzero numeq ro _ _ _ m hs o dl (data_lines_of o hs rts) rest vit
              Hs Edl Hdh Hnt OkV OkW OkC OkP Hstd Hfs HuV)
    as (iV & iW & iC & iP & p6 & Hne & Ht6 & Hb6 & RV & RW & RC & RP & Hver & Hfp).
  rewrite <- Hlk in Hne, Hb6, Hfp.
  eexists _, p6, _. split; [exact Hne|]. split; [exact Hfp|]. split; [reflexivity|].
  cbn [p_las p_version p_dlm p_null p_wrapped p_data p_las3data l_data].
  split.
  { unfold header_read_back. cbn [l_version l_well l_curves l_params l_other l_custom s_items s_transforms].
    destruct RV as (_ & MV). destruct RW as (_ & MW). destruct RC as (_ & MC). destruct RP as (_ & MP).
    repeat split; assumption. }
  split; [reflexivity|]. split; [exact Hver|].
  pose proof (dlm_read_back (o_mcase ro) (o_ignore_header_errors ro) hs iV RV Hdlm) as Hd.
  split; [exact Hd|]. split; [apply (null_read_back _ _ hs iW ro eq_refl RW)|].
  split.
  { intros Hwo Hwr. destruct (wrap_read_back (o_mcase ro) (o_ignore_header_errors ro) hs iV RV Hwo Hwr) as (A & B).
    split; [exact A|]. rewrite <- B. apply wrap_decl_version. reflexivity. }
  split; [reflexivity|]. split; [reflexivity|]. split; [exact Hb6|].
  intros Hig. apply (read_header_only ro text _ DSpace Hne Hfp Hd Hig).
Qed.

(* 4. C01 at file level: the whole read *)
Theorem read_written_file_lines ro o m text m' hs dl rts vit nt :
  write fmtv fmt_diff fmt_pi fstr fzero numeq o m = WOk text m' ->
  write_sections fmtv fmt_diff fstr fzero numeq (wo_version o) (wo_wrap o) (col_fmt o 0%nat) m = Some hs ->
  dsh_of fmtv fmt_pi fstr o hs = Some dl ->
  las_null_text fstr (hs_las hs) = Some nt ->
  opt_all (map (row_text fmtv fmt_pi o (Some nt) 0%nat) (las_rows (hs_las hs))) = Some rts ->
  data_header_ok (wo_data_section_header o) ->
  lines_nlfree o hs dl (data_lines_of o hs rts) -> bodies_notitle hs (data_lines_of o hs rts) ->
  header_hyps ro hs vit -> wrap_ok (o_mcase ro) hs ->
  let c := List.length (s_items (l_curves (hs_las hs))) in
  data_hyps fmtv fmt_pi fhex o nt (las_rows (hs_las hs)) c ->
  o_ignore_data ro = false ->
  exists l pn,
    read fhex fstr numeq ro text = ROk l /\
    header_read_back ro hs l /\ null_read ro hs pn /\
    l_data l = data_result fhex numeq ro pn c (tok_matrix fmtv o nt (las_rows (hs_las hs))).
Proof.
  intros Hw Hs Hdl Hnt' Hrts Hdh Hnl Hnt Hh Hwo c Hdat Hig.
  assert (Hrts' : opt_all (map (row_text fmtv fmt_pi o (las_null_text fstr (hs_las hs)) 0%nat) (las_rows (hs_las hs))) = Some rts)
    by (rewrite Hnt'; exact Hrts).
  destruct (read_written_header_lines ro o m text m' hs dl rts vit Hw Hs Hdl Hrts' Hdh Hnl Hnt Hh)
    as (ps & p6 & l0 & Hne & Hfp & Hl0 & Hrb & Hd0 & Hver & Hdlm & Hnull & Hwrap & Hpd & Hp3 & Hb6 & _).
  destruct Hrb as (MV & MW & MC & MP & Hoth & Hcus & TV & TW & TC & TP).
  assert (Hcs : List.length (s_items (l_curves l0)) = c).
  { unfold c. rewrite <- (map_length meta), MC, map_length. reflexivity. }
  (* the data section *)
  assert (Hcore : exists eng,
            data_core fhex fstr numeq ro (p_wrapped ps) (p_null ps) DSpace (map add_nl (data_lines_of o hs rts))
                      (l_curves l0) (wrap_decl l0)
            = inl (l_curves l0, data_result fhex numeq ro (p_null ps) c (tok_matrix fmtv o nt (las_rows (hs_las hs))), eng)).
  { unfold data_lines_of. destruct (hs_wrap hs) eqn:Ewr.
    - destruct (Hwrap Hwo eq_refl) as (Hpw & Hwd). rewrite Hwd. exists false.
      apply (data_core_wrapped fmtv fmt_pi fhex fstr numeq ro _ _ o nt _ c rts _ _ Hdat Hrts Hcs Hpw).
    - apply (data_core_unwrapped fmtv fmt_pi fhex fstr numeq ro _ _ o nt _ c rts _ _ Hdat Hrts Hcs). }
  destruct Hcore as (eng & Hcore).
  eexists _, (p_null ps). split.
  - apply (read_of_passes ro text ps DSpace _ Hne Hfp Hdlm Hig). rewrite Hpd. cbn [read_data_sections].
    rewrite read_one_data_core, Hl0, Hb6, Hcore. reflexivity.
  - cbn [l_version l_well l_curves l_params l_other l_custom l_data]. split; [|split; [exact Hnull|reflexivity]].
    unfold header_read_back. cbn [l_version l_well l_curves l_params l_other l_custom].
    repeat split; assumption.
Qed.

End WithOracles.
