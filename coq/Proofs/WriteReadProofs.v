(* Proofs.WriteReadProofs — the header part of writer.write read back section by section:
   the item lines write emits for ~Version, ~Well, ~Curves, ~Parameter (WriteOptionsProofs:
   write_sections) are read by parse_body as the expected items of the in-memory sections
   after the call (WriteHeaderProofs: section_roundtrip_blanks); ~Other is written from the
   unchanged text.  (C03 capstone; all oracles arbitrary.) *)
From Coq Require Import List Arith NArith ZArith Bool String.
Import ListNotations.
Require Import PyStr Regex NumLit Num HeaderLine Tables SectionParse DataRead Read TextWrap Writer.
Require Import HeaderLineSpec ItemsBindProofs OrderTableProofs WriteHeaderProofs WriteOptionsProofs.
Open Scope string_scope.
Open Scope list_scope.
Open Scope N_scope.

(* every item of the section is conformant, or has a blank mnemonic and no period *)
Definition section_ok (fstr : list N -> list N) (v : las_version) (k : skind) (cc : list N)
           (items : list hitem) : Prop :=
  forall it, In it items ->
    (conf_item fstr k (sec_ord v (sect_table_name k) it) (sec_lw items)
               (sec_mw fstr (sec_ord v (sect_table_name k)) items) it = true /\
     starts_ok cc it = true)
    \/ (conf_blank fstr k (sec_ord v (sect_table_name k) it) it = true /\ in_str 46 cc = false).

(* the same as a boolean (for checking concrete sections by computation) *)
Definition section_okb (fstr : list N -> list N) (v : las_version) (k : skind) (cc : list N)
           (items : list hitem) : bool :=
  forallb (fun it =>
    (conf_item fstr k (sec_ord v (sect_table_name k) it) (sec_lw items)
               (sec_mw fstr (sec_ord v (sect_table_name k)) items) it && starts_ok cc it)
    || (conf_blank fstr k (sec_ord v (sect_table_name k) it) it && negb (in_str 46 cc))) items.

Lemma section_okb_ok fstr v k cc items : section_okb fstr v k cc items = true -> section_ok fstr v k cc items.
Proof.
  unfold section_okb, section_ok. intros H it Hin. rewrite forallb_forall in H.
  specialize (H it Hin). apply orb_true_iff in H as [H|H]; apply andb_true_iff in H as [H1 H2].
  - left. split; assumption.
  - right. split; [exact H1|]. apply negb_true_iff. exact H2.
Qed.

(* the lines read back as the expected items, in order *)
Definition reads_back (fstr : list N -> list N) (v : las_version) (k : skind) (c : mcase) (ie : bool)
           (cc : list N) (tr : bool) (lines : list (list N)) (items : list hitem) : Prop :=
  exists items', parse_body v k c ie cc tr lines [] = POk items' /\
                 map meta items' = map (fun it => meta (expected_item fstr k c it)) items.

Lemma section_ok_unfold fstr v k cc items :
  section_ok fstr v k cc items <->
  (forall it, In it items ->
    (conf_item fstr k (sec_ord v (sect_table_name k) it) (sec_lw items)
               (sec_mw fstr (sec_ord v (sect_table_name k)) items) it = true /\
     starts_ok cc it = true)
    \/ (conf_blank fstr k (sec_ord v (sect_table_name k) it) it = true /\ in_str 46 cc = false)).
Proof. reflexivity. Qed.

Lemma reads_back_unfold fstr v k c ie cc tr lines items :
  reads_back fstr v k c ie cc tr lines items <->
  exists items', parse_body v k c ie cc tr lines [] = POk items' /\
                 map meta items' = map (fun it => meta (expected_item fstr k c it)) items.
Proof. reflexivity. Qed.

Lemma lines_read_back fstr v k c ie cc tr items lines : is_std k = true ->
  section_lines fstr v (sect_table_name k) items = Some lines ->
  section_ok fstr v k cc items -> reads_back fstr v k c ie cc tr lines items.
Proof.
  intros Hk Hl Hok.
  destruct (section_roundtrip_blanks fstr v k c ie cc tr items Hk Hok) as (lines' & items' & Hl' & Hp & Hm).
  rewrite Hl in Hl'. inversion Hl'; subst lines'. exists items'. split; assumption.
Qed.

Section WithOracles.
Variable fmtv : list N -> list N -> list N.
Variable fmt_diff : list N -> list N -> list N -> list N.
Variable fstr : list N -> list N.
Variable fzero : list N -> bool.
Variable numeq : list N -> list N -> bool.

Theorem written_sections_read_back ver wrapo ifmt m hs c ie cc tr :
  write_sections fmtv fmt_diff fstr fzero numeq ver wrapo ifmt m = Some hs ->
  section_ok fstr (hs_version hs) KVersion cc (hs_vers_items hs) ->
  section_ok fstr (hs_version hs) KWell cc (s_items (l_well (hs_las hs))) ->
  section_ok fstr (hs_version hs) KCurves cc (s_items (l_curves (hs_las hs))) ->
  section_ok fstr (hs_version hs) KParameter cc (s_items (l_params (hs_las hs))) ->
  reads_back fstr (hs_version hs) KVersion c ie cc tr (hs_lv hs) (hs_vers_items hs) /\
  reads_back fstr (hs_version hs) KWell c ie cc tr (hs_lw hs) (s_items (l_well (hs_las hs))) /\
  reads_back fstr (hs_version hs) KCurves c ie cc tr (hs_lc hs) (s_items (l_curves (hs_las hs))) /\
  reads_back fstr (hs_version hs) KParameter c ie cc tr (hs_lp hs) (s_items (l_params (hs_las hs))).
Proof.
  intros Hw Hv Hwl Hc Hp.
  destruct (write_sections_lines fmtv fmt_diff fstr fzero numeq ver wrapo ifmt m hs Hw) as (Lv & Lw & Lc & Lp).
  split; [|split; [|split]].
  - exact (lines_read_back fstr _ KVersion c ie cc tr _ _ eq_refl Lv Hv).
  - exact (lines_read_back fstr _ KWell c ie cc tr _ _ eq_refl Lw Hwl).
  - exact (lines_read_back fstr _ KCurves c ie cc tr _ _ eq_refl Lc Hc).
  - exact (lines_read_back fstr _ KParameter c ie cc tr _ _ eq_refl Lp Hp).
Qed.

(* what write does to the file in memory, as far as the header items go: ~Curves items keep
   everything but (for the first) the unit; ~Well / ~Parameter values are standardized; the
   ~Other text and the data are untouched *)
Lemma refresh_sss_other f mm l2 :
  refresh_sss fmtv fmt_diff numeq f mm = Some l2 -> l_other l2 = l_other (m_las mm).
Proof.
  unfold refresh_sss. cbv zeta. unfold bind.
  repeat (match goal with
          | |- context [match ?x with Some _ => _ | None => None end] => destruct x; [|discriminate]
          end).
  intros [= <-]. reflexivity.
Qed.

Theorem write_sections_other ver wrapo ifmt m hs :
  write_sections fmtv fmt_diff fstr fzero numeq ver wrapo ifmt m = Some hs ->
  l_other (hs_las hs) = l_other (m_las m).
Proof.
  unfold write_sections.
  destruct wrapo as [[|]|];
    [ | | destruct (sect_find (s_transforms (l_version (m_las m))) (s2l "WRAP") (s_items (l_version (m_las m)))); [|discriminate] ];
    cbv zeta;
    (match goal with |- context [match ?x with Some v => _ | None => None end] =>
       destruct x as [v|]; [|discriminate] end);
    (match goal with |- context [refresh_sss ?a ?b ?c ?d ?e] =>
       destruct (refresh_sss a b c d e) as [l2|] eqn:Hr; [|discriminate] end);
    repeat (match goal with |- context [match section_lines ?a ?b ?c ?d with _ => _ end] =>
              destruct (section_lines a b c d) as [?|]; [|discriminate] end);
    intros [= <-]; cbn [hs_las with_params with_well l_other];
    rewrite (refresh_sss_other _ _ _ Hr); reflexivity.
Qed.
End WithOracles.
