(* Proofs.FuncsPinEngine — Model/DataRead.normal_items (the item stream of the normal engine: strip, comment
   test, substitutions, removal of chr(26), skipping of empty lines, splitting, end-of-section test) IS the
   generator `items` of reader.read_data_section_iterative_normal_engine (Gen/Funcs.v: py_engine_items,
   re-translated from /repo on every run; the generator is presented as the list of the values it yields), and
   the array the engine starts from is np.array of that list for the lines Sections.body_lines gives
   (py_engine_array: `title = file_obj.readline()` ... `array = np.array([i for i in items(...)])`).
   np.float64(item) is an operation of num_ops (None: ValueError): a yielded value is inl x when it converts,
   else inr item.  Restated as C09_engine_items_current / C02_engine_items_current. *)
From Coq Require Import List Arith NArith ZArith Bool Lia ZifyBool ZifyN ZifyNat String.
Import ListNotations.
Require Import PyStr Regex Regexes Funcs Sections DataRead FuncsPinsLib RegexSubFacts StripFacts FuncsPinInspect.
Open Scope list_scope.
Open Scope N_scope.

Definition tok_val {V F : Type} (nops : num_ops V F) (t : list N) : F + list N :=
  match np_float64 nops t with Some x => inl x | None => inr t end.

Lemma enumerate_from_cons {A} : forall (x : A) l k,
  pyo_enumerate_from k (x :: l) = (k, x) :: pyo_enumerate_from (k + 1) l.
Proof.
  intros x l k. unfold pyo_enumerate_from, pyo_llen. rewrite !range_seq. cbn [List.length seq List.map combine].
  rewrite Z.add_0_r. f_equal. f_equal. rewrite <- seq_shift, !map_map. apply map_ext. intros i. lia.
Qed.

Theorem engine_items_pin : forall (V F : Type) (nops : num_ops V F) (d : dlm) (l : list (list N)) (first last : nat)
                                  (subs : list rsub),
  py_engine_items nops l (Z.of_nat first) (Z.of_nat last) [ch_hash] (List.map sub_pair subs) (split_line d)
  = List.map (tok_val nops) (normal_items d subs (firstn (last - first) l)).
Proof.
  intros V F nops d l first last subs. unfold py_engine_items.
  match goal with |- context [fold_left ?F0 (pyo_enumerate_from _ _) _] => set (G := F0) end.
  assert (Hinl : forall l t, fold_left G l (inl t) = inl t).
  { induction l0 as [|x l0 IH]; intros t; [reflexivity|]. exact (IH t). }
  assert (Hinner : forall toks out,
    fold_left (fun (v_out_ : list (F + list N)) (v_item : list N) =>
                 match obind (obind (np_float64 nops v_item) (fun t4_ => Some (inl t4_)))
                             (fun t5_ : F + list N => Some (v_out_ ++ [t5_])) with
                 | Some v_out_0 => v_out_0
                 | None => v_out_ ++ [inr v_item]
                 end) (List.map (fun v_t : list N => v_t) toks) out
    = out ++ List.map (tok_val nops) toks).
  { induction toks as [|t toks IH]; intros out; [cbn; rewrite app_nil_r; reflexivity|].
    cbn [List.map fold_left]. rewrite IH. unfold tok_val at 2.
    destruct (np_float64 nops t); cbn [obind]; rewrite <- app_assoc; reflexivity. }
  assert (Hloop : forall l ln out,
    match fold_left G (pyo_enumerate_from (Z.of_nat ln + 1) l) (inr out) with inl t => t | inr t => t end
    = out ++ List.map (tok_val nops) (normal_items d subs (firstn (last - ln) l))).
  { induction l0 as [|x l0 IH]; intros ln out.
    - rewrite firstn_nil. cbn. rewrite app_nil_r. reflexivity.
    - rewrite enumerate_from_cons. cbn [fold_left]. unfold G at 2.
      replace (Z.of_nat ln + 1 + 1)%Z with (Z.of_nat (S ln) + 1)%Z by lia.
      destruct (Z.of_nat last <? Z.of_nat ln + 1)%Z eqn:Elast.
      + rewrite Hinl. replace (last - ln)%nat with 0%nat by lia. cbn. rewrite app_nil_r. reflexivity.
      + replace (last - ln)%nat with (S (last - S ln)) by lia. cbn [firstn normal_items].
        rewrite strip_nl_inner. unfold ch_hash.
        destruct (startswith [35] (strip x)); [exact (IH (S ln) out)|].
        rewrite apply_subs_fold.
        destruct (remove_char 26 (apply_subs subs (strip x))) as [|c r] eqn:Er.
        * cbn [pyo_len List.length]. exact (IH (S ln) out).
        * replace (pyo_len (c :: r) =? 0)%Z with false by (unfold pyo_len; cbn [List.length]; lia).
          rewrite Hinner, map_app, app_assoc.
          destruct (Z.of_nat ln + 1 =? Z.of_nat last)%Z eqn:Eeq.
          { rewrite Hinl. replace (last - S ln)%nat with 0%nat by lia. cbn [firstn normal_items List.map].
            rewrite app_nil_r. reflexivity. }
          exact (IH (S ln) _). }
  rewrite Hloop. reflexivity.
Qed.

(* the array the engine works on: np.array of the item stream of the section's body lines *)
Theorem engine_array_pin : forall (V F A : Type) (nops : num_ops V F) (np_array : list (F + list N) -> A) (d : dlm)
                                  (file : list (list N)) (first last : nat) (title : list N) (subs : list rsub),
  py_engine_array nops np_array (skipn first file) (Z.of_nat first, Z.of_nat last) (List.map sub_pair subs) [ch_hash] (split_line d)
  = np_array (List.map (tok_val nops) (normal_items d subs (body_lines file (mkspos first last title)))).
Proof.
  intros. unfold py_engine_array, body_lines, pyo_readline_rest. cbn [sp_first sp_last]. rewrite skipn_rest, map_id.
  rewrite engine_items_pin. reflexivity.
Qed.
