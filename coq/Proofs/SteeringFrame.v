(* Proofs.SteeringFrame — C05, last clause, at the level of `read` / `first_pass` (audit item D6):
   "an item in one section never changes how another section or the data is interpreted: only
    ~Version's VERS, WRAP and DLM and ~Well's NULL steer parsing."

   * read_steering o text : the four steering values (version, wrap, null, delimiter) that the
     first pass of `read` ends with, and with which every data section is read
     (read_uses_steering: `read` is a function of that first pass);
   * first_pass_steering / read_steering_frame: two line lists whose sections correspond by
     title and whose ~V sections agree on the lookups VERS / WRAP / DLM and whose ~W sections
     agree on the lookup NULL end with the same steering values -- NOTHING is asked of the
     bodies of any other section, nor of NULL in ~V, nor of VERS / WRAP / DLM in ~W;
   * read_steering_blocks: the syntactic instance on blocks: lines inserted anywhere into header
     blocks, that are no titles and that (only in ~V) are not named VERS / WRAP / DLM and (only
     in ~W) are not named NULL, and arbitrary changes of ~O / ~A bodies, leave the steering
     values unchanged;
   * a concrete example with a negative control. *)
From Coq Require Import List Arith NArith Bool Lia String.
Import ListNotations.
Require Import PyStr Regex Regexes NumLit Num HeaderLine Tables SectionParse Sections DataRead Read.
Require Import RegexSubFacts StripFacts SectionsProofs ItemsBindProofs JunkProofs JunkSteering ReadInvProofs ReadCongr BlocksCongr JunkRead.
Open Scope string_scope.
Open Scope list_scope.
Open Scope N_scope.

(* ======================================================================================= *)
(* (1) the steering values of a read                                                       *)
(* ======================================================================================= *)
Definition steer (ps : pstate) : hval * hval * option hval * hval :=
  (p_version ps, p_wrapped ps, p_null ps, p_dlm ps).

(* the initial provisional state of `read` (its local ps0) *)
Definition ps_init : pstate :=
  mkps (VFloat (s2l "2.0")) (VStr (s2l "YES")) None (VStr (s2l "SPACE")) empty_las [] [].

Definition read_steering (o : ropts) (text : list N) : option (hval * hval * option hval * hval) :=
  match first_pass o (lines_keep text) ps_init (find_sections (lines_keep text)) with
  | inl ps => Some (steer ps)
  | inr _ => None
  end.

Section WithOracles.
Variable fhex : list N -> option (list N).
Variable fstr : list N -> list N.
Variable numeq : list N -> list N -> bool.

(* `read` is this first pass followed by the data sections, which see the text through the
   final provisional state only *)
Lemma read_uses_steering o text :
  read fhex fstr numeq o text =
  match find_sections (lines_keep text) with
  | [] => RErr ENoSections
  | _ =>
      match first_pass o (lines_keep text) ps_init (find_sections (lines_keep text)) with
      | inr e => RErr e
      | inl ps =>
          match dlm_of (p_dlm ps) with
          | None => RErr EKey
          | Some d =>
              if o_ignore_data o then ROk (p_las ps) else
              match read_data_sections fhex fstr numeq o (lines_keep text) ps d
                      (match p_data ps with [] => p_las3data ps | x => x end) (p_las ps) with
              | inl l => ROk l
              | inr e => RErr e
              end
          end
      end
  end.
Proof. reflexivity. Qed.

Lemma read_ok_has_steering o text l :
  read fhex fstr numeq o text = ROk l -> exists s, read_steering o text = Some s.
Proof.
  rewrite read_uses_steering. unfold read_steering.
  destruct (find_sections (lines_keep text)) as [|p0 rest]; [discriminate|].
  destruct (first_pass o (lines_keep text) ps_init (p0 :: rest)) as [ps|e]; [|discriminate].
  intros _. exists (steer ps). reflexivity.
Qed.

End WithOracles.

(* ======================================================================================= *)
(* (2) the semantic frame                                                                  *)
(* ======================================================================================= *)
(* corresponding sections p (of ls) and p' (of ls'): same title; if both parse as header
   sections then a ~V pair agrees on VERS / WRAP / DLM and a ~W pair agrees on NULL *)
Definition steer_sec (o : ropts) (ls ls' : list (list N)) (p p' : spos) : Prop :=
  sp_title p = sp_title p' /\
  (section_type (sp_title p) = THeader ->
   forall v r r',
     parse_section v (sp_title p) (o_mcase o) (o_ignore_header_errors o) [ch_hash] (body_lines ls p) = POk r ->
     parse_section v (sp_title p) (o_mcase o) (o_ignore_header_errors o) [ch_hash] (body_lines ls' p') = POk r' ->
     let tr := match o_mcase o with CasePreserve => false | _ => true end in
     (second_upper (sp_title p) = Some 86 ->
        sect_find tr (s2l "VERS") r' = sect_find tr (s2l "VERS") r /\
        sect_find tr (s2l "WRAP") r' = sect_find tr (s2l "WRAP") r /\
        sect_find tr (s2l "DLM") r' = sect_find tr (s2l "DLM") r) /\
     (second_upper (sp_title p) = Some 87 ->
        sect_find tr (s2l "NULL") r' = sect_find tr (s2l "NULL") r)).

Lemma steer_with_las ps l : steer (with_las ps l) = steer ps.
Proof. reflexivity. Qed.

Lemma update_steering_steer_eq tr letter r r' ps ps' :
  steer ps = steer ps' ->
  (letter = 86 ->
     sect_find tr (s2l "VERS") r' = sect_find tr (s2l "VERS") r /\
     sect_find tr (s2l "WRAP") r' = sect_find tr (s2l "WRAP") r /\
     sect_find tr (s2l "DLM") r' = sect_find tr (s2l "DLM") r) ->
  (letter = 87 -> sect_find tr (s2l "NULL") r' = sect_find tr (s2l "NULL") r) ->
  steer (update_steering letter (mksect r tr) ps) = steer (update_steering letter (mksect r' tr) ps').
Proof.
  unfold steer. intros E HV HW. injection E as E1 E2 E3 E4.
  unfold update_steering. cbn [s_transforms s_items].
  destruct (N.eqb_spec letter 86) as [L|_].
  - destruct (HV L) as (A & B & C). rewrite A, B, C.
    cbn [p_version p_wrapped p_null p_dlm]. rewrite E1, E2, E3, E4. reflexivity.
  - destruct (N.eqb_spec letter 87) as [L|_].
    + rewrite (HW L). cbn [p_version p_wrapped p_null p_dlm]. rewrite E1, E2, E3, E4. reflexivity.
    + rewrite E1, E2, E3, E4. reflexivity.
Qed.

(* one section of the first pass *)
Lemma step_section_steering o ls ls' p p' ps ps' qs qs' :
  steer_sec o ls ls' p p' -> steer ps = steer ps' ->
  step_section o ls ps p = inl qs -> step_section o ls' ps' p' = inl qs' ->
  steer qs = steer qs'.
Proof.
  intros (Et & Hh) Hs. pose proof Hs as Hs0. unfold steer in Hs0. injection Hs0 as Ev Ew En Ed.
  destruct (section_type (sp_title p)) eqn:Ety.
  - unfold step_section. rewrite <- Et, Ety. intros H H'. injection H as <-. injection H' as <-. exact Hs.
  - rewrite !step_section_other by (rewrite <- ?Et; exact Ety).
    intros H H'. injection H as <-. injection H' as <-. rewrite !steer_with_las. exact Hs.
  - unfold step_section. rewrite <- Et, Ety. intros H H'. injection H as <-. injection H' as <-. exact Hs.
  - unfold step_section. rewrite <- Et, Ety, <- Ev.
    destruct (version_of (p_version ps)) as [ver|]; [|discriminate].
    destruct (las_version_eqb ver V30 && las3_like (sp_title p)); [discriminate|].
    destruct (parse_section ver (sp_title p) (o_mcase o) (o_ignore_header_errors o) [ch_hash] (body_lines ls p))
      as [r|bad] eqn:Hr; [|discriminate].
    destruct (parse_section ver (sp_title p) (o_mcase o) (o_ignore_header_errors o) [ch_hash] (body_lines ls' p'))
      as [r'|bad'] eqn:Hr'; [|discriminate].
    destruct (second_upper (sp_title p)) as [letter|] eqn:Esu; [|discriminate].
    intros H H'. injection H as <-. injection H' as <-. rewrite !steer_with_las.
    destruct (Hh eq_refl ver r r' Hr Hr') as (HV & HW).
    apply update_steering_steer_eq; [exact Hs| |].
    + intros L. apply HV. rewrite L. reflexivity.
    + intros L. apply HW. rewrite L. reflexivity.
Qed.

(* the whole first pass: the steering values depend on the ~V lookups VERS / WRAP / DLM and on
   the ~W lookup NULL only *)
Theorem first_pass_steering : forall o ls ls' sects sects',
  Forall2 (steer_sec o ls ls') sects sects' ->
  forall ps ps', steer ps = steer ps' ->
  forall qs qs', first_pass o ls ps sects = inl qs -> first_pass o ls' ps' sects' = inl qs' ->
  steer qs = steer qs'.
Proof.
  intros o ls ls' sects sects'. induction 1 as [|p p' l l' Hp H IH]; intros ps ps' Hs qs qs' F F'.
  - cbn [first_pass] in F, F'. injection F as <-. injection F' as <-. exact Hs.
  - cbn [first_pass] in F, F'.
    destruct (step_section o ls ps p) as [a|e] eqn:Ea; [|discriminate].
    destruct (step_section o ls' ps' p') as [b|e'] eqn:Eb; [|discriminate].
    apply (IH a b (step_section_steering o ls ls' p p' ps ps' a b Hp Hs Ea Eb) qs qs' F F').
Qed.

Theorem read_steering_frame : forall o t t',
  Forall2 (steer_sec o (lines_keep t) (lines_keep t'))
          (find_sections (lines_keep t)) (find_sections (lines_keep t')) ->
  forall s s', read_steering o t = Some s -> read_steering o t' = Some s' -> s = s'.
Proof.
  intros o t t' H s s'. unfold read_steering.
  destruct (first_pass o (lines_keep t) ps_init (find_sections (lines_keep t))) as [qs|e] eqn:F; [|discriminate].
  destruct (first_pass o (lines_keep t') ps_init (find_sections (lines_keep t'))) as [qs'|e'] eqn:F'; [|discriminate].
  intros E E'. injection E as <-. injection E' as <-.
  apply (first_pass_steering o _ _ _ _ H ps_init ps_init eq_refl qs qs' F F').
Qed.

(* ======================================================================================= *)
(* (3) the syntactic instance: inserted lines                                              *)
(* ======================================================================================= *)
(* an inserted line: not a title, and if it parses, its name is none of the keys *)
Definition names_none (v : las_version) (k : skind) (c : mcase) (tr : bool) (keys : list (list N)) (j : list N) : Prop :=
  startswith [ch_tilde] (strip j) = false /\
  forall it, parse_line v k c (strip j) = Some it ->
             forallb (fun key => negb (mn_compare tr (useful (i_orig it)) key)) keys = true.

(* the names that steer, per section: VERS / WRAP / DLM in ~V, NULL in ~W, none elsewhere *)
Definition guarded_keys (title : list N) : list (list N) :=
  match second_upper title with
  | Some 86 => [s2l "VERS"; s2l "WRAP"; s2l "DLM"]
  | Some 87 => [s2l "NULL"]
  | _ => []
  end.

Lemma names_none_key v k c tr keys j it key :
  names_none v k c tr keys j -> parse_line v k c (strip j) = Some it -> In key keys ->
  mn_compare tr (useful (i_orig it)) key = false.
Proof.
  intros (_ & H) Hp Hin. specialize (H it Hp). rewrite forallb_forall in H.
  apply negb_true_iff. apply H. exact Hin.
Qed.

Section KeyFrame.
Variables (v : las_version) (k : skind) (c : mcase) (cc : list N) (tr : bool).

(* per key: the class of the key among the scanned items is unchanged (scan_junk_class with the
   hypothesis on the one key only) *)
Lemma scan_ins_class ig keys key lines lines' : In key keys ->
  ins_lines (names_none v k c tr keys) lines lines' ->
  snd (scan v k c cc ig lines') = None -> snd (scan v k c cc ig lines) = None ->
  filter (inclass tr key) (fst (scan v k c cc ig lines)) =
  filter (inclass tr key) (fst (scan v k c cc ig lines')).
Proof.
  intros Hkey. induction 1 as [|j l l' Hj H IH|x l l' H IH]; intros E' E.
  - reflexivity.
  - cbn [scan] in *. destruct (classify v k c cc j) as [| |it|b] eqn:Ec.
    + apply IH; assumption.
    + apply classify_stop_title in Ec. destruct Hj as (Hj & _). congruence.
    + destruct (scan v k c cc ig l') as [its e]. cbn [fst snd filter] in *.
      destruct (classify_item v k c cc j it Ec) as (_ & Hp).
      unfold inclass at 2. rewrite (names_none_key v k c tr keys j it key Hj Hp Hkey). apply IH; assumption.
    + destruct ig; [apply IH; assumption|discriminate].
  - cbn [scan] in *. destruct (classify v k c cc x) as [| |it|b] eqn:Ec.
    + apply IH; assumption.
    + reflexivity.
    + destruct (scan v k c cc ig l') as [its' e']. destruct (scan v k c cc ig l) as [its e]. cbn [fst snd filter] in *.
      rewrite IH by assumption. reflexivity.
    + destruct ig; [apply IH; assumption|discriminate].
Qed.

(* the lookup of a guarded key is unchanged by the inserted lines *)
Theorem ins_lookup ig keys key lines lines' acc r r' :
  In key keys -> in_str ch_colon key = false -> Forall sess_wf acc ->
  ins_lines (names_none v k c tr keys) lines lines' ->
  parse_body v k c ig cc tr lines acc = POk r ->
  parse_body v k c ig cc tr lines' acc = POk r' ->
  sect_find tr key r' = sect_find tr key r.
Proof.
  intros Hkey Hplain Hacc J H H'. rewrite parse_body_scan in H, H'.
  destruct (snd (scan v k c cc ig lines)) eqn:E; [discriminate|].
  destruct (snd (scan v k c cc ig lines')) eqn:E'; [discriminate|].
  injection H as <-. injection H' as <-. symmetry.
  apply sect_find_append_all; try apply scan_wf; try assumption.
  apply (scan_ins_class ig keys key lines lines' Hkey J E' E).
Qed.

End KeyFrame.

(* corresponding blocks: same title line, and the body is the same, or the block is not a header
   block (data / ~Other: the bodies may differ arbitrarily), or lines were inserted none of which
   is a title or carries a name guarded in THIS section *)
Definition steer_ins_block (c : mcase) (b b' : block) : Prop :=
  fst b = fst b' /\
  (snd b = snd b' \/
   section_type (strip (fst b)) <> THeader \/
   ins_lines (fun j => forall v, names_none v (kind_of_title (strip (strip (fst b)))) c (tr_of c)
                                            (guarded_keys (strip (fst b))) j)
             (snd b) (snd b')).

(* steer_sec on what the consumers see of a section *)
Definition steer_view (o : ropts) (x y : sview) : Prop :=
  match x, y with
  | (t, b, _), (t', b', _) =>
      t = t' /\
      (section_type t = THeader ->
       forall v r r',
         parse_section v t (o_mcase o) (o_ignore_header_errors o) [ch_hash] b = POk r ->
         parse_section v t (o_mcase o) (o_ignore_header_errors o) [ch_hash] b' = POk r' ->
         let tr := match o_mcase o with CasePreserve => false | _ => true end in
         (second_upper t = Some 86 ->
            sect_find tr (s2l "VERS") r' = sect_find tr (s2l "VERS") r /\
            sect_find tr (s2l "WRAP") r' = sect_find tr (s2l "WRAP") r /\
            sect_find tr (s2l "DLM") r' = sect_find tr (s2l "DLM") r) /\
         (second_upper t = Some 87 ->
            sect_find tr (s2l "NULL") r' = sect_find tr (s2l "NULL") r))
  end.

Lemma steer_sec_view o ls ls' p p' : steer_sec o ls ls' p p' <-> steer_view o (view ls p) (view ls' p').
Proof. unfold steer_sec, steer_view, view. reflexivity. Qed.

Lemma steer_ins_block_view o b b' :
  steer_ins_block (o_mcase o) b b' -> steer_view o (block_view b) (block_view b').
Proof.
  intros (Et & H). unfold steer_view, block_view. rewrite <- Et. split; [reflexivity|].
  intros Ety v r r' Hr Hr'. cbv zeta. fold (tr_of (o_mcase o)).
  destruct H as [Eb|[Hn|J]].
  - rewrite <- Eb, Hr in Hr'. injection Hr' as <-. repeat split; reflexivity.
  - contradiction.
  - unfold parse_section in Hr, Hr'. fold (tr_of (o_mcase o)) in Hr, Hr'.
    assert (L : forall key, In key (guarded_keys (strip (fst b))) -> in_str ch_colon key = false ->
                sect_find (tr_of (o_mcase o)) key r' = sect_find (tr_of (o_mcase o)) key r).
    { intros key Hin Hplain.
      apply (ins_lookup v (kind_of_title (strip (strip (fst b)))) (o_mcase o) [ch_hash] (tr_of (o_mcase o))
               (o_ignore_header_errors o) (guarded_keys (strip (fst b))) key (snd b) (snd b') [] r r');
        try assumption; [constructor|].
      eapply ins_lines_mono; [|exact J]. intros x Hx. apply Hx. }
    unfold guarded_keys in L. split.
    + intros E. rewrite E in L. repeat split; apply L; cbn [In]; auto.
    + intros E. rewrite E in L. apply L; cbn [In]; auto.
Qed.

(* items named VERS / WRAP / NULL / DLM in ~C / ~P / custom sections, NULL in ~V, VERS / WRAP /
   DLM in ~W, and any change whatsoever of ~O / ~A bodies do not change the steering values
   `read` uses *)
Theorem read_steering_blocks : forall o t t' pre pre' bs bs',
  lines_keep t = pre ++ render bs -> lines_keep t' = pre' ++ render bs' ->
  notitles pre -> notitles pre' -> Forall wf_block bs -> Forall wf_block bs' ->
  Forall2 (steer_ins_block (o_mcase o)) bs bs' ->
  forall s s', read_steering o t = Some s -> read_steering o t' = Some s' -> s = s'.
Proof.
  intros o t t' pre pre' bs bs' E E' Hp Hp' Hb Hb' H. apply read_steering_frame. rewrite E, E'.
  change (Forall2 (fun a b => steer_view o (view (pre ++ render bs) a) (view (pre' ++ render bs') b))
                  (find_sections (pre ++ render bs)) (find_sections (pre' ++ render bs'))).
  apply (Forall2_map_iff (steer_view o)). rewrite !views_exact by assumption.
  apply (Forall2_map_iff (steer_view o) block_view block_view).
  clear E E' Hb Hb'. induction H as [|b b' l l' Hbb H IH]; constructor; [apply steer_ins_block_view; exact Hbb|exact IH].
Qed.

(* ---- a decision procedure for the side condition on one inserted line ------------------- *)
Definition names_none_b (v : las_version) (k : skind) (c : mcase) (tr : bool) (keys : list (list N)) (j : list N) : bool :=
  negb (startswith [ch_tilde] (strip j)) &&
  match parse_line v k c (strip j) with
  | Some it => forallb (fun key => negb (mn_compare tr (useful (i_orig it)) key)) keys
  | None => true
  end.

Lemma names_none_b_ok v k c tr keys j : names_none_b v k c tr keys j = true -> names_none v k c tr keys j.
Proof.
  unfold names_none_b, names_none. intros H. apply andb_true_iff in H as [H1 H2].
  apply negb_true_iff in H1. split; [exact H1|]. intros it Hp. rewrite Hp in H2. exact H2.
Qed.

Lemma names_none_all_versions k c tr keys j :
  forallb (fun v => names_none_b v k c tr keys j) [V10; V12; V20; V21; V30] = true ->
  forall v, names_none v k c tr keys j.
Proof.
  intros H v. apply names_none_b_ok. rewrite forallb_forall in H. apply H.
  destruct v; cbn [In]; auto 6.
Qed.

(* ======================================================================================= *)
(* (4) example                                                                             *)
(* ======================================================================================= *)
Definition nl (s : string) : list N := s2l s ++ [10].

Definition ex_o : ropts := mkropts false CasePreserve true true false.

Definition ex_base : list block :=
  [ (nl "~V",        [nl "VERS. 2.0 : v"; nl "WRAP. NO : w"]);
    (nl "~W",        [nl "NULL. -999.25 : n"]);
    (nl "~O",        [nl "free text"]);
    (nl "~C",        [nl "DEPT.M : d"; nl "A. : a"]);
    (nl "~MyCustom", [nl "K. 1 : k"]);
    (nl "~A",        [nl "1 2"; nl "3 4"]) ].

Definition ex_more : list block :=
  [ (nl "~V",        [nl "VERS. 2.0 : v"; nl "NULL. 5 : x"; nl "WRAP. NO : w"]);
    (nl "~W",        [nl "VERS. 1.2 : x"; nl "WRAP. YES : x"; nl "NULL. -999.25 : n"; nl "DLM. COMMA : x"]);
    (nl "~O",        [nl "VERS. 1.2 : other text"; nl "NULL. 0 : more"]);
    (nl "~C",        [nl "VERS. 1.2 : x"; nl "DEPT.M : d"; nl "WRAP. YES : x"; nl "NULL. 7 : x"; nl "A. : a"; nl "DLM. TAB : x"]);
    (nl "~MyCustom", [nl "K. 1 : k"; nl "VERS. 3.0 : x"; nl "WRAP. YES : x"; nl "NULL. 7 : x"; nl "DLM. TAB : x"]);
    (nl "~A",        [nl "1 2"; nl "3 4"; nl "5 6"]) ].

(* negative control: a second NULL item in ~W itself *)
Definition ex_bad : list block :=
  [ (nl "~V",        [nl "VERS. 2.0 : v"; nl "WRAP. NO : w"]);
    (nl "~W",        [nl "NULL. 5 : x"; nl "NULL. -999.25 : n"]);
    (nl "~O",        [nl "free text"]);
    (nl "~C",        [nl "DEPT.M : d"; nl "A. : a"]);
    (nl "~MyCustom", [nl "K. 1 : k"]);
    (nl "~A",        [nl "1 2"; nl "3 4"]) ].

Definition ex_text (bs : list block) : list N := List.concat (render bs).

Example steering_ex_lines :
  lines_keep (ex_text ex_base) = render ex_base /\ lines_keep (ex_text ex_more) = render ex_more /\
  lines_keep (ex_text ex_bad) = render ex_bad.
Proof. vm_compute. repeat split; reflexivity. Qed.

Example steering_ex_wf : Forall wf_block ex_base /\ Forall wf_block ex_more.
Proof. split; repeat constructor. Qed.

Ltac ins_junk := apply ji_junk; [apply names_none_all_versions; vm_compute; reflexivity|].
Ltac ins_keep := apply ji_keep.

Example steering_ex_blocks : Forall2 (steer_ins_block CasePreserve) ex_base ex_more.
Proof.
  unfold ex_base, ex_more. repeat apply Forall2_cons; try apply Forall2_nil; (split; [reflexivity|]); cbn [fst snd].
  - right. right. ins_keep. ins_junk. ins_keep. apply ji_nil.
  - right. right. ins_junk. ins_junk. ins_keep. ins_junk. apply ji_nil.
  - right. left. vm_compute. discriminate.
  - right. right. ins_junk. ins_keep. ins_junk. ins_junk. ins_keep. ins_junk. apply ji_nil.
  - right. right. ins_keep. ins_junk. ins_junk. ins_junk. ins_junk. apply ji_nil.
  - right. left. vm_compute. discriminate.
Qed.

Example steering_ex_values :
  read_steering ex_o (ex_text ex_base) =
    Some (VFloat (s2l "2.0"), VStr (s2l "NO"), Some (VFloat (s2l "-999.25")), VStr (s2l "SPACE")) /\
  read_steering ex_o (ex_text ex_more) = read_steering ex_o (ex_text ex_base).
Proof. vm_compute. split; reflexivity. Qed.

(* the same equality, obtained from the theorem *)
Example steering_ex_by_theorem : forall s s',
  read_steering ex_o (ex_text ex_base) = Some s -> read_steering ex_o (ex_text ex_more) = Some s' -> s = s'.
Proof.
  destruct steering_ex_lines as (E1 & E2 & _). destruct steering_ex_wf as (W1 & W2).
  apply (read_steering_blocks ex_o (ex_text ex_base) (ex_text ex_more) [] [] ex_base ex_more E1 E2
           eq_refl eq_refl W1 W2 steering_ex_blocks).
Qed.

(* negative control: NULL in ~W does steer *)
Example steering_ex_negative :
  read_steering ex_o (ex_text ex_bad) <> read_steering ex_o (ex_text ex_base).
Proof. vm_compute. discriminate. Qed.

(* ... and the side condition of steer_ins_block rejects exactly such lines: NULL in ~W, VERS in ~V
   (while NULL in ~V and VERS in ~W were accepted above) *)
Example steering_ex_guard_rejects :
  names_none_b V20 (kind_of_title (strip (strip (nl "~W")))) CasePreserve (tr_of CasePreserve)
               (guarded_keys (strip (nl "~W"))) (nl "NULL. 5 : x") = false /\
  names_none_b V20 (kind_of_title (strip (strip (nl "~V")))) CasePreserve (tr_of CasePreserve)
               (guarded_keys (strip (nl "~V"))) (nl "VERS. 1.2 : x") = false /\
  ~ names_none V20 (kind_of_title (strip (strip (nl "~W")))) CasePreserve (tr_of CasePreserve)
               (guarded_keys (strip (nl "~W"))) (nl "NULL. 5 : x").
Proof.
  split; [vm_compute; reflexivity|]. split; [vm_compute; reflexivity|].
  intros (_ & H).
  destruct (parse_line V20 (kind_of_title (strip (strip (nl "~W")))) CasePreserve (strip (nl "NULL. 5 : x")))
    as [it|] eqn:E; [|vm_compute in E; discriminate].
  specialize (H it eq_refl). vm_compute in E. injection E as <-. vm_compute in H. discriminate.
Qed.

Print Assumptions first_pass_steering.
Print Assumptions read_steering_frame.
Print Assumptions read_steering_blocks.
