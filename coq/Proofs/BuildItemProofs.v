(* Proofs.BuildItemProofs — which header values go through num(): the API/UWI rule, ~Curves
   values are never converted, ~Parameter values always are. *)
From Coq Require Import List NArith ZArith Bool String.
Import ListNotations.
Require Import PyStr Regex NumLit Num HeaderLine Tables SectionParse.
Open Scope string_scope.
Open Scope list_scope.
Open Scope N_scope.

Definition field_for_value (v : las_version) (k : skind) (h : hline) : list N :=
  match order_for v k (h_name h) with ValueDescr => h_value h | DescrValue => h_descr h end.

Lemma build_item_curves_raw v h :
  i_value (build_item v KCurves h) = VStr (h_value h).
Proof. reflexivity. Qed.

Lemma build_item_param_num v h :
  i_value (build_item v KParameter h) = num (h_value h).
Proof. reflexivity. Qed.

Lemma build_item_api_uwi v k h :
  k <> KCurves -> k <> KParameter -> is_number_string (h_name h) = true ->
  i_value (build_item v k h) = VStr (field_for_value v k h).
Proof.
  intros Hc Hp Hn. unfold field_for_value.
  destruct k; try contradiction; cbn [build_item]; destruct (order_for _ _ (h_name h)); cbn; rewrite Hn; reflexivity.
Qed.

Lemma build_item_other_num v k h :
  k <> KCurves -> k <> KParameter -> is_number_string (h_name h) = false ->
  i_value (build_item v k h) = num (field_for_value v k h).
Proof.
  intros Hc Hp Hn. unfold field_for_value.
  destruct k; try contradiction; cbn [build_item]; destruct (order_for _ _ (h_name h)); cbn; rewrite Hn; reflexivity.
Qed.

(* API / UWI in any ASCII case *)
Lemma str_eqb_eq : forall a b, str_eqb a b = true -> a = b.
Proof.
  induction a as [|x a IH]; destruct b as [|y b]; cbn; intros H; try discriminate; [reflexivity|].
  apply andb_true_iff in H as [H1 H2]. apply N.eqb_eq in H1. subst. f_equal. apply IH. exact H2.
Qed.
Lemma str_eqb_refl : forall a, str_eqb a a = true.
Proof. induction a as [|x a IH]; cbn; [reflexivity|]. rewrite N.eqb_refl. exact IH. Qed.

Lemma is_number_string_cases n :
  is_number_string n = true <-> upper n = s2l "API" \/ upper n = s2l "UWI".
Proof.
  unfold is_number_string. rewrite orb_true_iff. split; intros [H|H].
  - left. apply str_eqb_eq. exact H.
  - right. apply str_eqb_eq. exact H.
  - left. rewrite H. apply str_eqb_refl.
  - right. rewrite H. apply str_eqb_refl.
Qed.
