(* Proofs.FileRoundTripLines — the lines of a written file, line by line:
   A. no header item line is a section title, and none contains a newline (when no mnemonic does);
   B. a character that occurs neither in the spacers nor in any token occurs in no data line
      (wrapped or not): data lines are newline-free and are not titles;
   C. the line that opens the data section (with the mnemonics header) is newline-free.
   (File-level composition: discharges bodies_notitle / lines_nlfree of FileRoundTripText/Blocks.) *)
From Coq Require Import List Arith NArith ZArith Bool Lia ZifyBool ZifyN ZifyNat String.
Import ListNotations.
Require Import PyStr Regex NumLit Num HeaderLine Tables SectionParse Sections DataRead Read TextWrap Writer.
Require Import StripFacts SectionsProofs BlocksCongr HeaderLineSpec HeaderLineFragments ItemsBindProofs OrderTableProofs
  WriteHeaderProofs WriteOptionsProofs WriteReadProofs SplitWsFacts WriteDataProofs WriteDataTextProofs TextWrapProofs
  FileRoundTripText FileRoundTripBlocks.
Open Scope string_scope. Open Scope list_scope. Open Scope N_scope.

(* ====================================================================================== *)
(* A. header item lines                                                                    *)
(* ====================================================================================== *)
(* the lines of a standard section are the formatted items *)
Lemma section_lines_std fstr v k items lines : is_std k = true ->
  section_lines fstr v (sect_table_name k) items = Some lines ->
  lines = map (fun it => format_item fstr (sec_ord v (sect_table_name k) it) (sec_lw items)
                           (sec_mw fstr (sec_ord v (sect_table_name k)) items) it) items.
Proof.
  intros Hk. rewrite section_lines_eq. destruct (lookup_complete v k Hk) as [e He]. rewrite He.
  intros [= <-]. reflexivity.
Qed.

(* every written line of a section that is section_ok is read by parse_body as an item *)
Lemma section_line_reads fstr v k c cc items it : is_std k = true ->
  section_ok fstr v k cc items -> In it items ->
  line_reads v k c cc
    (format_item fstr (sec_ord v (sect_table_name k) it) (sec_lw items)
                 (sec_mw fstr (sec_ord v (sect_table_name k)) items) it)
    (expected_item fstr k c it).
Proof.
  intros Hk Hall Hin.
  assert (Hord : sec_ord v (sect_table_name k) it = reader_order v k (apply_case c (i_orig it))).
  { unfold sec_ord. rewrite (writer_order_is_reader_order v k c (i_orig it) Hk). reflexivity. }
  pose proof (widths_cover fstr (sec_ord v (sect_table_name k)) items it Hin) as Hcov.
  destruct (Hall it Hin) as [[Hc Hs]|[Hb Hcc]].
  - apply line_reads_conf; assumption.
  - apply line_reads_blank; assumption.
Qed.

Lemma line_reads_not_title v k c cc raw x : line_reads v k c cc raw x -> is_title raw = false.
Proof.
  intros (c0 & L & Hs & _ & H126 & _). unfold is_title. rewrite Hs. cbn [startswith].
  unfold ch_tilde. rewrite N.eqb_sym, H126. reflexivity.
Qed.

Lemma section_lines_notitles fstr v k cc items lines : is_std k = true ->
  section_ok fstr v k cc items -> section_lines fstr v (sect_table_name k) items = Some lines -> notitles lines.
Proof.
  intros Hk Hok Hl. rewrite (section_lines_std fstr v k items lines Hk Hl).
  unfold notitles. apply forallb_forall. intros l Hin. apply in_map_iff in Hin as (it & <- & Hin).
  apply negb_true_iff.
  exact (line_reads_not_title v k CasePreserve cc _ _
           (section_line_reads fstr v k CasePreserve cc items it Hk Hok Hin)).
Qed.

(* ---- newlines ------------------------------------------------------------------------------ *)
Lemma blanks_nlfree p : blanks p = true -> nlfree p.
Proof. apply blanks_in_str. reflexivity. Qed.

Lemma no_space_nlfree u : no_space u = true -> nlfree u.
Proof.
  unfold nlfree, no_space. induction u as [|c u IH]; [reflexivity|].
  cbn [forallb]. intros H. apply andb_true_iff in H as [Hc Hu]. rewrite in_str_cons, (IH Hu), orb_false_r.
  destruct (N.eqb_spec 10 c) as [<-|]; [discriminate Hc|reflexivity].
Qed.

Lemma conf_unit_nlfree u : conf_unit u = true -> nlfree u.
Proof.
  unfold conf_unit. intros H. apply andb_true_iff in H as [H _]. apply andb_true_iff in H as [H _].
  apply no_space_nlfree. exact H.
Qed.

Lemma conf_text_nlfree x : conf_text x = true -> nlfree x.
Proof.
  unfold conf_text. intros H. apply andb_true_iff in H as [_ H]. apply negb_true_iff in H. exact H.
Qed.

Lemma format_item_nlfree fstr o lw mw it :
  nlfree (i_orig it) -> conf_unit (i_unit it) = true ->
  conf_text (rhs_text fstr o it) = true -> conf_text (tail_text fstr o it) = true ->
  nlfree (format_item fstr o lw mw it).
Proof.
  intros Hm Hu Hr Ht. rewrite format_is_layout. unfold layout. cbn [app]. rewrite app_nil_r.
  apply nlfree_app; [exact Hm|]. apply nlfree_app; [apply blanks_nlfree, blanks_pad1|].
  change (46 :: i_unit it ++ pad2 fstr o mw it ++ rhs_text fstr o it ++ 32 :: 58 :: 32 :: tail_text fstr o it)
    with ([46] ++ i_unit it ++ pad2 fstr o mw it ++ rhs_text fstr o it ++ [32; 58; 32] ++ tail_text fstr o it).
  apply nlfree_app; [reflexivity|]. apply nlfree_app; [apply conf_unit_nlfree; exact Hu|].
  apply nlfree_app; [apply blanks_nlfree, blanks_pad2|]. apply nlfree_app; [apply conf_text_nlfree; exact Hr|].
  apply nlfree_app; [reflexivity|apply conf_text_nlfree; exact Ht].
Qed.

Lemma section_lines_nlfree fstr v k cc items lines : is_std k = true ->
  section_ok fstr v k cc items -> (forall it, In it items -> nlfree (i_orig it)) ->
  section_lines fstr v (sect_table_name k) items = Some lines -> Forall nlfree lines.
Proof.
  intros Hk Hok Hmn Hl. rewrite (section_lines_std fstr v k items lines Hk Hl).
  apply Forall_forall. intros l Hin. apply in_map_iff in Hin as (it & <- & Hin).
  destruct (Hok it Hin) as [[Hc _]|[Hb _]].
  - pose proof (widths_cover fstr (sec_ord v (sect_table_name k)) items it Hin) as Hcov.
    destruct (ol_fields fstr k _ _ _ it Hc) as (_ & Hu & Hr & Ht).
    apply format_item_nlfree; [apply Hmn; exact Hin|exact Hu|exact Hr|exact Ht].
  - destruct (bl_fields fstr k _ it Hb) as (_ & Hu & Hr & Ht & _).
    apply format_item_nlfree; [apply Hmn; exact Hin|exact Hu|exact Hr|exact Ht].
Qed.

(* ---- the four sections of a written file --------------------------------------------------- *)
Theorem written_header_notitles fmtv fmt_diff fstr fzero numeq ver wrapo ifmt m hs cc :
  write_sections fmtv fmt_diff fstr fzero numeq ver wrapo ifmt m = Some hs ->
  section_ok fstr (hs_version hs) KVersion cc (hs_vers_items hs) ->
  section_ok fstr (hs_version hs) KWell cc (s_items (l_well (hs_las hs))) ->
  section_ok fstr (hs_version hs) KCurves cc (s_items (l_curves (hs_las hs))) ->
  section_ok fstr (hs_version hs) KParameter cc (s_items (l_params (hs_las hs))) ->
  notitles (hs_lv hs) /\ notitles (hs_lw hs) /\ notitles (hs_lc hs) /\ notitles (hs_lp hs).
Proof.
  intros Hw Hv Hwl Hc Hp.
  destruct (write_sections_lines fmtv fmt_diff fstr fzero numeq ver wrapo ifmt m hs Hw) as (Lv & Lw & Lc & Lp).
  split; [|split; [|split]].
  - exact (section_lines_notitles fstr _ KVersion cc _ _ eq_refl Hv Lv).
  - exact (section_lines_notitles fstr _ KWell cc _ _ eq_refl Hwl Lw).
  - exact (section_lines_notitles fstr _ KCurves cc _ _ eq_refl Hc Lc).
  - exact (section_lines_notitles fstr _ KParameter cc _ _ eq_refl Hp Lp).
Qed.

Definition mnemonics_nlfree (items : list hitem) : Prop := forall it, In it items -> nlfree (i_orig it).

Theorem written_header_nlfree fmtv fmt_diff fstr fzero numeq ver wrapo ifmt m hs cc :
  write_sections fmtv fmt_diff fstr fzero numeq ver wrapo ifmt m = Some hs ->
  section_ok fstr (hs_version hs) KVersion cc (hs_vers_items hs) ->
  section_ok fstr (hs_version hs) KWell cc (s_items (l_well (hs_las hs))) ->
  section_ok fstr (hs_version hs) KCurves cc (s_items (l_curves (hs_las hs))) ->
  section_ok fstr (hs_version hs) KParameter cc (s_items (l_params (hs_las hs))) ->
  mnemonics_nlfree (hs_vers_items hs) -> mnemonics_nlfree (s_items (l_well (hs_las hs))) ->
  mnemonics_nlfree (s_items (l_curves (hs_las hs))) -> mnemonics_nlfree (s_items (l_params (hs_las hs))) ->
  Forall nlfree (hs_lv hs) /\ Forall nlfree (hs_lw hs) /\ Forall nlfree (hs_lc hs) /\ Forall nlfree (hs_lp hs).
Proof.
  intros Hw Hv Hwl Hc Hp Mv Mw Mc Mp.
  destruct (write_sections_lines fmtv fmt_diff fstr fzero numeq ver wrapo ifmt m hs Hw) as (Lv & Lw & Lc & Lp).
  split; [|split; [|split]].
  - exact (section_lines_nlfree fstr _ KVersion cc _ _ eq_refl Hv Mv Lv).
  - exact (section_lines_nlfree fstr _ KWell cc _ _ eq_refl Hwl Mw Lw).
  - exact (section_lines_nlfree fstr _ KCurves cc _ _ eq_refl Hc Mc Lc).
  - exact (section_lines_nlfree fstr _ KParameter cc _ _ eq_refl Hp Mp Lp).
Qed.

(* ====================================================================================== *)
(* B. data lines                                                                           *)
(* ====================================================================================== *)
Lemma in_str_repeat_ne c d n : c <> d -> in_str c (repeat_ch d n) = false.
Proof. intros H. apply in_str_false_In. intros K. apply repeat_spec in K. congruence. Qed.

Lemma in_str_concat_false c : forall L : list (list N),
  Forall (fun l => in_str c l = false) L -> in_str c (List.concat L) = false.
Proof.
  induction L as [|l L IH]; intros H; [reflexivity|]. inversion H as [|? ? Hl HL]; subst.
  cbn [List.concat]. rewrite in_str_app, Hl, (IH HL). reflexivity.
Qed.

Lemma pad_of_char_free fmt_pi o j v ch :
  ch <> 32 -> in_str ch (wo_lhs_spacer o) = false -> in_str ch (wo_spacer o) = false ->
  in_str ch (pad_of fmt_pi o j v) = false.
Proof.
  intros Hch Hl Hs. unfold pad_of. rewrite in_str_app.
  assert (H1 : in_str ch (if Nat.eqb j 0 then wo_lhs_spacer o else wo_spacer o) = false)
    by (destruct (Nat.eqb j 0); assumption).
  rewrite H1. cbn [orb]. destruct (field_width fmt_pi o); [apply in_str_repeat_ne; exact Hch|reflexivity].
Qed.

Lemma row_pairs_char_free fmt_pi o ch :
  ch <> 32 -> in_str ch (wo_lhs_spacer o) = false -> in_str ch (wo_spacer o) = false ->
  forall toks j, Forall (fun t => in_str ch t = false) toks ->
  in_str ch (List.concat (map padtok (row_pairs fmt_pi o j toks))) = false.
Proof.
  intros Hch Hl Hs. induction toks as [|t ts IH]; intros j H; [reflexivity|].
  inversion H as [|? ? Ht Hts]; subst. cbn [row_pairs map List.concat]. unfold padtok at 1. cbn [fst snd].
  rewrite !in_str_app, (pad_of_char_free fmt_pi o j t ch Hch Hl Hs), Ht, (IH (S j) Hts). reflexivity.
Qed.

Lemma row_line_char_free fmtv fmt_pi o nt row ch :
  ch <> 32 -> in_str ch (wo_lhs_spacer o) = false -> in_str ch (wo_spacer o) = false ->
  Forall (fun t => in_str ch t = false) (row_toks fmtv o nt row) ->
  in_str ch (row_line fmtv fmt_pi o nt row) = false.
Proof. intros Hch Hl Hs H. unfold row_line. apply row_pairs_char_free; assumption. Qed.

Lemma wrap_char_free w s l ch : ch <> 32 -> in_str ch s = false -> In l (TextWrap.wrap w s) -> in_str ch l = false.
Proof.
  intros Hch Hs Hl. apply in_str_false_In. intros Hc.
  destruct (wrap_chars w s l ch Hl Hc) as [E|E]; [congruence|].
  apply in_str_false_In in Hs. apply Hs. exact E.
Qed.

Lemma data_lines_char_free fmtv fmt_pi o nt (rows : list (list cell)) rts (w : nat) (wrapflag : bool) ch :
  ch <> 32 -> in_str ch (wo_lhs_spacer o) = false -> in_str ch (wo_spacer o) = false ->
  Forall (Forall (fun t => in_str ch t = false)) (tok_matrix fmtv o nt rows) ->
  opt_all (map (row_text fmtv fmt_pi o (Some nt) 0%nat) rows) = Some rts ->
  Forall (fun l => in_str ch l = false) (if wrapflag then flat_map (TextWrap.wrap w) rts else rts).
Proof.
  intros Hch Hl Hs HT Hrts. rewrite lines_defined in Hrts. injection Hrts as <-.
  assert (Hrows : Forall (fun l => in_str ch l = false) (map (row_line fmtv fmt_pi o nt) rows)).
  { apply Forall_forall. intros l Hin. apply in_map_iff in Hin as (row & <- & Hrow).
    apply row_line_char_free; try assumption. rewrite Forall_forall in HT. apply HT.
    unfold tok_matrix. apply in_map. exact Hrow. }
  destruct wrapflag; [|exact Hrows].
  apply Forall_forall. intros l Hin. apply in_flat_map in Hin as (s & Hs' & Hl').
  rewrite Forall_forall in Hrows. exact (wrap_char_free w s l ch Hch (Hrows s Hs') Hl').
Qed.

Corollary data_lines_nlfree fmtv fmt_pi o nt rows rts w (wrapflag : bool) :
  nlfree (wo_lhs_spacer o) -> nlfree (wo_spacer o) ->
  Forall (Forall (fun t => in_str 10 t = false)) (tok_matrix fmtv o nt rows) ->
  opt_all (map (row_text fmtv fmt_pi o (Some nt) 0%nat) rows) = Some rts ->
  Forall nlfree (if wrapflag then flat_map (TextWrap.wrap w) rts else rts).
Proof.
  intros Hl Hs HT Hrts. assert (Hch : 10 <> 32) by discriminate.
  exact (data_lines_char_free fmtv fmt_pi o nt rows rts w wrapflag 10 Hch Hl Hs HT Hrts).
Qed.

Corollary data_lines_notitles fmtv fmt_pi o nt rows rts w (wrapflag : bool) :
  in_str 126 (wo_lhs_spacer o) = false -> in_str 126 (wo_spacer o) = false ->
  Forall (Forall (fun t => in_str 126 t = false)) (tok_matrix fmtv o nt rows) ->
  opt_all (map (row_text fmtv fmt_pi o (Some nt) 0%nat) rows) = Some rts ->
  notitles (if wrapflag then flat_map (TextWrap.wrap w) rts else rts).
Proof.
  intros Hl Hs HT Hrts. assert (Hch : 126 <> 32) by discriminate.
  pose proof (data_lines_char_free fmtv fmt_pi o nt rows rts w wrapflag 126 Hch Hl Hs HT Hrts) as H.
  unfold notitles. apply forallb_forall. intros l Hin. rewrite Forall_forall in H.
  apply negb_true_iff. apply no_tilde_not_title. apply H. exact Hin.
Qed.

(* ====================================================================================== *)
(* C. the line that opens the data section                                                 *)
(* ====================================================================================== *)
Lemma nlfree_concat : forall L : list (list N), Forall nlfree L -> nlfree (List.concat L).
Proof. intros L H. apply in_str_concat_false. exact H. Qed.

Lemma nlfree_tl (hv : list N) : nlfree hv -> nlfree (match hv with 32 :: t => t | _ => hv end).
Proof.
  intros H. destruct hv as [|c t]; [exact H|]. destruct c as [|p]; [exact H|].
  do 6 (try destruct p as [p|p|]); exact H.
Qed.

Lemma strip_header_value_nlfree : forall n k hv, nlfree hv -> nlfree (strip_header_value k n hv).
Proof.
  induction n as [|n IH]; intros k hv H; [exact H|]. cbn [strip_header_value]. apply IH.
  destruct (Nat.ltb k (List.length hv)); [apply nlfree_tl; exact H|exact H].
Qed.

Lemma rjust_nlfree w s : nlfree s -> nlfree (rjust w 32 s).
Proof. intros H. unfold rjust. apply nlfree_app; [apply nlfree_repeat; discriminate|exact H]. Qed.

Lemma dsh_of_nlfree fmtv fmt_pi fstr o hs dl :
  nlfree (wo_data_section_header o) -> (forall it, In it (s_items (l_curves (hs_las hs))) -> nlfree (i_sess it)) ->
  dsh_of fmtv fmt_pi fstr o hs = Some dl -> nlfree dl.
Proof.
  intros Hh Hmn. destruct (wo_mnemonics_header o) eqn:Emh.
  2:{ apply dsh_of_plain_nlfree; assumption. }
  unfold dsh_of. rewrite Emh. cbv zeta.
  assert (Hd : nlfree (wo_data_section_header o ++ [32])) by (apply nlfree_app; [exact Hh|reflexivity]).
  destruct (las_rows (hs_las hs)) as [|row0 rows].
  - destruct (s_items (l_curves (hs_las hs))); [|discriminate]. intros [= <-]. exact Hd.
  - unfold bind. destruct (opt_all _) as [firsts|]; [|discriminate]. intros [= <-].
    apply nlfree_app; [exact Hd|]. apply nlfree_concat.
    match goal with |- Forall nlfree (match ?hvs with hv :: rest => _ | [] => [] end) =>
      assert (Hhvs : Forall nlfree hvs); [|destruct hvs as [|hv rest]; [constructor|]] end.
    + apply Forall_forall. intros l Hin. apply in_map_iff in Hin as ([it f] & <- & Hin). cbn [fst snd].
      apply rjust_nlfree. apply Hmn. apply (in_combine_l _ _ _ _ Hin).
    + inversion Hhvs as [|? ? H1 H2]; subst. constructor; [apply strip_header_value_nlfree; exact H1|exact H2].
Qed.
