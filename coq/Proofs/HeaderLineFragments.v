(* Proofs.HeaderLineFragments — the header line patterns, fragment by fragment, through the
   backtracking matcher (Proofs/RegexMatchFacts.v says which split each star chooses);
   pattern selection on the raw line; read_header_line on a line N . U W : D.
   Used by Proofs/HeaderLineProofs.v (C04). *)
From Coq Require Import List Arith NArith Bool Lia ZifyBool ZifyN ZifyNat.
Import ListNotations.
Require Import PyStr Regex RegexFacts Regexes HeaderLine RegexMatchFacts HeaderLineSpec.
Open Scope N_scope.

(* ---------- the ASTs the proofs are about -------------------------------------------- *)
Definition name_lit : re :=
  Seq (Opt (Cls (CChar 46))) (Seq (Grp 0 (Star (CNot (CChar 46)))) (Cls (CChar 46))).
Definition unit_lit : re :=
  Grp 1 (Seq (Opt (Grp 102 (Seq (Plus (CRange 48 57)) (Cls CSpace)))) (Star (CNot CSpace))).
Definition value_lit : re := Seq (Grp 2 (Star CAny)) (Cls (CChar 58)).
Definition desc_lit : re := Grp 3 (Star CAny).
Definition name_mp_lit : re := Seq (Grp 0 (Star (CNot (CChar 58)))) (Cls (CChar 58)).
Definition value_mp_lit : re := Grp 2 (Star CAny).
Definition dd_lit : re := Seq (Cls (CNot (CChar 32))) (Seq (Cls (CChar 46)) (Cls (CChar 46))).
Definition behind_lit : list (list cls) :=
  [[CChar 32; CRange 48 50; CRange 48 51]; [CChar 32; CChar 104; CChar 104]; [CChar 32; CChar 72; CChar 72]].
Definition ahead_lit : list (list cls) :=
  [[CRange 48 53; CRange 48 57]; [CChar 109; CChar 109]; [CChar 77; CChar 77]].
Definition tvalue_lit : re :=
  Seq (Grp 2 (LStar CAny)) (Seq (NotBehind behind_lit) (Seq (Cls (CChar 58)) (NotAhead ahead_lit))).

Definition patterns_current : Prop :=
  rx_name_re = name_lit /\ rx_unit_re = unit_lit /\ rx_value_re = value_lit /\
  rx_desc_re = desc_lit /\ rx_name_missing_period_re = name_mp_lit /\
  rx_value_missing_period_re = value_mp_lit /\ rx_no_desc_re = Eps /\ rx_no_unit_re = Eps /\
  rx_double_dot_search = dd_lit /\ rx_value_with_time_colon_re = tvalue_lit /\
  time_behind_alts = behind_lit /\ time_ahead_alts = ahead_lit.

Lemma patterns_are_current : patterns_current.
Proof. repeat split; reflexivity. Qed.

(* ---------- characters --------------------------------------------------------------- *)
Lemma blank_space c : is_blank c = true -> is_space c = true.
Proof. unfold is_blank, is_space. lia. Qed.

Lemma blank_not c x : is_blank x = false -> is_blank c = true -> (x =? c) = false.
Proof. unfold is_blank. lia. Qed.

Lemma digit_not_space c : is_digit c = true -> is_space c = false.
Proof. unfold is_digit, is_space. lia. Qed.

Lemma space_not_digit c : is_space c = true -> is_digit c = false.
Proof. unfold is_digit, is_space. lia. Qed.

(* ---------- in_str / forallb --------------------------------------------------------- *)
Lemma in_str_app c a b : in_str c (a ++ b) = in_str c a || in_str c b.
Proof. apply existsb_app. Qed.

Lemma in_str_cons c x s : in_str c (x :: s) = (c =? x) || in_str c s.
Proof. reflexivity. Qed.

Lemma blanks_in_str x p : is_blank x = false -> blanks p = true -> in_str x p = false.
Proof.
  intros Hx. induction p as [|c p IH]; cbn; [reflexivity|]. intros H.
  apply andb_true_iff in H as [Hc Hp]. rewrite (blank_not c x Hx Hc). cbn. apply IH. exact Hp.
Qed.

Lemma in_str_false_not c s : in_str c s = false -> forallb (cmatch (CNot (CChar c))) s = true.
Proof.
  induction s as [|x s IH]; [reflexivity|]. rewrite in_str_cons. cbn [forallb]. intros H.
  apply orb_false_iff in H as [Hx Hs]. rewrite (IH Hs). cbn [cmatch]. rewrite N.eqb_sym, Hx. reflexivity.
Qed.

Lemma nonl_any s : in_str 10 s = false -> forallb (cmatch CAny) s = true.
Proof.
  induction s as [|x s IH]; [reflexivity|]. rewrite in_str_cons. cbn [forallb]. intros H.
  apply orb_false_iff in H as [Hx Hs]. rewrite (IH Hs). cbn [cmatch]. rewrite N.eqb_sym, Hx. reflexivity.
Qed.

Lemma forallb_app3 (f : N -> bool) a b c :
  forallb f a = true -> forallb f b = true -> forallb f c = true -> forallb f (a ++ b ++ c) = true.
Proof. intros Ha Hb Hc. rewrite !forallb_app, Ha, Hb, Hc. reflexivity. Qed.

Lemma in_str_app3 x a b c :
  in_str x a = false -> in_str x b = false -> in_str x c = false -> in_str x (a ++ b ++ c) = false.
Proof. intros Ha Hb Hc. rewrite !in_str_app, Ha, Hb, Hc. reflexivity. Qed.

Lemma blanks_space p : blanks p = true -> forallb is_space p = true.
Proof.
  induction p as [|c p IH]; cbn; [reflexivity|]. intros H.
  apply andb_true_iff in H as [Hc Hp]. rewrite (blank_space c Hc), (IH Hp). reflexivity.
Qed.

Lemma in_str_suffix c a b : in_str c (a ++ b) = false -> in_str c b = false.
Proof. rewrite in_str_app. intros H. apply orb_false_iff in H as [_ H]. exact H. Qed.

Lemma in_str_head c x s : in_str c (x :: s) = false -> (x =? c) = false.
Proof. cbn. intros H. apply orb_false_iff in H as [H _]. rewrite N.eqb_sym. exact H. Qed.

(* ---------- strip -------------------------------------------------------------------- *)
Lemma lstrip_by_all f a s : forallb f a = true -> lstrip_by f (a ++ s) = lstrip_by f s.
Proof.
  induction a as [|c a IH]; cbn; [reflexivity|]. intros H.
  apply andb_true_iff in H as [Hc Ha]. rewrite Hc. apply IH. exact Ha.
Qed.

Lemma lstrip_by_all_nil f a : forallb f a = true -> lstrip_by f a = [].
Proof. intros H. rewrite <- (app_nil_r a). rewrite lstrip_by_all by exact H. reflexivity. Qed.

Lemma lstrip_by_keep f c s : f c = false -> lstrip_by f (c :: s) = c :: s.
Proof. intros H. cbn. rewrite H. reflexivity. Qed.

Lemma forallb_rev (f : N -> bool) s : forallb f (rev s) = forallb f s.
Proof.
  induction s as [|c s IH]; cbn; [reflexivity|].
  rewrite forallb_app, IH. cbn. rewrite andb_true_r. apply andb_comm.
Qed.

Lemma strip_by_pad f a x b :
  forallb f a = true -> forallb f b = true ->
  match x with [] => True | c :: _ => f c = false /\ f (last x 0) = false end ->
  strip_by f (a ++ x ++ b) = x.
Proof.
  intros Ha Hb Hx. unfold strip_by, rstrip_by. rewrite lstrip_by_all by exact Ha.
  destruct x as [|c x].
  - cbn [app]. rewrite (lstrip_by_all_nil f b Hb). reflexivity.
  - destruct Hx as [Hc Hl]. cbn [app]. rewrite lstrip_by_keep by exact Hc.
    change (c :: x ++ b) with ((c :: x) ++ b). rewrite rev_app_distr.
    rewrite lstrip_by_all by (rewrite forallb_rev; exact Hb).
    assert (Hne : c :: x <> []) by discriminate.
    rewrite (app_removelast_last 0 Hne) at 1. rewrite rev_app_distr. cbn [rev app].
    rewrite lstrip_by_keep by exact Hl.
    change (last (c :: x) 0 :: rev (removelast (c :: x))) with (rev [last (c :: x) 0] ++ rev (removelast (c :: x))).
    rewrite <- rev_app_distr, rev_involutive. symmetry. apply app_removelast_last. exact Hne.
Qed.

Lemma strip_pad a x b :
  blanks a = true -> blanks b = true -> stripped x = true -> strip (a ++ x ++ b) = x.
Proof.
  intros Ha Hb Hx. apply strip_by_pad; [apply blanks_space; exact Ha|apply blanks_space; exact Hb|].
  destruct x as [|c x]; [exact I|]. unfold stripped in Hx. apply andb_true_iff in Hx as [H1 H2].
  split; [apply negb_true_iff; exact H1|apply negb_true_iff; exact H2].
Qed.

Lemma strip_stripped x : stripped x = true -> strip x = x.
Proof.
  intros H. rewrite <- (app_nil_r x) at 1. change (x ++ []) with ([] ++ x ++ []).
  apply strip_pad; [reflexivity|reflexivity|exact H].
Qed.

(* ---------- single steps of the matcher ---------------------------------------------- *)
Lemma opt_some (X Y : option st) r :
  X = Some r -> match X with Some r' => Some r' | None => Y end = Some r.
Proof. intros ->. reflexivity. Qed.

Lemma opt_none (X Y : option st) r :
  X = None -> Y = Some r -> match X with Some r' => Some r' | None => Y end = Some r.
Proof. intros -> ->. reflexivity. Qed.

Lemma cls_fail k p s cs cont :
  match s with [] => True | c :: _ => cmatch k c = false end ->
  m (Cls k) (mkst p s cs) cont = None.
Proof. destruct s as [|c s]; cbn [m rem]; [reflexivity|]. intros ->. reflexivity. Qed.

Lemma cls_step k p c s cs cont :
  cmatch k c = true -> m (Cls k) (mkst p (c :: s) cs) cont = cont (mkst (c :: p) s cs).
Proof. intros H. cbn [m rem pre caps]. rewrite H. reflexivity. Qed.

Lemma star_g_all k s p cs cont r :
  forallb (cmatch k) s = true -> cont (mkst (rev s ++ p) [] cs) = Some r ->
  star_g k p s cs cont = Some r.
Proof.
  intros Hs Hk. rewrite <- (app_nil_r s). apply star_g_max; [exact Hs|exact I|exact Hk].
Qed.

(* one unfolding step at a time (cbn [m] would also unfold under the continuations) *)
Lemma m_seq a b x cont : m (Seq a b) x cont = m a x (fun y => m b y cont).
Proof. reflexivity. Qed.
Lemma m_eps x cont : m Eps x cont = cont x.
Proof. reflexivity. Qed.
Lemma m_grp n a p s cs cont :
  m (Grp n a) (mkst p s cs) cont =
  m a (mkst p s cs) (fun y => cont (mkst (pre y) (rem y)
        ((n, firstn (List.length s - List.length (rem y)) s) :: caps y))).
Proof. reflexivity. Qed.
Lemma m_star k p s cs cont : m (Star k) (mkst p s cs) cont = star_g k p s cs cont.
Proof. reflexivity. Qed.
Lemma m_lstar k p s cs cont : m (LStar k) (mkst p s cs) cont = star_l k p s cs cont.
Proof. reflexivity. Qed.
Lemma m_opt a x cont :
  m (Opt a) x cont = match m a x cont with Some r => Some r | None => cont x end.
Proof. reflexivity. Qed.
Lemma m_plus_cons k p c s cs cont :
  m (Plus k) (mkst p (c :: s) cs) cont = if cmatch k c then star_g k (c :: p) s cs cont else None.
Proof. reflexivity. Qed.

Ltac mstep :=
  repeat first [rewrite m_seq | rewrite m_grp | rewrite m_star | rewrite m_lstar | rewrite m_eps];
  cbn beta; cbn [pre rem caps].

(* ---------- fragment: value and description (greedy any-star, colon, greedy any-star) -- *)
Definition vd_lit : re := Seq value_lit desc_lit.

(* the any-star runs to the end of the line and backs off to the LAST colon *)
Lemma vd_run W D p cs :
  forallb (cmatch CAny) W = true -> forallb (cmatch CAny) D = true -> in_str 58 D = false ->
  m vd_lit (mkst p (W ++ 58 :: D) cs) kdone =
  Some (mkst (rev D ++ 58 :: rev W ++ p) [] ((3%nat, D) :: (2%nat, W) :: cs)).
Proof.
  intros HW HD HcD. unfold vd_lit, value_lit, desc_lit. mstep.
  apply star_g_pick; [exact HW| |].
  - mstep. rewrite firstn_app_len. rewrite cls_step by reflexivity. mstep.
    apply star_g_all; [exact HD|]. mstep. rewrite firstn_len_nil. reflexivity.
  - intros a b Ha E _. mstep. destruct a as [|a0 a]; [congruence|]. cbn [app] in E.
    injection E as E0 E1. apply cls_fail. destruct b as [|b0 b]; [exact I|].
    cbn [cmatch]. subst D. apply in_str_suffix in HcD. apply in_str_head in HcD. exact HcD.
Qed.

(* no colon left: the pair fails *)
Lemma vd_fail s p cs : in_str 58 s = false -> m vd_lit (mkst p s cs) kdone = None.
Proof.
  intros Hs. unfold vd_lit, value_lit, desc_lit. mstep.
  apply star_g_none. intros a b E _. mstep. apply cls_fail. destruct b as [|b0 b]; [exact I|].
  cbn [cmatch]. subst s. apply in_str_suffix in Hs. apply in_str_head in Hs. exact Hs.
Qed.

(* ---------- fragment: unit (optional digits+space group, greedy non-space star) ------- *)
(* W is empty or starts with white space *)
Definition head_space (W : list N) : Prop :=
  match W with [] => True | c :: _ => is_space c = true end.

(* continuations that need a colon ahead *)
Definition needs_colon (cont : K) : Prop :=
  forall p b cs, in_str 58 b = false -> cont (mkst p b cs) = None.

(* when the value zone W is empty the non-space star over-runs the separating colon and has
   to back off: safe when nothing after the separator can satisfy the continuation *)
Definition overrun_safe (W D : list N) (cont : K) : Prop :=
  W = [] -> in_str 58 D = false /\ needs_colon cont.

(* the non-space star takes exactly w: the next character is white space, or it is the
   separating colon itself and every longer split leaves no colon for the continuation *)
Lemma nonspace_run w W D p cs cont r :
  no_space w = true -> head_space W -> overrun_safe W D cont ->
  cont (mkst (rev w ++ p) (W ++ 58 :: D) cs) = Some r ->
  star_g (CNot CSpace) p (w ++ W ++ 58 :: D) cs cont = Some r.
Proof.
  intros Hw HW Hov Hk. apply star_g_pick; [exact Hw|exact Hk|].
  intros a b Ha E Hall. destruct a as [|a0 a]; [congruence|].
  destruct W as [|w0 W]; cbn [app] in E; injection E as E0 E1.
  - destruct (Hov eq_refl) as [HD Hf]. apply Hf. subst D. apply in_str_suffix in HD. exact HD.
  - subst a0. cbn [forallb cmatch] in Hall. cbn in HW. rewrite HW in Hall. discriminate.
Qed.

(* digits followed by white space cannot be found at the start of a white-space-free word
   that is not entirely digits *)
Lemma digits_space_fail cont cs : forall u rest p,
  no_space u = true -> all_digit u = false ->
  star_g (CRange 48 57) p (u ++ rest) cs (fun y => m (Cls CSpace) y cont) = None.
Proof.
  induction u as [|c u IH]; intros rest p Hu Hd; [discriminate|].
  cbn [no_space forallb] in Hu. apply andb_true_iff in Hu as [Hc Hu].
  apply negb_true_iff in Hc.
  assert (H0 : m (Cls CSpace) (mkst p (c :: u ++ rest) cs) cont = None).
  { apply cls_fail. exact Hc. }
  cbn [app star_g]. destruct (cmatch (CRange 48 57) c) eqn:Hdc; [|exact H0].
  rewrite IH; [exact H0|exact Hu|].
  cbn [all_digit forallb] in Hd. change (cmatch (CRange 48 57) c) with (is_digit c) in Hdc.
  rewrite Hdc in Hd. exact Hd.
Qed.

(* digits followed by white space cannot be found either when the white-space-free word is
   followed by something that is neither a digit nor white space (the separating colon) *)
Lemma digits_stop_fail cont cs : forall u rest p,
  no_space u = true ->
  match rest with [] => True | x :: _ => is_digit x = false /\ is_space x = false end ->
  star_g (CRange 48 57) p (u ++ rest) cs (fun y => m (Cls CSpace) y cont) = None.
Proof.
  induction u as [|c u IH]; intros rest p Hu Hr.
  - cbn [app]. destruct rest as [|x rest]; [reflexivity|]. destruct Hr as [Hd Hs]. cbn [star_g].
    change (cmatch (CRange 48 57) x) with (is_digit x). rewrite Hd. apply cls_fail. exact Hs.
  - cbn [no_space forallb] in Hu. apply andb_true_iff in Hu as [Hc Hu].
    apply negb_true_iff in Hc.
    assert (H0 : m (Cls CSpace) (mkst p (c :: u ++ rest) cs) cont = None).
    { apply cls_fail. exact Hc. }
    cbn [app star_g]. destruct (cmatch (CRange 48 57) c) eqn:Hdc; [|exact H0].
    rewrite IH; [exact H0|exact Hu|exact Hr].
Qed.

Lemma unit_plain_run u W D p cs cont r :
  no_space u = true -> (is_nil u || negb (all_digit u) = true \/ W = []) ->
  head_space W -> overrun_safe W D cont ->
  cont (mkst (rev u ++ p) (W ++ 58 :: D) ((1%nat, u) :: cs)) = Some r ->
  m unit_lit (mkst p (u ++ W ++ 58 :: D) cs) cont = Some r.
Proof.
  intros Hu Hnd HW Hov Hk. unfold unit_lit. mstep. rewrite m_opt. apply opt_none.
  - (* the optional digits-blank group cannot start here *)
    mstep. destruct Hnd as [Hnd|HWnil].
    + destruct u as [|c u].
      * cbn [app]. destruct W as [|w0 W]; cbn [app]; rewrite m_plus_cons.
        -- reflexivity.
        -- cbn in HW. change (cmatch (CRange 48 57) w0) with (is_digit w0).
           rewrite (space_not_digit w0 HW). reflexivity.
      * cbn [is_nil orb] in Hnd. apply negb_true_iff in Hnd.
        cbn [app]. rewrite m_plus_cons. destruct (cmatch (CRange 48 57) c) eqn:Hdc; [|reflexivity].
        cbn [no_space forallb] in Hu. apply andb_true_iff in Hu as [Hc Hu].
        apply digits_space_fail; [exact Hu|].
        cbn [all_digit forallb] in Hnd. change (cmatch (CRange 48 57) c) with (is_digit c) in Hdc.
        rewrite Hdc in Hnd. exact Hnd.
    + subst W. cbn [app]. destruct u as [|c u]; cbn [app]; rewrite m_plus_cons.
      * reflexivity.
      * destruct (cmatch (CRange 48 57) c) eqn:Hdc; [|reflexivity].
        cbn [no_space forallb] in Hu. apply andb_true_iff in Hu as [Hc Hu].
        apply digits_stop_fail; [exact Hu|]. split; reflexivity.
  - mstep. apply nonspace_run; [exact Hu|exact HW| |].
    + intros E. destruct (Hov E) as [HD Hf]. split; [exact HD|].
      intros p' b cs' Hb. apply Hf. exact Hb.
    + mstep. rewrite firstn_app_len. exact Hk.
Qed.

Lemma app_cons_assoc (a : list N) x b c : a ++ x :: b ++ c = (a ++ x :: b) ++ c.
Proof. rewrite <- app_assoc. reflexivity. Qed.

Lemma app_cons_snoc (a : list N) x b : a ++ x :: b = (a ++ [x]) ++ b.
Proof. rewrite <- app_assoc. reflexivity. Qed.

(* "1000 lbf": digits, one white-space character, a white-space-free word *)
Lemma unit_num_run ds sp w W D p cs cont r :
  ds <> [] -> all_digit ds = true -> is_space sp = true -> no_space w = true ->
  head_space W -> overrun_safe W D cont ->
  cont (mkst (rev w ++ sp :: rev ds ++ p) (W ++ 58 :: D)
          ((1%nat, ds ++ sp :: w) :: (102%nat, ds ++ [sp]) :: cs)) = Some r ->
  m unit_lit (mkst p (ds ++ sp :: w ++ W ++ 58 :: D) cs) cont = Some r.
Proof.
  intros Hne Hds Hsp Hw HW Hov Hk. unfold unit_lit. mstep. rewrite m_opt. apply opt_some.
  mstep. destruct ds as [|d0 ds]; [congruence|].
  cbn [all_digit forallb] in Hds. apply andb_true_iff in Hds as [Hd0 Hds].
  cbn [app]. rewrite m_plus_cons. change (cmatch (CRange 48 57) d0) with (is_digit d0). rewrite Hd0.
  apply star_g_max; [exact Hds| |].
  - change (cmatch (CRange 48 57) sp) with (is_digit sp). apply space_not_digit. exact Hsp.
  - rewrite cls_step by exact Hsp. mstep.
    apply nonspace_run; [exact Hw|exact HW| |].
    + intros E. destruct (Hov E) as [HD Hf]. split; [exact HD|].
      intros p' b cs' Hb. apply Hf. exact Hb.
    + mstep.
      change (d0 :: ds ++ sp :: w ++ W ++ 58 :: D) with ((d0 :: ds) ++ sp :: w ++ W ++ 58 :: D).
      rewrite (app_cons_assoc (d0 :: ds) sp w (W ++ 58 :: D)) at 1 2.
      rewrite firstn_app_len.
      rewrite (app_cons_snoc (d0 :: ds) sp (w ++ W ++ 58 :: D)).
      rewrite firstn_app_len.
      cbn [rev] in Hk. rewrite <- app_assoc in Hk. cbn [app] in Hk. cbn [app]. exact Hk.
Qed.

(* ---------- fragment: name (optional dot, greedy dot-free star, dot) ------------------ *)
Lemma name_run N R p cs cont r :
  N <> [] -> in_str 46 N = false ->
  cont (mkst (46 :: rev N ++ p) R ((0%nat, N) :: cs)) = Some r ->
  m name_lit (mkst p (N ++ 46 :: R) cs) cont = Some r.
Proof.
  intros Hne HN Hk. unfold name_lit. rewrite m_seq, m_opt. apply opt_none.
  - destruct N as [|c N]; [congruence|]. apply cls_fail. cbn [app cmatch].
    apply in_str_head in HN. exact HN.
  - mstep. apply star_g_max; [apply in_str_false_not; exact HN|reflexivity|].
    mstep. rewrite firstn_app_len. rewrite cls_step by reflexivity. exact Hk.
Qed.

(* ---------- fragment: name of a line without a period (greedy colon-free star, colon) - *)
Lemma name_mp_run N R p cs cont r :
  in_str 58 N = false ->
  cont (mkst (58 :: rev N ++ p) R ((0%nat, N) :: cs)) = Some r ->
  m name_mp_lit (mkst p (N ++ 58 :: R) cs) cont = Some r.
Proof.
  intros HN Hk. unfold name_mp_lit. mstep.
  apply star_g_max; [apply in_str_false_not; exact HN|reflexivity|].
  mstep. rewrite firstn_app_len. rewrite cls_step by reflexivity. exact Hk.
Qed.

Lemma value_mp_run V p cs :
  forallb (cmatch CAny) V = true ->
  m value_mp_lit (mkst p V cs) kdone = Some (mkst (rev V ++ p) [] ((2%nat, V) :: cs)).
Proof.
  intros HV. unfold value_mp_lit. mstep. apply star_g_all; [exact HV|].
  mstep. rewrite firstn_len_nil. reflexivity.
Qed.

(* ---------- fragment: ~Parameter value (lazy any-star, eligible colon) and description --- *)
Definition tvd_lit : re := Seq tvalue_lit desc_lit.

Lemma m_notbehind alts x cont :
  m (NotBehind alts) x cont =
  if existsb (fun ks => prefix_cls (rev ks) (pre x)) alts then None else cont x.
Proof. reflexivity. Qed.
Lemma m_notahead alts x cont :
  m (NotAhead alts) x cont =
  if existsb (fun ks => prefix_cls ks (rem x)) alts then None else cont x.
Proof. reflexivity. Qed.

Lemma prefix_cls_mono t : forall ks s, prefix_cls ks s = true -> prefix_cls ks (s ++ t) = true.
Proof.
  induction ks as [|k ks IH]; intros s H; [reflexivity|].
  destruct s as [|c s]; [discriminate|]. cbn [prefix_cls app] in *.
  apply andb_true_iff in H as [Hc H]. rewrite Hc, (IH s H). reflexivity.
Qed.

Lemma ahead_blocked_mono s t : ahead_blocked s = true -> ahead_blocked (s ++ t) = true.
Proof.
  unfold ahead_blocked. rewrite !existsb_exists. intros (ks & Hin & H).
  exists ks. split; [exact Hin|]. apply prefix_cls_mono. exact H.
Qed.

Lemma clock_colons_split b : forall a, clock_colons (a ++ 58 :: b) = true -> ahead_blocked b = true.
Proof.
  induction a as [|c a IH]; cbn [app clock_colons]; intros H; apply andb_true_iff in H as [H1 H2].
  - exact H1.
  - apply IH. exact H2.
Qed.

(* the lazy star stops at the first colon that is not a clock colon *)
Lemma tvd_run W D p cs :
  forallb (cmatch CAny) W = true -> forallb (cmatch CAny) D = true ->
  clock_colons W = true -> behind_blocked (rev W ++ p) = false -> ahead_blocked D = false ->
  m tvd_lit (mkst p (W ++ 58 :: D) cs) kdone =
  Some (mkst (rev D ++ 58 :: rev W ++ p) [] ((3%nat, D) :: (2%nat, W) :: cs)).
Proof.
  intros HW HD Hcc Hb Ha. unfold tvd_lit, tvalue_lit, desc_lit. mstep.
  apply star_l_pick; [exact HW| |].
  - mstep. rewrite firstn_app_len. rewrite m_notbehind. cbn [pre].
    change (existsb (fun ks => prefix_cls (rev ks) (rev W ++ p)) behind_lit) with (behind_blocked (rev W ++ p)).
    rewrite Hb. mstep. rewrite cls_step by reflexivity. rewrite m_notahead. cbn [rem].
    change (existsb (fun ks => prefix_cls ks D) ahead_lit) with (ahead_blocked D).
    rewrite Ha. mstep. apply star_g_all; [exact HD|]. mstep. rewrite firstn_len_nil. reflexivity.
  - intros a b Hb0 E. mstep. rewrite m_notbehind. cbn [pre].
    destruct (existsb _ behind_lit); [reflexivity|]. mstep.
    destruct b as [|b0 b]; [congruence|]. cbn [app].
    destruct (cmatch (CChar 58) b0) eqn:Hb58; [|apply cls_fail; exact Hb58].
    rewrite cls_step by exact Hb58. rewrite m_notahead. cbn [rem].
    cbn [cmatch] in Hb58. apply N.eqb_eq in Hb58. subst b0 W.
    apply clock_colons_split in Hcc.
    change (existsb (fun ks => prefix_cls ks (b ++ 58 :: D)) ahead_lit) with (ahead_blocked (b ++ 58 :: D)).
    rewrite (ahead_blocked_mono b (58 :: D) Hcc). reflexivity.
Qed.

(* a blank just before / just after the colon makes it a separator *)
Lemma behind_blank c q : is_blank c = true -> behind_blocked (c :: q) = false.
Proof.
  intros H. unfold behind_blocked. change time_behind_alts with behind_lit.
  unfold behind_lit. cbn [existsb rev app prefix_cls cmatch]. unfold is_blank in H. lia.
Qed.
Lemma ahead_blank c q : is_blank c = true -> ahead_blocked (c :: q) = false.
Proof.
  intros H. unfold ahead_blocked. change time_ahead_alts with ahead_lit.
  unfold ahead_lit. cbn [existsb prefix_cls cmatch]. unfold is_blank in H. lia.
Qed.

Lemma clock_colons_pad a v b :
  in_str 58 a = false -> in_str 58 b = false -> clock_colons v = true ->
  clock_colons (a ++ v ++ b) = true.
Proof.
  intros Ha Hb Hv. induction a as [|c a IH]; cbn [app].
  - clear Ha. induction v as [|c v IH]; cbn [app].
    + induction b as [|c b IH]; [reflexivity|]. rewrite in_str_cons in Hb.
      apply orb_false_iff in Hb as [Hc Hb]. cbn [clock_colons]. rewrite (IH Hb).
      rewrite N.eqb_sym, Hc. reflexivity.
    + cbn [clock_colons] in *. apply andb_true_iff in Hv as [H1 H2]. rewrite (IH H2).
      rewrite andb_true_r. apply orb_true_iff in H1 as [H1|H1]; [rewrite H1; reflexivity|].
      rewrite (ahead_blocked_mono v b H1). apply orb_true_r.
  - rewrite in_str_cons in Ha. apply orb_false_iff in Ha as [Hc Ha]. cbn [clock_colons].
    rewrite (IH Ha). rewrite N.eqb_sym, Hc. reflexivity.
Qed.

(* ---------- ~Parameter: no colon left --------------------------------------------------- *)
Lemma tvd_fail s p cs : in_str 58 s = false -> m tvd_lit (mkst p s cs) kdone = None.
Proof.
  intros Hs. unfold tvd_lit, tvalue_lit, desc_lit. mstep.
  apply star_l_none. intros a b E _. mstep. rewrite m_notbehind.
  destruct (existsb _ behind_lit); [reflexivity|]. mstep.
  apply cls_fail. destruct b as [|b0 b]; [exact I|].
  cbn [cmatch]. subst s. apply in_str_suffix in Hs. apply in_str_head in Hs. exact Hs.
Qed.

Lemma needs_colon_tvd : needs_colon (fun y => m tvd_lit y kdone).
Proof. intros p b cs Hb. apply tvd_fail. exact Hb. Qed.

(* ---------- whole patterns ----------------------------------------------------------- *)
Definition main_lit : re := Seq name_lit (Seq unit_lit vd_lit).
Definition mp_lit : re := Seq name_mp_lit (Seq Eps (Seq value_mp_lit Eps)).
Definition time_lit : re := Seq name_lit (Seq unit_lit tvd_lit).

Lemma needs_colon_vd : needs_colon (fun y => m vd_lit y kdone).
Proof. intros p b cs Hb. apply vd_fail. exact Hb. Qed.

Lemma mp_run N V :
  in_str 58 N = false -> forallb (cmatch CAny) V = true ->
  exists q, re_match mp_lit (N ++ 58 :: V) = Some (mkst q [] [(2%nat, V); (0%nat, N)]).
Proof.
  intros HN HV. eexists. unfold re_match, mp_lit. rewrite m_seq.
  apply name_mp_run; [exact HN|]. rewrite m_seq, m_eps, m_seq.
  change (fun y : st => m Eps y kdone) with kdone.
  apply value_mp_run. exact HV.
Qed.

(* ---------- find / contains / search on the raw line --------------------------------- *)
Lemma find_from_shift p : forall s i, find_from p s (S i) = option_map S (find_from p s i).
Proof.
  induction s as [|c s IH]; intros i; cbn [find_from].
  - destruct (startswith p []); reflexivity.
  - destruct (startswith p (c :: s)); [reflexivity|]. apply IH.
Qed.

(* line[:line.find(c)] as configure_patterns computes it *)
Definition before (c : N) (s : list N) : list N :=
  match find_char c s with Some i => firstn i s | None => s end.

Lemma before_cons c x s : before c (x :: s) = if c =? x then [] else x :: before c s.
Proof.
  unfold before, find_char, find. cbn [find_from startswith]. destruct (c =? x); cbn [andb].
  - destruct s; reflexivity.
  - rewrite find_from_shift. destruct (find_from [c] s 0); reflexivity.
Qed.

Lemma before_has_dot R : forall N, in_str 58 N = false -> in_str 46 (before 58 (N ++ 46 :: R)) = true.
Proof.
  induction N as [|x N IH]; intros H; cbn [app]; rewrite before_cons.
  - reflexivity.
  - rewrite in_str_cons in H. apply orb_false_iff in H as [Hx HN]. rewrite Hx.
    rewrite in_str_cons, (IH HN). apply orb_true_r.
Qed.

Lemma before_first B : forall A, in_str 58 A = false -> before 58 (A ++ 58 :: B) = A.
Proof.
  induction A as [|x A IH]; intros H; cbn [app]; rewrite before_cons.
  - reflexivity.
  - rewrite in_str_cons in H. apply orb_false_iff in H as [Hx HA]. rewrite Hx, (IH HA). reflexivity.
Qed.

Lemma in_str_mid c A B : in_str c (A ++ c :: B) = true.
Proof. rewrite in_str_app, in_str_cons, N.eqb_refl. cbn. apply orb_true_r. Qed.

Lemma contains_cons p x s : contains p (x :: s) = startswith p (x :: s) || contains p s.
Proof.
  unfold contains, find. cbn [find_from]. destruct (startswith p (x :: s)); [reflexivity|].
  rewrite find_from_shift. destruct (find_from p s 0); reflexivity.
Qed.

Lemma dd_here_fail p c s :
  contains [46; 46] s = false -> m dd_lit (mkst p (c :: s) []) kdone = None.
Proof.
  intros H. unfold dd_lit. rewrite m_seq. destruct (cmatch (CNot (CChar 32)) c) eqn:Hc.
  - rewrite cls_step by exact Hc. rewrite m_seq.
    destruct s as [|a s]; [reflexivity|]. rewrite contains_cons in H.
    apply orb_false_iff in H as [H _].
    destruct (cmatch (CChar 46) a) eqn:Ha; [|apply cls_fail; exact Ha].
    rewrite cls_step by exact Ha. apply cls_fail. destruct s as [|b s]; [exact I|].
    cbn [startswith] in H. cbn [cmatch] in *. rewrite (N.eqb_sym 46 a), Ha in H.
    rewrite (N.eqb_sym 46 b) in H. cbn [andb] in H. rewrite andb_true_r in H. exact H.
  - apply cls_fail. exact Hc.
Qed.

Lemma no_dd_search : forall s p, contains [46; 46] s = false -> search_from dd_lit p s = None.
Proof.
  induction s as [|c s IH]; intros p H; cbn [search_from].
  - reflexivity.
  - rewrite contains_cons in H. apply orb_false_iff in H as [_ H].
    rewrite (dd_here_fail p c s H). apply IH. exact H.
Qed.

Lemma no_dd_re_search s : contains [46; 46] s = false -> re_search dd_lit s = false.
Proof. intros H. unfold re_search. rewrite (no_dd_search s [] H). reflexivity. Qed.

Lemma no_double_dot_plain line : no_double_dot line = true -> curves_plain line = true.
Proof.
  unfold no_double_dot, curves_plain. intros H. apply negb_true_iff in H.
  change rx_double_dot_search with dd_lit. rewrite (no_dd_re_search line H). reflexivity.
Qed.

(* ---------- pattern selection -------------------------------------------------------- *)

(* a line with a colon and a period before the first colon, no ".." trigger in ~Curves:
   the ordinary pattern, preceded by the time pattern in ~Parameter *)
Lemma cp_period line ic ip :
  in_str 58 line = true -> in_str 46 (before 58 line) = true ->
  (ic = true -> curves_plain line = true) ->
  configure_patterns line ic ip = if ip then [time_lit; main_lit] else [main_lit].
Proof.
  intros Hc Hd Hdd. unfold configure_patterns. cbv zeta.
  change (match find_char ch_colon line with Some i => firstn i line | None => line end)
    with (before 58 line).
  change (in_str ch_colon line) with (in_str 58 line). change (in_str ch_dot (before 58 line)) with (in_str 46 (before 58 line)).
  rewrite Hc, Hd. cbn [andb negb].
  destruct ic.
  - specialize (Hdd eq_refl). unfold curves_plain in Hdd. apply negb_true_iff in Hdd.
    rewrite andb_true_r.
    change (find [ch_dot; ch_dot] line) with (find [46; 46] line).
    change (rfind_char ch_colon line) with (rfind_char 58 line).
    destruct (re_search rx_double_dot_search line); [|reflexivity].
    cbn [andb] in Hdd. rewrite Hdd. reflexivity.
  - rewrite andb_false_r. reflexivity.
Qed.

(* a line whose text before the first colon has no period: NAME : VALUE in every section *)
Lemma cp_missing_period line ic ip :
  in_str 58 line = true -> in_str 46 (before 58 line) = false ->
  (ic = true -> curves_plain line = true) ->
  configure_patterns line ic ip = if ip then [mp_lit; mp_lit] else [mp_lit].
Proof.
  intros Hc Hd Hdd. unfold configure_patterns. cbv zeta.
  change (match find_char ch_colon line with Some i => firstn i line | None => line end)
    with (before 58 line).
  change (in_str ch_colon line) with (in_str 58 line). change (in_str ch_dot (before 58 line)) with (in_str 46 (before 58 line)).
  rewrite Hc, Hd. cbn [andb negb].
  destruct ic.
  - specialize (Hdd eq_refl). unfold curves_plain in Hdd. apply negb_true_iff in Hdd.
    rewrite andb_true_r.
    change (find [ch_dot; ch_dot] line) with (find [46; 46] line).
    change (rfind_char ch_colon line) with (rfind_char 58 line).
    destruct (re_search rx_double_dot_search line); [|reflexivity].
    cbn [andb] in Hdd. rewrite Hdd. reflexivity.
  - rewrite andb_false_r. reflexivity.
Qed.

(* ---------- the unit zone, abstractly ------------------------------------------------ *)
(* captures added by inner groups of the unit pattern do not hide the named groups *)
Definition caps_transparent (extra : list (nat * list N)) : Prop :=
  forall n l, (n < 100)%nat -> group_opt n (extra ++ l) = group_opt n l.

(* on U ++ W ++ ":" ++ D the unit pattern consumes exactly U (for every continuation that
   succeeds there, and that cannot succeed past the separator when W is empty) *)
Definition unit_splits (U W D : list N) : Prop :=
  exists extra, caps_transparent extra /\
  forall p cs cont r, overrun_safe W D cont ->
    cont (mkst (rev U ++ p) (W ++ 58 :: D) ((1%nat, U) :: extra ++ cs)) = Some r ->
    m unit_lit (mkst p (U ++ W ++ 58 :: D) cs) cont = Some r.

Definition unit_word (U : list N) : Prop := forall W D, head_space W -> unit_splits U W D.

Lemma unit_word_plain u :
  no_space u = true -> is_nil u || negb (all_digit u) = true -> unit_word u.
Proof.
  intros Hu Hd W D HW. exists []. split.
  - intros n l _. reflexivity.
  - intros p cs cont r Hov Hk. cbn [app] in Hk. apply unit_plain_run; try assumption. left. exact Hd.
Qed.

(* directly against the separating colon any white-space-free word is taken whole *)
Lemma unit_splits_tight u D : no_space u = true -> unit_splits u [] D.
Proof.
  intros Hu. exists []. split.
  - intros n l _. reflexivity.
  - intros p cs cont r Hov Hk. cbn [app] in Hk.
    apply (unit_plain_run u [] D); try assumption; [right; reflexivity|exact I].
Qed.

Lemma unit_word_num ds sp w :
  ds <> [] -> all_digit ds = true -> is_space sp = true -> no_space w = true ->
  unit_word (ds ++ sp :: w).
Proof.
  intros Hne Hds Hsp Hw W D HW. exists [(102%nat, ds ++ [sp])]. split.
  - intros n l Hn. cbn [app group_opt]. destruct (Nat.eqb 102 n) eqn:E; [|reflexivity].
    apply Nat.eqb_eq in E. lia.
  - intros p cs cont r Hov Hk. rewrite <- app_assoc. cbn [app].
    apply unit_num_run; try assumption.
    rewrite rev_app_distr in Hk. cbn [rev] in Hk. rewrite <- !app_assoc in Hk. cbn [app] in Hk.
    exact Hk.
Qed.

Definition captures_are (y : st) (N U W D : list N) : Prop :=
  group_opt 0 (caps y) = Some N /\ group_opt 1 (caps y) = Some U /\
  group_opt 2 (caps y) = Some W /\ group_opt 3 (caps y) = Some D.

Lemma caps_layout extra N U W D q :
  caps_transparent extra ->
  captures_are (mkst q [] ((3%nat, D) :: (2%nat, W) :: (1%nat, U) :: extra ++ [(0%nat, N)])) N U W D.
Proof.
  intros Ht. unfold captures_are. cbn [caps group_opt Nat.eqb]. rewrite Ht by lia.
  cbn [group_opt Nat.eqb]. repeat split.
Qed.

Lemma main_run N U W D :
  N <> [] -> in_str 46 N = false -> unit_splits U W D ->
  forallb (cmatch CAny) W = true -> forallb (cmatch CAny) D = true -> in_str 58 D = false ->
  exists y, re_match main_lit (N ++ 46 :: U ++ W ++ 58 :: D) = Some y /\ captures_are y N U W D.
Proof.
  intros Hne HN (extra & Ht & Hrun) HWa HDa HD. eexists. split.
  - unfold re_match, main_lit. rewrite !m_seq.
    apply name_run; [exact Hne|exact HN|].
    apply Hrun; [intros _; split; [exact HD|exact needs_colon_vd]|].
    apply vd_run; [exact HWa|exact HDa|exact HD].
  - apply caps_layout. exact Ht.
Qed.

Lemma time_run N U W D :
  N <> [] -> in_str 46 N = false -> unit_splits U W D ->
  (W = [] -> in_str 58 D = false) -> forallb (cmatch CAny) W = true ->
  forallb (cmatch CAny) D = true -> clock_colons W = true ->
  behind_blocked (rev W ++ rev U ++ 46 :: rev N ++ []) = false -> ahead_blocked D = false ->
  exists y, re_match time_lit (N ++ 46 :: U ++ W ++ 58 :: D) = Some y /\ captures_are y N U W D.
Proof.
  intros Hne HN (extra & Ht & Hrun) HWD HWa HDa Hcc Hb Ha. eexists. split.
  - unfold re_match, time_lit. rewrite !m_seq.
    apply name_run; [exact Hne|exact HN|].
    apply Hrun; [intros E; split; [exact (HWD E)|exact needs_colon_tvd]|].
    apply tvd_run; [exact HWa|exact HDa|exact Hcc|exact Hb|exact Ha].
  - apply caps_layout. exact Ht.
Qed.

(* the time pattern needs a colon that is not excused by its look-arounds *)
Lemma no_elig_split B : forall A p,
  no_eligible_colon p (A ++ 58 :: B) = true -> behind_blocked (rev A ++ p) || ahead_blocked B = true.
Proof.
  induction A as [|c A IH]; intros p H; cbn [app no_eligible_colon] in H;
    apply andb_true_iff in H as [H1 H2].
  - rewrite N.eqb_refl in H1. cbn [negb orb rev app] in *. exact H1.
  - cbn [rev]. rewrite <- app_assoc. cbn [app]. apply IH. exact H2.
Qed.

Lemma time_fail line : no_eligible_colon [] line = true -> re_match time_lit line = None.
Proof.
  intros H. destruct (re_match time_lit line) as [y|] eqn:E; [exfalso|reflexivity].
  assert (Hok : ok (re_match time_lit line) = true) by (rewrite E; reflexivity).
  apply match_ok in Hok. destruct Hok as (s1 & s2 & Es & HL).
  unfold time_lit, tvd_lit, tvalue_lit in HL. cbn [L] in HL.
  destruct HL as (n & r1 & E1 & _ & un & r2 & E2 & _ & tv & dd & E3 &
                  (g & r3 & E4 & _ & nb & r4 & E5 & (Enb & Hnb) & c & r5 & E6 &
                   (ch & Ech & Hch) & Er5 & Hna) & _).
  cbn [cmatch] in Hch. apply N.eqb_eq in Hch. subst.
  cbn [app] in H. rewrite ?app_nil_r in H.
  assert (El : (n ++ un ++ (g ++ [58]) ++ dd) ++ s2 = (n ++ un ++ g) ++ 58 :: (dd ++ s2)).
  { rewrite <- !app_assoc. reflexivity. }
  rewrite El in H. apply no_elig_split in H.
  rewrite !rev_app_distr, <- !app_assoc in H.
  change (existsb (fun ks => prefix_cls (rev ks) (rev g ++ rev un ++ rev n ++ [])) behind_lit)
    with (behind_blocked (rev g ++ rev un ++ rev n ++ [])) in Hnb.
  change (existsb (fun ks => prefix_cls ks (dd ++ s2)) ahead_lit) with (ahead_blocked (dd ++ s2)) in Hna.
  rewrite Hnb, Hna in H. discriminate.
Qed.

(* ---------- read_header_line on a line  N . U W : D  ---------------------------------- *)
(* in ~Parameter: the time pattern matches at the separating colon, or it cannot match at all *)
Definition param_ok (N U W D : list N) : Prop :=
  (clock_colons W = true /\ behind_blocked (rev W ++ rev U ++ 46 :: rev N ++ []) = false /\
   ahead_blocked D = false /\ (W = [] -> in_str 58 D = false))
  \/ (no_eligible_colon [] (N ++ 46 :: U ++ W ++ 58 :: D) = true /\ in_str 58 D = false).

Lemma rhl_of_captures line ps y N U W D :
  first_match ps line = Some y -> captures_are y N U W D ->
  match first_match ps line with
  | None => None
  | Some y =>
      let g n := match group_opt n (caps y) with Some v => v | None => [] end in
      Some (mkhl (strip (g 0%nat)) (fix_unit (g 1%nat)) (strip (g 2%nat)) (strip (g 3%nat)))
  end = Some (mkhl (strip N) (fix_unit U) (strip W) (strip D)).
Proof. intros -> (H0 & H1 & H2 & H3). cbv zeta beta. rewrite H0, H1, H2, H3. reflexivity. Qed.

Lemma rhl_generic N U W D (ic ip : bool) :
  N <> [] -> in_str 46 N = false -> in_str 58 N = false -> unit_splits U W D ->
  forallb (cmatch CAny) W = true -> forallb (cmatch CAny) D = true ->
  (ic = true -> curves_plain (N ++ 46 :: U ++ W ++ 58 :: D) = true) ->
  (if ip return Prop then param_ok N U W D else in_str 58 D = false) ->
  read_header_line (N ++ 46 :: U ++ W ++ 58 :: D) ic ip =
  Some (mkhl (strip N) (fix_unit U) (strip W) (strip D)).
Proof.
  intros Hne HNd HNc HU HWa HDa Hdd Hsec. unfold read_header_line.
  rewrite (cp_period _ ic ip).
  - destruct ip.
    + destruct Hsec as [(Hcc & Hb & Ha & HWD)|(Hno & HD)].
      * destruct (time_run N U W D Hne HNd HU HWD HWa HDa Hcc Hb Ha) as (y & Hy & Hc).
        apply (rhl_of_captures _ _ y); [|exact Hc]. cbn [first_match]. rewrite Hy. reflexivity.
      * destruct (main_run N U W D Hne HNd HU HWa HDa HD) as (y & Hy & Hc).
        apply (rhl_of_captures _ _ y); [|exact Hc]. cbn [first_match].
        rewrite (time_fail _ Hno), Hy. reflexivity.
    + destruct (main_run N U W D Hne HNd HU HWa HDa Hsec) as (y & Hy & Hc).
      apply (rhl_of_captures _ _ y); [|exact Hc]. cbn [first_match]. rewrite Hy. reflexivity.
  - rewrite in_str_app, in_str_cons, in_str_app, in_str_app, in_str_cons. cbn. rewrite !orb_true_r. reflexivity.
  - apply before_has_dot. exact HNc.
  - exact Hdd.
Qed.

(* pieces for param_ok *)
Lemma no_elig_nocolon b : forall a p,
  in_str 58 a = false -> no_eligible_colon p (a ++ b) = no_eligible_colon (rev a ++ p) b.
Proof.
  induction a as [|c a IH]; intros p H; [reflexivity|].
  rewrite in_str_cons in H. apply orb_false_iff in H as [Hc Ha].
  cbn [app no_eligible_colon rev]. rewrite (N.eqb_sym c 58), Hc. cbn [negb orb andb].
  rewrite <- app_assoc. cbn [app]. apply IH. exact Ha.
Qed.

Lemma no_elig_clock b : forall W p,
  clock_colons W = true -> no_eligible_colon p (W ++ b) = no_eligible_colon (rev W ++ p) b.
Proof.
  induction W as [|c W IH]; intros p H; [reflexivity|].
  cbn [clock_colons] in H. apply andb_true_iff in H as [H1 H2].
  cbn [app no_eligible_colon rev].
  assert (Hc : negb (c =? 58) || behind_blocked p || ahead_blocked (W ++ b) = true).
  { apply orb_true_iff in H1 as [H1|H1]; [rewrite H1; reflexivity|].
    rewrite (ahead_blocked_mono W b H1). apply orb_true_r. }
  rewrite Hc. cbn [andb]. rewrite <- app_assoc. cbn [app]. apply IH. exact H2.
Qed.

Lemma no_elig_colonfree D p : in_str 58 D = false -> no_eligible_colon p D = true.
Proof. intros H. rewrite <- (app_nil_r D). rewrite (no_elig_nocolon [] D p H). reflexivity. Qed.

Lemma forallb_last (f : N -> bool) x : x <> [] -> forallb f x = true -> f (last x 0) = true.
Proof.
  intros Hne H. rewrite forallb_forall in H. apply H.
  rewrite (app_removelast_last 0 Hne) at 2. apply in_or_app. right. left. reflexivity.
Qed.

Lemma rev_pad_blank (a v p3 : list N) :
  p3 <> [] -> blanks p3 = true ->
  exists c q, rev (a ++ v ++ p3) = c :: q /\ is_blank c = true.
Proof.
  intros Hne Hb. exists (last p3 0), (rev (a ++ v ++ removelast p3)). split.
  - rewrite (app_removelast_last 0 Hne) at 1. rewrite !app_assoc, rev_app_distr. reflexivity.
  - apply forallb_last; [exact Hne|exact Hb].
Qed.

(* ---------- post-processing ---------------------------------------------------------- *)
Lemma no_space_stripped u : no_space u = true -> stripped u = true.
Proof.
  intros H. destruct u as [|c u]; [reflexivity|]. unfold stripped.
  assert (Hl : negb (is_space (last (c :: u) 0)) = true).
  { assert (Hin : In (last (c :: u) 0) (c :: u)).
    { assert (Hne : c :: u <> []) by discriminate.
      rewrite (app_removelast_last 0 Hne) at 2. apply in_or_app. right. left. reflexivity. }
    unfold no_space in H. rewrite forallb_forall in H. apply H. exact Hin. }
  rewrite Hl. cbn [no_space forallb] in H. apply andb_true_iff in H as [Hc _]. rewrite Hc. reflexivity.
Qed.

Lemma fix_unit_id u : stripped u = true -> endswith [46] u = false -> fix_unit u = u.
Proof.
  intros Hs He. unfold fix_unit. rewrite (strip_stripped u Hs).
  change (endswith [ch_dot] u) with (endswith [46] u). rewrite He. reflexivity.
Qed.

Lemma stripped_num ds sp w :
  ds <> [] -> all_digit ds = true -> w <> [] -> no_space w = true -> stripped (ds ++ sp :: w) = true.
Proof.
  intros Hne Hds Hw Hns. destruct ds as [|d0 ds]; [congruence|].
  cbn [all_digit forallb] in Hds. apply andb_true_iff in Hds as [Hd0 _].
  unfold stripped. cbn [app]. rewrite (digit_not_space d0 Hd0). cbn [negb andb].
  change (d0 :: ds ++ sp :: w) with ((d0 :: ds) ++ sp :: w).
  rewrite (app_cons_snoc (d0 :: ds) sp w).
  rewrite (app_removelast_last 0 Hw), app_assoc, last_last.
  apply no_space_stripped in Hns. destruct w as [|w0 w]; [congruence|].
  unfold stripped in Hns. apply andb_true_iff in Hns as [_ Hl]. exact Hl.
Qed.

Lemma endswith_app_ne c a w : w <> [] -> endswith [c] (a ++ w) = endswith [c] w.
Proof.
  intros Hw. unfold endswith. rewrite rev_app_distr.
  rewrite (app_removelast_last 0 Hw), rev_app_distr. reflexivity.
Qed.

