(* Proofs.RoundTripOriginal — audit item D7: the C03 file round trip (read_written_header,
   Proofs/FileRoundTripMain.v) compares what is read back with hs_las hs, the object in memory
   AFTER write.  Here it is composed with the frame of write relative to the object BEFORE the
   call (write_header_frame, write_data_frame, Proofs/WriteIdemProofs.v): every clause of the
   conclusion mentions only the ORIGINAL object m_las m (and the version written). *)
From Coq Require Import List Arith NArith ZArith Bool Lia String.
Import ListNotations.
Require Import PyStr Regex NumLit Num HeaderLine Tables SectionParse Sections DataRead Read TextWrap Writer.
Require Import ItemsBindProofs WriteStateProofs WriteIdemProofs WriteHeaderProofs WriteOptionsProofs WriteReadProofs
  WriteDataProofs WriteDataTextProofs
  FileRoundTripText FileRoundTripFind FileRoundTripFirstPass FileRoundTripHeader FileRoundTripData FileRoundTrip FileRoundTripMain
  FileRoundTripVersion.
Open Scope string_scope.
Open Scope list_scope.
Open Scope N_scope.

(* the ~Version items as written, from the ~Version items in memory: DLM's value set to SPACE
   (first item registered under DLM, when there is one), then VERS substituted for 1.2 / 2.0 *)
Definition written_version_items (tr : bool) (v : las_version) (items : list hitem) : list hitem :=
  let vcopy :=
    match update_first tr (s2l "DLM") (fun it => set_value it (VStr (s2l "SPACE"))) items with
    | Some r => r
    | None => items
    end in
  if las_version_eqb v V12 then
    set_item tr (s2l "VERS") (new_item (s2l "VERS") [] (VFloat (s2l "1.2")) (s2l "CWLS LOG ASCII STANDARD - VERSION 1.2")) vcopy
  else if las_version_eqb v V20 then
    set_item tr (s2l "VERS") (new_item (s2l "VERS") [] (VFloat (s2l "2.0")) (s2l "CWLS log ASCII Standard -VERSION 2.0")) vcopy
  else vcopy.

Lemma Forall2_map_r {A B C} (R : A -> B -> Prop) (Q : A -> C -> Prop) (f : B -> C)
      (H : forall a b, R a b -> Q a (f b)) : forall l l', Forall2 R l l' -> Forall2 Q l (map f l').
Proof. induction 1; cbn [map]; constructor; auto. Qed.

Lemma map_tl {A B} (f : A -> B) (l : list A) : map f (tl l) = tl (map f l).
Proof. destruct l; reflexivity. Qed.

Lemma cframe_set_unit a b : cframe a b -> b = set_unit a (i_unit b).
Proof.
  destruct a, b. unfold cframe, set_unit. simpl.
  intros (-> & -> & -> & ->). reflexivity.
Qed.

Lemma wframe_n_stdf fzero tr a b :
  wframe_n fzero tr a b -> is_sss tr (i_sess a) = false -> b = stdf fzero a.
Proof.
  destruct a, b. unfold wframe_n, stdf, set_value. simpl.
  intros (-> & -> & -> & H) Hs. destruct (H Hs) as (-> & ->). reflexivity.
Qed.

Lemma wframe_n_keeps fzero tr a b :
  wframe_n fzero tr a b -> b = mkitem (i_orig a) (i_sess a) (i_unit b) (i_value b) (i_descr a).
Proof.
  destruct a, b. unfold wframe_n. simpl.
  intros (-> & -> & -> & _). reflexivity.
Qed.

Section WithOracles.
Variable fmtv : list N -> list N -> list N.
Variable fmt_diff : list N -> list N -> list N -> list N.
Variable fmt_pi : list N -> list N.
Variable fstr : list N -> list N.
Variable fzero : list N -> bool.
Variable numeq : list N -> list N -> bool.
Variable fhex : list N -> option (list N).

(* the ~Version items written are written_version_items of the ~Version items left in memory *)
Lemma write_sections_vers_items ver wrapo ifmt m hs :
  write_sections fmtv fmt_diff fstr fzero numeq ver wrapo ifmt m = Some hs ->
  hs_vers_items hs =
  written_version_items (s_transforms (l_version (m_las m))) (hs_version hs) (s_items (l_version (hs_las hs))).
Proof.
  unfold write_sections.
  destruct wrapo as [[|]|];
    [ | | destruct (sect_find (s_transforms (l_version (m_las m))) (s2l "WRAP") (s_items (l_version (m_las m)))); [|discriminate] ];
    cbv zeta;
    (match goal with |- context [match ?x with Some v => _ | None => None end] =>
       destruct x as [v|]; [|discriminate] end);
    (match goal with |- context [refresh_sss ?a ?b ?c ?d ?e] =>
       destruct (refresh_sss a b c d e) as [l2|] eqn:ER; [|discriminate] end);
    repeat (match goal with |- context [match section_lines ?a ?b ?c ?d with _ => _ end] =>
              destruct (section_lines a b c d) as [?|]; [|discriminate] end).
  all: intros H; inversion H; subst; cbn [hs_version hs_vers_items hs_las].
  all: destruct (refresh_fields fmtv fmt_diff numeq _ _ _ ER) as (G1 & _); cbn [m_las] in G1.
  all: cbn [l_version with_params with_well]; rewrite G1; reflexivity.
Qed.

(* D7: what is read back, against the ORIGINAL object *)
Theorem roundtrip_vs_original ro o m text m' hs dl rts vit nt :
  write fmtv fmt_diff fmt_pi fstr fzero numeq o m = WOk text m' ->
  write_sections fmtv fmt_diff fstr fzero numeq (wo_version o) (wo_wrap o) (col_fmt o 0%nat) m = Some hs ->
  dsh_of fmtv fmt_pi fstr o hs = Some dl ->
  las_null_text fstr (hs_las hs) = Some nt ->
  opt_all (map (row_text fmtv fmt_pi o (Some nt) 0%nat) (las_rows (hs_las hs))) = Some rts ->
  header_hyps fstr ro hs vit -> text_hyps o hs ->
  Forall (Forall (wr_tok fhex)) (tok_matrix fmtv o nt (las_rows (hs_las hs))) ->
  forallb is_space (wo_lhs_spacer o) = true -> forallb is_space (wo_spacer o) = true ->
  data_text_hyps fmtv o nt (las_rows (hs_las hs)) ->
  exists ps l,
    find_sections (lines_keep text) <> [] /\
    first_pass ro (lines_keep text) ps0 (find_sections (lines_keep text)) = inl ps /\
    p_las ps = l /\
    (o_ignore_data ro = true -> read fhex fstr numeq ro text = ROk l) /\
    let c := o_mcase ro in
    let M := m_las m in
    (* ~Curves: item by item the original's; only the unit may differ (alignment with the index) ... *)
    Forall2 (fun a r => exists u, r = meta (expected_item fstr KCurves c (set_unit a u)))
            (s_items (l_curves M)) (map meta (s_items (l_curves l))) /\
    (* ... and only on curve 0 *)
    map meta (tl (s_items (l_curves l))) =
      map (fun a => meta (expected_item fstr KCurves c a)) (tl (s_items (l_curves M))) /\
    (* ~Parameter: exactly standardize_value *)
    map meta (s_items (l_params l)) =
      map (fun a => meta (expected_item fstr KParameter c (stdf fzero a))) (s_items (l_params M)) /\
    (* ~Well: an item not registered under STRT/STOP/STEP is the original's with standardize_value;
       the refreshed ones keep original mnemonic, session mnemonic and description *)
    Forall2 (fun a r =>
               (is_sss (s_transforms (l_well M)) (i_sess a) = false ->
                r = meta (expected_item fstr KWell c (stdf fzero a))) /\
               exists u v, r = meta (expected_item fstr KWell c (mkitem (i_orig a) (i_sess a) u v (i_descr a))))
            (s_items (l_well M)) (map meta (s_items (l_well l))) /\
    (* ~Version: the original items after the documented edits: WRAP set when wrap= is given,
       DLM value SPACE, VERS substituted *)
    map meta (s_items (l_version l)) =
      map (fun a => meta (expected_item fstr KVersion c a))
          (written_version_items (s_transforms (l_version M)) (hs_version hs)
             (match wo_wrap o with
              | None => s_items (l_version M)
              | Some b => set_item (s_transforms (l_version M)) (s2l "WRAP") (wrap_item b) (s_items (l_version M))
              end)) /\
    l_other l = other_read (l_other M) /\ l_custom l = [].
Proof.
  intros Hw Hs Hdl Hnt Hrts Hh Ht Hwr Hl Hsp Hd.
  destruct (read_written_header fmtv fmt_diff fmt_pi fstr fzero numeq fhex ro o m text m' hs dl rts vit nt
              Hw Hs Hdl Hnt Hrts Hh Ht Hwr Hl Hsp Hd)
    as (ps & l & H1 & H2 & H3 & HB & _ & _ & _ & _ & _ & _ & _ & Hread).
  exists ps, l. split; [exact H1|]. split; [exact H2|]. split; [exact H3|]. split; [exact Hread|].
  cbv zeta.
  destruct HB as (BV & BW & BC & BP & BO & BK & _).
  pose proof (written_state_is_hs_las fmtv fmt_diff fmt_pi fstr fzero numeq o m text m' hs Hw Hs) as Em.
  assert (El : hs_las hs = m_las m') by (rewrite Em; reflexivity).
  destruct (write_header_frame fmtv fmt_diff fmt_pi fstr fzero numeq o m text m' Hw) as ((FC & FCt) & FP & FW & FV).
  destruct (write_data_frame fmtv fmt_diff fmt_pi fstr fzero numeq o m text m' Hw) as (_ & _ & FO & _).
  rewrite <- El in FC, FCt, FP, FW, FV, FO.
  split.
  { rewrite BC. eapply Forall2_map_r; [|exact FC].
    intros a b Hab. exists (i_unit b). rewrite <- (cframe_set_unit a b Hab). reflexivity. }
  split.
  { rewrite map_tl, BC, <- map_tl, FCt. reflexivity. }
  split.
  { rewrite BP, FP. cbn [map_section s_items]. rewrite map_map. reflexivity. }
  split.
  { rewrite BW. eapply Forall2_map_r; [|exact FW].
    intros a b Hab. split.
    - intros Hsss. rewrite (wframe_n_stdf fzero _ a b Hab Hsss). reflexivity.
    - exists (i_unit b), (i_value b). rewrite <- (wframe_n_keeps fzero _ a b Hab). reflexivity. }
  split.
  { rewrite BV, (write_sections_vers_items _ _ _ _ _ Hs). f_equal. f_equal.
    destruct (wo_wrap o) as [b|]; rewrite FV; reflexivity. }
  split; [rewrite BO, FO; reflexivity|exact BK].
Qed.

End WithOracles.

Print Assumptions roundtrip_vs_original.
