(* Proofs.RegexSubFacts — generic facts used by the data-section proofs (C02):
   * re.sub is the identity on a subject in which the pattern matches nowhere (nomatchb),
   * re.findall of the white-space splitter rx_split_sow is str.split() on quote-free text,
   * strip / split / comment-cut facts about PyLib/PyStr.v.                              *)
From Coq Require Import List Arith NArith Bool Lia ZifyBool ZifyN ZifyNat.
Import ListNotations.
Require Import PyStr Regex RegexFacts Regexes NumLit.
Open Scope list_scope.
Open Scope N_scope.

(* ======================================================================================= *)
(* re.sub when the pattern matches nowhere                                                 *)
(* ======================================================================================= *)
(* the matcher fails at this and at every later start position; [p] is the reversed text to
   the left, threaded exactly as sub_fuel / search_from do *)
Fixpoint nomatchb (r : re) (p s : list N) : bool :=
  match m r (mkst p s []) kdone with
  | Some _ => false
  | None => match s with [] => true | c :: s' => nomatchb r (c :: p) s' end
  end.

Lemma nomatchb_search r : forall s p,
  nomatchb r p s = match search_from r p s with None => true | Some _ => false end.
Proof.
  induction s as [|c s IH]; intros p; cbn [nomatchb search_from];
    destruct (m r (mkst p _ []) kdone); try reflexivity. apply IH.
Qed.

Lemma nomatchb_re_search r s : nomatchb r [] s = negb (re_search r s).
Proof. unfold re_search. rewrite nomatchb_search. destruct (search_from r [] s); reflexivity. Qed.

Lemma sub_fuel_nomatch r t : forall fuel s p,
  nomatchb r p s = true -> sub_fuel fuel r t p s = s.
Proof.
  induction fuel as [|f IH]; intros s p H; cbn [sub_fuel]; [reflexivity|].
  destruct s as [|c s]; cbn [nomatchb] in H.
  - destruct (m r (mkst p [] []) kdone); [discriminate|reflexivity].
  - destruct (m r (mkst p (c :: s) []) kdone); [discriminate|]. rewrite IH by exact H. reflexivity.
Qed.

Lemma re_sub_nomatch r t s : nomatchb r [] s = true -> re_sub r t s = s.
Proof. intros H. unfold re_sub. apply sub_fuel_nomatch. exact H. Qed.

(* ======================================================================================= *)
(* strings                                                                                 *)
(* ======================================================================================= *)
Lemma span_by_spec f : forall s a b,
  span_by f s = (a, b) ->
  s = a ++ b /\ forallb f a = true /\ match b with [] => True | c :: _ => f c = false end.
Proof.
  induction s as [|c s IH]; intros a b H; cbn [span_by] in H.
  - injection H as <- <-. auto.
  - destruct (f c) eqn:Hc.
    + destruct (span_by f s) as [a' b'] eqn:Hs. injection H as <- <-.
      destruct (IH a' b' eq_refl) as (E & Ha & Hb). subst s. cbn [forallb app]. rewrite Hc. auto.
    + injection H as <- <-. cbn. auto.
Qed.

(* lstrip: leading run ++ rest, rest empty or starting with a kept character *)
Lemma lstrip_by_decomp f : forall s,
  exists w, s = w ++ lstrip_by f s /\ forallb f w = true /\
            match lstrip_by f s with [] => True | c :: _ => f c = false end.
Proof.
  induction s as [|c s (w & E & Hw & Hh)]; cbn [lstrip_by].
  - exists []. auto.
  - destruct (f c) eqn:Hc.
    + exists (c :: w). cbn [app forallb]. rewrite Hc, <- E. auto.
    + exists []. cbn. auto.
Qed.

Lemma rstrip_by_decomp f s :
  exists w, s = rstrip_by f s ++ w /\ forallb f w = true.
Proof.
  unfold rstrip_by. destruct (lstrip_by_decomp f (rev s)) as (w & E & Hw & _).
  exists (rev w). split.
  - rewrite <- rev_app_distr, <- E, rev_involutive. reflexivity.
  - rewrite forallb_forall in *. intros x Hx. apply Hw. apply in_rev. exact Hx.
Qed.

(* strip: raw = leading white space ++ strip raw ++ trailing white space *)
Lemma strip_decomp raw :
  exists a b, raw = a ++ strip raw ++ b /\ forallb is_space a = true /\ forallb is_space b = true /\
              match lstrip raw with [] => True | c :: _ => is_space c = false end /\
              lstrip raw = strip raw ++ b.
Proof.
  destruct (lstrip_by_decomp is_space raw) as (a & E & Ha & Hh).
  destruct (rstrip_by_decomp is_space (lstrip_by is_space raw)) as (b & E' & Hb).
  exists a, b. unfold strip, strip_by, lstrip. rewrite <- E'. auto.
Qed.

Lemma forallb_app_true {A} (f : A -> bool) a b :
  forallb f (a ++ b) = true <-> forallb f a = true /\ forallb f b = true.
Proof. rewrite forallb_app, andb_true_iff. reflexivity. Qed.

Lemma in_str_app c a b : in_str c (a ++ b) = in_str c a || in_str c b.
Proof. unfold in_str. apply existsb_app. Qed.

Lemma in_str_strip_false c raw : in_str c raw = false -> in_str c (strip raw) = false.
Proof.
  intros H. destruct (strip_decomp raw) as (a & b & E & _). rewrite E, !in_str_app in H.
  destruct (in_str c (strip raw)); [|reflexivity]. rewrite orb_true_r in H. cbn in H. discriminate.
Qed.

Lemma remove_char_absent c : forall s, in_str c s = false -> remove_char c s = s.
Proof.
  induction s as [|x s IH]; intros H; [reflexivity|].
  unfold in_str in H. cbn [existsb] in H. apply orb_false_iff in H as [Hx Hs].
  unfold remove_char, replace_char in *. cbn [flat_map].
  rewrite N.eqb_sym in Hx. rewrite Hx. cbn [app]. rewrite IH by exact Hs. reflexivity.
Qed.

(* ---- str.split() -------------------------------------------------------------------- *)
Lemma split_ws_aux_trailing : forall t cur,
  forallb is_space t = true -> split_ws_aux t cur = split_ws_aux [] cur.
Proof.
  induction t as [|c t IH]; intros cur H; [reflexivity|].
  cbn [forallb] in H. apply andb_true_iff in H as [Hc Ht]. cbn [split_ws_aux]. rewrite Hc.
  destruct cur; rewrite IH by exact Ht; reflexivity.
Qed.

Lemma split_ws_aux_app_trailing t : forallb is_space t = true ->
  forall s cur, split_ws_aux (s ++ t) cur = split_ws_aux s cur.
Proof.
  intros Ht. induction s as [|c s IH]; intros cur; cbn [app].
  - apply split_ws_aux_trailing. exact Ht.
  - cbn [split_ws_aux]. destruct (is_space c); [destruct cur|]; rewrite IH; reflexivity.
Qed.

Lemma split_ws_leading : forall a s, forallb is_space a = true -> split_ws (a ++ s) = split_ws s.
Proof.
  unfold split_ws. induction a as [|c a IH]; intros s H; [reflexivity|].
  cbn [forallb] in H. apply andb_true_iff in H as [Hc Ha]. cbn [app split_ws_aux]. rewrite Hc. apply IH. exact Ha.
Qed.

Lemma split_ws_all_space s : forallb is_space s = true -> split_ws s = [].
Proof. intros H. unfold split_ws. rewrite split_ws_aux_trailing by exact H. reflexivity. Qed.

Lemma split_ws_strip raw : split_ws (strip raw) = split_ws raw.
Proof.
  destruct (strip_decomp raw) as (a & b & E & Ha & Hb & _).
  rewrite E at 2. rewrite split_ws_leading by exact Ha.
  unfold split_ws. rewrite split_ws_aux_app_trailing by exact Hb. reflexivity.
Qed.

(* a run of non-space characters followed by the end or by a space is one field *)
Lemma split_ws_aux_run : forall run rest cur,
  forallb (fun c => negb (is_space c)) run = true ->
  split_ws_aux (run ++ rest) cur = split_ws_aux rest (rev run ++ cur).
Proof.
  induction run as [|c run IH]; intros rest cur H; [reflexivity|].
  cbn [forallb] in H. apply andb_true_iff in H as [Hc Hr]. apply negb_true_iff in Hc.
  cbn [app split_ws_aux rev]. rewrite Hc, IH by exact Hr. rewrite <- app_assoc. reflexivity.
Qed.

Lemma split_ws_aux_flush rest cur :
  cur <> [] -> match rest with [] => True | c :: _ => is_space c = true end ->
  split_ws_aux rest cur = rev cur :: split_ws rest.
Proof.
  intros Hc Hr. destruct cur as [|x cur]; [congruence|]. unfold split_ws.
  destruct rest as [|c rest]; cbn [split_ws_aux]; [reflexivity|]. rewrite Hr. reflexivity.
Qed.

Lemma split_ws_token c run rest :
  is_space c = false -> forallb (fun c => negb (is_space c)) run = true ->
  match rest with [] => True | c :: _ => is_space c = true end ->
  split_ws (c :: run ++ rest) = (c :: run) :: split_ws rest.
Proof.
  intros Hc Hrun Hrest. unfold split_ws at 1. cbn [split_ws_aux]. rewrite Hc.
  rewrite split_ws_aux_run by exact Hrun. rewrite split_ws_aux_flush.
  - rewrite rev_app_distr, rev_involutive. reflexivity.
  - destruct (rev run); discriminate.
  - exact Hrest.
Qed.

(* ======================================================================================= *)
(* rx_split_sow on quote-free text                                                         *)
(* ======================================================================================= *)
Definition sowK : cls := CNot (COr CSpace (COr (CChar 34) (CChar 39))).
Definition sow_ast : re :=
  Alt (Grp 101 (Plus sowK))
      (Alt (Seq (Cls (CChar 34)) (Seq (Grp 102 (Star (CNot (CChar 34)))) (Cls (CChar 34))))
           (Seq (Cls (CChar 39)) (Seq (Grp 103 (Star (CNot (CChar 39)))) (Cls (CChar 39))))).

(* the pattern in the source is the one the proofs are about *)
Lemma sow_is_current : rx_split_sow = sow_ast.
Proof. reflexivity. Qed.
Lemma sow_inspect_is_current : rx_sow = sow_ast.
Proof. reflexivity. Qed.

Definition noquote (c : N) : bool := negb (c =? 34) && negb (c =? 39).
Definition tokch (c : N) : bool := negb (is_space c).

Lemma sowK_tok c : noquote c = true -> cmatch sowK c = negb (is_space c).
Proof.
  unfold noquote. intros H. apply andb_true_iff in H as [H1 H2].
  apply negb_true_iff in H1, H2. cbn [cmatch sowK]. rewrite H1, H2. cbn [orb]. rewrite orb_false_r. reflexivity.
Qed.

(* a greedy star whose continuation never fails stops at the maximal split *)
Lemma star_g_total k (cont : K) : forall run rest p cs r,
  forallb (cmatch k) run = true ->
  match rest with [] => True | c :: _ => cmatch k c = false end ->
  cont (mkst (rev run ++ p) rest cs) = Some r ->
  star_g k p (run ++ rest) cs cont = Some r.
Proof.
  induction run as [|c run IH]; intros rest p cs r Hall Hhd Hk; cbn [app rev] in *.
  - destruct rest as [|c rest]; cbn [star_g]; [exact Hk|]. rewrite Hhd. exact Hk.
  - cbn [forallb] in Hall. apply andb_true_iff in Hall as [Hc Hall].
    cbn [star_g]. rewrite Hc.
    rewrite (IH rest (c :: p) cs r Hall Hhd); [reflexivity|].
    rewrite <- app_assoc in Hk. exact Hk.
Qed.

Lemma sow_at_nil p : m sow_ast (mkst p [] []) kdone = None.
Proof. reflexivity. Qed.

Lemma sow_at_space p c s : is_space c = true -> m sow_ast (mkst p (c :: s) []) kdone = None.
Proof.
  intros Hsp. unfold sow_ast, sowK. cbn [m pre rem caps cmatch]. rewrite Hsp. cbn [orb negb].
  destruct (N.eqb_spec c 34) as [->|_]; [discriminate Hsp|].
  destruct (N.eqb_spec c 39) as [->|_]; [discriminate Hsp|]. reflexivity.
Qed.

Lemma firstn_run (c : N) run rest :
  firstn (List.length (c :: run ++ rest) - List.length rest) (c :: run ++ rest) = c :: run.
Proof.
  change (c :: run ++ rest) with ((c :: run) ++ rest). rewrite app_length.
  replace (List.length (c :: run) + List.length rest - List.length rest)%nat with (List.length (c :: run)) by lia.
  rewrite firstn_app, Nat.sub_diag, firstn_all. cbn [firstn]. apply app_nil_r.
Qed.

Lemma sow_at_tok p c run rest :
  cmatch sowK c = true -> forallb (cmatch sowK) run = true ->
  match rest with [] => True | x :: _ => cmatch sowK x = false end ->
  m sow_ast (mkst p (c :: run ++ rest) []) kdone =
  Some (mkst (rev run ++ c :: p) rest [(101%nat, c :: run)]).
Proof.
  intros Hc Hrun Hrest. unfold sow_ast. cbn [m pre rem caps]. rewrite Hc.
  rewrite (star_g_total sowK _ run rest (c :: p) [] (mkst (rev run ++ c :: p) rest [(101%nat, c :: run)]) Hrun Hrest).
  - reflexivity.
  - cbn [pre rem caps kdone]. rewrite firstn_run. reflexivity.
Qed.

Lemma sow_findall : forall fuel s p,
  forallb noquote s = true -> (List.length s < fuel)%nat ->
  findall_fuel fuel sow_ast p s = split_ws s.
Proof.
  induction fuel as [|f IH]; intros s p Hq Hlen; [lia|].
  destruct s as [|c s].
  - cbn [findall_fuel]. rewrite sow_at_nil. reflexivity.
  - cbn [forallb] in Hq. apply andb_true_iff in Hq as [Hqc Hqs]. cbn [List.length] in Hlen.
    destruct (is_space c) eqn:Hsp.
    + cbn [findall_fuel]. rewrite sow_at_space by exact Hsp.
      rewrite IH by (auto; lia). unfold split_ws. cbn [split_ws_aux]. rewrite Hsp. reflexivity.
    + destruct (span_by tokch s) as [run rest] eqn:Hspan.
      destruct (span_by_spec tokch s run rest Hspan) as (E & Hrun & Hrest). subst s.
      apply forallb_app_true in Hqs as [Hqrun Hqrest].
      assert (Hrun' : forallb (cmatch sowK) run = true).
      { rewrite forallb_forall in *. intros x Hx. rewrite sowK_tok by (apply Hqrun; exact Hx). apply Hrun. exact Hx. }
      assert (Hrest' : match rest with [] => True | x :: _ => cmatch sowK x = false end).
      { destruct rest as [|x rest]; [exact I|]. cbn [forallb] in Hqrest. apply andb_true_iff in Hqrest as [Hx _].
        rewrite sowK_tok by exact Hx. unfold tokch in Hrest. exact Hrest. }
      assert (Hc' : cmatch sowK c = true) by (rewrite sowK_tok by exact Hqc; rewrite Hsp; reflexivity).
      cbn [findall_fuel]. rewrite (sow_at_tok p c run rest Hc' Hrun' Hrest'). cbn [rem pre caps].
      change (c :: run ++ rest) with ((c :: run) ++ rest). rewrite app_length.
      replace (List.length (c :: run) + List.length rest - List.length rest)%nat with (S (List.length run))
        by (cbn [List.length]; lia).
      cbn [all_groups rev app flat_map snd]. rewrite app_nil_r.
      rewrite IH; [|exact Hqrest|rewrite app_length in Hlen; lia].
      cbn [app]. symmetry. apply split_ws_token; [exact Hsp|exact Hrun|].
      destruct rest as [|x rest]; [exact I|]. unfold tokch in Hrest. apply negb_false_iff in Hrest. exact Hrest.
Qed.

Lemma noquote_of_in_str s :
  in_str 34 s = false -> in_str 39 s = false -> forallb noquote s = true.
Proof.
  unfold in_str. induction s as [|c s IH]; intros H1 H2; [reflexivity|].
  cbn [existsb] in H1, H2. apply orb_false_iff in H1 as [A1 B1]. apply orb_false_iff in H2 as [A2 B2].
  cbn [forallb]. rewrite IH by assumption. unfold noquote.
  rewrite (N.eqb_sym c 34), (N.eqb_sym c 39), A1, A2. reflexivity.
Qed.

(* sow_regex.findall(line) joined per match == line.split() when the line has no quotes *)
Theorem sow_is_split s :
  in_str 34 s = false -> in_str 39 s = false -> re_findall_joined rx_split_sow s = split_ws s.
Proof.
  intros H1 H2. unfold re_findall_joined. rewrite sow_is_current.
  apply sow_findall; [apply noquote_of_in_str; assumption|lia].
Qed.

Theorem sow_inspect_is_split s :
  in_str 34 s = false -> in_str 39 s = false -> re_findall_joined rx_sow s = split_ws s.
Proof.
  intros H1 H2. unfold re_findall_joined. rewrite sow_inspect_is_current.
  apply sow_findall; [apply noquote_of_in_str; assumption|lia].
Qed.
