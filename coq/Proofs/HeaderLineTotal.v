(* Proofs.HeaderLineTotal — read_header_line never fails (no AttributeError) on a
   newline-free line that contains a colon or a period (C04, universal over ALL lines,
   not only the conformant layouts).  Goes through RegexFacts.match_ok: a split in the
   declarative language is exhibited for the pattern that configure_patterns selects. *)
From Coq Require Import List Arith NArith Bool Lia.
Import ListNotations.
Require Import PyStr Regex RegexFacts Regexes HeaderLine RegexMatchFacts HeaderLineSpec HeaderLineFragments.
Open Scope N_scope.

Lemma split_first c : forall s, in_str c s = true ->
  exists A B, s = A ++ c :: B /\ in_str c A = false.
Proof.
  induction s as [|x s IH]; [discriminate|]. rewrite in_str_cons. intros H.
  destruct (c =? x) eqn:E.
  - apply N.eqb_eq in E. subst x. exists [], s. split; reflexivity.
  - cbn [orb] in H. destruct (IH H) as (A & B & -> & HA). exists (x :: A), B. split; [reflexivity|].
    rewrite in_str_cons, E, HA. reflexivity.
Qed.

Lemma in_str_app_false c a b : in_str c (a ++ b) = false -> in_str c a = false /\ in_str c b = false.
Proof. rewrite in_str_app. intros H. apply orb_false_iff in H. exact H. Qed.

Lemma in_str_cons_false c x s : in_str c (x :: s) = false -> in_str c s = false.
Proof. rewrite in_str_cons. intros H. apply orb_false_iff in H as [_ H]. exact H. Qed.

Lemma ok_some (o : option st) : ok o = true -> o <> None.
Proof. destruct o; [discriminate|]. intros H. discriminate H. Qed.

(* ---------- the ordinary pattern matches  A . R1 : R2 --------------------------------- *)
Lemma L_name A t : in_str 46 A = false -> L name_lit [] (A ++ [46]) t.
Proof.
  intros HA. unfold name_lit. cbn [L]. exists [], (A ++ [46]). split; [reflexivity|]. split.
  - right. reflexivity.
  - exists A, [46]. split; [reflexivity|]. split.
    + apply in_str_false_not. exact HA.
    + exists 46. split; reflexivity.
Qed.

Lemma L_unit_empty p t : L unit_lit p [] t.
Proof.
  unfold unit_lit. cbn [L]. exists [], []. split; [reflexivity|]. split; [right|]; reflexivity.
Qed.

Lemma main_total A R1 R2 :
  in_str 46 A = false -> in_str 10 R1 = false -> in_str 10 R2 = false ->
  re_match main_lit (A ++ 46 :: R1 ++ 58 :: R2) <> None.
Proof.
  intros HA H1 H2. apply ok_some. apply match_ok.
  exists (A ++ 46 :: R1 ++ 58 :: R2), []. split; [symmetry; apply app_nil_r|].
  unfold main_lit. cbn [L]. exists (A ++ [46]), (R1 ++ 58 :: R2). split.
  { rewrite <- app_assoc. reflexivity. }
  split; [apply L_name; exact HA|].
  exists [], (R1 ++ 58 :: R2). split; [reflexivity|]. split; [apply L_unit_empty|].
  unfold vd_lit, value_lit, desc_lit. cbn [L].
  exists (R1 ++ [58]), R2. split; [rewrite <- app_assoc; reflexivity|]. split.
  - exists R1, [58]. split; [reflexivity|]. split; [apply nonl_any; exact H1|].
    exists 58. split; reflexivity.
  - apply nonl_any. exact H2.
Qed.

(* ---------- no colon: name, unit, colon-free value ------------------------------------ *)
Definition nocolon_lit : re :=
  Seq name_lit (Seq unit_lit (Seq (Grp 2 (Star (CNot (CChar 58)))) Eps)).
Definition nocolon_time_lit : re := Seq name_lit (Seq unit_lit (Seq tvalue_lit Eps)).

Lemma nocolon_total A R :
  in_str 46 A = false -> in_str 58 R = false -> re_match nocolon_lit (A ++ 46 :: R) <> None.
Proof.
  intros HA HR. apply ok_some. apply match_ok.
  exists (A ++ 46 :: R), []. split; [symmetry; apply app_nil_r|].
  unfold nocolon_lit. cbn [L]. exists (A ++ [46]), R. split.
  { rewrite <- app_assoc. reflexivity. }
  split; [apply L_name; exact HA|].
  exists [], R. split; [reflexivity|]. split; [apply L_unit_empty|].
  exists R, []. split; [symmetry; apply app_nil_r|]. split; [|reflexivity].
  apply in_str_false_not. exact HR.
Qed.

Lemma cp_nocolon line ic ip :
  in_str 58 line = false -> (ic = true -> no_double_dot line = true) ->
  configure_patterns line ic ip = if ip then [nocolon_time_lit; nocolon_lit] else [nocolon_lit].
Proof.
  intros Hc Hdd. unfold configure_patterns. cbv zeta.
  change (in_str ch_colon line) with (in_str 58 line). rewrite Hc. cbn [andb].
  destruct ic.
  - specialize (Hdd eq_refl). unfold no_double_dot in Hdd. apply negb_true_iff in Hdd.
    change (contains [ch_dot; ch_dot] line) with (contains [46; 46] line). rewrite Hdd.
    cbn [andb]. reflexivity.
  - rewrite andb_false_r. reflexivity.
Qed.

Lemma first_match_last ps p line : re_match p line <> None -> first_match (ps ++ [p]) line <> None.
Proof.
  intros H. induction ps as [|q ps IH]; cbn [app first_match].
  - destruct (re_match p line); [discriminate|congruence].
  - destruct (re_match q line); [discriminate|exact IH].
Qed.

Lemma rhl_some line ic ip :
  first_match (configure_patterns line ic ip) line <> None -> read_header_line line ic ip <> None.
Proof.
  unfold read_header_line. destruct (first_match _ line); [discriminate|congruence].
Qed.

Theorem total_on_lines : forall (line : list N) (is_curves is_param : bool),
  in_str 46 line || in_str 58 line = true ->
  in_str 10 line = false ->
  (is_curves = true -> no_double_dot line = true) ->
  read_header_line line is_curves is_param <> None.
Proof.
  intros line ic ip Hdc Hnl Hdd. apply rhl_some.
  assert (Hcur : ic = true -> curves_plain line = true).
  { intros Hic. apply no_double_dot_plain. exact (Hdd Hic). }
  destruct (in_str 58 line) eqn:Hc.
  - destruct (split_first 58 line Hc) as (A & B & -> & HA).
    apply in_str_app_false in Hnl as [HnA HnB]. apply in_str_cons_false in HnB.
    destruct (in_str 46 (before 58 (A ++ 58 :: B))) eqn:Hb.
    + rewrite (cp_period _ ic ip Hc Hb Hcur). rewrite (before_first B A HA) in Hb.
      destruct (split_first 46 A Hb) as (A1 & A2 & -> & HA1).
      apply in_str_app_false in HnA as [_ HnA2]. apply in_str_cons_false in HnA2.
      assert (Hm : re_match main_lit ((A1 ++ 46 :: A2) ++ 58 :: B) <> None).
      { rewrite <- app_assoc. cbn [app]. apply main_total; assumption. }
      destruct ip.
      * apply (first_match_last [time_lit]). exact Hm.
      * apply (first_match_last []). exact Hm.
    + rewrite (cp_missing_period _ ic ip Hc Hb Hcur).
      destruct (mp_run A B HA (nonl_any B HnB)) as [q Hq].
      assert (Hm : re_match mp_lit (A ++ 58 :: B) <> None) by (rewrite Hq; discriminate).
      destruct ip.
      * apply (first_match_last [mp_lit]). exact Hm.
      * apply (first_match_last []). exact Hm.
  - rewrite orb_false_r in Hdc. rewrite (cp_nocolon _ ic ip Hc Hdd).
    destruct (split_first 46 line Hdc) as (A & R & -> & HA).
    apply in_str_app_false in Hc as [_ HcR]. apply in_str_cons_false in HcR.
    pose proof (nocolon_total A R HA HcR) as Hm.
    destruct ip.
    + apply (first_match_last [nocolon_time_lit]). exact Hm.
    + apply (first_match_last []). exact Hm.
Qed.
