(* Proofs.ReadProofs — facts about the first pass of LASFile.read: which sections can
   steer parsing, how titles are classified, routing keeps other sections untouched. *)
From Coq Require Import List Arith NArith Bool Lia String.
Import ListNotations.
Require Import PyStr Regex NumLit Num HeaderLine Tables SectionParse Sections DataRead Read.
Open Scope string_scope.
Open Scope list_scope.
Open Scope N_scope.

(* only ~V and ~W sections can change the provisional (steering) values *)
Lemma steering_only_V_W letter sec ps :
  letter <> 86 -> letter <> 87 -> update_steering letter sec ps = ps.
Proof.
  intros HV HW. unfold update_steering.
  destruct (N.eqb_spec letter 86); [contradiction|]. destruct (N.eqb_spec letter 87); [contradiction|].
  reflexivity.
Qed.

Lemma steering_W_only_null sec ps :
  let ps' := update_steering 87 sec ps in
  p_version ps' = p_version ps /\ p_wrapped ps' = p_wrapped ps /\ p_dlm ps' = p_dlm ps /\
  p_las ps' = p_las ps /\ p_data ps' = p_data ps.
Proof. cbn. repeat split. Qed.

Lemma steering_V_not_null sec ps :
  let ps' := update_steering 86 sec ps in
  p_null ps' = p_null ps /\ p_las ps' = p_las ps /\ p_data ps' = p_data ps.
Proof. cbn. repeat split. Qed.

(* title classification looks at the upper-cased letter after the tilde only *)
Lemma first2_upper_case a b rest :
  first2_upper (a :: b :: rest) = [ascii_upper a; ascii_upper b].
Proof. reflexivity. Qed.

Lemma section_type_data t c rest :
  strip t = 126 :: c :: rest -> ascii_upper c = 65 -> section_type t = TData.
Proof.
  intros Ht Hc. unfold section_type. rewrite Ht, first2_upper_case, Hc. reflexivity.
Qed.

Lemma section_type_other t c rest :
  strip t = 126 :: c :: rest -> ascii_upper c = 79 -> contains (s2l "~Log_Data") (126 :: c :: rest) = false ->
  section_type t = TOther.
Proof.
  intros Ht Hc Hn. unfold section_type. rewrite Ht, first2_upper_case, Hc, Hn. reflexivity.
Qed.

Lemma section_type_header t c rest :
  strip t = 126 :: c :: rest -> ascii_upper c <> 65 -> ascii_upper c <> 79 ->
  contains (s2l "~Log_Data") (126 :: c :: rest) = false -> contains (s2l "_Data") (126 :: c :: rest) = false ->
  section_type t = THeader.
Proof.
  intros Ht Ha Ho Hn Hd. unfold section_type. rewrite Ht, first2_upper_case, Hn, Hd.
  cbn [str_eqb]. change (ascii_upper 126) with 126. rewrite N.eqb_refl. cbn [andb].
  destruct (N.eqb_spec (ascii_upper c) 65); [contradiction|].
  destruct (N.eqb_spec (ascii_upper c) 79); [contradiction|]. reflexivity.
Qed.

(* routing a header section writes exactly one slot and leaves data alone *)
Lemma route_frame_data v3 title letter sec l : l_data (route v3 title letter sec l) = l_data l.
Proof. unfold route. repeat match goal with |- context [if ?b then _ else _] => destruct b end; reflexivity. Qed.

Lemma route_custom_keeps_standard v3 title letter sec l :
  letter <> 67 -> letter <> 80 -> letter <> 86 -> letter <> 87 ->
  contains (s2l "~Log_Definition") title = false -> contains (s2l "~Log_Parameter") title = false ->
  let l' := route v3 title letter sec l in
  l_version l' = l_version l /\ l_well l' = l_well l /\ l_curves l' = l_curves l /\
  l_params l' = l_params l /\ l_other l' = l_other l.
Proof.
  intros HC HP HV HW H1 H2. unfold route. rewrite H1, H2.
  destruct (N.eqb_spec letter 67); [contradiction|]. destruct (N.eqb_spec letter 80); [contradiction|].
  destruct (N.eqb_spec letter 86); [contradiction|]. destruct (N.eqb_spec letter 87); [contradiction|].
  cbn. repeat split.
Qed.
