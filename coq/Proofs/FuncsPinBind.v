(* Proofs.FuncsPinBind — what Model/Read.read_one_data does with the columns an engine yields
   (null_columns: NULL -> NaN in the float columns but the index, under the strict policy;
   bind_columns: existing curves in order, an unnamed curve appended for every surplus column;
   data_for_curves: curves left without a column are NaN-filled to the common length) IS the block
   of LASFile.read from `data_assigned_to_curves = {...}` to the end of the data-section loop
   (Gen/Funcs.v: py_bind_columns, re-translated from /repo on every run).

   The numpy operations of the block are operations of the record read_ops (Gen/Funcs.v); bind_rops
   reads them on the model's columns (lists of cells) and curves (a header item paired with its
   column): arr.dtype == float is is_float_col, arr[arr == null] = nan replaces the numeric cells
   equal to the NULL value (oracle numeq), np.empty(n) * nan is n NaN cells, SectionItems.append is
   sect_append.  Domain: the columns have one common length (both engines yield the columns of a
   rectangular array).  Some: no index is ever out of range.
   Restated as C06_bind_current. *)
From Coq Require Import List Arith NArith ZArith Bool Lia ZifyBool ZifyNat String.
Import ListNotations.
Require Import PyStr Regex NumLit Num SectionParse DataRead Read Funcs ItemsBindProofs.
Open Scope list_scope.

Notation bcurve := (hitem * list cell)%type (only parsing).

Section Pin.
Variable numeq : list N -> list N -> bool.
Variable tr : bool.                (* mnemonic_transforms of the ~Curves section *)

Definition null_arr (pn : option hval) (col : list cell) : list cell :=
  List.map (fun c => match c with CNum t => if nulleq numeq pn t then CNaN else c | _ => c end) col.

Definition bind_rops : read_ops (option hval) (list cell) bcurve :=
  mk_read_ops (option hval) (list cell) bcurve
    is_float_col
    null_arr
    (fun col => Z.of_nat (List.length col))
    (fun n => nan_column (Z.to_nat n))
    (fun c a => (fst c, a))
    (fun a => (unnamed_item, a))
    (fun l c => combine (sect_append tr (List.map fst l) (fst c)) (List.map snd l ++ [snd c])).

Variable strict : bool.
Variable pn : option hval.

Lemma null_column_arr : forall k col,
  null_column (nulleq numeq pn) strict k col =
  if strict && (is_float_col col && negb (Z.of_nat k =? 0)%Z) then null_arr pn col else col.
Proof.
  intros k col. unfold null_column, null_arr.
  replace (Z.of_nat k =? 0)%Z with (Nat.eqb k 0) by (destruct k; reflexivity).
  rewrite andb_assoc. reflexivity.
Qed.

Lemma null_column_length : forall k col, List.length (null_column (nulleq numeq pn) strict k col) = List.length col.
Proof. intros k col. unfold null_column. destruct (_ && _ && _); [apply map_length|reflexivity]. Qed.

(* ---------- list positions ------------------------------------------------------------------------ *)
Lemma lindex_nat : forall n k, (k < n)%nat -> pyo_lindex n (Z.of_nat k) = Some k.
Proof.
  intros n k H. unfold pyo_lindex.
  destruct (Z.of_nat k <? 0)%Z eqn:E; [lia|].
  destruct ((0 <=? Z.of_nat k) && (Z.of_nat k <? Z.of_nat n))%Z eqn:E2; [|lia].
  rewrite Nat2Z.id. reflexivity.
Qed.

Lemma upd_combine {A B : Type} : forall (l1 : list A) (l2 : list B) k (b : B),
  pyo_list_upd (combine l1 l2) k (fun c => (fst c, b)) = combine l1 (pyo_list_upd l2 k (fun _ => b)).
Proof.
  induction l1 as [|x l1 IH]; intros [|y l2] k b; try reflexivity.
  destruct k as [|k]; cbn [combine pyo_list_upd fst]; [reflexivity|]. rewrite IH. reflexivity.
Qed.

Lemma upd_length {A : Type} : forall (l : list A) k f, List.length (pyo_list_upd l k f) = List.length l.
Proof. induction l as [|x l IH]; intros [|k] f; cbn [pyo_list_upd List.length]; try reflexivity. rewrite IH. reflexivity. Qed.

Lemma map_fst_combine {A B : Type} : forall (l1 : list A) (l2 : list B),
  List.length l1 = List.length l2 -> List.map fst (combine l1 l2) = l1.
Proof. induction l1 as [|x l1 IH]; intros [|y l2] H; try discriminate H; [reflexivity|]. cbn. rewrite IH by (cbn in H; lia). reflexivity. Qed.
Lemma map_snd_combine {A B : Type} : forall (l1 : list A) (l2 : list B),
  List.length l1 = List.length l2 -> List.map snd (combine l1 l2) = l2.
Proof. induction l1 as [|x l1 IH]; intros [|y l2] H; try discriminate H; [reflexivity|]. cbn. rewrite IH by (cbn in H; lia). reflexivity. Qed.

Lemma skipn_skipn' {A : Type} : forall x y (l : list A), skipn x (skipn y l) = skipn (x + y) l.
Proof.
  intros x y. revert x. induction y as [|y IH]; intros x l; [rewrite Nat.add_0_r; reflexivity|].
  destruct l as [|a l]; [rewrite !skipn_nil; reflexivity|].
  rewrite Nat.add_succ_r. cbn [skipn]. apply IH.
Qed.

(* upd at k: firstn k ++ [b] ++ skipn (S k) *)
Lemma upd_split {A : Type} : forall (l : list A) k b, (k < List.length l)%nat ->
  pyo_list_upd l k (fun _ => b) = firstn k l ++ b :: skipn (S k) l.
Proof.
  induction l as [|x l IH]; intros k b H; [cbn in H; lia|].
  destruct k as [|k]; [reflexivity|]. cbn [pyo_list_upd firstn skipn app]. rewrite IH by (cbn in H; lia). reflexivity.
Qed.

(* ---------- the flags dict -------------------------------------------------------------------------- *)
(* keys 0 .. max n0 k - 1: True below k, False from k up to n0 *)
Definition flags_at (n0 k : nat) : list (Z * bool) :=
  List.map (fun i => (Z.of_nat i, true)) (seq 0 k) ++ List.map (fun i => (Z.of_nat i, false)) (seq k (n0 - k)).

Lemma idict_set_skip : forall (l : list (Z * bool)) (d : list (Z * bool)) (k : Z) (v : bool),
  (forall kv, In kv l -> fst kv <> k) ->
  pyo_idict_set (l ++ d) k v = l ++ pyo_idict_set d k v.
Proof.
  induction l as [|[k' v'] l IH]; intros d k v H; [reflexivity|].
  cbn [app pyo_idict_set]. destruct (k' =? k)%Z eqn:E.
  - exfalso. apply (H (k', v')); [left; reflexivity|]. cbn. lia.
  - rewrite IH; [reflexivity|]. intros kv Hin. apply H. right. exact Hin.
Qed.

Lemma flags_init : forall n0,
  fold_left (fun (d : list (Z * bool)) (i : Z) => pyo_idict_set d i false) (pyo_range (Z.of_nat n0)) [] = flags_at n0 0.
Proof.
  intros n0. unfold pyo_range, flags_at. rewrite Nat2Z.id, Nat.sub_0_r. cbn [seq map app].
  assert (H : forall n a, fold_left (fun (d : list (Z * bool)) (i : Z) => pyo_idict_set d i false)
                            (List.map Z.of_nat (seq a n)) (List.map (fun i => (Z.of_nat i, false)) (seq 0 a))
                          = List.map (fun i => (Z.of_nat i, false)) (seq 0 (a + n))).
  { induction n as [|n IH]; intros a; [rewrite Nat.add_0_r; reflexivity|].
    cbn [seq map fold_left].
    replace (pyo_idict_set (List.map (fun i => (Z.of_nat i, false)) (seq 0 a)) (Z.of_nat a) false)
      with (List.map (fun i => (Z.of_nat i, false)) (seq 0 (S a))).
    - rewrite IH. f_equal. f_equal. lia.
    - rewrite seq_S, map_app. cbn [map Nat.add].
      rewrite <- (app_nil_r (List.map _ (seq 0 a))) at 2.
      rewrite idict_set_skip; [reflexivity|].
      intros kv Hin. apply in_map_iff in Hin as [i [<- Hi]]. apply in_seq in Hi. cbn. lia. }
  exact (H n0 0%nat).
Qed.

Lemma flags_step : forall n0 k, pyo_idict_set (flags_at n0 k) (Z.of_nat k) true = flags_at n0 (S k).
Proof.
  intros n0 k. unfold flags_at.
  rewrite idict_set_skip by (intros kv Hin; apply in_map_iff in Hin as [i [<- Hi]]; apply in_seq in Hi; cbn; lia).
  rewrite seq_S, map_app, <- app_assoc. f_equal. cbn [Nat.add map app].
  destruct (n0 - k)%nat as [|r] eqn:E.
  - replace (n0 - S k)%nat with 0%nat by lia. reflexivity.
  - replace (n0 - S k)%nat with r by lia. cbn [seq map pyo_idict_set]. rewrite Z.eqb_refl. reflexivity.
Qed.

(* ---------- the first loop ---------------------------------------------------------------------------- *)
Definition clen_step (clen : Z) (col : list cell) : Z := if (clen =? 0)%Z then Z.of_nat (List.length col) else clen.

Fixpoint bind1 (cols : list (list cell)) (k : nat) (clen : Z) (items : list hitem) (datas : list (list cell))
  : Z * list hitem * list (list cell) :=
  match cols with
  | [] => (clen, items, datas)
  | col :: rest =>
      let col' := null_column (nulleq numeq pn) strict k col in
      if Nat.ltb k (List.length items)
      then bind1 rest (S k) (clen_step clen col') items (pyo_list_upd datas k (fun _ => col'))
      else bind1 rest (S k) (clen_step clen col') (sect_append tr items unnamed_item) (datas ++ [col'])
  end.

Lemma bind1_items : forall cols k clen items datas,
  snd (fst (bind1 cols k clen items datas)) = bind_columns tr items k cols.
Proof.
  induction cols as [|col rest IH]; intros k clen items datas; [reflexivity|].
  cbn [bind1 bind_columns]. destruct (Nat.ltb k (List.length items)); apply IH.
Qed.

Lemma bind1_datas : forall cols k clen items datas,
  List.length datas = List.length items -> (k <= List.length items)%nat ->
  snd (bind1 cols k clen items datas)
  = firstn k datas ++ null_columns (nulleq numeq pn) strict k cols ++ skipn (k + List.length cols) datas.
Proof.
  induction cols as [|col rest IH]; intros k clen items datas Hl Hk.
  - cbn [bind1 snd null_columns app List.length]. rewrite Nat.add_0_r, firstn_skipn. reflexivity.
  - cbn [bind1 null_columns List.length]. destruct (Nat.ltb_spec k (List.length items)) as [Hlt|Hge].
    + rewrite IH by (rewrite ?upd_length; lia).
      rewrite upd_split by lia.
      rewrite firstn_app, firstn_firstn, firstn_length.
      replace (Nat.min (S k) k) with k by lia.
      replace (S k - Nat.min k (List.length datas))%nat with 1%nat by lia.
      cbn [firstn]. rewrite <- app_assoc. cbn [app]. f_equal. f_equal. f_equal.
      rewrite skipn_app, firstn_length.
      rewrite (skipn_all2 (firstn k datas)) by (rewrite firstn_length; lia).
      replace (S k + List.length rest - Nat.min k (List.length datas))%nat with (S (List.length rest)) by lia.
      rewrite skipn_cons. cbn [app]. rewrite skipn_skipn'. f_equal. lia.
    + assert (k = List.length items) by lia. subst k.
      rewrite IH by (rewrite ?app_length, ?sect_append_length; cbn [List.length]; lia).
      rewrite (firstn_all2 (n := S (List.length items))) by (rewrite app_length; cbn [List.length]; lia).
      rewrite (firstn_all2 (n := List.length items) datas) by lia.
      rewrite !skipn_all2 by (rewrite ?app_length; cbn [List.length]; lia).
      rewrite !app_nil_r, <- app_assoc. reflexivity.
Qed.

Lemma bind1_clen : forall cols k clen items datas L,
  (forall c, In c cols -> List.length c = L) ->
  fst (fst (bind1 cols k clen items datas))
  = if (clen =? 0)%Z then match cols with [] => 0%Z | _ => Z.of_nat L end else clen.
Proof.
  induction cols as [|col rest IH]; intros k clen items datas L HL.
  - cbn [bind1 fst]. destruct (clen =? 0)%Z eqn:E; [lia|reflexivity].
  - cbn [bind1].
    assert (Hc : clen_step clen (null_column (nulleq numeq pn) strict k col) = if (clen =? 0)%Z then Z.of_nat L else clen)
      by (unfold clen_step; rewrite null_column_length, (HL col (or_introl eq_refl)); reflexivity).
    destruct (Nat.ltb k (List.length items)); rewrite (IH _ _ _ _ L) by (intros c Hc'; apply HL; right; exact Hc');
      rewrite Hc; (destruct (clen =? 0)%Z eqn:E; [|rewrite E; reflexivity]);
      (destruct (Z.of_nat L =? 0)%Z eqn:E2; [|reflexivity]); destruct rest; lia.
Qed.

Lemma bind1_lengths : forall cols k clen items datas,
  List.length datas = List.length items -> (k <= List.length items)%nat ->
  let r := bind1 cols k clen items datas in
  List.length (snd r) = List.length (snd (fst r)) /\ List.length (snd (fst r)) = Nat.max (List.length items) (k + List.length cols).
Proof.
  induction cols as [|col rest IH]; intros k clen items datas Hl Hk; cbn [bind1 fst snd List.length].
  - split; [exact Hl|lia].
  - destruct (Nat.ltb_spec k (List.length items)) as [Hlt|Hge].
    + destruct (IH (S k) (clen_step clen (null_column (nulleq numeq pn) strict k col)) items
                   (pyo_list_upd datas k (fun _ => null_column (nulleq numeq pn) strict k col))) as [H1 H2];
        [rewrite upd_length; exact Hl|lia|]. split; [exact H1|rewrite H2; lia].
    + destruct (IH (S k) (clen_step clen (null_column (nulleq numeq pn) strict k col)) (sect_append tr items unnamed_item)
                   (datas ++ [null_column (nulleq numeq pn) strict k col])) as [H1 H2];
        [rewrite app_length, sect_append_length; cbn [List.length]; lia|rewrite sect_append_length; lia|].
      split; [exact H1|rewrite H2, sect_append_length; lia].
Qed.

(* ---------- the second loop ---------------------------------------------------------------------------- *)
Fixpoint fill (datas : list (list cell)) (m r : nat) (nan : list cell) : list (list cell) :=
  match r with
  | O => datas
  | S r' => fill (pyo_list_upd datas m (fun _ => nan)) (S m) r' nan
  end.

Lemma fill_eq : forall r datas m nan, (m + r <= List.length datas)%nat ->
  fill datas m r nan = firstn m datas ++ List.repeat nan r ++ skipn (m + r) datas.
Proof.
  induction r as [|r IH]; intros datas m nan H.
  - cbn [fill repeat app]. rewrite Nat.add_0_r, firstn_skipn. reflexivity.
  - cbn [fill]. rewrite IH by (rewrite upd_length; lia). rewrite upd_split by lia.
    rewrite firstn_app, firstn_firstn, firstn_length.
    replace (Nat.min (S m) m) with m by lia.
    replace (S m - Nat.min m (List.length datas))%nat with 1%nat by lia.
    cbn [firstn repeat]. rewrite <- app_assoc. cbn [app]. f_equal. f_equal. f_equal.
    rewrite skipn_app, firstn_length.
    rewrite (skipn_all2 (firstn m datas)) by (rewrite firstn_length; lia).
    replace (S m + r - Nat.min m (List.length datas))%nat with (S r) by lia.
    rewrite skipn_cons. cbn [app]. rewrite skipn_skipn'. f_equal. lia.
Qed.

Lemma bind_columns_null : forall cols its k j,
  bind_columns tr its k (null_columns (nulleq numeq pn) strict j cols) = bind_columns tr its k cols.
Proof.
  induction cols as [|c cs IH]; intros its k j; [reflexivity|]. cbn [null_columns bind_columns].
  destruct (Nat.ltb k (List.length its)); apply IH.
Qed.
Lemma null_columns_length : forall cols j, List.length (null_columns (nulleq numeq pn) strict j cols) = List.length cols.
Proof. induction cols as [|c cs IH]; intros j; [reflexivity|]. cbn [null_columns List.length]. rewrite IH. reflexivity. Qed.

(* ---------- the pin ------------------------------------------------------------------------------------ *)
Theorem bind_pin : forall items datas cols L,
  List.length datas = List.length items ->
  (forall c, In c cols -> List.length c = L) ->
  py_bind_columns bind_rops (combine items datas) cols strict pn
  = Some (let cols' := null_columns (nulleq numeq pn) strict 0 cols in
          let items' := bind_columns tr items 0 cols' in
          combine items' (data_for_curves (List.length items') cols')).
Proof.
  intros items datas cols L Hl HL. unfold py_bind_columns. cbv zeta.
  set (n0 := List.length items).
  (* the flags dict *)
  assert (Hn0 : @pyo_llen bcurve (combine items datas) = Z.of_nat n0).
  { unfold pyo_llen. rewrite combine_length. subst n0. rewrite Hl, Nat.min_id. reflexivity. }
  rewrite Hn0.
  rewrite flags_init.
  (* first loop *)
  match goal with |- obind (fold_left ?b _ _) _ = _ => set (body := b) end.
  assert (Hstep : forall clen its ds k col, List.length ds = List.length its -> (k <= List.length its)%nat ->
            body (Some (clen, combine its ds, flags_at n0 k, Z.of_nat k)) col
            = let col' := null_column (nulleq numeq pn) strict k col in
              Some (clen_step clen col',
                    (if Nat.ltb k (List.length its) then combine its (pyo_list_upd ds k (fun _ => col'))
                     else combine (sect_append tr its unnamed_item) (ds ++ [col'])),
                    flags_at n0 (S k), Z.of_nat (S k))).
  { intros clen its ds k col Hlen Hk. unfold body. cbn [obind]. cbv zeta.
    cbn [bind_rops arr_is_float arr_null_to_nan arr_len c_set_data c_new sec_append fst snd].
    rewrite <- null_column_arr. set (col' := null_column (nulleq numeq pn) strict k col).
    assert (Hll : @pyo_llen bcurve (combine its ds) = Z.of_nat (List.length its))
      by (unfold pyo_llen; rewrite combine_length, Hlen, Nat.min_id; reflexivity).
    rewrite Hll.
    rewrite flags_step.
    replace (Z.of_nat k + 1)%Z with (Z.of_nat (S k)) by lia.
    fold (clen_step clen col').
    destruct (Nat.ltb_spec k (List.length its)) as [Hlt|Hge].
    - replace (Z.of_nat k <? Z.of_nat (List.length its))%Z with true by lia.
      unfold pyo_list_modify. rewrite lindex_nat by (rewrite combine_length; lia).
      cbn [obind]. rewrite upd_combine. reflexivity.
    - replace (Z.of_nat k <? Z.of_nat (List.length its))%Z with false by lia.
      cbn [obind]. rewrite map_fst_combine, map_snd_combine by lia. reflexivity. }
  assert (Hfold : forall cs clen its ds k, List.length ds = List.length its -> (k <= List.length its)%nat ->
            fold_left body cs (Some (clen, combine its ds, flags_at n0 k, Z.of_nat k))
            = let r := bind1 cs k clen its ds in
              Some (fst (fst r), combine (snd (fst r)) (snd r), flags_at n0 (k + List.length cs), Z.of_nat (k + List.length cs))).
  { induction cs as [|col rest IH]; intros clen its ds k Hlen Hk.
    - cbn [fold_left bind1 fst snd List.length]. rewrite Nat.add_0_r. reflexivity.
    - cbn [fold_left bind1 List.length]. rewrite Hstep by assumption. cbv zeta.
      destruct (Nat.ltb_spec k (List.length its)) as [Hlt|Hge].
      + rewrite IH by (rewrite ?upd_length; lia). cbv zeta.
        replace (k + S (List.length rest))%nat with (S k + List.length rest)%nat by lia. reflexivity.
      + rewrite IH by (rewrite ?app_length, ?sect_append_length; cbn [List.length]; lia). cbv zeta.
        replace (k + S (List.length rest))%nat with (S k + List.length rest)%nat by lia. reflexivity. }
  pose proof (Hfold cols 0%Z items datas 0%nat Hl (Nat.le_0_l _)) as H0. cbn [Z.of_nat] in H0. rewrite H0. clear H0.
  cbv zeta. cbn [obind Nat.add].
  clear Hfold Hstep body.
  (* what the first loop leaves *)
  set (m := List.length cols).
  pose proof (bind1_items cols 0 0%Z items datas) as Hi.
  pose proof (bind1_datas cols 0 0%Z items datas Hl (Nat.le_0_l _)) as Hd.
  pose proof (bind1_clen cols 0 0%Z items datas L HL) as Hc.
  pose proof (bind1_lengths cols 0 0%Z items datas Hl (Nat.le_0_l _)) as [Hl1 Hl2].
  cbv zeta in Hl1, Hl2. cbn [firstn app Nat.add] in Hd. fold m in Hd, Hl2. fold n0 in Hl2.
  destruct (bind1 cols 0 0%Z items datas) as [[clen1 items1] datas1]. cbn [fst snd] in *.
  subst items1. subst datas1. subst clen1. cbn [Z.eqb].
  set (cols' := null_columns (nulleq numeq pn) strict 0 cols) in *.
  assert (Hbc : bind_columns tr items 0 cols' = bind_columns tr items 0 cols) by apply bind_columns_null.
  rewrite Hbc. set (items' := bind_columns tr items 0 cols) in *.
  assert (Hm' : List.length cols' = m) by apply null_columns_length.
  (* second loop *)
  match goal with |- obind (fold_left ?b _ _) _ = _ => set (body2 := b) end.
  set (nan := nan_column (Z.to_nat (match cols with [] => 0%Z | _ => Z.of_nat L end))).
  assert (Hstep2 : forall ds i flag, List.length ds = List.length items' ->
            (flag = false -> (i < List.length items')%nat) ->
            body2 (Some (combine items' ds)) (Z.of_nat i, flag)
            = Some (combine items' (if flag then ds else pyo_list_upd ds i (fun _ => nan)))).
  { intros ds i flag Hlen Hi. unfold body2. cbn [obind]. destruct flag; cbn [negb]; [reflexivity|].
    unfold pyo_list_modify. rewrite lindex_nat by (rewrite combine_length; specialize (Hi eq_refl); lia).
    cbn [obind bind_rops c_set_data arr_nan]. rewrite upd_combine. reflexivity. }
  assert (Htrue : forall l ds, List.length ds = List.length items' ->
            fold_left body2 (List.map (fun i => (Z.of_nat i, true)) l) (Some (combine items' ds)) = Some (combine items' ds)).
  { induction l as [|i l IH]; intros ds Hlen; [reflexivity|]. cbn [map fold_left]. rewrite Hstep2 by (assumption || discriminate). apply IH. exact Hlen. }
  assert (Hfalse : forall r a ds, List.length ds = List.length items' -> (a + r <= List.length items')%nat ->
            fold_left body2 (List.map (fun i => (Z.of_nat i, false)) (seq a r)) (Some (combine items' ds))
            = Some (combine items' (fill ds a r nan))).
  { induction r as [|r IH]; intros a ds Hlen Ha; [reflexivity|]. cbn [seq map fold_left fill].
    rewrite Hstep2 by (try assumption; intros _; lia). apply IH; [rewrite upd_length; exact Hlen|lia]. }
  unfold flags_at. rewrite fold_left_app, Htrue, Hfalse by (rewrite ?Hl1; lia).
  cbn [obind]. f_equal. f_equal.
  rewrite fill_eq by lia. unfold data_for_curves.
  rewrite firstn_app, Hm', Nat.sub_diag. cbn [firstn]. rewrite app_nil_r, (firstn_all2 cols') by lia.
  rewrite skipn_all2 by lia. rewrite app_nil_r. f_equal.
  replace (List.length items' - m)%nat with (n0 - m)%nat by lia.
  f_equal. unfold nan, curve_length, cols'.
  destruct cols as [|c cs]; [reflexivity|]. cbn [null_columns]. rewrite null_column_length, Nat2Z.id.
  rewrite (HL c (or_introl eq_refl)). reflexivity.
Qed.

End Pin.

(* ---------- how many columns the reader asks the normal engine for ------------------------------------ *)
(* inspect_data_section's answer: -1 = no consistent count *)
Definition sniffed_z (s : option nat) : Z := match s with None => (-1)%Z | Some n => Z.of_nat n end.

(* wrap_in_version: "WRAP" in self.version; wrap_is_yes: self.version.WRAP.value == "YES" (evaluated only
   when the first holds); together Model/Read.read_one_data's wrap_declared *)
Theorem n_columns_pin : forall (C : Type) sniffed (curves : list C) wrap_in_version wrap_is_yes,
  py_reader_n_columns (sniffed_z sniffed) curves wrap_in_version wrap_is_yes
  = Z.of_nat (match sniffed with
              | None => List.length curves
              | Some n => if (wrap_in_version && wrap_is_yes) && Nat.ltb n (List.length curves)
                          then List.length curves else n
              end).
Proof.
  intros C sniffed curves w1 w2. unfold py_reader_n_columns, pyo_llen. cbv zeta.
  destruct sniffed as [n|]; cbn [sniffed_z]; [|reflexivity].
  replace (Z.of_nat n =? - (1))%Z with false by lia.
  replace (Z.of_nat n <? Z.of_nat (List.length curves))%Z with (Nat.ltb n (List.length curves)) by lia.
  rewrite andb_assoc. destruct (w1 && w2 && Nat.ltb n (List.length curves)); reflexivity.
Qed.
