(* Proofs.JunkRead — C19 at the level of LASFile.read:
   * with ignore_header_errors, read never fails with a header error, whatever the text;
   * without it, a header error names a stripped line of the text that is a content line of
     a header section and that the line parser rejects;
   * junk lines (no title, no steering name) inserted into header sections other than the
     one that declares the curves leave the steering values, the curves and the curve data
     untouched and keep every header section's genuine items (orig, unit, value, descr), in
     order, as a subsequence. *)
From Coq Require Import List Arith NArith Bool Lia String.
Import ListNotations.
Require Import PyStr Regex Regexes NumLit Num HeaderLine Tables SectionParse Sections DataRead Read.
Require Import RegexSubFacts StripFacts SectionsProofs ItemsBindProofs JunkProofs JunkSteering ReadInvProofs ReadCongr BlocksCongr.
Open Scope string_scope.
Open Scope list_scope.
Open Scope N_scope.

Definition tr_of (c : mcase) : bool := match c with CasePreserve => false | _ => true end.

Lemma In_firstn' {A} (x : A) : forall n l, In x (firstn n l) -> In x l.
Proof.
  induction n as [|n IH]; intros l H; [destruct H|]. destruct l as [|y l]; [destruct H|].
  cbn [firstn In] in *. destruct H as [H|H]; [left; exact H|right; apply IH; exact H].
Qed.
Lemma In_skipn' {A} (x : A) : forall n l, In x (skipn n l) -> In x l.
Proof.
  induction n as [|n IH]; intros l H; [exact H|]. destruct l as [|y l]; [destruct H|].
  cbn [skipn] in H. right. apply IH. exact H.
Qed.
Lemma In_body_lines ls p raw : In raw (body_lines ls p) -> In raw ls.
Proof. unfold body_lines. intros H. eapply In_skipn', In_firstn'. exact H. Qed.

Section WithOracles.
Variable fhex : list N -> option (list N).
Variable fstr : list N -> list N.
Variable numeq : list N -> list N -> bool.

(* ---- which errors can come from where ---------------------------------------------------- *)
Lemma step_section_header_error o ls ps p line : step_section o ls ps p = inr (EHeader line) ->
  section_type (sp_title p) = THeader /\
  exists v, parse_section v (sp_title p) (o_mcase o) (o_ignore_header_errors o) [ch_hash] (body_lines ls p)
            = PErr line.
Proof.
  destruct (section_type (sp_title p)) eqn:Ety.
  - unfold step_section. rewrite Ety. discriminate.
  - rewrite step_section_other by exact Ety. discriminate.
  - unfold step_section. rewrite Ety. discriminate.
  - unfold step_section. rewrite Ety. destruct (version_of (p_version ps)) as [v|]; [|discriminate].
    destruct (las_version_eqb v V30 && las3_like (sp_title p)); [discriminate|].
    destruct (parse_section v (sp_title p) (o_mcase o) (o_ignore_header_errors o) [ch_hash] (body_lines ls p)) eqn:E.
    + destruct (second_upper (sp_title p)); discriminate.
    + intros H. injection H as ->. split; [reflexivity|]. exists v. exact E.
Qed.

Lemma first_pass_header_error o ls : forall sects ps line, first_pass o ls ps sects = inr (EHeader line) ->
  exists p v, In p sects /\
    parse_section v (sp_title p) (o_mcase o) (o_ignore_header_errors o) [ch_hash] (body_lines ls p) = PErr line.
Proof.
  induction sects as [|p rest IH]; intros ps line H; [discriminate|]. cbn [first_pass] in H.
  destruct (step_section o ls ps p) as [ps'|e] eqn:E.
  - destruct (IH ps' line H) as (q & v & Hin & Hq). exists q, v. split; [right; exact Hin|exact Hq].
  - injection H as ->. destruct (step_section_header_error o ls ps p line E) as (_ & v & Hv).
    exists p, v. split; [left; reflexivity|exact Hv].
Qed.

Lemma read_one_data_error o ls ps d p l e :
  read_one_data fhex fstr numeq o ls ps d p l = inr e -> e = EReshape.
Proof.
  rewrite read_one_data_core. unfold data_core. cbv zeta.
  destruct (inspect_twice d (body_lines ls p) _) as [sn subs].
  match goal with |- context [if ?b then numpy_engine fhex ?x else None] =>
    destruct (if b then numpy_engine fhex x else None) as [cols|] end; [discriminate|].
  destruct (normal_engine fhex fstr d subs _ (body_lines ls p)); [discriminate|]. congruence.
Qed.

Lemma read_data_sections_error o ls ps d : forall sects l e,
  read_data_sections fhex fstr numeq o ls ps d sects l = inr e -> e = EReshape.
Proof.
  induction sects as [|p rest IH]; intros l e H; [discriminate|]. cbn [read_data_sections] in H.
  destruct (read_one_data fhex fstr numeq o ls ps d p l) as [l'|e'] eqn:E.
  - apply (IH l' e H).
  - injection H as <-. apply (read_one_data_error o ls ps d p l e' E).
Qed.

(* C19 (without the flag): the header error of read names its line *)
Theorem read_header_error_names_line o t line :
  read fhex fstr numeq o t = RErr (EHeader line) ->
  o_ignore_header_errors o = false /\
  exists raw v k, In raw (lines_keep t) /\ line = strip raw /\
                  content_line [ch_hash] raw = true /\ parse_line v k (o_mcase o) (strip raw) = None.
Proof.
  unfold read. destruct (find_sections (lines_keep t)) as [|p0 sects0] eqn:Es; [discriminate|].
  set (ps0 := mkps _ _ _ _ _ _ _).
  destruct (first_pass o (lines_keep t) ps0 (p0 :: sects0)) as [ps|e] eqn:Ef.
  - destruct (dlm_of (p_dlm ps)); [|discriminate]. destruct (o_ignore_data o); [discriminate|].
    destruct (read_data_sections fhex fstr numeq o (lines_keep t) ps d _ (p_las ps)) as [l|e] eqn:Ed; [discriminate|].
    intros H. injection H as ->. apply read_data_sections_error in Ed. discriminate.
  - intros H. injection H as ->.
    destruct (first_pass_header_error o _ _ _ _ Ef) as (p & v & _ & Hp). unfold parse_section in Hp.
    destruct (parse_body_only_header_error v (kind_of_title (strip (sp_title p))) (o_mcase o) [ch_hash]
                (tr_of (o_mcase o)) (o_ignore_header_errors o) (body_lines (lines_keep t) p) [])
      as [(r & Hr)|(Hi & raw & Hin & Hr & Hc & Hn)].
    + unfold tr_of in Hr. congruence.
    + split; [exact Hi|]. exists raw, v, (kind_of_title (strip (sp_title p))).
      unfold tr_of in Hr. rewrite Hp in Hr. injection Hr as ->.
      split; [apply (In_body_lines _ p); exact Hin|]. auto.
Qed.

(* C19 (with the flag): no text makes read fail with a header error *)
Theorem read_total_header o t line : o_ignore_header_errors o = true ->
  read fhex fstr numeq o t <> RErr (EHeader line).
Proof.
  intros Hf H. apply read_header_error_names_line in H as (Hi & _). congruence.
Qed.

(* ======================================================================================= *)
(* junk lines leave everything else alone                                                  *)
(* ======================================================================================= *)
Definition sect_sub (s s' : section) : Prop :=
  s_transforms s = s_transforms s' /\ subseq (map meta (s_items s)) (map meta (s_items s')).

Definition wrap_of (s : section) : bool :=
  match sect_find (s_transforms s) (s2l "WRAP") (s_items s) with
  | Some it => hval_is_str (i_value it) (s2l "YES")
  | None => false
  end.

Definition custom_rel (kv kv' : list N * custom_sect) : Prop :=
  fst kv = fst kv' /\
  match snd kv, snd kv' with
  | CItems s, CItems s' => sect_sub s s'
  | CText x, CText x' => x = x'
  | _, _ => False
  end.

(* what junk lines cannot change in the result: curves, data, engine, ~Other text, the WRAP
   declaration; and what they can only extend: the items of the other header sections *)
Definition las_frame (l l' : las) : Prop :=
  l_curves l = l_curves l' /\ l_data l = l_data l' /\ l_engine_numpy l = l_engine_numpy l' /\
  l_other l = l_other l' /\ wrap_of (l_version l) = wrap_of (l_version l') /\
  sect_sub (l_version l) (l_version l') /\ sect_sub (l_well l) (l_well l') /\
  sect_sub (l_params l) (l_params l') /\ Forall2 custom_rel (l_custom l) (l_custom l').

Lemma sect_sub_refl s : sect_sub s s.
Proof. split; [reflexivity|apply subseq_refl]. Qed.

Lemma custom_rel_refl kv : custom_rel kv kv.
Proof. split; [reflexivity|]. destruct (snd kv); [apply sect_sub_refl|reflexivity]. Qed.

Lemma las_frame_refl l : las_frame l l.
Proof.
  repeat split; try apply subseq_refl.
  induction (l_custom l); constructor; [apply custom_rel_refl|assumption].
Qed.

Lemma set_custom_rel key v v' l l' :
  custom_rel (key, v) (key, v') -> Forall2 custom_rel l l' ->
  Forall2 custom_rel (set_custom key v l) (set_custom key v' l').
Proof.
  intros Hv H. unfold set_custom.
  assert (E : existsb (fun kv => str_eqb (fst kv) key) l = existsb (fun kv => str_eqb (fst kv) key) l').
  { induction H as [|x y l l' (Hk & _) H IH]; [reflexivity|]. cbn [existsb]. rewrite Hk, IH. reflexivity. }
  rewrite <- E. destruct (existsb _ l).
  - clear E. induction H as [|x y l l' Hxy H IH]; [constructor|]. cbn [map].
    destruct Hxy as (Hk & Hs). rewrite <- Hk. constructor; [|exact IH].
    destruct (str_eqb (fst x) key); [exact Hv|]. split; assumption.
  - apply Forall2_app; [exact H|constructor; [exact Hv|constructor]].
Qed.

(* the title may be filed as ~Curves (under some provisional version: in a 3.0 file a ~C title with an
   underscore is one of LAS 3.0's own sections, in a 1.2 / 2.0 file it is the curve section) *)
Definition routes_curves (title : list N) (letter : N) : bool :=
  (letter =? 67) || contains (s2l "~Log_Definition") title.

Lemma route_frame v3 title letter sec sec' l l' :
  las_frame l l' -> sect_sub sec sec' -> wrap_of sec = wrap_of sec' ->
  (routes_curves title letter = true -> sec = sec') ->
  las_frame (route v3 title letter sec l) (route v3 title letter sec' l').
Proof.
  intros (F1 & F2 & F3 & F4 & F5 & F6 & F7 & F8 & F9) Hs Hw Hc. unfold route.
  destruct (((letter =? 67) && negb (v3 && in_str ch_us title)) || contains (s2l "~Log_Definition") title) eqn:EC.
  - assert (Hr : routes_curves title letter = true).
    { unfold routes_curves. destruct (letter =? 67); [reflexivity|]. cbn [andb orb] in EC. exact EC. }
    rewrite (Hc Hr). unfold las_frame. cbn. repeat split; try assumption; try apply F6; try apply F7; try apply F8.
  - destruct (((letter =? 80) && negb (v3 && in_str ch_us title)) || contains (s2l "~Log_Parameter") title).
    + unfold las_frame. cbn. repeat split; try assumption; try apply F6; try apply F7; try apply Hs.
    + destruct (letter =? 86).
      * unfold las_frame. cbn. repeat split; try assumption; try apply F7; try apply F8; try apply Hs.
      * destruct (letter =? 87).
        -- unfold las_frame. cbn. repeat split; try assumption; try apply F6; try apply F8; try apply Hs.
        -- unfold las_frame. cbn. repeat split; try assumption; try apply F6; try apply F7; try apply F8.
           apply set_custom_rel; [|exact F9]. split; [reflexivity|exact Hs].
Qed.

Lemma update_steering_version letter sec ps ps' :
  p_version ps = p_version ps' -> p_version (update_steering letter sec ps) = p_version (update_steering letter sec ps').
Proof.
  intros E. unfold update_steering. destruct (letter =? 86); [cbn [p_version]; rewrite E; reflexivity|].
  destruct (letter =? 87); cbn [p_version]; exact E.
Qed.

Ltac psplit := repeat match goal with |- _ /\ _ => split end.

Section TwoTexts.
Variables ls ls' : list (list N).

Definition ps_frame (ps ps' : pstate) : Prop :=
  p_version ps = p_version ps' /\ p_wrapped ps = p_wrapped ps' /\ p_null ps = p_null ps' /\
  p_dlm ps = p_dlm ps' /\ las_frame (p_las ps) (p_las ps') /\
  Forall2 (dsec_equiv ls ls') (p_data ps) (p_data ps') /\
  Forall2 (dsec_equiv ls ls') (p_las3data ps) (p_las3data ps').

(* a junk line of a section with this title, whatever version is in force *)
Definition junk_for (c : mcase) (title : list N) (j : list N) : Prop :=
  forall v, junk_line v (kind_of_title (strip title)) c (tr_of c) j.

Definition title_routes_curves (title : list N) : bool :=
  match second_upper title with Some letter => routes_curves title letter | None => false end.

(* corresponding sections: equal, or a header section (not the curves one) with junk lines *)
Definition junk_view (c : mcase) (x y : sview) : Prop :=
  match x, y with
  | (t, b, ot), (t', b', ot') =>
      t = t' /\
      match section_type t with
      | THeader => b = b' \/ (title_routes_curves t = false /\ ins_lines (junk_for c t) b b')
      | TOther => ot = ot'
      | _ => data_equiv b b'
      end
  end.
Definition junk_sec (c : mcase) (p p' : spos) : Prop := junk_view c (view ls p) (view ls' p').

Lemma junk_for_nontitle c t j : junk_for c t j -> nontitle j.
Proof. intros H. destruct (H V20) as (Hn & _). exact Hn. Qed.

(* one header section with junk lines: same steering lookups, genuine items a subsequence *)
Lemma parse_section_junk v t c b b' :
  ins_lines (junk_for c t) b b' ->
  exists r r', parse_section v t c true [ch_hash] b = POk r /\ parse_section v t c true [ch_hash] b' = POk r' /\
               sect_sub (mksect r (tr_of c)) (mksect r' (tr_of c)) /\
               (forall key, In key steer_keys -> sect_find (tr_of c) key r' = sect_find (tr_of c) key r).
Proof.
  intros J. unfold parse_section. fold (tr_of c).
  destruct (parse_body_total v (kind_of_title (strip t)) c [ch_hash] (tr_of c) b []) as (r & Hr).
  destruct (parse_body_total v (kind_of_title (strip t)) c [ch_hash] (tr_of c) b' []) as (r' & Hr').
  exists r, r'. split; [exact Hr|]. split; [exact Hr'|]. split.
  - split; [reflexivity|]. cbn [s_items].
    apply (junk_genuine_subsequence v (kind_of_title (strip t)) c [ch_hash] (tr_of c) true b b' [] r r'); try assumption.
    eapply ins_lines_mono; [|exact J]. intros x Hx. eapply junk_for_nontitle. exact Hx.
  - intros key Hk.
    apply (junk_steering_lookup v (kind_of_title (strip t)) c [ch_hash] (tr_of c) true key b b' [] r r' Hk); try assumption.
    + constructor.
    + eapply ins_lines_mono; [|exact J]. intros x Hx. apply Hx.
Qed.

Lemma wrap_of_lookup tr r r' :
  sect_find tr (s2l "WRAP") r' = sect_find tr (s2l "WRAP") r -> wrap_of (mksect r tr) = wrap_of (mksect r' tr).
Proof. intros H. unfold wrap_of. cbn [s_transforms s_items]. rewrite H. reflexivity. Qed.

(* the steering part of update_steering looks at the steering part of the state only *)
Lemma update_steering_steer letter sec ps ps' : ps_frame ps ps' ->
  ps_frame (update_steering letter sec ps) (update_steering letter sec ps').
Proof.
  intros (E1 & E2 & E3 & E4 & E5 & E6 & E7). unfold update_steering, ps_frame.
  destruct (letter =? 86); [|destruct (letter =? 87)];
    cbn [p_version p_wrapped p_null p_dlm p_las p_data p_las3data]; rewrite ?E1, ?E2, ?E3, ?E4; psplit; try reflexivity; assumption.
Qed.

Lemma update_steering_las letter sec ps : p_las (update_steering letter sec ps) = p_las ps.
Proof. unfold update_steering. destruct (letter =? 86); [|destruct (letter =? 87)]; reflexivity. Qed.

Lemma with_las_frame ps ps' l l' : ps_frame ps ps' -> las_frame l l' -> ps_frame (with_las ps l) (with_las ps' l').
Proof.
  intros (E1 & E2 & E3 & E4 & E5 & E6 & E7) Hl. unfold ps_frame, with_las.
  cbn [p_version p_wrapped p_null p_dlm p_las p_data p_las3data]. psplit; try reflexivity; assumption.
Qed.

Lemma step_section_frame o ps ps' p p' : o_ignore_header_errors o = true ->
  ps_frame ps ps' -> junk_sec (o_mcase o) p p' ->
  res_equiv ps_frame (step_section o ls ps p) (step_section o ls' ps' p').
Proof.
  intros Hflag Hps Hsec. unfold junk_sec, junk_view, view in Hsec. destruct Hsec as (Et & Hs).
  pose proof Hps as (Ev & Ew & En & Ed & El & Hd & H3).
  destruct (section_type (sp_title p)) eqn:Ety.
  - unfold step_section. rewrite <- Et, Ety. cbn [res_equiv]. unfold ps_frame.
    cbn [p_version p_wrapped p_null p_dlm p_las p_data p_las3data].
    psplit; try assumption. apply Forall2_snoc; assumption.
  - rewrite !step_section_other by (rewrite <- ?Et; exact Ety). rewrite <- Et, <- Hs. cbn [res_equiv].
    apply with_las_frame; [exact Hps|].
    destruct El as (F1 & F2 & F3 & F4 & F5 & F6 & F7 & F8 & F9). unfold other_las.
    assert (A : las_frame
      (mklas (l_version (p_las ps)) (l_well (p_las ps)) (l_curves (p_las ps)) (l_params (p_las ps))
             (other_text ls p) (l_custom (p_las ps)) (l_data (p_las ps)) (l_engine_numpy (p_las ps)))
      (mklas (l_version (p_las ps')) (l_well (p_las ps')) (l_curves (p_las ps')) (l_params (p_las ps'))
             (other_text ls p) (l_custom (p_las ps')) (l_data (p_las ps')) (l_engine_numpy (p_las ps'))))
      by (unfold las_frame; cbn; repeat split; try assumption; try apply F6; try apply F7; try apply F8).
    assert (B : las_frame
      (mklas (l_version (p_las ps)) (l_well (p_las ps)) (l_curves (p_las ps)) (l_params (p_las ps))
             (l_other (p_las ps)) (set_custom (tl (sp_title p)) (CText (other_text ls p)) (l_custom (p_las ps)))
             (l_data (p_las ps)) (l_engine_numpy (p_las ps)))
      (mklas (l_version (p_las ps')) (l_well (p_las ps')) (l_curves (p_las ps')) (l_params (p_las ps'))
             (l_other (p_las ps')) (set_custom (tl (sp_title p)) (CText (other_text ls p)) (l_custom (p_las ps')))
             (l_data (p_las ps')) (l_engine_numpy (p_las ps')))).
    { unfold las_frame; cbn; repeat split; try assumption; try apply F6; try apply F7; try apply F8.
      apply set_custom_rel; [|exact F9]. split; reflexivity. }
    destruct (second_upper (sp_title p)) as [n|]; [|exact B].
    destruct n as [|q]; [exact B|]. do 7 (destruct q as [q|q|]; try exact B). exact A.
  - unfold step_section. rewrite <- Et, Ety. cbn [res_equiv]. unfold ps_frame.
    cbn [p_version p_wrapped p_null p_dlm p_las p_data p_las3data].
    psplit; try assumption. apply Forall2_snoc; assumption.
  - unfold step_section. rewrite <- Et, Ety, <- Ev, Hflag.
    destruct (version_of (p_version ps)) as [ver|]; [|reflexivity].
    destruct (las_version_eqb ver V30 && las3_like (sp_title p)); [reflexivity|].
    fold (tr_of (o_mcase o)).
    assert (X : exists r r',
      parse_section ver (sp_title p) (o_mcase o) true [ch_hash] (body_lines ls p) = POk r /\
      parse_section ver (sp_title p) (o_mcase o) true [ch_hash] (body_lines ls' p') = POk r' /\
      sect_sub (mksect r (tr_of (o_mcase o))) (mksect r' (tr_of (o_mcase o))) /\
      (forall key, In key steer_keys -> sect_find (tr_of (o_mcase o)) key r' = sect_find (tr_of (o_mcase o)) key r) /\
      (title_routes_curves (sp_title p) = true -> r = r')).
    { destruct Hs as [Eb|(Hc & J)].
      - rewrite <- Eb. unfold parse_section. fold (tr_of (o_mcase o)).
        destruct (parse_body_total ver (kind_of_title (strip (sp_title p))) (o_mcase o) [ch_hash]
                    (tr_of (o_mcase o)) (body_lines ls p) []) as (r & Hr).
        exists r, r. repeat split; try exact Hr; try apply subseq_refl.
      - destruct (parse_section_junk ver (sp_title p) (o_mcase o) _ _ J) as (r & r' & A & B & C & D).
        exists r, r'. repeat split; try assumption; try apply C. congruence. }
    destruct X as (r & r' & Hr & Hr' & Hsub & Hlook & Hcur). rewrite Hr, Hr'.
    unfold title_routes_curves in Hcur.
    destruct (second_upper (sp_title p)) as [letter|]; [|reflexivity].
    cbn [res_equiv].
    rewrite (update_steering_frame (tr_of (o_mcase o)) letter r r' ps' Hlook).
    apply with_las_frame; [apply update_steering_steer; exact Hps|].
    rewrite (update_steering_version letter _ ps ps' (proj1 Hps)).
    rewrite !update_steering_las. apply route_frame; try assumption.
    + apply wrap_of_lookup. apply Hlook. cbn. auto.
    + intros Hc. rewrite (Hcur Hc). reflexivity.
Qed.

Lemma first_pass_frame o : o_ignore_header_errors o = true ->
  forall sects sects', Forall2 (junk_sec (o_mcase o)) sects sects' ->
  forall ps ps', ps_frame ps ps' ->
  res_equiv ps_frame (first_pass o ls ps sects) (first_pass o ls' ps' sects').
Proof.
  intros Hflag. induction 1 as [|p p' l l' Hp H IH]; intros ps ps' Hps; [exact Hps|].
  cbn [first_pass]. pose proof (step_section_frame o ps ps' p p' Hflag Hps Hp) as S.
  destruct (step_section o ls ps p) as [a|e]; destruct (step_section o ls' ps' p') as [b|e']; cbn [res_equiv] in S;
    try contradiction.
  - apply IH. exact S.
  - exact S.
Qed.

Lemma read_one_data_frame o ps ps' d p p' l l' :
  p_wrapped ps = p_wrapped ps' -> p_null ps = p_null ps' -> dsec_equiv ls ls' p p' -> las_frame l l' ->
  res_equiv las_frame (read_one_data fhex fstr numeq o ls ps d p l) (read_one_data fhex fstr numeq o ls' ps' d p' l').
Proof.
  intros Ew En H (F1 & F2 & F3 & F4 & F5 & F6 & F7 & F8 & F9). rewrite !read_one_data_core, <- Ew, <- En, <- F1.
  change (wrap_decl l) with (wrap_of (l_version l)). change (wrap_decl l') with (wrap_of (l_version l')).
  rewrite <- F5. rewrite <- (data_core_equiv fhex fstr numeq o _ _ d _ _ (l_curves l) (wrap_of (l_version l)) H).
  destruct (data_core fhex fstr numeq o (p_wrapped ps) (p_null ps) d (body_lines ls p) (l_curves l) (wrap_of (l_version l)))
    as [[[cs dat] eng]|e]; cbn [res_equiv]; [|reflexivity].
  unfold las_frame. cbn. repeat split; try assumption; try apply F6; try apply F7; try apply F8.
Qed.

Lemma read_data_sections_frame o ps ps' d :
  p_wrapped ps = p_wrapped ps' -> p_null ps = p_null ps' ->
  forall ds ds', Forall2 (dsec_equiv ls ls') ds ds' -> forall l l', las_frame l l' ->
  res_equiv las_frame (read_data_sections fhex fstr numeq o ls ps d ds l)
                      (read_data_sections fhex fstr numeq o ls' ps' d ds' l').
Proof.
  intros Ew En. induction 1 as [|p p' ds ds' Hp H IH]; intros l l' Hl; [exact Hl|].
  cbn [read_data_sections]. pose proof (read_one_data_frame o ps ps' d p p' l l' Ew En Hp Hl) as S.
  destruct (read_one_data fhex fstr numeq o ls ps d p l) as [a|e];
    destruct (read_one_data fhex fstr numeq o ls' ps' d p' l') as [b|e']; cbn [res_equiv] in S; try contradiction.
  - apply IH. exact S.
  - exact S.
Qed.

End TwoTexts.

Definition rres_frame (x y : rres) : Prop :=
  match x, y with
  | ROk l, ROk l' => las_frame l l'
  | RErr e, RErr e' => e = e'
  | _, _ => False
  end.

Theorem read_frame o t t' : o_ignore_header_errors o = true ->
  Forall2 (junk_sec (lines_keep t) (lines_keep t') (o_mcase o))
          (find_sections (lines_keep t)) (find_sections (lines_keep t')) ->
  rres_frame (read fhex fstr numeq o t) (read fhex fstr numeq o t').
Proof.
  intros Hflag H. unfold read. set (ls := lines_keep t) in *. set (ls' := lines_keep t') in *.
  set (ps0 := mkps _ _ _ _ _ _ _).
  assert (H0 : ps_frame ls ls' ps0 ps0).
  { unfold ps_frame. psplit; try apply las_frame_refl; try reflexivity; constructor. }
  pose proof (first_pass_frame ls ls' o Hflag _ _ H ps0 ps0 H0) as F.
  destruct H as [|p p' l l' Hp H]; [reflexivity|].
  set (sects := p :: l) in *. set (sects' := p' :: l') in *.
  destruct (first_pass o ls ps0 sects) as [ps|e]; destruct (first_pass o ls' ps0 sects') as [ps'|e'];
    cbn [res_equiv] in F; try contradiction; [|cbn; congruence].
  destruct F as (Ev & Ew & En & Ed & El & Hd & H3). rewrite <- Ed.
  destruct (dlm_of (p_dlm ps)) as [d|]; [|reflexivity].
  destruct (o_ignore_data o); [exact El|].
  assert (Hds : Forall2 (dsec_equiv ls ls') (match p_data ps with [] => p_las3data ps | x => x end)
                        (match p_data ps' with [] => p_las3data ps' | x => x end)).
  { destruct Hd; [exact H3|constructor; assumption]. }
  pose proof (read_data_sections_frame ls ls' o ps ps' d Ew En _ _ Hds _ _ El) as S.
  destruct (read_data_sections fhex fstr numeq o ls ps d _ (p_las ps)) as [a|e];
    destruct (read_data_sections fhex fstr numeq o ls' ps' d _ (p_las ps')) as [b|e']; cbn [res_equiv] in S;
    try contradiction; cbn; congruence || exact S.
Qed.

(* ---- on blocks ------------------------------------------------------------------------------ *)
Definition junk_block (c : mcase) (b b' : block) : Prop := junk_view c (block_view b) (block_view b').

(* junk lines inserted into the bodies of header blocks that do not declare the curves *)
Definition junk_ins_block (c : mcase) (b b' : block) : Prop :=
  fst b = fst b' /\
  ((section_type (strip (fst b)) = THeader /\ title_routes_curves (strip (fst b)) = false /\
    ins_lines (junk_for c (strip (fst b))) (snd b) (snd b'))
   \/ snd b = snd b').

Lemma junk_ins_block_view c b b' : junk_ins_block c b b' -> junk_block c b b'.
Proof.
  intros (Et & H). unfold junk_block, junk_view, block_view. rewrite <- Et. split; [reflexivity|].
  destruct H as [(Ety & Hc & J)|Eb].
  - rewrite Ety. right. split; assumption.
  - unfold other_of_block. rewrite <- Eb. destruct (section_type (strip (fst b))); try apply data_equiv_refl; auto.
Qed.

Lemma junk_ins_block_wf c b b' : junk_ins_block c b b' -> wf_block b -> wf_block b'.
Proof.
  intros (Et & H) (Ht & Hn). split; [rewrite <- Et; exact Ht|].
  destruct H as [(_ & _ & J)|Eb]; [|rewrite <- Eb; exact Hn].
  apply (notitles_ins _ _ _ (fun x Hx => junk_for_nontitle c _ x Hx) J Hn).
Qed.

Theorem read_junk_blocks o t t' pre pre' bs bs' : o_ignore_header_errors o = true ->
  lines_keep t = pre ++ render bs -> lines_keep t' = pre' ++ render bs' ->
  notitles pre -> notitles pre' -> Forall wf_block bs ->
  Forall2 (junk_ins_block (o_mcase o)) bs bs' ->
  rres_frame (read fhex fstr numeq o t) (read fhex fstr numeq o t').
Proof.
  intros Hflag E E' Hp Hp' Hb H. apply read_frame; [exact Hflag|]. rewrite E, E'.
  assert (Hb' : Forall wf_block bs').
  { clear E E'. induction H as [|b b' l l' Hbb H IH]; [constructor|]. inversion Hb; subst.
    constructor; [eapply junk_ins_block_wf; eassumption|apply IH; assumption]. }
  change (Forall2 (fun a b => junk_view (o_mcase o) (view (pre ++ render bs) a) (view (pre' ++ render bs') b))
                  (find_sections (pre ++ render bs)) (find_sections (pre' ++ render bs'))).
  apply (Forall2_map_iff (junk_view (o_mcase o))). rewrite !views_exact by assumption.
  apply (Forall2_map_iff (junk_view (o_mcase o)) block_view block_view).
  clear E E' Hb Hb'. induction H as [|b b' l l' Hbb H IH]; constructor; [apply junk_ins_block_view; exact Hbb|exact IH].
Qed.

End WithOracles.

(* what the frame relation says, spelled out *)
Lemma rres_frame_meaning x y : rres_frame x y ->
  match x, y with
  | ROk l, ROk l' =>
      l_curves l = l_curves l' /\ l_data l = l_data l' /\ l_engine_numpy l = l_engine_numpy l' /\
      l_other l = l_other l' /\
      subseq (map meta (s_items (l_version l))) (map meta (s_items (l_version l'))) /\
      subseq (map meta (s_items (l_well l))) (map meta (s_items (l_well l'))) /\
      subseq (map meta (s_items (l_params l))) (map meta (s_items (l_params l')))
  | RErr e, RErr e' => e = e'
  | _, _ => False
  end.
Proof.
  destruct x as [l|e], y as [l'|e']; cbn [rres_frame]; auto.
  intros (F1 & F2 & F3 & F4 & F5 & F6 & F7 & F8 & F9). repeat split; try assumption; [apply F6|apply F7|apply F8].
Qed.

(* a readable base file stays readable with junk lines, and the frame holds *)
Corollary read_junk_blocks_ok fhex fstr numeq o t t' pre pre' bs bs' l :
  o_ignore_header_errors o = true ->
  lines_keep t = pre ++ render bs -> lines_keep t' = pre' ++ render bs' ->
  notitles pre -> notitles pre' -> Forall wf_block bs ->
  Forall2 (junk_ins_block (o_mcase o)) bs bs' ->
  read fhex fstr numeq o t = ROk l ->
  exists l', read fhex fstr numeq o t' = ROk l' /\ las_frame l l'.
Proof.
  intros Hf E E' Hp Hp' Hb H Hr.
  pose proof (read_junk_blocks fhex fstr numeq o t t' pre pre' bs bs' Hf E E' Hp Hp' Hb H) as F.
  rewrite Hr in F. destruct (read fhex fstr numeq o t') as [l'|e]; cbn [rres_frame] in F; [|contradiction].
  exists l'. split; [reflexivity|exact F].
Qed.
