(* Proofs.CurvesInvProofs — the C13 invariant (session mnemonics pairwise distinct, every curve
   found under its own key, keys of the form <useful>[:k]) is kept by every operation of
   Model.Curves, set_data's whole-section renaming included.  Same exclusion as C13: no
   literal "u:<k>" mnemonic next to a curve named u (no_suffix_clash). *)
From Coq Require Import List NArith ZArith Bool String Lia ZifyBool ZifyN ZifyNat Permutation.
Import ListNotations.
Require Import PyStr Items ItemsSpec ItemsProofs ItemsInvProofs Curves CurvesSpec CurvesProofs.
Open Scope N_scope.

(* ======================================================================================= *)
(* assign_duplicate_suffixes() over a whole section                                          *)

(* two positions may carry the same key only inside a group that is still to be numbered *)
Definition collisions_pending (tr : bool) (ts : list (list N)) (l : list item) : Prop :=
  forall i j a b, i <> j -> nth_error l i = Some a -> nth_error l j = Some b -> keyn tr a = keyn tr b ->
    exists t, In t ts /\ in_group tr t a = true /\ in_group tr t b = true.

Lemma two_members_count : forall tr t l i j a b, (i < j)%nat ->
  nth_error l i = Some a -> nth_error l j = Some b -> in_group tr t a = true -> in_group tr t b = true ->
  Nat.ltb 1 (group_count tr t l) = true.
Proof.
  intros tr t l i j a b Hij Ea Eb Ga Gb.
  pose proof (rank_lt tr t l i j a Hij Ea Ga). pose proof (rank_member_lt_count tr t l j b Eb Gb).
  apply Nat.ltb_lt. lia.
Qed.

Lemma in_group_set_sess : forall tr t it x, in_group tr t (set_sess it x) = in_group tr t it.
Proof. reflexivity. Qed.

Lemma no_collision_nodup : forall tr l, collisions_pending tr [] l -> NoDup (List.map (keyn tr) l).
Proof.
  intros tr l H. apply NoDup_nth_error. intros i j Hi E.
  rewrite map_length in Hi. rewrite !nth_error_map in E.
  destruct (nth_error l i) as [a|] eqn:Ea; [|apply nth_error_None in Ea; lia].
  destruct (nth_error l j) as [b|] eqn:Eb; [|discriminate].
  destruct (Nat.eq_dec i j) as [|N]; [assumption|]. simpl in E. inversion E as [K].
  destruct (H i j a b N Ea Eb K) as [t [[] _]].
Qed.

Lemma assign_step_pending : forall tr names t ts l,
  Forall wf_item l -> names_in names l -> no_suffix_clash tr names ->
  collisions_pending tr (t :: ts) l ->
  let l1 := items (assign_suffixes t (mkSection l tr)) in
  Forall wf_item l1 /\ names_in names l1 /\ collisions_pending tr ts l1.
Proof.
  intros tr names t ts l W NI NC CP l1.
  assert (nc_items tr l) as NCl by (eapply nc_of_names; eauto).
  assert (forall n y, nth_error l1 n = Some y ->
            exists it, nth_error l n = Some it /\ y = set_sess it (numbered tr t l n it)) as PT.
  { intros n y Hy. unfold l1 in Hy. rewrite assign_nth in Hy. simpl in Hy.
    destruct (nth_error l n) as [it|]; [|discriminate]. simpl in Hy. inversion Hy. exists it. auto. }
  assert (forall n it, nth_error l n = Some it -> wf_item (set_sess it (numbered tr t l n it))) as WF.
  { intros n it E. unfold numbered. destruct (in_group tr t it && Nat.ltb 1 (group_count tr t l)).
    - apply set_sess_wf.
    - rewrite set_sess_same. rewrite Forall_forall in W. apply W. eapply nth_error_In; eauto. }
  split; [|split].
  - apply Forall_forall. intros y Hy. apply In_nth_error in Hy. destruct Hy as [n Hy].
    destruct (PT n y Hy) as [it [E ->]]. apply (WF n it E).
  - intros y Hy. apply In_nth_error in Hy. destruct Hy as [n Hy].
    destruct (PT n y Hy) as [it [E ->]]. simpl. apply NI. eapply nth_error_In; eauto.
  - intros i j a' b' Nij Ea' Eb' K.
    destruct (PT i a' Ea') as [a [Ea ->]]. destruct (PT j b' Eb') as [b [Eb ->]].
    assert (In a l) as Ia by (eapply nth_error_In; eauto).
    assert (In b l) as Ib by (eapply nth_error_In; eauto).
    assert (wf_item a) as Wa by (rewrite Forall_forall in W; auto).
    assert (wf_item b) as Wb by (rewrite Forall_forall in W; auto).
    unfold keyn in K. simpl in K. unfold numbered in K.
    destruct (Nat.ltb 1 (group_count tr t l)) eqn:C.
    + rewrite !andb_true_r in K.
      destruct (in_group tr t a) eqn:Ga; destruct (in_group tr t b) eqn:Gb.
      * (* both renumbered: equal numbers, impossible at different positions *)
        exfalso. apply cmp_norm in K. apply suffix_cmp_inj in K. destruct K as [_ K].
        assert (i < j \/ j < i)%nat as [L|L] by lia.
        -- pose proof (rank_lt tr t l i j a L Ea Ga). lia.
        -- pose proof (rank_lt tr t l j i b L Eb Gb). lia.
      * exfalso. revert K. apply (cross_distinct tr t a b _ Ga Gb Wb). intro k. apply NCl; assumption.
      * exfalso. symmetry in K. revert K. apply (cross_distinct tr t b a _ Gb Ga Wa). intro k. apply NCl; assumption.
      * destruct (CP i j a b Nij Ea Eb K) as [t0 [[T|T] [G1 G2]]]; [subst t0; congruence|].
        exists t0. rewrite !in_group_set_sess. auto.
    + rewrite !andb_false_r in K.
      destruct (CP i j a b Nij Ea Eb K) as [t0 [[T|T] [G1 G2]]].
      * subst t0. exfalso.
        assert (i < j \/ j < i)%nat as [L|L] by lia.
        -- rewrite (two_members_count tr t l i j a b L Ea Eb G1 G2) in C. discriminate.
        -- rewrite (two_members_count tr t l j i b a L Eb Ea G2 G1) in C. discriminate.
      * exists t0. rewrite !in_group_set_sess. auto.
Qed.

Lemma fold_assign_SI : forall tr names ts l,
  Forall wf_item l -> names_in names l -> no_suffix_clash tr names -> collisions_pending tr ts l ->
  let s' := fold_left (fun acc t => assign_suffixes t acc) ts (mkSection l tr) in
  SI names s' /\ transforms s' = tr.
Proof.
  intros tr names. induction ts as [|t ts IH]; intros l W NI NC CP; simpl.
  - split; [|reflexivity]. split; [|split; assumption].
    unfold I1_nodup. simpl. apply no_collision_nodup. assumption.
  - destruct (assign_step_pending tr names t ts l W NI NC CP) as [W1 [NI1 CP1]].
    specialize (IH (items (assign_suffixes t (mkSection l tr))) W1 NI1 NC CP1). simpl in IH.
    assert (assign_suffixes t (mkSection l tr) = mkSection (items (assign_suffixes t (mkSection l tr))) tr) as E.
    { pose proof (assign_transforms t (mkSection l tr)) as T. simpl in T.
      destruct (assign_suffixes t (mkSection l tr)) as [x y]. simpl in *. congruence. }
    rewrite E. exact IH.
Qed.

Lemma section_eta : forall s, s = mkSection (items s) (transforms s).
Proof. intros []. reflexivity. Qed.

(* on a section that already satisfies the invariant *)
Lemma assign_all_SI : forall names s, SI names s -> no_suffix_clash (transforms s) names ->
  SI names (assign_all s) /\ transforms (assign_all s) = transforms s.
Proof.
  intros names s [H1 [H2 H3]] NC. unfold assign_all. rewrite (section_eta s) at 2 4.
  apply fold_assign_SI; auto.
  intros i j a b Nij Ea Eb K. exfalso.
  apply I1_forms in H1. specialize (H1 i j a b Nij Ea Eb). apply cmp_false_norm in H1. auto.
Qed.

(* on a section all of whose items were just renamed (session = useful mnemonic) *)
Lemma assign_all_fresh : forall names tr l,
  (forall x, In x l -> sess x = useful x) -> names_in names l -> no_suffix_clash tr names ->
  SI names (assign_all (mkSection l tr)) /\ transforms (assign_all (mkSection l tr)) = tr.
Proof.
  intros names tr l F NI NC. unfold assign_all. simpl.
  apply fold_assign_SI; auto.
  - apply Forall_forall. intros x Hx. left. auto.
  - intros i j a b Nij Ea Eb K.
    assert (In a l) as Ia by (eapply nth_error_In; eauto).
    assert (In b l) as Ib by (eapply nth_error_In; eauto).
    exists (useful a). split; [apply in_map; assumption|]. split; [apply in_group_self|].
    unfold in_group. apply cmp_norm. unfold keyn in K. rewrite (F a Ia), (F b Ib) in K. congruence.
Qed.

(* ======================================================================================= *)
(* every operation                                                                           *)

Lemma new_curve_fresh : forall a, sess (new_curve a) = useful (new_curve a) /\ orig (new_curve a) = c_mnem a.
Proof. intro a. split; reflexivity. Qed.

Lemma insert_SI : forall names s ix a,
  SI names s -> In (c_mnem a) names -> no_suffix_clash (transforms s) names ->
  SI names (insert s ix (new_curve a)) /\ transforms (insert s ix (new_curve a)) = transforms s.
Proof.
  intros names s ix a HS Hn NC. pose proof HS as [H1 [H2 H3]]. unfold insert.
  apply (SI_insertion names s (new_curve a) (items s)); auto.
  unfold py_insert. apply insert_at_perm.
Qed.

Lemma append_SI : forall names s a,
  SI names s -> In (c_mnem a) names -> no_suffix_clash (transforms s) names ->
  SI names (append s (new_curve a)) /\ transforms (append s (new_curve a)) = transforms s.
Proof.
  intros names s a HS Hn NC. pose proof HS as [H1 [H2 H3]]. unfold append.
  apply (SI_insertion names s (new_curve a) (items s)); auto.
  apply Permutation_cons_append.
Qed.

Lemma pop_SI : forall names s z s', SI names s -> pop_curve s z = IOk s' ->
  SI names s' /\ transforms s' = transforms s.
Proof.
  intros names s z s' [H1 [H2 H3]] E. unfold pop_curve, py_del in E.
  destruct (py_index _ _) as [n|]; [|discriminate]. inversion E; subst s'. clear E.
  split; [|reflexivity]. split; [|split]; simpl.
  - unfold I1_nodup. simpl. apply nodup_remove_at. exact H1.
  - apply Forall_forall. intros y Hy. apply remove_at_In in Hy. rewrite Forall_forall in H2. auto.
  - intros y Hy. apply remove_at_In in Hy. auto.
Qed.

Lemma update_SI : forall names s z u s', SI names s -> update_at_ix s z u = IOk s' ->
  SI names s' /\ transforms s' = transforms s.
Proof.
  intros names s z u s' [H1 [H2 H3]] E. unfold update_at_ix in E.
  destruct (lookup_ix s (KInt z)) as [n|]; [|discriminate]. inversion E; subst s'. clear E.
  split; [|reflexivity]. split; [|split]; simpl.
  - unfold I1_nodup. simpl. rewrite update_at_map; [exact H1|reflexivity].
  - apply Forall_forall. intros y Hy. rewrite Forall_forall in H2.
    apply update_at_In in Hy. destruct Hy as [Hy|[b [Hb ->]]]; [auto|]. apply (H2 b Hb).
  - intros y Hy. apply update_at_In in Hy. destruct Hy as [Hy|[b [Hb ->]]]; [auto|]. apply (H3 b Hb).
Qed.

Lemma replace_SI : forall names s ix a s', SI names s -> In (c_mnem a) names ->
  no_suffix_clash (transforms s) names -> replace_curve_item s ix a = IOk s' ->
  SI names s' /\ transforms s' = transforms s.
Proof.
  intros names s ix a s' HS Hn NC E. pose proof HS as [H1 [H2 H3]]. rewrite replace_as_list in E.
  destruct (py_index _ _) as [n|] eqn:P; [|discriminate]. inversion E; subst s'. clear E.
  apply (SI_insertion names s (new_curve a) (remove_at n (items s))); auto.
  - intros y Hy. eapply remove_at_In; eauto.
  - apply nodup_remove_at. exact H1.
  - apply replace_at_perm. eapply py_index_lt; eauto.
Qed.

Lemma extend_SI : forall names k s, SI names s -> In [] names -> no_suffix_clash (transforms s) names ->
  SI names (extend s k) /\ transforms (extend s k) = transforms s.
Proof.
  intros names. induction k as [|k IH]; intros s HS Hn NC; simpl; [auto|].
  destruct (append_SI names s (mkCargs [] [] [] [] []) HS Hn NC) as [A B].
  fold blank_curve in A, B. destruct (IH (append s blank_curve) A Hn) as [C D]; [rewrite B; assumption|].
  split; [assumption|congruence].
Qed.

Lemma bind_cols_fresh : forall its nm cols,
  (List.length its <= List.length nm)%nat -> (List.length its <= List.length cols)%nat ->
  forall x, In x (bind_cols its nm cols) -> sess x = useful x /\ In (orig x) nm.
Proof.
  induction its as [|it r IH]; intros nm cols Hn Hc x Hx; simpl in Hx; [contradiction|].
  destruct nm as [|m nr]; [simpl in Hn; lia|]. destruct cols as [|c cr]; [simpl in Hc; lia|].
  destruct Hx as [Hx|Hx].
  - subst x. split; [reflexivity|left; reflexivity].
  - simpl in Hn, Hc. destruct (IH nr cr ltac:(lia) ltac:(lia) x Hx) as [A B]. split; [assumption|right; assumption].
Qed.

Lemma names_for_in : forall names s l, SI names s -> In [] names ->
  incl (match l with Some x => x | None => [] end) names ->
  forall m, In m (names_for s l) -> In m names.
Proof.
  intros names s l [_ [_ H3]] H0 Hl m Hm. unfold names_for in Hm.
  assert (In m (origs s) -> In m names) as O.
  { intro Ho. unfold origs in Ho. apply in_map_iff in Ho. destruct Ho as [it [E Hit]]. subst m. auto. }
  destruct l as [[|a r]|]; auto.
  unfold pad_names in Hm. apply in_app_or in Hm. destruct Hm as [Hm|Hm]; [apply Hl; assumption|].
  apply repeat_spec in Hm. subst m. assumption.
Qed.

Lemma set_data_SI : forall names s a l t s', SI names s -> In [] names ->
  incl (match l with Some x => x | None => [] end) names ->
  no_suffix_clash (transforms s) names -> set_data s a l t = IOk s' ->
  SI names s' /\ transforms s' = transforms s.
Proof.
  intros names s a l t s' HS H0 Hl NC E. unfold set_data in E.
  destruct a as [d|cols0].
  - destruct t; [discriminate|]. destruct d; [|discriminate]. inversion E; subst s'. apply assign_all_SI; assumption.
  - set (cols := if t then firstn (List.length (items s)) cols0 else cols0) in E.
    destruct (size_pos cols); [|inversion E; subst s'; apply assign_all_SI; assumption].
    destruct (Nat.ltb (List.length cols) (List.length (items s))) eqn:Lt; [discriminate|].
    inversion E; subst s'. clear E. apply Nat.ltb_ge in Lt.
    set (s1 := extend s (List.length cols - List.length (items s))).
    destruct (extend_SI names (List.length cols - List.length (items s)) s HS H0 NC) as [S1 T1]. fold s1 in S1, T1.
    destruct (set_data_lengths s cols l Lt) as [Ln Lc]. fold s1 in Ln, Lc.
    unfold with_items. rewrite T1. apply assign_all_fresh; [| |assumption].
    + intros x Hx. apply (bind_cols_fresh (items s1) (names_for s1 l) cols); [assumption|lia|assumption].
    + intros x Hx. apply (names_for_in names s1 l S1 H0 Hl).
      apply (bind_cols_fresh (items s1) (names_for s1 l) cols); [assumption|lia|assumption].
Qed.

Lemma step_SI : forall names s o,
  SI names s -> incl (brought s o) names -> no_suffix_clash (transforms s) names ->
  SI names (step_keep s o) /\ transforms (step_keep s o) = transforms s.
Proof.
  intros names s o HS Hn NC. unfold step_keep.
  destruct o as [a|ix a|x|ix x|mn ix|mn ix u|ix a|k v|a l t]; simpl step.
  - unfold append_curve, insert_curve. simpl. apply insert_SI; auto. apply Hn. left; reflexivity.
  - unfold insert_curve. simpl. apply insert_SI; auto. apply Hn. left; reflexivity.
  - destruct x as [a|]; simpl; [|auto]. apply insert_SI; auto. apply Hn. left; reflexivity.
  - destruct x as [a|]; simpl; [|auto]. apply insert_SI; auto. apply Hn. left; reflexivity.
  - unfold delete_curve. destruct (resolve_addr (keys s) mn ix) as [z|e]; [|auto].
    destruct (pop_curve s z) as [s'|e] eqn:E; [|auto]. eapply pop_SI; eauto.
  - unfold update_curve. destruct (resolve_addr (keys s) mn ix) as [z|e]; [|auto].
    destruct (update_at_ix s z u) as [s'|e] eqn:E; [|auto]. eapply update_SI; eauto.
  - destruct (replace_curve_item s ix a) as [s'|e] eqn:E; [|auto].
    eapply replace_SI; eauto. apply Hn. left; reflexivity.
  - destruct v as [d|a]; simpl.
    + simpl in Hn. destruct (key_index (keys s) k) as [n|] eqn:K.
      * unfold update_curve. simpl. rewrite K.
        destruct (update_at_ix s (Z.of_nat n) _) as [s'|e] eqn:E; [|auto]. eapply update_SI; eauto.
      * unfold append_curve, insert_curve. simpl.
        apply (insert_SI names s (len_z s) (mkCargs k [] [] [] d)); auto. apply Hn. left; reflexivity.
    + destruct (negb (str_eqb k (useful_of (c_mnem a)))); [auto|].
      destruct (key_index (keys s) k) as [n|].
      * destruct (replace_curve_item s (Z.of_nat n) a) as [s'|e] eqn:E; [|auto].
        eapply replace_SI; eauto. apply Hn. left; reflexivity.
      * simpl. apply insert_SI; auto. apply Hn. left; reflexivity.
  - destruct (set_data s a l t) as [s'|e] eqn:E; [|auto].
    eapply set_data_SI; eauto.
    + apply Hn. left; reflexivity.
    + intros m Hm. apply Hn. right. assumption.
Qed.

Lemma reachable_SI : forall names ops s,
  SI names s -> incl (brought_all s ops) names -> no_suffix_clash (transforms s) names ->
  SI names (run s ops) /\ transforms (run s ops) = transforms s.
Proof.
  intros names. induction ops as [|o ops IH]; intros s HS Hn NC; unfold run in *; simpl; [auto|].
  simpl in Hn. destruct (step_SI names s o HS) as [A B]; auto.
  - intros x Hx. apply Hn. apply in_or_app. left. assumption.
  - destruct (IH (step_keep s o)) as [C D]; auto.
    + intros x Hx. apply Hn. apply in_or_app. right. assumption.
    + rewrite B. assumption.
    + split; [assumption|congruence].
Qed.

Lemma inv_step : forall s o,
  Inv s -> no_suffix_clash (transforms s) (origs s ++ brought s o) -> Inv (step_keep s o).
Proof.
  intros s o HI NC. apply (SI_Inv (origs s ++ brought s o)).
  apply step_SI; auto.
  - destruct (Inv_SI s HI) as [A [B C]]. split; [assumption|split; [assumption|]].
    intros y Hy. apply in_or_app. left. auto.
  - intros x Hx. apply in_or_app. right. assumption.
Qed.

Lemma inv_reachable_from : forall s ops,
  Inv s -> no_suffix_clash (transforms s) (origs s ++ brought_all s ops) -> Inv (run s ops).
Proof.
  intros s ops HI NC. apply (SI_Inv (origs s ++ brought_all s ops)).
  apply reachable_SI; auto.
  - destruct (Inv_SI s HI) as [A [B C]]. split; [assumption|split; [assumption|]].
    intros y Hy. apply in_or_app. left. auto.
  - intros x Hx. apply in_or_app. right. assumption.
Qed.

(* the state-independent upper bound op_names *)
Lemma brought_incl : forall s o, incl (brought s o) (op_names o).
Proof.
  intros s o. destruct o; try apply incl_refl. destruct v; [|apply incl_refl].
  simpl. destruct (key_index (keys s) k); [intros x []|apply incl_refl].
Qed.
Lemma brought_all_incl : forall ops s, incl (brought_all s ops) (flat_map op_names ops).
Proof.
  induction ops as [|o ops IH]; intro s; simpl; [apply incl_refl|].
  apply incl_app; [apply incl_appl; apply brought_incl|apply incl_appr; apply IH].
Qed.
Lemma no_clash_incl : forall tr a b, incl a b -> no_suffix_clash tr b -> no_suffix_clash tr a.
Proof. intros tr a b H NC x y k Hx Hy. apply NC; apply H; assumption. Qed.
Lemma inv_reachable_names : forall s ops,
  Inv s -> no_suffix_clash (transforms s) (origs s ++ flat_map op_names ops) -> Inv (run s ops).
Proof.
  intros s ops HI NC. apply inv_reachable_from; [assumption|].
  eapply no_clash_incl; [|exact NC]. apply incl_app; [apply incl_appl; apply incl_refl|].
  apply incl_appr. apply brought_all_incl.
Qed.

Lemma inv_fresh : Inv fresh_las.
Proof. apply inv_empty. Qed.

(* a LASFile as read: the curves are appended in file order *)
Lemma inv_read : forall tr l, no_suffix_clash tr (List.map c_mnem l) -> Inv (read_curves tr l).
Proof.
  intros tr l NC. apply (SI_Inv (List.map c_mnem l)).
  assert (forall l' s, SI (List.map c_mnem l) s -> transforms s = tr -> incl (List.map c_mnem l') (List.map c_mnem l) ->
          SI (List.map c_mnem l) (fold_left (fun s a => append s (new_curve a)) l' s)) as G.
  { induction l' as [|a l' IH]; intros s HS T Hi; simpl; [assumption|].
    destruct (append_SI (List.map c_mnem l) s a HS) as [A B].
    - apply Hi. left. reflexivity.
    - rewrite T. assumption.
    - apply IH; [assumption|congruence|]. intros x Hx. apply Hi. right. assumption. }
  apply G; [apply SI_empty|reflexivity|apply incl_refl].
Qed.

(* ======================================================================================= *)
(* composed: after any history on a fresh LASFile, key n finds array n of the list model     *)

Lemma reachable_lookup : forall s ops n k,
  Inv s -> no_suffix_clash (transforms s) (origs s ++ brought_all s ops) ->
  nth_error (keys (run s ops)) n = Some k ->
  las_getitem (run s ops) (KStr k) = spec_int (fold_left spec_keep (resolved s ops) (abs s)) (Z.of_nat n)
  /\ key_index (keys (run s ops)) k = Some n.
Proof.
  intros s ops n k HI NC E. destruct (inv_reachable_from s ops HI NC) as [I1' _].
  split; [|apply key_index_own; assumption].
  rewrite <- refinement. apply obs_key; assumption.
Qed.
