(* Proofs.ItemsBindProofs — binding of the data columns to the curves (Model/Read.v
   bind_columns, data_for_curves): how many curves there are after a read, that the declared
   ones keep order and metadata, that surplus columns become unnamed curves appended after
   them, and that every curve gets a column of the common length (C07). *)
From Coq Require Import List Arith NArith Bool Lia.
Import ListNotations.
Require Import PyStr Regex NumLit Num SectionParse DataRead Read.
Open Scope list_scope.

(* everything of a header item except the session mnemonic (which the duplicate-suffix rule
   may rewrite) *)
Definition meta (it : hitem) : list N * list N * hval * list N :=
  (i_orig it, i_unit it, i_value it, i_descr it).

Definition unnamed_item : hitem := new_item [] [] (VStr []) [].

(* ---- the duplicate-suffix rule touches session mnemonics only -------------------------- *)
Lemma renumber_length tr test : forall l k, List.length (renumber tr test k l) = List.length l.
Proof.
  induction l as [|it l IH]; intros k; cbn [renumber]; [reflexivity|].
  destruct (mn_compare tr (useful (i_orig it)) test); cbn [List.length]; rewrite IH; reflexivity.
Qed.

Lemma renumber_meta tr test : forall l k, map meta (renumber tr test k l) = map meta l.
Proof.
  induction l as [|it l IH]; intros k; cbn [renumber]; [reflexivity|].
  destruct (mn_compare tr (useful (i_orig it)) test); cbn [map]; rewrite IH; reflexivity.
Qed.

Lemma assign_suffixes_length tr test l : List.length (assign_suffixes tr test l) = List.length l.
Proof. unfold assign_suffixes. destruct (Nat.ltb _ _); [apply renumber_length|reflexivity]. Qed.

Lemma assign_suffixes_meta tr test l : map meta (assign_suffixes tr test l) = map meta l.
Proof. unfold assign_suffixes. destruct (Nat.ltb _ _); [apply renumber_meta|reflexivity]. Qed.

Lemma sect_append_length tr l it : List.length (sect_append tr l it) = S (List.length l).
Proof. unfold sect_append. rewrite assign_suffixes_length, app_length. cbn. lia. Qed.

Lemma sect_append_meta tr l it : map meta (sect_append tr l it) = map meta l ++ [meta it].
Proof. unfold sect_append. rewrite assign_suffixes_meta, map_app. reflexivity. Qed.

(* ---- bind_columns ------------------------------------------------------------------------- *)
Lemma bind_columns_length_gen tr : forall cols curves idx,
  (idx <= List.length curves)%nat ->
  List.length (bind_columns tr curves idx cols) = Nat.max (List.length curves) (idx + List.length cols).
Proof.
  induction cols as [|c cols IH]; intros curves idx Hle; cbn [bind_columns List.length].
  - lia.
  - destruct (Nat.ltb idx (List.length curves)) eqn:Hlt.
    + apply Nat.ltb_lt in Hlt. rewrite IH by lia. lia.
    + apply Nat.ltb_ge in Hlt. rewrite IH; rewrite sect_append_length; lia.
Qed.

Lemma bind_columns_length tr curves cols :
  List.length (bind_columns tr curves 0 cols) = Nat.max (List.length curves) (List.length cols).
Proof. rewrite bind_columns_length_gen by lia. reflexivity. Qed.

Lemma repeat_snoc {A} (x : A) n : repeat x n ++ [x] = repeat x (S n).
Proof. induction n as [|n IH]; cbn [repeat app]; [reflexivity|]. rewrite IH. reflexivity. Qed.

Lemma bind_columns_meta_gen tr : forall cols curves idx,
  (idx <= List.length curves)%nat ->
  map meta (bind_columns tr curves idx cols) =
  map meta curves ++ repeat (meta unnamed_item) (idx + List.length cols - List.length curves).
Proof.
  induction cols as [|c cols IH]; intros curves idx Hle; cbn [bind_columns List.length].
  - replace (idx + 0 - List.length curves)%nat with 0%nat by lia. cbn [repeat]. rewrite app_nil_r. reflexivity.
  - destruct (Nat.ltb idx (List.length curves)) eqn:Hlt.
    + apply Nat.ltb_lt in Hlt. rewrite IH by lia. f_equal. f_equal. lia.
    + apply Nat.ltb_ge in Hlt. rewrite IH by (rewrite sect_append_length; lia).
      rewrite sect_append_meta, sect_append_length, <- app_assoc. f_equal.
      fold unnamed_item.
      replace (idx + S (List.length cols) - List.length curves)%nat
        with (S (S idx + List.length cols - S (List.length curves)))%nat by lia.
      cbn [app repeat]. reflexivity.
Qed.

Lemma bind_columns_meta tr curves cols :
  map meta (bind_columns tr curves 0 cols) =
  map meta curves ++ repeat (meta unnamed_item) (List.length cols - List.length curves).
Proof. rewrite bind_columns_meta_gen by lia. reflexivity. Qed.

(* curve j of the result, j below the number of declared curves, is declared curve j up to
   its session mnemonic; curve j from there up to the number of columns is an unnamed one *)
Lemma bind_columns_declared tr curves cols j it :
  nth_error curves j = Some it ->
  exists it', nth_error (bind_columns tr curves 0 cols) j = Some it' /\ meta it' = meta it.
Proof.
  intros Hj.
  assert (H : nth_error (map meta (bind_columns tr curves 0 cols)) j = Some (meta it)).
  { rewrite bind_columns_meta, nth_error_app1.
    - rewrite nth_error_map, Hj. reflexivity.
    - rewrite map_length. apply nth_error_Some. congruence. }
  rewrite nth_error_map in H.
  destruct (nth_error (bind_columns tr curves 0 cols) j) as [it'|]; [|discriminate].
  exists it'. split; [reflexivity|]. cbn in H. congruence.
Qed.

Lemma nth_error_repeat {A} (x : A) n j : (j < n)%nat -> nth_error (repeat x n) j = Some x.
Proof.
  revert j. induction n as [|n IH]; intros j Hj; [lia|].
  destruct j; cbn [repeat nth_error]; [reflexivity|]. apply IH. lia.
Qed.

Lemma bind_columns_new_unnamed tr curves cols j :
  (List.length curves <= j < List.length cols)%nat ->
  exists it', nth_error (bind_columns tr curves 0 cols) j = Some it' /\
              i_orig it' = [] /\ i_unit it' = [] /\ i_value it' = VStr [] /\ i_descr it' = [].
Proof.
  intros Hj.
  assert (H : nth_error (map meta (bind_columns tr curves 0 cols)) j = Some (meta unnamed_item)).
  { rewrite bind_columns_meta, nth_error_app2 by (rewrite map_length; lia).
    rewrite map_length. apply nth_error_repeat. lia. }
  rewrite nth_error_map in H.
  destruct (nth_error (bind_columns tr curves 0 cols) j) as [it'|]; [|discriminate].
  exists it'. split; [reflexivity|]. cbn in H. injection H as H1 H2 H3 H4. auto.
Qed.

(* ---- data_for_curves ------------------------------------------------------------------------ *)
Lemma data_for_curves_length n cols :
  (List.length cols <= n)%nat -> List.length (data_for_curves n cols) = n.
Proof. intros H. unfold data_for_curves. rewrite app_length, repeat_length. lia. Qed.

Lemma data_for_curves_own n cols j :
  (j < List.length cols)%nat -> nth j (data_for_curves n cols) [] = nth j cols [].
Proof. intros H. unfold data_for_curves. apply app_nth1. exact H. Qed.

Lemma nth_repeat_lt {A} (x d : A) n j : (j < n)%nat -> nth j (repeat x n) d = x.
Proof.
  revert j. induction n as [|n IH]; intros j Hj; [lia|].
  destruct j; cbn [repeat nth]; [reflexivity|]. apply IH. lia.
Qed.

Lemma data_for_curves_nan n cols j :
  (List.length cols <= j < n)%nat ->
  nth j (data_for_curves n cols) [] = nan_column (curve_length cols).
Proof.
  intros H. unfold data_for_curves. rewrite app_nth2 by lia. apply nth_repeat_lt. lia.
Qed.

Lemma curve_length_common r cols :
  cols <> [] -> Forall (fun c : list cell => List.length c = r) cols -> curve_length cols = r.
Proof.
  intros Hne Hall. destruct cols as [|c cols]; [congruence|]. cbn [curve_length].
  inversion Hall; assumption.
Qed.

Lemma data_for_curves_rect n cols :
  Forall (fun c : list cell => List.length c = curve_length cols) cols ->
  Forall (fun c : list cell => List.length c = curve_length cols) (data_for_curves n cols).
Proof.
  intros Hall. unfold data_for_curves. apply Forall_app. split; [exact Hall|].
  apply Forall_forall. intros c Hc. apply repeat_spec in Hc. subst c.
  unfold nan_column. apply repeat_length.
Qed.

Lemma data_for_curves_rect_r r n cols :
  cols <> [] -> Forall (fun c : list cell => List.length c = r) cols ->
  Forall (fun c : list cell => List.length c = r) (data_for_curves n cols).
Proof.
  intros Hne Hall. pose proof (curve_length_common r cols Hne Hall) as E.
  rewrite <- E in Hall |- *. apply data_for_curves_rect. exact Hall.
Qed.
