(* Proofs.HeaderPadding — the amount of blanks / tabs between the FIELDS of a header line is
   C04's statement (parse_all is padding-independent); here it is turned into C09's shape
   (audit D5 b):

     header_padding_line   two layouts of the same four fields under different paddings
                           parse to the same hline (corollary of C04's parse_all);
     hline_alike k         two physical header lines the section loop cannot tell apart:
                           equal after strip, or both are item lines on which read_header_line
                           returns the same fields;
     parse_section_hlines  a header section whose lines are pairwise hline_alike parses to the
                           same items -- the premise `forall v c ig, parse_section .. b =
                           parse_section .. b'` of view_equiv / block_equiv / rel_block, so that
                           BlocksCongr.ps_blocks composes header re-spacing with everything else;
     header_padding_alike  the instance: both stripped lines are layouts of the same fields. *)
From Coq Require Import List Arith NArith Bool String.
Import ListNotations.
Require Import PyStr Regex Regexes HeaderLine HeaderLineSpec HeaderLineProofs NumLit Num Tables SectionParse.
Require Import StripFacts.
Open Scope string_scope.
Open Scope list_scope.
Open Scope N_scope.

Definition kc (k : skind) : bool := match k with KCurves => true | _ => false end.
Definition kp (k : skind) : bool := match k with KParameter => true | _ => false end.

Theorem header_padding_line : forall (p0 p1 p2 p3 p4 p5 q0 q1 q2 q3 q4 q5 mn u v d : list N) (ic ip : bool),
  padding6 p0 p1 p2 p3 p4 p5 = true -> padding6 q0 q1 q2 q3 q4 q5 = true ->
  conf_mnem mn = true -> conf_unit u = true -> conf_text v = true -> conf_text d = true ->
  value_set_off p2 v = true -> value_set_off q2 v = true ->
  sect_ok ic ip (layout p0 mn p1 u p2 v p3 p4 d p5) u v p3 p4 d = true ->
  sect_ok ic ip (layout q0 mn q1 u q2 v q3 q4 d q5) u v q3 q4 d = true ->
  read_header_line (layout p0 mn p1 u p2 v p3 p4 d p5) ic ip =
  read_header_line (layout q0 mn q1 u q2 v q3 q4 d q5) ic ip /\
  read_header_line (layout p0 mn p1 u p2 v p3 p4 d p5) ic ip = Some (mkhl mn u v d).
Proof.
  intros. rewrite !parse_all by assumption. split; reflexivity.
Qed.

(* an item line: not blank, first character neither '#' nor '~' *)
Definition item_line (x : list N) : Prop :=
  match strip x with
  | [] => False
  | ch :: _ => in_str ch [ch_hash] = false /\ (ch =? ch_tilde) = false
  end.

Definition hline_alike (k : skind) (x y : list N) : Prop :=
  streq x y \/
  (item_line x /\ item_line y /\
   exists h, read_header_line (strip x) (kc k) (kp k) = Some h /\
             read_header_line (strip y) (kc k) (kp k) = Some h).

Lemma parse_line_alike v k c x y h :
  read_header_line x (kc k) (kp k) = Some h -> read_header_line y (kc k) (kp k) = Some h ->
  parse_line v k c x = parse_line v k c y.
Proof. unfold parse_line, kc, kp. intros -> ->. reflexivity. Qed.

Theorem parse_body_hlines v k c ig tr : forall b b', Forall2 (hline_alike k) b b' ->
  forall acc, parse_body v k c ig [ch_hash] tr b acc = parse_body v k c ig [ch_hash] tr b' acc.
Proof.
  induction 1 as [|x y l l' Hxy H IH]; intros acc; [reflexivity|].
  destruct Hxy as [E|(Ix & Iy & h & Hx & Hy)].
  - cbn [parse_body]. unfold streq in E. rewrite E.
    destruct (strip y) as [|ch r]; [apply IH|].
    destruct (in_str ch [ch_hash]); [apply IH|]. destruct (ch =? ch_tilde); [reflexivity|].
    destruct (parse_line v k c (ch :: r)); [apply IH|]. destruct ig; [apply IH|reflexivity].
  - cbn [parse_body]. unfold item_line in Ix, Iy.
    rewrite (parse_line_alike v k c (strip x) (strip y) h Hx Hy).
    assert (Hp : parse_line v k c (strip y) <> None).
    { unfold parse_line. fold (kc k). fold (kp k). rewrite Hy. discriminate. }
    destruct (strip x) as [|cx rx]; [contradiction|]. destruct Ix as (Hx1 & Hx2). rewrite Hx1, Hx2.
    destruct (strip y) as [|cy ry]; [contradiction|]. destruct Iy as (Hy1 & Hy2). rewrite Hy1, Hy2.
    destruct (parse_line v k c (cy :: ry)); [apply IH|congruence].
Qed.

Theorem parse_section_hlines t b b' : Forall2 (hline_alike (kind_of_title (strip t))) b b' ->
  forall v c ig, parse_section v t c ig [ch_hash] b = parse_section v t c ig [ch_hash] b'.
Proof. intros H v c ig. unfold parse_section. apply parse_body_hlines. exact H. Qed.

(* the instance: both lines are, after strip, layouts of the same four fields *)
Theorem header_padding_alike : forall k x y (p1 p2 p3 p4 q1 q2 q3 q4 mn u v d : list N),
  strip x = layout [] mn p1 u p2 v p3 p4 d [] -> strip y = layout [] mn q1 u q2 v q3 q4 d [] ->
  padding6 [] p1 p2 p3 p4 [] = true -> padding6 [] q1 q2 q3 q4 [] = true ->
  conf_mnem mn = true -> conf_unit u = true -> conf_text v = true -> conf_text d = true ->
  value_set_off p2 v = true -> value_set_off q2 v = true ->
  sect_ok (kc k) (kp k) (layout [] mn p1 u p2 v p3 p4 d []) u v p3 p4 d = true ->
  sect_ok (kc k) (kp k) (layout [] mn q1 u q2 v q3 q4 d []) u v q3 q4 d = true ->
  hd 0 mn <> ch_hash -> hd 0 mn <> ch_tilde ->
  hline_alike k x y.
Proof.
  intros k x y p1 p2 p3 p4 q1 q2 q3 q4 mn u v d Ex Ey Hp Hq Hm Hu Hv Hd Sp Sq Kp Kq Nh Nt. right.
  assert (Hmn : exists c r, mn = c :: r).
  { destruct mn as [|c r]; [discriminate Hm|eauto]. }
  destruct Hmn as (c & r & ->). cbn [hd] in Nh, Nt.
  assert (Hc1 : in_str c [ch_hash] = false).
  { unfold in_str. cbn [existsb]. rewrite orb_false_r. destruct (N.eqb_spec c ch_hash); [congruence|reflexivity]. }
  assert (Hc2 : (c =? ch_tilde) = false) by (destruct (N.eqb_spec c ch_tilde); [congruence|reflexivity]).
  split; [|split].
  - unfold item_line. rewrite Ex. unfold layout. cbn [app]. split; assumption.
  - unfold item_line. rewrite Ey. unfold layout. cbn [app]. split; assumption.
  - exists (mkhl (c :: r) u v d). rewrite Ex, Ey. split; apply parse_all; assumption.
Qed.
