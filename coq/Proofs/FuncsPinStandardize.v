(* Proofs.FuncsPinStandardize — Model/Writer.standardize IS writer.standardize_value
   (Gen/Funcs.v).  Restated as C16_standardize_current. *)
From Coq Require Import List Arith NArith ZArith Bool Lia ZifyBool ZifyN ZifyNat String.
Import ListNotations.
Require Import PyStr Funcs Num Writer.
Open Scope list_scope.
Open Scope N_scope.

(* ---------- writer.standardize_value ---------------------------------------------------------- *)
(* the observations of a header value the Python makes, as the model reads them *)
Definition hval_ops (fstr : list N -> list N) (fzero : list N -> bool) : dyn_ops hval :=
  mk_dyn_ops hval
    (fun v => negb (v_falsy fzero v))                            (* bool(value) *)
    (v_is_zero fzero)                                             (* value == 0 *)
    (fun v => match v with VNone => true | _ => false end)        (* value is None *)
    VInt VStr
    (vstr fstr).                                                  (* str(value), "%s" % value *)

Theorem standardize_pin : forall fstr fzero value unit,
  standardize fzero value unit = py_standardize_value (hval_ops fstr fzero) value unit.
Proof.
  intros fstr fzero v u. unfold standardize, py_standardize_value, hval_ops, pyo_truthy_str.
  cbn [dyn_truthy dyn_is_zero dyn_is_none dyn_of_int dyn_of_str].
  destruct u as [|c u]; destruct v as [z|l|s|]; cbn [v_falsy v_is_zero andb negb]; try reflexivity.
  - destruct (z =? 0)%Z; reflexivity.
  - destruct (fzero l); reflexivity.
  - destruct s; reflexivity.
Qed.
