(* Proofs.SecondCycleContent — C11, second cycle, at the level of CONTENT, outside the domain where
   the text is a fixed point.  The typical case: the first write refreshed STRT/STOP/STEP and
   printed them with the index format ("1670.00000"); the object read back holds the numbers,
   the second write prints them through str() ("1670.0"): the second text differs from the
   first.  Here only mnemonic and unit of every item are asked to survive one read (wstable_item);
   the value texts may change.  Then the second write succeeds, prints the SAME data lines, and
   reading its text gives an object l2 whose data and ~Other text are those of l and whose header
   items are  E (E a)  where the items of l are  E a  (E = read back and normalise, a the items of
   the first written form).  Whether E (E a) and E a are the same up to numeric equality of values
   is a decidable check on the items (content_okb; numeq is the oracle float(x) == float(y)).
   The C01/C03 round trip of the SECOND text is used as it stands: its domain hypothesis on the
   second written form is a premise (file_hypsb hs2), not proved from the first. *)
From Coq Require Import List Arith NArith ZArith Bool Lia String.
Import ListNotations.
Require Import PyStr Regex NumLit Num HeaderLine Tables SectionParse Sections DataRead Read TextWrap Writer.
Require Import ItemsBindProofs JunkProofs JunkSteering WriteStateProofs WriteIdemProofs WriteHeaderProofs WriteOptionsProofs
  WriteReadProofs WriteDataProofs WriteDataTextProofs FileRoundTripText FileRoundTripFind FileRoundTripHeader
  FileRoundTripData FileRoundTrip FileRoundTripMain FileRoundTripCheck
  SecondCycleRead SecondCycleItems SecondCycleHeader SecondCycleData SecondCycle.
Open Scope string_scope.
Open Scope list_scope.
Open Scope N_scope.

(* ---- the name class of a key selects by original mnemonic only ---------------------------------- *)
Lemma in_class_orig c key x a : i_orig x = i_orig a -> in_class c key x = in_class c key a.
Proof. unfold in_class. intros ->. reflexivity. Qed.

Lemma filter_nil_by_orig c key : forall X A : list hitem, map i_orig X = map i_orig A ->
  filter (in_class c key) A = [] -> filter (in_class c key) X = [].
Proof.
  induction X as [|x X IH]; destruct A as [|a A]; cbn [map]; intros H Hf; try discriminate; [reflexivity|].
  assert (H1 : i_orig x = i_orig a) by (exact (f_equal (hd []) H)).
  assert (H2 : map i_orig X = map i_orig A) by (exact (f_equal (@tl _) H)).
  cbn [filter] in *. rewrite (in_class_orig c key x a H1). destruct (in_class c key a); [discriminate|].
  apply (IH A H2 Hf).
Qed.

Lemma filter_by_orig c key : forall X A : list hitem, map i_orig X = map i_orig A ->
  forall a, filter (in_class c key) A = [a] ->
  exists x p, filter (in_class c key) X = [x] /\ nth_error X p = Some x /\ nth_error A p = Some a.
Proof.
  induction X as [|x X IH]; destruct A as [|a0 A]; cbn [map]; intros H a Hf; try discriminate.
  assert (H1 : i_orig x = i_orig a0) by (exact (f_equal (hd []) H)).
  assert (H2 : map i_orig X = map i_orig A) by (exact (f_equal (@tl _) H)).
  cbn [filter] in *. rewrite (in_class_orig c key x a0 H1). destruct (in_class c key a0).
  - assert (Ea : a0 = a) by (injection Hf; intros; assumption).
    assert (Et : filter (in_class c key) A = []) by (injection Hf; intros; assumption).
    subst a0. exists x, 0%nat. rewrite (filter_nil_by_orig c key X A H2 Et). repeat split.
  - destruct (IH A H2 a Hf) as (x' & p & F & N1 & N2). exists x', (S p). repeat split; assumption.
Qed.

Section WithOracles.
Variable fmtv : list N -> list N -> list N.
Variable fmt_diff : list N -> list N -> list N -> list N.
Variable fmt_pi : list N -> list N.
Variable fstr : list N -> list N.
Variable fzero : list N -> bool.
Variable numeq : list N -> list N -> bool.
Variable fhex : list N -> option (list N).

Notation write := (write fmtv fmt_diff fmt_pi fstr fzero numeq).
Notation read := (read fhex fstr numeq).

(* one read, then the writer's normalisation; twice *)
Definition E1 (ro : ropts) (k : skind) (a : hitem) : hitem := expected_item fstr k (o_mcase ro) a.
Definition E2 (ro : ropts) (k : skind) (std : bool) (a : hitem) : hitem :=
  expected_item fstr k (o_mcase ro) (post fzero std (expected_item fstr k (o_mcase ro) a)).

Lemma E2_section ro k std : forall A B,
  map meta B = map (fun a => meta (E1 ro k a)) A ->
  map (fun y => meta (expected_item fstr k (o_mcase ro) (post fzero std y))) B = map (fun a => meta (E2 ro k std a)) A.
Proof.
  induction A as [|a A IH]; destruct B as [|y B]; cbn [map]; intros H; try discriminate; [reflexivity|].
  assert (H1 : meta y = meta (E1 ro k a)) by (exact (f_equal (hd (meta y)) H)).
  assert (H2 : map meta B = map (fun a => meta (E1 ro k a)) A) by (exact (f_equal (@tl _) H)).
  rewrite (IH B H2). f_equal. unfold E2. f_equal.
  apply (expected_pm fstr ro). apply (post_meta fstr fzero std). exact H1.
Qed.

Lemma map_expected_pm ro k : forall X Y, map (pm fstr) X = map (pm fstr) Y ->
  map (fun y => meta (expected_item fstr k (o_mcase ro) y)) X = map (fun y => meta (expected_item fstr k (o_mcase ro) y)) Y.
Proof.
  induction X as [|x X IH]; destruct Y as [|y Y]; cbn [map]; intros H; try discriminate; [reflexivity|].
  assert (H1 : pm fstr x = pm fstr y) by (exact (f_equal (hd (pm fstr x)) H)).
  assert (H2 : map (pm fstr) X = map (pm fstr) Y) by (exact (f_equal (@tl _) H)).
  rewrite (IH Y H2), (expected_pm fstr ro k x y H1). reflexivity.
Qed.

(* THE DOMAIN of the content-level second cycle, on the first written form hs: as cycle_hypsb
   (Proofs/SecondCycle.v) but with "mnemonic and unit survive one read" in place of full stability
   of the items — except for the NULL item, whose text must be stable (it is printed into the data) *)
Definition cycle_whypsb (ro : ropts) (o : wopts) (hs : hdr_sections) (nt : list N) : bool :=
  let c := o_mcase ro in
  let AV := hs_vers_items hs in
  let AW := s_items (l_well (hs_las hs)) in
  let AC := s_items (l_curves (hs_las hs)) in
  let T := tok_matrix fmtv o nt (las_rows (hs_las hs)) in
  forallb (wstable_itemb fstr ro KVersion) AV && forallb (wstable_itemb fstr ro KWell) AW &&
  forallb (wstable_itemb fstr ro KCurves) AC &&
  match uniq c k_wrap AV with
  | Some wit => match wo_wrap o with
                | Some b => hitem_eqb (expected_item fstr KVersion c wit) (wrap_item b)
                | None => true
                end
  | None => false
  end &&
  match uniq c k_strt AW, uniq c k_stop AW, uniq c k_step AW, AC with
  | Some sit, Some pit, Some eit, c0 :: _ =>
      str_eqb (i_unit sit) (i_unit c0) && str_eqb (i_unit pit) (i_unit c0) && str_eqb (i_unit eit) (i_unit c0) &&
      stop_agreesb fmtv fstr numeq fhex ro (col_fmt o 0%nat) pit T
  | _, _, _, _ => false
  end &&
  match uniq c k_null AW with
  | Some nit => stable_itemb fstr fzero ro KWell true nit && str_eqb (vstr fstr (i_value nit)) nt
  | None => false
  end &&
  index_reflb numeq fhex T && back_okb fmtv fhex numeq ro (pn_of fstr ro hs) o nt T &&
  str_eqb (other_read (l_other (hs_las hs))) (l_other (hs_las hs)) &&
  (negb (wo_mnemonics_header o) || strs_eqb (map i_sess (reb fstr ro KCurves AC)) (map i_sess AC)).

Lemma forallb_wstable ro k items :
  forallb (wstable_itemb fstr ro k) items = true -> Forall (wstable_item fstr ro k) items.
Proof. apply forallb_Forall. apply wstable_itemb_ok. Qed.

Theorem second_cycle_content ro o m text m' hs dl rts nt l :
  write o m = WOk text m' ->
  write_sections fmtv fmt_diff fstr fzero numeq (wo_version o) (wo_wrap o) (col_fmt o 0%nat) m = Some hs ->
  dsh_of fmtv fmt_pi fstr o hs = Some dl ->
  las_null_text fstr (hs_las hs) = Some nt ->
  opt_all (map (row_text fmtv fmt_pi o (Some nt) 0%nat) (las_rows (hs_las hs))) = Some rts ->
  file_hypsb fmtv fmt_pi fstr fhex ro o hs nt = true -> o_ignore_data ro = false ->
  cycle_whypsb ro o hs nt = true ->
  read ro text = ROk l ->
  (forall hs2, write_sections fmtv fmt_diff fstr fzero numeq (wo_version o) (wo_wrap o) (col_fmt o 0%nat)
                 (mkmlas l (reread_index l)) = Some hs2 ->
               file_hypsb fmtv fmt_pi fstr fhex ro o hs2 nt = true) ->
  exists text2 l2,
    write o (mkmlas l (reread_index l)) = WOk text2 (mkmlas (norm_las fzero l) (reread_index l)) /\
    read ro text2 = ROk l2 /\
    map meta (s_items (l_version l2)) = map (fun a => meta (E2 ro KVersion false a)) (hs_vers_items hs) /\
    map meta (s_items (l_well l2)) = map (fun a => meta (E2 ro KWell true a)) (s_items (l_well (hs_las hs))) /\
    map meta (s_items (l_curves l2)) = map (fun a => meta (E2 ro KCurves false a)) (s_items (l_curves (hs_las hs))) /\
    map meta (s_items (l_params l2)) = map (fun a => meta (E2 ro KParameter true a)) (s_items (l_params (hs_las hs))) /\
    l_data l2 = l_data l /\ l_other l2 = l_other l /\ l_custom l2 = [].
Proof.
  intros Hw Hs Hdl Hnt Hrts Hfile Hig Hcyc Hread0 Hfile2.
  destruct (read_written_file_checked fmtv fmt_diff fmt_pi fstr fzero numeq fhex ro o m text m' hs dl rts nt
              Hw Hs Hdl Hnt Hrts Hfile Hig) as (l' & pn & Hread & Hrb & Hnull & Hdata).
  rewrite Hread0 in Hread. injection Hread as <-.
  (* the domain, piece by piece *)
  unfold cycle_whypsb in Hcyc. cbv zeta in Hcyc.
  repeat (apply andb_true_iff in Hcyc as [Hcyc ?]).
  match goal with K : forallb (wstable_itemb _ _ KVersion) _ = true |- _ => apply forallb_wstable in K; rename K into WV end.
  match goal with K : forallb (wstable_itemb _ _ KWell) _ = true |- _ => apply forallb_wstable in K; rename K into WW end.
  match goal with K : forallb (wstable_itemb _ _ KCurves) _ = true |- _ => apply forallb_wstable in K; rename K into WC end.
  match goal with K : match uniq _ k_wrap _ with _ => _ end = true |- _ => rename K into HW end.
  match goal with K : match uniq _ k_strt _ with _ => _ end = true |- _ => rename K into HSSS end.
  match goal with K : match uniq _ k_null _ with _ => _ end = true |- _ => rename K into HN end.
  match goal with K : index_reflb _ _ _ = true |- _ => rename K into Hrefl end.
  match goal with K : back_okb _ _ _ _ _ _ _ _ = true |- _ => rename K into Hback end.
  match goal with K : str_eqb (other_read _) _ = true |- _ => apply ws_str_eqb_eq in K; rename K into Hoth end.
  match goal with K : (negb _ || _) = true |- _ => rename K into Hsess end.
  destruct (uniq (o_mcase ro) k_wrap (hs_vers_items hs)) as [wit|] eqn:EW; [|discriminate]. apply uniq_some in EW.
  destruct (uniq (o_mcase ro) k_strt (s_items (l_well (hs_las hs)))) as [sit|] eqn:ES; [|discriminate]. apply uniq_some in ES.
  destruct (uniq (o_mcase ro) k_stop (s_items (l_well (hs_las hs)))) as [pit|] eqn:EP; [|discriminate]. apply uniq_some in EP.
  destruct (uniq (o_mcase ro) k_step (s_items (l_well (hs_las hs)))) as [eit|] eqn:EE; [|discriminate]. apply uniq_some in EE.
  destruct (s_items (l_curves (hs_las hs))) as [|c0 crest] eqn:EC; [discriminate|]. rewrite <- EC in *.
  repeat (apply andb_true_iff in HSSS as [HSSS ?]).
  match goal with K : stop_agreesb _ _ _ _ _ _ _ _ = true |- _ => rename K into Hstop end.
  repeat match goal with K : str_eqb (i_unit _) (i_unit c0) = true |- _ => apply ws_str_eqb_eq in K end.
  assert (Hpn : pn = pn_of fstr ro hs).
  { unfold pn_of. unfold null_read in Hnull. unfold uniq in *. fold k_null in Hnull.
    destruct (filter (in_class (o_mcase ro) k_null) (s_items (l_well (hs_las hs)))) as [|nit [|n2 r]]; try discriminate.
    exact Hnull. }
  destruct (uniq (o_mcase ro) k_null (s_items (l_well (hs_las hs)))) as [nit|] eqn:EN; [|discriminate]. apply uniq_some in EN.
  apply andb_true_iff in HN as [HNst HN]. apply stable_itemb_ok in HNst. apply ws_str_eqb_eq in HN.
  assert (Hpn' : pn = Some (i_value (expected_item fstr KWell (o_mcase ro) nit))).
  { rewrite Hpn. unfold pn_of, uniq. rewrite EN. reflexivity. }
  (* the file hypotheses *)
  pose proof Hfile as Hfile'.
  unfold file_hypsb in Hfile'. do 4 (apply andb_true_iff in Hfile' as [Hfile' ?]).
  destruct (header_hypsb_ok fstr ro hs Hfile') as (vit & (_ & _ & _ & _ & Hstd & Hfv & HcV & Hdlm)).
  match goal with K : data_hypsb _ _ _ _ _ _ _ = true |- _ => apply data_hypsb_ok in K; destruct K as (Hc & Hne & Hshape & _) end.
  (* the sections read back *)
  destruct (read_canon fhex fstr numeq ro text l Hread0) as (CV & CW & CC & CP).
  destruct Hrb as (MV & MW & MC & MP & Hother & Hcust & TV & TW & TC & TP).
  pose proof (canon_is_reb fstr ro KVersion _ _ CV TV MV) as HlV.
  pose proof (canon_is_reb fstr ro KWell _ _ CW TW MW) as HlW.
  pose proof (canon_is_reb fstr ro KCurves _ _ CC TC MC) as HlC.
  pose proof (canon_is_reb fstr ro KParameter _ _ CP TP MP) as HlP.
  set (cn := List.length (s_items (l_curves (hs_las hs)))) in *.
  set (T := tok_matrix fmtv o nt (las_rows (hs_las hs))) in *.
  assert (HTlen : Forall (fun toks : list (list N) => List.length toks = cn) T) by (apply tok_matrix_shape; exact Hshape).
  assert (Hcl : List.length (s_items (l_curves l)) = cn).
  { rewrite HlC. cbn [s_items]. rewrite reb_length. reflexivity. }
  assert (Hidx : reread_index l = Some (nth 0%nat (l_data l) [])).
  { apply (reread_index_some l (List.length crest)). rewrite Hcl. unfold cn. rewrite EC. reflexivity. }
  rewrite Hidx in *.
  assert (Hcur : s_items (l_curves l) <> []).
  { intro E0. rewrite E0 in Hcl. unfold cn in Hcl. rewrite EC in Hcl. discriminate Hcl. }
  pose proof (second_need fmtv fstr numeq fhex ro (col_fmt o 0%nat) hs l pit cn pn T HlW Hdata Hc EP Hstop Hrefl Hcur) as Hneed.
  (* the header of the second write *)
  assert (HwI : forall b, wo_wrap o = Some b -> expected_item fstr KVersion (o_mcase ro) wit = wrap_item b).
  { intros b Hb. rewrite Hb in HW. apply hitem_eqb_eq. exact HW. }
  destruct (second_write_sections_gen fmtv fmt_diff fmt_pi fstr fzero numeq ro (wo_version o) (wo_wrap o) (col_fmt o 0%nat) m hs Hs
              l HlV HlW HlC HlP WV WW WC wit vit EW HwI HcV Hstd Hfv Hdlm sit pit eit c0 crest ES EP EE EC
              ltac:(assumption) ltac:(assumption) ltac:(assumption) (Some (nth 0%nat (l_data l) [])) Hneed)
    as (vsw2 & lv2 & lw2 & lc2 & lp2 & Hs2 & Hpm & _).
  set (hs2 := mkhs (hs_wrap hs) (hs_version hs) vsw2 lv2 lw2 lc2 lp2 (norm_las fzero l)) in *.
  pose proof (Hfile2 hs2 Hs2) as Hf2.
  (* the first write, factored *)
  destruct (WriteOptionsProofs.write_ok_inv fmtv fmt_diff fmt_pi fstr fzero numeq o m text m' Hw) as (hs0 & d & Hs0 & Hd & Ht & _).
  rewrite Hs in Hs0. injection Hs0 as <-.
  (* the data of the second write *)
  assert (Hnt2 : las_null_text fstr (hs_las hs2) = Some nt).
  { apply (second_null_text fstr fzero ro hs l HlW nit nt EN HNst HN). }
  assert (HT2 : tok_matrix fmtv o nt (las_rows (hs_las hs2)) = T).
  { rewrite <- Hpn in Hback.
    apply (second_tok_matrix fmtv fmt_pi fhex fstr numeq ro pn o nt cn T Hc HTlen Hback (hs_las hs2)).
    - exact Hdata.
    - exact Hcl. }
  assert (Hd2 : write_data fmtv fmt_pi fstr o hs2 = Some d).
  { rewrite <- Hd. apply (write_data_same fmtv fmt_pi fstr o nt hs hs2 Hnt Hnt2 HT2 eq_refl).
    intros Hmh. rewrite Hmh in Hsess. cbn [negb orb] in Hsess. apply strs_eqb_eq in Hsess.
    change (l_curves (hs_las hs2)) with (l_curves l). rewrite HlC. cbn [s_items]. exact Hsess. }
  (* the second write *)
  assert (Hw2 : write o (mkmlas l (Some (nth 0%nat (l_data l) []))) =
                WOk (join [ch_nl] (header_lines (wo_header_width o) hs2) ++ [ch_nl] ++ d)
                    (mkmlas (norm_las fzero l) (Some (nth 0%nat (l_data l) [])))).
  { rewrite write_factors, Hs2, Hd2. reflexivity. }
  eexists. 
  (* reading the second text *)
  destruct (write_data_inv fmtv fmt_pi fstr o hs2 d Hd2) as (dl2 & rts2 & Hdl2 & Hrts2 & _).
  rewrite Hnt2 in Hrts2.
  destruct (read_written_file_checked fmtv fmt_diff fmt_pi fstr fzero numeq fhex ro o _ _ _ hs2 dl2 rts2 nt
              Hw2 Hs2 Hdl2 Hnt2 Hrts2 Hf2 Hig) as (l2 & pn2 & Hread2 & Hrb2 & Hnull2 & Hdata2).
  exists l2. split; [exact Hw2|]. split; [exact Hread2|].
  destruct Hrb2 as (MV2 & MW2 & MC2 & MP2 & Hother2 & Hcust2 & _).
  change (hs_vers_items hs2) with vsw2 in MV2.
  change (s_items (l_well (hs_las hs2))) with (map (post fzero true) (s_items (l_well l))) in MW2.
  change (s_items (l_curves (hs_las hs2))) with (s_items (l_curves l)) in MC2.
  change (s_items (l_params (hs_las hs2))) with (map (post fzero true) (s_items (l_params l))) in MP2.
  split; [|split; [|split; [|split]]].
  - rewrite MV2, (map_expected_pm ro KVersion _ _ Hpm).
    rewrite <- (E2_section ro KVersion false (hs_vers_items hs) (reb fstr ro KVersion (hs_vers_items hs)) (reb_meta fstr ro KVersion _)).
    reflexivity.
  - rewrite MW2, map_map. rewrite HlW. cbn [s_items]. apply (E2_section ro KWell true). apply reb_meta.
  - rewrite MC2, HlC. cbn [s_items].
    rewrite <- (E2_section ro KCurves false _ (reb fstr ro KCurves (s_items (l_curves (hs_las hs)))) (reb_meta fstr ro KCurves _)).
    reflexivity.
  - rewrite MP2, map_map. rewrite HlP. cbn [s_items]. apply (E2_section ro KParameter true). apply reb_meta.
  - split; [|split; [|exact Hcust2]].
    + (* the data: the same tokens, the same NULL value *)
      rewrite Hdata2, HT2.
      change (List.length (s_items (l_curves (hs_las hs2)))) with (List.length (s_items (l_curves l))). rewrite Hcl, Hdata.
      f_equal.
      (* pn2 = pn *)
      assert (Ho : map i_orig (map (post fzero true) (s_items (l_well l))) = map i_orig (s_items (l_well (hs_las hs)))).
      { rewrite map_map, HlW. cbn [s_items].
        pose proof (reb_meta fstr ro KWell (s_items (l_well (hs_las hs)))) as Hm.
        assert (G : forall B A, map meta B = map (fun it => meta (expected_item fstr KWell (o_mcase ro) it)) A ->
                    Forall (wstable_item fstr ro KWell) A ->
                    map (fun x => i_orig (post fzero true x)) B = map i_orig A).
        { induction B as [|y B IH]; destruct A as [|a A]; cbn [map]; intros Hm' HF; try discriminate; [reflexivity|].
          inversion HF as [|? ? (Wo & _) HF']; subst.
          assert (M1 : meta y = meta (expected_item fstr KWell (o_mcase ro) a)) by (exact (f_equal (hd (meta y)) Hm')).
          assert (M2 : map meta B = map (fun it => meta (expected_item fstr KWell (o_mcase ro) it)) A) by (exact (f_equal (@tl _) Hm')).
          rewrite (IH A M2 HF'). f_equal.
          destruct (post_fields fzero true y) as (P1 & _). rewrite P1, <- Wo.
          unfold meta in M1. injection M1 as M1 _ _ _. exact M1. }
        apply (G _ _ Hm WW). }
      destruct (filter_by_orig (o_mcase ro) k_null _ _ Ho nit EN) as (x & p & Fx & Nx & Na).
      unfold null_read in Hnull2. fold k_null in Hnull2.
      change (s_items (l_well (hs_las hs2))) with (map (post fzero true) (s_items (l_well l))) in Hnull2.
      rewrite Fx in Hnull2. rewrite Hnull2, Hpn'. f_equal. f_equal.
      (* x prints like nit *)
      rewrite ws_nth_error_map in Nx. destruct (nth_error (s_items (l_well l)) p) as [y|] eqn:Ey; [|discriminate].
      injection Nx as <-.
      assert (My : meta y = meta (expected_item fstr KWell (o_mcase ro) nit)).
      { pose proof (reb_meta fstr ro KWell (s_items (l_well (hs_las hs)))) as Hm.
        rewrite HlW in Ey. cbn [s_items] in Ey.
        assert (X : nth_error (map meta (reb fstr ro KWell (s_items (l_well (hs_las hs))))) p = Some (meta y))
          by (rewrite ws_nth_error_map, Ey; reflexivity).
        rewrite Hm, ws_nth_error_map, Na in X. cbn [option_map] in X.
        apply (f_equal (fun o => match o with Some v => v | None => meta y end)) in X. symmetry. exact X. }
      apply (expected_pm fstr ro KWell).
      change (stdf fzero y) with (post fzero true y).
      rewrite (post_meta fstr fzero true _ _ My). exact HNst.
    + change (l_other (hs_las hs2)) with (l_other l) in Hother2. rewrite Hother2, Hother, Hoth. exact Hoth.
Qed.

(* ---- E (E a) against E a: a decidable check on the items ------------------------------------------- *)
Definition val_equivb (a b : hval) : bool :=
  match a, b with
  | VFloat x, VFloat y => numeq x y
  | _, _ => hval_eqb a b
  end.
Lemma val_equivb_ok a b : val_equivb a b = true -> val_equiv numeq a b.
Proof.
  unfold val_equivb, val_equiv. destruct a, b; intros H; try exact H; try (apply hval_eqb_eq in H; exact H).
Qed.

(* header items equal up to numeric equality of float values *)
Definition meta_equiv (x y : list N * list N * hval * list N) : Prop :=
  match x, y with
  | (o1, u1, v1, d1), (o2, u2, v2, d2) => o1 = o2 /\ u1 = u2 /\ val_equiv numeq v1 v2 /\ d1 = d2
  end.
Definition item_contentb (ro : ropts) (k : skind) (std : bool) (a : hitem) : bool :=
  let e1 := E1 ro k a in let e2 := E2 ro k std a in
  str_eqb (i_orig e2) (i_orig e1) && str_eqb (i_unit e2) (i_unit e1) && val_equivb (i_value e2) (i_value e1).
Definition content_okb (ro : ropts) (hs : hdr_sections) : bool :=
  forallb (item_contentb ro KVersion false) (hs_vers_items hs) &&
  forallb (item_contentb ro KWell true) (s_items (l_well (hs_las hs))) &&
  forallb (item_contentb ro KCurves false) (s_items (l_curves (hs_las hs))) &&
  forallb (item_contentb ro KParameter true) (s_items (l_params (hs_las hs))).

Lemma item_content_ok ro k std a : item_contentb ro k std a = true -> meta_equiv (meta (E2 ro k std a)) (meta (E1 ro k a)).
Proof.
  unfold item_contentb. cbv zeta. intros H. apply andb_true_iff in H as [H H3]. apply andb_true_iff in H as [H1 H2].
  apply ws_str_eqb_eq in H1, H2. apply val_equivb_ok in H3. unfold meta, meta_equiv.
  repeat split; try assumption. unfold E2, E1, expected_item, new_item. cbn [i_descr].
  destruct (post_fields fzero std (new_item (apply_case (o_mcase ro) (i_orig a)) (strip_brackets (i_unit a))
              (read_value k (i_orig a) (vstr fstr (i_value a))) (i_descr a))) as (_ & _ & P3 & _).
  exact P3.
Qed.

Lemma section_content_ok ro k std : forall A,
  forallb (item_contentb ro k std) A = true ->
  Forall2 meta_equiv (map (fun a => meta (E2 ro k std a)) A) (map (fun a => meta (E1 ro k a)) A).
Proof.
  induction A as [|a A IH]; cbn [forallb map]; intros H; [constructor|].
  apply andb_true_iff in H as [H1 H2]. constructor; [apply item_content_ok; exact H1|apply IH; exact H2].
Qed.

End WithOracles.
