(* Proofs.FileRoundTripData — the data section of a written file as read_one_data reads it
   (Proofs/ReadCongr.v data_core): the body is the written data lines with their terminators,
   the curves are the ones just read back (as many as there are columns), and the result is
   the written token matrix column by column (Proofs/WriteDataProofs.v data_roundtrip_tokens,
   C01), passed through the NULL rule (C06), bound one to one to the curves (C07).  For a
   wrapped body the sniffed column count never exceeds the number of curves, so that the
   declared WRAP YES makes the reader reshape by the number of curves.
   (File-level composition, part 4a.) *)
From Coq Require Import List Arith NArith ZArith Bool Lia String.
Import ListNotations.
Require Import PyStr Regex Regexes NumLit Num HeaderLine Tables SectionParse Sections DataRead Read TextWrap Writer.
Require Import StripFacts RegexSubFacts SplitWsFacts ItemsBindProofs DataReadProofs ReadInvProofs ReadCongr
  TextWrapProofs WriteDataProofs FileRoundTripText.
Open Scope string_scope.
Open Scope list_scope.
Open Scope N_scope.

(* ---- the sniffed count is one of the per-line counts ------------------------------------------ *)
Lemma all_equal_in l n : all_equal l = Some n -> In n l.
Proof.
  destruct l as [|x l]; [discriminate|]. cbn [all_equal]. destruct (forallb (Nat.eqb x) l); [|discriminate].
  intros [= <-]. left. reflexivity.
Qed.

Lemma inspect_loop_bound d subs c : forall body i hyph counts,
  Forall (fun raw => is_skip raw = true \/ (dcount d subs raw <= c)%nat) body ->
  Forall (fun n => (n <= c)%nat) counts ->
  Forall (fun n => (n <= c)%nat) (snd (inspect_loop d body i subs hyph counts)).
Proof.
  induction body as [|raw rest IH]; intros i hyph counts Hb Hc.
  - cbn [inspect_loop snd]. apply Forall_rev. exact Hc.
  - inversion Hb as [|? ? Hraw Hrest]; subst. rewrite inspect_loop_step.
    destruct (is_skip raw) eqn:Es; [apply IH; assumption|].
    destruct Hraw as [F|Hle]; [discriminate|]. cbv zeta.
    assert (Hc' : Forall (fun n => (n <= c)%nat) (dcount d subs raw :: counts)) by (constructor; assumption).
    destruct (Nat.ltb 20 _).
    + cbn [snd]. apply Forall_rev. exact Hc'.
    + apply IH; assumption.
Qed.

Lemma inspect_bound d body c :
  (forall subs, Forall (fun raw => is_skip raw = true \/ (dcount d subs raw <= c)%nat) body) ->
  forall subs n, fst (inspect d body subs) = Some n -> (n <= c)%nat.
Proof.
  intros H subs n. unfold inspect.
  pose proof (inspect_loop_bound d subs c body 0%nat 0%nat [] (H subs) (Forall_nil _)) as B.
  destruct (inspect_loop d body 0%nat subs 0%nat []) as [hyph counts]. cbn [snd fst] in *.
  intros E. apply all_equal_in in E. rewrite Forall_forall in B. apply B. exact E.
Qed.

Lemma inspect_twice_bound d body c :
  (forall subs, Forall (fun raw => is_skip raw = true \/ (dcount d subs raw <= c)%nat) body) ->
  forall subs n, fst (inspect_twice d body subs) = Some n -> (n <= c)%nat.
Proof.
  intros H subs n. unfold inspect_twice.
  destruct (inspect d body subs) as [n1 rec] eqn:E1.
  destruct (negb (list_rsub_eqb rec subs)).
  - destruct (inspect d body rec) as [n2 r2] eqn:E2. cbn [fst]. intros ->.
    apply (inspect_bound d body c H rec). rewrite E2. reflexivity.
  - cbn [fst]. intros ->. apply (inspect_bound d body c H subs). rewrite E1. reflexivity.
Qed.

(* on a clean line the counted fields are the white-space separated fields *)
Lemma clean_dcount raw subs : clean_lineb raw = true ->
  dcount DSpace subs raw = List.length (split_ws raw).
Proof.
  intros H. destruct (clean_facts raw H) as (H35 & H34 & H39 & H26 & Hsub).
  unfold dcount. rewrite apply_subs_id by exact Hsub. cbn [split_line].
  rewrite sow_is_split by (apply in_str_strip_false; assumption).
  rewrite split_ws_strip. reflexivity.
Qed.

Lemma flat_map_length_le {A B} (f : A -> list B) : forall l x, In x l ->
  (List.length (f x) <= List.length (flat_map f l))%nat.
Proof.
  induction l as [|y l IH]; intros x Hin; [destruct Hin|]. cbn [flat_map]. rewrite app_length.
  destruct Hin as [<-|Hin]; [lia|]. specialize (IH x Hin). lia.
Qed.

(* ---- binding as many columns as there are curves ------------------------------------------------ *)
Lemma bind_columns_fit tr : forall cols curves idx,
  (idx + List.length cols <= List.length curves)%nat -> bind_columns tr curves idx cols = curves.
Proof.
  induction cols as [|c cols IH]; intros curves idx H; [reflexivity|]. cbn [bind_columns List.length] in *.
  destruct (Nat.ltb_spec idx (List.length curves)); [|lia]. apply IH. lia.
Qed.

Lemma data_for_curves_fit n cols : (n <= List.length cols)%nat -> data_for_curves n cols = cols.
Proof.
  intros H. unfold data_for_curves. replace (n - List.length cols)%nat with 0%nat by lia.
  cbn [repeat]. apply app_nil_r.
Qed.

Section WithOracles.
Variable fmtv : list N -> list N -> list N.
Variable fmt_pi : list N -> list N.
Variable fhex : list N -> option (list N).
Variable fstr : list N -> list N.
Variable numeq : list N -> list N -> bool.

(* what the data section of the written file is read as *)
Definition data_result (ro : ropts) (pn : option hval) (c : nat) (T : list (list (list N))) : list (list cell) :=
  null_columns (nulleq numeq pn) (o_null_strict ro) 0%nat (cols_of fhex c T).

Lemma null_columns_length' f strict : forall cols k, List.length (null_columns f strict k cols) = List.length cols.
Proof. induction cols as [|c cols IH]; intros k; cbn [null_columns List.length]; [reflexivity|]. rewrite IH. reflexivity. Qed.

Lemma data_core_done ro pw pn d body cs wd cols (eng : bool) sn subs :
  inspect_twice d body (match d with DComma => comma_delim_subs | _ => default_subs end) = (sn, subs) ->
  (if o_engine_numpy ro && negb (hval_is_str pw (s2l "YES")) && o_null_strict ro then numpy_engine fhex body else None)
  = (if eng then Some cols else None) ->
  (eng = false -> normal_engine fhex fstr d subs (n_columns_of sn (List.length (s_items cs)) wd) body = DOk cols) ->
  List.length cols = List.length (s_items cs) ->
  data_core fhex fstr numeq ro pw pn d body cs wd =
  inl (cs, null_columns (nulleq numeq pn) (o_null_strict ro) 0%nat cols, eng).
Proof.
  intros Hi Hnp Hno Hlen. unfold data_core. rewrite Hi. cbv zeta. fold (n_columns_of sn (List.length (s_items cs)) wd).
  rewrite Hnp. destruct eng.
  - rewrite bind_columns_fit by (rewrite null_columns_length'; lia).
    rewrite data_for_curves_fit by (rewrite null_columns_length'; lia). destruct cs; reflexivity.
  - rewrite (Hno eq_refl).
    rewrite bind_columns_fit by (rewrite null_columns_length'; lia).
    rewrite data_for_curves_fit by (rewrite null_columns_length'; lia). destruct cs; reflexivity.
Qed.

(* the hypotheses of C01_data_roundtrip, on the rows and the options *)
Definition data_hyps (o : wopts) (nt : list N) (rows : list (list cell)) (c : nat) : Prop :=
  (0 < c)%nat /\ rows <> [] /\ Forall (fun row : list cell => List.length row = c) rows /\
  Forall (Forall (wr_tok fhex)) (tok_matrix fmtv o nt rows) /\
  forallb is_space (wo_lhs_spacer o) = true /\ forallb is_space (wo_spacer o) = true /\
  Forall (separated fmt_pi o) (tok_matrix fmtv o nt rows).

(* unwrapped body: both engines, whatever WRAP says *)
Theorem data_core_unwrapped ro pw pn o nt rows c rts cs wd :
  data_hyps o nt rows c ->
  opt_all (map (row_text fmtv fmt_pi o (Some nt) 0%nat) rows) = Some rts ->
  List.length (s_items cs) = c ->
  exists eng,
    data_core fhex fstr numeq ro pw pn DSpace (map add_nl rts) cs wd =
    inl (cs, data_result ro pn c (tok_matrix fmtv o nt rows), eng).
Proof.
  intros (Hc & Hne & Hshape & Hwr & Hl & Hs & Hsep) Hrts Hcs.
  destruct (data_roundtrip_tokens fmtv fmt_pi fhex fstr o nt default_subs rows c rts [10] Hc Hne Hshape Hwr Hl Hs Hsep
              eq_refl Hrts) as ((Hnp & _ & Hsn) & _ & Hlen & _).
  change (map (fun l : list N => l ++ [10]) rts) with (map add_nl rts) in *.
  destruct (inspect_twice DSpace (map add_nl rts) default_subs) as [sn subs] eqn:Ei. cbn [fst] in Hsn. subst sn.
  destruct (data_roundtrip_tokens fmtv fmt_pi fhex fstr o nt subs rows c rts [10] Hc Hne Hshape Hwr Hl Hs Hsep
              eq_refl Hrts) as ((_ & Hno & _) & _).
  change (map (fun l : list N => l ++ [10]) rts) with (map add_nl rts) in *.
  exists (o_engine_numpy ro && negb (hval_is_str pw (s2l "YES")) && o_null_strict ro).
  apply (data_core_done ro pw pn DSpace (map add_nl rts) cs wd (cols_of fhex c (tok_matrix fmtv o nt rows)) _ (Some c) subs Ei).
  - rewrite Hnp. reflexivity.
  - intros _. unfold n_columns_of. rewrite Hcs, Nat.ltb_irrefl, andb_false_r. exact Hno.
  - rewrite Hcs. exact Hlen.
Qed.

(* wrapped body, at any width: WRAP YES (provisional value and ~Version item) *)
Theorem data_core_wrapped ro pw pn o nt rows c rts cs w :
  data_hyps o nt rows c ->
  opt_all (map (row_text fmtv fmt_pi o (Some nt) 0%nat) rows) = Some rts ->
  List.length (s_items cs) = c ->
  hval_is_str pw (s2l "YES") = true ->
  data_core fhex fstr numeq ro pw pn DSpace (map add_nl (flat_map (TextWrap.wrap w) rts)) cs true =
  inl (cs, data_result ro pn c (tok_matrix fmtv o nt rows), false).
Proof.
  intros (Hc & Hne & Hshape & Hwr & Hl & Hs & Hsep) Hrts Hcs Hpw.
  set (T := tok_matrix fmtv o nt rows) in *.
  set (wbody := map add_nl (flat_map (TextWrap.wrap w) rts)).
  assert (Hnum : Forall (Forall (num_tok fhex)) T).
  { eapply Forall_impl; [|exact Hwr]. intros r Hr. eapply Forall_impl; [|exact Hr]. intros t [Ht _]. exact Ht. }
  assert (Hgood : Forall (Forall good_tok) T).
  { eapply Forall_impl; [|exact Hnum]. intros r Hr. eapply Forall_impl; [|exact Hr]. intros t [Ht _]. exact Ht. }
  pose proof (lines_tokens fmtv fmt_pi o nt rows rts Hgood Hl Hs Hsep Hrts) as Htok. fold T in Htok.
  pose proof (tok_matrix_shape fmtv o nt rows c Hshape) as HTlen. fold T in HTlen.
  (* every wrapped line is clean and has at most c fields *)
  assert (Hlines : forall raw, In raw wbody -> clean_lineb raw = true /\ (List.length (split_ws raw) <= c)%nat).
  { intros raw Hin. unfold wbody in Hin. apply in_map_iff in Hin as (wl & <- & Hwl).
    apply in_flat_map in Hwl as (l & Hlin & Hwl). unfold add_nl. split.
    - apply clean_line_of_tokens. rewrite split_ws_app_trailing by reflexivity.
      apply Forall_forall. intros t Ht. apply (matrix_tokens_clean fhex T rts Htok Hwr l t Hlin).
      rewrite <- (wrap_tokens w l). apply in_flat_map. exists wl. split; assumption.
    - rewrite split_ws_app_trailing by reflexivity.
      pose proof (flat_map_length_le split_ws (TextWrap.wrap w l) wl Hwl) as Hle. rewrite wrap_tokens in Hle.
      assert (Hr : In (split_ws l) T) by (rewrite <- Htok; apply in_map; exact Hlin).
      rewrite Forall_forall in HTlen. rewrite (HTlen _ Hr) in Hle. exact Hle. }
  assert (Hbound : forall subs, Forall (fun raw => is_skip raw = true \/ (dcount DSpace subs raw <= c)%nat) wbody).
  { intros subs. apply Forall_forall. intros raw Hin. destruct (Hlines raw Hin) as (Hcl & Hle). right.
    rewrite clean_dcount by exact Hcl. exact Hle. }
  destruct (inspect_twice DSpace wbody default_subs) as [sn subs] eqn:Ei.
  assert (Hsn : n_columns_of sn c true = c).
  { destruct sn as [n|]; [|reflexivity].
    pose proof (inspect_twice_bound DSpace wbody c Hbound default_subs n) as B. rewrite Ei in B. specialize (B eq_refl).
    unfold n_columns_of. cbn [andb]. destruct (Nat.ltb_spec n c); [reflexivity|lia]. }
  destruct (data_roundtrip_tokens fmtv fmt_pi fhex fstr o nt subs rows c rts [10] Hc Hne Hshape Hwr Hl Hs Hsep
              eq_refl Hrts) as (_ & Hw & Hlen & _).
  specialize (Hw w). change (map (fun l : list N => l ++ [10]) (flat_map (TextWrap.wrap w) rts)) with wbody in Hw.
  apply (data_core_done ro pw pn DSpace wbody cs true (cols_of fhex c T) false sn subs Ei).
  - rewrite Hpw. cbn [negb]. rewrite andb_false_r. reflexivity.
  - intros _. rewrite Hcs, Hsn. exact Hw.
  - rewrite Hcs. exact Hlen.
Qed.

(* ---- shape and content of the result (C01 + C06) ------------------------------------------------ *)
Lemma is_float_col_mk_num {A} (g : A -> list N) (l : list A) :
  is_float_col (map (fun x => mk_num fhex (g x)) l) = true.
Proof.
  unfold is_float_col. apply forallb_forall. intros x Hx. apply in_map_iff in Hx as (t & <- & _).
  unfold mk_num. destruct (fhex (g t)) as [h|]; [destruct (str_eqb h (s2l "nan"))|]; reflexivity.
Qed.

Theorem data_result_shape ro pn c T :
  List.length (data_result ro pn c T) = c /\
  forall j, (j < c)%nat ->
    List.length (nth j (data_result ro pn c T) []) = List.length T /\
    nth j (data_result ro pn c T) [] =
      null_column (nulleq numeq pn) (o_null_strict ro) j (map (fun toks => mk_num fhex (nth j toks [])) T).
Proof.
  unfold data_result. split; [rewrite null_columns_length'; apply cols_of_length|].
  intros j Hj.
  assert (E : nth j (null_columns (nulleq numeq pn) (o_null_strict ro) 0 (cols_of fhex c T)) [] =
              null_column (nulleq numeq pn) (o_null_strict ro) j (map (fun toks => mk_num fhex (nth j toks [])) T)).
  { rewrite null_columns_nth by (rewrite cols_of_length; exact Hj). cbn [Nat.add].
    rewrite cols_of_nth by exact Hj. reflexivity. }
  split; [|exact E]. rewrite E.
  pose proof (null_columns_col_length (nulleq numeq pn) (o_null_strict ro) (cols_of fhex c T) 0%nat j) as L.
  rewrite null_columns_nth in L by (rewrite cols_of_length; exact Hj). cbn [Nat.add] in L.
  rewrite cols_of_nth in L by exact Hj. rewrite L, map_length. reflexivity.
Qed.

(* the index column comes back as written; the other columns cell by cell through the NULL rule *)
Theorem data_result_index ro pn c T : (0 < c)%nat ->
  nth 0 (data_result ro pn c T) [] = map (fun toks => mk_num fhex (nth 0 toks [])) T.
Proof.
  intros Hc. destruct (data_result_shape ro pn c T) as (_ & H). destruct (H 0%nat Hc) as (_ & E).
  rewrite E. apply null_column_index.
Qed.

Theorem data_result_cell ro pn c T i j toks : (0 < j < c)%nat -> o_null_strict ro = true ->
  nth_error T i = Some toks ->
  nth_error (nth j (data_result ro pn c T) []) i =
  Some (match mk_num fhex (nth j toks []) with
        | CNum t => if nulleq numeq pn t then CNaN else CNum t
        | x => x
        end).
Proof.
  intros Hj Hst Hi. destruct (data_result_shape ro pn c T) as (_ & H). destruct (H j (proj2 Hj)) as (_ & E).
  rewrite E, Hst, null_column_strict; [|apply is_float_col_mk_num|lia].
  rewrite nth_error_map, nth_error_map, Hi. cbn [option_map].
  destruct (mk_num fhex (nth j toks [])); reflexivity.
Qed.

End WithOracles.
