(* Proofs.IOSkelTraceProofs — the trace acceptor of Model/IOSkelTrace.v is sound: an accepted
   event sequence is the event sequence of a run (`xexec`) of the skeleton; `xexec` is `exec`
   with the events made explicit (each erases to / lifts from the other).  Hence an accepted
   observation of a leak-free skeleton is a model run that ends owning nothing open. *)
From Coq Require Import List Arith Bool Lia.
Import ListNotations.
Require Import IOSkel IOSkelTrace IOSkelProofs.

Lemma dd_in x l : In x (dd l) -> In x l.
Proof.
  induction l as [|y t IH]; cbn; auto.
  destruct (existsb (item_eqb y) t); cbn; intuition.
Qed.

Definition sound_at (s:stmt) (f : accf) : Prop :=
  forall σ t o r σ', In (o, r, σ') (f σ t) -> exists pre, t = pre ++ r /\ xexec s σ pre o σ'.

Lemma loop_acc_sound b body : sound_at b body -> forall n, sound_at (Loop b) (loop_acc n body).
Proof.
  intros Hb. unfold sound_at. induction n as [|n IH]; intros σ t o r σ' Hin; cbn [loop_acc] in Hin.
  - destruct Hin as [E|[]]. inversion E; subst. exists []. split; auto. constructor.
  - destruct Hin as [E|Hin].
    + inversion E; subst. exists []. split; auto. constructor.
    + apply in_flat_map in Hin as [[[o1 r1] s1] [H1 H2]].
      unfold step_loop, i_out, i_rest, i_st in H2. cbn [fst snd] in H2.
      destruct (Hb _ _ _ _ _ H1) as [p1 [E1 X1]].
      destruct o1.
      * destruct (List.length r1 <? List.length t); [|destruct H2].
        destruct (IH _ _ _ _ _ H2) as [p2 [E2 X2]]. exists (p1 ++ p2). split.
        -- rewrite <- app_assoc, <- E2. exact E1.
        -- eapply TLoopN; eauto.
      * destruct H2 as [E|[]]. inversion E; subst. exists p1. split; auto. apply TLoopX; auto.
      * destruct H2 as [E|[]]. inversion E; subst. exists p1. split; auto. apply TLoopX; auto.
      * destruct H2 as [E|[]]. inversion E; subst. exists p1. split; auto. apply TLoopB; auto.
      * destruct (List.length r1 <? List.length t); [|destruct H2].
        destruct (IH _ _ _ _ _ H2) as [p2 [E2 X2]]. exists (p1 ++ p2). split.
        -- rewrite <- app_assoc, <- E2. exact E1.
        -- eapply TLoopC; eauto.
Qed.

Ltac one E := inversion E; subst; clear E.

Theorem acc_sound : forall s, sound_at s (acc s).
Proof.
  unfold sound_at.
  induction s; intros σ t o r σ' Hin; cbn [acc] in Hin.
  - (* Skip *) destruct Hin as [E|[]]; one E. exists []; split; auto; constructor.
  - (* MayRaise *) destruct Hin as [E|[E|[]]]; one E; exists []; split; auto; constructor.
  - destruct Hin as [E|[]]; one E. exists []; split; auto; constructor.
  - destruct Hin as [E|[]]; one E. exists []; split; auto; constructor.
  - destruct Hin as [E|[]]; one E. exists []; split; auto; constructor.
  - (* Open *)
    destruct σ as [[ow tc] n]. destruct t as [|[h'|h'|h'] t']; try destruct Hin.
    + destruct (h =? h') eqn:Eh; [|destruct Hin]. apply Nat.eqb_eq in Eh. subst h'.
      destruct Hin as [E|[]]; one E. exists [EOpen h]. split; auto. constructor.
    + destruct (h =? h') eqn:Eh; [|destruct Hin]. apply Nat.eqb_eq in Eh. subst h'.
      destruct Hin as [E|[]]; one E. exists [EOpenFail h]. split; auto. constructor.
  - (* Close *)
    destruct σ as [[ow tc] n]. destruct t as [|[h'|h'|h'] t']; try destruct Hin.
    destruct (h =? h') eqn:Eh; [|destruct Hin]. apply Nat.eqb_eq in Eh. subst h'.
    destruct Hin as [E|[E|[]]]; one E; exists [EClose h]; split; auto; constructor.
  - (* CloseArg *)
    destruct σ as [[ow tc] n]. destruct t as [|[h'|h'|h'] t']; try destruct Hin.
    destruct (h =? h') eqn:Eh; [|destruct Hin]. apply Nat.eqb_eq in Eh. subst h'.
    destruct Hin as [E|[E|[]]]; one E; exists [EClose h]; split; auto; constructor.
  - (* Rebind *)
    destruct σ as [[ow tc] n]. destruct Hin as [E|[]]; one E. exists []; split; auto; constructor.
  - (* Seq *)
    apply dd_in in Hin. apply in_flat_map in Hin as [[[o1 r1] q1] [H1 H2]].
    destruct (IHs1 _ _ _ _ _ H1) as [p1 [E1 X1]].
    unfold step_seq, i_out, i_rest, i_st in H2. cbn [fst snd] in H2.
    destruct o1;
      try (destruct H2 as [E|[]]; one E; exists p1; split; auto;
           apply TSeqX; auto; discriminate).
    destruct (IHs2 _ _ _ _ _ H2) as [p2 [E2 X2]]. exists (p1 ++ p2). split.
    + rewrite <- app_assoc, <- E2. exact E1.
    + eapply TSeqN; eauto.
  - (* If *)
    apply dd_in in Hin. apply in_app_or in Hin as [H|H].
    + destruct (IHs1 _ _ _ _ _ H) as [p [E X]]. exists p. split; auto. apply TIfL; auto.
    + destruct (IHs2 _ _ _ _ _ H) as [p [E X]]. exists p. split; auto. apply TIfR; auto.
  - (* Loop *)
    apply dd_in in Hin. eapply loop_acc_sound; eauto.
  - (* TryFinally *)
    apply dd_in in Hin. apply in_flat_map in Hin as [[[o1 r1] q1] [H1 H2]].
    destruct (IHs1 _ _ _ _ _ H1) as [p1 [E1 X1]].
    unfold step_fin, i_out, i_rest, i_st in H2. cbn [fst snd] in H2.
    apply in_map_iff in H2 as [[[o2 r2] q2] [E2 H2]].
    destruct (IHs2 _ _ _ _ _ H2) as [p2 [E3 X2]].
    unfold step_fin2, i_out, i_rest, i_st in E2. cbn [fst snd] in E2.
    exists (p1 ++ p2). split.
    + destruct o2; one E2; rewrite <- app_assoc; reflexivity.
    + destruct o2; one E2.
      * eapply TFinN; eauto.
      * eapply TFinX; eauto; discriminate.
      * eapply TFinX; eauto; discriminate.
      * eapply TFinX; eauto; discriminate.
      * eapply TFinX; eauto; discriminate.
  - (* TryExcept *)
    apply dd_in in Hin. apply in_app_or in Hin as [H|H].
    + destruct (IHs1 _ _ _ _ _ H) as [p [E X]]. exists p. split; auto. apply TExcP; auto.
    + apply in_flat_map in H as [[[o1 r1] q1] [H1 H2]].
      destruct (IHs1 _ _ _ _ _ H1) as [p1 [E1 X1]].
      unfold step_exc, i_out, i_rest, i_st in H2. cbn [fst snd] in H2.
      destruct o1; try destruct H2.
      destruct (IHs2 _ _ _ _ _ H2) as [p2 [E2 X2]]. exists (p1 ++ p2). split.
      * rewrite <- app_assoc, <- E2. exact E1.
      * eapply TExcH; eauto.
  - (* Guarded *)
    destruct σ as [[ow tc] n]. apply dd_in in Hin. apply in_app_or in Hin as [H|H].
    + destruct (mem h ow) eqn:Hm; [destruct H|]. destruct H as [E|[]]; one E.
      exists []. split; auto. apply TGuardSkip; auto.
    + destruct (IHs _ _ _ _ _ H) as [p [E X]]. exists p. split; auto. apply TGuardRun; auto.
  - (* Call *)
    apply dd_in in Hin. apply in_map_iff in Hin as [[[o1 r1] q1] [E1 H1]].
    destruct (IHs _ _ _ _ _ H1) as [p [E X]].
    unfold step_call, i_out, i_rest, i_st in E1. cbn [fst snd] in E1.
    exists p. destruct o1; one E1; split; auto;
      try (eapply TCallN; eauto; discriminate).
    apply TCallR; auto.
Qed.

Lemma outcome_eqb_eq a b : outcome_eqb a b = true -> a = b.
Proof. destruct a, b; cbn; congruence. Qed.

Definition outcome_is (raised:bool) (o:outcome) : Prop :=
  if raised then o = ORaise else o = ONorm \/ o = ORet.

Lemma final_ok_spec raised x : final_ok raised x = true -> i_rest x = [] /\ outcome_is raised (i_out x).
Proof.
  unfold final_ok, outcome_is. destruct (i_rest x); [|discriminate]. intros H. split; auto.
  destruct raised.
  - apply outcome_eqb_eq; auto.
  - apply orb_true_iff in H as [H|H]; apply outcome_eqb_eq in H; auto.
Qed.

(* ---- `xexec` is `exec` with its events ---------------------------------------------------- *)
Theorem xexec_exec : forall s σ tr o σ', xexec s σ tr o σ' -> exec s σ o σ'.
Proof. induction 1; eauto using exec. Qed.

Theorem exec_xexec : forall s σ o σ', exec s σ o σ' -> exists tr, xexec s σ tr o σ'.
Proof.
  induction 1;
    repeat match goal with H : exists _, _ |- _ => destruct H end.
  1-13: (eexists; econstructor; fail).
  - eexists. eapply TSeqN; eauto.
  - eexists. eapply TSeqX; eauto.
  - eexists. eapply TIfL; eauto.
  - eexists. eapply TIfR; eauto.
  - eexists. eapply TLoop0; eauto.
  - eexists. eapply TLoopN; eauto.
  - eexists. eapply TLoopC; eauto.
  - eexists. eapply TLoopB; eauto.
  - eexists. eapply TLoopX; eauto.
  - eexists. eapply TFinN; eauto.
  - eexists. eapply TFinX; eauto.
  - eexists. eapply TExcP; eauto.
  - eexists. eapply TExcH; eauto.
  - eexists. eapply TGuardRun; eauto.
  - eexists. eapply TGuardSkip; eauto.
  - eexists. eapply TCallN; eauto.
  - eexists. eapply TCallR; eauto.
Qed.

(* an accepted observation is the event sequence of a run of the skeleton that starts
   owning nothing and ends as observed (returned / raised) *)
Theorem accepts_sound s tr raised : accepts s tr raised = true ->
  exists o σ', xexec s ([], [], 0) tr o σ' /\ outcome_is raised o.
Proof.
  unfold accepts. intros H. apply existsb_exists in H as [[[o r] σ'] [Hin Ho]].
  apply final_ok_spec in Ho as [Hr Ho]. unfold i_rest, i_out in *. cbn [fst snd] in *. subst r.
  destruct (acc_sound s _ _ _ _ _ Hin) as [pre [E X]]. rewrite app_nil_r in E. subst pre.
  eauto.
Qed.

(* ... and, for a leak-free skeleton, such a run ends owning nothing open *)
Corollary accepted_is_clean s tr raised : leak_free s = true -> accepts s tr raised = true ->
  exists o σ', xexec s ([], [], 0) tr o σ' /\ outcome_is raised o /\ owned σ' = [] /\ lost σ' = 0.
Proof.
  intros Hl H. destruct (accepts_sound _ _ _ H) as [o [σ' [X Ho]]].
  destruct (leak_free_sound s Hl _ _ _ _ (xexec_exec _ _ _ _ _ X)) as [Hw Hn]. eauto 6.
Qed.
