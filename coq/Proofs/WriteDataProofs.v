(* Proofs.WriteDataProofs — the data lines written by Model/Writer.v read back, token for
   token, through both data engines of Model/DataRead.v (C01):
   * cell_text / col_fmt facts (NaN -> NULL text, number -> fmt % x, per-column format),
   * a written row is  pad_0 ++ t_0 ++ pad_1 ++ t_1 ...  and str.split() returns t_0, t_1, ...,
   * the unwrapped lines give both engines (and the sniffer) the token matrix,
   * the wrapped lines (TextWrap.wrap, any width) give the normal engine, reshaped by the
     declared column count, the same matrix. *)
From Coq Require Import List Arith NArith Bool Lia ZifyBool ZifyN ZifyNat.
Import ListNotations.
Require Import PyStr Regex Regexes NumLit DataRead TextWrap Writer.
Require Import RegexSubFacts RegexLocalFacts SplitWsFacts TextWrapProofs DataReadProofs.
Open Scope list_scope.

(* ======================================================================================= *)
(* generic list facts                                                                      *)
(* ======================================================================================= *)
Lemma flat_map_flat_map {A B C} (f : A -> list B) (g : B -> list C) : forall l,
  flat_map g (flat_map f l) = flat_map (fun x => flat_map g (f x)) l.
Proof.
  induction l as [|x l IH]; [reflexivity|]. cbn [flat_map]. rewrite flat_map_app, IH. reflexivity.
Qed.

Lemma opt_all_map_some {A B} (f : A -> option B) (g : A -> B) : forall l,
  (forall x, In x l -> f x = Some (g x)) -> opt_all (map f l) = Some (map g l).
Proof.
  induction l as [|x l IH]; intros H; [reflexivity|]. cbn [map opt_all].
  rewrite (H x (or_introl eq_refl)), IH; [reflexivity|]. intros y Hy. apply H. right. exact Hy.
Qed.

Lemma opt_all_none {A B} (f : A -> option B) : forall l x,
  In x l -> f x = None -> opt_all (map f l) = None.
Proof.
  induction l as [|y l IH]; intros x Hin Hx; [contradiction|]. cbn [map opt_all].
  destruct Hin as [->|Hin].
  - rewrite Hx. reflexivity.
  - destruct (f y); [|reflexivity]. rewrite (IH x Hin Hx). reflexivity.
Qed.

Lemma filter_nonempty_all {A} : forall l : list (list A),
  Forall (fun r => r <> []) l -> filter nonempty l = l.
Proof.
  induction l as [|r l IH]; intros H; [reflexivity|]. inversion H as [|? ? Hr Hl]; subst.
  cbn [filter]. destruct r; [congruence|]. cbn [nonempty]. rewrite IH by exact Hl. reflexivity.
Qed.

(* ======================================================================================= *)
(* the writer side                                                                         *)
(* ======================================================================================= *)
Section Write.
Variable fmtv : list N -> list N -> list N.
Variable fmt_pi : list N -> list N.

(* ---- cells ------------------------------------------------------------------------------ *)
Lemma cell_text_nan f nt : cell_text fmtv f (Some nt) CNaN = Some nt.
Proof. reflexivity. Qed.
Lemma cell_text_nan_nonull f : cell_text fmtv f None CNaN = None.
Proof. reflexivity. Qed.
Lemma cell_text_num f nt t : cell_text fmtv f nt (CNum t) = Some (fmtv f t).
Proof. reflexivity. Qed.

Lemma col_fmt_default o j : ~ In j (map fst (wo_column_fmt o)) -> col_fmt o j = wo_fmt o.
Proof.
  unfold col_fmt. intros H.
  destruct (List.find (fun kv => Nat.eqb (fst kv) j) (wo_column_fmt o)) as [kv|] eqn:E; [|reflexivity].
  apply find_some in E as [Hin Hk]. apply Nat.eqb_eq in Hk. exfalso. apply H. rewrite <- Hk.
  apply in_map. exact Hin.
Qed.

Lemma find_key_nodup (j : nat) (f : list N) : forall l,
  NoDup (map fst l) -> In (j, f) l -> List.find (fun kv : nat * list N => Nat.eqb (fst kv) j) l = Some (j, f).
Proof.
  induction l as [|[k g] l IH]; intros Hnd Hin; [contradiction|].
  cbn [map fst] in Hnd. inversion Hnd as [|? ? Hk Hl]; subst. cbn [List.find fst].
  destruct Hin as [E|Hin].
  - injection E as -> ->. rewrite Nat.eqb_refl. reflexivity.
  - destruct (Nat.eqb_spec k j) as [->|_]; [|apply IH; assumption].
    exfalso. apply Hk. change j with (fst (j, f)). apply in_map. exact Hin.
Qed.

Lemma col_fmt_own o j f :
  NoDup (map fst (wo_column_fmt o)) -> In (j, f) (wo_column_fmt o) -> col_fmt o j = f.
Proof. intros Hnd Hin. unfold col_fmt. rewrite (find_key_nodup j f _ Hnd Hin). reflexivity. Qed.

(* a NaN cell without a NULL item: the row, hence the data section, is not produced *)
Lemma row_text_nan_nonull o : forall row j, In CNaN row -> row_text fmtv fmt_pi o None j row = None.
Proof.
  induction row as [|c row IH]; intros j Hin; [contradiction|]. cbn [row_text].
  destruct Hin as [->|Hin].
  - unfold field_text. rewrite cell_text_nan_nonull. reflexivity.
  - rewrite (IH (S j) Hin). destruct (field_text fmtv fmt_pi o j None c); reflexivity.
Qed.

Lemma rows_nan_nonull o rows row :
  In row rows -> In CNaN row -> opt_all (map (row_text fmtv fmt_pi o None 0) rows) = None.
Proof. intros Hr Hc. eapply opt_all_none; [exact Hr|]. apply row_text_nan_nonull. exact Hc. Qed.

(* ---- a row is padded tokens --------------------------------------------------------------- *)
(* what precedes the text v of column j: the spacer, then the right-justification blanks *)
Definition pad_of (o : wopts) (j : nat) (v : list N) : list N :=
  (if Nat.eqb j 0 then wo_lhs_spacer o else wo_spacer o) ++
  match field_width fmt_pi o with Some l => repeat_ch 32 (l - List.length v) | None => [] end.

Lemma field_text_pad o j nt c :
  field_text fmtv fmt_pi o j nt c =
  match cell_text fmtv (col_fmt o j) nt c with None => None | Some v => Some (pad_of o j v ++ v) end.
Proof.
  unfold field_text, pad_of. destruct (cell_text fmtv (col_fmt o j) nt c) as [v|]; [|reflexivity].
  destruct (field_width fmt_pi o) as [l|].
  - unfold rjust. rewrite <- app_assoc. reflexivity.
  - rewrite app_nil_r. reflexivity.
Qed.

Fixpoint row_pairs (o : wopts) (j : nat) (toks : list (list N)) : list (list N * list N) :=
  match toks with
  | [] => []
  | t :: ts => (pad_of o j t, t) :: row_pairs o (S j) ts
  end.

Lemma row_pairs_snd o : forall toks j, map snd (row_pairs o j toks) = toks.
Proof. induction toks as [|t ts IH]; intros j; [reflexivity|]. cbn [row_pairs map snd]. rewrite IH. reflexivity. Qed.

Lemma row_text_pairs o nt : forall row j toks,
  List.length toks = List.length row ->
  (forall k c, nth_error row k = Some c ->
               cell_text fmtv (col_fmt o (j + k)) nt c = Some (nth k toks [])) ->
  row_text fmtv fmt_pi o nt j row = Some (concat (map padtok (row_pairs o j toks))).
Proof.
  induction row as [|c row IH]; intros j toks Hlen H.
  - destruct toks; [reflexivity|discriminate Hlen].
  - destruct toks as [|t ts]; [discriminate Hlen|]. cbn [List.length] in Hlen.
    cbn [row_text]. rewrite field_text_pad.
    pose proof (H 0%nat c eq_refl) as H0. rewrite Nat.add_0_r in H0. cbn [nth] in H0. rewrite H0.
    rewrite (IH (S j) ts); [reflexivity|lia|].
    intros k c' Hk. specialize (H (S k) c' Hk). cbn [nth] in H.
    replace (S j + k)%nat with (j + S k)%nat by lia. exact H.
Qed.

(* "separated": something stands before every token but the first *)
Definition separated (o : wopts) (toks : list (list N)) : Prop :=
  forall j, (1 <= j < List.length toks)%nat ->
    wo_spacer o <> [] \/
    exists l, field_width fmt_pi o = Some l /\ (List.length (nth j toks []) < l)%nat.

(* executable form *)
Definition separatedb (o : wopts) (toks : list (list N)) : bool :=
  nonempty (wo_spacer o) ||
  match field_width fmt_pi o with
  | Some l => forallb (fun t => Nat.ltb (List.length t) l) (tl toks)
  | None => false
  end.

Lemma separatedb_sound o toks : separatedb o toks = true -> separated o toks.
Proof using fmt_pi.
  clear fmtv. unfold separatedb, separated. intros H j Hj. apply orb_true_iff in H as [H|H].
  - left. intros E. rewrite E in H. discriminate H.
  - right. destruct (field_width fmt_pi o) as [l|]; [|discriminate H]. exists l. split; [reflexivity|].
    destruct toks as [|t0 ts]; [cbn [List.length] in Hj; lia|]. cbn [tl] in H.
    destruct j as [|j]; [lia|]. cbn [nth List.length] in *.
    rewrite forallb_forall in H. apply Nat.ltb_lt. apply H. apply nth_In. lia.
Qed.

Lemma pad_of_space o j v :
  forallb is_space (wo_lhs_spacer o) = true -> forallb is_space (wo_spacer o) = true ->
  forallb is_space (pad_of o j v) = true.
Proof.
  intros Hl Hs. unfold pad_of. rewrite forallb_app. apply andb_true_iff. split.
  - destruct (Nat.eqb j 0); assumption.
  - destruct (field_width fmt_pi o); [apply repeat_32_space|reflexivity].
Qed.

Lemma pad_of_nonempty o j v :
  (1 <= j)%nat ->
  (wo_spacer o <> [] \/ exists l, field_width fmt_pi o = Some l /\ (List.length v < l)%nat) ->
  pad_of o j v <> [].
Proof.
  intros Hj H. unfold pad_of. destruct (Nat.eqb_spec j 0) as [->|_]; [lia|].
  destruct H as [H|(l & -> & Hl)].
  - destruct (wo_spacer o); [congruence|discriminate].
  - intros E. apply app_eq_nil in E as [_ E]. unfold repeat_ch in E.
    destruct (l - List.length v)%nat eqn:D; [lia|discriminate E].
Qed.

Lemma row_pairs_ok o : forall toks j,
  forallb is_space (wo_lhs_spacer o) = true -> forallb is_space (wo_spacer o) = true ->
  Forall good_tok toks ->
  Forall (fun p => forallb is_space (fst p) = true /\ good_tok (snd p)) (row_pairs o j toks).
Proof.
  induction toks as [|t ts IH]; intros j Hl Hs H; [constructor|].
  inversion H as [|? ? Ht Hts]; subst. cbn [row_pairs]. constructor.
  - cbn [fst snd]. split; [apply pad_of_space; assumption|exact Ht].
  - apply IH; assumption.
Qed.

Lemma row_pairs_nonempty o : forall toks j,
  (forall k, (k < List.length toks)%nat -> (1 <= j + k)%nat ->
     wo_spacer o <> [] \/
     exists l, field_width fmt_pi o = Some l /\ (List.length (nth k toks []) < l)%nat) ->
  Forall (fun p => (1 <= j)%nat -> fst p <> []) (firstn 1 (row_pairs o j toks)) /\
  Forall (fun p => fst p <> []) (tl (row_pairs o j toks)).
Proof.
  induction toks as [|t ts IH]; intros j H; [split; constructor|].
  cbn [row_pairs firstn tl]. split.
  - constructor; [|constructor]. cbn [fst]. intros Hj. apply pad_of_nonempty; [exact Hj|].
    apply (H 0%nat); cbn [List.length]; lia.
  - destruct (IH (S j)) as (H1 & H2).
    { intros k Hk _. apply (H (S k)); cbn [List.length]; lia. }
    destruct ts as [|t2 ts2]; [constructor|]. cbn [row_pairs firstn tl] in *.
    constructor; [|exact H2]. inversion H1 as [|? ? Hp _]; subst. apply Hp. lia.
Qed.

Theorem row_tokens o nt row toks :
  List.length toks = List.length row ->
  (forall j c, nth_error row j = Some c -> cell_text fmtv (col_fmt o j) nt c = Some (nth j toks [])) ->
  Forall good_tok toks ->
  forallb is_space (wo_lhs_spacer o) = true -> forallb is_space (wo_spacer o) = true ->
  separated o toks ->
  exists line, row_text fmtv fmt_pi o nt 0 row = Some line /\ split_ws line = toks.
Proof.
  intros Hlen Hcell Hgood Hl Hs Hsep.
  exists (concat (map padtok (row_pairs o 0 toks))). split.
  - apply row_text_pairs; [exact Hlen|]. intros k c Hk. cbn [Nat.add]. apply Hcell. exact Hk.
  - rewrite split_ws_padded.
    + apply row_pairs_snd.
    + apply row_pairs_ok; assumption.
    + apply (row_pairs_nonempty o toks 0). intros k Hk Hk1. apply Hsep. lia.
Qed.

(* ---- with a NULL item every cell has a text: the token matrix ------------------------------ *)
Definition field_tok (o : wopts) (nt : list N) (j : nat) (c : cell) : list N :=
  match c with CNum t => fmtv (col_fmt o j) t | CNaN => nt | CStr s => s end.

Lemma cell_text_some o nt j c : cell_text fmtv (col_fmt o j) (Some nt) c = Some (field_tok o nt j c).
Proof. destruct c; reflexivity. Qed.

Fixpoint row_toks_from (o : wopts) (nt : list N) (j : nat) (row : list cell) : list (list N) :=
  match row with
  | [] => []
  | c :: row' => field_tok o nt j c :: row_toks_from o nt (S j) row'
  end.
Definition row_toks (o : wopts) (nt : list N) (row : list cell) : list (list N) := row_toks_from o nt 0 row.
Definition tok_matrix (o : wopts) (nt : list N) (rows : list (list cell)) : list (list (list N)) :=
  map (row_toks o nt) rows.

Lemma row_toks_from_length o nt : forall row j, List.length (row_toks_from o nt j row) = List.length row.
Proof. induction row as [|c row IH]; intros j; [reflexivity|]. cbn [row_toks_from List.length]. rewrite IH. reflexivity. Qed.

Lemma row_toks_from_nth o nt : forall row j k c,
  nth_error row k = Some c -> nth k (row_toks_from o nt j row) [] = field_tok o nt (j + k) c.
Proof using fmtv.
  clear fmt_pi. induction row as [|c0 row IH]; intros j k c H; [destruct k; discriminate H|].
  destruct k as [|k]; cbn [nth_error] in H; cbn [row_toks_from nth].
  - injection H as ->. rewrite Nat.add_0_r. reflexivity.
  - rewrite (IH (S j) k c H). f_equal. lia.
Qed.

Lemma row_toks_length o nt row : List.length (row_toks o nt row) = List.length row.
Proof. apply row_toks_from_length. Qed.

Lemma row_toks_nth o nt row j c :
  nth_error row j = Some c -> nth j (row_toks o nt row) [] = field_tok o nt j c.
Proof using fmtv. intros H. unfold row_toks. rewrite (row_toks_from_nth o nt row 0 j c H). reflexivity. Qed.

(* the written line of a row *)
Definition row_line (o : wopts) (nt : list N) (row : list cell) : list N :=
  concat (map padtok (row_pairs o 0 (row_toks o nt row))).

Lemma row_text_line o nt row : row_text fmtv fmt_pi o (Some nt) 0 row = Some (row_line o nt row).
Proof.
  unfold row_line. apply row_text_pairs; [apply row_toks_length|].
  intros k c Hk. cbn [Nat.add]. rewrite cell_text_some, (row_toks_nth o nt row k c Hk). reflexivity.
Qed.

Theorem lines_defined o nt rows :
  opt_all (map (row_text fmtv fmt_pi o (Some nt) 0) rows) = Some (map (row_line o nt) rows).
Proof. apply opt_all_map_some. intros row _. apply row_text_line. Qed.

Lemma row_line_tokens o nt row :
  Forall good_tok (row_toks o nt row) ->
  forallb is_space (wo_lhs_spacer o) = true -> forallb is_space (wo_spacer o) = true ->
  separated o (row_toks o nt row) ->
  split_ws (row_line o nt row) = row_toks o nt row.
Proof.
  intros Hgood Hl Hs Hsep. unfold row_line. rewrite split_ws_padded.
  - apply row_pairs_snd.
  - apply row_pairs_ok; assumption.
  - apply (row_pairs_nonempty o _ 0). intros k Hk Hk1. apply Hsep. lia.
Qed.

Theorem lines_tokens o nt rows rts :
  Forall (Forall good_tok) (tok_matrix o nt rows) ->
  forallb is_space (wo_lhs_spacer o) = true -> forallb is_space (wo_spacer o) = true ->
  Forall (separated o) (tok_matrix o nt rows) ->
  opt_all (map (row_text fmtv fmt_pi o (Some nt) 0) rows) = Some rts ->
  map split_ws rts = tok_matrix o nt rows.
Proof.
  intros Hgood Hl Hs Hsep Hrts. rewrite lines_defined in Hrts. injection Hrts as <-.
  unfold tok_matrix in *. rewrite map_map. apply map_ext_in. intros row Hin.
  rewrite Forall_forall in Hgood, Hsep.
  apply row_line_tokens; try assumption; [apply Hgood|apply Hsep]; apply in_map; exact Hin.
Qed.

End Write.

(* ======================================================================================= *)
(* wrapping keeps the flat token list                                                      *)
(* ======================================================================================= *)
Theorem wrapped_tokens w (lines : list (list N)) :
  concat (map split_ws (flat_map (wrap w) lines)) = concat (map split_ws lines).
Proof.
  rewrite <- !flat_map_concat_map. rewrite flat_map_flat_map.
  apply flat_map_ext. intros l. apply wrap_tokens.
Qed.

(* a line terminator that strip() removes does not change the tokens *)
Lemma map_split_ws_eol eol (lines : list (list N)) :
  forallb is_space eol = true ->
  map split_ws (map (fun l => l ++ eol) lines) = map split_ws lines.
Proof. intros H. rewrite map_map. apply map_ext. intros l. apply split_ws_app_trailing. exact H. Qed.

(* ======================================================================================= *)
(* the reader side                                                                         *)
(* ======================================================================================= *)
(* what is asked of a physical line beyond its tokens: no '#', no quote, no ^Z, and none of
   the three read substitutions fires on the stripped line *)
Definition clean_lineb (raw : list N) : bool :=
  let l := strip raw in
  negb (in_str 35 raw) && negb (in_str 34 raw) && negb (in_str 39 raw) && negb (in_str 26 raw)
  && nomatchb rx_sub_comma [] l && nomatchb rx_sub_runon_minus [] l && nomatchb rx_sub_runon_dot [] l.

Lemma is_data_lineb_clean fhex c raw :
  is_data_lineb fhex c raw =
  clean_lineb raw && Nat.eqb (List.length (split_ws (strip raw))) c
  && forallb (is_float_tok fhex) (split_ws (strip raw)).
Proof. reflexivity. Qed.

Lemma clean_facts raw : clean_lineb raw = true ->
  in_str 35 raw = false /\ in_str 34 raw = false /\ in_str 39 raw = false /\ in_str 26 raw = false /\
  forall s, sub_nomatchb s (strip raw) = true.
Proof.
  unfold clean_lineb. intros D. repeat (apply andb_true_iff in D as [D ?]).
  repeat match goal with Hn : negb _ = true |- _ => apply negb_true_iff in Hn end.
  repeat split; try assumption. intros [| |]; cbn [sub_nomatchb]; assumption.
Qed.

Lemma no_hash_startswith l : in_str 35 l = false -> startswith [ch_hash] l = false.
Proof.
  destruct l as [|x l]; [reflexivity|]. unfold in_str. cbn [existsb startswith]. intros H.
  apply orb_false_iff in H as [H _]. unfold ch_hash. rewrite H. reflexivity.
Qed.

Lemma clean_line_toks raw : clean_lineb raw = true -> line_toks raw = split_ws raw.
Proof.
  intros H. destruct (clean_facts raw H) as (H35 & _).
  unfold line_toks. rewrite no_hash_startswith by (apply in_str_strip_false; exact H35).
  apply split_ws_strip.
Qed.

Lemma clean_line_items raw subs : clean_lineb raw = true -> line_items DSpace subs raw = split_ws raw.
Proof.
  intros H. destruct (clean_facts raw H) as (H35 & H34 & H39 & H26 & Hsub).
  unfold line_items. rewrite no_hash_startswith by (apply in_str_strip_false; exact H35).
  rewrite apply_subs_id by exact Hsub.
  rewrite remove_char_absent by (apply in_str_strip_false; exact H26).
  rewrite <- split_ws_strip.
  destruct (strip raw) as [|x l] eqn:E; [reflexivity|]. rewrite <- E.
  cbn [split_line]. apply sow_is_split; apply in_str_strip_false; assumption.
Qed.

Lemma clean_dom2 fhex c raw :
  clean_lineb raw = true -> List.length (split_ws raw) = c ->
  forallb (is_float_tok fhex) (split_ws raw) = true -> dom2_lineb fhex c raw = true.
Proof.
  intros H Hc Hf. unfold dom2_lineb. destruct (strip raw) eqn:E; [reflexivity|]. rewrite <- E.
  rewrite is_data_lineb_clean, H, split_ws_strip, Hf, Hc, Nat.eqb_refl. apply orb_true_r.
Qed.

(* ---- the same asked of the tokens only ------------------------------------------------------ *)
Definition clean_tokb (t : list N) : bool :=
  negb (in_str 35 t) && negb (in_str 34 t) && negb (in_str 39 t) && negb (in_str 26 t)
  && nomatchb rx_sub_comma [] t && nomatchb rx_sub_runon_minus [] t && nomatchb rx_sub_runon_dot [] t.

(* the three substitution patterns of the source as translated today: classes of non-space
   characters only, no look-around, no anchor; none matches the empty string *)
Lemma subs_are_local :
  (re_local rx_sub_comma = true /\ nomatchb rx_sub_comma [] [] = true) /\ (re_local rx_sub_runon_minus = true /\ nomatchb rx_sub_runon_minus [] [] = true) /\ (re_local rx_sub_runon_dot = true /\ nomatchb rx_sub_runon_dot [] [] = true).
Proof. repeat split; vm_compute; reflexivity. Qed.

Lemma clean_tok_facts t : clean_tokb t = true ->
  in_str 35 t = false /\ in_str 34 t = false /\ in_str 39 t = false /\ in_str 26 t = false /\ nomatchb rx_sub_comma [] t = true /\ nomatchb rx_sub_runon_minus [] t = true /\ nomatchb rx_sub_runon_dot [] t = true.
Proof.
  unfold clean_tokb. intros D. repeat (apply andb_true_iff in D as [D ?]).
  repeat match goal with Hn : negb _ = true |- _ => apply negb_true_iff in Hn end.
  repeat split; assumption.
Qed.

(* a line is clean as soon as its str.split() fields are: white space carries none of the
   excluded characters and no substitution pattern can match across it *)
Theorem clean_line_of_tokens raw :
  Forall (fun t => clean_tokb t = true) (split_ws raw) -> clean_lineb raw = true.
Proof.
  intros H. rewrite Forall_forall in H.
  assert (Hf : forall t, In t (split_ws raw) -> _) by (intros t Ht; exact (clean_tok_facts t (H t Ht))).
  destruct subs_are_local as ((L1 & N1) & (L2 & N2) & (L3 & N3)).
  unfold clean_lineb.
  rewrite (in_str_tokens 35 raw eq_refl) by (intros t Ht; apply (Hf t Ht)).
  rewrite (in_str_tokens 34 raw eq_refl) by (intros t Ht; apply (Hf t Ht)).
  rewrite (in_str_tokens 39 raw eq_refl) by (intros t Ht; apply (Hf t Ht)).
  rewrite (in_str_tokens 26 raw eq_refl) by (intros t Ht; apply (Hf t Ht)).
  rewrite (nomatch_tokens rx_sub_comma (strip raw) L1 N1)
    by (rewrite split_ws_strip; intros t Ht; apply (Hf t Ht)).
  rewrite (nomatch_tokens rx_sub_runon_minus (strip raw) L2 N2)
    by (rewrite split_ws_strip; intros t Ht; apply (Hf t Ht)).
  rewrite (nomatch_tokens rx_sub_runon_dot (strip raw) L3 N3)
    by (rewrite split_ws_strip; intros t Ht; apply (Hf t Ht)).
  reflexivity.
Qed.

Section Read.
Variable fhex : list N -> option (list N).
Variable fstr : list N -> list N.

(* the columns both engines must return for the token matrix T *)
Definition cols_of (c : nat) (T : list (list (list N))) : list (list cell) :=
  map (map (mk_num fhex)) (transpose_n c T).

Lemma cols_of_length c T : List.length (cols_of c T) = c.
Proof. unfold cols_of. rewrite map_length. apply transpose_n_length. Qed.

Lemma cols_of_nth c T j : (j < c)%nat ->
  nth j (cols_of c T) [] = map (fun toks => mk_num fhex (nth j toks [])) T.
Proof.
  intros Hj. unfold cols_of.
  change (@nil cell) with (map (mk_num fhex) []). rewrite map_nth.
  rewrite transpose_n_nth by exact Hj. apply map_map.
Qed.

(* cell i of column j is the numeric cell of token j of row i *)
Lemma cols_of_cell c T i j toks : (j < c)%nat ->
  nth_error T i = Some toks ->
  nth_error (nth j (cols_of c T) []) i = Some (mk_num fhex (nth j toks [])).
Proof. intros Hj Hi. rewrite cols_of_nth by exact Hj. rewrite nth_error_map, Hi. reflexivity. Qed.

(* one physical line per row: both engines and the sniffer *)
Theorem engines_of_tokens subs c body T :
  (0 < c)%nat -> T <> [] ->
  Forall (fun r : list (list N) => List.length r = c) T ->
  Forall (fun r => forallb (is_float_tok fhex) r = true) T ->
  Forall (fun raw => clean_lineb raw = true) body ->
  map split_ws body = T ->
  numpy_engine fhex body = Some (cols_of c T) /\
  normal_engine fhex fstr DSpace subs c body = DOk (cols_of c T) /\
  fst (inspect DSpace body subs) = Some c /\
  fst (inspect_twice DSpace body subs) = Some c.
Proof.
  intros Hc Hne Hlen Hfl Hclean Htok.
  assert (Hdom : Forall (fun raw => dom2_lineb fhex c raw = true) body).
  { rewrite Forall_forall in *. intros raw Hin.
    assert (HT : In (split_ws raw) T) by (rewrite <- Htok; apply in_map; exact Hin).
    apply clean_dom2; [apply Hclean; exact Hin|apply Hlen; exact HT|apply Hfl; exact HT]. }
  assert (Hrows : DataReadProofs.data_rows body = T).
  { unfold DataReadProofs.data_rows.
    rewrite (map_ext_in line_toks split_ws).
    - rewrite Htok. apply filter_nonempty_all. eapply Forall_impl; [|exact Hlen].
      intros r Hr E. rewrite E in Hr. cbn in Hr. lia.
    - intros raw Hin. apply clean_line_toks. rewrite Forall_forall in Hclean. apply Hclean. exact Hin. }
  assert (Hne' : DataReadProofs.data_rows body <> []) by (rewrite Hrows; exact Hne).
  unfold cols_of. rewrite <- Hrows. fold (spec_columns fhex c body).
  split; [apply numpy_spec; assumption|]. split; [apply normal_spec; assumption|].
  split; [apply (sniff_spec fhex)|apply (sniff_twice_spec fhex)]; assumption.
Qed.

(* any cutting of the rows into physical lines that keeps the flat token list: the normal
   engine with the declared column count *)
Theorem normal_of_flat_tokens subs c body T :
  (0 < c)%nat -> T <> [] ->
  Forall (fun r : list (list N) => List.length r = c) T ->
  Forall (fun r => forallb (is_float_tok fhex) r = true) T ->
  Forall (fun raw => clean_lineb raw = true) body ->
  concat (map split_ws body) = concat T ->
  normal_engine fhex fstr DSpace subs c body = DOk (cols_of c T).
Proof.
  intros Hc Hne Hlen Hfl Hclean Htok. unfold normal_engine.
  rewrite normal_items_concat.
  rewrite (map_ext_in (line_items DSpace subs) split_ws)
    by (intros raw Hin; apply clean_line_items; rewrite Forall_forall in Hclean; apply Hclean; exact Hin).
  rewrite Htok.
  assert (Hf : forallb (is_float_tok fhex) (concat T) = true).
  { rewrite forallb_concat. apply forallb_forall. rewrite Forall_forall in Hfl. exact Hfl. }
  assert (Hn : match concat T with [] => 0%nat | _ => c end = c).
  { destruct T as [|r0 T']; [congruence|].
    inversion Hlen as [|? ? Hr0 _]. destruct r0; [cbn in Hr0; lia|]. reflexivity. }
  rewrite Hn. destruct c as [|c']; [lia|].
  rewrite (reshape_concat (S c') T Hc Hlen), Hf. reflexivity.
Qed.

End Read.

(* ======================================================================================= *)
(* composition: written data lines -> both engines                                         *)
(* ======================================================================================= *)
Section RoundTrip.
Variable fmtv : list N -> list N -> list N.
Variable fmt_pi : list N -> list N.
Variable fhex : list N -> option (list N).
Variable fstr : list N -> list N.

(* a token the writer may print: non-empty, no white space, float() reads it *)
Definition num_tok (t : list N) : Prop := good_tok t /\ is_float_tok fhex t = true.

Definition num_tokb (t : list N) : bool := nonempty t && nosp t && is_float_tok fhex t.

Lemma num_tokb_sound t : num_tokb t = true -> num_tok t.
Proof.
  unfold num_tokb. intros H. apply andb_true_iff in H as [H H3]. apply andb_true_iff in H as [H1 H2].
  split; [split|]; try assumption. intros ->. discriminate H1.
Qed.

Lemma num_tok_matrixb (T : list (list (list N))) :
  forallb (forallb num_tokb) T = true -> Forall (Forall num_tok) T.
Proof.
  intros H. apply Forall_forall. intros r Hr. apply Forall_forall. intros t Ht.
  rewrite forallb_forall in H. specialize (H r Hr). rewrite forallb_forall in H.
  apply num_tokb_sound. apply H. exact Ht.
Qed.

Lemma separated_matrixb o (T : list (list (list N))) :
  forallb (separatedb fmt_pi o) T = true -> Forall (separated fmt_pi o) T.
Proof.
  intros H. apply Forall_forall. intros r Hr. rewrite forallb_forall in H.
  apply separatedb_sound. apply H. exact Hr.
Qed.

Lemma tok_matrix_shape o nt rows c :
  Forall (fun row : list cell => List.length row = c) rows ->
  Forall (fun r : list (list N) => List.length r = c) (tok_matrix fmtv o nt rows).
Proof.
  intros H. unfold tok_matrix. apply Forall_forall. intros r Hin.
  apply in_map_iff in Hin as (row & <- & Hrow). rewrite row_toks_length.
  rewrite Forall_forall in H. apply H. exact Hrow.
Qed.

(* sample (i, j) comes back as the numeric cell of exactly the text that was written for it *)
Theorem roundtrip_cell o nt rows c i j row cell :
  (j < c)%nat -> nth_error rows i = Some row -> nth_error row j = Some cell ->
  nth_error (nth j (cols_of fhex c (tok_matrix fmtv o nt rows)) []) i =
  Some (mk_num fhex (field_tok fmtv o nt j cell)).
Proof using fmtv fhex.
  intros Hj Hi Hc. rewrite (cols_of_cell fhex c _ i j (row_toks fmtv o nt row) Hj).
  - rewrite (row_toks_nth fmtv o nt row j cell Hc). reflexivity.
  - unfold tok_matrix. rewrite nth_error_map, Hi. reflexivity.
Qed.

Theorem data_roundtrip o nt subs rows c rts eol :
  (0 < c)%nat -> rows <> [] ->
  Forall (fun row : list cell => List.length row = c) rows ->
  let T := tok_matrix fmtv o nt rows in
  Forall (Forall num_tok) T ->
  forallb is_space (wo_lhs_spacer o) = true -> forallb is_space (wo_spacer o) = true ->
  Forall (separated fmt_pi o) T ->
  forallb is_space eol = true ->
  opt_all (map (row_text fmtv fmt_pi o (Some nt) 0) rows) = Some rts ->
  let cols := cols_of fhex c T in
  (* unwrapped: one physical line per row *)
  (let body := map (fun l => l ++ eol) rts in
   Forall (fun raw => clean_lineb raw = true) body ->
   numpy_engine fhex body = Some cols /\
   normal_engine fhex fstr DSpace subs c body = DOk cols /\
   fst (inspect_twice DSpace body subs) = Some c) /\
  (* wrapped at any width: the normal engine with the declared column count *)
  (forall w, let wbody := map (fun l => l ++ eol) (flat_map (wrap w) rts) in
   Forall (fun raw => clean_lineb raw = true) wbody ->
   normal_engine fhex fstr DSpace subs c wbody = DOk cols) /\
  (* shape and content of the columns *)
  List.length cols = c /\
  forall j, (j < c)%nat ->
    nth j cols [] = map (fun toks => mk_num fhex (nth j toks [])) T /\
    List.length (nth j cols []) = List.length rows.
Proof.
  intros Hc Hne Hshape T Hnum Hl Hs Hsep Heol Hrts cols.
  assert (Hgood : Forall (Forall good_tok) T).
  { eapply Forall_impl; [|exact Hnum]. intros r Hr. eapply Forall_impl; [|exact Hr]. intros t [Ht _]. exact Ht. }
  assert (Hfl : Forall (fun r => forallb (is_float_tok fhex) r = true) T).
  { eapply Forall_impl; [|exact Hnum]. intros r Hr. apply forallb_forall. rewrite Forall_forall in Hr.
    intros t Ht. apply (Hr t Ht). }
  pose proof (lines_tokens fmtv fmt_pi o nt rows rts Hgood Hl Hs Hsep Hrts) as Htok. fold T in Htok.
  pose proof (tok_matrix_shape o nt rows c Hshape) as Hlen. fold T in Hlen.
  assert (HTne : T <> []).
  { unfold T, tok_matrix. destruct rows; [congruence|discriminate]. }
  split; [|split; [|split]].
  - intros body Hclean.
    destruct (engines_of_tokens fhex fstr subs c body T Hc HTne Hlen Hfl Hclean) as (E1 & E2 & _ & E4).
    { unfold body. rewrite map_split_ws_eol by exact Heol. exact Htok. }
    auto.
  - intros w wbody Hclean. apply normal_of_flat_tokens; try assumption.
    unfold wbody. rewrite map_split_ws_eol by exact Heol. rewrite wrapped_tokens, Htok. reflexivity.
  - apply cols_of_length.
  - intros j Hj. split; [apply cols_of_nth; exact Hj|].
    unfold cols. rewrite cols_of_nth by exact Hj. rewrite map_length. unfold T, tok_matrix. apply map_length.
Qed.

(* ---- the same with hypotheses on the tokens only ---------------------------------------------- *)
Definition wr_tok (t : list N) : Prop := num_tok t /\ clean_tokb t = true.
Definition wr_tokb (t : list N) : bool := num_tokb t && clean_tokb t.

Lemma wr_tok_matrixb (T : list (list (list N))) :
  forallb (forallb wr_tokb) T = true -> Forall (Forall wr_tok) T.
Proof.
  intros H. apply Forall_forall. intros r Hr. apply Forall_forall. intros t Ht.
  rewrite forallb_forall in H. specialize (H r Hr). rewrite forallb_forall in H.
  specialize (H t Ht). unfold wr_tokb in H. apply andb_true_iff in H as [H1 H2].
  split; [apply num_tokb_sound; exact H1|exact H2].
Qed.

Lemma matrix_tokens_clean (T : list (list (list N))) (lines : list (list N)) :
  map split_ws lines = T -> Forall (Forall wr_tok) T ->
  forall l t, In l lines -> In t (split_ws l) -> clean_tokb t = true.
Proof.
  intros E H l t Hl Ht. rewrite Forall_forall in H.
  assert (Hr : In (split_ws l) T) by (rewrite <- E; apply in_map; exact Hl).
  specialize (H _ Hr). rewrite Forall_forall in H. apply (H t Ht).
Qed.

Theorem data_roundtrip_tokens o nt subs rows c rts eol :
  (0 < c)%nat -> rows <> [] ->
  Forall (fun row : list cell => List.length row = c) rows ->
  let T := tok_matrix fmtv o nt rows in
  Forall (Forall wr_tok) T ->
  forallb is_space (wo_lhs_spacer o) = true -> forallb is_space (wo_spacer o) = true ->
  Forall (separated fmt_pi o) T ->
  forallb is_space eol = true ->
  opt_all (map (row_text fmtv fmt_pi o (Some nt) 0) rows) = Some rts ->
  let cols := cols_of fhex c T in
  let body := map (fun l => l ++ eol) rts in
  (numpy_engine fhex body = Some cols /\
   normal_engine fhex fstr DSpace subs c body = DOk cols /\
   fst (inspect_twice DSpace body subs) = Some c) /\
  (forall w, normal_engine fhex fstr DSpace subs c
               (map (fun l => l ++ eol) (flat_map (wrap w) rts)) = DOk cols) /\
  List.length cols = c /\
  forall j, (j < c)%nat ->
    nth j cols [] = map (fun toks => mk_num fhex (nth j toks [])) T /\
    List.length (nth j cols []) = List.length rows.
Proof.
  intros Hc Hne Hshape T Hwr Hl Hs Hsep Heol Hrts cols body.
  assert (Hnum : Forall (Forall num_tok) T).
  { eapply Forall_impl; [|exact Hwr]. intros r Hr. eapply Forall_impl; [|exact Hr]. intros t [Ht _]. exact Ht. }
  assert (Hgood : Forall (Forall good_tok) T).
  { eapply Forall_impl; [|exact Hnum]. intros r Hr. eapply Forall_impl; [|exact Hr]. intros t [Ht _]. exact Ht. }
  pose proof (lines_tokens fmtv fmt_pi o nt rows rts Hgood Hl Hs Hsep Hrts) as Htok. fold T in Htok.
  destruct (data_roundtrip o nt subs rows c rts eol Hc Hne Hshape Hnum Hl Hs Hsep Heol Hrts)
    as (Hun & Hwrap & Hrest).
  split; [|split; [|exact Hrest]].
  - apply Hun. apply Forall_forall. intros raw Hin.
    apply in_map_iff in Hin as (l & <- & Hlin). apply clean_line_of_tokens.
    rewrite split_ws_app_trailing by exact Heol. apply Forall_forall. intros t Ht.
    apply (matrix_tokens_clean T rts Htok Hwr l t Hlin Ht).
  - intros w. apply Hwrap. apply Forall_forall. intros raw Hin.
    apply in_map_iff in Hin as (wl & <- & Hwl). apply in_flat_map in Hwl as (l & Hlin & Hwl).
    apply clean_line_of_tokens. rewrite split_ws_app_trailing by exact Heol.
    apply Forall_forall. intros t Ht.
    apply (matrix_tokens_clean T rts Htok Hwr l t Hlin).
    rewrite <- (wrap_tokens w l). apply in_flat_map. exists wl. split; assumption.
Qed.

End RoundTrip.
