(* Proofs.FuncsPinsLib — the Python operations of Gen/Funcs.v's prelude (pyo_find, pyo_slice,
   pyo_item, ...) in the vocabulary of the models.  Used by the Proofs/FuncsPin*.v files. *)
From Coq Require Import List Arith NArith ZArith Bool Lia ZifyBool ZifyN ZifyNat String.
Import ListNotations.
Require Import PyStr Regex Regexes Funcs.
Open Scope list_scope.
Open Scope N_scope.

(* section names / keys of self.sections *)
Definition name_Curves : list N := Eval compute in s2l "Curves".
Definition name_Parameter : list N := Eval compute in s2l "Parameter".
Definition name_Version : list N := Eval compute in s2l "Version".
Definition name_Well : list N := Eval compute in s2l "Well".

Lemma contains_single c : forall s, contains [c] s = in_str c s.
Proof.
  intros s. unfold contains, find. generalize 0%nat.
  induction s as [|x s IH]; intros i; cbn [find_from startswith in_str existsb].
  - reflexivity.
  - destruct (c =? x); cbn [andb orb]; [reflexivity|]. apply IH.
Qed.

Lemma pyo_slice_to i (s : list N) : pyo_slice None (Some (Z.of_nat i)) s = firstn i s.
Proof.
  unfold pyo_slice, pyo_bound.
  destruct (Z.of_nat i <? 0)%Z eqn:E; [lia|].
  rewrite Nat2Z.id, Nat.sub_0_r. cbn [skipn].
  rewrite <- firstn_firstn, firstn_all. reflexivity.
Qed.

Lemma pyo_slice_to2 (s : list N) : pyo_slice None (Some 2%Z) s = firstn 2 s.
Proof. exact (pyo_slice_to 2 s). Qed.

Lemma str_eqb_true : forall a b : list N, str_eqb a b = true -> a = b.
Proof.
  induction a as [|x a IH]; destruct b as [|y b]; cbn [str_eqb]; intros H; try discriminate H; [reflexivity|].
  apply andb_true_iff in H as [Hx Hab]. apply N.eqb_eq in Hx. subst y. rewrite (IH b Hab). reflexivity.
Qed.
