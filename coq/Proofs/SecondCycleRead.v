(* Proofs.SecondCycleRead — the session mnemonics of what Model/Read.v read returns are a
   function of the original mnemonics: every header section of a read result is CANONICAL, i.e.
   it is what appending its own items one by one (with their plain session mnemonic, through the
   duplicate-suffix rule) to an empty section gives.  Holds for every text and every option.
   Consequence used for C11 (second cycle): a section read back is determined by the metadata
   of its items (original mnemonic, unit, value, description) alone. *)
From Coq Require Import List Arith NArith ZArith Bool Lia String.
Import ListNotations.
Require Import PyStr Regex NumLit Num HeaderLine Tables SectionParse Sections DataRead Read.
Require Import ItemsBindProofs JunkProofs JunkSteering.
Open Scope string_scope.
Open Scope list_scope.
Open Scope N_scope.

(* an item as the parser hands it to SectionItems.append: session mnemonic = useful(original) *)
Definition plain (x : hitem) : Prop := i_sess x = useful (i_orig x).
Definition unsess (x : hitem) : hitem := new_item (i_orig x) (i_unit x) (i_value x) (i_descr x).

Lemma unsess_plain x : plain (unsess x).
Proof. reflexivity. Qed.

Lemma unsess_of_plain x : plain x -> unsess x = x.
Proof. destruct x as [o s u v d]. unfold plain, unsess, new_item. cbn. intros ->. reflexivity. Qed.

Lemma new_item_plain n u v d : plain (new_item n u v d).
Proof. reflexivity. Qed.

(* an item is determined by its metadata and a plain session mnemonic *)
Lemma plain_meta_eq x y : plain x -> plain y -> meta x = meta y -> x = y.
Proof.
  destruct x as [o s u v d], y as [o' s' u' v' d']. unfold plain, meta. cbn.
  intros -> -> [= -> -> -> ->]. reflexivity.
Qed.

Lemma unsess_meta x y : meta x = meta y -> unsess x = unsess y.
Proof. destruct x, y. unfold meta, unsess. cbn. intros [= -> -> -> ->]. reflexivity. Qed.

Lemma map_unsess_meta : forall l l', map meta l = map meta l' -> map unsess l = map unsess l'.
Proof.
  induction l as [|x l IH]; destruct l' as [|y l']; cbn [map]; intros H; try discriminate; [reflexivity|].
  assert (H1 : meta x = meta y) by (injection H; unfold meta; intros; congruence).
  assert (H2 : map meta l = map meta l') by (injection H; intros; assumption).
  rewrite (unsess_meta x y H1), (IH l' H2). reflexivity.
Qed.

Lemma map_unsess_plain : forall l, Forall plain l -> map unsess l = l.
Proof.
  induction l as [|x l IH]; intros H; [reflexivity|]. inversion H; subst. cbn [map].
  rewrite unsess_of_plain by assumption. rewrite IH by assumption. reflexivity.
Qed.

Lemma scan_all_plain v k c cc ig : forall lines, Forall plain (fst (scan v k c cc ig lines)).
Proof.
  induction lines as [|raw rest IH]; [constructor|]. cbn [scan].
  destruct (classify v k c cc raw) as [| |it|l] eqn:Ec.
  - exact IH.
  - constructor.
  - destruct (scan v k c cc ig rest) as [its e]. cbn [fst] in *. constructor; [|exact IH].
    destruct (classify_item v k c cc raw it Ec) as (_ & Hp). unfold parse_line in Hp.
    destruct (read_header_line (strip raw) _ _) as [h|]; [|discriminate]. injection Hp as <-.
    apply build_item_sess.
  - destruct ig; [exact IH|constructor].
Qed.

Section Canon.
Variable tr : bool.

Definition canon (l : list hitem) : Prop := l = append_all tr [] (map unsess l).

Lemma renumber_unsess T : forall l n, map unsess (renumber tr T n l) = map unsess l.
Proof.
  induction l as [|x l IH]; intros n; [reflexivity|]. cbn [renumber].
  destruct (mn_compare tr (useful (i_orig x)) T); cbn [map]; rewrite IH; reflexivity.
Qed.

Lemma assign_suffixes_unsess T l : map unsess (assign_suffixes tr T l) = map unsess l.
Proof. unfold assign_suffixes. destruct (Nat.ltb _ _); [apply renumber_unsess|reflexivity]. Qed.

Lemma sect_append_unsess l x : map unsess (sect_append tr l x) = map unsess l ++ [unsess x].
Proof. unfold sect_append. rewrite assign_suffixes_unsess, map_app. reflexivity. Qed.

Lemma append_all_snoc acc its x : append_all tr acc (its ++ [x]) = sect_append tr (append_all tr acc its) x.
Proof. unfold append_all. rewrite fold_left_app. reflexivity. Qed.

Lemma canon_nil : canon [].
Proof. reflexivity. Qed.

Lemma canon_append l x : canon l -> plain x -> canon (sect_append tr l x).
Proof.
  unfold canon. intros Hl Hx. rewrite sect_append_unsess, append_all_snoc, <- Hl.
  rewrite (unsess_of_plain x Hx). reflexivity.
Qed.

Lemma canon_append_all : forall its acc, canon acc -> Forall plain its -> canon (append_all tr acc its).
Proof.
  unfold append_all. induction its as [|x its IH]; intros acc Ha Hi; [exact Ha|].
  inversion Hi; subst. cbn [fold_left]. apply IH; [apply canon_append|]; assumption.
Qed.

(* a canonical section is determined by the metadata of its items *)
Lemma canon_of_meta l its : canon l -> Forall plain its -> map meta l = map meta its ->
  l = append_all tr [] its.
Proof.
  unfold canon. intros Hl Hp Hm. rewrite Hl. f_equal.
  rewrite (map_unsess_meta _ _ Hm). apply map_unsess_plain. exact Hp.
Qed.

Lemma parse_body_canon v k c ig cc lines acc r :
  canon acc -> parse_body v k c ig cc tr lines acc = POk r -> canon r.
Proof.
  intros Ha. rewrite parse_body_scan. destruct (snd (scan v k c cc ig lines)); [discriminate|].
  intros [= <-]. apply canon_append_all; [exact Ha|].
  apply (scan_all_plain v k c cc ig lines).
Qed.

Lemma bind_columns_canon : forall cols curves idx, canon curves -> canon (bind_columns tr curves idx cols).
Proof.
  induction cols as [|c cols IH]; intros curves idx H; [exact H|]. cbn [bind_columns].
  destruct (Nat.ltb idx (List.length curves)); apply IH; [exact H|].
  apply canon_append; [exact H|apply new_item_plain].
Qed.

End Canon.

Definition canon_sect (s : section) : Prop := canon (s_transforms s) (s_items s).
Definition canon_las (l : las) : Prop :=
  canon_sect (l_version l) /\ canon_sect (l_well l) /\ canon_sect (l_curves l) /\ canon_sect (l_params l).

Lemma default_items_canon t : canon false (default_items t).
Proof.
  unfold default_items.
  assert (G : forall t acc, canon false acc ->
            canon false (fold_left (fun acc e => match e with (m, u, v, d) =>
                           sect_append false acc (new_item m u (default_value v) d) end) t acc)).
  { induction t0 as [|e t0 IH]; intros acc Ha; [exact Ha|]. cbn [fold_left]. apply IH.
    destruct e as [[[m u] v] d]. apply canon_append; [exact Ha|apply new_item_plain]. }
  apply G. apply canon_nil.
Qed.

Lemma empty_las_canon : canon_las empty_las.
Proof.
  unfold canon_las, canon_sect, empty_las. cbn [l_version l_well l_curves l_params s_items s_transforms].
  repeat split; apply default_items_canon.
Qed.

Lemma route_canon v3 title letter sec l : canon_sect sec -> canon_las l -> canon_las (route v3 title letter sec l).
Proof.
  intros Hs (HV & HW & HC & HP). unfold route.
  repeat (match goal with |- context [if ?b then _ else _] => destruct b end);
    unfold canon_las; cbn [l_version l_well l_curves l_params]; repeat split; assumption.
Qed.

Lemma update_steering_las letter sec ps : p_las (update_steering letter sec ps) = p_las ps.
Proof. unfold update_steering. destruct (letter =? 86); [reflexivity|]. destruct (letter =? 87); reflexivity. Qed.

Lemma step_section_canon o ls ps p ps' :
  canon_las (p_las ps) -> step_section o ls ps p = inl ps' -> canon_las (p_las ps').
Proof.
  intros H. unfold step_section. destruct (section_type (sp_title p)).
  - intros [= <-]. exact H.
  - destruct (second_upper (sp_title p)) as [n|]; [|intros [= <-]; exact H].
    destruct H as (HV & HW & HC & HP).
    destruct (N.eq_dec n 79) as [->|Hn].
    + intros [= <-]. unfold canon_las. cbn [p_las with_las l_version l_well l_curves l_params]. repeat split; assumption.
    + assert (E : forall (A : Type) (a b : A), match n with 79 => a | _ => b end = b).
      { intros A a b. destruct n as [|q]; [reflexivity|].
        do 7 (try destruct q as [q|q|]); try reflexivity. congruence. }
      rewrite E. intros [= <-]. unfold canon_las. cbn [p_las with_las l_version l_well l_curves l_params]. repeat split; assumption.
  - intros [= <-]. exact H.
  - destruct (version_of (p_version ps)) as [v|]; [|discriminate].
    destruct (las_version_eqb v V30 && las3_like (sp_title p)); [discriminate|].
    destruct (parse_section v (sp_title p) (o_mcase o) (o_ignore_header_errors o) [ch_hash] (body_lines ls p)) as [items|] eqn:Ep;
      [|discriminate].
    destruct (second_upper (sp_title p)) as [letter|]; [|discriminate].
    intros [= <-]. unfold with_las. cbn [p_las]. rewrite update_steering_las.
    apply route_canon; [|exact H]. unfold canon_sect. cbn [s_items s_transforms].
    unfold parse_section in Ep. eapply parse_body_canon; [apply canon_nil|exact Ep].
Qed.

Lemma first_pass_canon o ls : forall sects ps ps',
  canon_las (p_las ps) -> first_pass o ls ps sects = inl ps' -> canon_las (p_las ps').
Proof.
  induction sects as [|p rest IH]; intros ps ps' H; cbn [first_pass].
  - intros [= <-]. exact H.
  - destruct (step_section o ls ps p) as [ps1|e] eqn:E; [|discriminate].
    apply IH. apply (step_section_canon o ls ps p ps1 H E).
Qed.

Section WithOracles.
Variable fhex : list N -> option (list N).
Variable fstr : list N -> list N.
Variable numeq : list N -> list N -> bool.

Lemma read_one_data_canon o ls ps d p l l' :
  canon_las l -> read_one_data fhex fstr numeq o ls ps d p l = inl l' -> canon_las l'.
Proof.
  intros (HV & HW & HC & HP). unfold read_one_data. cbv zeta.
  destruct (inspect_twice d (body_lines ls p) _) as [sn subs].
  match goal with |- match ?r with DOk _ => _ | DErrReshape => _ end = _ -> _ => destruct r as [cols|] end; [|discriminate].
  intros [= <-]. unfold canon_las, canon_sect. cbn [l_version l_well l_curves l_params s_items s_transforms].
  repeat split; try assumption.
  apply bind_columns_canon. exact HC.
Qed.

Lemma read_data_sections_canon o ls ps d : forall sects l l',
  canon_las l -> read_data_sections fhex fstr numeq o ls ps d sects l = inl l' -> canon_las l'.
Proof.
  induction sects as [|p rest IH]; intros l l' H; cbn [read_data_sections].
  - intros [= <-]. exact H.
  - destruct (read_one_data fhex fstr numeq o ls ps d p l) as [l1|e] eqn:E; [|discriminate].
    apply IH. apply (read_one_data_canon o ls ps d p l l1 H E).
Qed.

(* every header section of a read result is canonical *)
Theorem read_canon o text l : read fhex fstr numeq o text = ROk l -> canon_las l.
Proof.
  unfold read. cbv zeta. destruct (find_sections (lines_keep text)) as [|s sl] eqn:Ef; [discriminate|].
  destruct (first_pass o (lines_keep text) _ (s :: sl)) as [ps|e] eqn:Efp; [|discriminate].
  assert (Hps : canon_las (p_las ps)).
  { eapply first_pass_canon; [|exact Efp]. cbn [p_las]. apply empty_las_canon. }
  destruct (dlm_of (p_dlm ps)) as [d|]; [|discriminate].
  destruct (o_ignore_data o); [intros [= <-]; exact Hps|].
  destruct (read_data_sections fhex fstr numeq o (lines_keep text) ps d _ (p_las ps)) as [l1|e] eqn:Er; [|discriminate].
  intros [= <-]. eapply read_data_sections_canon; [exact Hps|exact Er].
Qed.

End WithOracles.
