(* Proofs.FileRoundTripCheck — the hypotheses of the file-level round trip
   (Proofs/FileRoundTripMain.v) as ONE executable predicate file_hypsb on the file in memory
   after the call (in its written form hs), the options and the oracles; its soundness; and
   the round trip stated with it.  Used for the non-vacuity examples of Props/C03.v, C01.v,
   C11.v (a concrete file is checked by computation) and usable as an in-domain test. *)
From Coq Require Import List Arith NArith ZArith Bool Lia String.
Import ListNotations.
Require Import PyStr Regex NumLit Num HeaderLine Tables SectionParse Sections DataRead Read TextWrap Writer.
Require Import StripFacts SplitWsFacts SectionsProofs BlocksCongr ItemsBindProofs
  WriteHeaderProofs WriteOptionsProofs WriteReadProofs WriteDataProofs WriteDataTextProofs
  FileRoundTripText FileRoundTripBlocks FileRoundTripFind FileRoundTripFirstPass FileRoundTripHeader
  FileRoundTripData FileRoundTripLines FileRoundTrip FileRoundTripMain.
Open Scope string_scope.
Open Scope list_scope.
Open Scope N_scope.

Lemma forallb_Forall {A} (p : A -> bool) (P : A -> Prop) :
  (forall x, p x = true -> P x) -> forall l, forallb p l = true -> Forall P l.
Proof.
  intros H l Hl. apply Forall_forall. intros x Hx. apply H. rewrite forallb_forall in Hl. apply Hl. exact Hx.
Qed.

Lemma forallb_In {A} (p : A -> bool) l x : forallb p l = true -> In x l -> p x = true.
Proof. intros H Hin. rewrite forallb_forall in H. apply H. exact Hin. Qed.

Lemma str_eqb_eq : forall a b : list N, str_eqb a b = true -> a = b.
Proof.
  induction a as [|x a IH]; destruct b as [|y b]; cbn [str_eqb]; intros H; try reflexivity; try discriminate.
  apply andb_true_iff in H as [H1 H2]. apply N.eqb_eq in H1. rewrite H1, (IH b H2). reflexivity.
Qed.

(* ---- text ------------------------------------------------------------------------------------ *)
Definition mnemonics_nlfreeb (items : list hitem) : bool := forallb (fun it => negb (in_str 10 (i_orig it))) items.
Lemma mnemonics_nlfreeb_ok items : mnemonics_nlfreeb items = true -> mnemonics_nlfree items.
Proof. intros H it Hin. apply negb_true_iff. apply (forallb_In _ _ it H Hin). Qed.

Definition data_header_okb (h : list N) : bool :=
  match h with a :: c :: _ => (a =? 126) && (ascii_upper c =? 65) | _ => false end.
Lemma data_header_okb_ok h : data_header_okb h = true -> data_header_ok h.
Proof.
  destruct h as [|a [|c r]]; try discriminate. cbn [data_header_okb]. intros H.
  apply andb_true_iff in H as [Ha Hc]. apply N.eqb_eq in Ha, Hc. subst a.
  exists c, r. split; [reflexivity|exact Hc].
Qed.

Definition text_hypsb (o : wopts) (hs : hdr_sections) : bool :=
  mnemonics_nlfreeb (hs_vers_items hs) && mnemonics_nlfreeb (s_items (l_well (hs_las hs))) &&
  mnemonics_nlfreeb (s_items (l_curves (hs_las hs))) && mnemonics_nlfreeb (s_items (l_params (hs_las hs))) &&
  forallb (fun l => negb (is_title l)) (splitlines (l_other (hs_las hs))) &&
  data_header_okb (wo_data_section_header o) && negb (in_str 10 (wo_data_section_header o)) &&
  forallb (fun it => negb (in_str 10 (i_sess it))) (s_items (l_curves (hs_las hs))).

Lemma text_hypsb_ok o hs : text_hypsb o hs = true -> text_hyps o hs.
Proof.
  unfold text_hypsb, text_hyps. intros H. repeat (apply andb_true_iff in H as [H ?]).
  repeat split; try (apply mnemonics_nlfreeb_ok; assumption).
  - assumption.
  - apply data_header_okb_ok. assumption.
  - apply negb_true_iff. assumption.
  - intros it Hin. apply negb_true_iff.
    match goal with K : forallb _ (s_items (l_curves _)) = true |- _ => apply (forallb_In _ _ it K Hin) end.
Qed.

(* ---- header ------------------------------------------------------------------------------------ *)
Section Header.
Variable fstr : list N -> list N.

Definition std_versionb (v : las_version) : bool := match v with V12 | V20 => true | _ => false end.

Definition dlm_okb (c : mcase) (hs : hdr_sections) : bool :=
  match filter (in_class c (s2l "DLM")) (hs_vers_items hs) with
  | [] => true
  | [dit] => str_eqb (vstr fstr (i_value dit)) (s2l "SPACE")
  | _ => false
  end.

Definition wrap_okb (c : mcase) (hs : hdr_sections) : bool :=
  negb (hs_wrap hs) ||
  match filter (in_class c (s2l "WRAP")) (hs_vers_items hs) with
  | [wit] => str_eqb (vstr fstr (i_value wit)) (s2l "YES")
  | _ => false
  end.

Definition header_hypsb (ro : ropts) (hs : hdr_sections) : bool :=
  let c := o_mcase ro in
  let v := hs_version hs in
  section_okb fstr v KVersion [ch_hash] (hs_vers_items hs) &&
  section_okb fstr v KWell [ch_hash] (s_items (l_well (hs_las hs))) &&
  section_okb fstr v KCurves [ch_hash] (s_items (l_curves (hs_las hs))) &&
  section_okb fstr v KParameter [ch_hash] (s_items (l_params (hs_las hs))) &&
  std_versionb v && str_eqb (fstr (s2l "1.2")) (s2l "1.2") && str_eqb (fstr (s2l "2.0")) (s2l "2.0") &&
  Nat.eqb (List.length (filter (in_class c (s2l "VERS")) (hs_vers_items hs))) 1 &&
  dlm_okb c hs.

Lemma header_hypsb_ok ro hs : header_hypsb ro hs = true -> exists vit, header_hyps fstr ro hs vit.
Proof.
  unfold header_hypsb, header_hyps. cbv zeta. intros H. repeat (apply andb_true_iff in H as [H ?]).
  destruct (filter (in_class (o_mcase ro) (s2l "VERS")) (hs_vers_items hs)) as [|vit [|v2 r]] eqn:Ef; try discriminate.
  exists vit. repeat split; try (apply section_okb_ok; assumption); try (apply str_eqb_eq; assumption).
  - unfold std_version. destruct (hs_version hs); try discriminate; auto.
  - unfold dlm_ok. unfold dlm_okb in *.
    destruct (filter (in_class (o_mcase ro) (s2l "DLM")) (hs_vers_items hs)) as [|dit [|d2 r]]; try discriminate; [exact I|].
    apply str_eqb_eq. assumption.
Qed.

Lemma wrap_okb_ok c hs : wrap_okb c hs = true -> wrap_ok fstr c hs.
Proof.
  unfold wrap_okb, wrap_ok. intros H Hw. rewrite Hw in H. cbn [negb orb] in H.
  destruct (filter (in_class c (s2l "WRAP")) (hs_vers_items hs)) as [|wit [|w2 r]]; try discriminate.
  exists wit. split; [reflexivity|]. apply str_eqb_eq. exact H.
Qed.
End Header.

(* ---- data ---------------------------------------------------------------------------------------- *)
Section Data.
Variable fmtv : list N -> list N -> list N.
Variable fmt_pi : list N -> list N.
Variable fhex : list N -> option (list N).

Definition data_hypsb (o : wopts) (nt : list N) (rows : list (list cell)) (c : nat) : bool :=
  Nat.ltb 0 c && match rows with [] => false | _ => true end &&
  forallb (fun row : list cell => Nat.eqb (List.length row) c) rows &&
  forallb (forallb (wr_tokb fhex)) (tok_matrix fmtv o nt rows) &&
  forallb is_space (wo_lhs_spacer o) && forallb is_space (wo_spacer o) &&
  forallb (separatedb fmt_pi o) (tok_matrix fmtv o nt rows).

Lemma data_hypsb_ok o nt rows c : data_hypsb o nt rows c = true -> data_hyps fmtv fmt_pi fhex o nt rows c.
Proof.
  unfold data_hypsb, data_hyps. intros H. repeat (apply andb_true_iff in H as [H ?]).
  split; [apply Nat.ltb_lt; assumption|]. split; [destruct rows; [discriminate|discriminate]|].
  split; [eapply forallb_Forall; [|eassumption]; intros x Hx; apply Nat.eqb_eq; exact Hx|].
  split; [apply wr_tok_matrixb; assumption|]. split; [assumption|]. split; [assumption|].
  apply separated_matrixb. assumption.
Qed.

Definition data_text_hypsb (o : wopts) (nt : list N) (rows : list (list cell)) : bool :=
  negb (in_str 10 (wo_lhs_spacer o)) && negb (in_str 10 (wo_spacer o)) &&
  forallb (forallb (fun t => negb (in_str 126 t))) (tok_matrix fmtv o nt rows).

Lemma data_text_hypsb_ok o nt rows : data_text_hypsb o nt rows = true -> data_text_hyps fmtv o nt rows.
Proof.
  unfold data_text_hypsb, data_text_hyps. intros H. repeat (apply andb_true_iff in H as [H ?]).
  split; [apply negb_true_iff; assumption|]. split; [apply negb_true_iff; assumption|].
  eapply forallb_Forall; [|eassumption]. intros r Hr. eapply forallb_Forall; [|exact Hr].
  intros t Ht. apply negb_true_iff. exact Ht.
Qed.
End Data.

(* ---- everything ----------------------------------------------------------------------------------- *)
Section WithOracles.
Variable fmtv : list N -> list N -> list N.
Variable fmt_diff : list N -> list N -> list N -> list N.
Variable fmt_pi : list N -> list N.
Variable fstr : list N -> list N.
Variable fzero : list N -> bool.
Variable numeq : list N -> list N -> bool.
Variable fhex : list N -> option (list N).

(* the domain of the file-level round trip, decidable: on the written form hs of the file in
   memory after the call, the NULL text nt, the reader options and the writer options *)
Definition file_hypsb (ro : ropts) (o : wopts) (hs : hdr_sections) (nt : list N) : bool :=
  header_hypsb fstr ro hs && text_hypsb o hs && wrap_okb fstr (o_mcase ro) hs &&
  data_hypsb fmtv fmt_pi fhex o nt (las_rows (hs_las hs)) (List.length (s_items (l_curves (hs_las hs)))) &&
  data_text_hypsb fmtv o nt (las_rows (hs_las hs)).

Theorem read_written_file_checked ro o m text m' hs dl rts nt :
  write fmtv fmt_diff fmt_pi fstr fzero numeq o m = WOk text m' ->
  write_sections fmtv fmt_diff fstr fzero numeq (wo_version o) (wo_wrap o) (col_fmt o 0%nat) m = Some hs ->
  dsh_of fmtv fmt_pi fstr o hs = Some dl ->
  las_null_text fstr (hs_las hs) = Some nt ->
  opt_all (map (row_text fmtv fmt_pi o (Some nt) 0%nat) (las_rows (hs_las hs))) = Some rts ->
  file_hypsb ro o hs nt = true -> o_ignore_data ro = false ->
  exists l pn,
    read fhex fstr numeq ro text = ROk l /\
    header_read_back fstr ro hs l /\ null_read fstr ro hs pn /\
    l_data l = data_result fhex numeq ro pn (List.length (s_items (l_curves (hs_las hs))))
                 (tok_matrix fmtv o nt (las_rows (hs_las hs))).
Proof.
  intros Hw Hs Hdl Hnt Hrts H Hig. unfold file_hypsb in H. do 4 (apply andb_true_iff in H as [H ?]).
  destruct (header_hypsb_ok fstr ro hs H) as (vit & Hh).
  apply (read_written_file fmtv fmt_diff fmt_pi fstr fzero numeq fhex ro o m text m' hs dl rts vit nt Hw Hs Hdl Hnt Hrts Hh).
  - apply text_hypsb_ok. assumption.
  - apply wrap_okb_ok. assumption.
  - apply data_hypsb_ok. assumption.
  - apply data_text_hypsb_ok. assumption.
  - exact Hig.
Qed.

End WithOracles.
