(* Proofs.RegexLocalFacts — a pattern built from character classes that reject white space
   (no look-around, no anchor) cannot see past a white-space character: whether it matches at a
   position depends only on the white-space-free run that starts there.  Hence such a pattern
   matches nowhere in a line as soon as it matches nowhere in each of the line's str.split()
   fields (nomatch_tokens).  Used for the three read substitutions (C01). *)
From Coq Require Import List Arith NArith Bool Lia ZifyBool ZifyN ZifyNat.
Import ListNotations.
Require Import PyStr Regex NumLit RegexSubFacts SplitWsFacts.
Open Scope list_scope.
Open Scope N_scope.

(* classes that reject every white-space character (syntactic, conservative) *)
Fixpoint cls_nosp (k : cls) : bool :=
  match k with
  | CChar x => negb (is_space x)
  | CDigit => true
  | COr a b => cls_nosp a && cls_nosp b
  | _ => false
  end.

Lemma cls_nosp_sound k c : cls_nosp k = true -> is_space c = true -> cmatch k c = false.
Proof.
  induction k as [|x|a b| | |k IH|a IHa b IHb]; cbn [cls_nosp cmatch]; try discriminate.
  - intros H Hc. destruct (N.eqb_spec c x) as [->|_]; [|reflexivity]. rewrite Hc in H. discriminate H.
  - intros _. unfold is_digit, is_space. lia.
  - intros H Hc. apply andb_true_iff in H as [Ha Hb]. rewrite IHa, IHb by assumption. reflexivity.
Qed.

Fixpoint re_local (r : re) : bool :=
  match r with
  | Eps => true
  | Cls k | Star k | Plus k | LStar k => cls_nosp k
  | Seq a b | Alt a b => re_local a && re_local b
  | Opt a | Grp _ a => re_local a
  | _ => false
  end.

Definition isSome {A} (o : option A) : bool := match o with Some _ => true | None => false end.

Lemma isSome_orelse {A} (a b : option A) :
  isSome (match a with Some r => Some r | None => b end) = isSome a || isSome b.
Proof. destruct a; reflexivity. Qed.

Section Local.
Variable tail : list N.
Hypothesis Htail : starts_sp tail.

(* continuations that succeed on  t ++ tail  exactly when their counterpart succeeds on  t *)
Definition krel (cont cont' : K) : Prop :=
  forall t p1 p2 cs1 cs2, isSome (cont (mkst p1 (t ++ tail) cs1)) = isSome (cont' (mkst p2 t cs2)).

Lemma tail_head_rejected k : cls_nosp k = true ->
  match tail with [] => True | c :: _ => cmatch k c = false end.
Proof.
  intros Hk. destruct tail as [|c rest]; [exact I|]. cbn [starts_sp] in Htail.
  apply cls_nosp_sound; assumption.
Qed.

Lemma star_g_local k cont cont' : cls_nosp k = true -> krel cont cont' ->
  forall t p1 p2 cs1 cs2,
    isSome (star_g k p1 (t ++ tail) cs1 cont) = isSome (star_g k p2 t cs2 cont').
Proof.
  intros Hk Hrel. pose proof (tail_head_rejected k Hk) as Hh.
  induction t as [|x t IH]; intros p1 p2 cs1 cs2.
  - cbn [app star_g]. rewrite <- (Hrel [] p1 p2 cs1 cs2). cbn [app].
    destruct tail as [|c rest]; [reflexivity|]. cbn [star_g]. rewrite Hh. reflexivity.
  - cbn [app star_g]. destruct (cmatch k x).
    + rewrite !isSome_orelse. rewrite (IH (x :: p1) (x :: p2) cs1 cs2).
      rewrite <- (Hrel (x :: t) p1 p2 cs1 cs2). reflexivity.
    + apply (Hrel (x :: t)).
Qed.

Lemma star_l_unfold k p s cs (cont : K) :
  star_l k p s cs cont =
  match cont (mkst p s cs) with
  | Some r => Some r
  | None =>
      match s with
      | c :: s' => if cmatch k c then star_l k (c :: p) s' cs cont else None
      | [] => None
      end
  end.
Proof. destruct s; reflexivity. Qed.

Lemma star_l_local k cont cont' : cls_nosp k = true -> krel cont cont' ->
  forall t p1 p2 cs1 cs2,
    isSome (star_l k p1 (t ++ tail) cs1 cont) = isSome (star_l k p2 t cs2 cont').
Proof.
  intros Hk Hrel. pose proof (tail_head_rejected k Hk) as Hh.
  induction t as [|x t IH]; intros p1 p2 cs1 cs2.
  - rewrite (star_l_unfold k p1), (star_l_unfold k p2). rewrite !isSome_orelse.
    rewrite (Hrel [] p1 p2 cs1 cs2). f_equal. cbn [app].
    destruct tail as [|c rest]; [reflexivity|]. rewrite Hh. reflexivity.
  - rewrite (star_l_unfold k p1), (star_l_unfold k p2). rewrite !isSome_orelse.
    rewrite (Hrel (x :: t) p1 p2 cs1 cs2). f_equal. cbn [app].
    destruct (cmatch k x); [apply IH|reflexivity].
Qed.

Lemma m_local : forall r, re_local r = true ->
  forall cont cont', krel cont cont' ->
  forall t p1 p2 cs1 cs2,
    isSome (m r (mkst p1 (t ++ tail) cs1) cont) = isSome (m r (mkst p2 t cs2) cont').
Proof.
  induction r as [|k|a IHa b IHb|a IHa b IHb|a IHa|k|k|k|n a IHa| | | |];
    cbn [re_local]; try discriminate; intros Hl cont cont' Hrel t p1 p2 cs1 cs2.
  - (* Eps *) cbn [m]. apply Hrel.
  - (* Cls *) cbn [m rem pre caps]. pose proof (tail_head_rejected k Hl) as Hh.
    destruct t as [|x t]; cbn [app].
    + destruct tail as [|c rest]; [reflexivity|]. rewrite Hh. reflexivity.
    + destruct (cmatch k x); [apply Hrel|reflexivity].
  - (* Seq *) apply andb_true_iff in Hl as [Ha Hb]. cbn [m].
    apply IHa; [exact Ha|]. intros t' q1 q2 d1 d2. apply IHb; assumption.
  - (* Alt *) apply andb_true_iff in Hl as [Ha Hb]. cbn [m]. rewrite !isSome_orelse.
    rewrite (IHa Ha cont cont' Hrel t p1 p2 cs1 cs2), (IHb Hb cont cont' Hrel t p1 p2 cs1 cs2). reflexivity.
  - (* Opt *) cbn [m]. rewrite !isSome_orelse.
    rewrite (IHa Hl cont cont' Hrel t p1 p2 cs1 cs2), (Hrel t p1 p2 cs1 cs2). reflexivity.
  - (* Star *) cbn [m rem pre caps]. apply star_g_local; assumption.
  - (* Plus *) cbn [m rem pre caps]. pose proof (tail_head_rejected k Hl) as Hh.
    destruct t as [|x t]; cbn [app].
    + destruct tail as [|c rest]; [reflexivity|]. rewrite Hh. reflexivity.
    + destruct (cmatch k x); [apply star_g_local; assumption|reflexivity].
  - (* LStar *) cbn [m rem pre caps]. apply star_l_local; assumption.
  - (* Grp *) cbn [m]. apply IHa; [exact Hl|]. intros t' q1 q2 d1 d2. cbn [pre rem caps]. apply Hrel.
Qed.

Lemma krel_kdone : krel kdone kdone.
Proof. intros t p1 p2 cs1 cs2. reflexivity. Qed.

End Local.

(* the pattern fails at the start of b, whatever stands to the left *)
Definition fails (r : re) (b : list N) : Prop :=
  forall p cs, isSome (m r (mkst p b cs) kdone) = false.

Lemma fails_tail r t tail p cs :
  re_local r = true -> starts_sp tail ->
  isSome (m r (mkst p t cs) kdone) = false -> fails r (t ++ tail).
Proof.
  intros Hl Ht H q ds. rewrite (m_local tail Ht r Hl kdone kdone (krel_kdone tail) t q p ds cs). exact H.
Qed.

Lemma fails_any r t p cs :
  re_local r = true -> isSome (m r (mkst p t cs) kdone) = false -> fails r t.
Proof. intros Hl H. rewrite <- (app_nil_r t). eapply fails_tail; [exact Hl|exact I|exact H]. Qed.

(* nomatchb = failure at every suffix *)
Lemma nomatchb_fails r : re_local r = true -> forall s p,
  nomatchb r p s = true -> forall a b, s = a ++ b -> fails r b.
Proof.
  intros Hl. induction s as [|c s IH]; intros p H a b E; cbn [nomatchb] in H.
  - destruct a; [|discriminate E]. cbn [app] in E. subst b.
    destruct (m r (mkst p [] []) kdone) eqn:Em; [discriminate H|].
    apply (fails_any r [] p []); [exact Hl|rewrite Em; reflexivity].
  - destruct (m r (mkst p (c :: s) []) kdone) eqn:Em; [discriminate H|].
    destruct a as [|x a]; cbn [app] in E.
    + subst b. apply (fails_any r (c :: s) p []); [exact Hl|rewrite Em; reflexivity].
    + injection E as -> E. eapply IH; [exact H|exact E].
Qed.

Lemma fails_nomatchb r : forall s,
  (forall a b, s = a ++ b -> fails r b) -> forall p, nomatchb r p s = true.
Proof.
  induction s as [|c s IH]; intros H p; cbn [nomatchb].
  - pose proof (H [] [] eq_refl p []) as F. destruct (m r (mkst p [] []) kdone); [discriminate F|reflexivity].
  - pose proof (H [] (c :: s) eq_refl p []) as F.
    destruct (m r (mkst p (c :: s) []) kdone); [discriminate F|].
    apply IH. intros a b E. apply (H (c :: a) b). cbn [app]. rewrite E. reflexivity.
Qed.

(* every suffix of the line fails when every suffix of every field does *)
Lemma fails_line r : re_local r = true -> fails r [] ->
  forall line cur,
    (forall t, In t (split_ws_aux line cur) -> forall a b, t = a ++ b -> fails r b) ->
    forall a b, line = a ++ b -> fails r b.
Proof.
  intros Hl Hnil. induction line as [|c line IH]; intros cur Htok a b E.
  - destruct a; [|discriminate E]. cbn [app] in E. subst b. exact Hnil.
  - destruct a as [|x a]; cbn [app] in E.
    + (* the suffix is the whole remaining line *)
      subst b. destruct (is_space c) eqn:Hc.
      * intros p cs. apply (fails_tail r [] (c :: line) p cs Hl Hc (Hnil p cs)).
      * (* a field starts (or continues) here: cut its run *)
        destruct (span_by (fun y => negb (is_space y)) (c :: line)) as [u tl] eqn:Es.
        destruct (span_by_spec _ _ _ _ Es) as (Eu & Hu & Htl).
        assert (Hsp : starts_sp tl).
        { destruct tl as [|y tl']; [exact I|]. cbn [starts_sp]. apply negb_false_iff in Htl. exact Htl. }
        assert (Hune : u <> []).
        { intros ->. cbn [app] in Eu. subst tl. cbn in Htl. rewrite Hc in Htl. discriminate Htl. }
        rewrite Eu. intros p cs.
        apply (fails_tail r u tl p cs Hl Hsp).
        refine (Htok (rev cur ++ u) _ (rev cur) u eq_refl p cs).
        rewrite Eu. rewrite split_ws_aux_run by exact Hu.
        rewrite split_ws_aux_flush.
        -- left. rewrite rev_app_distr, rev_involutive. reflexivity.
        -- intros E'. apply app_eq_nil in E' as [E' _]. apply (f_equal (@rev N)) in E'.
           rewrite rev_involutive in E'. cbn in E'. congruence.
        -- exact Hsp.
    + injection E as -> E. cbn [split_ws_aux] in Htok.
      destruct (is_space x) eqn:Hx.
      * apply (IH [] (fun t Ht => Htok t ltac:(destruct cur; [exact Ht|right; exact Ht])) a b E).
      * apply (IH (x :: cur) Htok a b E).
Qed.

Theorem nomatch_tokens r line :
  re_local r = true -> nomatchb r [] [] = true ->
  (forall t, In t (split_ws line) -> nomatchb r [] t = true) ->
  nomatchb r [] line = true.
Proof.
  intros Hl Hnil Htok. apply fails_nomatchb.
  apply (fails_line r Hl) with (cur := []).
  - eapply (nomatchb_fails r Hl [] [] Hnil [] []). reflexivity.
  - intros t Ht. apply (nomatchb_fails r Hl t []). apply Htok. exact Ht.
Qed.

(* every character of a line is white space or belongs to one of its fields *)
Lemma split_ws_aux_chars : forall s cur c,
  In c s \/ In c cur ->
  is_space c = true \/ exists t, In t (split_ws_aux s cur) /\ In c t.
Proof.
  induction s as [|x s IH]; intros cur c H.
  - destruct H as [[]|H]. right. destruct cur as [|y cur]; [contradiction|].
    exists (rev (y :: cur)). split; [left; reflexivity|]. apply in_rev in H. exact H.
  - cbn [split_ws_aux]. destruct (is_space x) eqn:Hx.
    + destruct H as [[<-|H]|H].
      * left. exact Hx.
      * destruct (IH [] c (or_introl H)) as [Hs|(t & Ht & Hc)]; [left; exact Hs|right].
        exists t. split; [|exact Hc]. destruct cur; [exact Ht|right; exact Ht].
      * right. destruct cur as [|y cur]; [contradiction|].
        exists (rev (y :: cur)). split; [left; reflexivity|]. apply in_rev in H. exact H.
    + apply IH. destruct H as [[<-|H]|H]; [right; left; reflexivity|left; exact H|right; right; exact H].
Qed.

Lemma split_ws_chars s c : In c s -> is_space c = true \/ exists t, In t (split_ws s) /\ In c t.
Proof. intros H. apply split_ws_aux_chars. left. exact H. Qed.

Lemma in_str_In c s : in_str c s = true <-> In c s.
Proof.
  unfold in_str. rewrite existsb_exists. split.
  - intros (x & Hx & E). apply N.eqb_eq in E. subst x. exact Hx.
  - intros H. exists c. split; [exact H|apply N.eqb_refl].
Qed.

(* a non-space character absent from every field is absent from the line *)
Lemma in_str_tokens c s :
  is_space c = false -> (forall t, In t (split_ws s) -> in_str c t = false) -> in_str c s = false.
Proof.
  intros Hc H. destruct (in_str c s) eqn:E; [|reflexivity]. apply in_str_In in E.
  destruct (split_ws_chars s c E) as [Hs|(t & Ht & Hin)]; [congruence|].
  apply in_str_In in Hin. rewrite (H t Ht) in Hin. discriminate Hin.
Qed.
