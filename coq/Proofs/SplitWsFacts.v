(* Proofs.SplitWsFacts — str.split() (PyStr.split_ws) on concatenations:
   * splitting distributes over a concatenation cut at a white-space character,
   * the fields of  pad_0 ++ t_0 ++ pad_1 ++ t_1 ++ ...  are  t_0, t_1, ...  when the t_k are
     non-empty and white-space-free, the pad_k are white space and pad_k (k >= 1) is not empty.
   Used by the write -> read proofs (C01). *)
From Coq Require Import List Arith NArith Bool Lia ZifyBool ZifyN ZifyNat.
Import ListNotations.
Require Import PyStr RegexSubFacts.
Open Scope list_scope.
Open Scope N_scope.

(* a token text: no white-space character *)
Definition nosp (t : list N) : bool := forallb (fun c => negb (is_space c)) t.

(* what split_ws_aux emits for the pending (reversed) field when it meets a separator *)
Definition flush (cur : list N) : list (list N) := match cur with [] => [] | _ => [rev cur] end.

(* empty or starting with a white-space character *)
Definition starts_sp (s : list N) : Prop := match s with [] => True | c :: _ => is_space c = true end.

Lemma split_ws_aux_nil cur : split_ws_aux [] cur = flush cur.
Proof. destruct cur; reflexivity. Qed.

Lemma split_ws_aux_space c s cur :
  is_space c = true -> split_ws_aux (c :: s) cur = flush cur ++ split_ws s.
Proof. intros H. cbn [split_ws_aux]. rewrite H. destruct cur; reflexivity. Qed.

Lemma split_ws_aux_starts_sp s cur : starts_sp s -> split_ws_aux s cur = flush cur ++ split_ws s.
Proof.
  destruct s as [|c s]; intros H.
  - rewrite split_ws_aux_nil. cbn. rewrite app_nil_r. reflexivity.
  - cbn [starts_sp] in H. rewrite split_ws_aux_space by exact H. f_equal.
    unfold split_ws. cbn [split_ws_aux]. rewrite H. reflexivity.
Qed.

Lemma split_ws_aux_spaces b s cur :
  b <> [] -> forallb is_space b = true -> split_ws_aux (b ++ s) cur = flush cur ++ split_ws s.
Proof.
  intros Hne Hb. destruct b as [|c b]; [congruence|].
  cbn [forallb] in Hb. apply andb_true_iff in Hb as [Hc Hb].
  cbn [app]. rewrite split_ws_aux_space by exact Hc. rewrite split_ws_leading by exact Hb. reflexivity.
Qed.

(* cutting before a white-space character *)
Lemma split_ws_aux_app_sp : forall a b cur, starts_sp b ->
  split_ws_aux (a ++ b) cur = split_ws_aux a cur ++ split_ws b.
Proof.
  induction a as [|c a IH]; intros b cur Hb; cbn [app].
  - rewrite split_ws_aux_nil. apply split_ws_aux_starts_sp. exact Hb.
  - cbn [split_ws_aux]. destruct (is_space c).
    + destruct cur; [apply IH; exact Hb|]. cbn [app]. f_equal. apply IH. exact Hb.
    + apply IH. exact Hb.
Qed.

Lemma split_ws_app_sp a b : starts_sp b -> split_ws (a ++ b) = split_ws a ++ split_ws b.
Proof. intros H. unfold split_ws at 1 2. apply split_ws_aux_app_sp. exact H. Qed.

(* cutting out a non-empty run of white space *)
Lemma split_ws_app_gap a sp b :
  sp <> [] -> forallb is_space sp = true -> split_ws (a ++ sp ++ b) = split_ws a ++ split_ws b.
Proof.
  intros Hne Hsp. rewrite split_ws_app_sp.
  - rewrite split_ws_leading by exact Hsp. reflexivity.
  - destruct sp as [|c sp]; [congruence|]. cbn [app starts_sp]. cbn [forallb] in Hsp.
    apply andb_true_iff in Hsp as [Hc _]. exact Hc.
Qed.

Lemma split_ws_app_trailing s t : forallb is_space t = true -> split_ws (s ++ t) = split_ws s.
Proof. intros H. unfold split_ws. apply split_ws_aux_app_trailing. exact H. Qed.

(* ---- padded tokens ------------------------------------------------------------------------ *)
Definition padtok (p : list N * list N) : list N := fst p ++ snd p.

Definition good_tok (t : list N) : Prop := t <> [] /\ nosp t = true.

Lemma split_ws_aux_tok t rest cur : nosp t = true ->
  split_ws_aux (t ++ rest) cur = split_ws_aux rest (rev t ++ cur).
Proof. apply split_ws_aux_run. Qed.

Lemma flush_rev t : t <> [] -> flush (rev t ++ []) = [t].
Proof.
  intros H. rewrite app_nil_r. unfold flush. destruct (rev t) eqn:E.
  - apply (f_equal (@rev N)) in E. rewrite rev_involutive in E. cbn in E. congruence.
  - rewrite <- E, rev_involutive. reflexivity.
Qed.

(* every pad non-empty: holds with any pending field *)
Lemma split_ws_padded_aux : forall pairs cur,
  Forall (fun p => fst p <> [] /\ forallb is_space (fst p) = true /\ good_tok (snd p)) pairs ->
  split_ws_aux (concat (map padtok pairs)) cur = flush cur ++ map snd pairs.
Proof.
  induction pairs as [|[pad t] pairs IH]; intros cur H.
  - cbn [map concat]. rewrite split_ws_aux_nil, app_nil_r. reflexivity.
  - inversion H as [|? ? (Hp & Hsp & Ht & Hn) Hrest]; subst. cbn [fst snd] in *.
    cbn [map concat]. unfold padtok at 1. cbn [fst snd]. rewrite <- app_assoc.
    rewrite split_ws_aux_spaces by assumption. f_equal.
    unfold split_ws. rewrite split_ws_aux_tok by exact Hn.
    rewrite IH by exact Hrest. rewrite flush_rev by exact Ht. reflexivity.
Qed.

(* the first pad may be empty *)
Theorem split_ws_padded : forall pairs,
  Forall (fun p => forallb is_space (fst p) = true /\ good_tok (snd p)) pairs ->
  Forall (fun p => fst p <> []) (tl pairs) ->
  split_ws (concat (map padtok pairs)) = map snd pairs.
Proof.
  intros [|[pad t] pairs] H Hne; [reflexivity|].
  inversion H as [|? ? (Hsp & Ht & Hn) Hrest]; subst. cbn [fst snd tl] in *.
  cbn [map concat]. unfold padtok at 1. cbn [fst snd]. rewrite <- app_assoc.
  rewrite split_ws_leading by exact Hsp.
  unfold split_ws. rewrite split_ws_aux_tok by exact Hn.
  rewrite split_ws_padded_aux.
  - rewrite flush_rev by exact Ht. reflexivity.
  - rewrite Forall_forall in *. intros p Hin. destruct (Hrest p Hin) as (A & B). auto.
Qed.
