(* Proofs.FuncsPinMutators — the list-changing methods of Model/Items.v ARE SectionItems'
   assign_duplicate_suffixes (with a mnemonic), append, insert, set_item (str key) and __delitem__ (str key)
   (Gen/Funcs.v, re-translated from /repo on every run as functions from the item list to the item list):
   which items are renumbered and with which suffix, that append / insert / replace re-number the group of
   the new item, which item a str key replaces or deletes.
   pitem_of (Proofs/FuncsPinSection.v) shows a model item as the object the translated code reads; the
   decimal rendering ":%d" % n is the parameter int_str of the translated functions, read as Items.nat_dec.
   Not covered (hand-modelled, tied by the correspondence run): assign_duplicate_suffixes(None) (iterates a
   set), int / slice keys, item-valued keys.
   Restated as C13_assign_current, C13_append_current, C13_insert_current, C13_set_item_current,
   C15_delitem_current. *)
From Coq Require Import List Arith NArith ZArith Bool Lia ZifyBool ZifyNat String.
Import ListNotations.
Require Import PyStr Funcs Items FuncsPinItems FuncsPinSection.
Open Scope list_scope.

Definition int_dec (z : Z) : list N := nat_dec (Z.to_nat z).
Notation pitems l := (List.map pitem_of l).

(* ---------- helpers ------------------------------------------------------------------------------------ *)
Lemma range_nat : forall n, pyo_range (Z.of_nat n) = List.map Z.of_nat (seq 0 n).
Proof. intros n. unfold pyo_range. rewrite Nat2Z.id. reflexivity. Qed.

Lemma enumerate_map {A : Type} : forall (l : list A),
  pyo_enumerate l = combine (List.map Z.of_nat (seq 0 (List.length l))) l.
Proof. intros l. unfold pyo_enumerate, pyo_llen. rewrite range_nat. reflexivity. Qed.

Lemma lindex_nat : forall n k, (k < n)%nat -> pyo_lindex n (Z.of_nat k) = Some k.
Proof.
  intros n k H. unfold pyo_lindex.
  destruct (Z.of_nat k <? 0)%Z eqn:E; [lia|].
  destruct ((0 <=? Z.of_nat k) && (Z.of_nat k <? Z.of_nat n))%Z eqn:E2; [|lia].
  rewrite Nat2Z.id. reflexivity.
Qed.

Lemma nth_error_mid {A : Type} : forall (pre : list A) x r, nth_error (pre ++ x :: r) (List.length pre) = Some x.
Proof. induction pre as [|a pre IH]; intros x r; [reflexivity|exact (IH x r)]. Qed.

Lemma upd_mid {A : Type} : forall (pre : list A) x r f,
  pyo_list_upd (pre ++ x :: r) (List.length pre) f = pre ++ f x :: r.
Proof. induction pre as [|a pre IH]; intros x r f; [reflexivity|]. cbn [app List.length pyo_list_upd]. rewrite IH. reflexivity. Qed.

Lemma pitem_set_sess : forall it m, pyo_set_session (pitem_of it) m = pitem_of (set_sess it m).
Proof. reflexivity. Qed.

Lemma useful_same : forall it, py_useful_mnemonic (it_original_mnemonic (pitem_of it)) = useful it.
Proof. intros it. unfold useful. rewrite useful_of_pin. reflexivity. Qed.

Lemma in_group_same : forall tr t it,
  py_mnemonic_compare tr (py_useful_mnemonic (it_original_mnemonic (pitem_of it))) t = in_group tr t it.
Proof. intros tr t it. rewrite useful_same, <- mnemonic_compare_pin. reflexivity. Qed.

(* ---------- assign_duplicate_suffixes(test_mnemonic) ---------------------------------------------------- *)
Section Assign.
Variables (tr : bool) (t : list N).

(* the positions of the items of the group, counted from a *)
Fixpoint positions (a : nat) (l : list item) : list nat :=
  match l with
  | [] => []
  | it :: r => (if in_group tr t it then [a] else []) ++ positions (S a) r
  end.

Lemma positions_length : forall l a, List.length (positions a l) = group_count tr t l.
Proof.
  unfold group_count. induction l as [|it r IH]; intros a; [reflexivity|]. cbn [positions filter].
  rewrite app_length, IH. destruct (in_group tr t it); reflexivity.
Qed.

Lemma locations_fold : forall l a acc,
  fold_left (fun (locs : list Z) (x : Z * py_item (list N)) =>
               let '(v_i, v_item) := x in
               if py_mnemonic_compare tr (py_useful_mnemonic (it_original_mnemonic v_item)) t then locs ++ [v_i] else locs)
            (combine (List.map Z.of_nat (seq a (List.length l))) (pitems l)) acc
  = acc ++ List.map Z.of_nat (positions a l).
Proof.
  induction l as [|it r IH]; intros a acc; [cbn; rewrite app_nil_r; reflexivity|].
  cbn [List.length seq map combine fold_left positions]. rewrite in_group_same, IH.
  destruct (in_group tr t it); cbn [app map]; [rewrite <- app_assoc; reflexivity|reflexivity].
Qed.

Definition renumber_body (acc : option (list (py_item (list N)))) (x : Z * Z) : option (list (py_item (list N))) :=
  obind acc (fun v_self =>
    let '(v_i, v_loc) := x in
    obind (pyo_list_item v_self v_loc) (fun v_item =>
      obind (pyo_list_modify v_self v_loc
               (fun it_ => pyo_set_session it_
                  (py_useful_mnemonic (it_original_mnemonic v_item) ++ [58%N] ++ int_dec (v_i + 1))))
            (fun v_self0 => Some v_self0))).

Lemma renumber_step : forall pre it r c,
  renumber_body (Some (pitems (pre ++ it :: r))) (Z.of_nat c, Z.of_nat (List.length pre))
  = Some (pitems (pre ++ set_sess it (useful it ++ suffix (S c)) :: r)).
Proof.
  intros pre it r c. unfold renumber_body. cbn [obind].
  unfold pyo_list_item, pyo_list_modify. rewrite map_length, lindex_nat by (rewrite app_length; cbn [List.length]; lia).
  rewrite !map_app. cbn [map]. rewrite <- (map_length pitem_of pre). rewrite nth_error_mid. cbn [obind]. rewrite upd_mid. cbn [obind].
  rewrite useful_same, pitem_set_sess.
  replace (int_dec (Z.of_nat c + 1)) with (nat_dec (S c)) by (unfold int_dec; f_equal; lia).
  reflexivity.
Qed.

Lemma renumber_fold : forall l pre c,
  fold_left renumber_body
            (combine (List.map Z.of_nat (seq c (List.length (positions (List.length pre) l))))
                     (List.map Z.of_nat (positions (List.length pre) l)))
            (Some (pitems (pre ++ l)))
  = Some (pitems (pre ++ renumber tr t (S c) l)).
Proof.
  induction l as [|it r IH]; intros pre c; [reflexivity|].
  cbn [positions renumber]. destruct (in_group tr t it) eqn:E.
  - unfold in_group in E. rewrite E. cbn [app List.length seq map combine fold_left].
    rewrite renumber_step.
    pose proof (IH (pre ++ [set_sess it (useful it ++ suffix (S c))]) (S c)) as H.
    rewrite app_length in H. cbn [List.length] in H. rewrite Nat.add_1_r in H.
    rewrite <- !app_assoc in H. cbn [app] in H. exact H.
  - unfold in_group in E. rewrite E. cbn [app].
    pose proof (IH (pre ++ [it]) c) as H.
    rewrite app_length in H. cbn [List.length] in H. rewrite Nat.add_1_r in H.
    rewrite <- !app_assoc in H. cbn [app] in H. exact H.
Qed.

End Assign.

Theorem assign_pin : forall s t,
  py_assign_duplicate_suffixes int_dec (transforms s) (pitems (items s)) t
  = Some (pitems (items (assign_suffixes t s))).
Proof.
  intros s t. unfold py_assign_duplicate_suffixes, assign_suffixes. cbv zeta.
  set (tr := transforms s). set (l := items s).
  rewrite enumerate_map, map_length.
  pose proof (locations_fold tr t l 0 []) as Hloc. cbn [app] in Hloc.
  match goal with |- context [fold_left ?f (combine (List.map Z.of_nat (seq 0 (List.length l))) (pitems l)) []] =>
    change (fold_left f (combine (List.map Z.of_nat (seq 0 (List.length l))) (pitems l)) [])
      with (fold_left (fun (locs : list Z) (x : Z * py_item (list N)) =>
               let '(v_i, v_item) := x in
               if py_mnemonic_compare tr (py_useful_mnemonic (it_original_mnemonic v_item)) t then locs ++ [v_i] else locs)
            (combine (List.map Z.of_nat (seq 0 (List.length l))) (pitems l)) [])
  end.
  rewrite Hloc. unfold pyo_llen. rewrite map_length, positions_length.
  replace (1 <? Z.of_nat (group_count tr t l))%Z with (Nat.ltb 1 (group_count tr t l)) by lia.
  destruct (Nat.ltb 1 (group_count tr t l)); [|reflexivity].
  rewrite enumerate_map, map_length.
  pose proof (renumber_fold tr t l [] 0) as Hr. cbn [app List.length] in Hr.
  match goal with |- obind (obind (fold_left ?f ?xs ?i) _) _ = _ => change (fold_left f xs i) with (fold_left renumber_body xs i) end.
  rewrite Hr. reflexivity.
Qed.

(* ---------- append, insert ------------------------------------------------------------------------------- *)
Theorem append_pin : forall s it,
  py_section_append int_dec (transforms s) (pitems (items s)) (pitem_of it) = Some (pitems (items (append s it))).
Proof.
  intros s it. unfold py_section_append, append. cbv zeta. rewrite useful_same.
  change [pitem_of it] with (pitems [it]). rewrite <- map_app.
  pose proof (assign_pin (with_items s (items s ++ [it])) (useful it)) as H. cbn [transforms items with_items] in H.
  rewrite H. reflexivity.
Qed.

Lemma insert_at_split {A : Type} : forall k (x : A) l, (k <= List.length l)%nat ->
  insert_at k x l = firstn k l ++ x :: skipn k l.
Proof.
  induction k as [|k IH]; intros x l H; [reflexivity|].
  destruct l as [|a l]; [cbn in H; lia|]. cbn [insert_at firstn skipn app]. rewrite IH by (cbn in H; lia). reflexivity.
Qed.

Lemma list_insert_same {A : Type} : forall (l : list A) i x, pyo_list_insert l i x = py_insert i x l.
Proof.
  intros l i x. unfold pyo_list_insert, py_insert. cbv zeta.
  assert (E : pyo_bound (List.length l) i = py_clamp (List.length l) i).
  { unfold pyo_bound, py_clamp. destruct (i <? 0)%Z eqn:Ei; lia. }
  rewrite E, insert_at_split; [reflexivity|]. unfold py_clamp. destruct (i <? 0)%Z eqn:Ei; lia.
Qed.

Theorem insert_pin : forall s i it,
  py_section_insert int_dec (transforms s) (pitems (items s)) i (pitem_of it) = Some (pitems (items (insert s i it))).
Proof.
  intros s i it. unfold py_section_insert, insert. cbv zeta. rewrite useful_same, list_insert_same.
  replace (py_insert i (pitem_of it) (pitems (items s))) with (pitems (py_insert i it (items s))).
  - pose proof (assign_pin (with_items s (py_insert i it (items s))) (useful it)) as H. cbn [transforms items with_items] in H.
    rewrite H. reflexivity.
  - unfold py_insert. rewrite map_length. generalize (py_clamp (List.length (items s)) i) as k. generalize (items s) as l.
    induction l as [|a l IH]; intros [|k]; cbn [insert_at map]; try reflexivity. rewrite IH. reflexivity.
Qed.

(* ---------- set_item / __delitem__ with a str key ---------------------------------------------------------- *)
Lemma find_ix_lt {A : Type} : forall (p : A -> bool) l n, find_ix p l = Some n -> (n < List.length l)%nat.
Proof.
  induction l as [|x l IH]; intros n H; [discriminate H|]. cbn [find_ix] in H.
  destruct (p x); [injection H as <-; cbn; lia|].
  destruct (find_ix p l) as [m|]; [|discriminate H]. injection H as <-. specialize (IH m eq_refl). cbn. lia.
Qed.

Lemma upd_replace {A : Type} : forall (l : list A) n x, pyo_list_upd l n (fun _ => x) = replace_at n x l.
Proof. induction l as [|a l IH]; intros [|n] x; cbn [pyo_list_upd replace_at]; try reflexivity. rewrite IH. reflexivity. Qed.

Lemma replace_at_map : forall l n it, replace_at n (pitem_of it) (pitems l) = pitems (replace_at n it l).
Proof. induction l as [|a l IH]; intros [|n] it; cbn [replace_at map]; try reflexivity. rewrite IH. reflexivity. Qed.

Lemma remove_at_split {A : Type} : forall (l : list A) n, firstn n l ++ skipn (S n) l = remove_at n l.
Proof. induction l as [|a l IH]; intros [|n]; cbn [firstn skipn app remove_at]; try reflexivity. rewrite IH. reflexivity. Qed.

Lemma remove_at_map : forall l n, remove_at n (pitems l) = pitems (remove_at n l).
Proof. induction l as [|a l IH]; intros [|n]; cbn [remove_at map]; try reflexivity. rewrite IH. reflexivity. Qed.

(* a loop over enumerate(self) that returns at the first item satisfying p (the list is unchanged until then) *)
Section First.
Variable R : Type.
Variables (p : item -> bool) (res : list (py_item (list N)) -> Z -> option R).
Variable f : option R + list (py_item (list N)) -> Z * py_item (list N) -> option R + list (py_item (list N)).
Hypothesis Hinl : forall r x, f (inl r) x = inl r.
Hypothesis Hinr : forall vs i it, f (inr vs) (i, pitem_of it) = if p it then inl (res vs i) else inr vs.

Lemma first_fold : forall (full : list (py_item (list N))) l a,
  fold_left f (combine (List.map Z.of_nat (seq a (List.length l))) (pitems l)) (inr full)
  = match find_ix p l with Some n => inl (res full (Z.of_nat (a + n))) | None => inr full end.
Proof.
  intros full. induction l as [|it r IH]; intros a; [reflexivity|].
  cbn [List.length seq map combine fold_left find_ix]. rewrite Hinr. destruct (p it).
  - rewrite Nat.add_0_r. clear IH.
    generalize (combine (List.map Z.of_nat (seq (S a) (List.length r))) (pitems r)) as xs.
    induction xs as [|x xs IHx]; [reflexivity|]. cbn [fold_left]. rewrite Hinl. exact IHx.
  - rewrite IH. destruct (find_ix p r) as [n|]; [|reflexivity]. replace (S a + n)%nat with (a + S n)%nat by lia. reflexivity.
Qed.
End First.

Definition ires_items (r : ires section) : option (list (py_item (list N))) :=
  match r with IOk s => Some (pitems (items s)) | IErr _ => None end.

Theorem set_item_pin : forall s m it,
  py_section_set_item int_dec (transforms s) (pitems (items s)) m (pitem_of it) = ires_items (set_item s (KStr m) it).
Proof.
  intros s m it. unfold py_section_set_item, set_item. rewrite enumerate_map, map_length.
  set (tr := transforms s). set (l := items s).
  match goal with |- match fold_left ?f _ _ with inl _ => _ | inr _ => _ end = _ =>
    rewrite (first_fold (list (py_item (list N))) (fun x => mnemonic_compare tr m (sess x))
               (fun v_self v_i => match pyo_list_set v_self v_i (pitem_of it) with
                                  | None => None
                                  | Some v_self0 => match py_assign_duplicate_suffixes int_dec tr v_self0
                                                            (py_useful_mnemonic (it_original_mnemonic (pitem_of it))) with
                                                    | None => None | Some v_self1 => Some v_self1 end
                                  end) f)
  end.
  - destruct (find_ix (fun x => mnemonic_compare tr m (sess x)) l) as [n|] eqn:E.
    + cbn [Nat.add ires_items]. apply find_ix_lt in E.
      unfold pyo_list_set, pyo_list_modify. rewrite map_length, lindex_nat by exact E.
      rewrite upd_replace, replace_at_map, useful_same.
      pose proof (assign_pin (with_items s (replace_at n it l)) (useful it)) as H. cbn [transforms items with_items] in H.
      fold tr in H. rewrite H. reflexivity.
    + pose proof (append_pin s it) as H. fold tr l in H. rewrite H. reflexivity.
  - intros r x. reflexivity.
  - intros vs i x. cbn. change (it_mnemonic (pitem_of x)) with (sess x). rewrite <- mnemonic_compare_pin.
    destruct (mnemonic_compare tr m (sess x)); [|reflexivity].
    destruct (pyo_list_set vs i (pitem_of it)) as [v1|]; [|reflexivity].
    destruct (py_assign_duplicate_suffixes int_dec tr v1 _); reflexivity.
Qed.

Theorem delitem_pin : forall s m,
  py_section_delitem (transforms s) (pitems (items s)) m = ires_items (delitem s (KStr m)).
Proof.
  intros s m. unfold py_section_delitem, delitem, lookup_ix. rewrite enumerate_map, map_length.
  set (tr := transforms s). set (l := items s).
  match goal with |- match fold_left ?f _ _ with inl _ => _ | inr _ => _ end = _ =>
    rewrite (first_fold (list (py_item (list N))) (fun x => mnemonic_compare tr (sess x) m)
               (fun v_self v_ix => match pyo_list_del v_self v_ix with None => None | Some v_self0 => Some v_self0 end) f)
  end.
  - destruct (find_ix (fun x => mnemonic_compare tr (sess x) m) l) as [n|] eqn:E; [|reflexivity].
    cbn [Nat.add ires_items items with_items]. apply find_ix_lt in E.
    unfold pyo_list_del. rewrite map_length, lindex_nat by exact E.
    rewrite remove_at_split, remove_at_map. reflexivity.
  - intros r x. reflexivity.
  - intros vs i x. cbn. change (it_mnemonic (pitem_of x)) with (sess x). rewrite <- mnemonic_compare_pin.
    destruct (mnemonic_compare tr (sess x) m); [|reflexivity].
    destruct (pyo_list_del vs i); reflexivity.
Qed.
