(* Proofs.FuncsPinParser — Model/SectionParse.build_item IS SectionParser.curves / params / metadata
   (Gen/Funcs.v, re-translated from /repo on every run): which fields are converted by num, the
   value/description swap of the 1.2 ~Well section, the API/UWI rule, the unit's brackets.

   metadata reads self.orders / self.default_order, which SectionParser.__init__ fills from
   defaults.ORDER_DEFINITIONS[version][section] with the same two nested loops as the writer's
   get_section_order_function (parser_orders is that dict; __init__ itself is hand-modelled by
   parser_entry).  Some: strip_brackets never raises.
   Restated as C08_curves_current, C08_params_current, C08_metadata_current. *)
From Coq Require Import List Arith NArith ZArith Bool Lia String.
Import ListNotations.
Require Import PyStr Regex Regexes NumLit Tables Funcs Num HeaderLine SectionParse Writer
  FuncsPinsLib FuncsPinStandardize FuncsPinSectionParse FuncsPinWriter FuncsPinNum.
Open Scope list_scope.
Open Scope N_scope.

(* the dict read_header_line returns, passed as **keys *)
Definition keys_of (h : hline) : py_keys := mk_py_keys (h_name h) (h_unit h) (h_value h) (h_descr h).

Lemma new_item_same : forall name unit v descr,
  pyo_new_item name unit v descr = item_of (new_item name unit v descr).
Proof. intros. unfold pyo_new_item, item_of, new_item. cbn. rewrite <- useful_pin. reflexivity. Qed.

Theorem curves_pin : forall fstr fzero v h,
  py_parser_curves (hval_ops fstr fzero) (keys_of h) = Some (item_of (build_item v KCurves h)).
Proof.
  intros fstr fzero v h. unfold py_parser_curves, build_item, keys_of. cbn [k_name k_unit k_value k_descr].
  rewrite <- strip_brackets_pin. cbn [obind]. rewrite new_item_same. reflexivity.
Qed.

Theorem params_pin : forall fstr fzero v h,
  py_parser_params (hval_ops fstr fzero) num_hval_ops (keys_of h) = Some (item_of (build_item v KParameter h)).
Proof.
  intros fstr fzero v h. unfold py_parser_params, build_item, keys_of. cbn [k_name k_unit k_value k_descr].
  rewrite <- strip_brackets_pin. cbn [obind]. rewrite new_item_same, <- num_pin. reflexivity.
Qed.

(* self.orders as __init__ builds it from section_orders[1:] *)
Definition parser_orders (ex : list (item_order * list (list N))) : list (list N * list N) :=
  fold_left (fun d (x : item_order * list (list N)) =>
               fold_left (fun d mn => pyo_dict_set d mn (order_str (fst x))) (snd x) d) ex [].
(* (default_order, section_orders[1:]) as __init__ leaves them: the table entry of a ~V / ~W section,
   ("value:descr", {}) for any other title *)
Definition parser_entry (v : las_version) (k : skind) : order_entry :=
  match k with
  | KCustom => (ValueDescr, [])
  | _ => match lookup_order_entry v (sect_table_name k) order_definitions with
         | Some e => e
         | None => (ValueDescr, [])
         end
  end.

Lemma order_for_entry : forall v k m,
  order_for v k m =
  match order_from_exceptions m (snd (parser_entry v k)) None with
  | Some o => o
  | None => match order_from_exceptions (upper m) (snd (parser_entry v k)) None with
            | Some o => o
            | None => fst (parser_entry v k)
            end
  end.
Proof.
  intros v k m. unfold order_for, parser_entry.
  destruct k; try reflexivity;
    destruct (lookup_order_entry v _ order_definitions) as [[d ex]|]; reflexivity.
Qed.

Lemma parser_orders_get : forall ex m dflt,
  pyo_dict_get (parser_orders ex) m dflt
  = match order_from_exceptions m ex None with Some o => order_str o | None => dflt end.
Proof.
  intros ex m dflt. unfold pyo_dict_get, parser_orders.
  rewrite (orders_outer ex [] m None eq_refl).
  destruct (order_from_exceptions m ex None); reflexivity.
Qed.

Definition name_API : list N := Eval compute in s2l "API".
Definition name_UWI : list N := Eval compute in s2l "UWI".

Theorem metadata_pin : forall fstr fzero v k h,
  k <> KCurves -> k <> KParameter ->
  py_parser_metadata (hval_ops fstr fzero) num_hval_ops
    (parser_orders (snd (parser_entry v k))) (order_str (fst (parser_entry v k))) (keys_of h)
  = Some (item_of (build_item v k h)).
Proof.
  intros fstr fzero v k h HC HP.
  assert (Hb : build_item v k h =
               let (value, descr) := match order_for v k (h_name h) with
                                     | ValueDescr => (h_value h, h_descr h)
                                     | DescrValue => (h_descr h, h_value h)
                                     end in
               new_item (h_name h) (strip_brackets (h_unit h))
                 (if is_number_string (h_name h) then VStr value else num value) descr)
    by (destruct k; try reflexivity; congruence).
  rewrite Hb. clear Hb.
  unfold py_parser_metadata, keys_of. cbn [k_name k_unit k_value k_descr]. cbv zeta.
  rewrite !parser_orders_get, order_for_entry. unfold pyo_upper, upper.
  set (o := match order_from_exceptions (h_name h) (snd (parser_entry v k)) None with
            | Some o => o
            | None => match order_from_exceptions (map ascii_upper (h_name h)) (snd (parser_entry v k)) None with
                      | Some o => o
                      | None => fst (parser_entry v k)
                      end
            end).
  assert (Ho : match order_from_exceptions (h_name h) (snd (parser_entry v k)) None with
               | Some o0 => order_str o0
               | None => match order_from_exceptions (map ascii_upper (h_name h)) (snd (parser_entry v k)) None with
                         | Some o0 => order_str o0
                         | None => order_str (fst (parser_entry v k))
                         end
               end = order_str o).
  { unfold o. destruct (order_from_exceptions (h_name h) _ None); [reflexivity|].
    destruct (order_from_exceptions (map ascii_upper (h_name h)) _ None); reflexivity. }
  rewrite Ho. clear Ho.
  assert (Hn : pyo_in_list (map ascii_upper (h_name h)) [name_API; name_UWI] = is_number_string (h_name h)).
  { unfold pyo_in_list, is_number_string, upper. cbn [existsb]. rewrite orb_false_r. reflexivity. }
  change [[65; 80; 73]; [85; 87; 73]] with [name_API; name_UWI]. rewrite Hn.
  rewrite <- strip_brackets_pin.
  destruct o; cbn [order_str str_eqb N.eqb Pos.eqb andb];
    destruct (is_number_string (h_name h)); cbn [negb obind hval_ops dyn_of_str];
    rewrite new_item_same, <- ?num_pin; reflexivity.
Qed.
