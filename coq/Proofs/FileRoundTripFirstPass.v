(* Proofs.FileRoundTripFirstPass — the first pass of Model/Read.v read over a section table
   whose six sections are seen (Proofs/BlocksCongr.v view) as: four header sections titled
   ~V.., ~W.., ~C.., ~P.. (no underscore in the title), one ~O.. section and one data section.
   Reader side only: the result is given in terms of what parse_section returns on the four
   bodies; the version used for ~W, ~C, ~P is the one derived from the VERS item found in ~V.
   (File-level composition, part 3b.) *)
From Coq Require Import List Arith NArith ZArith Bool Lia String.
Import ListNotations.
Require Import PyStr Regex NumLit Num HeaderLine Tables SectionParse Sections DataRead Read.
Require Import StripFacts SectionsProofs ReadProofs ReadInvProofs ReadCongr BlocksCongr
  FileRoundTripText FileRoundTripBlocks FileRoundTripFind.
Open Scope string_scope.
Open Scope list_scope.
Open Scope N_scope.

Definition ps0 : pstate :=
  mkps (VFloat (s2l "2.0")) (VStr (s2l "YES")) None (VStr (s2l "SPACE")) empty_las [] [].

Definition find_val (tr : bool) (key : list N) (items : list hitem) (dflt : hval) : hval :=
  match sect_find tr key items with Some it => i_value it | None => dflt end.
Definition find_opt (tr : bool) (key : list N) (items : list hitem) (dflt : option hval) : option hval :=
  match sect_find tr key items with Some it => Some (i_value it) | None => dflt end.

(* ---- one header section -------------------------------------------------------------------- *)
Definition hdr_step (o : ropts) (ps : pstate) (title : list N) (items : list hitem) (letter : N) : pstate :=
  let sec := mksect items (trc (o_mcase o)) in
  let ps' := update_steering letter sec ps in
  with_las ps' (route (is_v30 (p_version ps')) title letter sec (p_las ps')).

Lemma step_section_header o ls ps p v items letter :
  section_type (sp_title p) = THeader -> version_of (p_version ps) = Some v ->
  las_version_eqb v V30 = false ->
  parse_section v (sp_title p) (o_mcase o) (o_ignore_header_errors o) [ch_hash] (body_lines ls p) = POk items ->
  second_upper (sp_title p) = Some letter ->
  step_section o ls ps p = inl (hdr_step o ps (sp_title p) items letter).
Proof.
  intros Ht Hv H30 Hp Hl. unfold step_section. rewrite Ht, Hv, H30. cbn [andb]. rewrite Hp, Hl. reflexivity.
Qed.

Lemma step_section_data o ls ps p : section_type (sp_title p) = TData ->
  step_section o ls ps p =
  inl (mkps (p_version ps) (p_wrapped ps) (p_null ps) (p_dlm ps) (p_las ps) (p_data ps ++ [p]) (p_las3data ps)).
Proof. intros Ht. unfold step_section. rewrite Ht. reflexivity. Qed.

(* routing by letter, for titles without underscore *)
Lemma no_us_contains title p : in_str 95 title = false -> In 95 p -> contains p title = false.
Proof. intros H Hin. apply (contains_absent p title 95 Hin H). Qed.

Lemma route_V v3 title sec l : in_str 95 title = false ->
  route v3 title 86 sec l = mklas sec (l_well l) (l_curves l) (l_params l) (l_other l) (l_custom l) (l_data l) (l_engine_numpy l).
Proof.
  intros H. unfold route. rewrite (no_us_contains title (s2l "~Log_Definition") H) by (cbn; auto 20).
  rewrite (no_us_contains title (s2l "~Log_Parameter") H) by (cbn; auto 20). unfold ch_us. rewrite H, andb_false_r. reflexivity.
Qed.
Lemma route_W v3 title sec l : in_str 95 title = false ->
  route v3 title 87 sec l = mklas (l_version l) sec (l_curves l) (l_params l) (l_other l) (l_custom l) (l_data l) (l_engine_numpy l).
Proof.
  intros H. unfold route. rewrite (no_us_contains title (s2l "~Log_Definition") H) by (cbn; auto 20).
  rewrite (no_us_contains title (s2l "~Log_Parameter") H) by (cbn; auto 20). unfold ch_us. rewrite H, andb_false_r. reflexivity.
Qed.
Lemma route_C v3 title sec l : in_str 95 title = false ->
  route v3 title 67 sec l = mklas (l_version l) (l_well l) sec (l_params l) (l_other l) (l_custom l) (l_data l) (l_engine_numpy l).
Proof. intros H. unfold route. unfold ch_us. rewrite H, andb_false_r. reflexivity. Qed.
Lemma route_P v3 title sec l : in_str 95 title = false ->
  route v3 title 80 sec l = mklas (l_version l) (l_well l) (l_curves l) sec (l_other l) (l_custom l) (l_data l) (l_engine_numpy l).
Proof.
  intros H. unfold route. unfold ch_us. rewrite H, andb_false_r.
  rewrite (no_us_contains title (s2l "~Log_Definition") H) by (cbn; auto 20). reflexivity.
Qed.

Lemma map_eq_6 {A B} (f : A -> B) l a b c d e g :
  map f l = [a; b; c; d; e; g] ->
  exists p1 p2 p3 p4 p5 p6, l = [p1; p2; p3; p4; p5; p6] /\
    f p1 = a /\ f p2 = b /\ f p3 = c /\ f p4 = d /\ f p5 = e /\ f p6 = g.
Proof.
  destruct l as [|p1 [|p2 [|p3 [|p4 [|p5 [|p6 [|p7 l]]]]]]]; try discriminate.
  cbn [map]. intros [= <- <- <- <- <- <-]. exists p1, p2, p3, p4, p5, p6. repeat split.
Qed.

Lemma view_inv ls p t b ot : view ls p = (t, b, ot) -> sp_title p = t /\ body_lines ls p = b /\ other_text ls p = ot.
Proof. unfold view. intros [= <- <- <-]. repeat split. Qed.

(* ---- the six sections ---------------------------------------------------------------------- *)
Section SixSections.
Variable o : ropts.
Variable ls : list (list N).
Variables T1 T2 T3 T4 T5 T6 : list N.
Variables B1 B2 B3 B4 B5 B6 : list (list N).
Variables O1 O2 O3 O4 O5 O6 : list N.
Variables R1 R2 R3 R4 R5 : list N.

Hypothesis HT1 : T1 = 126 :: 86 :: R1 /\ section_type T1 = THeader /\ in_str 95 T1 = false.
Hypothesis HT2 : T2 = 126 :: 87 :: R2 /\ section_type T2 = THeader /\ in_str 95 T2 = false.
Hypothesis HT3 : T3 = 126 :: 67 :: R3 /\ section_type T3 = THeader /\ in_str 95 T3 = false.
Hypothesis HT4 : T4 = 126 :: 80 :: R4 /\ section_type T4 = THeader /\ in_str 95 T4 = false.
Hypothesis HT5 : T5 = 126 :: 79 :: R5 /\ section_type T5 = TOther.
Hypothesis HT6 : section_type T6 = TData.

Variable sects : list spos.
Hypothesis Hviews : map (view ls) sects =
  [(T1, B1, O1); (T2, B2, O2); (T3, B3, O3); (T4, B4, O4); (T5, B5, O5); (T6, B6, O6)].

Variables iV iW iC iP : list hitem.
Variable v : las_version.
Let c := o_mcase o.
Let ie := o_ignore_header_errors o.
Let tr := trc c.

Hypothesis HpV : parse_section V20 T1 c ie [ch_hash] B1 = POk iV.
Hypothesis Hver : version_of (find_val tr (s2l "VERS") iV (VFloat (s2l "2.0"))) = Some v.
Hypothesis Hv30 : las_version_eqb v V30 = false.
Hypothesis HpW : parse_section v T2 c ie [ch_hash] B2 = POk iW.
Hypothesis HpC : parse_section v T3 c ie [ch_hash] B3 = POk iC.
Hypothesis HpP : parse_section v T4 c ie [ch_hash] B4 = POk iP.

Theorem first_pass_six :
  exists p6,
    sects <> [] /\
    sp_title p6 = T6 /\ body_lines ls p6 = B6 /\
    first_pass o ls ps0 sects =
    inl (mkps (find_val tr (s2l "VERS") iV (VFloat (s2l "2.0")))
              (find_val tr (s2l "WRAP") iV (VStr (s2l "YES")))
              (find_opt tr (s2l "NULL") iW None)
              (find_val tr (s2l "DLM") iV (VStr (s2l "SPACE")))
              (mklas (mksect iV tr) (mksect iW tr) (mksect iC tr) (mksect iP tr) O5 [] [] false)
              [p6] []).
Proof.
  destruct (map_eq_6 _ _ _ _ _ _ _ _ Hviews) as (p1 & p2 & p3 & p4 & p5 & p6 & -> & V1 & V2 & V3 & V4 & V5 & V6).
  apply view_inv in V1 as (E1 & F1 & _). apply view_inv in V2 as (E2 & F2 & _).
  apply view_inv in V3 as (E3 & F3 & _). apply view_inv in V4 as (E4 & F4 & _).
  apply view_inv in V5 as (E5 & _ & G5). apply view_inv in V6 as (E6 & F6 & _).
  destruct HT1 as (S1 & Y1 & U1). destruct HT2 as (S2 & Y2 & U2). destruct HT3 as (S3 & Y3 & U3).
  destruct HT4 as (S4 & Y4 & U4). destruct HT5 as (S5 & Y5).
  exists p6. split; [discriminate|]. split; [exact E6|]. split; [exact F6|].
  cbn [first_pass].
  (* ~Version *)
  rewrite (step_section_header o ls ps0 p1 V20 iV 86);
    [ | rewrite E1; exact Y1 | reflexivity | reflexivity | rewrite E1, F1; exact HpV | rewrite E1, S1; reflexivity ].
  set (ps1 := hdr_step o ps0 (sp_title p1) iV 86).
  assert (P1 : ps1 = mkps (find_val tr (s2l "VERS") iV (VFloat (s2l "2.0")))
                          (find_val tr (s2l "WRAP") iV (VStr (s2l "YES"))) None
                          (find_val tr (s2l "DLM") iV (VStr (s2l "SPACE")))
                          (mklas (mksect iV tr) (l_well empty_las) (l_curves empty_las) (l_params empty_las)
                                 (l_other empty_las) (l_custom empty_las) (l_data empty_las) (l_engine_numpy empty_las)) [] []).
  { subst ps1. unfold hdr_step. cbv zeta. rewrite E1, (route_V _ T1 _ _ U1). reflexivity. }
  rewrite P1. clear P1 ps1.
  (* ~Well *)
  match goal with |- context [step_section o ls ?ps p2] => set (ps1 := ps) end.
  rewrite (step_section_header o ls ps1 p2 v iW 87);
    [ | rewrite E2; exact Y2 | exact Hver | exact Hv30 | rewrite E2, F2; exact HpW | rewrite E2, S2; reflexivity ].
  set (ps2 := hdr_step o ps1 (sp_title p2) iW 87).
  assert (P2 : ps2 = mkps (p_version ps1) (p_wrapped ps1) (find_opt tr (s2l "NULL") iW None) (p_dlm ps1)
                          (mklas (mksect iV tr) (mksect iW tr) (l_curves empty_las) (l_params empty_las)
                                 (l_other empty_las) (l_custom empty_las) (l_data empty_las) (l_engine_numpy empty_las)) [] []).
  { subst ps2. unfold hdr_step. cbv zeta. rewrite E2, (route_W _ T2 _ _ U2). reflexivity. }
  rewrite P2. clear P2 ps2.
  (* ~Curves *)
  match goal with |- context [step_section o ls ?ps p3] => set (ps2 := ps) end.
  rewrite (step_section_header o ls ps2 p3 v iC 67);
    [ | rewrite E3; exact Y3 | exact Hver | exact Hv30 | rewrite E3, F3; exact HpC | rewrite E3, S3; reflexivity ].
  set (ps3 := hdr_step o ps2 (sp_title p3) iC 67).
  assert (P3 : ps3 = mkps (p_version ps1) (p_wrapped ps1) (find_opt tr (s2l "NULL") iW None) (p_dlm ps1)
                          (mklas (mksect iV tr) (mksect iW tr) (mksect iC tr) (l_params empty_las)
                                 (l_other empty_las) (l_custom empty_las) (l_data empty_las) (l_engine_numpy empty_las)) [] []).
  { subst ps3. unfold hdr_step. cbv zeta. rewrite E3, (route_C _ T3 _ _ U3). reflexivity. }
  rewrite P3. clear P3 ps3.
  (* ~Params *)
  match goal with |- context [step_section o ls ?ps p4] => set (ps3 := ps) end.
  rewrite (step_section_header o ls ps3 p4 v iP 80);
    [ | rewrite E4; exact Y4 | exact Hver | exact Hv30 | rewrite E4, F4; exact HpP | rewrite E4, S4; reflexivity ].
  set (ps4 := hdr_step o ps3 (sp_title p4) iP 80).
  assert (P4 : ps4 = mkps (p_version ps1) (p_wrapped ps1) (find_opt tr (s2l "NULL") iW None) (p_dlm ps1)
                          (mklas (mksect iV tr) (mksect iW tr) (mksect iC tr) (mksect iP tr)
                                 (l_other empty_las) (l_custom empty_las) (l_data empty_las) (l_engine_numpy empty_las)) [] []).
  { subst ps4. unfold hdr_step. cbv zeta. rewrite E4, (route_P _ T4 _ _ U4). reflexivity. }
  rewrite P4. clear P4 ps4.
  (* ~Other *)
  rewrite step_section_other by (rewrite E5; exact Y5).
  rewrite E5, G5. unfold other_las. rewrite S5. cbn [second_upper]. change (ascii_upper 79) with 79.
  cbv iota. unfold with_las. cbn [p_version p_wrapped p_null p_dlm p_las p_data p_las3data
    l_version l_well l_curves l_params l_other l_custom l_data l_engine_numpy].
  (* data *)
  rewrite step_section_data by (rewrite E6; exact HT6).
  cbn [p_version p_wrapped p_null p_dlm p_las p_data p_las3data app]. reflexivity.
Qed.

End SixSections.
