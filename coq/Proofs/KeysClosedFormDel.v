(* Proofs.KeysClosedFormDel — the closed form keys = spec_keys (origs) of Proofs/KeysClosedForm.v
   also survives deleting / replacing a curve whose name is NOT duplicated (its group has one
   member): nothing is left behind that could carry a stale suffix.  Deleting or replacing a
   member of a duplicated group does leave stale suffixes (lasio does not re-number on deletion,
   and a replacement re-numbers the group of the NEW item only): keys_closed_form_stale. *)
From Coq Require Import List NArith ZArith Bool Arith Lia String.
Import ListNotations.
Require Import PyStr Items ItemsSpec ItemsProofs ItemsInvProofs Curves CurvesSpec CurvesProofs CurvesInvProofs KeysClosedForm.
Open Scope N_scope.

Lemma names_count_firstn_remove_miss tr u : forall l p n' m,
  nth_error l p = Some m -> hit tr u m = 0%nat ->
  names_count tr u (firstn n' (remove_at p l)) =
  names_count tr u (firstn (if (n' <? p)%nat then n' else S n') l).
Proof.
  induction l as [|a l IH]; intros p n' m Hp Hm; [destruct p; discriminate|].
  destruct p as [|p].
  - cbn [nth_error] in Hp. inversion Hp; subst a. cbn [remove_at].
    replace (n' <? 0)%nat with false by (symmetry; apply Nat.ltb_ge; lia).
    cbn [firstn]. rewrite names_count_cons, Hm. reflexivity.
  - cbn [nth_error] in Hp. cbn [remove_at]. destruct n' as [|n'']; [reflexivity|].
    change (S n'' <? S p)%nat with (n'' <? p)%nat. cbn [firstn]. rewrite names_count_cons, (IH p n'' m Hp Hm).
    destruct (n'' <? p)%nat; cbn [firstn]; rewrite names_count_cons; reflexivity.
Qed.

Lemma names_count_remove_miss tr u : forall l p m,
  nth_error l p = Some m -> hit tr u m = 0%nat -> names_count tr u (remove_at p l) = names_count tr u l.
Proof.
  induction l as [|a l IH]; intros p m Hp Hm; [destruct p; discriminate|].
  destruct p as [|p]; cbn [nth_error] in Hp; cbn [remove_at].
  - inversion Hp; subst a. rewrite names_count_cons, Hm. reflexivity.
  - rewrite !names_count_cons, (IH p m Hp Hm). reflexivity.
Qed.

(* two members at different positions: the group has at least two members *)
Lemma two_members tr t l i j a b : i <> j -> nth_error l i = Some a -> nth_error l j = Some b ->
  in_group tr t a = true -> in_group tr t b = true -> (2 <= group_count tr t l)%nat.
Proof.
  intros Hij Ha Hb Ga Gb. destruct (Nat.lt_ge_cases i j) as [L|L].
  - pose proof (numbering_order tr t l i j a b L Ha Hb Ga Gb). lia.
  - assert (L' : (j < i)%nat) by lia. pose proof (numbering_order tr t l j i b a L' Hb Ha Gb Ga). lia.
Qed.

Lemma canon_remove_single : forall tr names s p it,
  canon tr names s -> nth_error (items s) p = Some it ->
  group_count tr (useful it) (items s) = 1%nat ->
  canon tr (remove_at p names) (with_items s (remove_at p (items s))).
Proof.
  intros tr names s p it [O [T C]] Hp G1.
  split; [unfold origs; cbn [with_items items]; rewrite map_remove_at; fold (origs s); rewrite O; reflexivity|].
  split; [exact T|].
  intros n' it' E. cbn [with_items items] in E. rewrite remove_at_nth in E.
  set (n := if (n' <? p)%nat then n' else S n') in *.
  assert (Hn : n <> p) by (unfold n; destruct (Nat.ltb_spec n' p); lia).
  rewrite (C n it' E). unfold spec_sess. set (u := useful_of (orig it')).
  assert (Hm : nth_error names p = Some (orig it)).
  { rewrite <- O. unfold origs. rewrite nth_error_map, Hp. reflexivity. }
  assert (Hh : hit tr u (orig it) = 0%nat).
  { unfold hit. destruct (mnemonic_compare tr (useful_of (orig it)) u) eqn:Ecmp; [|reflexivity].
    exfalso. assert (Gi : in_group tr (useful it) it = true) by apply in_group_self.
    assert (Gi' : in_group tr (useful it) it' = true).
    { unfold in_group. fold u. change (useful it') with u. rewrite cmp_sym. exact Ecmp. }
    pose proof (two_members tr (useful it) (items s) n p it' it Hn E Hp Gi' Gi). lia. }
  rewrite (names_count_remove_miss tr u names p (orig it) Hm Hh).
  rewrite (names_count_firstn_remove_miss tr u names p n' (orig it) Hm Hh). reflexivity.
Qed.

(* ---- the wider class of operations ------------------------------------------------------- *)
Definition single_at (s : section) (p : nat) : bool :=
  match nth_error (items s) p with
  | Some it => Nat.eqb (group_count (transforms s) (useful it) (items s)) 1
  | None => true
  end.
Definition single_ix (s : section) (z : Z) : bool :=
  match py_index (List.length (items s)) z with Some p => single_at s p | None => true end.

(* growing operations, set_data, in-place updates, and deletion / replacement of a curve whose
   name is not duplicated at that moment *)
Definition keeps (s : section) (o : Curves.op) : bool :=
  match o with
  | ODelete mn ix => match resolve_addr (keys s) mn ix with IOk z => single_ix s z | IErr _ => true end
  | OReplace ix _ => single_ix s ix
  | OSetItem k (VItem _) => match key_index (keys s) k with Some n => single_at s n | None => true end
  | _ => true
  end.
Fixpoint keeps_all (s : section) (ops : list Curves.op) : bool :=
  match ops with [] => true | o :: r => keeps s o && keeps_all (Curves.step_keep s o) r end.

Lemma grows_keeps s o : grows s o = true -> keeps s o = true.
Proof.
  destruct o as [a|ix a|x|ix x|mn ix|mn ix u|ix a|k v|a l t]; cbn [grows keeps]; try reflexivity; try discriminate.
  destruct v as [d|a]; [reflexivity|]. destruct (key_index (keys s) k); [discriminate|reflexivity].
Qed.

Lemma grows_all_keeps : forall ops s, grows_all s ops = true -> keeps_all s ops = true.
Proof.
  induction ops as [|o ops IH]; intros s H; [reflexivity|]. cbn [grows_all keeps_all] in *.
  apply andb_true_iff in H as [H1 H2]. rewrite (grows_keeps s o H1), (IH _ H2). reflexivity.
Qed.

Lemma pop_curve_canon : forall tr names s z s', canon tr names s -> transforms s = tr ->
  single_ix s z = true -> pop_curve s z = IOk s' -> canon tr (origs s') s'.
Proof.
  intros tr names s z s' HC T S E. unfold pop_curve, py_del in E. unfold single_ix in S.
  destruct (py_index (List.length (items s)) z) as [p|] eqn:Ep; [|discriminate]. inversion E; subst s'. clear E.
  unfold single_at in S. destruct (nth_error (items s) p) as [it|] eqn:Hp.
  - apply Nat.eqb_eq in S. rewrite T in S. eapply canon_retarget. eapply canon_remove_single; eauto.
  - (* position beyond the end: remove_at is the identity *)
    assert (R : remove_at p (items s) = items s).
    { apply nth_error_None in Hp. clear -Hp. revert p Hp. induction (items s) as [|a l IH]; intros p Hp; [reflexivity|].
      destruct p as [|p]; cbn [List.length] in Hp; [lia|]. cbn [remove_at]. rewrite IH by lia. reflexivity. }
    rewrite R. destruct s as [its tr']. cbn [with_items items transforms] in *. eapply canon_retarget. exact HC.
Qed.

Lemma replace_curve_canon : forall tr names s z a s', canon tr names s -> transforms s = tr ->
  single_ix s z = true -> replace_curve_item s z a = IOk s' -> canon tr (origs s') s'.
Proof.
  intros tr names s z a s' HC T S E. unfold replace_curve_item in E.
  destruct (pop_curve s z) as [s1|e] eqn:E1; [|discriminate].
  pose proof (pop_curve_canon tr names s z s1 HC T S E1) as H1.
  cbn [insert_curve_item] in E. inversion E; subst s'. eapply canon_retarget. apply insert_curve_canon. exact H1.
Qed.

Theorem step_canon_keeps : forall s o, canon (transforms s) (origs s) s -> keeps s o = true ->
  canon (transforms s) (origs (Curves.step_keep s o)) (Curves.step_keep s o).
Proof.
  intros s o HC K.
  destruct (grows s o) eqn:G; [apply step_canon; assumption|].
  unfold Curves.step_keep.
  destruct o as [a|ix a|x|ix x|mn ix|mn ix u|ix a|k v|a l t]; cbn [grows] in G; try discriminate; cbn [Curves.step keeps] in *.
  - unfold delete_curve. destruct (resolve_addr (keys s) mn ix) as [z|e]; [|exact HC].
    destruct (pop_curve s z) as [s'|e] eqn:E; [|exact HC].
    eapply pop_curve_canon; eauto.
  - destruct (replace_curve_item s ix a) as [s'|e] eqn:E; [|exact HC].
    eapply replace_curve_canon; eauto.
  - destruct v as [d|a]; [discriminate|]. cbn [setitem].
    destruct (negb (str_eqb k (sess (new_curve a)))); [exact HC|].
    destruct (key_index (keys s) k) as [n|] eqn:Kk; [|discriminate].
    destruct (replace_curve_item s (Z.of_nat n) a) as [s'|e] eqn:E; [|exact HC].
    eapply replace_curve_canon; eauto.
    unfold single_ix. pose proof (key_index_sound _ _ _ Kk) as Hn.
    assert (Hlt : (n < List.length (items s))%nat).
    { apply nth_error_Some. unfold keys in Hn. rewrite nth_error_map in Hn. destruct (nth_error (items s) n); discriminate. }
    unfold py_index.
    replace ((0 <=? Z.of_nat n) && (Z.of_nat n <? Z.of_nat (List.length (items s))))%Z with true
      by (symmetry; apply andb_true_iff; split; [apply Z.leb_le|apply Z.ltb_lt]; lia).
    rewrite Nat2Z.id. exact K.
Qed.

Lemma step_keeps_transforms : forall s o, canon (transforms s) (origs s) s -> keeps s o = true ->
  transforms (Curves.step_keep s o) = transforms s.
Proof. intros s o HC K. apply (step_canon_keeps s o HC K). Qed.

Theorem run_canon_keeps : forall ops s, canon (transforms s) (origs s) s -> keeps_all s ops = true ->
  canon (transforms s) (origs (Curves.run s ops)) (Curves.run s ops).
Proof.
  induction ops as [|o ops IH]; intros s HC G; unfold Curves.run in *; cbn [fold_left]; [exact HC|].
  cbn [keeps_all] in G. apply andb_true_iff in G. destruct G as [G1 G2].
  pose proof (step_canon_keeps s o HC G1) as H1. pose proof (step_keeps_transforms s o HC G1) as T1.
  rewrite <- T1. apply IH; [rewrite T1; exact H1|exact G2].
Qed.

Theorem keys_closed_form_keeps : forall ops s, keys s = spec_keys (transforms s) (origs s) -> keeps_all s ops = true ->
  keys (Curves.run s ops) =
  spec_keys (transforms s) (List.map e_name (fold_left spec_keep (resolved s ops) (abs s))).
Proof.
  intros ops s H G. rewrite <- refinement, <- origs_abs.
  apply canon_keys. apply run_canon_keeps; [apply keys_canon; exact H|exact G].
Qed.

(* outside the class the closed form is FALSE: deletion does not re-number *)
Definition cvA (d : list N) : cargs := mkCargs [65] [] [] [] d.
Theorem keys_closed_form_stale :
  let ops := [OAppendCurve (cvA [1]); OAppendCurve (cvA [2]); ODelete None (Some 0%Z)] in
  keeps_all fresh_las ops = false /\
  keys (Curves.run fresh_las ops) = [[65; 58; 50]] /\
  spec_keys false (origs (Curves.run fresh_las ops)) = [[65]].
Proof. vm_compute. repeat split. Qed.

(* one step, stated on keys *)
Theorem step_keys_keeps : forall s o, keys s = spec_keys (transforms s) (origs s) -> keeps s o = true ->
  keys (Curves.step_keep s o) = spec_keys (transforms s) (origs (Curves.step_keep s o)).
Proof. intros s o H K. apply canon_keys. apply step_canon_keeps; [apply keys_canon; exact H|exact K]. Qed.

(* set_data with an array that has elements renames every curve (curve.mnemonic = names[i] resets the
   session name) and then runs the suffix rule over every name: the keys are the closed form of the
   new names WHATEVER the keys were before (stale suffixes disappear) *)
Theorem set_data_keys : forall s cols0 names (t : bool) s',
  size_pos (if t then firstn (List.length (items s)) cols0 else cols0) = true ->
  set_data s (Arr2 cols0) names t = IOk s' ->
  keys s' = spec_keys (transforms s) (origs s') /\ transforms s' = transforms s.
Proof.
  intros s cols0 names t s' Hsz E. unfold set_data in E.
  set (cols := if t then firstn (List.length (items s)) cols0 else cols0) in *. rewrite Hsz in E.
  destruct (Nat.ltb (List.length cols) (List.length (items s))) eqn:Lt; [discriminate|].
  inversion E; subst s'. clear E. apply Nat.ltb_ge in Lt.
  set (s1 := extend s (List.length cols - List.length (items s))).
  destruct (set_data_lengths s cols names Lt) as [Ln Lc]. fold s1 in Ln, Lc.
  assert (HC : canon (transforms s) (origs (with_items s1 (bind_cols (items s1) (names_for s1 names) cols)))
                     (assign_all (with_items s1 (bind_cols (items s1) (names_for s1 names) cols)))).
  { apply canon_assign_all. split; [reflexivity|]. split.
    - cbn [with_items transforms]. unfold s1. apply extend_transforms.
    - intros n it En. right. cbn [with_items items] in En. apply nth_error_In in En.
      apply (bind_cols_fresh (items s1) (names_for s1 names) cols); [assumption|lia|assumption]. }
  split.
  - pose proof (canon_retarget _ _ _ HC) as HC'. apply canon_keys. exact HC'.
  - apply HC.
Qed.
