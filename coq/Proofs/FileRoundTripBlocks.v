(* Proofs.FileRoundTripBlocks — the six blocks of a written file are well formed (title line
   + body lines none of which is a title), hence (C05: Proofs/SectionsProofs.v, Proofs/BlocksCongr.v
   views_exact) find_sections on the lines of the written text lists exactly six sections with
   the written titles, the written bodies and, for ~Other, the stripped written lines; the
   titles are classified header, header, header, header, ~Other, data and the four header
   sections are the ~V, ~W, ~C, ~P ones.  (File-level composition, part 2.) *)
From Coq Require Import List Arith NArith ZArith Bool Lia String.
Import ListNotations.
Require Import PyStr Regex NumLit Num Tables SectionParse Sections DataRead Read TextWrap Writer.
Require Import StripFacts SectionsProofs ReadProofs ReadInvProofs ReadCongr BlocksCongr
  WriteOptionsProofs WriteDataTextProofs FileRoundTripText.
Open Scope string_scope.
Open Scope list_scope.
Open Scope N_scope.

(* ---- characters of a pattern found in a text ------------------------------------------------ *)
Lemma startswith_incl : forall p s c, startswith p s = true -> In c p -> In c s.
Proof.
  induction p as [|x p IH]; intros s c H Hin; [destruct Hin|].
  destruct s as [|y s]; [discriminate|]. cbn [startswith] in H. apply andb_true_iff in H as [Hxy H].
  apply N.eqb_eq in Hxy. subst y. destruct Hin as [<-|Hin]; [left; reflexivity|right; apply (IH s c H Hin)].
Qed.

Lemma find_from_incl p : forall s i n c, find_from p s i = Some n -> In c p -> In c s.
Proof.
  induction s as [|y s IH]; intros i n c H Hin.
  - cbn [find_from] in H. destruct (startswith p []) eqn:E; [|discriminate].
    apply (startswith_incl p [] c E Hin).
  - cbn [find_from] in H. destruct (startswith p (y :: s)) eqn:E.
    + apply (startswith_incl p _ c E Hin).
    + right. apply (IH _ _ c H Hin).
Qed.

Lemma contains_absent p s c : In c p -> in_str c s = false -> contains p s = false.
Proof.
  intros Hin Hs. unfold contains, find. destruct (find_from p s 0%nat) as [n|] eqn:E; [|reflexivity].
  apply in_str_false_In in Hs. exfalso. apply Hs. apply (find_from_incl p s _ _ c E Hin).
Qed.

(* ---- stripped title lines -------------------------------------------------------------------- *)
Lemma strip_title2 a b rest : is_space a = false -> is_space b = false ->
  strip (a :: b :: rest) = a :: b :: rstrip rest.
Proof.
  intros Ha Hb. unfold strip, strip_by. rewrite lstrip_by_head by exact Ha.
  rewrite rstrip_by_cons_keep by exact Ha. rewrite rstrip_by_cons_keep by exact Hb. reflexivity.
Qed.

Lemma title_line_cons2 hw a b t :
  title_line hw (a :: b :: t) = a :: b :: t ++ repeat_ch 45 (hw - S (S (List.length t))).
Proof. reflexivity. Qed.

(* the stripped form of a written title line (with its terminator) *)
Definition stitle (hw : nat) (t : list N) : list N := strip (add_nl (title_line hw t)).

Lemma in_str_repeat c d n : c <> d -> in_str c (repeat_ch d n) = false.
Proof. intros H. apply in_str_false_In. intros K. apply repeat_spec in K. congruence. Qed.

Lemma stitle_no_us hw t : in_str 95 t = false -> in_str 95 (stitle hw t) = false.
Proof.
  intros H. unfold stitle. apply in_str_strip. unfold add_nl, title_line, ljust.
  rewrite !in_str_app, H, in_str_repeat by discriminate. reflexivity.
Qed.

Lemma stitle_shape hw a b t : is_space a = false -> is_space b = false ->
  exists rest, stitle hw (a :: b :: t) = a :: b :: rest.
Proof.
  intros Ha Hb. unfold stitle, add_nl. rewrite title_line_cons2. cbn [app].
  rewrite strip_title2 by assumption. eexists. reflexivity.
Qed.

Lemma stitle_strip hw t : strip (stitle hw t) = stitle hw t.
Proof. apply strip_idem. Qed.

(* classification of the five fixed titles *)
Lemma stype_header_of title c rest :
  title = 126 :: c :: rest -> strip title = title -> in_str 95 title = false ->
  ascii_upper c <> 65 -> ascii_upper c <> 79 -> section_type title = THeader.
Proof.
  intros E Hs Hus Ha Ho. apply (section_type_header title c rest); try assumption.
  - rewrite Hs. exact E.
  - rewrite <- E. apply (contains_absent _ _ 95); [cbn; auto 10|exact Hus].
  - rewrite <- E. apply (contains_absent _ _ 95); [cbn; auto 10|exact Hus].
Qed.

Lemma stitle_version hw : exists rest, stitle hw t_version = 126 :: 86 :: rest /\
  section_type (stitle hw t_version) = THeader /\ in_str 95 (stitle hw t_version) = false.
Proof.
  destruct (stitle_shape hw 126 86 (s2l "ersion ") eq_refl eq_refl) as (rest & E).
  change (126 :: 86 :: s2l "ersion ") with t_version in E.
  pose proof (stitle_no_us hw t_version eq_refl) as Hus.
  exists rest. split; [exact E|]. split; [|exact Hus].
  apply (stype_header_of _ 86 rest E (stitle_strip _ _) Hus); discriminate.
Qed.

Lemma stitle_well hw : exists rest, stitle hw t_well = 126 :: 87 :: rest /\
  section_type (stitle hw t_well) = THeader /\ in_str 95 (stitle hw t_well) = false.
Proof.
  destruct (stitle_shape hw 126 87 (s2l "ell ") eq_refl eq_refl) as (rest & E).
  change (126 :: 87 :: s2l "ell ") with t_well in E.
  pose proof (stitle_no_us hw t_well eq_refl) as Hus.
  exists rest. split; [exact E|]. split; [|exact Hus].
  apply (stype_header_of _ 87 rest E (stitle_strip _ _) Hus); discriminate.
Qed.

Lemma stitle_curves hw : exists rest, stitle hw t_curves = 126 :: 67 :: rest /\
  section_type (stitle hw t_curves) = THeader /\ in_str 95 (stitle hw t_curves) = false.
Proof.
  destruct (stitle_shape hw 126 67 (s2l "urve Information ") eq_refl eq_refl) as (rest & E).
  change (126 :: 67 :: s2l "urve Information ") with t_curves in E.
  pose proof (stitle_no_us hw t_curves eq_refl) as Hus.
  exists rest. split; [exact E|]. split; [|exact Hus].
  apply (stype_header_of _ 67 rest E (stitle_strip _ _) Hus); discriminate.
Qed.

Lemma stitle_params hw : exists rest, stitle hw t_params = 126 :: 80 :: rest /\
  section_type (stitle hw t_params) = THeader /\ in_str 95 (stitle hw t_params) = false.
Proof.
  destruct (stitle_shape hw 126 80 (s2l "arams ") eq_refl eq_refl) as (rest & E).
  change (126 :: 80 :: s2l "arams ") with t_params in E.
  pose proof (stitle_no_us hw t_params eq_refl) as Hus.
  exists rest. split; [exact E|]. split; [|exact Hus].
  apply (stype_header_of _ 80 rest E (stitle_strip _ _) Hus); discriminate.
Qed.

Lemma stitle_other hw : exists rest, stitle hw t_other = 126 :: 79 :: rest /\
  section_type (stitle hw t_other) = TOther.
Proof.
  destruct (stitle_shape hw 126 79 (s2l "ther ") eq_refl eq_refl) as (rest & E).
  change (126 :: 79 :: s2l "ther ") with t_other in E.
  pose proof (stitle_no_us hw t_other eq_refl) as Hus.
  exists rest. split; [exact E|].
  apply (section_type_other _ 79 rest); [rewrite stitle_strip; exact E|reflexivity|].
  rewrite <- E. apply (contains_absent _ _ 95); [cbn; auto 10|exact Hus].
Qed.

(* the data-section header: "~A..." in any case *)
Definition data_header_ok (h : list N) : Prop :=
  exists c r, h = 126 :: c :: r /\ ascii_upper c = 65.

Lemma upper_A_not_space c : ascii_upper c = 65 -> is_space c = false.
Proof.
  unfold ascii_upper. destruct ((97 <=? c) && (c <=? 122)) eqn:E; intros H.
  - assert (c = 97) by lia. subst c. reflexivity.
  - subst c. reflexivity.
Qed.

Lemma data_title_type h rest : data_header_ok h ->
  exists c r, strip (add_nl (h ++ 32 :: rest)) = 126 :: c :: r /\
              section_type (strip (add_nl (h ++ 32 :: rest))) = TData.
Proof.
  intros (c & r & -> & Hc). unfold add_nl. cbn [app].
  rewrite strip_title2 by (try reflexivity; apply upper_A_not_space; exact Hc).
  eexists c, _. split; [reflexivity|].
  apply (section_type_data _ c (rstrip ((r ++ 32 :: rest) ++ [10]))); [|exact Hc].
  rewrite <- (strip_title2 126 c) by (try reflexivity; apply upper_A_not_space; exact Hc).
  apply strip_idem.
Qed.

(* ---- well-formedness of the six blocks -------------------------------------------------------- *)
Lemma is_title_title_line hw t rest : t = 126 :: rest -> is_title (title_line hw t) = true.
Proof. intros ->. unfold title_line, ljust. cbn [app]. apply is_title_tilde. Qed.

Lemma is_title_data_line h rest : data_header_ok h -> is_title (h ++ 32 :: rest) = true.
Proof. intros (c & r & -> & _). cbn [app]. apply is_title_tilde. Qed.

Section WithOracles.
Variable fstr : list N -> list N.

(* no body line of the written file is a title *)
Definition bodies_notitle (hs : hdr_sections) (dls : list (list N)) : Prop :=
  notitles (hs_lv hs) /\ notitles (hs_lw hs) /\ notitles (hs_lc hs) /\ notitles (hs_lp hs) /\
  notitles (splitlines (l_other (hs_las hs))) /\ notitles dls.

Theorem written_blocks_wf o hs dl dls rest :
  dl = wo_data_section_header o ++ 32 :: rest -> data_header_ok (wo_data_section_header o) ->
  bodies_notitle hs dls ->
  Forall wf_block (written_blocks o hs dl dls).
Proof.
  intros Hdl Hh (Hv & Hw & Hc & Hp & Ho & Hd). unfold written_blocks, header_blocks. cbn [app].
  repeat constructor; cbn [fst snd]; try assumption;
    try (eapply is_title_title_line; reflexivity).
  rewrite Hdl. apply is_title_data_line. exact Hh.
Qed.

(* ---- what the consumers see of the six sections ------------------------------------------------ *)
Lemma map_strip_add_nl ls : map strip (map add_nl ls) = map strip ls.
Proof. rewrite map_map. apply map_ext. intros l. apply strip_lf. Qed.

Lemma block_view_nl b : block_view (nl_block b) = (strip (add_nl (fst b)), map add_nl (snd b), other_of_block b).
Proof. unfold block_view, nl_block, other_of_block. cbn [fst snd]. rewrite map_strip_add_nl. reflexivity. Qed.

(* 2. the section table of the written text *)
Theorem written_sections_found ls o hs dl dls rest :
  ls = render (map nl_block (written_blocks o hs dl dls)) ->
  dl = wo_data_section_header o ++ 32 :: rest -> data_header_ok (wo_data_section_header o) ->
  bodies_notitle hs dls ->
  let hw := wo_header_width o in
  map (view ls) (find_sections ls) =
  [ (stitle hw t_version, map add_nl (hs_lv hs), join [ch_nl] (map strip (hs_lv hs)));
    (stitle hw t_well, map add_nl (hs_lw hs), join [ch_nl] (map strip (hs_lw hs)));
    (stitle hw t_curves, map add_nl (hs_lc hs), join [ch_nl] (map strip (hs_lc hs)));
    (stitle hw t_params, map add_nl (hs_lp hs), join [ch_nl] (map strip (hs_lp hs)));
    (stitle hw t_other, map add_nl (splitlines (l_other (hs_las hs))),
       join [ch_nl] (map strip (splitlines (l_other (hs_las hs)))));
    (strip (add_nl dl), map add_nl dls, join [ch_nl] (map strip dls)) ].
Proof.
  intros -> Hdl Hh Hb hw.
  pose proof (written_blocks_wf o hs dl dls rest Hdl Hh Hb) as Hwf.
  assert (Hwf' : Forall wf_block (map nl_block (written_blocks o hs dl dls))).
  { apply Forall_forall. intros b Hin. apply in_map_iff in Hin as (b0 & <- & Hin0).
    apply wf_nl_block. rewrite Forall_forall in Hwf. apply Hwf. exact Hin0. }
  pose proof (views_exact [] _ eq_refl Hwf') as V. cbn [app] in V. rewrite V.
  rewrite map_map. unfold written_blocks, header_blocks. cbn [app map].
  rewrite !block_view_nl. reflexivity.
Qed.

End WithOracles.
