(* Proofs.FuncsPinWriteHeader — the four header sections of writer.write, each as the block of statements that
   emits it (Gen/Funcs.v: py_write_version_section / py_write_well_section / py_write_curves_section /
   py_write_params_section, re-translated from /repo on every run): the title line, then - for ~Well and
   ~Parameter - the normalisation of every value by standardize_value BEFORE the column widths are measured, then
   one line per item laid out by the order function, the widths and the formatter.  The model's
   Writer.section_lines over Writer.standardize-d items, after Writer.title_line, is exactly that.
   Any other statement inside one of these blocks (seed C11_3 moved las.update_units_from_index_curve() between
   the normalisation loop and get_section_widths) is refused by the translator.
   Restated as C11_well_section_current etc. *)
From Coq Require Import List Arith NArith ZArith Bool Lia ZifyBool ZifyN ZifyNat String.
Import ListNotations.
Require Import PyStr Regex Regexes Tables Funcs Num HeaderLine SectionParse Writer FuncsPinsLib FuncsPinStandardize FuncsPinWriter.
Open Scope list_scope.
Open Scope N_scope.

Lemma fold_left_ext {A B : Type} (F G : A -> B -> A) : (forall a b, F a b = G a b) ->
  forall l a, fold_left F l a = fold_left G l a.
Proof. intros H. induction l as [|x l IH]; intros a; [reflexivity|]. cbn [fold_left]. rewrite H. apply IH. Qed.

(* get_section_widths only applies its order function *)
Lemma widths_ext {V : Type} (ops : dyn_ops V) : forall items (f g : list N -> list N), (forall m, f m = g m) ->
  py_get_section_widths ops items f = py_get_section_widths ops items g.
Proof.
  intros items f g H. unfold py_get_section_widths. cbv zeta.
  destruct (0 <? pyo_llen items)%Z; [|reflexivity].
  destruct (obind (obind (pyo_max _) _) _) as [sw|]; cbn [obind]; [|reflexivity].
  erewrite fold_left_ext; [reflexivity|]. intros a x. cbv beta. rewrite H. reflexivity.
Qed.

Lemma ljust_fill_same : forall (s : list N) w c, pyo_ljust_fill s (Z.of_nat w) c = ljust w c s.
Proof.
  intros s w c. unfold pyo_ljust_fill, ljust, repeat_ch, pyo_len. f_equal. f_equal. lia.
Qed.

Section Pin.
Variables (fstr : list N -> list N) (fzero : list N -> bool).

Definition std_item (it : hitem) : hitem := set_value it (standardize fzero (i_value it) (i_unit it)).
Definition ord_of (v : las_version) (sect : list N) (it : hitem) : item_order :=
  match order_of v sect (i_orig it) with Some o => o | None => ValueDescr end.

Lemma std_item_same : forall it,
  mk_py_item (it_mnemonic (item_of it)) (it_original_mnemonic (item_of it)) (Funcs.it_unit (item_of it))
    (py_standardize_value (hval_ops fstr fzero) (Funcs.it_value (item_of it)) (Funcs.it_unit (item_of it))) (Funcs.it_descr (item_of it))
  = item_of (std_item it).
Proof. intros [a b c d e]. unfold std_item, set_value, item_of. cbn. rewrite <- standardize_pin. reflexivity. Qed.

(* what follows the title line (and the normalisation loop) in each of the four blocks *)
Lemma section_tail : forall v sect items L0,
  obind (py_get_section_order_function sect v order_definitions [])
    (fun _ : list N =>
     obind (py_get_section_widths (hval_ops fstr fzero) (List.map item_of items)
              (fun x0_ : list N => match py_get_section_order_function sect v order_definitions x0_ with Some r_ => r_ | None => [] end))
       (fun v_section_widths : list (list N * option Z) =>
        obind (fold_left (fun (t9_ : option (list (list N))) (v_header_item : py_item hval) =>
                 obind t9_ (fun v_lines : list (list N) =>
                   if forallb (fun kv_ : list N * option Z => pyo_in_list (fst kv_) [key_left_width; key_middle_width]) v_section_widths
                   then obind (py_get_formatter_function (hval_ops fstr fzero)
                                 match py_get_section_order_function sect v order_definitions (it_original_mnemonic v_header_item) with
                                 | Some r_ => r_ | None => [] end
                                 (pyo_dict_get v_section_widths key_left_width None)
                                 (pyo_dict_get v_section_widths key_middle_width None) v_header_item)
                              (fun v_line : list N => Some (v_lines ++ [v_line]))
                   else None)) (List.map item_of items) (Some L0))
          (fun v_lines : list (list N) => Some (List.map item_of items, v_lines))))
  = match section_lines fstr v sect items with
    | Some ls => Some (List.map item_of items, L0 ++ ls)
    | None => None
    end.
Proof.
  intros v sect items L0. rewrite section_lines_unfold, <- order_of_pin. unfold order_of at 1.
  destruct (lookup_order_entry v sect order_definitions) as [[dflt ex]|] eqn:El; [|reflexivity].
  cbn [option_map obind]. cbv zeta.
  set (ordm := fun m : list N => match order_of v sect m with Some o => o | None => ValueDescr end).
  assert (Hord : forall m, match py_get_section_order_function sect v order_definitions m with Some r_ => r_ | None => [] end
                           = order_str (ordm m)).
  { intros m. rewrite <- order_of_pin. unfold ordm, order_of. rewrite El. reflexivity. }
  rewrite (widths_ext _ _ _ (fun m => order_str (ordm m)) Hord), widths_pin. cbn [obind].
  destruct items as [|it0 items0]; [cbn; rewrite app_nil_r; reflexivity|].
  set (items := it0 :: items0).
  set (lw := widths_left items). set (mw := widths_middle fstr (fun it : hitem => ordm (i_orig it)) items).
  assert (Hfold : forall l acc,
    fold_left (fun (t9_ : option (list (list N))) (v_header_item : py_item hval) =>
                 obind t9_ (fun v_lines : list (list N) =>
                   if forallb (fun kv_ : list N * option Z => pyo_in_list (fst kv_) [key_left_width; key_middle_width])
                              [(key_left_width, Some (Z.of_nat lw)); (key_middle_width, Some (Z.of_nat mw))]
                   then obind (py_get_formatter_function (hval_ops fstr fzero)
                                 match py_get_section_order_function sect v order_definitions (it_original_mnemonic v_header_item) with
                                 | Some r_ => r_ | None => [] end
                                 (pyo_dict_get [(key_left_width, Some (Z.of_nat lw)); (key_middle_width, Some (Z.of_nat mw))] key_left_width None)
                                 (pyo_dict_get [(key_left_width, Some (Z.of_nat lw)); (key_middle_width, Some (Z.of_nat mw))] key_middle_width None)
                                 v_header_item)
                              (fun v_line : list N => Some (v_lines ++ [v_line]))
                   else None)) (List.map item_of l) (Some acc)
    = Some (acc ++ List.map (fun it => format_item fstr (ordm (i_orig it)) lw mw it) l)).
  { induction l as [|it l IH]; intros acc; [cbn; rewrite app_nil_r; reflexivity|].
    cbn [List.map fold_left obind].
    change (forallb _ [(key_left_width, Some (Z.of_nat lw)); (key_middle_width, Some (Z.of_nat mw))]) with true.
    change (pyo_dict_get [(key_left_width, Some (Z.of_nat lw)); (key_middle_width, Some (Z.of_nat mw))] key_left_width None)
      with (Some (Z.of_nat lw)).
    change (pyo_dict_get [(key_left_width, Some (Z.of_nat lw)); (key_middle_width, Some (Z.of_nat mw))] key_middle_width None)
      with (Some (Z.of_nat mw)).
    rewrite Hord. change (it_original_mnemonic (item_of it)) with (i_orig it).
    rewrite <- format_item_pin. cbn [obind]. rewrite IH, <- app_assoc. reflexivity. }
  rewrite Hfold. reflexivity.
Qed.

Lemma map_std_items : forall items,
  List.map (fun v_header_item : py_item hval =>
              mk_py_item (it_mnemonic v_header_item) (it_original_mnemonic v_header_item) (Funcs.it_unit v_header_item)
                (py_standardize_value (hval_ops fstr fzero) (Funcs.it_value v_header_item) (Funcs.it_unit v_header_item))
                (Funcs.it_descr v_header_item)) (List.map item_of items)
  = List.map item_of (List.map std_item items).
Proof. intros items. rewrite !map_map. apply map_ext. intros it. apply std_item_same. Qed.

Theorem well_section_pin : forall v hw lines items,
  py_write_well_section (hval_ops fstr fzero) (List.map item_of items) v (Z.of_nat hw) lines
  = match section_lines fstr v (s2l "Well") (List.map std_item items) with
    | Some ls => Some (List.map item_of (List.map std_item items), lines ++ [title_line hw (s2l "~Well ")] ++ ls)
    | None => None
    end.
Proof.
  intros v hw lines items. unfold py_write_well_section. cbv zeta. rewrite map_std_items, ljust_fill_same.
  rewrite (section_tail v (s2l "Well") (List.map std_item items)).
  destruct (section_lines fstr v (s2l "Well") (List.map std_item items)); [rewrite <- app_assoc|]; reflexivity.
Qed.

Theorem params_section_pin : forall v hw lines items,
  py_write_params_section (hval_ops fstr fzero) (List.map item_of items) v (Z.of_nat hw) lines
  = match section_lines fstr v (s2l "Parameter") (List.map std_item items) with
    | Some ls => Some (List.map item_of (List.map std_item items), lines ++ [title_line hw (s2l "~Params ")] ++ ls)
    | None => None
    end.
Proof.
  intros v hw lines items. unfold py_write_params_section. cbv zeta. rewrite map_std_items, ljust_fill_same.
  rewrite (section_tail v (s2l "Parameter") (List.map std_item items)).
  destruct (section_lines fstr v (s2l "Parameter") (List.map std_item items)); [rewrite <- app_assoc|]; reflexivity.
Qed.

Theorem version_section_pin : forall v hw lines items,
  py_write_version_section (hval_ops fstr fzero) (List.map item_of items) v (Z.of_nat hw) lines
  = match section_lines fstr v (s2l "Version") items with
    | Some ls => Some (List.map item_of items, lines ++ [title_line hw (s2l "~Version ")] ++ ls)
    | None => None
    end.
Proof.
  intros v hw lines items. unfold py_write_version_section. cbv zeta. rewrite ljust_fill_same.
  rewrite (section_tail v (s2l "Version") items).
  destruct (section_lines fstr v (s2l "Version") items); [rewrite <- app_assoc|]; reflexivity.
Qed.

Theorem curves_section_pin : forall v hw lines items,
  py_write_curves_section (hval_ops fstr fzero) (List.map item_of items) v (Z.of_nat hw) lines
  = match section_lines fstr v (s2l "Curves") items with
    | Some ls => Some (List.map item_of items, lines ++ [title_line hw (s2l "~Curve Information ")] ++ ls)
    | None => None
    end.
Proof.
  intros v hw lines items. unfold py_write_curves_section. cbv zeta. rewrite ljust_fill_same.
  rewrite (section_tail v (s2l "Curves") items).
  destruct (section_lines fstr v (s2l "Curves") items); [rewrite <- app_assoc|]; reflexivity.
Qed.
End Pin.
