(* Proofs.ViewsPerm — section ORDER does not matter for the attribution of lines: the multiset of
   (title, body slice, ~Other text) triples the reader sees is the multiset of the blocks' views,
   so permuting the blocks of a file permutes the views and changes none of them.  Corollary of
   views_exact (BlocksCongr.v).  What `read` makes of the views is order-dependent only through
   the steering values (the C05_steering theorems), which is why this is stated for the views. *)
From Coq Require Import List Arith NArith Bool Permutation.
Import ListNotations.
Require Import PyStr Regex Sections SectionsProofs BlocksCongr.

Lemma wf_blocks_perm : forall bs bs', Permutation bs bs' -> Forall wf_block bs -> Forall wf_block bs'.
Proof. intros bs bs' Hp Hw. exact (Permutation_Forall Hp Hw). Qed.

Lemma views_permutation : forall pre pre' bs bs',
  notitles pre -> notitles pre' -> Forall wf_block bs -> Permutation bs bs' ->
  Permutation (map (view (pre ++ render bs)) (find_sections (pre ++ render bs)))
              (map (view (pre' ++ render bs')) (find_sections (pre' ++ render bs'))).
Proof.
  intros pre pre' bs bs' Hpre Hpre' Hw Hp.
  rewrite (views_exact pre bs Hpre Hw).
  rewrite (views_exact pre' bs' Hpre' (wf_blocks_perm bs bs' Hp Hw)).
  apply Permutation_map. exact Hp.
Qed.

(* membership form: wherever a block is moved to, the reader still sees exactly its own title,
   its own body lines and (for ~O) its own text — nothing taken from or given to a neighbour *)
Lemma view_of_moved_block : forall pre pre' bs bs' b,
  notitles pre -> notitles pre' -> Forall wf_block bs -> Permutation bs bs' -> In b bs ->
  In (block_view b) (map (view (pre' ++ render bs')) (find_sections (pre' ++ render bs'))).
Proof.
  intros pre pre' bs bs' b Hpre Hpre' Hw Hp Hin.
  rewrite (views_exact pre' bs' Hpre' (wf_blocks_perm bs bs' Hp Hw)).
  apply in_map. exact (Permutation_in b Hp Hin).
Qed.

(* the number of sections found is the number of blocks, in any order *)
Lemma sections_count_perm : forall pre pre' bs bs',
  notitles pre -> notitles pre' -> Forall wf_block bs -> Permutation bs bs' ->
  List.length (find_sections (pre ++ render bs)) = List.length (find_sections (pre' ++ render bs')).
Proof.
  intros pre pre' bs bs' Hpre Hpre' Hw Hp.
  pose proof (views_permutation pre pre' bs bs' Hpre Hpre' Hw Hp) as H.
  apply Permutation_length in H. rewrite !map_length in H. exact H.
Qed.
