(* Proofs.RewrapRead — re-wrapping the data lines of a WRAP=YES file at any token boundaries
   does not change what read returns (C09), at the level of the whole read.

   Two wrappings b, b' of a data section are related by rewrap_rel m when
     - the substitutions fire on no line (no decimal comma / run-on hyphen / double dot; by
       C02_sub_identity this is "the three patterns do not match"),
     - the concatenated per-line token lists are equal (for every delimiter),
     - the column count sniffed on either wrapping, if any, is below m;
   and the file is required to say WRAP YES (provisional value and ~Version item) and to
   declare at least m curves: then reshape uses the curve count for both wrappings. *)
From Coq Require Import List Arith NArith Bool Lia String.
Import ListNotations.
Require Import PyStr Regex Regexes NumLit Num HeaderLine Tables SectionParse Sections DataRead Read.
Require Import RegexSubFacts StripFacts SectionsProofs ItemsBindProofs JunkProofs ReadInvProofs ReadCongr BlocksCongr.
Open Scope string_scope.
Open Scope list_scope.
Open Scope N_scope.

Definition sniff_below (m : nat) (sn : option nat) : Prop :=
  match sn with Some n => (n < m)%nat | None => True end.

Definition rewrap_rel (m : nat) (d : dlm) (b b' : list (list N)) : Prop :=
  (forall raw subs, In raw (b ++ b') -> apply_subs subs (strip raw) = strip raw) /\
  List.concat (map (toks d []) b) = List.concat (map (toks d []) b') /\
  sniff_below m (fst (inspect_twice d b (match d with DComma => comma_delim_subs | _ => default_subs end))) /\
  sniff_below m (fst (inspect_twice d b' (match d with DComma => comma_delim_subs | _ => default_subs end))).

(* "the substitutions fire on no line", from the three patterns not matching *)
Lemma apply_subs_nomatch l :
  nomatchb rx_sub_comma [] l = true -> nomatchb rx_sub_runon_minus [] l = true ->
  nomatchb rx_sub_runon_dot [] l = true -> forall subs, apply_subs subs l = l.
Proof.
  intros H1 H2 H3. unfold apply_subs. induction subs as [|s subs IH]; [reflexivity|]. cbn [fold_left].
  destruct s; cbn [apply_sub]; rewrite re_sub_nomatch by assumption; exact IH.
Qed.

Definition clean_line (raw : list N) : bool :=
  nomatchb rx_sub_comma [] (strip raw) && nomatchb rx_sub_runon_minus [] (strip raw) &&
  nomatchb rx_sub_runon_dot [] (strip raw).

Lemma clean_lines_subs b : forallb clean_line b = true ->
  forall raw subs, In raw b -> apply_subs subs (strip raw) = strip raw.
Proof.
  intros H raw subs Hin. rewrite forallb_forall in H. specialize (H raw Hin). unfold clean_line in H.
  apply andb_true_iff in H as [H H3]. apply andb_true_iff in H as [H1 H2]. apply apply_subs_nomatch; assumption.
Qed.

Section WithOracles.
Variable fhex : list N -> option (list N).
Variable fstr : list N -> list N.
Variable numeq : list N -> list N -> bool.

Lemma data_core_rewrap_rel m o pw pn d b b' cs :
  hval_is_str pw (s2l "YES") = true -> (m <= List.length (s_items cs))%nat -> rewrap_rel m d b b' ->
  data_core fhex fstr numeq o pw pn d b cs true = data_core fhex fstr numeq o pw pn d b' cs true.
Proof.
  intros Hw Hm (Hid & Ht & S1 & S2). apply data_core_rewrap_clean; try assumption.
  rewrite !n_columns_of_wrapped; [reflexivity| |].
  - destruct (fst (inspect_twice d b' _)); [cbn in *; lia|exact I].
  - destruct (fst (inspect_twice d b _)); [cbn in *; lia|exact I].
Qed.

(* the curves never get fewer, the WRAP declaration stays *)
Lemma data_core_curves_grow o pw pn d b cs wd cs' dat eng :
  data_core fhex fstr numeq o pw pn d b cs wd = inl (cs', dat, eng) ->
  (List.length (s_items cs) <= List.length (s_items cs'))%nat.
Proof.
  unfold data_core. cbv zeta. destruct (inspect_twice d b _) as [sn subs].
  match goal with |- context [if ?c then numpy_engine fhex b else None] =>
    destruct (if c then numpy_engine fhex b else None) as [cols|] end.
  - intros H. injection H as <- _ _. cbn [s_items]. rewrite bind_columns_length. lia.
  - destruct (normal_engine fhex fstr d subs _ b) as [cols|]; [|discriminate].
    intros H. injection H as <- _ _. cbn [s_items]. rewrite bind_columns_length. lia.
Qed.

Section TwoTexts.
Variables ls ls' : list (list N).
Variable m : nat.
Variable d : dlm.

Definition dsec_rewrap (p p' : spos) : Prop :=
  data_equiv (body_lines ls p) (body_lines ls' p') \/ rewrap_rel m d (body_lines ls p) (body_lines ls' p').

Definition sec_rewrap (p p' : spos) : Prop :=
  sp_title p = sp_title p' /\
  match section_type (sp_title p) with
  | THeader => forall v c ig, parse_section v (sp_title p) c ig [ch_hash] (body_lines ls p)
                            = parse_section v (sp_title p) c ig [ch_hash] (body_lines ls' p')
  | TOther => other_text ls p = other_text ls' p'
  | _ => dsec_rewrap p p'
  end.

Definition ps_rewrap (ps ps' : pstate) : Prop :=
  p_version ps = p_version ps' /\ p_wrapped ps = p_wrapped ps' /\ p_null ps = p_null ps' /\
  p_dlm ps = p_dlm ps' /\ p_las ps = p_las ps' /\
  Forall2 dsec_rewrap (p_data ps) (p_data ps') /\ Forall2 dsec_rewrap (p_las3data ps) (p_las3data ps').

Lemma step_section_rewrap o ps ps' p p' : ps_rewrap ps ps' -> sec_rewrap p p' ->
  res_equiv ps_rewrap (step_section o ls ps p) (step_section o ls' ps' p').
Proof.
  intros (Ev & Ew & En & Ed & El & Hd & H3) (Et & Hs).
  destruct ps as [pv pw pn pd pl pdat p3]. destruct ps' as [pv' pw' pn' pd' pl' pdat' p3'].
  cbn [p_version p_wrapped p_null p_dlm p_las p_data p_las3data] in *. subst pv' pw' pn' pd' pl'.
  destruct (section_type (sp_title p)) eqn:Ety.
  - unfold step_section. rewrite <- Et, Ety. cbn [res_equiv]. unfold ps_rewrap.
    cbn [p_version p_wrapped p_null p_dlm p_las p_data p_las3data].
    repeat split; try assumption. apply Forall2_snoc; assumption.
  - rewrite !step_section_other by (rewrite <- ?Et; exact Ety). rewrite <- Et, <- Hs.
    cbn [res_equiv]. unfold ps_rewrap, with_las. cbn [p_version p_wrapped p_null p_dlm p_las p_data p_las3data].
    repeat split; assumption.
  - unfold step_section. rewrite <- Et, Ety. cbn [res_equiv]. unfold ps_rewrap.
    cbn [p_version p_wrapped p_null p_dlm p_las p_data p_las3data].
    repeat split; try assumption. apply Forall2_snoc; assumption.
  - unfold step_section. rewrite <- Et, Ety. cbn [p_version p_wrapped p_null p_dlm p_las p_data p_las3data].
    destruct (version_of pv) as [ver|]; [|reflexivity].
    destruct (las_version_eqb ver V30 && las3_like (sp_title p)); [reflexivity|].
    rewrite <- Hs. destruct (parse_section ver (sp_title p) (o_mcase o) (o_ignore_header_errors o) [ch_hash] (body_lines ls p));
      [|reflexivity].
    destruct (second_upper (sp_title p)) as [letter|]; [|reflexivity].
    cbn [res_equiv]. unfold ps_rewrap, with_las, update_steering.
    destruct (letter =? 86); [|destruct (letter =? 87)];
      cbn [p_version p_wrapped p_null p_dlm p_las p_data p_las3data]; repeat split; assumption.
Qed.

Lemma first_pass_rewrap o : forall sects sects', Forall2 sec_rewrap sects sects' ->
  forall ps ps', ps_rewrap ps ps' ->
  res_equiv ps_rewrap (first_pass o ls ps sects) (first_pass o ls' ps' sects').
Proof.
  induction 1 as [|p p' l l' Hp H IH]; intros ps ps' Hps; [exact Hps|].
  cbn [first_pass]. pose proof (step_section_rewrap o ps ps' p p' Hps Hp) as S.
  destruct (step_section o ls ps p) as [a|e]; destruct (step_section o ls' ps' p') as [b|e']; cbn [res_equiv] in S;
    try contradiction.
  - apply IH. exact S.
  - exact S.
Qed.

Lemma read_data_sections_rewrap o ps ps' :
  p_wrapped ps = p_wrapped ps' -> p_null ps = p_null ps' ->
  hval_is_str (p_wrapped ps) (s2l "YES") = true ->
  forall ds ds', Forall2 dsec_rewrap ds ds' -> forall l,
  wrap_decl l = true -> (m <= List.length (s_items (l_curves l)))%nat ->
  read_data_sections fhex fstr numeq o ls ps d ds l = read_data_sections fhex fstr numeq o ls' ps' d ds' l.
Proof.
  intros Ew En Hw. induction 1 as [|p p' ds ds' Hp H IH]; intros l Hwd Hm; [reflexivity|].
  cbn [read_data_sections].
  assert (E : read_one_data fhex fstr numeq o ls ps d p l = read_one_data fhex fstr numeq o ls' ps' d p' l).
  { rewrite !read_one_data_core, <- Ew, <- En, Hwd. destruct Hp as [Hp|Hp].
    - rewrite (data_core_equiv fhex fstr numeq o _ _ d _ _ (l_curves l) true Hp). reflexivity.
    - rewrite (data_core_rewrap_rel m o _ _ d _ _ (l_curves l) Hw Hm Hp). reflexivity. }
  rewrite <- E. destruct (read_one_data fhex fstr numeq o ls ps d p l) as [l1|e] eqn:E1; [|reflexivity].
  apply IH.
  - rewrite read_one_data_core in E1.
    destruct (data_core fhex fstr numeq o (p_wrapped ps) (p_null ps) d (body_lines ls p) (l_curves l) (wrap_decl l))
      as [[[cs dat] eng]|e]; [|discriminate]. injection E1 as <-. exact Hwd.
  - rewrite read_one_data_core in E1.
    destruct (data_core fhex fstr numeq o (p_wrapped ps) (p_null ps) d (body_lines ls p) (l_curves l) (wrap_decl l))
      as [[[cs dat] eng]|e] eqn:Ec; [|discriminate]. injection E1 as <-. cbn [l_curves].
    apply data_core_curves_grow in Ec. lia.
Qed.

End TwoTexts.

Theorem read_rewrap m d o t t' :
  Forall2 (sec_rewrap (lines_keep t) (lines_keep t') m d)
          (find_sections (lines_keep t)) (find_sections (lines_keep t')) ->
  (forall ps, first_pass o (lines_keep t)
                (mkps (VFloat (s2l "2.0")) (VStr (s2l "YES")) None (VStr (s2l "SPACE")) empty_las [] [])
                (find_sections (lines_keep t)) = inl ps ->
     dlm_of (p_dlm ps) = Some d /\ hval_is_str (p_wrapped ps) (s2l "YES") = true /\ wrap_decl (p_las ps) = true /\
     (m <= List.length (s_items (l_curves (p_las ps))))%nat) ->
  read fhex fstr numeq o t = read fhex fstr numeq o t'.
Proof.
  intros H Hfile. unfold read. set (ls := lines_keep t) in *. set (ls' := lines_keep t') in *.
  set (ps0 := mkps _ _ _ _ _ _ _) in *.
  assert (H0 : ps_rewrap ls ls' m d ps0 ps0) by (repeat split; constructor).
  pose proof (first_pass_rewrap ls ls' m d o _ _ H ps0 ps0 H0) as F.
  destruct H as [|p p' l l' Hp H]; [reflexivity|].
  set (sects := p :: l) in *. set (sects' := p' :: l') in *.
  destruct (first_pass o ls ps0 sects) as [ps|e]; destruct (first_pass o ls' ps0 sects') as [ps'|e'];
    cbn [res_equiv] in F; try contradiction; [|congruence].
  destruct (Hfile ps eq_refl) as (Hdl & Hw & Hwd & Hm).
  destruct F as (Ev & Ew & En & Ed & El & Hd & H3). rewrite <- Ed, <- El, Hdl.
  destruct (o_ignore_data o); [reflexivity|].
  assert (Hds : Forall2 (dsec_rewrap ls ls' m d) (match p_data ps with [] => p_las3data ps | x => x end)
                        (match p_data ps' with [] => p_las3data ps' | x => x end)).
  { destruct Hd; [exact H3|constructor; assumption]. }
  rewrite (read_data_sections_rewrap ls ls' m d o ps ps' Ew En Hw _ _ Hds (p_las ps) Hwd Hm). reflexivity.
Qed.

(* ---- on blocks --------------------------------------------------------------------------- *)
Definition rewrap_view (m : nat) (d : dlm) (x y : sview) : Prop :=
  match x, y with
  | (t, b, ot), (t', b', ot') =>
      t = t' /\
      match section_type t with
      | THeader => forall v c ig, parse_section v t c ig [ch_hash] b = parse_section v t c ig [ch_hash] b'
      | TOther => ot = ot'
      | _ => data_equiv b b' \/ rewrap_rel m d b b'
      end
  end.

(* data blocks re-wrapped, everything else untouched *)
Definition rewrap_block (m : nat) (d : dlm) (b b' : block) : Prop :=
  fst b = fst b' /\
  match section_type (strip (fst b)) with
  | TData | TLas3Data => snd b = snd b' \/ rewrap_rel m d (snd b) (snd b')
  | _ => snd b = snd b'
  end.

Lemma rewrap_block_view m d b b' : rewrap_block m d b b' -> rewrap_view m d (block_view b) (block_view b').
Proof.
  intros (Et & H). unfold rewrap_view, block_view, other_of_block. rewrite <- Et. split; [reflexivity|].
  destruct (section_type (strip (fst b))).
  - destruct H as [<-|H]; [left; apply data_equiv_refl|right; exact H].
  - rewrite <- H. reflexivity.
  - destruct H as [<-|H]; [left; apply data_equiv_refl|right; exact H].
  - rewrite <- H. reflexivity.
Qed.

Theorem read_rewrap_blocks m d o t t' pre pre' bs bs' :
  lines_keep t = pre ++ render bs -> lines_keep t' = pre' ++ render bs' ->
  notitles pre -> notitles pre' -> Forall wf_block bs -> Forall wf_block bs' ->
  Forall2 (rewrap_block m d) bs bs' ->
  (forall ps, first_pass o (lines_keep t)
                (mkps (VFloat (s2l "2.0")) (VStr (s2l "YES")) None (VStr (s2l "SPACE")) empty_las [] [])
                (find_sections (lines_keep t)) = inl ps ->
     dlm_of (p_dlm ps) = Some d /\ hval_is_str (p_wrapped ps) (s2l "YES") = true /\ wrap_decl (p_las ps) = true /\
     (m <= List.length (s_items (l_curves (p_las ps))))%nat) ->
  read fhex fstr numeq o t = read fhex fstr numeq o t'.
Proof.
  intros E E' Hp Hp' Hb Hb' H Hfile. apply (read_rewrap m d); [|exact Hfile]. rewrite E, E'.
  change (Forall2 (fun a b => rewrap_view m d (view (pre ++ render bs) a) (view (pre' ++ render bs') b))
                  (find_sections (pre ++ render bs)) (find_sections (pre' ++ render bs'))).
  apply (Forall2_map_iff (rewrap_view m d)). rewrite !views_exact by assumption.
  apply (Forall2_map_iff (rewrap_view m d) block_view block_view).
  clear E E' Hb Hb' Hfile. induction H as [|b b' l l' Hbb H IH]; constructor; [apply rewrap_block_view; exact Hbb|exact IH].
Qed.

End WithOracles.
