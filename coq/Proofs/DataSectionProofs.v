(* Proofs.DataSectionProofs — LASFile.read on one data section (Model/Read.v read_one_data):
   on the domain of C02 the result does not depend on the engine option, except for the
   trace flag that records which engine produced the data (so: no silent fallback). *)
From Coq Require Import List Arith NArith Bool Lia String.
Import ListNotations.
Require Import PyStr Regex Regexes NumLit Num HeaderLine Tables SectionParse Sections DataRead Read.
Require Import DataReadProofs.
Open Scope string_scope.
Open Scope list_scope.

Section OneSection.
Variable fhex : list N -> option (list N).
Variable fstr : list N -> list N.
Variable numeq : list N -> list N -> bool.

(* WRAP. YES in the ~Version section as las.py looks it up after the first pass *)
Definition wrap_declared (l : las) : bool :=
  match sect_find (s_transforms (l_version l)) (s2l "WRAP") (s_items (l_version l)) with
  | Some it => hval_is_str (i_value it) (s2l "YES")
  | None => false
  end.

Definition data_section_result (o : ropts) (ps : pstate) (l : las) (c : nat) (body : list (list N)) : las :=
  let cols := null_columns (nulleq numeq (p_null ps)) (o_null_strict o) 0 (spec_columns fhex c body) in
  let tr := s_transforms (l_curves l) in
  let curves' := bind_columns tr (s_items (l_curves l)) 0 cols in
  mklas (l_version l) (l_well l) (mksect curves' tr) (l_params l) (l_other l) (l_custom l)
        (data_for_curves (List.length curves') cols)
        (o_engine_numpy o && o_null_strict o).

Theorem read_one_data_dom2 o ls ps p l c :
  hval_is_str (p_wrapped ps) (s2l "YES") = false ->
  wrap_declared l = false ->
  (0 < c)%nat ->
  Forall (fun raw => dom2_lineb fhex c raw = true) (body_lines ls p) ->
  data_rows (body_lines ls p) <> [] ->
  read_one_data fhex fstr numeq o ls ps DSpace p l =
  inl (data_section_result o ps l c (body_lines ls p)).
Proof.
  intros Hw Hwd Hc Hdom Hne. unfold read_one_data, data_section_result.
  fold (wrap_declared l). rewrite Hw, Hwd. cbv zeta.
  pose proof (sniff_twice_spec fhex default_subs c _ Hdom Hne) as Hs.
  destruct (inspect_twice DSpace (body_lines ls p) default_subs) as [sn subs]. cbn [fst] in Hs. subst sn.
  cbn [andb negb]. rewrite andb_true_r.
  pose proof (numpy_spec fhex c _ Hdom Hne) as Hnp.
  pose proof (normal_spec fhex fstr subs c _ Hc Hdom Hne) as Hno.
  destruct (o_engine_numpy o); destruct (o_null_strict o); cbn [andb];
    rewrite ?Hnp, ?Hno; reflexivity.
Qed.

(* the two engine options give the same LASFile up to the trace flag; with the default
   options the flag says numpy: the fast path was taken, not the fallback *)
Corollary read_one_data_engines_agree o1 o2 ls ps p l c :
  o_null_strict o1 = o_null_strict o2 ->
  hval_is_str (p_wrapped ps) (s2l "YES") = false ->
  wrap_declared l = false ->
  (0 < c)%nat ->
  Forall (fun raw => dom2_lineb fhex c raw = true) (body_lines ls p) ->
  data_rows (body_lines ls p) <> [] ->
  exists l1 l2,
    read_one_data fhex fstr numeq o1 ls ps DSpace p l = inl l1 /\
    read_one_data fhex fstr numeq o2 ls ps DSpace p l = inl l2 /\
    l_version l1 = l_version l2 /\ l_well l1 = l_well l2 /\ l_curves l1 = l_curves l2 /\
    l_params l1 = l_params l2 /\ l_other l1 = l_other l2 /\ l_custom l1 = l_custom l2 /\
    l_data l1 = l_data l2 /\
    l_engine_numpy l1 = (o_engine_numpy o1 && o_null_strict o1) /\
    l_engine_numpy l2 = (o_engine_numpy o2 && o_null_strict o2).
Proof.
  intros Hs Hw Hwd Hc Hdom Hne.
  exists (data_section_result o1 ps l c (body_lines ls p)), (data_section_result o2 ps l c (body_lines ls p)).
  split; [apply read_one_data_dom2; assumption|]. split; [apply read_one_data_dom2; assumption|].
  unfold data_section_result. cbn [l_version l_well l_curves l_params l_other l_custom l_data l_engine_numpy].
  rewrite Hs. repeat split.
Qed.

(* ---- the whole read ------------------------------------------------------------------------ *)
(* two LASFiles that differ at most in the engine trace flag *)
Definition same_las (a b : las) : Prop :=
  l_version a = l_version b /\ l_well a = l_well b /\ l_curves a = l_curves b /\
  l_params a = l_params b /\ l_other a = l_other b /\ l_custom a = l_custom b /\
  l_data a = l_data b.

Lemma same_las_refl a : same_las a a.
Proof. repeat split. Qed.

Lemma data_section_result_same o1 o2 ps l1 l2 c body :
  o_null_strict o1 = o_null_strict o2 -> same_las l1 l2 ->
  same_las (data_section_result o1 ps l1 c body) (data_section_result o2 ps l2 c body).
Proof.
  intros Hs (E1 & E2 & E3 & E4 & E5 & E6 & E7). unfold data_section_result, same_las.
  cbn [l_version l_well l_curves l_params l_other l_custom l_data].
  rewrite Hs, E1, E2, E3, E4, E5, E6. repeat split.
Qed.

Lemma wrap_declared_result o ps l c body :
  wrap_declared (data_section_result o ps l c body) = wrap_declared l.
Proof. reflexivity. Qed.

Lemma step_section_opts o1 o2 ls ps p :
  o_ignore_header_errors o1 = o_ignore_header_errors o2 -> o_mcase o1 = o_mcase o2 ->
  step_section o1 ls ps p = step_section o2 ls ps p.
Proof. intros H1 H2. unfold step_section. rewrite H1, H2. reflexivity. Qed.

Lemma first_pass_opts o1 o2 ls :
  o_ignore_header_errors o1 = o_ignore_header_errors o2 -> o_mcase o1 = o_mcase o2 ->
  forall sects ps, first_pass o1 ls ps sects = first_pass o2 ls ps sects.
Proof.
  intros H1 H2. induction sects as [|p sects IH]; intros ps; cbn [first_pass]; [reflexivity|].
  rewrite (step_section_opts o1 o2 ls ps p H1 H2).
  destruct (step_section o2 ls ps p); [apply IH|reflexivity].
Qed.

(* a data section of the C02 domain, for some column count c >= 1 *)
Definition dom2_section (ls : list (list N)) (p : spos) : Prop :=
  exists c, (0 < c)%nat /\ Forall (fun raw => dom2_lineb fhex c raw = true) (body_lines ls p) /\
            data_rows (body_lines ls p) <> [].

(* executable check of dom2_section for a given column count *)
Definition dom2_sectionb (ls : list (list N)) (c : nat) (p : spos) : bool :=
  Nat.ltb 0 c && forallb (dom2_lineb fhex c) (body_lines ls p) && nonempty (data_rows (body_lines ls p)).

Lemma dom2_sectionb_sound ls c sects :
  forallb (dom2_sectionb ls c) sects = true -> Forall (dom2_section ls) sects.
Proof.
  intros H. apply Forall_forall. intros p Hin. rewrite forallb_forall in H. specialize (H p Hin).
  unfold dom2_sectionb in H. apply andb_true_iff in H as [H H3]. apply andb_true_iff in H as [H1 H2].
  exists c. split; [apply Nat.ltb_lt; exact H1|]. split.
  - apply Forall_forall. rewrite forallb_forall in H2. exact H2.
  - intros E. rewrite E in H3. discriminate.
Qed.

Lemma read_data_sections_agree o1 o2 ls ps :
  o_null_strict o1 = o_null_strict o2 ->
  hval_is_str (p_wrapped ps) (s2l "YES") = false ->
  forall sects l1 l2,
  same_las l1 l2 -> wrap_declared l1 = false ->
  Forall (dom2_section ls) sects ->
  exists l1' l2',
    read_data_sections fhex fstr numeq o1 ls ps DSpace sects l1 = inl l1' /\
    read_data_sections fhex fstr numeq o2 ls ps DSpace sects l2 = inl l2' /\
    same_las l1' l2' /\
    l_engine_numpy l1' = match sects with [] => l_engine_numpy l1 | _ => o_engine_numpy o1 && o_null_strict o1 end /\
    l_engine_numpy l2' = match sects with [] => l_engine_numpy l2 | _ => o_engine_numpy o2 && o_null_strict o2 end.
Proof.
  intros Hs Hw. induction sects as [|p sects IH]; intros l1 l2 Hsame Hwd Hall; cbn [read_data_sections].
  - exists l1, l2. auto.
  - inversion Hall as [|? ? (c & Hc & Hdom & Hne) Hrest]; subst.
    assert (Hwd2 : wrap_declared l2 = false).
    { unfold wrap_declared in *. destruct Hsame as (E1 & _). rewrite <- E1. exact Hwd. }
    rewrite (read_one_data_dom2 o1 ls ps p l1 c Hw Hwd Hc Hdom Hne).
    rewrite (read_one_data_dom2 o2 ls ps p l2 c Hw Hwd2 Hc Hdom Hne).
    destruct (IH (data_section_result o1 ps l1 c (body_lines ls p)) (data_section_result o2 ps l2 c (body_lines ls p)))
      as (l1' & l2' & E1 & E2 & Hsame' & F1 & F2);
      [apply data_section_result_same; assumption|rewrite wrap_declared_result; exact Hwd|exact Hrest|].
    exists l1', l2'. rewrite E1, E2, F1, F2.
    split; [reflexivity|]. split; [reflexivity|]. split; [exact Hsame'|].
    split; destruct sects; reflexivity.
Qed.

Definition ps_initial : pstate :=
  mkps (VFloat (s2l "2.0")) (VStr (s2l "YES")) None (VStr (s2l "SPACE")) empty_las [] [].

(* LASFile.read with two option records that differ at most in the engine: if the first
   pass ends in a state with WRAP NO, DLM SPACE, and every data section is in the C02
   domain, both reads succeed and return the same header sections, curves and data *)
Theorem read_engines_agree o1 o2 text ps :
  o_ignore_header_errors o1 = o_ignore_header_errors o2 -> o_mcase o1 = o_mcase o2 ->
  o_null_strict o1 = o_null_strict o2 -> o_ignore_data o1 = o_ignore_data o2 ->
  first_pass o1 (lines_keep text) ps_initial (find_sections (lines_keep text)) = inl ps ->
  dlm_of (p_dlm ps) = Some DSpace ->
  hval_is_str (p_wrapped ps) (s2l "YES") = false ->
  wrap_declared (p_las ps) = false ->
  Forall (dom2_section (lines_keep text)) (match p_data ps with [] => p_las3data ps | x => x end) ->
  exists l1 l2, read fhex fstr numeq o1 text = ROk l1 /\ read fhex fstr numeq o2 text = ROk l2 /\
                same_las l1 l2 /\
                (o_ignore_data o1 = false -> (match p_data ps with [] => p_las3data ps | x => x end) <> [] ->
                 l_engine_numpy l1 = (o_engine_numpy o1 && o_null_strict o1) /\
                 l_engine_numpy l2 = (o_engine_numpy o2 && o_null_strict o2)).
Proof.
  intros H1 H2 H3 H4 Hfp Hd Hw Hwd Hall. unfold read. fold ps_initial.
  rewrite <- (first_pass_opts o1 o2 _ H1 H2), Hfp.
  destruct (find_sections (lines_keep text)) as [|p0 sects] eqn:Es.
  - exfalso. cbn [first_pass] in Hfp. injection Hfp as <-. vm_compute in Hw. discriminate Hw.
  - rewrite Hd, <- H4.
    remember (match p_data ps with [] => p_las3data ps | x => x end) as ds eqn:Eds. clear Eds.
    destruct (o_ignore_data o1).
    + exists (p_las ps), (p_las ps). split; [reflexivity|]. split; [reflexivity|]. split; [apply same_las_refl|]. discriminate.
    + destruct (read_data_sections_agree o1 o2 (lines_keep text) ps H3 Hw _ (p_las ps) (p_las ps)
                  (same_las_refl _) Hwd Hall) as (l1 & l2 & E1 & E2 & Hsame & F1 & F2).
      exists l1, l2. rewrite E1, E2.
      split; [reflexivity|]. split; [reflexivity|]. split; [exact Hsame|]. intros _ Hne. split.
      * rewrite F1. destruct ds; [congruence|reflexivity].
      * rewrite F2. destruct ds; [congruence|reflexivity].
Qed.

End OneSection.
