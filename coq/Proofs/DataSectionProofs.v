(* Proofs.DataSectionProofs — LASFile.read on one data section (Model/Read.v read_one_data):
   on the domain of C02 the result does not depend on the engine option, except for the
   trace flag that records which engine produced the data (so: no silent fallback). *)
From Coq Require Import List Arith NArith Bool Lia String.
Import ListNotations.
Require Import PyStr Regex Regexes NumLit Num HeaderLine Tables SectionParse Sections DataRead Read.
Require Import DataReadProofs.
Open Scope string_scope.
Open Scope list_scope.

Section OneSection.
Variable fhex : list N -> option (list N).
Variable fstr : list N -> list N.
Variable numeq : list N -> list N -> bool.

(* WRAP. YES in the ~Version section as las.py looks it up after the first pass *)
Definition wrap_declared (l : las) : bool :=
  match sect_find (s_transforms (l_version l)) (s2l "WRAP") (s_items (l_version l)) with
  | Some it => hval_is_str (i_value it) (s2l "YES")
  | None => false
  end.

Definition data_section_result (o : ropts) (ps : pstate) (l : las) (c : nat) (body : list (list N)) : las :=
  let cols := null_columns (nulleq numeq (p_null ps)) (o_null_strict o) 0 (spec_columns fhex c body) in
  let tr := s_transforms (l_curves l) in
  let curves' := bind_columns tr (s_items (l_curves l)) 0 cols in
  mklas (l_version l) (l_well l) (mksect curves' tr) (l_params l) (l_other l) (l_custom l)
        (data_for_curves (List.length curves') cols)
        (o_engine_numpy o && o_null_strict o).

Theorem read_one_data_dom2 o ls ps p l c :
  hval_is_str (p_wrapped ps) (s2l "YES") = false ->
  wrap_declared l = false ->
  (0 < c)%nat ->
  Forall (fun raw => dom2_lineb fhex c raw = true) (body_lines ls p) ->
  data_rows (body_lines ls p) <> [] ->
  read_one_data fhex fstr numeq o ls ps DSpace p l =
  inl (data_section_result o ps l c (body_lines ls p)).
Proof.
  intros Hw Hwd Hc Hdom Hne. unfold read_one_data, data_section_result.
  fold (wrap_declared l). rewrite Hw, Hwd. cbv zeta.
  pose proof (sniff_twice_spec fhex default_subs c _ Hdom Hne) as Hs.
  destruct (inspect_twice (body_lines ls p) default_subs) as [sn subs]. cbn [fst] in Hs. subst sn.
  cbn [andb negb]. rewrite andb_true_r.
  pose proof (numpy_spec fhex c _ Hdom Hne) as Hnp.
  pose proof (normal_spec fhex fstr subs c _ Hc Hdom Hne) as Hno.
  destruct (o_engine_numpy o); destruct (o_null_strict o); cbn [andb];
    rewrite ?Hnp, ?Hno; reflexivity.
Qed.

(* the two engine options give the same LASFile up to the trace flag; with the default
   options the flag says numpy: the fast path was taken, not the fallback *)
Corollary read_one_data_engines_agree o1 o2 ls ps p l c :
  o_null_strict o1 = o_null_strict o2 ->
  hval_is_str (p_wrapped ps) (s2l "YES") = false ->
  wrap_declared l = false ->
  (0 < c)%nat ->
  Forall (fun raw => dom2_lineb fhex c raw = true) (body_lines ls p) ->
  data_rows (body_lines ls p) <> [] ->
  exists l1 l2,
    read_one_data fhex fstr numeq o1 ls ps DSpace p l = inl l1 /\
    read_one_data fhex fstr numeq o2 ls ps DSpace p l = inl l2 /\
    l_version l1 = l_version l2 /\ l_well l1 = l_well l2 /\ l_curves l1 = l_curves l2 /\
    l_params l1 = l_params l2 /\ l_other l1 = l_other l2 /\ l_custom l1 = l_custom l2 /\
    l_data l1 = l_data l2 /\
    l_engine_numpy l1 = (o_engine_numpy o1 && o_null_strict o1) /\
    l_engine_numpy l2 = (o_engine_numpy o2 && o_null_strict o2).
Proof.
  intros Hs Hw Hwd Hc Hdom Hne.
  exists (data_section_result o1 ps l c (body_lines ls p)), (data_section_result o2 ps l c (body_lines ls p)).
  split; [apply read_one_data_dom2; assumption|]. split; [apply read_one_data_dom2; assumption|].
  unfold data_section_result. cbn [l_version l_well l_curves l_params l_other l_custom l_data l_engine_numpy].
  rewrite Hs. repeat split.
Qed.

End OneSection.
