(* Proofs.FileRoundTripText — the text returned by Model/Writer.v write, cut into physical
   lines (PyStr.lines_keep, what the reader iterates over), is the rendering of SIX blocks
   (Proofs/SectionsProofs.v: a title line followed by body lines):
     ~Version, ~Well, ~Curve Information, ~Params, ~Other, and the data section,
   every line followed by "\n".  (File-level composition, part 1: pure list plumbing on top of
   Proofs/WriteOptionsProofs.v write_factors.) *)
From Coq Require Import List Arith NArith ZArith Bool Lia String.
Import ListNotations.
Require Import PyStr Regex NumLit Num Tables SectionParse Sections DataRead Read TextWrap Writer.
Require Import StripFacts SectionsProofs WriteOptionsProofs WriteDataTextProofs TextWrapProofs.
Open Scope string_scope.
Open Scope list_scope.
Open Scope N_scope.

(* ---- lines of a text made of newline-free lines, each followed by "\n" ----------------- *)
Definition nlfree (l : list N) : Prop := in_str 10 l = false.
Definition add_nl (l : list N) : list N := l ++ [10].

Lemma in_str_app c a b : in_str c (a ++ b) = in_str c a || in_str c b.
Proof. unfold in_str. apply existsb_app. Qed.

Lemma in_str_In c s : in_str c s = true <-> In c s.
Proof.
  unfold in_str. rewrite existsb_exists. split.
  - intros (x & Hx & E). apply N.eqb_eq in E. subst x. exact Hx.
  - intros H. exists c. split; [exact H|apply N.eqb_refl].
Qed.

Lemma in_str_false_In c s : in_str c s = false <-> ~ In c s.
Proof.
  split; intros H.
  - intro K. apply in_str_In in K. congruence.
  - destruct (in_str c s) eqn:E; [|reflexivity]. exfalso. apply H. apply in_str_In. exact E.
Qed.

Lemma nlfree_app a b : nlfree a -> nlfree b -> nlfree (a ++ b).
Proof. unfold nlfree. intros Ha Hb. rewrite in_str_app, Ha, Hb. reflexivity. Qed.

Lemma nlfree_app_inv a b : nlfree (a ++ b) -> nlfree a /\ nlfree b.
Proof. unfold nlfree. rewrite in_str_app. intros H. apply orb_false_iff in H. exact H. Qed.

Lemma nlfree_repeat c n : c <> 10 -> nlfree (repeat_ch c n).
Proof.
  intros Hc. unfold nlfree. apply in_str_false_In. intros H. apply repeat_spec in H. congruence.
Qed.

Lemma lines_keep_aux_line : forall l cur s, nlfree l ->
  lines_keep_aux (l ++ 10 :: s) cur = (rev cur ++ l ++ [10]) :: lines_keep_aux s [].
Proof.
  induction l as [|c l IH]; intros cur s Hl.
  - cbn [app lines_keep_aux]. unfold ch_nl. rewrite N.eqb_refl. reflexivity.
  - unfold nlfree, in_str in Hl. cbn [existsb] in Hl. apply orb_false_iff in Hl as [Hc Hl].
    cbn [app lines_keep_aux]. unfold ch_nl. rewrite N.eqb_sym, Hc.
    rewrite IH by exact Hl. cbn [rev]. rewrite <- !app_assoc. reflexivity.
Qed.

Theorem lines_keep_flat : forall L : list (list N), Forall nlfree L ->
  lines_keep (flat_map add_nl L) = map add_nl L.
Proof.
  unfold lines_keep. induction L as [|l L IH]; intros H; [reflexivity|].
  inversion H as [|? ? Hl HL]; subst. cbn [flat_map map]. unfold add_nl at 1.
  rewrite <- app_assoc. cbn [app]. rewrite lines_keep_aux_line by exact Hl. cbn [rev app].
  rewrite IH by exact HL. reflexivity.
Qed.

Lemma join_nl_flat : forall L : list (list N), L <> [] -> join [10] L ++ [10] = flat_map add_nl L.
Proof.
  induction L as [|l L IH]; intros H; [congruence|]. destruct L as [|l2 L].
  - cbn [join flat_map]. rewrite app_nil_r. reflexivity.
  - change (join [10] (l :: l2 :: L)) with (l ++ [10] ++ join [10] (l2 :: L)).
    change (flat_map add_nl (l :: l2 :: L)) with (add_nl l ++ flat_map add_nl (l2 :: L)).
    rewrite <- IH by discriminate. unfold add_nl. rewrite <- !app_assoc. reflexivity.
Qed.

Lemma flat_map_app_nl (A B : list (list N)) : flat_map add_nl (A ++ B) = flat_map add_nl A ++ flat_map add_nl B.
Proof. apply flat_map_app. Qed.

(* ---- blocks with terminators ----------------------------------------------------------- *)
Definition nl_block (b : block) : block := (add_nl (fst b), map add_nl (snd b)).

Lemma render_nl : forall bs, map add_nl (render bs) = render (map nl_block bs).
Proof.
  induction bs as [|b bs IH]; [reflexivity|]. cbn [render flat_map map].
  change (flat_map render_block bs) with (render bs).
  change (flat_map render_block (map nl_block bs)) with (render (map nl_block bs)).
  rewrite map_app, IH. reflexivity.
Qed.

Lemma is_title_nl l : is_title (add_nl l) = is_title l.
Proof. unfold is_title, add_nl. rewrite strip_lf. reflexivity. Qed.

Lemma wf_nl_block b : wf_block b -> wf_block (nl_block b).
Proof.
  intros (Ht & Hb). split; cbn [nl_block fst snd].
  - rewrite is_title_nl. exact Ht.
  - rewrite forallb_forall in *. intros x Hx. apply in_map_iff in Hx as (y & <- & Hy).
    rewrite is_title_nl. apply Hb. exact Hy.
Qed.

(* ---- titles --------------------------------------------------------------------------------- *)
Lemma is_title_tilde rest : is_title (126 :: rest) = true.
Proof.
  unfold is_title. unfold strip, strip_by. rewrite lstrip_by_head by reflexivity.
  rewrite rstrip_by_cons_keep by reflexivity. reflexivity.
Qed.

(* a line in which no '~' occurs is not a title *)
Lemma in_lstrip_by f c : forall s, In c (lstrip_by f s) -> In c s.
Proof.
  induction s as [|x s IH]; [auto|]. cbn [lstrip_by]. destruct (f x); [|auto]. intros H. right. apply IH. exact H.
Qed.
Lemma in_rstrip_by f c s : In c (rstrip_by f s) -> In c s.
Proof. unfold rstrip_by. intros H. apply in_rev in H. apply in_lstrip_by in H. apply in_rev. exact H. Qed.
Lemma in_strip c s : In c (strip s) -> In c s.
Proof. unfold strip, strip_by. intros H. apply in_rstrip_by in H. apply in_lstrip_by in H. exact H. Qed.

Lemma in_str_strip c s : in_str c s = false -> in_str c (strip s) = false.
Proof. rewrite !in_str_false_In. intros H K. apply H. apply in_strip. exact K. Qed.

Lemma no_tilde_not_title l : in_str 126 l = false -> is_title l = false.
Proof.
  intros H. unfold is_title. apply in_str_strip in H. destruct (strip l) as [|c r]; [reflexivity|].
  cbn [startswith]. unfold in_str in H. cbn [existsb] in H. apply orb_false_iff in H as [H _].
  unfold ch_tilde. rewrite H. reflexivity.
Qed.

(* ---- the data part of write ------------------------------------------------------------------ *)
Section WithOracles.
Variable fmtv : list N -> list N -> list N.
Variable fmt_diff : list N -> list N -> list N -> list N.
Variable fmt_pi : list N -> list N.
Variable fstr : list N -> list N.
Variable fzero : list N -> bool.
Variable numeq : list N -> list N -> bool.

(* the line that opens the data section *)
Definition dsh_of (o : wopts) (hs : hdr_sections) : option (list N) :=
  let l3 := hs_las hs in
  let hw := wo_header_width o in
  let rows := las_rows l3 in
  let null_text := las_null_text fstr l3 in
  if wo_mnemonics_header o then
    match rows with
    | [] => match s_items (l_curves l3) with
            | [] => Some (wo_data_section_header o ++ [32])
            | _ => None
            end
    | row0 :: _ =>
        bind (opt_all (List.map (fun jc => field_text fmtv fmt_pi o (fst jc) null_text (snd jc)) (combine (seq 0 (List.length row0)) row0)))
          (fun firsts =>
             let hvs := List.map (fun cw =>
                            let mn := i_sess (fst cw) in
                            let colw := List.length (snd cw) in
                            let width := if Nat.ltb (colw - 1) (List.length mn) then S (List.length mn) else colw in
                            rjust width 32 mn)
                          (combine (s_items (l_curves l3)) firsts) in
             let dsh := wo_data_section_header o ++ [32] in
             let hvs := match hvs with
                        | hv :: rest => strip_header_value 0 (List.length dsh) hv :: rest
                        | [] => []
                        end in
             Some (dsh ++ List.concat hvs))
    end
  else Some (title_line hw (wo_data_section_header o ++ [32])).

(* the data lines (without terminators) *)
Definition data_lines_of (o : wopts) (hs : hdr_sections) (rts : list (list N)) : list (list N) :=
  if hs_wrap hs then flat_map (TextWrap.wrap (wo_data_width o)) rts else rts.

Lemma write_data_inv o hs d :
  write_data fmtv fmt_pi fstr o hs = Some d ->
  exists dl rts,
    dsh_of o hs = Some dl /\
    opt_all (List.map (row_text fmtv fmt_pi o (las_null_text fstr (hs_las hs)) 0%nat) (las_rows (hs_las hs))) = Some rts /\
    d = flat_map add_nl (dl :: data_lines_of o hs rts).
Proof.
  unfold write_data. cbv zeta. fold (las_rows (hs_las hs)). fold (las_null_text fstr (hs_las hs)).
  fold (dsh_of o hs). intros Hd.
  destruct (dsh_of o hs) as [dl|]; [|discriminate Hd].
  destruct (opt_all (List.map (row_text fmtv fmt_pi o (las_null_text fstr (hs_las hs)) 0%nat) (las_rows (hs_las hs))))
    as [rts|]; [|discriminate Hd].
  injection Hd as <-. exists dl, rts. split; [reflexivity|]. split; [reflexivity|].
  cbn [flat_map]. unfold add_nl at 1, data_lines_of. rewrite <- app_assoc. reflexivity.
Qed.

Lemma dsh_of_shape o hs dl : dsh_of o hs = Some dl ->
  exists rest, dl = wo_data_section_header o ++ 32 :: rest.
Proof.
  unfold dsh_of. cbv zeta. destruct (wo_mnemonics_header o).
  - destruct (las_rows (hs_las hs)) as [|row0 rows].
    + destruct (s_items (l_curves (hs_las hs))); [|discriminate]. intros [= <-]. exists []. reflexivity.
    + unfold bind. destruct (opt_all _) as [firsts|]; [|discriminate]. intros [= <-].
      eexists. rewrite <- app_assoc. reflexivity.
  - intros [= <-]. unfold title_line, ljust. eexists. rewrite <- app_assoc. reflexivity.
Qed.

(* without the mnemonics header the line is the title padded with dashes *)
Lemma dsh_of_plain o hs : wo_mnemonics_header o = false ->
  dsh_of o hs = Some (title_line (wo_header_width o) (wo_data_section_header o ++ [32])).
Proof. intros H. unfold dsh_of. rewrite H. reflexivity. Qed.

Lemma nlfree_title_line hw t : nlfree t -> nlfree (title_line hw t).
Proof. intros H. unfold title_line, ljust. apply nlfree_app; [exact H|apply nlfree_repeat; discriminate]. Qed.

Lemma dsh_of_plain_nlfree o hs dl : wo_mnemonics_header o = false -> nlfree (wo_data_section_header o) ->
  dsh_of o hs = Some dl -> nlfree dl.
Proof.
  intros H Hn. rewrite (dsh_of_plain o hs H). intros [= <-]. apply nlfree_title_line.
  apply nlfree_app; [exact Hn|reflexivity].
Qed.

(* ---- the six blocks ------------------------------------------------------------------------ *)
Definition t_version : list N := s2l "~Version ".
Definition t_well : list N := s2l "~Well ".
Definition t_curves : list N := s2l "~Curve Information ".
Definition t_params : list N := s2l "~Params ".
Definition t_other : list N := s2l "~Other ".

Definition header_blocks (hw : nat) (hs : hdr_sections) : list block :=
  [ (title_line hw t_version, hs_lv hs);
    (title_line hw t_well, hs_lw hs);
    (title_line hw t_curves, hs_lc hs);
    (title_line hw t_params, hs_lp hs);
    (title_line hw t_other, splitlines (l_other (hs_las hs))) ].

Definition written_blocks (o : wopts) (hs : hdr_sections) (dl : list N) (dls : list (list N)) : list block :=
  header_blocks (wo_header_width o) hs ++ [(dl, dls)].

Lemma header_lines_render hw hs : header_lines hw hs = render (header_blocks hw hs).
Proof.
  unfold header_lines, header_blocks, render. cbn [flat_map render_block fst snd app].
  rewrite app_nil_r. reflexivity.
Qed.

Lemma written_render o hs dl dls :
  header_lines (wo_header_width o) hs ++ dl :: dls = render (written_blocks o hs dl dls).
Proof.
  unfold written_blocks, render. rewrite flat_map_app. fold (render (header_blocks (wo_header_width o) hs)).
  rewrite <- header_lines_render. cbn [flat_map render_block fst snd]. rewrite app_nil_r. reflexivity.
Qed.

(* every line written is free of newlines *)
Definition lines_nlfree (o : wopts) (hs : hdr_sections) (dl : list N) (dls : list (list N)) : Prop :=
  Forall nlfree (hs_lv hs) /\ Forall nlfree (hs_lw hs) /\ Forall nlfree (hs_lc hs) /\ Forall nlfree (hs_lp hs) /\
  nlfree dl /\ Forall nlfree dls.

Lemma splitlines_aux_nlfree : forall s cur, nlfree cur -> Forall nlfree (splitlines_aux s cur).
Proof.
  assert (R : forall cur, nlfree cur -> nlfree (rev cur)).
  { intros cur H. unfold nlfree, in_str in *. rewrite existsb_rev. exact H. }
  assert (G : forall n s cur, (List.length s <= n)%nat -> nlfree cur -> Forall nlfree (splitlines_aux s cur)).
  { induction n as [|n IH]; intros s cur Hn Hcur.
    - destruct s; [|cbn in Hn; lia]. cbn [splitlines_aux]. destruct cur; constructor; [apply R; exact Hcur|constructor].
    - destruct s as [|c s]; cbn [splitlines_aux].
      + destruct cur; constructor; [apply R; exact Hcur|constructor].
      + cbn [List.length] in Hn. destruct (is_linebreak c) eqn:Eb.
        * destruct (c =? ch_cr); [destruct s as [|d s'']; [|destruct (d =? ch_nl)]|];
            (constructor; [apply R; exact Hcur|]); apply IH; try reflexivity; cbn [List.length] in *; lia.
        * apply IH; [lia|]. unfold nlfree, in_str in *. cbn [existsb]. rewrite Hcur, orb_false_r.
          destruct (N.eqb_spec 10 c) as [<-|]; [discriminate Eb|reflexivity]. }
  intros s cur. apply (G (List.length s)). lia.
Qed.

Lemma splitlines_nlfree s : Forall nlfree (splitlines s).
Proof. apply splitlines_aux_nlfree. reflexivity. Qed.

Lemma header_lines_nlfree hw hs :
  Forall nlfree (hs_lv hs) -> Forall nlfree (hs_lw hs) -> Forall nlfree (hs_lc hs) -> Forall nlfree (hs_lp hs) ->
  Forall nlfree (header_lines hw hs).
Proof.
  intros Hv Hw Hc Hp. unfold header_lines.
  repeat (apply Forall_app; split); try assumption; try apply splitlines_nlfree;
    (constructor; [apply nlfree_title_line; reflexivity|constructor]).
Qed.

(* 1. the written text, cut into lines, is the rendering of the six blocks (each line with its
   terminator) *)
Theorem written_text_lines o m text m' :
  write fmtv fmt_diff fmt_pi fstr fzero numeq o m = WOk text m' ->
  exists hs dl rts,
    write_sections fmtv fmt_diff fstr fzero numeq (wo_version o) (wo_wrap o) (col_fmt o 0%nat) m = Some hs /\
    m' = mkmlas (hs_las hs) (m_index_initial m) /\
    dsh_of o hs = Some dl /\
    opt_all (List.map (row_text fmtv fmt_pi o (las_null_text fstr (hs_las hs)) 0%nat) (las_rows (hs_las hs))) = Some rts /\
    text = flat_map add_nl (render (written_blocks o hs dl (data_lines_of o hs rts))) /\
    (lines_nlfree o hs dl (data_lines_of o hs rts) ->
     lines_keep text = render (map nl_block (written_blocks o hs dl (data_lines_of o hs rts)))).
Proof.
  intros H. destruct (write_ok_inv _ _ _ _ _ _ _ _ _ _ H) as (hs & d & Hs & Hd & -> & ->).
  destruct (write_data_inv o hs d Hd) as (dl & rts & Hdl & Hr & ->).
  exists hs, dl, rts. split; [exact Hs|]. split; [reflexivity|]. split; [exact Hdl|]. split; [exact Hr|].
  assert (E : join [ch_nl] (header_lines (wo_header_width o) hs) ++ [ch_nl] ++ flat_map add_nl (dl :: data_lines_of o hs rts)
              = flat_map add_nl (render (written_blocks o hs dl (data_lines_of o hs rts)))).
  { rewrite <- written_render, flat_map_app_nl. rewrite app_assoc. f_equal.
    apply join_nl_flat. unfold header_lines. discriminate. }
  split; [exact E|]. intros (Hv & Hw & Hc & Hp & Hl & Hls). rewrite E, lines_keep_flat.
  - apply render_nl.
  - rewrite <- written_render. apply Forall_app. split.
    + apply header_lines_nlfree; assumption.
    + constructor; assumption.
Qed.

End WithOracles.
