(* Proofs.FilePresentation — C12 at file level for the PRESENTATION options of the writer:
   two writes of the same in-memory object that agree on `version`, `wrap` and on the numeric
   format of every column (col_fmt: column_fmt[j] or fmt) and are otherwise arbitrary —
   len_numeric_field, lhs_spacer, spacer, data_width, header_width, data_section_header,
   mnemonics_header, and fmt / column_fmt themselves as long as every column gets the same
   format — are read back as the SAME file: the same four header sections (items with their
   session mnemonics, not only their metadata), the same ~Other text, no custom section, the
   same data.

   How.  (1) read_written_file_strong: the whole-file round trip of
   Proofs/FileRoundTripMain.v with its existential witnesses kept — the header sections read
   are parse_body of the item lines hs_lv/hs_lw/hs_lc/hs_lp of the written form hs, the NULL
   the reader holds is looked up in the ~Well items so parsed, the data are data_result of the
   token matrix.  (2) write_sections does not see the presentation options
   (Proofs/WriteOptionsProofs.v), so both writes have the same hs; (3) tok_matrix sees the
   options through col_fmt on the existing columns only (tok_matrix_las_ext); (4) data_result is a function of the NULL
   held, the curve count and the token matrix.

   file_wrap_independent: the two writes differ in `wrap` as well (on against off, both given;
   with version=None both derive the same version — proved, the VERS lookup does not see the
   WRAP item).  Then the written ~Version sections differ (the WRAP item, and with it the
   column widths of every ~Version line); what is read back agrees on ~Well, ~Curves,
   ~Parameter (the sections themselves), ~Other, the data, and on the metadata of every
   ~Version item but the one whose mnemonic is WRAP (wrap_rel / read_wrap_rel).
   file_options_independent: any two option records with the same format per column (version
   and wrap given or None): the file left in memory depends on them through ~Version only
   (write_sections_las_free), hence equal ~Well/~Curves/~Parameter metadata, ~Other, data
   (NULL named at most once: the two ~Well sections are parsed from different lines).
   All statements hold for every oracle. *)
From Coq Require Import List Arith NArith ZArith Bool Lia String.
Import ListNotations.
Require Import PyStr Regex NumLit Num HeaderLine Tables SectionParse Sections DataRead Read TextWrap Writer.
Require Import StripFacts SplitWsFacts SectionsProofs ReadProofs ReadInvProofs ReadCongr BlocksCongr ItemsBindProofs
  DataReadProofs OrderTableProofs WriteHeaderProofs WriteOptionsProofs WriteReadProofs WriteDataProofs WriteDataTextProofs
  FileRoundTripText FileRoundTripBlocks FileRoundTripFind FileRoundTripFirstPass FileRoundTripHeader
  FileRoundTripData FileRoundTripLines FileRoundTrip FileRoundTripMain FileRoundTripCheck FileRoundTripVersion.
Open Scope string_scope.
Open Scope list_scope.
Open Scope N_scope.

(* two option records that may differ in presentation only: same `version`, same `wrap`, the
   same numeric format (column_fmt[j], else fmt) for each of the n columns of the file;
   len_numeric_field, lhs_spacer, spacer, data_width, header_width, data_section_header,
   mnemonics_header are free — and so are fmt and column_fmt as long as col_fmt agrees on the
   columns that exist *)
Definition same_formats (n : nat) (o1 o2 : wopts) : Prop :=
  forall j, (j < n)%nat -> col_fmt o1 j = col_fmt o2 j.
Definition same_content_options (n : nat) (o1 o2 : wopts) : Prop :=
  wo_version o1 = wo_version o2 /\ wo_wrap o1 = wo_wrap o2 /\ same_formats n o1 o2.

Section WithOracles.
Variable fmtv : list N -> list N -> list N.
Variable fmt_diff : list N -> list N -> list N -> list N.
Variable fmt_pi : list N -> list N.
Variable fstr : list N -> list N.
Variable fzero : list N -> bool.
Variable numeq : list N -> list N -> bool.
Variable fhex : list N -> option (list N).

(* what read returns on a written text, with the witnesses: l is built from the four parsed
   bodies iV iW iC iP; the NULL the reader holds is the one found in iW *)
Definition read_result_of (ro : ropts) (o : wopts) (hs : hdr_sections) (nt : list N)
           (iV iW iC iP : list hitem) (l : las) : Prop :=
  let c := o_mcase ro in
  l_version l = mksect iV (trc c) /\ l_well l = mksect iW (trc c) /\
  l_curves l = mksect iC (trc c) /\ l_params l = mksect iP (trc c) /\
  l_other l = other_read (l_other (hs_las hs)) /\ l_custom l = [] /\
  l_data l = data_result fhex numeq ro (find_opt (trc c) (s2l "NULL") iW None)
               (List.length (s_items (l_curves (hs_las hs))))
               (tok_matrix fmtv o nt (las_rows (hs_las hs))).

Theorem read_written_file_strong ro o m text m' hs dl rts vit nt :
  write fmtv fmt_diff fmt_pi fstr fzero numeq o m = WOk text m' ->
  write_sections fmtv fmt_diff fstr fzero numeq (wo_version o) (wo_wrap o) (col_fmt o 0%nat) m = Some hs ->
  dsh_of fmtv fmt_pi fstr o hs = Some dl ->
  las_null_text fstr (hs_las hs) = Some nt ->
  opt_all (map (row_text fmtv fmt_pi o (Some nt) 0%nat) (las_rows (hs_las hs))) = Some rts ->
  header_hyps fstr ro hs vit -> text_hyps o hs -> wrap_ok fstr (o_mcase ro) hs ->
  data_hyps fmtv fmt_pi fhex o nt (las_rows (hs_las hs)) (List.length (s_items (l_curves (hs_las hs)))) ->
  data_text_hyps fmtv o nt (las_rows (hs_las hs)) ->
  o_ignore_data ro = false ->
  let c := o_mcase ro in
  let ie := o_ignore_header_errors ro in
  let v := hs_version hs in
  exists iV iW iC iP l,
    read fhex fstr numeq ro text = ROk l /\
    read_back_of fstr v KVersion c ie (hs_lv hs) (hs_vers_items hs) iV /\
    read_back_of fstr v KWell c ie (hs_lw hs) (s_items (l_well (hs_las hs))) iW /\
    read_back_of fstr v KCurves c ie (hs_lc hs) (s_items (l_curves (hs_las hs))) iC /\
    read_back_of fstr v KParameter c ie (hs_lp hs) (s_items (l_params (hs_las hs))) iP /\
    read_result_of ro o hs nt iV iW iC iP l.
Proof.
  intros Hw Hs Hdl Hnt' Hrts Hh Ht Hwo Hdat Hd Hig c ie v.
  assert (Hdat' := Hdat). destruct Hdat' as (_ & _ & _ & Hwr & Hl & Hsp & _).
  destruct (written_lines_ok fmtv fmt_diff fmt_pi fstr fzero numeq fhex ro o m hs dl rts vit nt Hs Hdl Hrts Hh Ht Hwr Hl Hsp Hd)
    as (Hnl & Hnb).
  destruct Ht as (_ & _ & _ & _ & _ & Hdh & _).
  assert (Hdlm : dlm_ok fstr (o_mcase ro) hs) by (destruct Hh as (_ & _ & _ & _ & _ & _ & _ & X); exact X).
  destruct Hh as (OkV & OkW & OkC & OkP & Hstd & Hfs & HuV & _).
  assert (Hrts' : opt_all (map (row_text fmtv fmt_pi o (las_null_text fstr (hs_las hs)) 0%nat) (las_rows (hs_las hs))) = Some rts)
    by (rewrite Hnt'; exact Hrts).
  destruct (written_text_lines fmtv fmt_diff fmt_pi fstr fzero numeq o m text m' Hw)
    as (hs0 & dl0 & rts0 & Hs0 & _ & Hdl0 & Hrts0 & _ & Hlk).
  rewrite Hs in Hs0. injection Hs0 as <-. rewrite Hdl in Hdl0. injection Hdl0 as <-.
  rewrite Hrts' in Hrts0. injection Hrts0 as <-. specialize (Hlk Hnl).
  destruct (dsh_of_shape fmtv fmt_pi fstr o hs dl Hdl) as (rest & Edl).
  destruct (first_pass_written fmtv fmt_diff fstr fzero numeq ro _ _ _ m hs o dl (data_lines_of o hs rts) rest vit
              Hs Edl Hdh Hnb OkV OkW OkC OkP Hstd Hfs HuV)
    as (iV & iW & iC & iP & p6 & Hne & Ht6 & Hb6 & RV & RW & RC & RP & Hver & Hfp).
  rewrite <- Hlk in Hne, Hb6, Hfp.
  fold c in RV, RW, RC, RP, Hfp. fold ie in RV, RW, RC, RP. fold v in RV, RW, RC, RP, Hver.
  set (l0 := mklas (mksect iV (trc c)) (mksect iW (trc c)) (mksect iC (trc c)) (mksect iP (trc c))
                   (other_read (l_other (hs_las hs))) [] [] false) in *.
  set (pw := find_val (trc c) (s2l "WRAP") iV (VStr (s2l "YES"))) in *.
  set (pn := find_opt (trc c) (s2l "NULL") iW None) in *.
  pose proof (dlm_read_back fstr c ie hs iV RV Hdlm) as Hdl6.
  set (nc := List.length (s_items (l_curves (hs_las hs)))) in *.
  assert (Hcs : List.length (s_items (l_curves l0)) = nc).
  { unfold l0. cbn [l_curves s_items]. destruct RC as (_ & MC).
    rewrite <- (map_length meta), MC, map_length. reflexivity. }
  assert (Hcore : exists eng,
            data_core fhex fstr numeq ro pw pn DSpace (map add_nl (data_lines_of o hs rts)) (l_curves l0) (wrap_decl l0)
            = inl (l_curves l0, data_result fhex numeq ro pn nc (tok_matrix fmtv o nt (las_rows (hs_las hs))), eng)).
  { unfold data_lines_of. destruct (hs_wrap hs) eqn:Ewr.
    - destruct (wrap_read_back fstr c ie hs iV RV Hwo Ewr) as (Hpw & Hwd).
      assert (Hwd' : wrap_decl l0 = true) by (rewrite <- Hwd; apply wrap_decl_version; reflexivity).
      rewrite Hwd'. exists false.
      apply (data_core_wrapped fmtv fmt_pi fhex fstr numeq ro _ _ o nt _ nc rts _ _ Hdat Hrts Hcs Hpw).
    - apply (data_core_unwrapped fmtv fmt_pi fhex fstr numeq ro _ _ o nt _ nc rts _ _ Hdat Hrts Hcs). }
  destruct Hcore as (eng & Hcore).
  exists iV, iW, iC, iP. eexists. split.
  - apply (read_of_passes fstr numeq fhex ro text _ DSpace _ Hne Hfp Hdl6 Hig). cbn [p_data p_las].
    cbn [read_data_sections]. rewrite read_one_data_core. cbn [p_las p_wrapped p_null]. fold l0 pw pn.
    rewrite Hb6, Hcore. reflexivity.
  - split; [exact RV|]. split; [exact RW|]. split; [exact RC|]. split; [exact RP|].
    unfold read_result_of. fold c. unfold l0. cbn [l_version l_well l_curves l_params l_other l_custom l_data].
    repeat split; reflexivity.
Qed.


(* the token matrix sees the options through the formats of the existing columns only *)
Lemma row_toks_from_ext_lt n o1 o2 nt : same_formats n o1 o2 ->
  forall row j, (j + List.length row <= n)%nat -> row_toks_from fmtv o1 nt j row = row_toks_from fmtv o2 nt j row.
Proof using fmtv.
  clear fmt_diff fmt_pi fstr fzero numeq fhex.
  intros H. induction row as [|c row IH]; intros j Hj; [reflexivity|]. cbn [row_toks_from]. cbn [List.length] in Hj.
  rewrite IH by lia. f_equal. destruct c; cbn [field_tok]; try reflexivity. rewrite (H j) by lia. reflexivity.
Qed.

Lemma tok_matrix_las_ext o1 o2 nt l : same_formats (List.length (s_items (l_curves l))) o1 o2 ->
  tok_matrix fmtv o1 nt (las_rows l) = tok_matrix fmtv o2 nt (las_rows l).
Proof using fmtv.
  clear fmt_diff fmt_pi fstr fzero numeq fhex.
  intros H. unfold tok_matrix, row_toks. apply map_ext_in. intros row Hin.
  apply (row_toks_from_ext_lt _ o1 o2 nt H). pose proof (las_rows_width l) as W. rewrite Forall_forall in W.
  rewrite (W row Hin). lia.
Qed.

Lemma file_hypsb_curves_pos ro o hs nt : file_hypsb fmtv fmt_pi fstr fhex ro o hs nt = true ->
  (0 < List.length (s_items (l_curves (hs_las hs))))%nat.
Proof.
  unfold file_hypsb. intros H. apply andb_true_iff in H as [H _]. apply andb_true_iff in H as [_ H].
  unfold data_hypsb in H. repeat (apply andb_true_iff in H as [H _]). apply Nat.ltb_lt in H. exact H.
Qed.

(* the header part of the result, as Proofs/FileRoundTrip.v states it *)
Lemma read_result_header_read_back ro o hs nt iV iW iC iP l :
  let c := o_mcase ro in
  let ie := o_ignore_header_errors ro in
  let v := hs_version hs in
  read_back_of fstr v KVersion c ie (hs_lv hs) (hs_vers_items hs) iV ->
  read_back_of fstr v KWell c ie (hs_lw hs) (s_items (l_well (hs_las hs))) iW ->
  read_back_of fstr v KCurves c ie (hs_lc hs) (s_items (l_curves (hs_las hs))) iC ->
  read_back_of fstr v KParameter c ie (hs_lp hs) (s_items (l_params (hs_las hs))) iP ->
  read_result_of ro o hs nt iV iW iC iP l ->
  header_read_back fstr ro hs l /\ null_read fstr ro hs (find_opt (trc c) (s2l "NULL") iW None).
Proof.
  intros c ie v RV RW RC RP (EV & EW & EC & EP & EO & EK & _).
  split; [|apply (null_read_back fstr c ie hs iW ro eq_refl RW)].
  destruct RV as (_ & MV). destruct RW as (_ & MW). destruct RC as (_ & MC). destruct RP as (_ & MP).
  unfold header_read_back. fold c. rewrite EV, EW, EC, EP, EO, EK. cbn [s_items s_transforms].
  repeat split; assumption.
Qed.

(* the same, from the executable domain predicate file_hypsb and the write alone *)
Theorem read_written_file_strong_checked ro o m text m' hs nt :
  write fmtv fmt_diff fmt_pi fstr fzero numeq o m = WOk text m' ->
  write_sections fmtv fmt_diff fstr fzero numeq (wo_version o) (wo_wrap o) (col_fmt o 0%nat) m = Some hs ->
  las_null_text fstr (hs_las hs) = Some nt ->
  file_hypsb fmtv fmt_pi fstr fhex ro o hs nt = true -> o_ignore_data ro = false ->
  let c := o_mcase ro in
  let ie := o_ignore_header_errors ro in
  let v := hs_version hs in
  exists iV iW iC iP l,
    read fhex fstr numeq ro text = ROk l /\
    read_back_of fstr v KVersion c ie (hs_lv hs) (hs_vers_items hs) iV /\
    read_back_of fstr v KWell c ie (hs_lw hs) (s_items (l_well (hs_las hs))) iW /\
    read_back_of fstr v KCurves c ie (hs_lc hs) (s_items (l_curves (hs_las hs))) iC /\
    read_back_of fstr v KParameter c ie (hs_lp hs) (s_items (l_params (hs_las hs))) iP /\
    read_result_of ro o hs nt iV iW iC iP l.
Proof.
  intros Hw Hs Hnt H Hig.
  destruct (written_text_lines fmtv fmt_diff fmt_pi fstr fzero numeq o m text m' Hw)
    as (hs0 & dl & rts & Hs0 & _ & Hdl & Hrts & _).
  rewrite Hs in Hs0. injection Hs0 as <-. rewrite Hnt in Hrts.
  unfold file_hypsb in H. do 4 (apply andb_true_iff in H as [H ?]).
  destruct (header_hypsb_ok fstr ro hs H) as (vit & Hh).
  apply (read_written_file_strong ro o m text m' hs dl rts vit nt Hw Hs Hdl Hnt Hrts Hh).
  - apply text_hypsb_ok. assumption.
  - apply wrap_okb_ok. assumption.
  - apply data_hypsb_ok. assumption.
  - apply data_text_hypsb_ok. assumption.
  - exact Hig.
Qed.

Lemma POk_inj (x y : list hitem) : POk x = POk y -> x = y.
Proof. intros H. injection H as ->. reflexivity. Qed.

(* ---- C12: presentation options --------------------------------------------------------------- *)
Theorem file_presentation_independent ro o1 o2 m text1 m1 text2 m2 hs nt :
  same_content_options (List.length (s_items (l_curves (hs_las hs)))) o1 o2 ->
  write fmtv fmt_diff fmt_pi fstr fzero numeq o1 m = WOk text1 m1 ->
  write fmtv fmt_diff fmt_pi fstr fzero numeq o2 m = WOk text2 m2 ->
  write_sections fmtv fmt_diff fstr fzero numeq (wo_version o1) (wo_wrap o1) (col_fmt o1 0%nat) m = Some hs ->
  las_null_text fstr (hs_las hs) = Some nt ->
  file_hypsb fmtv fmt_pi fstr fhex ro o1 hs nt = true ->
  file_hypsb fmtv fmt_pi fstr fhex ro o2 hs nt = true ->
  o_ignore_data ro = false ->
  exists l1 l2 pn,
    read fhex fstr numeq ro text1 = ROk l1 /\ read fhex fstr numeq ro text2 = ROk l2 /\
    (* both are the written form hs of the object read back ... *)
    header_read_back fstr ro hs l1 /\ header_read_back fstr ro hs l2 /\ null_read fstr ro hs pn /\
    l_data l1 = data_result fhex numeq ro pn (List.length (s_items (l_curves (hs_las hs))))
                  (tok_matrix fmtv o1 nt (las_rows (hs_las hs))) /\
    (* ... and they are equal, section by section *)
    l_version l1 = l_version l2 /\ l_well l1 = l_well l2 /\ l_curves l1 = l_curves l2 /\
    l_params l1 = l_params l2 /\ l_other l1 = l_other l2 /\ l_custom l1 = l_custom l2 /\
    l_data l1 = l_data l2 /\
    (* the object left in memory is the same too *)
    m1 = m2.
Proof.
  intros (Ev & Ew & Ef) Hw1 Hw2 Hs1 Hnt Hb1 Hb2 Hig.
  pose proof (file_hypsb_curves_pos ro o1 hs nt Hb1) as Hpos.
  assert (Hs2 : write_sections fmtv fmt_diff fstr fzero numeq (wo_version o2) (wo_wrap o2) (col_fmt o2 0%nat) m = Some hs)
    by (rewrite <- Ev, <- Ew, <- (Ef 0%nat Hpos); exact Hs1).
  destruct (read_written_file_strong_checked ro o1 m text1 m1 hs nt Hw1 Hs1 Hnt Hb1 Hig)
    as (iV & iW & iC & iP & l1 & R1 & RV & RW & RC & RP & Res1).
  destruct (read_written_file_strong_checked ro o2 m text2 m2 hs nt Hw2 Hs2 Hnt Hb2 Hig)
    as (iV' & iW' & iC' & iP' & l2 & R2 & RV' & RW' & RC' & RP' & Res2).
  assert (EV : iV' = iV) by (destruct RV as (P & _); destruct RV' as (P' & _); rewrite P in P'; symmetry; exact (POk_inj _ _ P')).
  assert (EW : iW' = iW) by (destruct RW as (P & _); destruct RW' as (P' & _); rewrite P in P'; symmetry; exact (POk_inj _ _ P')).
  assert (EC : iC' = iC) by (destruct RC as (P & _); destruct RC' as (P' & _); rewrite P in P'; symmetry; exact (POk_inj _ _ P')).
  assert (EP : iP' = iP) by (destruct RP as (P & _); destruct RP' as (P' & _); rewrite P in P'; symmetry; exact (POk_inj _ _ P')).
  subst iV' iW' iC' iP'. clear RV' RW' RC' RP'.
  destruct (read_result_header_read_back ro o1 hs nt iV iW iC iP l1 RV RW RC RP Res1) as (B1 & N1).
  destruct (read_result_header_read_back ro o2 hs nt iV iW iC iP l2 RV RW RC RP Res2) as (B2 & _).
  destruct Res1 as (V1 & W1 & C1 & P1 & O1 & K1 & D1). destruct Res2 as (V2 & W2 & C2 & P2 & O2 & K2 & D2).
  exists l1, l2, (find_opt (trc (o_mcase ro)) (s2l "NULL") iW None).
  split; [exact R1|]. split; [exact R2|]. split; [exact B1|]. split; [exact B2|]. split; [exact N1|].
  split; [exact D1|].
  split; [rewrite V1, V2; reflexivity|]. split; [rewrite W1, W2; reflexivity|].
  split; [rewrite C1, C2; reflexivity|]. split; [rewrite P1, P2; reflexivity|].
  split; [rewrite O1, O2; reflexivity|]. split; [rewrite K1, K2; reflexivity|].
  split; [rewrite D1, D2, (tok_matrix_las_ext o1 o2 nt _ Ef); reflexivity|].
  rewrite (written_state_is_hs_las fmtv fmt_diff fmt_pi fstr fzero numeq o1 m text1 m1 hs Hw1 Hs1),
          (written_state_is_hs_las fmtv fmt_diff fmt_pi fstr fzero numeq o2 m text2 m2 hs Hw2 Hs2). reflexivity.
Qed.

End WithOracles.

(* ====================================================================================== *)
(* wrap= differs                                                                            *)
(* ====================================================================================== *)
(* two items that are equal, or are both the WRAP item write(wrap=...) puts into ~Version
   (same mnemonic WRAP, same session mnemonic WRAP / WRAP:k, same unit): value and description
   free *)
Definition wrap_rel (a b : hitem) : Prop :=
  a = b \/
  (i_orig a = s2l "WRAP" /\ i_orig b = s2l "WRAP" /\ i_sess a = i_sess b /\ i_unit a = i_unit b /\
   exists r, i_sess a = s2l "WRAP" ++ r).

Lemma wrap_rel_refl a : wrap_rel a a.
Proof. left. reflexivity. Qed.

Lemma Forall2_wrap_rel_refl l : Forall2 wrap_rel l l.
Proof. induction l; constructor; [apply wrap_rel_refl|assumption]. Qed.

Lemma wrap_rel_orig a b : wrap_rel a b -> i_orig a = i_orig b.
Proof. intros [->|(Ha & Hb & _)]; [reflexivity|rewrite Ha, Hb; reflexivity]. Qed.

Lemma wrap_rel_sess a b : wrap_rel a b -> i_sess a = i_sess b.
Proof. intros [->|(_ & _ & H & _)]; [reflexivity|exact H]. Qed.

Lemma wrap_rel_new v1 d1 v2 d2 :
  wrap_rel (new_item (s2l "WRAP") [] v1 d1) (new_item (s2l "WRAP") [] v2 d2).
Proof. right. repeat split. exists []. reflexivity. Qed.

Section Rel.
Variable tr : bool.

Lemma replace_first_rel key n1 n2 : wrap_rel n1 n2 -> forall l l', Forall2 wrap_rel l l' ->
  match replace_first tr key n1 l, replace_first tr key n2 l' with
  | Some r, Some r' => Forall2 wrap_rel r r'
  | None, None => True
  | _, _ => False
  end.
Proof.
  intros Hn l l' H. induction H as [|a b l l' Hab Hl IH]; cbn [replace_first]; [exact I|].
  rewrite <- (wrap_rel_sess a b Hab). destruct (mn_compare tr key (i_sess a)).
  - constructor; assumption.
  - destruct (replace_first tr key n1 l), (replace_first tr key n2 l'); try contradiction; [|exact I].
    constructor; assumption.
Qed.

Lemma renumber_rel test : forall l l', Forall2 wrap_rel l l' ->
  forall k, Forall2 wrap_rel (renumber tr test k l) (renumber tr test k l').
Proof.
  intros l l' H. induction H as [|a b l l' Hab Hl IH]; intros k; cbn [renumber]; [constructor|].
  rewrite <- (wrap_rel_orig a b Hab). destruct (mn_compare tr (useful (i_orig a)) test).
  - constructor; [|apply IH]. destruct Hab as [->|(Ha & Hb & Hs & Hu & _)]; [left; reflexivity|].
    right. cbn [i_orig i_sess i_unit]. rewrite Ha. repeat split; try assumption.
    exists (ch_colon :: nat_to_str k). reflexivity.
  - constructor; [exact Hab|apply IH].
Qed.

Lemma count_matching_rel test : forall l l', Forall2 wrap_rel l l' ->
  count_matching tr test l = count_matching tr test l'.
Proof.
  intros l l' H. unfold count_matching. induction H as [|a b l l' Hab Hl IH]; [reflexivity|].
  cbn [filter]. rewrite <- (wrap_rel_orig a b Hab).
  destruct (mn_compare tr (useful (i_orig a)) test); cbn [List.length]; rewrite IH; reflexivity.
Qed.

Lemma assign_suffixes_rel test l l' : Forall2 wrap_rel l l' ->
  Forall2 wrap_rel (assign_suffixes tr test l) (assign_suffixes tr test l').
Proof.
  intros H. unfold assign_suffixes. rewrite <- (count_matching_rel test l l' H).
  destruct (Nat.ltb 1 (count_matching tr test l)); [apply renumber_rel|]; exact H.
Qed.

Lemma set_item_rel key n1 n2 l l' : wrap_rel n1 n2 -> Forall2 wrap_rel l l' ->
  Forall2 wrap_rel (set_item tr key n1 l) (set_item tr key n2 l').
Proof.
  intros Hn H. unfold set_item. pose proof (replace_first_rel key n1 n2 Hn l l' H) as R.
  rewrite <- (wrap_rel_orig n1 n2 Hn).
  destruct (replace_first tr key n1 l), (replace_first tr key n2 l'); try contradiction.
  - apply assign_suffixes_rel. exact R.
  - unfold sect_append. rewrite <- (wrap_rel_orig n1 n2 Hn). apply assign_suffixes_rel.
    apply Forall2_app; [exact H|]. constructor; [exact Hn|constructor].
Qed.

Lemma sect_find_rel key : forall l l', Forall2 wrap_rel l l' ->
  match sect_find tr key l, sect_find tr key l' with
  | Some a, Some b => wrap_rel a b /\ mn_compare tr (i_sess a) key = true
  | None, None => True
  | _, _ => False
  end.
Proof.
  intros l l' H. induction H as [|a b l l' Hab Hl IH]; cbn [sect_find]; [exact I|].
  rewrite <- (wrap_rel_sess a b Hab). destruct (mn_compare tr (i_sess a) key) eqn:E; [split; assumption|exact IH].
Qed.

Lemma update_first_rel key (f : hitem -> hitem) : (forall a b, wrap_rel a b -> wrap_rel (f a) (f b)) ->
  forall l l', Forall2 wrap_rel l l' ->
  match update_first tr key f l, update_first tr key f l' with
  | Some r, Some r' => Forall2 wrap_rel r r'
  | None, None => True
  | _, _ => False
  end.
Proof.
  intros Hf l l' H. induction H as [|a b l l' Hab Hl IH]; cbn [update_first]; [exact I|].
  rewrite <- (wrap_rel_sess a b Hab). destruct (mn_compare tr (i_sess a) key).
  - constructor; [apply Hf; exact Hab|exact Hl].
  - destruct (update_first tr key f l), (update_first tr key f l'); try contradiction; [|exact I].
    constructor; assumption.
Qed.

(* a key that does not begin with W is never the session mnemonic of the WRAP item *)
Lemma item_value_by_rel key : (forall r, mn_compare tr (s2l "WRAP" ++ r) key = false) ->
  forall l l', Forall2 wrap_rel l l' -> item_value_by tr key l = item_value_by tr key l'.
Proof.
  intros Hk l l' H. unfold item_value_by. pose proof (sect_find_rel key l l' H) as R.
  destruct (sect_find tr key l) as [a|], (sect_find tr key l') as [b|]; try contradiction; [|reflexivity].
  destruct R as ([->|(_ & _ & _ & _ & r & Hr)] & Hm); [reflexivity|]. rewrite Hr, Hk in Hm. discriminate Hm.
Qed.
End Rel.

Lemma set_value_rel v a b : wrap_rel a b -> wrap_rel (set_value a v) (set_value b v).
Proof.
  intros [->|(Ha & Hb & Hs & Hu & r & Hr)]; [left; reflexivity|]. right. unfold set_value. cbn [i_orig i_sess i_unit].
  repeat split; try assumption. exists r. exact Hr.
Qed.

Lemma wrap_not_vers tr r : mn_compare tr (s2l "WRAP" ++ r) (s2l "VERS") = false.
Proof. destruct tr; reflexivity. Qed.

(* section_lines succeeds or fails with the table alone *)
Lemma section_lines_some fstr v sect items items' lines :
  section_lines fstr v sect items = Some lines -> exists lines', section_lines fstr v sect items' = Some lines'.
Proof.
  unfold section_lines. destruct (lookup_order_entry v sect order_definitions); [|discriminate].
  intros _. eexists. reflexivity.
Qed.

Section WrapOption.
Variable fmtv : list N -> list N -> list N.
Variable fmt_diff : list N -> list N -> list N -> list N.
Variable fmt_pi : list N -> list N.
Variable fstr : list N -> list N.
Variable fzero : list N -> bool.
Variable numeq : list N -> list N -> bool.
Variable fhex : list N -> option (list N).

(* STRT/STOP/STEP refresh and unit alignment do not look at ~Version *)
Lemma refresh_sss_version_free f l s ii :
  refresh_sss fmtv fmt_diff numeq f (mkmlas (with_version l s) ii) =
  option_map (fun l' => with_version l' s) (refresh_sss fmtv fmt_diff numeq f (mkmlas l ii)).
Proof.
  unfold refresh_sss, index_of. cbn [m_las m_index_initial with_version l_data l_curves l_well l_version].
  repeat (match goal with |- context [bind ?x _] => destruct x; cbn [bind option_map]; [|reflexivity] end).
  reflexivity.
Qed.

(* steps 2-9 of write_sections, after the WRAP item was set: vi = the ~Version items *)
Definition ws_tail (ver : option wver) (ifmt : list N) (wrap : bool) (l0 : las) (vi : list hitem)
           (ii : option (list cell)) : option hdr_sections :=
  let trv := s_transforms (l_version l0) in
  let l1 := with_version l0 (mksect vi trv) in
  let vers : option las_version :=
    match ver with
    | Some W12 => Some V12
    | Some W20 => Some V20
    | None => bind (item_value_by trv (s2l "VERS") (s_items (l_version l1))) version_of
    end in
  match vers with
  | None => None
  | Some v =>
  let vcopy :=
    match update_first trv (s2l "DLM") (fun it => set_value it (VStr (s2l "SPACE"))) (s_items (l_version l1)) with
    | Some r => r
    | None => s_items (l_version l1)
    end in
  let vsw :=
    if las_version_eqb v V12 then
      set_item trv (s2l "VERS") (new_item (s2l "VERS") [] (VFloat (s2l "1.2")) (s2l "CWLS LOG ASCII STANDARD - VERSION 1.2")) vcopy
    else if las_version_eqb v V20 then
      set_item trv (s2l "VERS") (new_item (s2l "VERS") [] (VFloat (s2l "2.0")) (s2l "CWLS log ASCII Standard -VERSION 2.0")) vcopy
    else vcopy in
  match refresh_sss fmtv fmt_diff numeq ifmt (mkmlas l1 ii) with
  | None => None
  | Some l2 =>
  let l3 := with_params (with_well l2 (map_section (fun it => set_value it (standardize fzero (i_value it) (i_unit it))) (l_well l2)))
                        (map_section (fun it => set_value it (standardize fzero (i_value it) (i_unit it))) (l_params l2)) in
  match section_lines fstr v (s2l "Version") vsw, section_lines fstr v (s2l "Well") (s_items (l_well l3)),
        section_lines fstr v (s2l "Curves") (s_items (l_curves l3)), section_lines fstr v (s2l "Parameter") (s_items (l_params l3)) with
  | Some lv, Some lw, Some lc, Some lp => Some (mkhs wrap v vsw lv lw lc lp l3)
  | _, _, _, _ => None
  end
  end end.

Definition wrap_item (b : bool) : hitem :=
  if b then new_item (s2l "WRAP") [] (VStr (s2l "YES")) (s2l "Multiple lines per depth step")
  else new_item (s2l "WRAP") [] (VStr (s2l "NO")) (s2l "One line per depth step").

Lemma write_sections_tail ver b ifmt m :
  write_sections fmtv fmt_diff fstr fzero numeq ver (Some b) ifmt m =
  ws_tail ver ifmt b (m_las m)
    (set_item (s_transforms (l_version (m_las m))) (s2l "WRAP") (wrap_item b) (s_items (l_version (m_las m))))
    (m_index_initial m).
Proof. destruct b; reflexivity. Qed.

(* the sections other than ~Version, the ~Other text and the data *)
Definition same_but_version (l l' : las) : Prop :=
  l_well l = l_well l' /\ l_curves l = l_curves l' /\ l_params l = l_params l' /\ l_other l = l_other l' /\
  l_custom l = l_custom l' /\ l_data l = l_data l' /\ l_engine_numpy l = l_engine_numpy l' /\
  s_transforms (l_version l) = s_transforms (l_version l').

Lemma ws_tail_rel ver ifmt w w' l0 vi vi' ii hs hs' :
  Forall2 wrap_rel vi vi' ->
  ws_tail ver ifmt w l0 vi ii = Some hs -> ws_tail ver ifmt w' l0 vi' ii = Some hs' ->
  hs_wrap hs = w /\ hs_wrap hs' = w' /\ hs_version hs = hs_version hs' /\
  Forall2 wrap_rel (hs_vers_items hs) (hs_vers_items hs') /\
  hs_lw hs = hs_lw hs' /\ hs_lc hs = hs_lc hs' /\ hs_lp hs = hs_lp hs' /\
  same_but_version (hs_las hs) (hs_las hs') /\
  Forall2 wrap_rel (s_items (l_version (hs_las hs))) (s_items (l_version (hs_las hs'))).
Proof.
  intros Hvi. unfold ws_tail. cbv zeta. cbn [with_version l_version s_items s_transforms].
  set (trv := s_transforms (l_version l0)).
  rewrite <- (item_value_by_rel trv (s2l "VERS") (wrap_not_vers trv) vi vi' Hvi).
  destruct (match ver with Some W12 => Some V12 | Some W20 => Some V20
            | None => bind (item_value_by trv (s2l "VERS") vi) version_of end) as [v|]; [|discriminate].
  rewrite !refresh_sss_version_free.
  destruct (refresh_sss fmtv fmt_diff numeq ifmt (mkmlas l0 ii)) as [l2|]; cbn [option_map]; [|discriminate].
  cbn [with_version with_well with_params l_well l_params l_curves l_version l_other l_custom l_data l_engine_numpy].
  set (vc := match update_first trv (s2l "DLM") (fun it => set_value it (VStr (s2l "SPACE"))) vi with Some r => r | None => vi end).
  set (vc' := match update_first trv (s2l "DLM") (fun it => set_value it (VStr (s2l "SPACE"))) vi' with Some r => r | None => vi' end).
  assert (Hvc : Forall2 wrap_rel vc vc').
  { unfold vc, vc'.
    pose proof (update_first_rel trv (s2l "DLM") (fun it => set_value it (VStr (s2l "SPACE")))
                  (fun a b => set_value_rel _ a b) vi vi' Hvi) as R.
    destruct (update_first trv (s2l "DLM") _ vi), (update_first trv (s2l "DLM") _ vi'); try contradiction; assumption. }
  match goal with |- context [section_lines fstr v (s2l "Version") ?x] => set (vsw := x) end.
  match goal with |- (_ -> match section_lines fstr v (s2l "Version") ?x with _ => _ end = _ -> _) => set (vsw' := x) end.
  assert (Hvsw : Forall2 wrap_rel vsw vsw').
  { unfold vsw, vsw'. destruct (las_version_eqb v V12); [apply set_item_rel; [apply wrap_rel_refl|exact Hvc]|].
    destruct (las_version_eqb v V20); [apply set_item_rel; [apply wrap_rel_refl|exact Hvc]|exact Hvc]. }
  clearbody vsw vsw'.
  destruct (section_lines fstr v (s2l "Version") vsw) as [lv|]; [|discriminate].
  destruct (section_lines fstr v (s2l "Version") vsw') as [lv'|]; [|intros _; discriminate].
  destruct (section_lines fstr v (s2l "Well") _) as [lw|]; [|discriminate].
  destruct (section_lines fstr v (s2l "Curves") _) as [lc|]; [|discriminate].
  destruct (section_lines fstr v (s2l "Parameter") _) as [lp|]; [|discriminate].
  intros [= <-] [= <-]. cbn [hs_wrap hs_version hs_vers_items hs_lw hs_lc hs_lp hs_las].
  repeat (split; [reflexivity|]). split; [exact Hvsw|]. repeat (split; [reflexivity|]).
  split; [repeat split|]. cbn [with_params with_well with_version l_version s_items]. exact Hvi.
Qed.

Lemma write_sections_wrap_rel ver b1 b2 ifmt m hs1 hs2 :
  write_sections fmtv fmt_diff fstr fzero numeq ver (Some b1) ifmt m = Some hs1 ->
  write_sections fmtv fmt_diff fstr fzero numeq ver (Some b2) ifmt m = Some hs2 ->
  hs_wrap hs1 = b1 /\ hs_wrap hs2 = b2 /\ hs_version hs1 = hs_version hs2 /\
  Forall2 wrap_rel (hs_vers_items hs1) (hs_vers_items hs2) /\
  hs_lw hs1 = hs_lw hs2 /\ hs_lc hs1 = hs_lc hs2 /\ hs_lp hs1 = hs_lp hs2 /\
  same_but_version (hs_las hs1) (hs_las hs2) /\
  Forall2 wrap_rel (s_items (l_version (hs_las hs1))) (s_items (l_version (hs_las hs2))).
Proof.
  rewrite !write_sections_tail. apply ws_tail_rel. apply set_item_rel; [|apply Forall2_wrap_rel_refl].
  destruct b1, b2; apply wrap_rel_new.
Qed.

(* what is read back for two ~Version items that are wrap_rel: equal metadata, or both the
   WRAP item (mnemonic case-mapped by the reader) *)
Definition read_wrap_rel (c : mcase) (a b : hitem) : Prop :=
  meta a = meta b \/
  (i_orig a = apply_case c (s2l "WRAP") /\ i_orig b = apply_case c (s2l "WRAP") /\ i_unit a = i_unit b).

Lemma metas_rel k c : forall X X', Forall2 wrap_rel X X' -> forall iV iV',
  map meta iV = map (fun it => meta (expected_item fstr k c it)) X ->
  map meta iV' = map (fun it => meta (expected_item fstr k c it)) X' ->
  Forall2 (read_wrap_rel c) iV iV'.
Proof.
  intros X X' H. induction H as [|a b X X' Hab HX IH]; intros iV iV' E E'.
  - destruct iV; [|discriminate E]. destruct iV'; [|discriminate E']. constructor.
  - destruct iV as [|x iV]; [discriminate E|]. destruct iV' as [|y iV']; [discriminate E'|].
    cbn [map] in E, E'.
    pose proof (f_equal (hd (meta x)) E) as Ex. pose proof (f_equal (@tl _) E) as Et.
    pose proof (f_equal (hd (meta y)) E') as Ey. pose proof (f_equal (@tl _) E') as Et'.
    cbn [hd tl] in Ex, Et, Ey, Et'. clear E E'.
    constructor; [|apply IH; assumption].
    destruct Hab as [->|(Ha & Hb & _ & Hu & _)]; [left; rewrite Ex, Ey; reflexivity|].
    right.
    pose proof (f_equal (fun t : list N * list N * hval * list N => fst (fst (fst t))) Ex) as Xo.
    pose proof (f_equal (fun t : list N * list N * hval * list N => snd (fst (fst t))) Ex) as Xu.
    pose proof (f_equal (fun t : list N * list N * hval * list N => fst (fst (fst t))) Ey) as Yo.
    pose proof (f_equal (fun t : list N * list N * hval * list N => snd (fst (fst t))) Ey) as Yu.
    cbn [fst snd meta expected_item new_item i_orig i_unit] in Xo, Xu, Yo, Yu.
    rewrite Xo, Yo, Xu, Yu, Ha, Hb, Hu. repeat split; reflexivity.
Qed.

(* C12 with wrap= differing: everything but the WRAP item is read back alike *)
Theorem file_wrap_independent ro o1 o2 b1 b2 m text1 m1 text2 m2 hs1 hs2 nt :
  wo_version o1 = wo_version o2 -> wo_wrap o1 = Some b1 -> wo_wrap o2 = Some b2 ->
  same_formats (List.length (s_items (l_curves (hs_las hs1)))) o1 o2 ->
  write fmtv fmt_diff fmt_pi fstr fzero numeq o1 m = WOk text1 m1 ->
  write fmtv fmt_diff fmt_pi fstr fzero numeq o2 m = WOk text2 m2 ->
  write_sections fmtv fmt_diff fstr fzero numeq (wo_version o1) (wo_wrap o1) (col_fmt o1 0%nat) m = Some hs1 ->
  write_sections fmtv fmt_diff fstr fzero numeq (wo_version o2) (wo_wrap o2) (col_fmt o2 0%nat) m = Some hs2 ->
  las_null_text fstr (hs_las hs1) = Some nt ->
  file_hypsb fmtv fmt_pi fstr fhex ro o1 hs1 nt = true ->
  file_hypsb fmtv fmt_pi fstr fhex ro o2 hs2 nt = true ->
  o_ignore_data ro = false ->
  exists l1 l2 pn,
    read fhex fstr numeq ro text1 = ROk l1 /\ read fhex fstr numeq ro text2 = ROk l2 /\
    header_read_back fstr ro hs1 l1 /\ header_read_back fstr ro hs2 l2 /\ null_read fstr ro hs1 pn /\
    l_data l1 = data_result fhex numeq ro pn (List.length (s_items (l_curves (hs_las hs1))))
                  (tok_matrix fmtv o1 nt (las_rows (hs_las hs1))) /\
    (* the two written forms: same version, same file but for the WRAP item of ~Version *)
    hs_wrap hs1 = b1 /\ hs_wrap hs2 = b2 /\ hs_version hs1 = hs_version hs2 /\
    same_but_version (hs_las hs1) (hs_las hs2) /\
    Forall2 wrap_rel (hs_vers_items hs1) (hs_vers_items hs2) /\
    (* what is read back: ~Version item by item equal or the WRAP item; all the rest equal *)
    Forall2 (read_wrap_rel (o_mcase ro)) (s_items (l_version l1)) (s_items (l_version l2)) /\
    s_transforms (l_version l1) = s_transforms (l_version l2) /\
    l_well l1 = l_well l2 /\ l_curves l1 = l_curves l2 /\ l_params l1 = l_params l2 /\
    l_other l1 = l_other l2 /\ l_custom l1 = l_custom l2 /\ l_data l1 = l_data l2 /\
    (* the objects left in memory differ in the WRAP item only *)
    same_but_version (m_las m1) (m_las m2) /\ m_index_initial m1 = m_index_initial m2 /\
    Forall2 wrap_rel (s_items (l_version (m_las m1))) (s_items (l_version (m_las m2))).
Proof.
  intros Ev Ew1 Ew2 Ef Hw1 Hw2 Hs1 Hs2 Hnt Hb1 Hb2 Hig.
  pose proof (file_hypsb_curves_pos fmtv fmt_pi fstr fhex ro o1 hs1 nt Hb1) as Hpos.
  assert (Hs2' := Hs2). rewrite <- Ev, <- (Ef 0%nat Hpos), Ew2 in Hs2'. assert (Hs1' := Hs1). rewrite Ew1 in Hs1'.
  destruct (write_sections_wrap_rel _ _ _ _ _ _ _ Hs1' Hs2') as (Wr1 & Wr2 & Hv & Hvi & Hlw & Hlc & Hlp & Hsb & Hvl).
  clear Hs1' Hs2'.
  assert (Hsb' := Hsb). destruct Hsb' as (SW & SC & SP & SO & SK & SD & _ & _).
  assert (Hnt2 : las_null_text fstr (hs_las hs2) = Some nt) by (unfold las_null_text in *; rewrite <- SW; exact Hnt).
  assert (Hrows : las_rows (hs_las hs2) = las_rows (hs_las hs1)) by (unfold las_rows; rewrite SC, SD; reflexivity).
  destruct (read_written_file_strong_checked fmtv fmt_diff fmt_pi fstr fzero numeq fhex ro o1 m text1 m1 hs1 nt Hw1 Hs1 Hnt Hb1 Hig)
    as (iV & iW & iC & iP & l1 & R1 & RV & RW & RC & RP & Res1).
  destruct (read_written_file_strong_checked fmtv fmt_diff fmt_pi fstr fzero numeq fhex ro o2 m text2 m2 hs2 nt Hw2 Hs2 Hnt2 Hb2 Hig)
    as (iV' & iW' & iC' & iP' & l2 & R2 & RV' & RW' & RC' & RP' & Res2).
  destruct (read_result_header_read_back fmtv fstr numeq fhex ro o1 hs1 nt iV iW iC iP l1 RV RW RC RP Res1) as (B1 & N1).
  destruct (read_result_header_read_back fmtv fstr numeq fhex ro o2 hs2 nt iV' iW' iC' iP' l2 RV' RW' RC' RP' Res2) as (B2 & _).
  assert (EW : iW' = iW).
  { destruct RW as (P & _); destruct RW' as (P' & _). rewrite <- Hv, <- Hlw, P in P'. symmetry; exact (POk_inj _ _ P'). }
  assert (EC : iC' = iC).
  { destruct RC as (P & _); destruct RC' as (P' & _). rewrite <- Hv, <- Hlc, P in P'. symmetry; exact (POk_inj _ _ P'). }
  assert (EP : iP' = iP).
  { destruct RP as (P & _); destruct RP' as (P' & _). rewrite <- Hv, <- Hlp, P in P'. symmetry; exact (POk_inj _ _ P'). }
  subst iW' iC' iP'.
  assert (HV : Forall2 (read_wrap_rel (o_mcase ro)) iV iV').
  { destruct RV as (_ & MV). destruct RV' as (_ & MV'). exact (metas_rel KVersion (o_mcase ro) _ _ Hvi iV iV' MV MV'). }
  destruct Res1 as (V1 & W1 & C1 & P1 & O1 & K1 & D1). destruct Res2 as (V2 & W2 & C2 & P2 & O2 & K2 & D2).
  exists l1, l2, (find_opt (trc (o_mcase ro)) (s2l "NULL") iW None).
  split; [exact R1|]. split; [exact R2|]. split; [exact B1|]. split; [exact B2|]. split; [exact N1|].
  split; [exact D1|]. split; [exact Wr1|]. split; [exact Wr2|]. split; [exact Hv|]. split; [exact Hsb|].
  split; [exact Hvi|].
  split; [rewrite V1, V2; exact HV|]. split; [rewrite V1, V2; reflexivity|].
  split; [rewrite W1, W2; reflexivity|].
  split; [rewrite C1, C2; reflexivity|]. split; [rewrite P1, P2; reflexivity|].
  split; [rewrite O1, O2, SO; reflexivity|]. split; [rewrite K1, K2; reflexivity|].
  split; [rewrite D1, D2, Hrows, <- SC, (tok_matrix_las_ext fmtv o1 o2 nt _ Ef); reflexivity|].
  rewrite (written_state_is_hs_las fmtv fmt_diff fmt_pi fstr fzero numeq o1 m text1 m1 hs1 Hw1 Hs1),
          (written_state_is_hs_las fmtv fmt_diff fmt_pi fstr fzero numeq o2 m text2 m2 hs2 Hw2 Hs2).
  cbn [m_las m_index_initial]. split; [exact Hsb|]. split; [reflexivity|exact Hvl].
Qed.

(* ====================================================================================== *)
(* any two configurations                                                                   *)
(* ====================================================================================== *)
(* the file left in memory depends on `version` and `wrap` through its ~Version section only *)
Lemma write_sections_as_tail ver wrapo ifmt m hs :
  write_sections fmtv fmt_diff fstr fzero numeq ver wrapo ifmt m = Some hs ->
  exists w vi, ws_tail ver ifmt w (m_las m) vi (m_index_initial m) = Some hs.
Proof.
  destruct wrapo as [b|].
  - rewrite write_sections_tail. intros H. eexists _, _. exact H.
  - unfold write_sections. destruct (sect_find _ (s2l "WRAP") _); [|discriminate]. intros H.
    exists false, (s_items (l_version (m_las m))). unfold ws_tail.
    replace (with_version (m_las m) (mksect (s_items (l_version (m_las m))) (s_transforms (l_version (m_las m))))) with (m_las m)
      by (destruct (m_las m) as [[vi tr] ? ? ? ? ? ? ?]; reflexivity).
    exact H.
Qed.

Lemma ws_tail_las ver ver' ifmt w w' l0 vi vi' ii hs hs' :
  ws_tail ver ifmt w l0 vi ii = Some hs ->
  ws_tail ver' ifmt w' l0 vi' ii = Some hs' ->
  same_but_version (hs_las hs) (hs_las hs').
Proof.
  unfold ws_tail. cbv zeta.
  match goal with |- match ?x with _ => _ end = _ -> _ => destruct x as [v|]; [|discriminate] end.
  match goal with |- _ -> match ?x with _ => _ end = _ -> _ => destruct x as [v'|]; [|intros _; discriminate] end.
  rewrite !refresh_sss_version_free.
  destruct (refresh_sss fmtv fmt_diff numeq ifmt (mkmlas l0 ii)) as [l2|]; cbn [option_map]; [|discriminate].
  repeat (match goal with |- context [match section_lines ?a ?b ?c ?d with _ => _ end] =>
            destruct (section_lines a b c d) as [?|]; [|try discriminate; intros; discriminate] end).
  intros [= <-] [= <-]. cbn [hs_las]. repeat split.
Qed.

Lemma write_sections_las_free v1 v2 w1 w2 ifmt m hs1 hs2 :
  write_sections fmtv fmt_diff fstr fzero numeq v1 w1 ifmt m = Some hs1 ->
  write_sections fmtv fmt_diff fstr fzero numeq v2 w2 ifmt m = Some hs2 ->
  same_but_version (hs_las hs1) (hs_las hs2).
Proof.
  intros H1 H2. apply write_sections_as_tail in H1 as (w & vi & H1). apply write_sections_as_tail in H2 as (w' & vi' & H2).
  exact (ws_tail_las _ _ _ _ _ _ _ _ _ _ _ H1 H2).
Qed.

(* C12, any two option records that give every column the same numeric format — `version` and
   `wrap` (given or None) free as well: ~Well, ~Curves, ~Parameter metadata, ~Other and the data
   are read back alike.  (NULL named at most once so that both reads hold the same NULL; the
   ~Version section, where VERS and WRAP differ by construction, is described for each text
   by header_read_back.) *)
Theorem file_options_independent ro o1 o2 m text1 m1 text2 m2 hs1 hs2 nt :
  same_formats (List.length (s_items (l_curves (hs_las hs1)))) o1 o2 ->
  write fmtv fmt_diff fmt_pi fstr fzero numeq o1 m = WOk text1 m1 ->
  write fmtv fmt_diff fmt_pi fstr fzero numeq o2 m = WOk text2 m2 ->
  write_sections fmtv fmt_diff fstr fzero numeq (wo_version o1) (wo_wrap o1) (col_fmt o1 0%nat) m = Some hs1 ->
  write_sections fmtv fmt_diff fstr fzero numeq (wo_version o2) (wo_wrap o2) (col_fmt o2 0%nat) m = Some hs2 ->
  las_null_text fstr (hs_las hs1) = Some nt ->
  file_hypsb fmtv fmt_pi fstr fhex ro o1 hs1 nt = true ->
  file_hypsb fmtv fmt_pi fstr fhex ro o2 hs2 nt = true ->
  (List.length (filter (in_class (o_mcase ro) (s2l "NULL")) (s_items (l_well (hs_las hs1)))) <= 1)%nat ->
  o_ignore_data ro = false ->
  exists l1 l2 pn,
    read fhex fstr numeq ro text1 = ROk l1 /\ read fhex fstr numeq ro text2 = ROk l2 /\
    header_read_back fstr ro hs1 l1 /\ header_read_back fstr ro hs2 l2 /\ null_read fstr ro hs1 pn /\
    l_data l1 = data_result fhex numeq ro pn (List.length (s_items (l_curves (hs_las hs1))))
                  (tok_matrix fmtv o1 nt (las_rows (hs_las hs1))) /\
    same_but_version (hs_las hs1) (hs_las hs2) /\
    map meta (s_items (l_well l1)) = map meta (s_items (l_well l2)) /\
    map meta (s_items (l_curves l1)) = map meta (s_items (l_curves l2)) /\
    map meta (s_items (l_params l1)) = map meta (s_items (l_params l2)) /\
    s_transforms (l_well l1) = s_transforms (l_well l2) /\ s_transforms (l_curves l1) = s_transforms (l_curves l2) /\
    s_transforms (l_params l1) = s_transforms (l_params l2) /\
    l_other l1 = l_other l2 /\ l_custom l1 = l_custom l2 /\ l_data l1 = l_data l2 /\
    same_but_version (m_las m1) (m_las m2) /\ m_index_initial m1 = m_index_initial m2.
Proof.
  intros Ef Hw1 Hw2 Hs1 Hs2 Hnt Hb1 Hb2 Hnull Hig.
  pose proof (file_hypsb_curves_pos fmtv fmt_pi fstr fhex ro o1 hs1 nt Hb1) as Hpos.
  assert (Hs2' := Hs2). rewrite <- (Ef 0%nat Hpos) in Hs2'.
  pose proof (write_sections_las_free _ _ _ _ _ _ _ _ Hs1 Hs2') as Hsb. clear Hs2'.
  assert (Hsb' := Hsb). destruct Hsb' as (SW & SC & SP & SO & SK & SD & _ & _).
  assert (Hnt2 : las_null_text fstr (hs_las hs2) = Some nt) by (unfold las_null_text in *; rewrite <- SW; exact Hnt).
  assert (Hrows : las_rows (hs_las hs2) = las_rows (hs_las hs1)) by (unfold las_rows; rewrite SC, SD; reflexivity).
  destruct (written_text_lines fmtv fmt_diff fmt_pi fstr fzero numeq o1 m text1 m1 Hw1)
    as (hs0 & dl1 & rts1 & Hs0 & _ & Hdl1 & Hr1 & _).
  rewrite Hs1 in Hs0. injection Hs0 as <-. rewrite Hnt in Hr1.
  destruct (written_text_lines fmtv fmt_diff fmt_pi fstr fzero numeq o2 m text2 m2 Hw2)
    as (hs0 & dl2 & rts2 & Hs0 & _ & Hdl2 & Hr2 & _).
  rewrite Hs2 in Hs0. injection Hs0 as <-. rewrite Hnt2 in Hr2.
  destruct (read_written_file_checked fmtv fmt_diff fmt_pi fstr fzero numeq fhex ro o1 m text1 m1 hs1 dl1 rts1 nt
              Hw1 Hs1 Hdl1 Hnt Hr1 Hb1 Hig) as (l1 & pn1 & R1 & B1 & N1 & D1).
  destruct (read_written_file_checked fmtv fmt_diff fmt_pi fstr fzero numeq fhex ro o2 m text2 m2 hs2 dl2 rts2 nt
              Hw2 Hs2 Hdl2 Hnt2 Hr2 Hb2 Hig) as (l2 & pn2 & R2 & B2 & N2 & D2).
  assert (Epn : pn2 = pn1).
  { unfold null_read in N1, N2. rewrite <- SW in N2.
    destruct (filter (in_class (o_mcase ro) (s2l "NULL")) (s_items (l_well (hs_las hs1)))) as [|nit [|n2 r]].
    - rewrite N1, N2. reflexivity.
    - rewrite N1, N2. reflexivity.
    - cbn [List.length] in Hnull. lia. }
  subst pn2.
  exists l1, l2, pn1. split; [exact R1|]. split; [exact R2|]. split; [exact B1|]. split; [exact B2|].
  split; [exact N1|]. split; [exact D1|]. split; [exact Hsb|].
  destruct B1 as (_ & W1 & C1 & P1 & O1 & K1 & _ & TW1 & TC1 & TP1).
  destruct B2 as (_ & W2 & C2 & P2 & O2 & K2 & _ & TW2 & TC2 & TP2).
  rewrite <- SW in W2. rewrite <- SC in C2. rewrite <- SP in P2. rewrite <- SO in O2.
  split; [rewrite W1, W2; reflexivity|]. split; [rewrite C1, C2; reflexivity|].
  split; [rewrite P1, P2; reflexivity|].
  split; [rewrite TW1, TW2; reflexivity|]. split; [rewrite TC1, TC2; reflexivity|]. split; [rewrite TP1, TP2; reflexivity|].
  split; [rewrite O1, O2; reflexivity|]. split; [rewrite K1, K2; reflexivity|].
  split; [rewrite D1, D2, Hrows, <- SC, (tok_matrix_las_ext fmtv o1 o2 nt _ Ef); reflexivity|].
  rewrite (written_state_is_hs_las fmtv fmt_diff fmt_pi fstr fzero numeq o1 m text1 m1 hs1 Hw1 Hs1),
          (written_state_is_hs_las fmtv fmt_diff fmt_pi fstr fzero numeq o2 m text2 m2 hs2 Hw2 Hs2).
  cbn [m_las m_index_initial]. split; [exact Hsb|reflexivity].
Qed.

End WrapOption.
