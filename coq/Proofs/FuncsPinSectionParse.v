(* Proofs.FuncsPinSectionParse — strip_brackets, useful and mn_compare of Model/SectionParse.v ARE
   SectionParser.strip_brackets, HeaderItem.useful_mnemonic and SectionItems.mnemonic_compare
   (Gen/Funcs.v).  Restated as C03_strip_brackets_current, C03_useful_current, C03_compare_current. *)
From Coq Require Import List Arith NArith ZArith Bool Lia ZifyBool ZifyN ZifyNat String.
Import ListNotations.
Require Import PyStr Regex Regexes Funcs Num HeaderLine SectionParse FuncsPinsLib.
Open Scope list_scope.
Open Scope N_scope.

Lemma pyo_item_first a (s : list N) : pyo_item (a :: s) 0%Z = Some [a].
Proof.
  unfold pyo_item. cbn [Z.ltb Z.compare List.length].
  destruct ((0 <=? 0) && (0 <? Z.of_nat (S (List.length s))))%Z eqn:E; [reflexivity|lia].
Qed.

Lemma skipn_last (s : list N) : forall a, skipn (List.length s) (a :: s) = [last (a :: s) 0].
Proof.
  induction s as [|b s IH]; intros a; [reflexivity|].
  cbn [List.length skipn]. rewrite IH. reflexivity.
Qed.

Lemma pyo_item_last a (s : list N) : pyo_item (a :: s) (-1)%Z = Some [last (a :: s) 0].
Proof.
  unfold pyo_item. cbn [Z.ltb Z.compare].
  set (n := Z.of_nat (List.length (a :: s))).
  assert (Hn : n = (Z.of_nat (List.length s) + 1)%Z) by (unfold n; cbn [List.length]; lia).
  destruct ((0 <=? -1 + n) && (-1 + n <? n))%Z eqn:E; [|lia].
  replace (Z.to_nat (-1 + n)) with (List.length s) by lia.
  rewrite skipn_last. reflexivity.
Qed.

Lemma pyo_slice_inner a b (r : list N) :
  pyo_slice (Some 1%Z) (Some (-1)%Z) (a :: b :: r) = removelast (b :: r).
Proof.
  unfold pyo_slice, pyo_bound. cbn [Z.ltb Z.compare List.length].
  replace (Nat.min (Z.to_nat 1) (S (S (List.length r)))) with 1%nat by lia.
  replace (Z.to_nat (Z.max 0 (-1 + Z.of_nat (S (S (List.length r)))))) with (S (List.length r)) by lia.
  rewrite removelast_firstn_len. cbn [skipn List.length Nat.pred].
  replace (S (List.length r) - 1)%nat with (List.length r) by lia. reflexivity.
Qed.

(* ---------- SectionParser.strip_brackets (Some: no IndexError on any input, and the fuel
   S (len x) of the translated recursion never runs out: every call drops at least the two
   bracket characters) ---------------------------------------------------------------------- *)
Lemma lstrip_by_len_le f : forall s : list N, (List.length (lstrip_by f s) <= List.length s)%nat.
Proof. induction s as [|c s IH]; cbn [lstrip_by List.length]; [lia|]. destruct (f c); cbn [List.length]; lia. Qed.

Lemma strip_len_le : forall s : list N, (List.length (strip s) <= List.length s)%nat.
Proof.
  intros s. unfold strip, strip_by, rstrip_by. rewrite rev_length.
  pose proof (lstrip_by_len_le is_space (rev (lstrip_by is_space s))) as H1.
  pose proof (lstrip_by_len_le is_space s) as H2. rewrite rev_length in H1. lia.
Qed.

Lemma removelast_len b (r : list N) : List.length (removelast (b :: r)) = List.length r.
Proof.
  revert b. induction r as [|c r IH]; intros b; [reflexivity|].
  change (removelast (b :: c :: r)) with (b :: removelast (c :: r)). cbn [List.length]. rewrite IH. reflexivity.
Qed.

Lemma strip_brackets_fuel_pin : forall n x, (List.length x < n)%nat ->
  Some (strip_brackets_fuel n x) = py_strip_brackets_fuel n x.
Proof.
  induction n as [|n IH]; intros x Hn; [lia|].
  cbn [strip_brackets_fuel py_strip_brackets_fuel]. cbv zeta.
  pose proof (strip_len_le x) as Hs.
  destruct (strip x) as [|a [|b r]]; [reflexivity|reflexivity|].
  assert (Hlen : (2 <=? pyo_len (a :: b :: r))%Z = true)
    by (unfold pyo_len; cbn [List.length]; lia).
  rewrite Hlen, pyo_item_first, pyo_item_last, pyo_slice_inner.
  set (z := last (a :: b :: r) 0). cbn [obind str_eqb tl].
  assert (Hrec : Some (strip_brackets_fuel n (removelast (b :: r))) = py_strip_brackets_fuel n (removelast (b :: r))).
  { apply IH. rewrite removelast_len. cbn [List.length] in Hs. lia. }
  destruct (a =? 91); destruct (z =? 93); destruct (a =? 40); destruct (z =? 41); cbn [andb orb]; try reflexivity; exact Hrec.
Qed.

Theorem strip_brackets_pin : forall x, Some (strip_brackets x) = py_strip_brackets x.
Proof. intros x. unfold strip_brackets, py_strip_brackets. apply strip_brackets_fuel_pin. lia. Qed.

(* ---------- HeaderItem.useful_mnemonic -------------------------------------------------------- *)
Theorem useful_pin : forall orig, SectionParse.useful orig = py_useful_mnemonic orig.
Proof.
  intros orig. unfold SectionParse.useful, py_useful_mnemonic.
  destruct (strip orig); reflexivity.
Qed.

(* ---------- SectionItems.mnemonic_compare ----------------------------------------------------- *)
Theorem mn_compare_pin : forall transforms one two,
  SectionParse.mn_compare transforms one two = py_mnemonic_compare transforms one two.
Proof.
  intros tr a b. unfold SectionParse.mn_compare, py_mnemonic_compare, SectionParse.upper, pyo_upper.
  destruct tr; [destruct (str_eqb (map ascii_upper a) (map ascii_upper b))|destruct (str_eqb a b)]; reflexivity.
Qed.
