(* Proofs.FuncsPinSectionParse — strip_brackets, useful and mn_compare of Model/SectionParse.v ARE
   SectionParser.strip_brackets, HeaderItem.useful_mnemonic and SectionItems.mnemonic_compare
   (Gen/Funcs.v).  Restated as C03_strip_brackets_current, C03_useful_current, C03_compare_current. *)
From Coq Require Import List Arith NArith ZArith Bool Lia ZifyBool ZifyN ZifyNat String.
Import ListNotations.
Require Import PyStr Regex Regexes Funcs Num HeaderLine SectionParse FuncsPinsLib StripFacts StripBracketsFacts.
Open Scope list_scope.
Open Scope N_scope.

Lemma pyo_item_first a (s : list N) : pyo_item (a :: s) 0%Z = Some [a].
Proof.
  unfold pyo_item. cbn [Z.ltb Z.compare List.length].
  destruct ((0 <=? 0) && (0 <? Z.of_nat (S (List.length s))))%Z eqn:E; [reflexivity|lia].
Qed.

Lemma skipn_last (s : list N) : forall a, skipn (List.length s) (a :: s) = [last (a :: s) 0].
Proof.
  induction s as [|b s IH]; intros a; [reflexivity|].
  cbn [List.length skipn]. rewrite IH. reflexivity.
Qed.

Lemma pyo_item_last a (s : list N) : pyo_item (a :: s) (-1)%Z = Some [last (a :: s) 0].
Proof.
  unfold pyo_item. cbn [Z.ltb Z.compare].
  set (n := Z.of_nat (List.length (a :: s))).
  assert (Hn : n = (Z.of_nat (List.length s) + 1)%Z) by (unfold n; cbn [List.length]; lia).
  destruct ((0 <=? -1 + n) && (-1 + n <? n))%Z eqn:E; [|lia].
  replace (Z.to_nat (-1 + n)) with (List.length s) by lia.
  rewrite skipn_last. reflexivity.
Qed.

Lemma pyo_slice_inner a b (r : list N) :
  pyo_slice (Some 1%Z) (Some (-1)%Z) (a :: b :: r) = removelast (b :: r).
Proof.
  unfold pyo_slice, pyo_bound. cbn [Z.ltb Z.compare List.length].
  replace (Nat.min (Z.to_nat 1) (S (S (List.length r)))) with 1%nat by lia.
  replace (Z.to_nat (Z.max 0 (-1 + Z.of_nat (S (S (List.length r)))))) with (S (List.length r)) by lia.
  rewrite removelast_firstn_len. cbn [skipn List.length Nat.pred].
  replace (S (List.length r) - 1)%nat with (List.length r) by lia. reflexivity.
Qed.

(* ---------- SectionParser.strip_brackets (Some: no IndexError on any input, and the fuel
   S (len x) of the translated recursion never runs out: every call drops at least the two
   bracket characters) ---------------------------------------------------------------------- *)
Lemma lstrip_by_len_le f : forall s : list N, (List.length (lstrip_by f s) <= List.length s)%nat.
Proof. induction s as [|c s IH]; cbn [lstrip_by List.length]; [lia|]. destruct (f c); cbn [List.length]; lia. Qed.

Lemma strip_len_le : forall s : list N, (List.length (strip s) <= List.length s)%nat.
Proof.
  intros s. unfold strip, strip_by, rstrip_by. rewrite rev_length.
  pose proof (lstrip_by_len_le is_space (rev (lstrip_by is_space s))) as H1.
  pose proof (lstrip_by_len_le is_space s) as H2. rewrite rev_length in H1. lia.
Qed.

Lemma removelast_cons_len b (r : list N) : List.length (removelast (b :: r)) = List.length r.
Proof.
  revert b. induction r as [|c r IH]; intros b; [reflexivity|].
  change (removelast (b :: c :: r)) with (b :: removelast (c :: r)). cbn [List.length]. rewrite IH. reflexivity.
Qed.

(* the iterative form: the loop `while len(x) >= 2 and (x[0], x[-1] are a bracket pair): x = x[1:-1].strip()` on the
   stripped text (a local fixpoint on fuel in Gen/Funcs.v) is the model's recursion, which strips at the start of every
   round; the fuel S (len x) never runs out: every round drops at least the two bracket characters *)
Definition sb_loop : nat -> list N -> option (list N) :=
  (fix loop_ (fuel_ : nat) (st_ : list N) {struct fuel_} : option (list N) :=
     match fuel_ with
     | O => None
     | S fuel_0 =>
         match obind (Some ((2 <=? pyo_len st_)%Z))
                 (fun t8_ : bool => if t8_ then
                    obind (obind (obind (pyo_item st_ 0%Z) (fun t1_ => Some (str_eqb t1_ [91])))
                             (fun t3_ : bool => if t3_ then obind (pyo_item st_ (-1)%Z) (fun t2_ => Some (str_eqb t2_ [93])) else Some false))
                          (fun t7_ : bool => if t7_ then Some true else
                             obind (obind (pyo_item st_ 0%Z) (fun t4_ => Some (str_eqb t4_ [40])))
                                   (fun t6_ : bool => if t6_ then obind (pyo_item st_ (-1)%Z) (fun t5_ => Some (str_eqb t5_ [41])) else Some false))
                  else Some false) with
         | Some true => loop_ fuel_0 (strip (pyo_slice (Some 1%Z) (Some (-1)%Z) st_))
         | Some false => Some st_
         | None => None
         end
     end).

Lemma strip_brackets_loop_pin : forall n x y, y = strip x -> (List.length x < n)%nat ->
  sb_loop n y = Some (strip_brackets_fuel n x).
Proof.
  unfold sb_loop. induction n as [|n IH]; intros x y Hy Hn; [lia|]. subst y.
  cbn [strip_brackets_fuel]. cbv zeta.
  pose proof (strip_len_le x) as Hs.
  destruct (strip x) as [|a [|b r]]; [reflexivity|reflexivity|].
  assert (Hlen : (2 <=? pyo_len (a :: b :: r))%Z = true)
    by (unfold pyo_len; cbn [List.length]; lia).
  rewrite Hlen. cbn [obind]. rewrite pyo_item_first, pyo_item_last, pyo_slice_inner.
  set (z := last (a :: b :: r) 0). cbn [obind str_eqb tl].
  assert (Hrec := IH (removelast (b :: r)) (strip (removelast (b :: r))) eq_refl). rewrite removelast_cons_len in Hrec. cbn [List.length] in Hs.
  specialize (Hrec ltac:(lia)).
  destruct (a =? 91); destruct (z =? 93); destruct (a =? 40); destruct (z =? 41); cbn [andb orb]; try reflexivity; exact Hrec.
Qed.

Theorem strip_brackets_pin : forall x, Some (strip_brackets x) = py_strip_brackets x.
Proof.
  intros x. change (py_strip_brackets x) with (obind (sb_loop (S (List.length (strip x))) (strip x)) (fun v_x => Some v_x)).
  rewrite (strip_brackets_loop_pin (S (List.length (strip x))) (strip x) (strip x) (eq_sym (strip_idem x))) by lia.
  cbn [obind]. f_equal. unfold strip_brackets.
  rewrite <- (sbf_more (S (List.length (strip x))) (S (List.length x)) (strip x)) by (pose proof (strip_len_le x); lia).
  cbn [strip_brackets_fuel]. rewrite strip_idem. reflexivity.
Qed.

(* ---------- HeaderItem.useful_mnemonic -------------------------------------------------------- *)
Theorem useful_pin : forall orig, SectionParse.useful orig = py_useful_mnemonic orig.
Proof.
  intros orig. unfold SectionParse.useful, py_useful_mnemonic.
  destruct (strip orig); reflexivity.
Qed.

(* ---------- SectionItems.mnemonic_compare ----------------------------------------------------- *)
Theorem mn_compare_pin : forall transforms one two,
  SectionParse.mn_compare transforms one two = py_mnemonic_compare transforms one two.
Proof.
  intros tr a b. unfold SectionParse.mn_compare, py_mnemonic_compare, SectionParse.upper, pyo_upper.
  destruct tr; [destruct (str_eqb (map ascii_upper a) (map ascii_upper b))|destruct (str_eqb a b)]; reflexivity.
Qed.
