(* Proofs.TextWrapProofs — PyLib/TextWrap.v (textwrap.TextWrapper(width, break_long_words=False,
   break_on_hyphens=False).wrap) never loses, splits, merges or reorders a white-space
   separated token:
     wrap_tokens          flat_map split_ws (wrap w s) = split_ws s          (every w, every s)
     wrap_no_blank_line   no returned line is empty or made of blanks only
     wrap_fits            a returned line longer than w contains no blank (it is one chunk)
   Route: munge only turns white space into blanks; chunks cuts into non-empty homogeneous
   runs of alternating kind whose concatenation is the text; one iteration of _wrap_chunks
   (step) removes a prefix of the chunk list, emits it without its trailing blank chunk, and
   what it cuts next to is always a blank chunk. *)
From Coq Require Import List Arith NArith Bool Lia ZifyBool ZifyN ZifyNat.
Import ListNotations.
Require Import PyStr TextWrap RegexSubFacts SplitWsFacts.
Open Scope list_scope.
Open Scope N_scope.

(* ======================================================================================= *)
(* munge                                                                                   *)
(* ======================================================================================= *)
Definition tw_map (c : N) : N := if tw_space c then 32 else c.

Lemma tw_space_is_space c : tw_space c = true -> is_space c = true.
Proof. unfold tw_space, is_space. lia. Qed.

Lemma tw_map_space c : is_space (tw_map c) = is_space c.
Proof.
  unfold tw_map. destruct (tw_space c) eqn:E; [|reflexivity].
  rewrite (tw_space_is_space c E). reflexivity.
Qed.

Lemma tw_map_nonspace c : is_space c = false -> tw_map c = c.
Proof.
  intros H. unfold tw_map. destruct (tw_space c) eqn:E; [|reflexivity].
  rewrite (tw_space_is_space c E) in H. discriminate.
Qed.

Lemma map_repeat_32 n : map tw_map (repeat_ch 32 n) = repeat_ch 32 n.
Proof. unfold repeat_ch. induction n as [|n IH]; cbn [repeat map]; [reflexivity|]. rewrite IH. reflexivity. Qed.

Lemma repeat_32_space n : forallb is_space (repeat_ch 32 n) = true.
Proof. unfold repeat_ch. induction n as [|n IH]; cbn [repeat forallb]; [reflexivity|]. rewrite IH. reflexivity. Qed.

Lemma split_ws_aux_munge : forall s col cur,
  split_ws_aux (map tw_map (expandtabs_aux s col)) cur = split_ws_aux s cur.
Proof.
  induction s as [|c s IH]; intros col cur; [reflexivity|].
  cbn [expandtabs_aux].
  destruct (N.eqb_spec c 9) as [->|Hn9].
  - (* a tab: at least one blank *)
    rewrite map_app, map_repeat_32.
    assert (Hpos : (8 - Nat.modulo col 8 <> 0)%nat).
    { pose proof (Nat.mod_upper_bound col 8). lia. }
    rewrite split_ws_aux_spaces.
    + rewrite split_ws_aux_space by reflexivity. f_equal. unfold split_ws. apply IH.
    + destruct (8 - Nat.modulo col 8)%nat; [congruence|discriminate].
    + apply repeat_32_space.
  - assert (E : forall col', split_ws_aux (map tw_map (c :: expandtabs_aux s col')) cur = split_ws_aux (c :: s) cur).
    { intros col'. cbn [map split_ws_aux]. rewrite tw_map_space.
      destruct (is_space c) eqn:Hc.
      - destruct cur; rewrite IH; reflexivity.
      - rewrite (tw_map_nonspace c Hc). apply IH. }
    destruct ((c =? 10) || (c =? 13)); apply E.
Qed.

Lemma split_ws_munge s : split_ws (munge s) = split_ws s.
Proof. unfold split_ws, munge. apply split_ws_aux_munge. Qed.

(* characters of the munged text: blanks or non-white-space characters of the original *)
Lemma in_expandtabs c : forall s col, In c (expandtabs_aux s col) -> c = 32 \/ In c s.
Proof.
  induction s as [|x s IH]; intros col H; cbn [expandtabs_aux] in H; [contradiction|].
  destruct (x =? 9).
  - apply in_app_or in H as [H|H].
    + left. unfold repeat_ch in H. apply repeat_spec in H. exact H.
    + destruct (IH _ H); [left|right; right]; assumption.
  - assert (E : forall col', In c (x :: expandtabs_aux s col') -> c = 32 \/ In c (x :: s)).
    { intros col' [->|H']; [right; left; reflexivity|].
      destruct (IH _ H'); [left|right; right]; assumption. }
    destruct ((x =? 10) || (x =? 13)); eapply E; exact H.
Qed.

Lemma in_munge c s : In c (munge s) -> c = 32 \/ In c s.
Proof.
  unfold munge. intros H. apply in_map_iff in H as (x & E & Hx).
  apply in_expandtabs in Hx. destruct (tw_space x) eqn:T.
  - left. congruence.
  - subst c. destruct Hx as [->|Hx]; [discriminate T|right; exact Hx].
Qed.

(* ======================================================================================= *)
(* chunks                                                                                  *)
(* ======================================================================================= *)
(* a non-empty run of blanks (b = true) or of non-blanks (b = false) *)
Definition kind_ok (b : bool) (c : N) : bool := Bool.eqb (c =? 32) b.
Definition homog (b : bool) (ch : list N) : Prop := ch <> [] /\ forallb (kind_ok b) ch = true.

Fixpoint altk (b : bool) (cs : list (list N)) : Prop :=
  match cs with
  | [] => True
  | x :: cs' => homog b x /\ altk (negb b) cs'
  end.

Lemma forallb_rev {A} (f : A -> bool) l : forallb f (rev l) = forallb f l.
Proof.
  induction l as [|x l IH]; [reflexivity|]. cbn [rev forallb].
  rewrite forallb_app, IH. cbn [forallb]. rewrite andb_true_r. apply andb_comm.
Qed.

Lemma forallb_ext' {A} (f g : A -> bool) l : (forall x, f x = g x) -> forallb f l = forallb g l.
Proof. intros H. induction l as [|x l IH]; [reflexivity|]. cbn [forallb]. rewrite H, IH. reflexivity. Qed.

Lemma homog_rev b cur : cur <> [] -> forallb (kind_ok b) cur = true -> homog b (rev cur).
Proof.
  intros Hne H. split.
  - intros E. apply (f_equal (@rev N)) in E. rewrite rev_involutive in E. cbn in E. congruence.
  - rewrite forallb_rev. exact H.
Qed.

Lemma chunks_aux_altk : forall s cur sp,
  cur <> [] -> forallb (kind_ok sp) cur = true -> altk sp (chunks_aux s cur sp).
Proof.
  induction s as [|c s IH]; intros cur sp Hne H.
  - cbn [chunks_aux]. destruct cur as [|x cur]; [congruence|]. cbn [altk].
    split; [apply homog_rev; assumption|exact I].
  - cbn [chunks_aux]. destruct cur as [|x cur]; [congruence|].
    destruct (Bool.eqb (c =? 32) sp) eqn:E.
    + apply IH; [discriminate|]. cbn [forallb]. unfold kind_ok at 1. rewrite E. exact H.
    + cbn [altk]. split; [apply homog_rev; assumption|].
      assert (Hk : (c =? 32) = negb sp) by (destruct (c =? 32), sp; cbn in *; congruence).
      rewrite Hk. apply IH; [discriminate|]. cbn [forallb]. unfold kind_ok. rewrite Hk.
      destruct sp; reflexivity.
Qed.

Lemma chunks_altk s : exists b, altk b (chunks s).
Proof.
  unfold chunks. destruct s as [|c s]; [exists true; exact I|].
  exists (c =? 32). cbn [chunks_aux]. apply chunks_aux_altk; [discriminate|].
  cbn [forallb]. unfold kind_ok. destruct (c =? 32); reflexivity.
Qed.

Lemma chunks_aux_concat : forall s cur sp, concat (chunks_aux s cur sp) = rev cur ++ s.
Proof.
  induction s as [|c s IH]; intros cur sp.
  - cbn [chunks_aux]. destruct cur; cbn [concat]; [reflexivity|]. rewrite !app_nil_r. reflexivity.
  - cbn [chunks_aux]. destruct cur as [|x cur].
    + rewrite IH. reflexivity.
    + destruct (Bool.eqb (c =? 32) sp).
      * rewrite IH. cbn [rev]. rewrite <- !app_assoc. reflexivity.
      * cbn [concat]. rewrite IH. reflexivity.
Qed.

Theorem chunks_concat s : concat (chunks s) = s.
Proof. unfold chunks. apply chunks_aux_concat. Qed.

(* ---- what the wrapping proofs use: non-empty chunks, adjacent chunks differ in kind ------- *)
Definition chunk_ok (x : list N) : Prop :=
  x <> [] /\ (is_blank_chunk x = true \/ forallb (fun c => negb (c =? 32)) x = true).

Fixpoint alt (cs : list (list N)) : Prop :=
  match cs with
  | [] => True
  | x :: cs' =>
      chunk_ok x /\
      match cs' with [] => True | y :: _ => is_blank_chunk x = negb (is_blank_chunk y) end /\
      alt cs'
  end.

Lemma homog_blank b x : homog b x -> is_blank_chunk x = b.
Proof.
  intros [Hne H]. unfold is_blank_chunk. destruct b.
  - rewrite <- H. apply forallb_ext'. intros c. unfold kind_ok. destruct (c =? 32); reflexivity.
  - destruct x as [|c x]; [congruence|]. cbn [forallb] in *. apply andb_true_iff in H as [Hc _].
    unfold kind_ok in Hc. destruct (c =? 32); [discriminate Hc|reflexivity].
Qed.

Lemma homog_chunk_ok b x : homog b x -> chunk_ok x.
Proof.
  intros H. pose proof (homog_blank b x H) as Hb. destruct H as [Hne H]. split; [exact Hne|].
  destruct b; [left; exact Hb|right].
  rewrite <- H. apply forallb_ext'. intros c. unfold kind_ok. destruct (c =? 32); reflexivity.
Qed.

Lemma altk_alt : forall cs b, altk b cs -> alt cs.
Proof.
  induction cs as [|x cs IH]; intros b H; [exact I|].
  cbn [altk] in H. destruct H as [Hx Hcs]. cbn [alt].
  split; [eapply homog_chunk_ok; exact Hx|]. split; [|eapply IH; exact Hcs].
  destruct cs as [|y cs]; [exact I|]. cbn [altk] in Hcs. destruct Hcs as [Hy _].
  rewrite (homog_blank _ _ Hx), (homog_blank _ _ Hy). symmetry. apply negb_involutive.
Qed.

Theorem chunks_alt s : alt (chunks s).
Proof. destruct (chunks_altk s) as [b H]. eapply altk_alt. exact H. Qed.

Lemma alt_tail x cs : alt (x :: cs) -> alt cs.
Proof. cbn [alt]. tauto. Qed.

Lemma alt_app_r : forall l r, alt (l ++ r) -> alt r.
Proof. induction l as [|x l IH]; intros r H; [exact H|]. apply IH. eapply alt_tail. exact H. Qed.

Lemma alt_In : forall cs x, alt cs -> In x cs -> chunk_ok x.
Proof.
  induction cs as [|y cs IH]; intros x H Hin; [contradiction|].
  cbn [alt] in H. destruct H as (Hy & _ & Hcs). destruct Hin as [<-|Hin]; [exact Hy|]. apply IH; assumption.
Qed.

(* the two chunks on either side of a cut differ in kind *)
Lemma alt_boundary : forall l c y r, alt (l ++ c :: y :: r) -> is_blank_chunk c = negb (is_blank_chunk y).
Proof.
  induction l as [|x l IH]; intros c y r H.
  - cbn [app alt] in H. tauto.
  - apply (IH c y r). eapply alt_tail. exact H.
Qed.

Lemma blank_chunk_space x : is_blank_chunk x = true -> forallb is_space x = true.
Proof.
  unfold is_blank_chunk. intros H. rewrite forallb_forall in *. intros c Hc.
  specialize (H c Hc). apply N.eqb_eq in H. subst c. reflexivity.
Qed.

Lemma is_blank_chunk_app a b : is_blank_chunk (a ++ b) = is_blank_chunk a && is_blank_chunk b.
Proof. unfold is_blank_chunk. apply forallb_app. Qed.

(* ======================================================================================= *)
(* one iteration of _wrap_chunks                                                           *)
(* ======================================================================================= *)
Definition step (cs1 : list (list N)) (width : nat) : list (list N) * list (list N) :=
  let (line, rest) := take_fit cs1 width 0 in
  let (line, rest) :=
    match line, rest with
    | [], w :: rest' => if Nat.ltb width (List.length w) then ([w], rest') else (line, rest)
    | _, _ => (line, rest)
    end in
  (drop_trailing_blank line, rest).

Lemma wrap_chunks_step f c0 cs0 width hl :
  wrap_chunks (S f) (c0 :: cs0) width hl =
  let cs1 := if hl && is_blank_chunk c0 then cs0 else c0 :: cs0 in
  match cs1 with
  | [] => []
  | _ =>
      match fst (step cs1 width) with
      | [] => wrap_chunks f (snd (step cs1 width)) width hl
      | _ => concat (fst (step cs1 width)) :: wrap_chunks f (snd (step cs1 width)) width true
      end
  end.
Proof.
  cbn [wrap_chunks]. cbv zeta.
  destruct (if hl && is_blank_chunk c0 then cs0 else c0 :: cs0) as [|c1 cs1]; [reflexivity|].
  unfold step. destruct (take_fit (c1 :: cs1) width 0) as [line rest].
  destruct line as [|l0 line].
  - destruct rest as [|w rest]; [reflexivity|].
    destruct (Nat.ltb width (List.length w)); reflexivity.
  - reflexivity.
Qed.

Lemma take_fit_spec : forall cs width n a b,
  take_fit cs width n = (a, b) ->
  cs = a ++ b /\ (n + List.length (concat a) <= width \/ a = [])%nat /\
  (a = [] -> match cs with [] => True | c :: _ => (width < n + List.length c)%nat end).
Proof.
  induction cs as [|c cs IH]; intros width n a b H; cbn [take_fit] in H.
  - injection H as <- <-. auto.
  - destruct (Nat.leb_spec (n + List.length c) width) as [Hle|Hgt].
    + destruct (take_fit cs width (n + List.length c)) as [a' b'] eqn:E.
      injection H as <- <-. destruct (IH _ _ _ _ E) as (E1 & E2 & _).
      split; [cbn [app]; f_equal; exact E1|]. split; [|discriminate].
      left. cbn [concat]. rewrite app_length. destruct E2 as [E2| ->]; [lia|]. cbn [concat List.length]. lia.
    + injection H as <- <-. split; [reflexivity|]. split; [right; reflexivity|]. intros _. exact Hgt.
Qed.

Lemma drop_trailing_spec l :
  (drop_trailing_blank l = l /\
   (l = [] \/ exists r c, l = r ++ [c] /\ is_blank_chunk c = false)) \/
  (exists c, l = drop_trailing_blank l ++ [c] /\ is_blank_chunk c = true).
Proof.
  unfold drop_trailing_blank. destruct (rev l) as [|c r] eqn:E.
  - left. split; [reflexivity|]. left.
    apply (f_equal (@rev (list N))) in E. rewrite rev_involutive in E. exact E.
  - assert (El : l = rev r ++ [c]).
    { apply (f_equal (@rev (list N))) in E. rewrite rev_involutive in E. exact E. }
    destruct (is_blank_chunk c) eqn:B.
    + right. exists c. auto.
    + left. split; [reflexivity|]. right. exists (rev r), c. auto.
Qed.

(* the cut made by one iteration: the emitted chunks, an optional dropped blank chunk, the rest *)
Lemma step_cut cs1 width line rest :
  cs1 <> [] -> step cs1 width = (line, rest) ->
  exists mid, cs1 = line ++ mid ++ rest /\
    (mid = [] \/ exists b, mid = [b] /\ is_blank_chunk b = true) /\
    (line ++ mid <> []) /\
    (mid = [] -> exists r c, line = r ++ [c] /\ is_blank_chunk c = false) /\
    ((List.length (concat line) <= width)%nat \/ exists x, line = [x]).
Proof.
  intros Hne H. unfold step in H.
  destruct (take_fit cs1 width 0) as [l0 r0] eqn:E.
  destruct (take_fit_spec _ _ _ _ _ E) as (Ecs & Hfit & Hnil).
  (* the line before the trailing blank is dropped *)
  assert (Hadj : exists l1 r1,
            (match l0, r0 with
             | [], w :: rest' => if Nat.ltb width (List.length w) then ([w], rest') else (l0, r0)
             | _, _ => (l0, r0)
             end) = (l1, r1) /\ cs1 = l1 ++ r1 /\ l1 <> [] /\
            ((List.length (concat l1) <= width)%nat \/ exists x, l1 = [x])).
  { destruct l0 as [|x l0].
    - cbn [app] in Ecs. subst r0. destruct cs1 as [|w cs1]; [congruence|].
      specialize (Hnil eq_refl). cbn [Nat.add] in Hnil.
      apply Nat.ltb_lt in Hnil. rewrite Hnil.
      exists [w], cs1. split; [reflexivity|]. split; [reflexivity|]. split; [discriminate|].
      right. exists w. reflexivity.
    - exists (x :: l0), r0. split; [reflexivity|]. split; [exact Ecs|]. split; [discriminate|].
      left. destruct Hfit as [Hfit|Hfit]; [cbn [Nat.add] in Hfit; exact Hfit|discriminate]. }
  destruct Hadj as (l1 & r1 & Eadj & Ecs1 & Hl1 & Hfit1). rewrite Eadj in H.
  injection H as <- <-.
  destruct (drop_trailing_spec l1) as [(Ed & Hlast)|(b & Eb & Hb)].
  - exists []. rewrite Ed. cbn [app]. split; [exact Ecs1|]. split; [left; reflexivity|].
    split; [rewrite app_nil_r; exact Hl1|]. split; [|exact Hfit1].
    intros _. destruct Hlast as [->|Hlast]; [congruence|exact Hlast].
  - exists [b]. split; [rewrite app_assoc, <- Eb; exact Ecs1|].
    split; [right; exists b; auto|]. split; [destruct (drop_trailing_blank l1); discriminate|].
    split; [discriminate|].
    destruct Hfit1 as [Hfit1|(x & Ex)].
    + left. rewrite Eb, concat_app, app_length in Hfit1. lia.
    + left. subst l1. destruct (drop_trailing_blank [x]) as [|y d]; [cbn [concat List.length]; lia|].
      cbn [app] in Eb. injection Eb as _ Eb. destruct d; discriminate Eb.
Qed.

Lemma concat_last_nonblank (r : list (list N)) c :
  is_blank_chunk c = false -> is_blank_chunk (concat (r ++ [c])) = false.
Proof.
  intros H. rewrite concat_app, is_blank_chunk_app. cbn [concat]. rewrite app_nil_r, H.
  apply andb_false_r.
Qed.

(* what one iteration guarantees on an alternating chunk list *)
Lemma step_spec cs1 width line rest :
  alt cs1 -> cs1 <> [] -> step cs1 width = (line, rest) ->
  (List.length rest < List.length cs1)%nat /\
  alt rest /\
  split_ws (concat cs1) = split_ws (concat line) ++ split_ws (concat rest) /\
  (line = [] \/ is_blank_chunk (concat line) = false) /\
  ((List.length (concat line) <= width)%nat \/
   forallb (fun c => negb (c =? 32)) (concat line) = true).
Proof.
  intros Halt Hne H. destruct (step_cut cs1 width line rest Hne H) as (mid & Ecs & Hmid & Hprog & Hlast & Hfit).
  assert (Hrest : alt rest).
  { apply (alt_app_r (line ++ mid)). rewrite <- app_assoc, <- Ecs. exact Halt. }
  split; [|split; [exact Hrest|]].
  { rewrite Ecs, !app_length. destruct line, mid; cbn [List.length app] in *; try lia. congruence. }
  destruct Hmid as [->|(b & -> & Hb)].
  - (* no blank dropped: the next chunk, if any, is blank *)
    cbn [app] in Ecs. destruct (Hlast eq_refl) as (r & c & El & Hc).
    split; [|split].
    + rewrite Ecs, concat_app. apply split_ws_app_sp.
      destruct rest as [|y rest']; [exact I|].
      assert (Hy : is_blank_chunk y = true).
      { rewrite Ecs, El, <- app_assoc in Halt. cbn [app] in Halt.
        apply alt_boundary in Halt. rewrite Hc in Halt. destruct (is_blank_chunk y); [reflexivity|discriminate]. }
      cbn [alt] in Hrest. destruct Hrest as ((Hyne & _) & _).
      destruct y as [|c0 y]; [congruence|]. cbn [concat app starts_sp].
      apply blank_chunk_space in Hy. cbn [forallb] in Hy. apply andb_true_iff in Hy as [Hy _]. exact Hy.
    + right. rewrite El. apply concat_last_nonblank. exact Hc.
    + destruct Hfit as [Hfit|(x & Ex)]; [left; exact Hfit|right].
      rewrite Ex. cbn [concat]. rewrite app_nil_r.
      assert (Hx : chunk_ok x) by (apply (alt_In cs1); [exact Halt|rewrite Ecs, Ex; left; reflexivity]).
      destruct Hx as [_ [Hx|Hx]]; [|exact Hx].
      rewrite Ex in El. destruct r as [|? [|? ?]]; cbn in El; try discriminate.
      injection El as ->. congruence.
  - (* a trailing blank chunk was dropped *)
    assert (Hbok : chunk_ok b) by (apply (alt_In cs1); [exact Halt|rewrite Ecs; apply in_or_app; right; left; reflexivity]).
    split; [|split].
    + rewrite Ecs, !concat_app. cbn [concat]. rewrite app_nil_r.
      apply split_ws_app_gap; [exact (proj1 Hbok)|apply blank_chunk_space; exact Hb].
    + destruct line as [|x0 line0] eqn:El; [left; reflexivity|right]. rewrite <- El in *.
      destruct (exists_last (l := line)) as (r & c & Er); [rewrite El; discriminate|].
      rewrite Er. apply concat_last_nonblank.
      rewrite Ecs, Er, <- !app_assoc in Halt. cbn [app] in Halt. apply alt_boundary in Halt.
      rewrite Hb in Halt. exact Halt.
    + destruct Hfit as [Hfit|(x & Ex)]; [left; exact Hfit|].
      (* a single chunk followed by a dropped blank: it is a non-blank chunk *)
      rewrite Ex in *. cbn [concat]. rewrite app_nil_r.
      assert (Hx : chunk_ok x) by (apply (alt_In cs1); [exact Halt|rewrite Ecs; left; reflexivity]).
      destruct Hx as [_ [Hx|Hx]]; [|right; exact Hx].
      cbn [app] in Ecs. rewrite Ecs in Halt. apply (alt_boundary []) in Halt.
      rewrite Hx, Hb in Halt. discriminate.
Qed.

(* ======================================================================================= *)
(* _wrap_chunks                                                                            *)
(* ======================================================================================= *)
Lemma wrap_chunks_tokens : forall fuel cs width hl,
  alt cs -> (List.length cs < fuel)%nat ->
  flat_map split_ws (wrap_chunks fuel cs width hl) = split_ws (concat cs).
Proof.
  induction fuel as [|f IH]; intros cs width hl Halt Hfuel; [lia|].
  destruct cs as [|c0 cs0]; [reflexivity|].
  rewrite wrap_chunks_step. cbv zeta.
  set (cs1 := if hl && is_blank_chunk c0 then cs0 else c0 :: cs0).
  assert (H1 : alt cs1 /\ (List.length cs1 <= List.length (c0 :: cs0))%nat /\
               split_ws (concat cs1) = split_ws (concat (c0 :: cs0))).
  { subst cs1. destruct (hl && is_blank_chunk c0) eqn:E.
    - apply andb_true_iff in E as [_ E]. split; [eapply alt_tail; exact Halt|].
      split; [cbn [List.length]; lia|]. cbn [concat]. symmetry. apply split_ws_leading.
      apply blank_chunk_space. exact E.
    - auto. }
  destruct H1 as (Halt1 & Hlen1 & Etok). rewrite <- Etok. clearbody cs1.
  destruct cs1 as [|c1 cs1']; [reflexivity|].
  destruct (step (c1 :: cs1') width) as [line rest] eqn:Es. cbn [fst snd].
  destruct (step_spec _ _ _ _ Halt1 ltac:(discriminate) Es) as (Hlt & Hrest & Esplit & _ & _).
  cbn [List.length] in *.
  destruct line as [|x line].
  - rewrite IH by (try assumption; lia). rewrite Esplit. reflexivity.
  - cbn [flat_map]. rewrite IH by (try assumption; lia). rewrite Esplit. reflexivity.
Qed.

Lemma wrap_chunks_lines : forall fuel cs width hl,
  alt cs -> (List.length cs < fuel)%nat ->
  Forall (fun l => is_blank_chunk l = false /\
                   ((List.length l <= width)%nat \/ forallb (fun c => negb (c =? 32)) l = true))
         (wrap_chunks fuel cs width hl).
Proof.
  induction fuel as [|f IH]; intros cs width hl Halt Hfuel; [lia|].
  destruct cs as [|c0 cs0]; [constructor|].
  rewrite wrap_chunks_step. cbv zeta.
  set (cs1 := if hl && is_blank_chunk c0 then cs0 else c0 :: cs0).
  assert (H1 : alt cs1 /\ (List.length cs1 <= List.length (c0 :: cs0))%nat).
  { subst cs1. destruct (hl && is_blank_chunk c0); [|auto].
    split; [eapply alt_tail; exact Halt|cbn [List.length]; lia]. }
  destruct H1 as (Halt1 & Hlen1). clearbody cs1.
  destruct cs1 as [|c1 cs1']; [constructor|].
  destruct (step (c1 :: cs1') width) as [line rest] eqn:Es. cbn [fst snd].
  destruct (step_spec _ _ _ _ Halt1 ltac:(discriminate) Es) as (Hlt & Hrest & _ & Hnb & Hfit).
  cbn [List.length] in *.
  destruct line as [|x line].
  - apply IH; [assumption|lia].
  - constructor; [|apply IH; [assumption|lia]].
    split; [destruct Hnb as [Hnb|Hnb]; [discriminate|exact Hnb]|exact Hfit].
Qed.

(* ======================================================================================= *)
(* wrap                                                                                    *)
(* ======================================================================================= *)
Theorem wrap_tokens width s : flat_map split_ws (wrap width s) = split_ws s.
Proof.
  unfold wrap. rewrite wrap_chunks_tokens; [|apply chunks_alt|lia].
  rewrite chunks_concat. apply split_ws_munge.
Qed.

Lemma not_blank_chunk l : is_blank_chunk l = false -> l <> [] /\ forallb (fun c => c =? 32) l = false.
Proof. intros H. split; [intros ->; discriminate H|exact H]. Qed.

Theorem wrap_no_blank_line width s l :
  In l (wrap width s) -> l <> [] /\ forallb (fun c => c =? 32) l = false.
Proof.
  intros Hin. apply not_blank_chunk.
  pose proof (wrap_chunks_lines (S (S (List.length (chunks (munge s))))) (chunks (munge s)) width false
                (chunks_alt _) ltac:(lia)) as H.
  rewrite Forall_forall in H. apply (H l Hin).
Qed.

Theorem wrap_fits width s l :
  In l (wrap width s) -> (List.length l <= width)%nat \/ forallb (fun c => negb (c =? 32)) l = true.
Proof.
  intros Hin.
  pose proof (wrap_chunks_lines (S (S (List.length (chunks (munge s))))) (chunks (munge s)) width false
                (chunks_alt _) ltac:(lia)) as H.
  rewrite Forall_forall in H. apply (H l Hin).
Qed.

(* the characters of the wrapped lines are blanks or characters of the text *)
Lemma wrap_chunks_chars : forall fuel cs width hl l c,
  In l (wrap_chunks fuel cs width hl) -> In c l -> In c (concat cs).
Proof.
  induction fuel as [|f IH]; intros cs width hl l c Hl Hc; [contradiction|].
  destruct cs as [|c0 cs0]; [contradiction|].
  rewrite wrap_chunks_step in Hl. cbv zeta in Hl.
  set (cs1 := if hl && is_blank_chunk c0 then cs0 else c0 :: cs0) in *.
  assert (Hsub : forall x, In x (concat cs1) -> In x (concat (c0 :: cs0))).
  { subst cs1. destruct (hl && is_blank_chunk c0); [|auto].
    intros x Hx. cbn [concat]. apply in_or_app. right. exact Hx. }
  apply Hsub. clearbody cs1. clear Hsub.
  destruct cs1 as [|c1 cs1']; [contradiction|].
  destruct (step (c1 :: cs1') width) as [line rest] eqn:Es. cbn [fst snd] in Hl.
  destruct (step_cut (c1 :: cs1') width line rest ltac:(discriminate) Es) as (mid & Ecs & _).
  rewrite Ecs, !concat_app.
  assert (Hrec : forall hl', In l (wrap_chunks f rest width hl') -> In c (concat line ++ concat mid ++ concat rest)).
  { intros hl' H. apply in_or_app. right. apply in_or_app. right. eapply IH; eassumption. }
  destruct line as [|x line]; [eapply Hrec; exact Hl|].
  change (In l (concat (x :: line) :: wrap_chunks f rest width true)) in Hl.
  destruct Hl as [<-|Hl]; [apply in_or_app; left; exact Hc|eapply Hrec; exact Hl].
Qed.

Theorem wrap_chars width s l c : In l (wrap width s) -> In c l -> c = 32 \/ In c s.
Proof.
  intros Hl Hc. unfold wrap in Hl. pose proof (wrap_chunks_chars _ _ _ _ _ _ Hl Hc) as H.
  rewrite chunks_concat in H. apply in_munge. exact H.
Qed.
