(* Proofs.HeaderLineProofs — read_header_line inverts the header line layout (C04).
   Walks the generated regex ASTs fragment by fragment through the backtracking matcher
   (Proofs/RegexMatchFacts.v says which split each greedy star chooses). *)
From Coq Require Import List Arith NArith Bool Lia ZifyBool ZifyN ZifyNat.
Import ListNotations.
Require Import PyStr Regex RegexFacts Regexes HeaderLine RegexMatchFacts HeaderLineSpec.
Open Scope N_scope.

(* ---------- the ASTs the proofs are about -------------------------------------------- *)
Definition name_lit : re :=
  Seq (Opt (Cls (CChar 46))) (Seq (Grp 0 (Star (CNot (CChar 46)))) (Cls (CChar 46))).
Definition unit_lit : re :=
  Grp 1 (Seq (Opt (Grp 102 (Seq (Plus (CRange 48 57)) (Cls CSpace)))) (Star (CNot CSpace))).
Definition value_lit : re := Seq (Grp 2 (Star CAny)) (Cls (CChar 58)).
Definition desc_lit : re := Grp 3 (Star CAny).
Definition name_mp_lit : re := Seq (Grp 0 (Star (CNot (CChar 58)))) (Cls (CChar 58)).
Definition value_mp_lit : re := Grp 2 (Star CAny).
Definition dd_lit : re := Seq (Cls (CNot (CChar 32))) (Seq (Cls (CChar 46)) (Cls (CChar 46))).
Definition tvalue_lit : re :=
  Seq (Grp 2 (LStar CAny))
    (Seq (NotBehind [[CChar 32; CRange 48 50; CRange 48 51]; [CChar 32; CChar 104; CChar 104];
                     [CChar 32; CChar 72; CChar 72]])
       (Seq (Cls (CChar 58))
          (NotAhead [[CRange 48 53; CRange 48 57]; [CChar 109; CChar 109]; [CChar 77; CChar 77]]))).

Definition patterns_current : Prop :=
  rx_name_re = name_lit /\ rx_unit_re = unit_lit /\ rx_value_re = value_lit /\
  rx_desc_re = desc_lit /\ rx_name_missing_period_re = name_mp_lit /\
  rx_value_missing_period_re = value_mp_lit /\ rx_no_desc_re = Eps /\ rx_no_unit_re = Eps /\
  rx_double_dot_search = dd_lit /\ rx_value_with_time_colon_re = tvalue_lit.

Lemma patterns_are_current : patterns_current.
Proof. repeat split; reflexivity. Qed.

(* ---------- characters --------------------------------------------------------------- *)
Lemma blank_space c : is_blank c = true -> is_space c = true.
Proof. unfold is_blank, is_space. lia. Qed.

Lemma blank_not c x : is_blank x = false -> is_blank c = true -> (x =? c) = false.
Proof. unfold is_blank. lia. Qed.

Lemma digit_not_space c : is_digit c = true -> is_space c = false.
Proof. unfold is_digit, is_space. lia. Qed.

Lemma space_not_digit c : is_space c = true -> is_digit c = false.
Proof. unfold is_digit, is_space. lia. Qed.

(* ---------- in_str / forallb --------------------------------------------------------- *)
Lemma in_str_app c a b : in_str c (a ++ b) = in_str c a || in_str c b.
Proof. apply existsb_app. Qed.

Lemma in_str_cons c x s : in_str c (x :: s) = (c =? x) || in_str c s.
Proof. reflexivity. Qed.

Lemma blanks_in_str x p : is_blank x = false -> blanks p = true -> in_str x p = false.
Proof.
  intros Hx. induction p as [|c p IH]; cbn; [reflexivity|]. intros H.
  apply andb_true_iff in H as [Hc Hp]. rewrite (blank_not c x Hx Hc). cbn. apply IH. exact Hp.
Qed.

Lemma in_str_false_not c s : in_str c s = false -> forallb (cmatch (CNot (CChar c))) s = true.
Proof.
  induction s as [|x s IH]; [reflexivity|]. rewrite in_str_cons. cbn [forallb]. intros H.
  apply orb_false_iff in H as [Hx Hs]. rewrite (IH Hs). cbn [cmatch]. rewrite N.eqb_sym, Hx. reflexivity.
Qed.

Lemma nonl_any s : in_str 10 s = false -> forallb (cmatch CAny) s = true.
Proof.
  induction s as [|x s IH]; [reflexivity|]. rewrite in_str_cons. cbn [forallb]. intros H.
  apply orb_false_iff in H as [Hx Hs]. rewrite (IH Hs). cbn [cmatch]. rewrite N.eqb_sym, Hx. reflexivity.
Qed.

Lemma forallb_app3 (f : N -> bool) a b c :
  forallb f a = true -> forallb f b = true -> forallb f c = true -> forallb f (a ++ b ++ c) = true.
Proof. intros Ha Hb Hc. rewrite !forallb_app, Ha, Hb, Hc. reflexivity. Qed.

Lemma in_str_app3 x a b c :
  in_str x a = false -> in_str x b = false -> in_str x c = false -> in_str x (a ++ b ++ c) = false.
Proof. intros Ha Hb Hc. rewrite !in_str_app, Ha, Hb, Hc. reflexivity. Qed.

Lemma blanks_space p : blanks p = true -> forallb is_space p = true.
Proof.
  induction p as [|c p IH]; cbn; [reflexivity|]. intros H.
  apply andb_true_iff in H as [Hc Hp]. rewrite (blank_space c Hc), (IH Hp). reflexivity.
Qed.

Lemma in_str_suffix c a b : in_str c (a ++ b) = false -> in_str c b = false.
Proof. rewrite in_str_app. intros H. apply orb_false_iff in H as [_ H]. exact H. Qed.

Lemma in_str_head c x s : in_str c (x :: s) = false -> (x =? c) = false.
Proof. cbn. intros H. apply orb_false_iff in H as [H _]. rewrite N.eqb_sym. exact H. Qed.

(* ---------- strip -------------------------------------------------------------------- *)
Lemma lstrip_by_all f a s : forallb f a = true -> lstrip_by f (a ++ s) = lstrip_by f s.
Proof.
  induction a as [|c a IH]; cbn; [reflexivity|]. intros H.
  apply andb_true_iff in H as [Hc Ha]. rewrite Hc. apply IH. exact Ha.
Qed.

Lemma lstrip_by_all_nil f a : forallb f a = true -> lstrip_by f a = [].
Proof. intros H. rewrite <- (app_nil_r a). rewrite lstrip_by_all by exact H. reflexivity. Qed.

Lemma lstrip_by_keep f c s : f c = false -> lstrip_by f (c :: s) = c :: s.
Proof. intros H. cbn. rewrite H. reflexivity. Qed.

Lemma forallb_rev (f : N -> bool) s : forallb f (rev s) = forallb f s.
Proof.
  induction s as [|c s IH]; cbn; [reflexivity|].
  rewrite forallb_app, IH. cbn. rewrite andb_true_r. apply andb_comm.
Qed.

Lemma strip_by_pad f a x b :
  forallb f a = true -> forallb f b = true ->
  match x with [] => True | c :: _ => f c = false /\ f (last x 0) = false end ->
  strip_by f (a ++ x ++ b) = x.
Proof.
  intros Ha Hb Hx. unfold strip_by, rstrip_by. rewrite lstrip_by_all by exact Ha.
  destruct x as [|c x].
  - cbn [app]. rewrite (lstrip_by_all_nil f b Hb). reflexivity.
  - destruct Hx as [Hc Hl]. cbn [app]. rewrite lstrip_by_keep by exact Hc.
    change (c :: x ++ b) with ((c :: x) ++ b). rewrite rev_app_distr.
    rewrite lstrip_by_all by (rewrite forallb_rev; exact Hb).
    assert (Hne : c :: x <> []) by discriminate.
    rewrite (app_removelast_last 0 Hne) at 1. rewrite rev_app_distr. cbn [rev app].
    rewrite lstrip_by_keep by exact Hl.
    change (last (c :: x) 0 :: rev (removelast (c :: x))) with (rev [last (c :: x) 0] ++ rev (removelast (c :: x))).
    rewrite <- rev_app_distr, rev_involutive. symmetry. apply app_removelast_last. exact Hne.
Qed.

Lemma strip_pad a x b :
  blanks a = true -> blanks b = true -> stripped x = true -> strip (a ++ x ++ b) = x.
Proof.
  intros Ha Hb Hx. apply strip_by_pad; [apply blanks_space; exact Ha|apply blanks_space; exact Hb|].
  destruct x as [|c x]; [exact I|]. unfold stripped in Hx. apply andb_true_iff in Hx as [H1 H2].
  split; [apply negb_true_iff; exact H1|apply negb_true_iff; exact H2].
Qed.

Lemma strip_stripped x : stripped x = true -> strip x = x.
Proof.
  intros H. rewrite <- (app_nil_r x) at 1. change (x ++ []) with ([] ++ x ++ []).
  apply strip_pad; [reflexivity|reflexivity|exact H].
Qed.

Lemma strip_blanks p : blanks p = true -> strip p = [].
Proof.
  intros H. change p with ([] ++ p) at 1. rewrite <- (app_nil_r p).
  change (([] ++ p) ++ []) with ([] ++ p ++ []). rewrite <- (app_nil_l (p ++ [])).
  change ([] ++ p ++ []) with (p ++ [] ++ []).
  apply (strip_pad p [] []); [exact H|reflexivity|reflexivity].
Qed.

(* ---------- single steps of the matcher ---------------------------------------------- *)
Lemma opt_some (X Y : option st) r :
  X = Some r -> match X with Some r' => Some r' | None => Y end = Some r.
Proof. intros ->. reflexivity. Qed.

Lemma opt_none (X Y : option st) r :
  X = None -> Y = Some r -> match X with Some r' => Some r' | None => Y end = Some r.
Proof. intros -> ->. reflexivity. Qed.

Lemma cls_fail k p s cs cont :
  match s with [] => True | c :: _ => cmatch k c = false end ->
  m (Cls k) (mkst p s cs) cont = None.
Proof. destruct s as [|c s]; cbn [m rem]; [reflexivity|]. intros ->. reflexivity. Qed.

Lemma cls_step k p c s cs cont :
  cmatch k c = true -> m (Cls k) (mkst p (c :: s) cs) cont = cont (mkst (c :: p) s cs).
Proof. intros H. cbn [m rem pre caps]. rewrite H. reflexivity. Qed.

Lemma star_g_all k s p cs cont r :
  forallb (cmatch k) s = true -> cont (mkst (rev s ++ p) [] cs) = Some r ->
  star_g k p s cs cont = Some r.
Proof.
  intros Hs Hk. rewrite <- (app_nil_r s). apply star_g_max; [exact Hs|exact I|exact Hk].
Qed.

(* one unfolding step at a time (cbn [m] would also unfold under the continuations) *)
Lemma m_seq a b x cont : m (Seq a b) x cont = m a x (fun y => m b y cont).
Proof. reflexivity. Qed.
Lemma m_eps x cont : m Eps x cont = cont x.
Proof. reflexivity. Qed.
Lemma m_grp n a p s cs cont :
  m (Grp n a) (mkst p s cs) cont =
  m a (mkst p s cs) (fun y => cont (mkst (pre y) (rem y)
        ((n, firstn (List.length s - List.length (rem y)) s) :: caps y))).
Proof. reflexivity. Qed.
Lemma m_star k p s cs cont : m (Star k) (mkst p s cs) cont = star_g k p s cs cont.
Proof. reflexivity. Qed.
Lemma m_lstar k p s cs cont : m (LStar k) (mkst p s cs) cont = star_l k p s cs cont.
Proof. reflexivity. Qed.
Lemma m_opt a x cont :
  m (Opt a) x cont = match m a x cont with Some r => Some r | None => cont x end.
Proof. reflexivity. Qed.
Lemma m_plus_cons k p c s cs cont :
  m (Plus k) (mkst p (c :: s) cs) cont = if cmatch k c then star_g k (c :: p) s cs cont else None.
Proof. reflexivity. Qed.

Ltac mstep :=
  repeat first [rewrite m_seq | rewrite m_grp | rewrite m_star | rewrite m_lstar | rewrite m_eps];
  cbn beta; cbn [pre rem caps].

(* ---------- fragment: value and description (greedy any-star, colon, greedy any-star) -- *)
Definition vd_lit : re := Seq value_lit desc_lit.

(* the any-star runs to the end of the line and backs off to the LAST colon *)
Lemma vd_run W D p cs :
  forallb (cmatch CAny) W = true -> forallb (cmatch CAny) D = true -> in_str 58 D = false ->
  m vd_lit (mkst p (W ++ 58 :: D) cs) kdone =
  Some (mkst (rev D ++ 58 :: rev W ++ p) [] ((3%nat, D) :: (2%nat, W) :: cs)).
Proof.
  intros HW HD HcD. unfold vd_lit, value_lit, desc_lit. mstep.
  apply star_g_pick; [exact HW| |].
  - mstep. rewrite firstn_app_len. rewrite cls_step by reflexivity. mstep.
    apply star_g_all; [exact HD|]. mstep. rewrite firstn_len_nil. reflexivity.
  - intros a b Ha E _. mstep. destruct a as [|a0 a]; [congruence|]. cbn [app] in E.
    injection E as E0 E1. apply cls_fail. destruct b as [|b0 b]; [exact I|].
    cbn [cmatch]. subst D. apply in_str_suffix in HcD. apply in_str_head in HcD. exact HcD.
Qed.

(* no colon left: the pair fails *)
Lemma vd_fail s p cs : in_str 58 s = false -> m vd_lit (mkst p s cs) kdone = None.
Proof.
  intros Hs. unfold vd_lit, value_lit, desc_lit. mstep.
  apply star_g_none. intros a b E _. mstep. apply cls_fail. destruct b as [|b0 b]; [exact I|].
  cbn [cmatch]. subst s. apply in_str_suffix in Hs. apply in_str_head in Hs. exact Hs.
Qed.

(* ---------- fragment: unit (optional digits+space group, greedy non-space star) ------- *)
(* W is empty or starts with white space *)
Definition head_space (W : list N) : Prop :=
  match W with [] => True | c :: _ => is_space c = true end.

(* continuations that need a colon ahead *)
Definition needs_colon (cont : K) : Prop :=
  forall p b cs, in_str 58 b = false -> cont (mkst p b cs) = None.

(* the non-space star takes exactly w: the next character is white space, or it is the
   separating colon itself and every longer split leaves no colon for the continuation *)
Lemma nonspace_run w W D p cs cont r :
  no_space w = true -> head_space W -> in_str 58 D = false -> needs_colon cont ->
  cont (mkst (rev w ++ p) (W ++ 58 :: D) cs) = Some r ->
  star_g (CNot CSpace) p (w ++ W ++ 58 :: D) cs cont = Some r.
Proof.
  intros Hw HW HD Hf Hk. apply star_g_pick; [exact Hw|exact Hk|].
  intros a b Ha E Hall. destruct a as [|a0 a]; [congruence|].
  destruct W as [|w0 W]; cbn [app] in E; injection E as E0 E1.
  - apply Hf. subst D. apply in_str_suffix in HD. exact HD.
  - subst a0. cbn [forallb cmatch] in Hall. cbn in HW. rewrite HW in Hall. discriminate.
Qed.

(* digits followed by white space cannot be found at the start of a white-space-free word
   that is not entirely digits *)
Lemma digits_space_fail cont cs : forall u rest p,
  no_space u = true -> all_digit u = false ->
  star_g (CRange 48 57) p (u ++ rest) cs (fun y => m (Cls CSpace) y cont) = None.
Proof.
  induction u as [|c u IH]; intros rest p Hu Hd; [discriminate|].
  cbn [no_space forallb] in Hu. apply andb_true_iff in Hu as [Hc Hu].
  apply negb_true_iff in Hc.
  assert (H0 : m (Cls CSpace) (mkst p (c :: u ++ rest) cs) cont = None).
  { apply cls_fail. exact Hc. }
  cbn [app star_g]. destruct (cmatch (CRange 48 57) c) eqn:Hdc; [|exact H0].
  rewrite IH; [exact H0|exact Hu|].
  cbn [all_digit forallb] in Hd. change (cmatch (CRange 48 57) c) with (is_digit c) in Hdc.
  rewrite Hdc in Hd. exact Hd.
Qed.

Lemma unit_plain_run u W D p cs cont r :
  no_space u = true -> is_nil u || negb (all_digit u) = true ->
  head_space W -> in_str 58 D = false -> needs_colon cont ->
  cont (mkst (rev u ++ p) (W ++ 58 :: D) ((1%nat, u) :: cs)) = Some r ->
  m unit_lit (mkst p (u ++ W ++ 58 :: D) cs) cont = Some r.
Proof.
  intros Hu Hnd HW HD Hf Hk. unfold unit_lit. mstep. rewrite m_opt. apply opt_none.
  - (* the optional digits-blank group cannot start here *)
    mstep. destruct u as [|c u].
    + cbn [app]. destruct W as [|w0 W]; cbn [app]; rewrite m_plus_cons.
      * reflexivity.
      * cbn in HW. change (cmatch (CRange 48 57) w0) with (is_digit w0).
        rewrite (space_not_digit w0 HW). reflexivity.
    + cbn [is_nil orb] in Hnd. apply negb_true_iff in Hnd.
      cbn [app]. rewrite m_plus_cons. destruct (cmatch (CRange 48 57) c) eqn:Hdc; [|reflexivity].
      cbn [no_space forallb] in Hu. apply andb_true_iff in Hu as [Hc Hu].
      apply digits_space_fail; [exact Hu|].
      cbn [all_digit forallb] in Hnd. change (cmatch (CRange 48 57) c) with (is_digit c) in Hdc.
      rewrite Hdc in Hnd. exact Hnd.
  - mstep. apply nonspace_run; [exact Hu|exact HW|exact HD| |].
    + intros p' b cs' Hb. apply Hf. exact Hb.
    + mstep. rewrite firstn_app_len. exact Hk.
Qed.

Lemma app_cons_assoc (a : list N) x b c : a ++ x :: b ++ c = (a ++ x :: b) ++ c.
Proof. rewrite <- app_assoc. reflexivity. Qed.

Lemma app_cons_snoc (a : list N) x b : a ++ x :: b = (a ++ [x]) ++ b.
Proof. rewrite <- app_assoc. reflexivity. Qed.

(* "1000 lbf": digits, one white-space character, a white-space-free word *)
Lemma unit_num_run ds sp w W D p cs cont r :
  ds <> [] -> all_digit ds = true -> is_space sp = true -> no_space w = true ->
  head_space W -> in_str 58 D = false -> needs_colon cont ->
  cont (mkst (rev w ++ sp :: rev ds ++ p) (W ++ 58 :: D)
          ((1%nat, ds ++ sp :: w) :: (102%nat, ds ++ [sp]) :: cs)) = Some r ->
  m unit_lit (mkst p (ds ++ sp :: w ++ W ++ 58 :: D) cs) cont = Some r.
Proof.
  intros Hne Hds Hsp Hw HW HD Hf Hk. unfold unit_lit. mstep. rewrite m_opt. apply opt_some.
  mstep. destruct ds as [|d0 ds]; [congruence|].
  cbn [all_digit forallb] in Hds. apply andb_true_iff in Hds as [Hd0 Hds].
  cbn [app]. rewrite m_plus_cons. change (cmatch (CRange 48 57) d0) with (is_digit d0). rewrite Hd0.
  apply star_g_max; [exact Hds| |].
  - change (cmatch (CRange 48 57) sp) with (is_digit sp). apply space_not_digit. exact Hsp.
  - rewrite cls_step by exact Hsp. mstep.
    apply nonspace_run; [exact Hw|exact HW|exact HD| |].
    + intros p' b cs' Hb. apply Hf. exact Hb.
    + mstep.
      change (d0 :: ds ++ sp :: w ++ W ++ 58 :: D) with ((d0 :: ds) ++ sp :: w ++ W ++ 58 :: D).
      rewrite (app_cons_assoc (d0 :: ds) sp w (W ++ 58 :: D)) at 1 2.
      rewrite firstn_app_len.
      rewrite (app_cons_snoc (d0 :: ds) sp (w ++ W ++ 58 :: D)).
      rewrite firstn_app_len.
      cbn [rev] in Hk. rewrite <- app_assoc in Hk. cbn [app] in Hk. cbn [app]. exact Hk.
Qed.

(* ---------- fragment: name (optional dot, greedy dot-free star, dot) ------------------ *)
Lemma name_run N R p cs cont r :
  N <> [] -> in_str 46 N = false ->
  cont (mkst (46 :: rev N ++ p) R ((0%nat, N) :: cs)) = Some r ->
  m name_lit (mkst p (N ++ 46 :: R) cs) cont = Some r.
Proof.
  intros Hne HN Hk. unfold name_lit. rewrite m_seq, m_opt. apply opt_none.
  - destruct N as [|c N]; [congruence|]. apply cls_fail. cbn [app cmatch].
    apply in_str_head in HN. exact HN.
  - mstep. apply star_g_max; [apply in_str_false_not; exact HN|reflexivity|].
    mstep. rewrite firstn_app_len. rewrite cls_step by reflexivity. exact Hk.
Qed.

(* ---------- fragment: name of a line without a period (greedy colon-free star, colon) - *)
Lemma name_mp_run N R p cs cont r :
  in_str 58 N = false ->
  cont (mkst (58 :: rev N ++ p) R ((0%nat, N) :: cs)) = Some r ->
  m name_mp_lit (mkst p (N ++ 58 :: R) cs) cont = Some r.
Proof.
  intros HN Hk. unfold name_mp_lit. mstep.
  apply star_g_max; [apply in_str_false_not; exact HN|reflexivity|].
  mstep. rewrite firstn_app_len. rewrite cls_step by reflexivity. exact Hk.
Qed.

Lemma value_mp_run V p cs :
  forallb (cmatch CAny) V = true ->
  m value_mp_lit (mkst p V cs) kdone = Some (mkst (rev V ++ p) [] ((2%nat, V) :: cs)).
Proof.
  intros HV. unfold value_mp_lit. mstep. apply star_g_all; [exact HV|].
  mstep. rewrite firstn_len_nil. reflexivity.
Qed.

(* ---------- whole patterns ----------------------------------------------------------- *)
Definition main_lit : re := Seq name_lit (Seq unit_lit vd_lit).
Definition mp_lit : re := Seq name_mp_lit (Seq Eps (Seq value_mp_lit Eps)).

Lemma needs_colon_vd : needs_colon (fun y => m vd_lit y kdone).
Proof. intros p b cs Hb. apply vd_fail. exact Hb. Qed.

Lemma main_run_plain N u W D :
  N <> [] -> in_str 46 N = false ->
  no_space u = true -> is_nil u || negb (all_digit u) = true ->
  head_space W -> forallb (cmatch CAny) W = true ->
  forallb (cmatch CAny) D = true -> in_str 58 D = false ->
  exists q, re_match main_lit (N ++ 46 :: u ++ W ++ 58 :: D) =
    Some (mkst q [] [(3%nat, D); (2%nat, W); (1%nat, u); (0%nat, N)]).
Proof.
  intros Hne HN Hu Hnd HW HWa HDa HD. eexists. unfold re_match, main_lit. rewrite !m_seq.
  apply name_run; [exact Hne|exact HN|].
  apply unit_plain_run; [exact Hu|exact Hnd|exact HW|exact HD|exact needs_colon_vd|].
  apply vd_run; [exact HWa|exact HDa|exact HD].
Qed.

Lemma main_run_num N ds sp w W D :
  N <> [] -> in_str 46 N = false ->
  ds <> [] -> all_digit ds = true -> is_space sp = true -> no_space w = true ->
  head_space W -> forallb (cmatch CAny) W = true ->
  forallb (cmatch CAny) D = true -> in_str 58 D = false ->
  exists q, re_match main_lit (N ++ 46 :: ds ++ sp :: w ++ W ++ 58 :: D) =
    Some (mkst q [] [(3%nat, D); (2%nat, W); (1%nat, ds ++ sp :: w); (102%nat, ds ++ [sp]); (0%nat, N)]).
Proof.
  intros Hne HN Hdne Hds Hsp Hw HW HWa HDa HD. eexists. unfold re_match, main_lit. rewrite !m_seq.
  apply name_run; [exact Hne|exact HN|].
  apply unit_num_run; [exact Hdne|exact Hds|exact Hsp|exact Hw|exact HW|exact HD|exact needs_colon_vd|].
  apply vd_run; [exact HWa|exact HDa|exact HD].
Qed.

Lemma mp_run N V :
  in_str 58 N = false -> forallb (cmatch CAny) V = true ->
  exists q, re_match mp_lit (N ++ 58 :: V) = Some (mkst q [] [(2%nat, V); (0%nat, N)]).
Proof.
  intros HN HV. eexists. unfold re_match, mp_lit. rewrite m_seq.
  apply name_mp_run; [exact HN|]. rewrite m_seq, m_eps, m_seq.
  change (fun y : st => m Eps y kdone) with kdone.
  apply value_mp_run. exact HV.
Qed.
