(* Proofs.HeaderLineProofs — read_header_line inverts the header line layout (C04).
   The matcher-level work is in Proofs/HeaderLineFragments.v; here the six-padding layout
   is mapped onto a line  N . U W : D  and the statements of Props/C04.v are proved. *)
From Coq Require Import List Arith NArith Bool Lia ZifyBool ZifyN ZifyNat.
Import ListNotations.
Require Import PyStr Regex RegexFacts Regexes HeaderLine RegexMatchFacts HeaderLineSpec HeaderLineFragments.
Open Scope N_scope.

(* ---------- read_header_line on the layouts ------------------------------------------ *)
Lemma layout_assoc (p0 mn p1 u p2 v p3 p4 d p5 : list N) :
  p0 ++ mn ++ p1 ++ [46] ++ u ++ p2 ++ v ++ p3 ++ [58] ++ p4 ++ d ++ p5 =
  (p0 ++ mn ++ p1) ++ 46 :: u ++ (p2 ++ v ++ p3) ++ 58 :: (p4 ++ d ++ p5).
Proof. cbn [app]. rewrite <- !app_assoc. reflexivity. Qed.

Lemma app3_ne (a x b : list N) : x <> [] -> a ++ x ++ b <> [].
Proof. intros Hx H. apply app_eq_nil in H as [_ H]. apply app_eq_nil in H as [H _]. exact (Hx H). Qed.

Lemma blanks_any p : blanks p = true -> forallb (cmatch CAny) p = true.
Proof. intros H. apply nonl_any. apply blanks_in_str; [reflexivity|exact H]. Qed.

(* value zone p2 ++ v ++ p3: empty or starting with white space *)
Lemma head_space_value p2 v p3 :
  blanks p2 = true -> blanks p3 = true -> is_nil v || negb (is_nil p2) = true ->
  head_space (p2 ++ v ++ p3).
Proof.
  intros H2 H3 Hv. destruct p2 as [|c p2].
  - destruct v as [|c v]; [|discriminate]. cbn [app]. destruct p3 as [|c p3]; [exact I|].
    cbn [blanks forallb] in H3. apply andb_true_iff in H3 as [Hc _]. cbn. apply blank_space. exact Hc.
  - cbn [blanks forallb] in H2. apply andb_true_iff in H2 as [Hc _]. cbn. apply blank_space. exact Hc.
Qed.

Section Layout.
  Variables p0 mn p1 U p2 v p3 p4 d p5 : list N.
  Hypothesis Hp0 : blanks p0 = true.
  Hypothesis Hp1 : blanks p1 = true.
  Hypothesis Hp2 : blanks p2 = true.
  Hypothesis Hp3 : blanks p3 = true.
  Hypothesis Hp4 : blanks p4 = true.
  Hypothesis Hp5 : blanks p5 = true.
  Hypothesis Hmn_ne : mn <> [].
  Hypothesis Hmn_dot : in_str 46 mn = false.
  Hypothesis Hmn_colon : in_str 58 mn = false.
  Hypothesis Hmn_strip : stripped mn = true.
  Hypothesis Hv_strip : stripped v = true.
  Hypothesis Hv_nl : in_str 10 v = false.
  Hypothesis Hv_sep : is_nil v || negb (is_nil p2) = true.
  Hypothesis Hd_strip : stripped d = true.
  Hypothesis Hd_nl : in_str 10 d = false.
  Hypothesis HU : unit_splits U (p2 ++ v ++ p3) (p4 ++ d ++ p5).

  Let Nm := p0 ++ mn ++ p1.
  Let W := p2 ++ v ++ p3.
  Let D := p4 ++ d ++ p5.

  Lemma lay_N_ne : Nm <> [].
  Proof. apply app3_ne. exact Hmn_ne. Qed.
  Lemma lay_N_dot : in_str 46 Nm = false.
  Proof. apply in_str_app3; [apply blanks_in_str; [reflexivity|exact Hp0]|exact Hmn_dot|apply blanks_in_str; [reflexivity|exact Hp1]]. Qed.
  Lemma lay_N_colon : in_str 58 Nm = false.
  Proof. apply in_str_app3; [apply blanks_in_str; [reflexivity|exact Hp0]|exact Hmn_colon|apply blanks_in_str; [reflexivity|exact Hp1]]. Qed.
  Lemma lay_W_any : forallb (cmatch CAny) W = true.
  Proof. apply forallb_app3; [apply blanks_any; exact Hp2|apply nonl_any; exact Hv_nl|apply blanks_any; exact Hp3]. Qed.
  Lemma lay_D_any : forallb (cmatch CAny) D = true.
  Proof. apply forallb_app3; [apply blanks_any; exact Hp4|apply nonl_any; exact Hd_nl|apply blanks_any; exact Hp5]. Qed.
  Lemma lay_W_head : head_space W.
  Proof. apply head_space_value; assumption. Qed.
  Lemma lay_D_colon : in_str 58 d = false -> in_str 58 D = false.
  Proof. intros H. apply in_str_app3; [apply blanks_in_str; [reflexivity|exact Hp4]|exact H|apply blanks_in_str; [reflexivity|exact Hp5]]. Qed.
  Lemma lay_W_clock : clock_colons v = true -> clock_colons W = true.
  Proof.
    intros Hcc. unfold W. apply clock_colons_pad;
      [apply blanks_in_str; [reflexivity|exact Hp2]|apply blanks_in_str; [reflexivity|exact Hp3]|exact Hcc].
  Qed.

  (* ~Parameter, separating colon set off by a blank on both sides: the time pattern stops there *)
  Lemma lay_param_set_off :
    clock_colons v = true -> p3 <> [] -> p4 <> [] -> param_ok Nm U W D.
  Proof.
    intros Hcc Hp3ne Hp4ne. left.
    assert (HWne : W <> []).
    { unfold W. intros E. apply app_eq_nil in E as [_ E]. apply app_eq_nil in E as [_ E]. exact (Hp3ne E). }
    split; [exact (lay_W_clock Hcc)|]. split; [|split].
    - unfold W. destruct (rev_pad_blank p2 v p3 Hp3ne Hp3) as (c & q & E & Hc). rewrite E.
      cbn [app]. apply behind_blank. exact Hc.
    - unfold D. destruct p4 as [|c p4']; [congruence|]. cbn [app].
      cbn [blanks forallb] in Hp4. apply andb_true_iff in Hp4 as [Hc _]. apply ahead_blank. exact Hc.
    - intros E. exfalso. exact (HWne E).
  Qed.

  (* ~Parameter, no colon in unit and description, only clock colons in the value: either the
     separating colon is eligible and the time pattern stops there, or no colon is eligible
     and the time pattern fails *)
  Lemma lay_param_colon_free :
    clock_colons v = true -> in_str 58 U = false -> in_str 58 d = false -> param_ok Nm U W D.
  Proof.
    intros Hcc HUc Hdc. pose proof (lay_D_colon Hdc) as HDc. pose proof (lay_W_clock Hcc) as HWc.
    destruct (behind_blocked (rev W ++ rev U ++ 46 :: rev Nm ++ []) || ahead_blocked D) eqn:E.
    - right. split; [|exact HDc].
      rewrite (app_cons_assoc Nm 46 U (W ++ 58 :: D)).
      assert (HNU : in_str 58 (Nm ++ 46 :: U) = false).
      { rewrite in_str_app, in_str_cons, lay_N_colon, HUc. reflexivity. }
      rewrite (no_elig_nocolon _ _ [] HNU). rewrite (no_elig_clock _ _ _ HWc).
      cbn [no_eligible_colon]. rewrite N.eqb_refl. cbn [negb orb].
      rewrite (no_elig_colonfree D _ HDc), andb_true_r.
      rewrite rev_app_distr. cbn [rev]. rewrite <- !app_assoc. cbn [app]. exact E.
    - apply orb_false_iff in E as [Eb Ea]. left. split; [exact HWc|]. split; [exact Eb|].
      split; [exact Ea|]. intros _. exact HDc.
  Qed.

  Lemma rhl_layout (ic ip : bool) :
    (ic = true -> curves_plain (layout p0 mn p1 U p2 v p3 p4 d p5) = true) ->
    (if ip return Prop
     then clock_colons v = true /\
          ((p3 <> [] /\ p4 <> []) \/ (in_str 58 U = false /\ in_str 58 d = false))
     else in_str 58 d = false) ->
    read_header_line (layout p0 mn p1 U p2 v p3 p4 d p5) ic ip = Some (mkhl mn (fix_unit U) v d).
  Proof.
    intros Hdd Hsec. unfold layout in Hdd |- *. rewrite layout_assoc in Hdd |- *.
    fold Nm W D in Hdd |- *.
    rewrite (rhl_generic Nm U W D ic ip lay_N_ne lay_N_dot lay_N_colon HU
               lay_W_any lay_D_any Hdd).
    - unfold Nm, W, D. rewrite !strip_pad by assumption. reflexivity.
    - destruct ip.
      + destruct Hsec as [Hcc [[H3 H4]|[HUc Hdc]]].
        * exact (lay_param_set_off Hcc H3 H4).
        * exact (lay_param_colon_free Hcc HUc Hdc).
      + exact (lay_D_colon Hsec).
  Qed.
End Layout.

(* ---------- a line without a period is NAME : VALUE ---------------------------------- *)
Lemma layout_mp_assoc (p0 nm p1 p4 v p5 : list N) :
  p0 ++ nm ++ p1 ++ [58] ++ p4 ++ v ++ p5 = (p0 ++ nm ++ p1) ++ 58 :: (p4 ++ v ++ p5).
Proof. cbn [app]. rewrite <- !app_assoc. reflexivity. Qed.

Lemma rhl_missing_period p0 nm p1 p4 v p5 ic ip :
  blanks p0 = true -> blanks p1 = true -> blanks p4 = true -> blanks p5 = true ->
  in_str 46 nm = false -> in_str 58 nm = false -> stripped nm = true ->
  stripped v = true -> in_str 10 v = false ->
  (ic = true -> curves_plain (layout_np p0 nm p1 p4 v p5) = true) ->
  read_header_line (layout_np p0 nm p1 p4 v p5) ic ip = Some (mkhl nm [] v []).
Proof.
  intros Hp0 Hp1 Hp4 Hp5 Hdot Hcol Hns Hvs Hvn Hdd. unfold layout_np in Hdd |- *. rewrite layout_mp_assoc in Hdd |- *.
  assert (HNc : in_str 58 (p0 ++ nm ++ p1) = false).
  { apply in_str_app3; [apply blanks_in_str; [reflexivity|exact Hp0]|exact Hcol|apply blanks_in_str; [reflexivity|exact Hp1]]. }
  assert (HNd : in_str 46 (p0 ++ nm ++ p1) = false).
  { apply in_str_app3; [apply blanks_in_str; [reflexivity|exact Hp0]|exact Hdot|apply blanks_in_str; [reflexivity|exact Hp1]]. }
  assert (HV : forallb (cmatch CAny) (p4 ++ v ++ p5) = true).
  { apply forallb_app3; [apply blanks_any; exact Hp4|apply nonl_any; exact Hvn|apply blanks_any; exact Hp5]. }
  unfold read_header_line. rewrite (cp_missing_period _ ic ip).
  - destruct (mp_run _ _ HNc HV) as [q Hq].
    assert (Hfm : first_match (if ip then [mp_lit; mp_lit] else [mp_lit])
                    ((p0 ++ nm ++ p1) ++ 58 :: p4 ++ v ++ p5) = Some (mkst q [] [(2%nat, p4 ++ v ++ p5); (0%nat, p0 ++ nm ++ p1)])).
    { destruct ip; cbn [first_match]; rewrite Hq; reflexivity. }
    rewrite Hfm. cbn [caps group_opt Nat.eqb]. rewrite !strip_pad by assumption. reflexivity.
  - apply in_str_mid.
  - rewrite (before_first _ _ HNc). exact HNd.
  - exact Hdd.
Qed.

(* ---------- the statements of Props/C04.v -------------------------------------------- *)
Lemma is_nil_false (x : list N) : negb (is_nil x) = true -> x <> [].
Proof. destruct x; [discriminate|]. intros _. discriminate. Qed.

Ltac split_bools :=
  repeat match goal with
         | H : _ && _ = true |- _ => apply andb_true_iff in H; destruct H
         end;
  repeat match goal with
         | H : negb (is_nil _) = true |- _ => apply is_nil_false in H
         | H : negb _ = true |- _ => apply negb_true_iff in H
         end.

(* the section-dependent side conditions as a proposition *)
Lemma sect_ok_prop ic ip line U v p3 p4 d :
  sect_ok ic ip line U v p3 p4 d = true ->
  (ic = true -> curves_plain line = true) /\
  (if ip return Prop
   then clock_colons v = true /\
        ((p3 <> [] /\ p4 <> []) \/ (in_str 58 U = false /\ in_str 58 d = false))
   else in_str 58 d = false).
Proof.
  unfold sect_ok. intros H. apply andb_true_iff in H as [H1 H2]. split.
  - intros ->. cbn [negb orb] in H1. exact H1.
  - destruct ip.
    + apply andb_true_iff in H2 as [Hcc H2]. split; [exact Hcc|].
      apply orb_true_iff in H2 as [H2|H2]; apply andb_true_iff in H2 as [Ha Hb].
      * left. split; apply is_nil_false; assumption.
      * right. split; apply negb_true_iff; assumption.
    + apply negb_true_iff in H2. exact H2.
Qed.

Theorem parse_all : forall (p0 mn p1 u p2 v p3 p4 d p5 : list N) (is_curves is_param : bool),
  padding6 p0 p1 p2 p3 p4 p5 = true ->
  conf_mnem mn = true -> conf_unit u = true -> conf_text v = true -> conf_text d = true ->
  value_set_off p2 v = true ->
  sect_ok is_curves is_param (layout p0 mn p1 u p2 v p3 p4 d p5) u v p3 p4 d = true ->
  read_header_line (layout p0 mn p1 u p2 v p3 p4 d p5) is_curves is_param = Some (mkhl mn u v d).
Proof.
  intros p0 mn p1 u p2 v p3 p4 d p5 ic ip Hp Hm Hu Hv Hd Hso Hs.
  apply sect_ok_prop in Hs as [Hdd Hsec].
  unfold padding6, conf_mnem, conf_unit, conf_text, value_set_off in *. split_bools.
  rewrite (rhl_layout p0 mn p1 u p2 v p3 p4 d p5); try assumption.
  - rewrite fix_unit_id; [reflexivity|apply no_space_stripped; assumption|assumption].
  - apply unit_word_plain; try assumption. apply head_space_value; assumption.
Qed.

Theorem numeric_unit_all :
  forall (p0 mn p1 ds : list N) (sp : N) (w p2 v p3 p4 d p5 : list N) (is_curves is_param : bool),
  padding6 p0 p1 p2 p3 p4 p5 = true ->
  conf_mnem mn = true -> conf_numeric_unit ds sp w = true ->
  conf_text v = true -> conf_text d = true -> value_set_off p2 v = true ->
  sect_ok is_curves is_param (layout p0 mn p1 (ds ++ [sp] ++ w) p2 v p3 p4 d p5)
          (ds ++ [sp] ++ w) v p3 p4 d = true ->
  read_header_line (layout p0 mn p1 (ds ++ [sp] ++ w) p2 v p3 p4 d p5) is_curves is_param
  = Some (mkhl mn (ds ++ [sp] ++ w) v d).
Proof.
  intros p0 mn p1 ds sp w p2 v p3 p4 d p5 ic ip Hp Hm Hu Hv Hd Hso Hs.
  apply sect_ok_prop in Hs as [Hdd Hsec].
  unfold padding6, conf_mnem, conf_numeric_unit, conf_text, value_set_off in *. split_bools.
  rewrite (rhl_layout p0 mn p1 (ds ++ [sp] ++ w) p2 v p3 p4 d p5); try assumption.
  - rewrite fix_unit_id; [reflexivity|apply stripped_num; assumption|].
    rewrite app_assoc. rewrite endswith_app_ne by assumption. assumption.
  - apply unit_word_num; try assumption; [apply blank_space; assumption|apply head_space_value; assumption].
Qed.

(* the named special cases *)
Theorem main_parse : forall p0 mn p1 u p2 v p3 p4 d p5 : list N,
  padding6 p0 p1 p2 p3 p4 p5 = true ->
  conf_mnem mn = true -> conf_unit u = true -> conf_text v = true -> conf_text d = true ->
  value_set_off p2 v = true ->
  in_str 58 d = false ->
  read_header_line (layout p0 mn p1 u p2 v p3 p4 d p5) false false = Some (mkhl mn u v d).
Proof.
  intros p0 mn p1 u p2 v p3 p4 d p5 Hp Hm Hu Hv Hd Hso Hdc.
  apply parse_all; try assumption. unfold sect_ok. rewrite Hdc. reflexivity.
Qed.

Theorem curves_parse : forall p0 mn p1 u p2 v p3 p4 d p5 : list N,
  padding6 p0 p1 p2 p3 p4 p5 = true ->
  conf_mnem mn = true -> conf_unit u = true -> conf_text v = true -> conf_text d = true ->
  value_set_off p2 v = true ->
  in_str 58 d = false ->
  no_double_dot (layout p0 mn p1 u p2 v p3 p4 d p5) = true ->
  read_header_line (layout p0 mn p1 u p2 v p3 p4 d p5) true false = Some (mkhl mn u v d).
Proof.
  intros p0 mn p1 u p2 v p3 p4 d p5 Hp Hm Hu Hv Hd Hso Hdc Hdd.
  apply parse_all; try assumption. unfold sect_ok. rewrite Hdc, (no_double_dot_plain _ Hdd). reflexivity.
Qed.

Theorem missing_period : forall (p0 nm p1 p4 v p5 : list N) (is_curves is_param : bool),
  blanks p0 && blanks p1 && blanks p4 && blanks p5 = true ->
  conf_name_np nm = true -> conf_text v = true ->
  (is_curves = true -> curves_plain (layout_np p0 nm p1 p4 v p5) = true) ->
  read_header_line (layout_np p0 nm p1 p4 v p5) is_curves is_param = Some (mkhl nm [] v []).
Proof.
  intros p0 nm p1 p4 v p5 ic ip Hp Hn Hv Hdd.
  unfold conf_name_np, conf_text in *. split_bools.
  apply rhl_missing_period; assumption.
Qed.

Theorem param_time : forall (p0 mn p1 u p2 v p3 p4 d p5 : list N) (is_curves : bool),
  padding6 p0 p1 p2 p3 p4 p5 = true ->
  conf_mnem mn = true -> conf_unit u = true -> conf_text v = true -> conf_text d = true ->
  value_set_off p2 v = true ->
  clock_colons v = true ->
  negb (is_nil p3) && negb (is_nil p4) = true ->
  (is_curves = true -> curves_plain (layout p0 mn p1 u p2 v p3 p4 d p5) = true) ->
  read_header_line (layout p0 mn p1 u p2 v p3 p4 d p5) is_curves true = Some (mkhl mn u v d).
Proof.
  intros p0 mn p1 u p2 v p3 p4 d p5 ic Hp Hm Hu Hv Hd Hso Hcc Hne Hdd.
  apply parse_all; try assumption. unfold sect_ok. rewrite Hcc, Hne. cbn [andb orb].
  rewrite andb_true_r. destruct ic; [|reflexivity]. rewrite (Hdd eq_refl). reflexivity.
Qed.

Theorem param_parse : forall (p0 mn p1 u p2 v p3 p4 d p5 : list N) (is_curves : bool),
  padding6 p0 p1 p2 p3 p4 p5 = true ->
  conf_mnem mn = true -> conf_unit u = true -> conf_text v = true -> conf_text d = true ->
  value_set_off p2 v = true ->
  clock_colons v = true -> in_str 58 u = false -> in_str 58 d = false ->
  (is_curves = true -> curves_plain (layout p0 mn p1 u p2 v p3 p4 d p5) = true) ->
  read_header_line (layout p0 mn p1 u p2 v p3 p4 d p5) is_curves true = Some (mkhl mn u v d).
Proof.
  intros p0 mn p1 u p2 v p3 p4 d p5 ic Hp Hm Hu Hv Hd Hso Hcc Huc Hdc Hdd.
  apply parse_all; try assumption. unfold sect_ok. rewrite Hcc, Huc, Hdc. cbn [negb andb orb].
  rewrite orb_true_r, andb_true_r. destruct ic; [|reflexivity]. rewrite (Hdd eq_refl). reflexivity.
Qed.

(* ---------- units made of digits only ------------------------------------------------ *)
Lemma all_digit_no_space u : all_digit u = true -> no_space u = true.
Proof.
  induction u as [|c u IH]; [reflexivity|]. cbn [all_digit no_space forallb]. intros H.
  apply andb_true_iff in H as [Hc H]. rewrite (digit_not_space c Hc). cbn [negb andb]. apply IH. exact H.
Qed.

Lemma all_digit_no_colon u : all_digit u = true -> in_str 58 u = false.
Proof.
  induction u as [|c u IH]; [reflexivity|]. cbn [all_digit forallb]. intros H.
  apply andb_true_iff in H as [Hc H]. rewrite in_str_cons, (IH H).
  unfold is_digit in Hc. assert (E : (58 =? c) = false) by lia. rewrite E. reflexivity.
Qed.

Lemma all_digit_no_dot_end u : all_digit u = true -> endswith [46] u = false.
Proof.
  intros H. unfold endswith. cbn [rev app].
  assert (Hr : forallb is_digit (rev u) = true) by (rewrite forallb_rev; exact H).
  destruct (rev u) as [|x r]; [reflexivity|]. cbn [startswith]. cbn [forallb] in Hr.
  apply andb_true_iff in Hr as [Hx _]. unfold is_digit in Hx.
  assert (E : (46 =? x) = false) by lia. rewrite E. reflexivity.
Qed.

Lemma fix_unit_digit_sp u sp : all_digit u = true -> is_blank sp = true -> fix_unit (u ++ [sp]) = u.
Proof.
  intros Hu Hsp. unfold fix_unit.
  assert (E : strip (u ++ [sp]) = u).
  { change (u ++ [sp]) with ([] ++ u ++ [sp]). apply strip_pad; [reflexivity| |].
    - cbn [blanks forallb]. rewrite Hsp. reflexivity.
    - apply no_space_stripped. apply all_digit_no_space. exact Hu. }
  rewrite E. change (endswith [ch_dot] u) with (endswith [46] u).
  rewrite (all_digit_no_dot_end u Hu). reflexivity.
Qed.

Lemma layout_shift_p2 (p0 mn p1 u : list N) sp (p2 v p3 p4 d p5 : list N) :
  layout p0 mn p1 u (sp :: p2) v p3 p4 d p5 = layout p0 mn p1 (u ++ [sp]) p2 v p3 p4 d p5.
Proof. unfold layout. cbn [app]. rewrite <- app_assoc. reflexivity. Qed.

Lemma layout_shift_p3 (p0 mn p1 u : list N) sp (p3 p4 d p5 : list N) :
  layout p0 mn p1 u [] [] (sp :: p3) p4 d p5 = layout p0 mn p1 (u ++ [sp]) [] [] p3 p4 d p5.
Proof. unfold layout. cbn [app]. rewrite <- app_assoc. reflexivity. Qed.

Theorem digit_unit : forall (p0 mn p1 u p2 v p3 p4 d p5 : list N) (is_curves is_param : bool),
  padding6 p0 p1 p2 p3 p4 p5 = true ->
  conf_mnem mn = true -> conf_digit_unit u p2 v = true ->
  conf_text v = true -> conf_text d = true -> value_set_off p2 v = true ->
  sect_ok_plain is_curves is_param (layout p0 mn p1 u p2 v p3 p4 d p5) v d = true ->
  read_header_line (layout p0 mn p1 u p2 v p3 p4 d p5) is_curves is_param = Some (mkhl mn u v d).
Proof.
  intros p0 mn p1 u p2 v p3 p4 d p5 ic ip Hp Hm Hu Hv Hd Hso Hs.
  unfold sect_ok_plain in Hs. apply andb_true_iff in Hs as [Hs Hcc]. apply andb_true_iff in Hs as [Hcur Hdc].
  apply negb_true_iff in Hdc.
  assert (Hdd : ic = true -> curves_plain (layout p0 mn p1 u p2 v p3 p4 d p5) = true).
  { intros ->. exact Hcur. }
  assert (Hsec : forall U p3' p4' : list N, in_str 58 U = false ->
            if ip return Prop
            then clock_colons v = true /\
                 ((p3' <> [] /\ p4' <> []) \/ (in_str 58 U = false /\ in_str 58 d = false))
            else in_str 58 d = false).
  { intros U p3' p4' HU. destruct ip; [|exact Hdc]. split; [exact Hcc|]. right. split; assumption. }
  clear Hcur Hcc.
  unfold padding6, conf_mnem, conf_digit_unit, conf_text, value_set_off in *. split_bools.
  pose proof (all_digit_no_colon u ltac:(assumption)) as Huc.
  destruct p2 as [|sp p2'].
  - destruct v as [|v0 v]; [|discriminate]. destruct p3 as [|sp p3'].
    + rewrite (rhl_layout p0 mn p1 u [] [] [] p4 d p5); try assumption.
      * rewrite fix_unit_id; [reflexivity|apply no_space_stripped; apply all_digit_no_space; assumption|
                              apply all_digit_no_dot_end; assumption].
      * cbn [app]. apply unit_splits_tight. apply all_digit_no_space. assumption.
      * apply Hsec. exact Huc.
    + rewrite layout_shift_p3 in Hdd |- *.
      match goal with H : blanks (sp :: p3') = true |- _ =>
        cbn [blanks forallb] in H; apply andb_true_iff in H; destruct H as [Hsp Hp3'] end.
      rewrite (rhl_layout p0 mn p1 (u ++ [sp]) [] [] p3' p4 d p5); try assumption.
      * rewrite fix_unit_digit_sp by assumption. reflexivity.
      * apply (unit_word_num u sp []); try assumption; try reflexivity; [apply blank_space; exact Hsp|].
        apply head_space_value; [reflexivity|exact Hp3'|reflexivity].
      * apply Hsec. rewrite in_str_app, Huc, in_str_cons, (blank_not sp 58 eq_refl Hsp). reflexivity.
  - rewrite layout_shift_p2 in Hdd |- *.
    match goal with H : blanks (sp :: p2') = true |- _ =>
      cbn [blanks forallb] in H; apply andb_true_iff in H; destruct H as [Hsp Hp2'] end.
    assert (Hsep : is_nil v || negb (is_nil p2') = true).
    { destruct v as [|v0 v]; [reflexivity|]. destruct p2'; [discriminate|reflexivity]. }
    rewrite (rhl_layout p0 mn p1 (u ++ [sp]) p2' v p3 p4 d p5); try assumption.
    + rewrite fix_unit_digit_sp by assumption. reflexivity.
    + apply (unit_word_num u sp []); try assumption; try reflexivity; [apply blank_space; exact Hsp|].
      apply head_space_value; assumption.
    + apply Hsec. rewrite in_str_app, Huc, in_str_cons, (blank_not sp 58 eq_refl Hsp). reflexivity.
Qed.

(* ---------- the clock-time sweep ----------------------------------------------------- *)
Lemma str_eqb_eq : forall a b, str_eqb a b = true -> a = b.
Proof.
  induction a as [|x a IH]; destruct b as [|y b]; cbn [str_eqb]; try discriminate; [reflexivity|].
  intros H. apply andb_true_iff in H as [Hx H]. apply N.eqb_eq in Hx. rewrite Hx, (IH b H). reflexivity.
Qed.

Lemma ohline_eqb_eq a b : ohline_eqb a b = true -> a = b.
Proof.
  destruct a as [[a1 a2 a3 a4]|], b as [[b1 b2 b3 b4]|]; cbn; try discriminate; [|reflexivity].
  unfold hline_eqb. cbn. intros H. split_bools.
  repeat match goal with H : str_eqb _ _ = true |- _ => apply str_eqb_eq in H end.
  subst. reflexivity.
Qed.

Lemma time_sweep_bool :
  forallb (fun h => forallb (fun mi =>
     ohline_eqb (read_header_line (time_line h mi) false true) (Some (time_expected h mi)))
     (seq 0 60)) (seq 0 24) = true.
Proof. vm_compute. reflexivity. Qed.

Theorem time_sweep : forall h mi : nat, (h < 24)%nat -> (mi < 60)%nat ->
  read_header_line (time_line h mi) false true = Some (time_expected h mi).
Proof.
  intros h mi Hh Hmi. pose proof time_sweep_bool as H. rewrite forallb_forall in H.
  assert (Hin : In h (seq 0 24)) by (apply in_seq; lia). specialize (H h Hin).
  rewrite forallb_forall in H. assert (Hin' : In mi (seq 0 60)) by (apply in_seq; lia).
  apply ohline_eqb_eq. exact (H mi Hin').
Qed.
