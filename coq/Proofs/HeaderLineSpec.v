(* Proofs.HeaderLineSpec — the vocabulary of the C04 statements, written from the property
   text ("arbitrary blanks or tabs around each field", "surrounding whitespace stripped",
   conformant field contents).  Definitions only. *)
From Coq Require Import List NArith Bool String.
Import ListNotations.
Require Import PyStr Regex Regexes HeaderLine.
Open Scope N_scope.

(* padding characters: blank or tab *)
Definition is_blank (c : N) : bool := (c =? 32) || (c =? 9).
Definition blanks (p : list N) : bool := forallb is_blank p.

(* no white-space character at all (str.isspace per code point) *)
Definition no_space (s : list N) : bool := forallb (fun c => negb (is_space c)) s.

(* s == s.strip(): empty, or first and last characters are not white space *)
Definition stripped (x : list N) : bool :=
  match x with
  | [] => true
  | c :: _ => negb (is_space c) && negb (is_space (last x 0))
  end.

(* entirely ASCII digits *)
Definition all_digit (s : list N) : bool := forallb is_digit s.

Definition is_nil (s : list N) : bool := match s with [] => true | _ => false end.

(* two decimal digits of n < 100 *)
Definition two_digits (n : nat) : list N :=
  [48 + N.of_nat (Nat.div n 10); 48 + N.of_nat (Nat.modulo n 10)].

(* ---- ~Parameter: clock-time colons.  The look-around alternatives are read off the
   generated AST of value_with_time_colon_re, so the predicates below follow the source. *)
Definition time_behind_alts : list (list cls) :=
  match rx_value_with_time_colon_re with
  | Seq _ (Seq (NotBehind b) _) => b
  | _ => []
  end.
Definition time_ahead_alts : list (list cls) :=
  match rx_value_with_time_colon_re with
  | Seq _ (Seq _ (Seq _ (NotAhead a))) => a
  | _ => []
  end.

(* a colon followed by s is not a separator: s starts with [0-5][0-9], mm or MM *)
Definition ahead_blocked (s : list N) : bool :=
  existsb (fun ks => prefix_cls ks s) time_ahead_alts.
(* a colon preceded by (reversed) p is not a separator: " [0-2][0-3]", " hh", " HH" *)
Definition behind_blocked (p : list N) : bool :=
  existsb (fun ks => prefix_cls (rev ks) p) time_behind_alts.

(* every colon of s is a clock colon: followed, inside s, by minutes/seconds digits
   [0-5][0-9] (or the format letters mm / MM) *)
Fixpoint clock_colons (s : list N) : bool :=
  match s with
  | [] => true
  | c :: s' => (negb (c =? 58) || ahead_blocked s') && clock_colons s'
  end.

(* no colon of the line s (p = reversed text to the left) can act as ~Parameter separator *)
Fixpoint no_eligible_colon (p s : list N) : bool :=
  match s with
  | [] => true
  | c :: s' => (negb (c =? 58) || behind_blocked p || ahead_blocked s')
               && no_eligible_colon (c :: p) s'
  end.

(* ---- the layouts and the conformance predicates of the statements ---------------------- *)
(* MNEM .UNIT  VALUE : DESCRIPTION with six paddings *)
Definition layout (p0 mn p1 u p2 v p3 p4 d p5 : list N) : list N :=
  p0 ++ mn ++ p1 ++ [46] ++ u ++ p2 ++ v ++ p3 ++ [58] ++ p4 ++ d ++ p5.
(* NAME : VALUE (no period) with four paddings *)
Definition layout_np (p0 nm p1 p4 v p5 : list N) : list N :=
  p0 ++ nm ++ p1 ++ [58] ++ p4 ++ v ++ p5.

Definition padding6 (p0 p1 p2 p3 p4 p5 : list N) : bool :=
  blanks p0 && blanks p1 && blanks p2 && blanks p3 && blanks p4 && blanks p5.

(* mnemonic: non-empty, no '.', no ':', no leading/trailing white space (inner blanks allowed) *)
Definition conf_mnem (mn : list N) : bool :=
  negb (is_nil mn) && negb (in_str 46 mn) && negb (in_str 58 mn) && stripped mn.

(* unit: no white space, does not end with '.', not entirely digits unless empty
   (interior dots and colons allowed) *)
Definition conf_unit (u : list N) : bool :=
  no_space u && negb (endswith [46] u) && (is_nil u || negb (all_digit u)).

(* value / description text: stripped, no newline *)
Definition conf_text (x : list N) : bool := stripped x && negb (in_str 10 x).

(* the grammar cannot tell unit from value unless a blank separates them *)
Definition value_set_off (p2 v : list N) : bool := is_nil v || negb (is_nil p2).

(* the name of a line without a period: no '.', no ':', stripped *)
Definition conf_name_np (nm : list N) : bool :=
  negb (in_str 46 nm) && negb (in_str 58 nm) && stripped nm.

(* "1000 lbf": non-empty digits, one blank or tab, a non-empty white-space-free word not
   ending with '.' *)
Definition conf_numeric_unit (ds : list N) (sp : N) (w : list N) : bool :=
  negb (is_nil ds) && all_digit ds && is_blank sp && negb (is_nil w) && no_space w
  && negb (endswith [46] w).

Definition no_double_dot (line : list N) : bool := negb (contains [46; 46] line).

(* ~Curves: the mnemonic-with-dots special case is not triggered: no non-blank character is
   followed by "..", or the first ".." is not before the last colon (it is in the description) *)
Definition curves_plain (line : list N) : bool :=
  negb (re_search rx_double_dot_search line
        && lt_opt (find [46; 46] line) (rfind_char 58 line)).

(* section-dependent side conditions.  ~Curves: curves_plain (e.g. no ".." in the line).  Outside ~Parameter the
   description has no colon (the LAST colon separates).  In ~Parameter every colon of the
   value is a clock colon and either the separating colon is set off by a blank on both
   sides (then the description may contain colons) or unit and description are colon-free. *)
Definition sect_ok (is_curves is_param : bool) (line u v p3 p4 d : list N) : bool :=
  (negb is_curves || curves_plain line) &&
  (if is_param
   then clock_colons v && ((negb (is_nil p3) && negb (is_nil p4))
                           || (negb (in_str 58 u) && negb (in_str 58 d)))
   else negb (in_str 58 d)).

(* side conditions for units made of digits only: description colon-free in every section *)
Definition sect_ok_plain (is_curves is_param : bool) (line v d : list N) : bool :=
  (negb is_curves || curves_plain line) && negb (in_str 58 d) && (negb is_param || clock_colons v).

(* a unit made of digits only is told from "1000 lbf" by an empty value or two blanks *)
Definition conf_digit_unit (u p2 v : list N) : bool :=
  negb (is_nil u) && all_digit u && (is_nil v || Nat.leb 2 (List.length p2)).

Definition hline_eqb (a b : hline) : bool :=
  str_eqb (h_name a) (h_name b) && str_eqb (h_unit a) (h_unit b)
  && str_eqb (h_value a) (h_value b) && str_eqb (h_descr a) (h_descr b).
Definition ohline_eqb (a b : option hline) : bool :=
  match a, b with
  | Some x, Some y => hline_eqb x y
  | None, None => true
  | _, _ => false
  end.

(* ---- the clock-time sweep: TIME.  hh:mm 23-JAN-2001 : Time: At Bottom ------------------ *)
Open Scope string_scope.
Definition time_line (h mi : nat) : list N :=
  s2l "TIME.  " ++ two_digits h ++ [58] ++ two_digits mi ++ s2l " 23-JAN-2001 : Time: At Bottom".
Definition time_expected (h mi : nat) : hline :=
  mkhl (s2l "TIME") [] (two_digits h ++ [58] ++ two_digits mi ++ s2l " 23-JAN-2001")
       (s2l "Time: At Bottom").
Close Scope string_scope.

(* paddings used by the non-vacuity examples of Props/C04.v *)
Definition ex_p0 : list N := [32; 9].
Definition ex_p1 : list N := [32].
Definition ex_p2 : list N := [9; 32].
Definition ex_p3 : list N := [32; 32].
Definition ex_p4 : list N := [32].
Definition ex_p5 : list N := [9].
