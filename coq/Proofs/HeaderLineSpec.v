(* Proofs.HeaderLineSpec — the vocabulary of the C04 statements, written from the property
   text ("arbitrary blanks or tabs around each field", "surrounding whitespace stripped",
   conformant field contents).  Definitions only. *)
From Coq Require Import List NArith Bool.
Import ListNotations.
Require Import PyStr Regex.
Open Scope N_scope.

(* padding characters: blank or tab *)
Definition is_blank (c : N) : bool := (c =? 32) || (c =? 9).
Definition blanks (p : list N) : bool := forallb is_blank p.

(* no white-space character at all (str.isspace per code point) *)
Definition no_space (s : list N) : bool := forallb (fun c => negb (is_space c)) s.

(* s == s.strip(): empty, or first and last characters are not white space *)
Definition stripped (x : list N) : bool :=
  match x with
  | [] => true
  | c :: _ => negb (is_space c) && negb (is_space (last x 0))
  end.

(* character c does not occur in s *)
Definition lacks (c : N) (s : list N) : bool := negb (in_str c s).

(* entirely ASCII digits *)
Definition all_digit (s : list N) : bool := forallb is_digit s.

Definition is_nil (s : list N) : bool := match s with [] => true | _ => false end.

(* two decimal digits of n < 100 *)
Definition two_digits (n : nat) : list N :=
  [48 + N.of_nat (Nat.div n 10); 48 + N.of_nat (Nat.modulo n 10)].
