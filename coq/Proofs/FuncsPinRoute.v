(* Proofs.FuncsPinRoute — Model/Read.route IS the section-letter routing chain of LASFile.read
   (Gen/Funcs.v: py_route_key, the key under which the chain stores the section).
   Restated as C05_route_current. *)
From Coq Require Import List Arith NArith ZArith Bool Lia ZifyBool ZifyN ZifyNat String.
Import ListNotations.
Require Import PyStr Regex Regexes Funcs Num HeaderLine SectionParse Sections Read FuncsPinsLib.
Open Scope list_scope.
Open Scope N_scope.

(* ---------- the section-letter routing chain of LASFile.read ----------------------------------- *)
(* self.sections[key] = sct_items, on the record the model keeps for self.sections *)
Definition store_section (key : list N) (sec : section) (l : las) : las :=
  if str_eqb key name_Curves then
    mklas (l_version l) (l_well l) sec (l_params l) (l_other l) (l_custom l) (l_data l) (l_engine_numpy l)
  else if str_eqb key name_Parameter then
    mklas (l_version l) (l_well l) (l_curves l) sec (l_other l) (l_custom l) (l_data l) (l_engine_numpy l)
  else if str_eqb key name_Version then
    mklas sec (l_well l) (l_curves l) (l_params l) (l_other l) (l_custom l) (l_data l) (l_engine_numpy l)
  else if str_eqb key name_Well then
    mklas (l_version l) sec (l_curves l) (l_params l) (l_other l) (l_custom l) (l_data l) (l_engine_numpy l)
  else
    mklas (l_version l) (l_well l) (l_curves l) (l_params l) (l_other l)
          (set_custom key (CItems sec) (l_custom l)) (l_data l) (l_engine_numpy l).

Lemma pyo_item_second a b (r : list N) : pyo_item (a :: b :: r) 1%Z = Some [b].
Proof.
  unfold pyo_item. cbn [Z.ltb Z.compare List.length].
  destruct ((0 <=? 1) && (1 <? Z.of_nat (S (S (List.length r)))))%Z eqn:E; [reflexivity|lia].
Qed.

Lemma pyo_slice_from1 a (s : list N) : pyo_slice (Some 1%Z) None (a :: s) = s.
Proof.
  unfold pyo_slice, pyo_bound. cbn [Z.ltb Z.compare List.length].
  replace (Nat.min (Z.to_nat 1) (S (List.length s))) with 1%nat by lia.
  cbn [skipn]. replace (S (List.length s) - 1)%nat with (List.length s) by lia. apply firstn_all.
Qed.

(* Titles start with '~' (find_sections keeps only such lines).  The third test of the chain
   (provisional_version == 3.0 and las3_section) is false wherever the model calls route: LAS 3.0
   sections are outside the model (step_section answers EUnsupported before routing).
   version_is_3 is `provisional_version == 3.0` (Model/Read.is_v30 of the provisional version after the
   steering update): only then a title with an underscore is not the ~C / ~P section.
   None on both sides: the title is "~" alone, section_title[1] raises IndexError. *)
Theorem route_pin : forall title sec l version_is_3,
  startswith [ch_tilde] title = true ->
  option_map (fun letter => route version_is_3 title letter sec l) (second_upper title)
  = option_map (fun key => store_section key sec l) (py_route_key title version_is_3 false).
Proof.
  intros title sec l v3 Ht. destruct title as [|t0 [|c r]]; [discriminate Ht|reflexivity|].
  cbn [startswith] in Ht. rewrite andb_true_r in Ht. apply N.eqb_eq in Ht. unfold ch_tilde in Ht. subst t0.
  unfold py_route_key, second_upper, route. rewrite pyo_item_second, pyo_slice_from1.
  cbn [obind option_map pyo_upper map str_eqb tl]. unfold pyo_in, ch_us. cbv zeta. rewrite !andb_true_r, !contains_single, !(andb_comm v3).
  let x := eval compute in (s2l "~Log_Definition") in change (s2l "~Log_Definition") with x.
  let x := eval compute in (s2l "~Log_Parameter") in change (s2l "~Log_Parameter") with x.
  destruct (str_eqb (c :: r) name_Curves) eqn:EC; [apply str_eqb_true in EC; injection EC as -> ->; reflexivity|].
  destruct (str_eqb (c :: r) name_Parameter) eqn:EP; [apply str_eqb_true in EP; injection EP as -> ->; reflexivity|].
  destruct (str_eqb (c :: r) name_Version) eqn:EV; [apply str_eqb_true in EV; injection EV as -> ->; reflexivity|].
  destruct (str_eqb (c :: r) name_Well) eqn:EW; [apply str_eqb_true in EW; injection EW as -> ->; reflexivity|].
  assert (Hst : store_section (c :: r) sec l =
                mklas (l_version l) (l_well l) (l_curves l) (l_params l) (l_other l)
                      (set_custom (c :: r) (CItems sec) (l_custom l)) (l_data l) (l_engine_numpy l))
    by (unfold store_section; rewrite EC, EP, EV, EW; reflexivity).
  cbv zeta. destruct v3; destruct (ascii_upper c =? 67); destruct (in_str 95 (126 :: c :: r));
    destruct (contains [126; 76; 111; 103; 95; 68; 101; 102; 105; 110; 105; 116; 105; 111; 110] (126 :: c :: r));
    destruct (ascii_upper c =? 80);
    destruct (contains [126; 76; 111; 103; 95; 80; 97; 114; 97; 109; 101; 116; 101; 114] (126 :: c :: r));
    destruct (ascii_upper c =? 86); destruct (ascii_upper c =? 87);
    cbn [andb orb negb option_map]; rewrite ?Hst; reflexivity.
Qed.
