(* Proofs.JunkSteering — an item whose (case-compared) name is none of VERS / WRAP / DLM / NULL
   never changes what the reader finds under those keys (C19, steering frame):
   sect_find key depends only on the items of the key's own name class, the duplicate-suffix
   rule never moves an item into or out of a class, and it numbers a class by looking at that
   class alone.  Hence update_steering is the same with and without junk lines, and the data
   sections are read with the same parameters. *)
From Coq Require Import List Arith NArith Bool Lia ZifyBool ZifyN ZifyNat String.
Import ListNotations.
Require Import PyStr Regex NumLit Num HeaderLine Tables SectionParse Sections DataRead Read.
Require Import RegexSubFacts StripFacts ItemsBindProofs JunkProofs.
Open Scope string_scope.
Open Scope list_scope.
Open Scope N_scope.

(* ---- mn_compare is an equivalence ---------------------------------------------------- *)
Lemma jk_str_eqb_eq : forall a b : list N, str_eqb a b = true <-> a = b.
Proof.
  induction a as [|x a IH]; destruct b as [|y b]; cbn [str_eqb]; split; intros H; try reflexivity; try discriminate.
  - apply andb_true_iff in H as [H1 H2]. apply N.eqb_eq in H1. apply IH in H2. congruence.
  - injection H as -> ->. rewrite N.eqb_refl. apply IH. reflexivity.
Qed.

Section Steer.
Variable tr : bool.

Definition nm (a : list N) : list N := if tr then upper a else a.
Lemma mnc_nm a b : mn_compare tr a b = str_eqb (nm a) (nm b).
Proof. unfold mn_compare, nm. destruct tr; reflexivity. Qed.

Lemma mnc_true a b : mn_compare tr a b = true <-> nm a = nm b.
Proof. rewrite mnc_nm. apply jk_str_eqb_eq. Qed.

Lemma mnc_refl a : mn_compare tr a a = true.
Proof. apply mnc_true. reflexivity. Qed.

(* names in the same class compare alike with everything *)
Lemma mnc_class a b key : mn_compare tr a b = true -> mn_compare tr a key = mn_compare tr b key.
Proof. intros H. apply mnc_true in H. rewrite !mnc_nm, H. reflexivity. Qed.

(* ---- session mnemonics as the reader produces them ------------------------------------ *)
Definition sess_wf (x : hitem) : Prop :=
  i_sess x = useful (i_orig x) \/ exists n, i_sess x = useful (i_orig x) ++ ch_colon :: nat_to_str n.

Lemma ascii_upper_colon ch : ascii_upper ch = 58 -> ch = 58.
Proof. unfold ascii_upper. destruct ((97 <=? ch) && (ch <=? 122)) eqn:E; lia. Qed.

Lemma in_str_upper_colon : forall s, in_str 58 (upper s) = true -> in_str 58 s = true.
Proof.
  induction s as [|ch s IH]; [discriminate|]. unfold in_str, upper in *. cbn [map existsb].
  intros H. apply orb_true_iff in H as [H|H].
  - apply N.eqb_eq in H. symmetry in H. apply ascii_upper_colon in H. subst ch. reflexivity.
  - rewrite (IH H). apply orb_true_r.
Qed.

Lemma in_str_nm_colon s : in_str 58 (nm s) = true -> in_str 58 s = true.
Proof. unfold nm. destruct tr; [apply in_str_upper_colon|auto]. Qed.

Lemma nm_app a b : nm (a ++ b) = nm a ++ nm b.
Proof. unfold nm, upper. destruct tr; [apply map_app|reflexivity]. Qed.

Lemma nm_colon_cons s : nm (ch_colon :: s) = ch_colon :: nm s.
Proof. unfold nm, upper. destruct tr; reflexivity. Qed.

(* a suffixed session mnemonic never matches a key without a colon *)
Lemma suffixed_no_match u s key :
  in_str ch_colon key = false -> mn_compare tr (u ++ ch_colon :: s) key = false.
Proof.
  intros Hk. destruct (mn_compare tr (u ++ ch_colon :: s) key) eqn:E; [|reflexivity].
  apply mnc_true in E. rewrite nm_app, nm_colon_cons in E.
  assert (H : in_str 58 (nm key) = true).
  { rewrite <- E, in_str_app. unfold in_str at 2. cbn [existsb]. unfold ch_colon. rewrite N.eqb_refl.
    cbn [orb]. apply orb_true_r. }
  apply in_str_nm_colon in H. unfold ch_colon in Hk. congruence.
Qed.

Section Key.
Variable key : list N.
Hypothesis key_plain : in_str ch_colon key = false.

(* the name class of the key *)
Definition inclass (x : hitem) : bool := mn_compare tr (useful (i_orig x)) key.
Definition K (l : list hitem) : list hitem := filter inclass l.

Lemma sess_match_inclass x : sess_wf x -> mn_compare tr (i_sess x) key = true -> inclass x = true.
Proof.
  intros [E|(n & E)] H; rewrite E in H.
  - exact H.
  - rewrite suffixed_no_match in H by exact key_plain. discriminate.
Qed.

(* A: a lookup only ever sees the key's own class *)
Lemma sect_find_class : forall l, Forall sess_wf l -> sect_find tr key l = sect_find tr key (K l).
Proof.
  induction l as [|x l IH]; intros H; [reflexivity|]. inversion H as [|? ? Hx Hl]; subst.
  cbn [sect_find K filter]. fold (K l). destruct (mn_compare tr (i_sess x) key) eqn:E.
  - rewrite (sess_match_inclass x Hx E). cbn [sect_find]. rewrite E. reflexivity.
  - destruct (inclass x); [cbn [sect_find]; rewrite E|]; apply IH; exact Hl.
Qed.

(* B: the suffix rule and the classes *)
Lemma K_cons x l : K (x :: l) = if inclass x then x :: K l else K l.
Proof. reflexivity. Qed.
Lemma inclass_mk o s u vl d : inclass (mkitem o s u vl d) = mn_compare tr (useful o) key.
Proof. reflexivity. Qed.
Lemma inclass_of_match x T : mn_compare tr (useful (i_orig x)) T = true -> inclass x = mn_compare tr T key.
Proof. intros E. unfold inclass. apply mnc_class. exact E. Qed.

Lemma K_renumber_other T : mn_compare tr T key = false ->
  forall l n, K (renumber tr T n l) = K l.
Proof.
  intros HT. induction l as [|x l IH]; intros n; [reflexivity|]. cbn [renumber].
  destruct (mn_compare tr (useful (i_orig x)) T) eqn:E.
  - rewrite !K_cons, inclass_mk. fold (inclass x). rewrite (inclass_of_match x T E), HT. apply IH.
  - rewrite !K_cons, IH. reflexivity.
Qed.

Lemma K_renumber_same T : mn_compare tr T key = true ->
  forall l n, K (renumber tr T n l) = renumber tr T n (K l).
Proof.
  intros HT. induction l as [|x l IH]; intros n; [reflexivity|]. cbn [renumber].
  destruct (mn_compare tr (useful (i_orig x)) T) eqn:E.
  - rewrite !K_cons, inclass_mk. fold (inclass x). rewrite (inclass_of_match x T E), HT.
    cbn [renumber]. rewrite E, IH. reflexivity.
  - rewrite !K_cons, IH. destruct (inclass x); [|reflexivity].
    cbn [renumber]. rewrite E. reflexivity.
Qed.

Lemma count_matching_K T : mn_compare tr T key = true ->
  forall l, count_matching tr T (K l) = count_matching tr T l.
Proof.
  intros HT. unfold count_matching. induction l as [|x l IH]; [reflexivity|].
  rewrite K_cons. cbn [filter]. destruct (mn_compare tr (useful (i_orig x)) T) eqn:E.
  - rewrite (inclass_of_match x T E), HT. cbn [filter]. rewrite E. cbn [List.length]. rewrite IH. reflexivity.
  - destruct (inclass x); [cbn [filter]; rewrite E|]; exact IH.
Qed.

Lemma K_app a b : K (a ++ b) = K a ++ K b.
Proof. apply filter_app. Qed.

Lemma K_sect_append_other l x : inclass x = false -> K (sect_append tr l x) = K l.
Proof.
  intros Hx. unfold sect_append, assign_suffixes.
  assert (E : K (l ++ [x]) = K l).
  { rewrite K_app. cbn [K filter]. rewrite Hx. apply app_nil_r. }
  destruct (Nat.ltb 1 _); [|exact E]. rewrite K_renumber_other by exact Hx. exact E.
Qed.

Lemma K_sect_append_same l x : inclass x = true -> K (sect_append tr l x) = sect_append tr (K l) x.
Proof.
  intros Hx. unfold sect_append, assign_suffixes.
  assert (E : K (l ++ [x]) = K l ++ [x]).
  { rewrite K_app. cbn [K filter]. rewrite Hx. reflexivity. }
  rewrite <- E, (count_matching_K _ Hx). destruct (Nat.ltb 1 _); [|reflexivity].
  apply K_renumber_same. exact Hx.
Qed.

Lemma K_append_all : forall its acc,
  K (append_all tr acc its) = append_all tr (K acc) (filter inclass its).
Proof.
  unfold append_all. induction its as [|x its IH]; intros acc; cbn [fold_left filter]; [reflexivity|].
  rewrite IH. destruct (inclass x) eqn:Hx.
  - cbn [fold_left]. rewrite K_sect_append_same by exact Hx. reflexivity.
  - rewrite K_sect_append_other by exact Hx. reflexivity.
Qed.

End Key.

(* the suffix rule keeps session mnemonics well-formed *)
Lemma renumber_wf T : forall l n, Forall sess_wf l -> Forall sess_wf (renumber tr T n l).
Proof.
  induction l as [|x l IH]; intros n H; [constructor|]. inversion H as [|? ? Hx Hl]; subst.
  cbn [renumber]. destruct (mn_compare tr (useful (i_orig x)) T); constructor; try (apply IH; exact Hl).
  - right. exists n. reflexivity.
  - exact Hx.
Qed.

Lemma sect_append_wf l x : Forall sess_wf l -> sess_wf x -> Forall sess_wf (sect_append tr l x).
Proof.
  intros Hl Hx. unfold sect_append, assign_suffixes.
  assert (H : Forall sess_wf (l ++ [x])) by (apply Forall_app; split; [exact Hl|constructor; [exact Hx|constructor]]).
  destruct (Nat.ltb 1 _); [apply renumber_wf|]; exact H.
Qed.

Lemma append_all_wf : forall its acc, Forall sess_wf acc -> Forall sess_wf its ->
  Forall sess_wf (append_all tr acc its).
Proof.
  unfold append_all. induction its as [|x its IH]; intros acc Ha Hi; [exact Ha|].
  inversion Hi; subst. cbn [fold_left]. apply IH; [apply sect_append_wf|]; assumption.
Qed.

(* what a lookup finds after appending items depends on the appended items of the key's class only *)
Theorem sect_find_append_all key acc its its' :
  in_str ch_colon key = false ->
  Forall sess_wf acc -> Forall sess_wf its -> Forall sess_wf its' ->
  filter (inclass key) its = filter (inclass key) its' ->
  sect_find tr key (append_all tr acc its) = sect_find tr key (append_all tr acc its').
Proof.
  intros Hk Ha Hi Hi' E.
  rewrite (sect_find_class key Hk (append_all tr acc its)) by (apply append_all_wf; assumption).
  rewrite (sect_find_class key Hk (append_all tr acc its')) by (apply append_all_wf; assumption).
  rewrite !K_append_all, E. reflexivity.
Qed.

(* one appended item of another name *)
Corollary sect_find_sect_append_other key l x :
  in_str ch_colon key = false -> Forall sess_wf l -> sess_wf x ->
  mn_compare tr (useful (i_orig x)) key = false ->
  sect_find tr key (sect_append tr l x) = sect_find tr key l.
Proof.
  intros Hk Hl Hx Hn.
  apply (sect_find_append_all key l [x] [] Hk Hl); [constructor; [exact Hx|constructor]|constructor|].
  cbn [filter]. unfold inclass. rewrite Hn. reflexivity.
Qed.

End Steer.

(* ---- parsed items ---------------------------------------------------------------------- *)
Lemma build_item_sess v k h : i_sess (build_item v k h) = useful (i_orig (build_item v k h)).
Proof.
  unfold build_item. destruct k; try reflexivity;
    destruct (order_for v _ (h_name h)); reflexivity.
Qed.

Lemma parse_line_wf v k c line it : parse_line v k c line = Some it -> sess_wf it.
Proof.
  unfold parse_line. destruct (read_header_line line _ _) as [h|]; [|discriminate].
  intros E. injection E as <-. left. apply build_item_sess.
Qed.

Lemma scan_wf v k c cc ig : forall lines, Forall sess_wf (fst (scan v k c cc ig lines)).
Proof.
  induction lines as [|raw rest IH]; [constructor|]. cbn [scan].
  destruct (classify v k c cc raw) as [| |it|l] eqn:Ec.
  - exact IH.
  - constructor.
  - destruct (scan v k c cc ig rest) as [its e]. cbn [fst] in *. constructor; [|exact IH].
    destruct (classify_item v k c cc raw it Ec) as (_ & Hp). exact (parse_line_wf _ _ _ _ _ Hp).
  - destruct ig; [exact IH|constructor].
Qed.

(* ---- the four steering keys -------------------------------------------------------------- *)
Definition steer_keys : list (list N) := [s2l "VERS"; s2l "WRAP"; s2l "DLM"; s2l "NULL"].

Definition non_steering (tr : bool) (it : hitem) : bool :=
  forallb (fun key => negb (mn_compare tr (useful (i_orig it)) key)) steer_keys.

(* a junk line in the sense of C19: not a title, and if it parses, its name is no steering key *)
Definition junk_line (v : las_version) (k : skind) (c : mcase) (tr : bool) (j : list N) : Prop :=
  startswith [ch_tilde] (strip j) = false /\
  forall it, parse_line v k c (strip j) = Some it -> non_steering tr it = true.

Lemma steer_keys_plain key : In key steer_keys -> in_str ch_colon key = false.
Proof. intros [<-|[<-|[<-|[<-|[]]]]]; reflexivity. Qed.

Lemma non_steering_key tr it key : non_steering tr it = true -> In key steer_keys ->
  mn_compare tr (useful (i_orig it)) key = false.
Proof.
  unfold non_steering. rewrite forallb_forall. intros H Hin. apply negb_true_iff. apply H. exact Hin.
Qed.

Section Frame.
Variables (v : las_version) (k : skind) (c : mcase) (cc : list N) (tr : bool).

Lemma scan_junk_class ig key lines lines' : In key steer_keys ->
  ins_lines (junk_line v k c tr) lines lines' ->
  snd (scan v k c cc ig lines') = None -> snd (scan v k c cc ig lines) = None ->
  filter (inclass tr key) (fst (scan v k c cc ig lines)) =
  filter (inclass tr key) (fst (scan v k c cc ig lines')).
Proof.
  intros Hkey. induction 1 as [|j l l' (Hj & Hns) H IH|x l l' H IH]; intros E' E.
  - reflexivity.
  - cbn [scan] in *. destruct (classify v k c cc j) as [| |it|b] eqn:Ec.
    + apply IH; assumption.
    + apply classify_stop_title in Ec. congruence.
    + destruct (scan v k c cc ig l') as [its e]. cbn [fst snd filter] in *.
      destruct (classify_item v k c cc j it Ec) as (_ & Hp).
      unfold inclass at 2. rewrite (non_steering_key tr it key (Hns it Hp) Hkey). apply IH; assumption.
    + destruct ig; [apply IH; assumption|discriminate].
  - cbn [scan] in *. destruct (classify v k c cc x) as [| |it|b] eqn:Ec.
    + apply IH; assumption.
    + reflexivity.
    + destruct (scan v k c cc ig l') as [its' e']. destruct (scan v k c cc ig l) as [its e]. cbn [fst snd filter] in *.
      rewrite IH by assumption. reflexivity.
    + destruct ig; [apply IH; assumption|discriminate].
Qed.

(* the lookups of the steering keys are unchanged by junk lines *)
Theorem junk_steering_lookup ig key lines lines' acc r r' :
  In key steer_keys -> Forall sess_wf acc ->
  ins_lines (junk_line v k c tr) lines lines' ->
  parse_body v k c ig cc tr lines acc = POk r ->
  parse_body v k c ig cc tr lines' acc = POk r' ->
  sect_find tr key r' = sect_find tr key r.
Proof.
  intros Hkey Hacc J H H'. rewrite parse_body_scan in H, H'.
  destruct (snd (scan v k c cc ig lines)) eqn:E; [discriminate|].
  destruct (snd (scan v k c cc ig lines')) eqn:E'; [discriminate|].
  injection H as <-. injection H' as <-. symmetry.
  apply sect_find_append_all; try apply scan_wf; try assumption.
  - apply steer_keys_plain. exact Hkey.
  - apply (scan_junk_class ig key lines lines' Hkey J E' E).
Qed.

End Frame.

(* ---- update_steering ---------------------------------------------------------------------- *)
Theorem update_steering_frame tr letter r r' ps :
  (forall key, In key steer_keys -> sect_find tr key r' = sect_find tr key r) ->
  update_steering letter (mksect r' tr) ps = update_steering letter (mksect r tr) ps.
Proof.
  intros H. unfold update_steering. cbn [s_transforms s_items].
  rewrite (H (s2l "VERS")) by (cbn; auto). rewrite (H (s2l "WRAP")) by (cbn; auto).
  rewrite (H (s2l "DLM")) by (cbn; auto 6). rewrite (H (s2l "NULL")) by (cbn; auto 6). reflexivity.
Qed.

(* junk lines in a ~V / ~W section (or any other) do not change the steering values *)
Theorem junk_update_steering v k c cc tr ig letter lines lines' r r' ps :
  ins_lines (junk_line v k c tr) lines lines' ->
  parse_body v k c ig cc tr lines [] = POk r ->
  parse_body v k c ig cc tr lines' [] = POk r' ->
  update_steering letter (mksect r' tr) ps = update_steering letter (mksect r tr) ps.
Proof.
  intros J H H'. apply update_steering_frame. intros key Hk.
  apply (junk_steering_lookup v k c cc tr ig key lines lines' [] r r' Hk); try assumption. constructor.
Qed.
