(* Proofs.FuncsPinHeaderLine — what Model/HeaderLine.read_header_line does with the matched groups
   (strip every field; a unit that ends with a period loses its periods) IS the loop over
   m.groupdict() of reader.read_header_line (Gen/Funcs.v: py_header_line_fields, re-translated from
   /repo on every run).  Which pattern matches and what its groups capture is the regex layer
   (Gen/Regexes.v, C04_patterns_current / C04_selection_current).
   Restated as C04_fields_current. *)
From Coq Require Import List Arith NArith ZArith Bool Lia String.
Import ListNotations.
Require Import PyStr Regex Regexes Funcs HeaderLine FuncsPinsLib.
Open Scope list_scope.
Open Scope N_scope.

Definition key_name : list N := Eval compute in s2l "name".
Definition key_unit : list N := Eval compute in s2l "unit".
Definition key_value : list N := Eval compute in s2l "value".
Definition key_descr : list N := Eval compute in s2l "descr".

(* m.groupdict(): the named groups the matching pattern has, in the order name, unit, value, descr
   (a pattern built from no_unit_re / no_desc_re lacks that group) *)
Definition opt_pair (k : list N) (g : option (list N)) : list (list N * list N) :=
  match g with Some v => [(k, v)] | None => [] end.
Definition groupdict (g0 g1 g2 g3 : option (list N)) : list (list N * list N) :=
  opt_pair key_name g0 ++ opt_pair key_unit g1 ++ opt_pair key_value g2 ++ opt_pair key_descr g3.
Definition gv (g : option (list N)) : list N := match g with Some v => v | None => [] end.
(* the dict read_header_line returns *)
Definition hline_dict (h : hline) : list (list N * list N) :=
  [(key_name, h_name h); (key_unit, h_unit h); (key_value, h_value h); (key_descr, h_descr h)].

Lemma strip_nil : strip ([] : list N) = [].
Proof. reflexivity. Qed.
Lemma fix_unit_nil : fix_unit [] = [].
Proof. reflexivity. Qed.

Theorem header_fields_pin : forall g0 g1 g2 g3,
  py_header_line_fields (groupdict g0 g1 g2 g3)
  = Some (hline_dict (mkhl (strip (gv g0)) (fix_unit (gv g1)) (strip (gv g2)) (strip (gv g3)))).
Proof.
  intros g0 g1 g2 g3. unfold hline_dict. cbn [h_name h_unit h_value h_descr].
  destruct g0 as [a|]; destruct g1 as [b|]; destruct g2 as [c|]; destruct g3 as [d|];
    cbn [gv]; rewrite ?strip_nil, ?fix_unit_nil; unfold fix_unit, ch_dot;
    cbv - [strip strip_chars endswith]; try reflexivity;
    destruct (endswith [46] (strip b)); reflexivity.
Qed.

(* read_header_line hands exactly these four fields on, with g n = the n-th named group or "" *)
Lemma read_header_line_fields : forall line is_curves is_param,
  read_header_line line is_curves is_param =
  match first_match (configure_patterns line is_curves is_param) line with
  | None => None
  | Some y =>
      Some (mkhl (strip (gv (group_opt 0%nat (caps y)))) (fix_unit (gv (group_opt 1%nat (caps y))))
                 (strip (gv (group_opt 2%nat (caps y)))) (strip (gv (group_opt 3%nat (caps y)))))
  end.
Proof. reflexivity. Qed.

(* ---------- the whole of read_header_line (pattern=None, the only way lasio calls it) ------------------ *)
Require Import FuncsPinConfigure.

Lemma groupdict_same : forall y,
  pyo_groupdict y = groupdict (group_opt 0%nat (caps y)) (group_opt 1%nat (caps y)) (group_opt 2%nat (caps y)) (group_opt 3%nat (caps y)).
Proof.
  intros y. unfold pyo_groupdict, groupdict, opt_pair. cbn [flat_map fst snd].
  destruct (group_opt 0%nat (caps y)); destruct (group_opt 1%nat (caps y)); destruct (group_opt 2%nat (caps y));
    destruct (group_opt 3%nat (caps y)); reflexivity.
Qed.

(* the loop `for pattern in patterns: m = re.match(pattern, line); if m is not None: break` *)
Lemma first_match_loop : forall (ps : list (list frag)) line,
  match fold_left (fun (acc : option st + option st) (p : list frag) =>
                     match acc with
                     | inl t => inl t
                     | inr _ => if negb (pyo_is_none (re_match (pat_re p) line)) then inl (re_match (pat_re p) line)
                                else inr (re_match (pat_re p) line)
                     end) ps (inr None) with
  | inl t => t
  | inr t => t
  end = first_match (pats_re ps) line.
Proof.
  intros ps line. unfold pats_re.
  assert (Hinl : forall (l : list (list frag)) (t : option st),
            fold_left (fun (acc : option st + option st) (p : list frag) =>
                     match acc with
                     | inl t => inl t
                     | inr _ => if negb (pyo_is_none (re_match (pat_re p) line)) then inl (re_match (pat_re p) line)
                                else inr (re_match (pat_re p) line)
                     end) l (inl t) = inl t)
    by (induction l as [|p l IH]; intros t; [reflexivity|exact (IH t)]).
  induction ps as [|p ps IH]; [reflexivity|]. cbn [fold_left map first_match].
  destruct (re_match (pat_re p) line) as [y|] eqn:E; cbn [pyo_is_none negb].
  - rewrite Hinl. reflexivity.
  - exact IH.
Qed.

Theorem read_header_line_pin : forall line section_name,
  py_read_header_line line None section_name
  = option_map hline_dict (read_header_line line (str_eqb section_name name_Curves) (str_eqb section_name name_Parameter)).
Proof.
  intros line sn. rewrite read_header_line_fields, configure_patterns_pin.
  change (py_read_header_line line None sn) with
    (obind (option_map pyo_groupdict
              match fold_left (fun (acc : option st + option st) (p : list frag) =>
                     match acc with
                     | inl t => inl t
                     | inr _ => if negb (pyo_is_none (re_match (pat_re p) line)) then inl (re_match (pat_re p) line)
                                else inr (re_match (pat_re p) line)
                     end) (py_configure_metadata_patterns line sn) (inr None) with
              | inl t => t
              | inr t => t
              end) py_header_line_fields).
  rewrite first_match_loop.
  destruct (first_match (pats_re (py_configure_metadata_patterns line sn)) line) as [y|]; [|reflexivity].
  cbn [option_map obind]. rewrite groupdict_same. apply header_fields_pin.
Qed.
