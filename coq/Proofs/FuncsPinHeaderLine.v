(* Proofs.FuncsPinHeaderLine — what Model/HeaderLine.read_header_line does with the matched groups
   (strip every field; a unit that ends with a period loses its periods) IS the loop over
   m.groupdict() of reader.read_header_line (Gen/Funcs.v: py_header_line_fields, re-translated from
   /repo on every run).  Which pattern matches and what its groups capture is the regex layer
   (Gen/Regexes.v, C04_patterns_current / C04_selection_current).
   Restated as C04_fields_current. *)
From Coq Require Import List Arith NArith ZArith Bool Lia String.
Import ListNotations.
Require Import PyStr Regex Regexes Funcs HeaderLine FuncsPinsLib.
Open Scope list_scope.
Open Scope N_scope.

Definition key_name : list N := Eval compute in s2l "name".
Definition key_unit : list N := Eval compute in s2l "unit".
Definition key_value : list N := Eval compute in s2l "value".
Definition key_descr : list N := Eval compute in s2l "descr".

(* m.groupdict(): the named groups the matching pattern has, in the order name, unit, value, descr
   (a pattern built from no_unit_re / no_desc_re lacks that group) *)
Definition opt_pair (k : list N) (g : option (list N)) : list (list N * list N) :=
  match g with Some v => [(k, v)] | None => [] end.
Definition groupdict (g0 g1 g2 g3 : option (list N)) : list (list N * list N) :=
  opt_pair key_name g0 ++ opt_pair key_unit g1 ++ opt_pair key_value g2 ++ opt_pair key_descr g3.
Definition gv (g : option (list N)) : list N := match g with Some v => v | None => [] end.
(* the dict read_header_line returns *)
Definition hline_dict (h : hline) : list (list N * list N) :=
  [(key_name, h_name h); (key_unit, h_unit h); (key_value, h_value h); (key_descr, h_descr h)].

Lemma strip_nil : strip ([] : list N) = [].
Proof. reflexivity. Qed.
Lemma fix_unit_nil : fix_unit [] = [].
Proof. reflexivity. Qed.

Theorem header_fields_pin : forall g0 g1 g2 g3,
  py_header_line_fields (groupdict g0 g1 g2 g3)
  = Some (hline_dict (mkhl (strip (gv g0)) (fix_unit (gv g1)) (strip (gv g2)) (strip (gv g3)))).
Proof.
  intros g0 g1 g2 g3. unfold hline_dict. cbn [h_name h_unit h_value h_descr].
  destruct g0 as [a|]; destruct g1 as [b|]; destruct g2 as [c|]; destruct g3 as [d|];
    cbn [gv]; rewrite ?strip_nil, ?fix_unit_nil; unfold fix_unit, ch_dot;
    cbv - [strip strip_chars endswith]; try reflexivity;
    destruct (endswith [46] (strip b)); reflexivity.
Qed.

(* read_header_line hands exactly these four fields on, with g n = the n-th named group or "" *)
Lemma read_header_line_fields : forall line is_curves is_param,
  read_header_line line is_curves is_param =
  match first_match (configure_patterns line is_curves is_param) line with
  | None => None
  | Some y =>
      Some (mkhl (strip (gv (group_opt 0%nat (caps y)))) (fix_unit (gv (group_opt 1%nat (caps y))))
                 (strip (gv (group_opt 2%nat (caps y)))) (strip (gv (group_opt 3%nat (caps y)))))
  end.
Proof. reflexivity. Qed.
