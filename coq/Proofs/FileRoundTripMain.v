(* Proofs.FileRoundTripMain — read (write m) = m at whole-file level, with the hypotheses
   stated on the ITEMS of the file in memory after the call, on the ~Other TEXT, on the
   OPTIONS and on the TOKENS of the data (Proofs/FileRoundTrip.v asks them of the written
   lines; Proofs/FileRoundTripLines.v derives those).  See Props/C03.v, Props/C01.v,
   Props/C11.v for the re-exported statements and their reading. *)
From Coq Require Import List Arith NArith ZArith Bool Lia String.
Import ListNotations.
Require Import PyStr Regex NumLit Num HeaderLine Tables SectionParse Sections DataRead Read TextWrap Writer.
Require Import StripFacts SplitWsFacts SectionsProofs ReadProofs ReadInvProofs ReadCongr BlocksCongr ItemsBindProofs
  DataReadProofs OrderTableProofs WriteHeaderProofs WriteOptionsProofs WriteReadProofs WriteDataProofs WriteDataTextProofs
  FileRoundTripText FileRoundTripBlocks FileRoundTripFind FileRoundTripFirstPass FileRoundTripHeader
  FileRoundTripData FileRoundTripLines FileRoundTrip.
Open Scope string_scope.
Open Scope list_scope.
Open Scope N_scope.

Lemma space_no_tilde : forall s, forallb is_space s = true -> in_str 126 s = false.
Proof.
  induction s as [|x s IH]; [reflexivity|]. cbn [forallb]. intros H. apply andb_true_iff in H as [Hx Hs].
  unfold in_str. cbn [existsb]. fold (in_str 126 s). rewrite (IH Hs), orb_false_r.
  destruct (N.eqb_spec 126 x) as [<-|]; [discriminate Hx|reflexivity].
Qed.

Lemma nosp_nlfree : forall t, nosp t = true -> in_str 10 t = false.
Proof.
  induction t as [|x t IH]; [reflexivity|]. unfold nosp. cbn [forallb]. intros H. apply andb_true_iff in H as [Hx Ht].
  unfold in_str. cbn [existsb]. fold (in_str 10 t). rewrite (IH Ht), orb_false_r.
  destruct (N.eqb_spec 10 x) as [<-|]; [discriminate Hx|reflexivity].
Qed.

Section WithOracles.
Variable fmtv : list N -> list N -> list N.
Variable fmt_diff : list N -> list N -> list N -> list N.
Variable fmt_pi : list N -> list N.
Variable fstr : list N -> list N.
Variable fzero : list N -> bool.
Variable numeq : list N -> list N -> bool.
Variable fhex : list N -> option (list N).

(* newline-freeness of what the header is written from, and "no ~Other line is a title" *)
Definition text_hyps (o : wopts) (hs : hdr_sections) : Prop :=
  mnemonics_nlfree (hs_vers_items hs) /\ mnemonics_nlfree (s_items (l_well (hs_las hs))) /\
  mnemonics_nlfree (s_items (l_curves (hs_las hs))) /\ mnemonics_nlfree (s_items (l_params (hs_las hs))) /\
  notitles (splitlines (l_other (hs_las hs))) /\
  data_header_ok (wo_data_section_header o) /\ nlfree (wo_data_section_header o) /\
  (forall it, In it (s_items (l_curves (hs_las hs))) -> nlfree (i_sess it)).

(* the data tokens never contain '~'; the spacers contain no newline *)
Definition data_text_hyps (o : wopts) (nt : list N) (rows : list (list cell)) : Prop :=
  nlfree (wo_lhs_spacer o) /\ nlfree (wo_spacer o) /\
  Forall (Forall (fun t => in_str 126 t = false)) (tok_matrix fmtv o nt rows).

Lemma written_lines_ok ro o m hs dl rts vit nt :
  write_sections fmtv fmt_diff fstr fzero numeq (wo_version o) (wo_wrap o) (col_fmt o 0%nat) m = Some hs ->
  dsh_of fmtv fmt_pi fstr o hs = Some dl ->
  opt_all (map (row_text fmtv fmt_pi o (Some nt) 0%nat) (las_rows (hs_las hs))) = Some rts ->
  header_hyps fstr ro hs vit -> text_hyps o hs ->
  Forall (Forall (wr_tok fhex)) (tok_matrix fmtv o nt (las_rows (hs_las hs))) ->
  forallb is_space (wo_lhs_spacer o) = true -> forallb is_space (wo_spacer o) = true ->
  data_text_hyps o nt (las_rows (hs_las hs)) ->
  lines_nlfree o hs dl (data_lines_of o hs rts) /\ bodies_notitle hs (data_lines_of o hs rts).
Proof.
  intros Hs Hdl Hrts (OkV & OkW & OkC & OkP & _) (MV & MW & MC & MP & Hoth & Hdh & Hdn & Hsess) Hwr Hl Hsp (Nl & Ns & Htil).
  destruct (written_header_notitles fmtv fmt_diff fstr fzero numeq _ _ _ m hs [ch_hash] Hs OkV OkW OkC OkP) as (T1 & T2 & T3 & T4).
  destruct (written_header_nlfree fmtv fmt_diff fstr fzero numeq _ _ _ m hs [ch_hash] Hs OkV OkW OkC OkP MV MW MC MP)
    as (N1 & N2 & N3 & N4).
  assert (Hnl10 : Forall (Forall (fun t => in_str 10 t = false)) (tok_matrix fmtv o nt (las_rows (hs_las hs)))).
  { eapply Forall_impl; [|exact Hwr]. intros r Hr. eapply Forall_impl; [|exact Hr].
    intros t ((( _ & Hn) & _) & _). apply nosp_nlfree. exact Hn. }
  split.
  - unfold lines_nlfree. repeat split; try assumption.
    + apply (dsh_of_nlfree fmtv fmt_pi fstr o hs dl Hdn Hsess Hdl).
    + unfold data_lines_of. apply (data_lines_nlfree fmtv fmt_pi o nt _ rts _ _ Nl Ns Hnl10 Hrts).
  - unfold bodies_notitle. repeat split; try assumption.
    unfold data_lines_of.
    apply (data_lines_notitles fmtv fmt_pi o nt _ rts _ _ (space_no_tilde _ Hl) (space_no_tilde _ Hsp) Htil Hrts).
Qed.

(* C03 at file level *)
Theorem read_written_header ro o m text m' hs dl rts vit nt :
  write fmtv fmt_diff fmt_pi fstr fzero numeq o m = WOk text m' ->
  write_sections fmtv fmt_diff fstr fzero numeq (wo_version o) (wo_wrap o) (col_fmt o 0%nat) m = Some hs ->
  dsh_of fmtv fmt_pi fstr o hs = Some dl ->
  las_null_text fstr (hs_las hs) = Some nt ->
  opt_all (map (row_text fmtv fmt_pi o (Some nt) 0%nat) (las_rows (hs_las hs))) = Some rts ->
  header_hyps fstr ro hs vit -> text_hyps o hs ->
  Forall (Forall (wr_tok fhex)) (tok_matrix fmtv o nt (las_rows (hs_las hs))) ->
  forallb is_space (wo_lhs_spacer o) = true -> forallb is_space (wo_spacer o) = true ->
  data_text_hyps o nt (las_rows (hs_las hs)) ->
  exists ps l,
    find_sections (lines_keep text) <> [] /\
    first_pass ro (lines_keep text) ps0 (find_sections (lines_keep text)) = inl ps /\
    p_las ps = l /\ header_read_back fstr ro hs l /\ l_data l = [] /\
    version_of (p_version ps) = Some (hs_version hs) /\
    dlm_of (p_dlm ps) = Some DSpace /\
    null_read fstr ro hs (p_null ps) /\
    (wrap_ok fstr (o_mcase ro) hs -> hs_wrap hs = true ->
       hval_is_str (p_wrapped ps) (s2l "YES") = true /\ wrap_decl l = true) /\
    List.length (p_data ps) = 1%nat /\ p_las3data ps = [] /\
    (o_ignore_data ro = true -> read fhex fstr numeq ro text = ROk l).
Proof.
  intros Hw Hs Hdl Hnt Hrts Hh Ht Hwr Hl Hsp Hd.
  destruct (written_lines_ok ro o m hs dl rts vit nt Hs Hdl Hrts Hh Ht Hwr Hl Hsp Hd) as (Hnl & Hnb).
  assert (Hrts' : opt_all (map (row_text fmtv fmt_pi o (las_null_text fstr (hs_las hs)) 0%nat) (las_rows (hs_las hs))) = Some rts)
    by (rewrite Hnt; exact Hrts).
  destruct Ht as (_ & _ & _ & _ & _ & Hdh & _).
  destruct (read_written_header_lines fmtv fmt_diff fmt_pi fstr fzero numeq fhex ro o m text m' hs dl rts vit
              Hw Hs Hdl Hrts' Hdh Hnl Hnb Hh)
    as (ps & p6 & l & H1 & H2 & H3 & H4 & H5 & H6 & H7 & H8 & H9 & H10 & H11 & _ & H13).
  exists ps, l. repeat (split; [assumption|]). split; [rewrite H10; reflexivity|]. split; assumption.
Qed.

(* C01 + C03 at file level: the whole read *)
Theorem read_written_file ro o m text m' hs dl rts vit nt :
  write fmtv fmt_diff fmt_pi fstr fzero numeq o m = WOk text m' ->
  write_sections fmtv fmt_diff fstr fzero numeq (wo_version o) (wo_wrap o) (col_fmt o 0%nat) m = Some hs ->
  dsh_of fmtv fmt_pi fstr o hs = Some dl ->
  las_null_text fstr (hs_las hs) = Some nt ->
  opt_all (map (row_text fmtv fmt_pi o (Some nt) 0%nat) (las_rows (hs_las hs))) = Some rts ->
  header_hyps fstr ro hs vit -> text_hyps o hs -> wrap_ok fstr (o_mcase ro) hs ->
  let c := List.length (s_items (l_curves (hs_las hs))) in
  data_hyps fmtv fmt_pi fhex o nt (las_rows (hs_las hs)) c ->
  data_text_hyps o nt (las_rows (hs_las hs)) ->
  o_ignore_data ro = false ->
  exists l pn,
    read fhex fstr numeq ro text = ROk l /\
    header_read_back fstr ro hs l /\ null_read fstr ro hs pn /\
    l_data l = data_result fhex numeq ro pn c (tok_matrix fmtv o nt (las_rows (hs_las hs))).
Proof.
  intros Hw Hs Hdl Hnt Hrts Hh Ht Hwo c Hdat Hd Hig.
  assert (Hdat' := Hdat). destruct Hdat' as (_ & _ & _ & Hwr & Hl & Hsp & _).
  destruct (written_lines_ok ro o m hs dl rts vit nt Hs Hdl Hrts Hh Ht Hwr Hl Hsp Hd) as (Hnl & Hnb).
  destruct Ht as (_ & _ & _ & _ & _ & Hdh & _).
  apply (read_written_file_lines fmtv fmt_diff fmt_pi fstr fzero numeq fhex ro o m text m' hs dl rts vit nt
           Hw Hs Hdl Hnt Hrts Hdh Hnl Hnb Hh Hwo Hdat Hig).
Qed.

(* the rows the writer prints have one cell per curve *)
Lemma las_rows_width l : Forall (fun row : list cell => List.length row = List.length (s_items (l_curves l))) (las_rows l).
Proof.
  unfold las_rows, Writer.data_rows.
  set (cols := map (fun j => nth j (l_data l) []) (seq 0 (List.length (s_items (l_curves l))))).
  assert (Hc : List.length cols = List.length (s_items (l_curves l))) by (unfold cols; rewrite map_length, seq_length; reflexivity).
  destruct cols as [|c0 cols']; [constructor|].
  destruct (forallb _ (c0 :: cols')); [|constructor].
  apply Forall_forall. intros row Hin. apply in_map_iff in Hin as (i & <- & _). rewrite map_length. exact Hc.
Qed.

(* a NaN sample of a non-index curve comes back as NaN: it is written as the NULL text nt
   and, under null_policy strict, mapped back by the NULL rule when float(nt) == NULL read back
   (oracle hypothesis Hnull) *)
Theorem file_nan_roundtrip ro o pn c nt (rows : list (list cell)) i j row :
  (0 < j < c)%nat -> o_null_strict ro = true ->
  nth_error rows i = Some row -> nth_error row j = Some CNaN ->
  nulleq numeq pn nt = true ->
  nth_error (nth j (data_result fhex numeq ro pn c (tok_matrix fmtv o nt rows)) []) i = Some CNaN.
Proof.
  intros Hj Hst Hi Hc Hnull.
  rewrite (data_result_cell fhex numeq ro pn c _ i j (row_toks fmtv o nt row) Hj Hst)
    by (unfold tok_matrix; rewrite nth_error_map, Hi; reflexivity).
  rewrite (row_toks_nth fmtv o nt row j CNaN Hc). cbn [field_tok].
  unfold mk_num. destruct (fhex nt) as [h|]; [destruct (str_eqb h (s2l "nan")); [reflexivity|]|]; rewrite Hnull; reflexivity.
Qed.

(* a finite sample comes back as the token written for it (or NaN when that token equals NULL) *)
Theorem file_num_roundtrip ro o pn c nt (rows : list (list cell)) i j row t :
  (0 < j < c)%nat -> o_null_strict ro = true ->
  nth_error rows i = Some row -> nth_error row j = Some (CNum t) ->
  nth_error (nth j (data_result fhex numeq ro pn c (tok_matrix fmtv o nt rows)) []) i =
  Some (match mk_num fhex (fmtv (col_fmt o j) t) with
        | CNum t' => if nulleq numeq pn t' then CNaN else CNum t'
        | x => x
        end).
Proof.
  intros Hj Hst Hi Hc.
  rewrite (data_result_cell fhex numeq ro pn c _ i j (row_toks fmtv o nt row) Hj Hst)
    by (unfold tok_matrix; rewrite nth_error_map, Hi; reflexivity).
  rewrite (row_toks_nth fmtv o nt row j (CNum t) Hc). reflexivity.
Qed.

End WithOracles.
