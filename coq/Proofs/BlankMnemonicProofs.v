(* Proofs.BlankMnemonicProofs — a header line whose mnemonic is blank and that has no further
   period:   .UNIT  VALUE : DESCRIPTION   (what the writer emits, after the reader's strip, for
   an item with an empty mnemonic).  The optional leading period of the name pattern is first
   consumed, the dot-free star then runs to the end of the line and finds no period to close
   the name; after backing off, the name is empty and the first period is the separator.
   Same machinery as Proofs/HeaderLineFragments.v / HeaderLineProofs.v (C04); used by C03. *)
From Coq Require Import List Arith NArith Bool Lia ZifyBool ZifyN ZifyNat.
Import ListNotations.
Require Import PyStr Regex RegexFacts Regexes HeaderLine RegexMatchFacts HeaderLineSpec
  HeaderLineFragments HeaderLineProofs.
Open Scope N_scope.

(* ---------- fragment: name, on a line that starts with its only period ----------------- *)
Lemma name_run_blank R p cs cont r :
  in_str 46 R = false ->
  cont (mkst (46 :: p) R ((0%nat, []) :: cs)) = Some r ->
  m name_lit (mkst p (46 :: R) cs) cont = Some r.
Proof.
  intros HR Hk. unfold name_lit. rewrite m_seq, m_opt. apply opt_none.
  - (* the optional period consumed: no period is left to close the name *)
    rewrite cls_step by reflexivity. mstep.
    apply star_g_none. intros a b E _. mstep. apply cls_fail.
    destruct b as [|c b]; [exact I|]. cbn [cmatch]. subst R.
    apply in_str_suffix in HR. apply in_str_head in HR. exact HR.
  - (* not consumed: the name is empty *)
    mstep. change (46 :: R) with ([] ++ 46 :: R) at 1.
    apply star_g_max; [reflexivity|reflexivity|]. mstep. cbn [app rev].
    rewrite firstn_len_self. rewrite cls_step by reflexivity. exact Hk.
Qed.

Lemma main_run_blank U W D :
  in_str 46 (U ++ W ++ 58 :: D) = false -> unit_splits U W D ->
  forallb (cmatch CAny) W = true -> forallb (cmatch CAny) D = true -> in_str 58 D = false ->
  exists y, re_match main_lit (46 :: U ++ W ++ 58 :: D) = Some y /\ captures_are y [] U W D.
Proof.
  intros HR (extra & Ht & Hrun) HWa HDa HD. eexists. split.
  - unfold re_match, main_lit. rewrite !m_seq.
    apply name_run_blank; [exact HR|].
    apply Hrun; [intros _; split; [exact HD|exact needs_colon_vd]|].
    apply vd_run; [exact HWa|exact HDa|exact HD].
  - apply caps_layout. exact Ht.
Qed.

Lemma time_run_blank U W D :
  in_str 46 (U ++ W ++ 58 :: D) = false -> unit_splits U W D ->
  (W = [] -> in_str 58 D = false) -> forallb (cmatch CAny) W = true ->
  forallb (cmatch CAny) D = true -> clock_colons W = true ->
  behind_blocked (rev W ++ rev U ++ [46]) = false -> ahead_blocked D = false ->
  exists y, re_match time_lit (46 :: U ++ W ++ 58 :: D) = Some y /\ captures_are y [] U W D.
Proof.
  intros HR (extra & Ht & Hrun) HWD HWa HDa Hcc Hb Ha. eexists. split.
  - unfold re_match, time_lit. rewrite !m_seq.
    apply name_run_blank; [exact HR|].
    apply Hrun; [intros E; split; [exact (HWD E)|exact needs_colon_tvd]|].
    apply tvd_run; [exact HWa|exact HDa|exact Hcc|exact Hb|exact Ha].
  - apply caps_layout. exact Ht.
Qed.

Lemma rhl_generic_blank U W D (ic ip : bool) :
  in_str 46 (U ++ W ++ 58 :: D) = false -> unit_splits U W D ->
  forallb (cmatch CAny) W = true -> forallb (cmatch CAny) D = true ->
  (ic = true -> curves_plain (46 :: U ++ W ++ 58 :: D) = true) ->
  (if ip return Prop then param_ok [] U W D else in_str 58 D = false) ->
  read_header_line (46 :: U ++ W ++ 58 :: D) ic ip =
  Some (mkhl [] (fix_unit U) (strip W) (strip D)).
Proof.
  intros HR HU HWa HDa Hdd Hsec. change (@nil N) with (strip []) at 1. unfold read_header_line.
  rewrite (cp_period _ ic ip).
  - destruct ip.
    + destruct Hsec as [(Hcc & Hb & Ha & HWD)|(Hno & HD)].
      * destruct (time_run_blank U W D HR HU HWD HWa HDa Hcc Hb Ha) as (y & Hy & Hc).
        apply (rhl_of_captures _ _ y); [|exact Hc]. cbn [first_match]. rewrite Hy. reflexivity.
      * destruct (main_run_blank U W D HR HU HWa HDa HD) as (y & Hy & Hc).
        apply (rhl_of_captures _ _ y); [|exact Hc]. cbn [first_match].
        pose proof (time_fail _ Hno) as Htf. cbn [app] in Htf. rewrite Htf, Hy. reflexivity.
    + destruct (main_run_blank U W D HR HU HWa HDa Hsec) as (y & Hy & Hc).
      apply (rhl_of_captures _ _ y); [|exact Hc]. cbn [first_match]. rewrite Hy. reflexivity.
  - rewrite in_str_cons, in_str_app, in_str_app, in_str_cons. cbn. rewrite !orb_true_r. reflexivity.
  - apply (before_has_dot _ []). reflexivity.
  - exact Hdd.
Qed.

(* ---------- the layout  .UNIT p2 VALUE p3 : p4 DESCR p5 ---------------------------------- *)
Definition layout_blank (u p2 v p3 p4 d p5 : list N) : list N :=
  [46] ++ u ++ p2 ++ v ++ p3 ++ [58] ++ p4 ++ d ++ p5.

Lemma layout_blank_is_layout u p2 v p3 p4 d p5 :
  layout_blank u p2 v p3 p4 d p5 = layout [] [] [] u p2 v p3 p4 d p5.
Proof. reflexivity. Qed.

Theorem blank_name_parse (u p2 v p3 p4 d p5 : list N) (ic ip : bool) :
  blanks p2 && blanks p3 && blanks p4 && blanks p5 = true ->
  conf_unit u = true -> conf_text v = true -> conf_text d = true ->
  value_set_off p2 v = true ->
  (* no further period on the line *)
  in_str 46 u = false -> in_str 46 v = false -> in_str 46 d = false ->
  sect_ok ic ip (layout_blank u p2 v p3 p4 d p5) u v p3 p4 d = true ->
  read_header_line (layout_blank u p2 v p3 p4 d p5) ic ip = Some (mkhl [] u v d).
Proof.
  intros Hp Hu Hv Hd Hso Hud Hvd Hdd Hs.
  apply sect_ok_prop in Hs as [Hcp Hsec].
  unfold conf_unit, conf_text, value_set_off in *.
  apply andb_true_iff in Hp as [Hp Hp5]. apply andb_true_iff in Hp as [Hp Hp4].
  apply andb_true_iff in Hp as [Hp2 Hp3].
  apply andb_true_iff in Hu as [Hu Hudig]. apply andb_true_iff in Hu as [Hus Hue].
  apply negb_true_iff in Hue.
  apply andb_true_iff in Hv as [Hvs Hvn]. apply negb_true_iff in Hvn.
  apply andb_true_iff in Hd as [Hds Hdn]. apply negb_true_iff in Hdn.
  assert (HW : head_space (p2 ++ v ++ p3)) by (apply head_space_value; assumption).
  assert (HU : unit_splits u (p2 ++ v ++ p3) (p4 ++ d ++ p5))
    by (apply unit_word_plain; assumption).
  assert (Hline : layout_blank u p2 v p3 p4 d p5 = 46 :: u ++ (p2 ++ v ++ p3) ++ 58 :: (p4 ++ d ++ p5)).
  { unfold layout_blank. cbn [app]. rewrite <- !app_assoc. reflexivity. }
  rewrite Hline in Hcp |- *.
  rewrite (rhl_generic_blank u (p2 ++ v ++ p3) (p4 ++ d ++ p5) ic ip).
  - rewrite fix_unit_id; [|apply no_space_stripped; exact Hus|exact Hue].
    rewrite !strip_pad by assumption. reflexivity.
  - rewrite !in_str_app, in_str_cons, !in_str_app, Hud, Hvd, Hdd.
    rewrite (blanks_in_str 46 p2 eq_refl Hp2), (blanks_in_str 46 p3 eq_refl Hp3),
      (blanks_in_str 46 p4 eq_refl Hp4), (blanks_in_str 46 p5 eq_refl Hp5). reflexivity.
  - exact HU.
  - apply lay_W_any; assumption.
  - apply lay_D_any; assumption.
  - exact Hcp.
  - destruct ip.
    + destruct Hsec as [Hcc [[H3 H4]|[HUc Hdc]]].
      * exact (lay_param_set_off [] [] [] u p2 v p3 p4 d p5 Hp2 Hp3 Hp4 HU Hcc H3 H4).
      * exact (lay_param_colon_free [] [] [] u p2 v p3 p4 d p5 eq_refl eq_refl Hp2 Hp3 Hp4 Hp5
                 eq_refl Hcc HUc Hdc).
    + apply lay_D_colon; assumption.
Qed.
