(* Proofs.WriteIdemProofs — writer.write as a whole (Model/Writer.v `write`): inversion of a
   successful call, frame of the in-memory effect, the text as a function of the resulting
   state, and idempotence (second write: same text, no further change).
   Builds on Proofs/WriteStateProofs.v.  Used by Props/C16.v and Props/C11.v. *)
From Coq Require Import List NArith ZArith Bool Arith String Lia ZifyBool ZifyN ZifyNat.
Import ListNotations.
Require Import PyStr Regex NumLit Num Tables SectionParse DataRead Read TextWrap Writer WriteStateProofs.
Open Scope string_scope.
Open Scope list_scope.
Open Scope N_scope.

Definition k_wrap : list N := s2l "WRAP".
Definition k_vers : list N := s2l "VERS".

Definition wrap_item (b : bool) : hitem :=
  if b then new_item (s2l "WRAP") [] (VStr (s2l "YES")) (s2l "Multiple lines per depth step")
  else new_item (s2l "WRAP") [] (VStr (s2l "NO")) (s2l "One line per depth step").

(* ---- set_item twice ---------------------------------------------------------------------------- *)
(* at most one item is named `k` (by useful original mnemonic), and an item is named `k` exactly
   when it is registered under `k` (session mnemonic) *)
Definition named_once (tr : bool) (k : list N) (l : list hitem) : Prop :=
  (count_matching tr k l <= 1)%nat /\
  forall it, In it l -> mn_compare tr (useful (i_orig it)) k = mn_compare tr (i_sess it) k.

Lemma mn_compare_trans tr a b c :
  mn_compare tr a b = true -> mn_compare tr b c = true -> mn_compare tr a c = true.
Proof.
  unfold mn_compare. destruct tr; intros H1 H2; apply ws_str_eqb_eq in H1, H2;
    rewrite H1, H2; apply ws_str_eqb_refl.
Qed.

Section SetItem.
Variables (tr : bool) (k : list N) (new : hitem).
Hypothesis new_sess : mn_compare tr k (i_sess new) = true.
Hypothesis new_orig : mn_compare tr (useful (i_orig new)) k = true.

Lemma count_matching_cons it l :
  count_matching tr k (it :: l) =
  ((if mn_compare tr (useful (i_orig it)) k then 1 else 0) + count_matching tr k l)%nat.
Proof. unfold count_matching. simpl. destruct (mn_compare tr (useful (i_orig it)) k); reflexivity. Qed.

Lemma replace_first_some : forall l r,
  (forall it, In it l -> mn_compare tr (useful (i_orig it)) k = mn_compare tr (i_sess it) k) ->
  replace_first tr k new l = Some r ->
  count_matching tr k r = count_matching tr k l /\ replace_first tr k new r = Some r /\
  (forall key, mn_compare tr k key = false -> sect_find tr key r = sect_find tr key l).
Proof.
  induction l as [|it l IH]; simpl; intros r Hc H; [discriminate|].
  destruct (mn_compare tr k (i_sess it)) eqn:E.
  - injection H as <-. rewrite !count_matching_cons, new_orig.
    rewrite (Hc it (or_introl eq_refl)), (mn_compare_sym tr (i_sess it) k), E.
    split; [reflexivity|]. split; [simpl; rewrite new_sess; reflexivity|].
    intros key Hk. simpl.
    assert (X : forall s, mn_compare tr k s = true -> mn_compare tr s key = false).
    { intros s Hs. destruct (mn_compare tr s key) eqn:F; [|reflexivity].
      rewrite (mn_compare_trans _ _ _ _ Hs F) in Hk. discriminate Hk. }
    rewrite (X _ new_sess), (X _ E). reflexivity.
  - destruct (replace_first tr k new l) as [r'|] eqn:ER; [|discriminate]. injection H as <-.
    destruct (IH r' (fun it' Hin => Hc it' (or_intror Hin)) eq_refl) as (C & R & F).
    rewrite !count_matching_cons, C. split; [reflexivity|]. split.
    + simpl. rewrite E, R. reflexivity.
    + intros key Hk. simpl. rewrite (F key Hk). reflexivity.
Qed.

Lemma replace_first_none : forall l,
  (forall it, In it l -> mn_compare tr (useful (i_orig it)) k = mn_compare tr (i_sess it) k) ->
  replace_first tr k new l = None ->
  count_matching tr k (l ++ [new]) = 1%nat /\ replace_first tr k new (l ++ [new]) = Some (l ++ [new]) /\
  (forall key, mn_compare tr k key = false -> sect_find tr key (l ++ [new]) = sect_find tr key l).
Proof.
  induction l as [|it l IH]; simpl; intros Hc H.
  - rewrite count_matching_cons, new_orig, new_sess. split; [reflexivity|]. split; [reflexivity|].
    intros key Hk. destruct (mn_compare tr (i_sess new) key) eqn:F; [|reflexivity].
    rewrite (mn_compare_trans _ _ _ _ new_sess F) in Hk. discriminate Hk.
  - destruct (mn_compare tr k (i_sess it)) eqn:E; [discriminate|].
    destruct (replace_first tr k new l) as [r'|] eqn:ER; [discriminate|].
    destruct (IH (fun it' Hin => Hc it' (or_intror Hin)) eq_refl) as (C & R & F).
    rewrite count_matching_cons, C.
    rewrite (Hc it (or_introl eq_refl)), (mn_compare_sym tr (i_sess it) k), E.
    split; [reflexivity|]. split; [rewrite R; reflexivity|].
    intros key Hk. rewrite (F key Hk). reflexivity.
Qed.

Lemma assign_suffixes_few test l : (count_matching tr test l <= 1)%nat -> assign_suffixes tr test l = l.
Proof.
  unfold assign_suffixes. intro H. destruct (Nat.ltb 1 (count_matching tr test l)) eqn:E; [|reflexivity].
  apply Nat.ltb_lt in E. lia.
Qed.

Hypothesis new_useful : useful (i_orig new) = k.

(* SectionItems.set_item(k, new) twice = once, and it does not disturb what is found under
   another key *)
Lemma set_item_idem l :
  named_once tr k l ->
  set_item tr k new (set_item tr k new l) = set_item tr k new l /\
  (forall key, mn_compare tr k key = false ->
     sect_find tr key (set_item tr k new l) = sect_find tr key l).
Proof.
  intros [Hcnt Hc].
  destruct (replace_first tr k new l) as [r|] eqn:ER.
  - destruct (replace_first_some l r Hc ER) as (C & R & F).
    assert (E0 : set_item tr k new l = r).
    { unfold set_item. rewrite ER, new_useful. apply assign_suffixes_few. rewrite C; exact Hcnt. }
    rewrite E0. split; [|exact F].
    unfold set_item. rewrite R, new_useful. apply assign_suffixes_few. rewrite C; exact Hcnt.
  - destruct (replace_first_none l Hc ER) as (C & R & F).
    assert (E0 : set_item tr k new l = l ++ [new]).
    { unfold set_item, sect_append. rewrite ER, new_useful. apply assign_suffixes_few. rewrite C; auto. }
    rewrite E0. split; [|exact F].
    unfold set_item. rewrite R, new_useful. apply assign_suffixes_few. rewrite C; auto.
Qed.

End SetItem.

Lemma wrap_item_facts tr b :
  mn_compare tr k_wrap (i_sess (wrap_item b)) = true /\
  mn_compare tr (useful (i_orig (wrap_item b))) k_wrap = true /\
  useful (i_orig (wrap_item b)) = k_wrap.
Proof. destruct tr, b; vm_compute; auto. Qed.

Lemma set_wrap_idem tr b l :
  named_once tr k_wrap l ->
  set_item tr k_wrap (wrap_item b) (set_item tr k_wrap (wrap_item b) l) = set_item tr k_wrap (wrap_item b) l.
Proof.
  intro H. destruct (wrap_item_facts tr b) as (A & B & C).
  exact (proj1 (set_item_idem tr k_wrap (wrap_item b) A B C l H)).
Qed.

Lemma set_wrap_keeps tr b l key :
  named_once tr k_wrap l -> mn_compare tr k_wrap key = false ->
  sect_find tr key (set_item tr k_wrap (wrap_item b) l) = sect_find tr key l.
Proof.
  intros H Hk. destruct (wrap_item_facts tr b) as (A & B & C).
  exact (proj2 (set_item_idem tr k_wrap (wrap_item b) A B C l H) key Hk).
Qed.

Lemma k_wrap_vers tr : mn_compare tr k_wrap k_vers = false.
Proof. destruct tr; vm_compute; reflexivity. Qed.

(* ---- write, cut into its stages ----------------------------------------------------------------- *)
Section WriteLevel.
Variable fmtv : list N -> list N -> list N.
Variable fmt_diff : list N -> list N -> list N -> list N.
Variable fmt_pi : list N -> list N.
Variable fstr : list N -> list N.
Variable fzero : list N -> bool.
Variable numeq : list N -> list N -> bool.

Notation write := (write fmtv fmt_diff fmt_pi fstr fzero numeq).
Notation refresh := (refresh_sss fmtv fmt_diff numeq).   (* applied to the index format *)
Notation norm := (norm_las fzero).

(* 1. the WRAP item *)
Definition wrap_step_of (o : wopts) (l0 : las) : option (bool * las) :=
  let trv := s_transforms (l_version l0) in
    match wo_wrap o with
    | None => match sect_find trv (s2l "WRAP") (s_items (l_version l0)) with
              | Some _ => Some (false, l0) | None => None end
    | Some true => Some (true, with_version l0 (mksect (set_item trv (s2l "WRAP")
                     (new_item (s2l "WRAP") [] (VStr (s2l "YES")) (s2l "Multiple lines per depth step")) (s_items (l_version l0))) trv))
    | Some false => Some (false, with_version l0 (mksect (set_item trv (s2l "WRAP")
                     (new_item (s2l "WRAP") [] (VStr (s2l "NO")) (s2l "One line per depth step")) (s_items (l_version l0))) trv))
    end.

(* 2-3. the version to write, and the ~Version section written (a deep copy: not stored) *)
Definition vers_of (o : wopts) (trv : bool) (vs : section) : option las_version :=
    match wo_version o with
    | Some W12 => Some V12
    | Some W20 => Some V20
    | None => bind (item_value_by trv (s2l "VERS") (s_items vs)) version_of
    end.

(* the written copy of ~Version declares DLM SPACE *)
Definition vcopy_of (trv : bool) (vs : section) : list hitem :=
    match update_first trv (s2l "DLM") (fun it => set_value it (VStr (s2l "SPACE"))) (s_items vs) with
    | Some r => r
    | None => s_items vs
    end.
Definition vsw_of (v : las_version) (trv : bool) (vs : section) : list hitem :=
    if las_version_eqb v V12 then
      set_item trv (s2l "VERS") (new_item (s2l "VERS") [] (VFloat (s2l "1.2")) (s2l "CWLS LOG ASCII STANDARD - VERSION 1.2")) (vcopy_of trv vs)
    else if las_version_eqb v V20 then
      set_item trv (s2l "VERS") (new_item (s2l "VERS") [] (VFloat (s2l "2.0")) (s2l "CWLS log ASCII Standard -VERSION 2.0")) (vcopy_of trv vs)
    else vcopy_of trv vs.

(* 6-12. the text, from the final state *)
Definition render_text (o : wopts) (wrap : bool) (v : las_version) (vsw : list hitem) (l3 : las) : option (list N) :=
  let hw := wo_header_width o in
  match section_lines fstr v (s2l "Version") vsw, section_lines fstr v (s2l "Well") (s_items (l_well l3)),
        section_lines fstr v (s2l "Curves") (s_items (l_curves l3)), section_lines fstr v (s2l "Parameter") (s_items (l_params l3)) with
  | Some lv, Some lw, Some lc, Some lp =>
      let header :=
        [title_line hw (s2l "~Version ")] ++ lv ++ [title_line hw (s2l "~Well ")] ++ lw
        ++ [title_line hw (s2l "~Curve Information ")] ++ lc ++ [title_line hw (s2l "~Params ")] ++ lp
        ++ [title_line hw (s2l "~Other ")] ++ splitlines (l_other l3) in
      let ncurves := List.length (s_items (l_curves l3)) in
      let cols := List.map (fun j => nth j (l_data l3) []) (seq 0 ncurves) in
      let rows := data_rows cols in
      let null_text := match item_value_by (s_transforms (l_well l3)) (s2l "NULL") (s_items (l_well l3)) with
                       | Some nv => Some (vstr fstr nv) | None => None end in
      let dsh_line : option (list N) :=
        if wo_mnemonics_header o then
          match rows with
          | [] => match s_items (l_curves l3) with
                  | [] => Some (wo_data_section_header o ++ [32])
                  | _ => None
                  end
          | row0 :: _ =>
              bind (opt_all (List.map (fun jc => field_text fmtv fmt_pi o (fst jc) null_text (snd jc)) (combine (seq 0 (List.length row0)) row0)))
                (fun firsts =>
                   let hvs := List.map (fun cw =>
                                  let mn := i_sess (fst cw) in
                                  let colw := List.length (snd cw) in
                                  let width := if Nat.ltb (colw - 1) (List.length mn) then S (List.length mn) else colw in
                                  rjust width 32 mn)
                                (combine (s_items (l_curves l3)) firsts) in
                   let dsh := wo_data_section_header o ++ [32] in
                   let hvs := match hvs with
                              | hv :: rest => strip_header_value 0 (List.length dsh) hv :: rest
                              | [] => []
                              end in
                   Some (dsh ++ List.concat hvs))
          end
        else Some (title_line hw (wo_data_section_header o ++ [32])) in
      match dsh_line, opt_all (List.map (row_text fmtv fmt_pi o null_text 0%nat) rows) with
      | Some dl, Some rts =>
          let data_lines := if wrap then flat_map (TextWrap.wrap (wo_data_width o)) rts else rts in
          Some (join [ch_nl] header ++ [ch_nl] ++ dl ++ [ch_nl] ++ flat_map (fun ln => ln ++ [ch_nl]) data_lines)
      | _, _ => None
      end
  | _, _, _, _ => None
  end.

Definition write_tail (o : wopts) (wrap : bool) (v : las_version) (vsw : list hitem) (l3 : las)
           (ii : option (list cell)) : wres :=
  match render_text o wrap v vsw l3 with
  | Some text => WOk text (mkmlas l3 ii)
  | None => WErr WKeyError
  end.

Definition write_tail0 (o : wopts) (wrap : bool) (v : las_version) (vsw : list hitem) (l3 : las) (ii : option (list cell)) : wres :=
  let hw := wo_header_width o in
  match section_lines fstr v (s2l "Version") vsw, section_lines fstr v (s2l "Well") (s_items (l_well l3)),
        section_lines fstr v (s2l "Curves") (s_items (l_curves l3)), section_lines fstr v (s2l "Parameter") (s_items (l_params l3)) with
  | Some lv, Some lw, Some lc, Some lp =>
      let header :=
        [title_line hw (s2l "~Version ")] ++ lv ++ [title_line hw (s2l "~Well ")] ++ lw
        ++ [title_line hw (s2l "~Curve Information ")] ++ lc ++ [title_line hw (s2l "~Params ")] ++ lp
        ++ [title_line hw (s2l "~Other ")] ++ splitlines (l_other l3) in
      let ncurves := List.length (s_items (l_curves l3)) in
      let cols := List.map (fun j => nth j (l_data l3) []) (seq 0 ncurves) in
      let rows := data_rows cols in
      let null_text := match item_value_by (s_transforms (l_well l3)) (s2l "NULL") (s_items (l_well l3)) with
                       | Some nv => Some (vstr fstr nv) | None => None end in
      let dsh_line : option (list N) :=
        if wo_mnemonics_header o then
          match rows with
          | [] => match s_items (l_curves l3) with
                  | [] => Some (wo_data_section_header o ++ [32])
                  | _ => None
                  end
          | row0 :: _ =>
              bind (opt_all (List.map (fun jc => field_text fmtv fmt_pi o (fst jc) null_text (snd jc)) (combine (seq 0 (List.length row0)) row0)))
                (fun firsts =>
                   let hvs := List.map (fun cw =>
                                  let mn := i_sess (fst cw) in
                                  let colw := List.length (snd cw) in
                                  let width := if Nat.ltb (colw - 1) (List.length mn) then S (List.length mn) else colw in
                                  rjust width 32 mn)
                                (combine (s_items (l_curves l3)) firsts) in
                   let dsh := wo_data_section_header o ++ [32] in
                   let hvs := match hvs with
                              | hv :: rest => strip_header_value 0 (List.length dsh) hv :: rest
                              | [] => []
                              end in
                   Some (dsh ++ List.concat hvs))
          end
        else Some (title_line hw (wo_data_section_header o ++ [32])) in
      match dsh_line, opt_all (List.map (row_text fmtv fmt_pi o null_text 0%nat) rows) with
      | Some dl, Some rts =>
          let data_lines := if wrap then flat_map (TextWrap.wrap (wo_data_width o)) rts else rts in
          WOk (join [ch_nl] header ++ [ch_nl] ++ dl ++ [ch_nl] ++ flat_map (fun ln => ln ++ [ch_nl]) data_lines) (mkmlas l3 ii)
      | _, _ => WErr WKeyError
      end
  | _, _, _, _ => WErr WKeyError
  end.


Lemma write_eq0 o m :
  write o m =
  match wrap_step_of o (m_las m) with
  | None => WErr WKeyError
  | Some (wrap, l1) =>
      match vers_of o (s_transforms (l_version (m_las m))) (l_version l1) with
      | None => WErr WKeyError
      | Some v =>
          match refresh (col_fmt o 0%nat) (mkmlas l1 (m_index_initial m)) with
          | None => WErr WKeyError
          | Some l2 => write_tail0 o wrap v (vsw_of v (s_transforms (l_version (m_las m))) (l_version l1)) (norm l2) (m_index_initial m)
          end
      end
  end.
Proof. reflexivity. Qed.

Lemma write_tail0_eq o wrap v vsw l3 ii : write_tail0 o wrap v vsw l3 ii = write_tail o wrap v vsw l3 ii.
Proof.
  unfold write_tail0, write_tail, render_text. cbv zeta.
  destruct (section_lines fstr v (s2l "Version") vsw); [|reflexivity].
  destruct (section_lines fstr v (s2l "Well") (s_items (l_well l3))); [|reflexivity].
  destruct (section_lines fstr v (s2l "Curves") (s_items (l_curves l3))); [|reflexivity].
  destruct (section_lines fstr v (s2l "Parameter") (s_items (l_params l3))); [|reflexivity].
  match goal with |- match ?d with _ => _ end = _ => destruct d; [|reflexivity] end.
  match goal with |- match ?d with _ => _ end = _ => destruct d; reflexivity end.
Qed.

Lemma write_eq o m :
  write o m =
  match wrap_step_of o (m_las m) with
  | None => WErr WKeyError
  | Some (wrap, l1) =>
      match vers_of o (s_transforms (l_version (m_las m))) (l_version l1) with
      | None => WErr WKeyError
      | Some v =>
          match refresh (col_fmt o 0%nat) (mkmlas l1 (m_index_initial m)) with
          | None => WErr WKeyError
          | Some l2 => write_tail o wrap v (vsw_of v (s_transforms (l_version (m_las m))) (l_version l1)) (norm l2) (m_index_initial m)
          end
      end
  end.
Proof.
  rewrite write_eq0.
  destruct (wrap_step_of o (m_las m)) as [[wrap l1]|]; [|reflexivity].
  destruct (vers_of _ _ _); [|reflexivity].
  destruct (refresh _); [|reflexivity].
  apply write_tail0_eq.
Qed.

Lemma wrap_step_some o l b :
  wo_wrap o = Some b ->
  wrap_step_of o l =
  Some (b, with_version l (mksect (set_item (s_transforms (l_version l)) k_wrap (wrap_item b) (s_items (l_version l)))
                                   (s_transforms (l_version l)))).
Proof. unfold wrap_step_of. intros ->. destruct b; reflexivity. Qed.

Lemma wrap_step_none o l :
  wo_wrap o = None ->
  wrap_step_of o l =
  match sect_find (s_transforms (l_version l)) k_wrap (s_items (l_version l)) with
  | Some _ => Some (false, l) | None => None end.
Proof. unfold wrap_step_of. intros ->. reflexivity. Qed.

(* everything but ~Version is untouched by the WRAP step; ~Version keeps its comparison flag *)
Lemma wrap_step_fields o l0 wrap l1 :
  wrap_step_of o l0 = Some (wrap, l1) ->
  l_well l1 = l_well l0 /\ l_curves l1 = l_curves l0 /\ l_params l1 = l_params l0 /\
  l_other l1 = l_other l0 /\ l_custom l1 = l_custom l0 /\ l_data l1 = l_data l0 /\
  s_transforms (l_version l1) = s_transforms (l_version l0) /\
  wrap = match wo_wrap o with Some b => b | None => false end.
Proof.
  destruct (wo_wrap o) as [b|] eqn:E.
  - rewrite (wrap_step_some o l0 b E). intro H. injection H as <- <-. repeat split.
  - rewrite (wrap_step_none o l0 E). destruct (sect_find _ _ _); [|discriminate].
    intro H. injection H as <- <-. repeat split.
Qed.

Lemma refresh_fields f m l2 :
  refresh f m = Some l2 ->
  l_version l2 = l_version (m_las m) /\ l_params l2 = l_params (m_las m) /\
  l_other l2 = l_other (m_las m) /\ l_custom l2 = l_custom (m_las m) /\ l_data l2 = l_data (m_las m) /\
  s_transforms (l_well l2) = s_transforms (l_well (m_las m)) /\
  s_transforms (l_curves l2) = s_transforms (l_curves (m_las m)).
Proof.
  intro H. destruct (refresh_inv _ _ _ _ _ _ H) as (need & nS & nP & nE & _ & _ & _ & _ & ->).
  repeat split.
Qed.

Lemma write_ok_inv o m text m' :
  write o m = WOk text m' ->
  exists wrap l1 v l2,
    wrap_step_of o (m_las m) = Some (wrap, l1) /\
    vers_of o (s_transforms (l_version (m_las m))) (l_version l1) = Some v /\
    refresh (col_fmt o 0%nat) (mkmlas l1 (m_index_initial m)) = Some l2 /\
    m' = mkmlas (norm l2) (m_index_initial m) /\
    render_text o wrap v (vsw_of v (s_transforms (l_version (m_las m))) (l_version l1)) (norm l2) = Some text.
Proof.
  rewrite write_eq.
  destruct (wrap_step_of o (m_las m)) as [[wrap l1]|]; [|discriminate].
  destruct (vers_of _ _ _) as [v|] eqn:EV; [|discriminate].
  destruct (refresh _) as [l2|] eqn:ER; [|discriminate].
  unfold write_tail. destruct (render_text _ _ _ _ _) as [t|] eqn:ET; [|discriminate].
  intro H. injection H as <- <-.
  exists wrap, l1, v, l2. repeat split; assumption.
Qed.

(* ---- C16: frame ---------------------------------------------------------------------------------- *)
Theorem write_data_frame o m text m' :
  write o m = WOk text m' ->
  l_data (m_las m') = l_data (m_las m) /\ m_index_initial m' = m_index_initial m /\
  l_other (m_las m') = l_other (m_las m) /\ l_custom (m_las m') = l_custom (m_las m).
Proof.
  intro H. destruct (write_ok_inv _ _ _ _ H) as (wrap & l1 & v & l2 & H1 & _ & H3 & -> & _).
  destruct (wrap_step_fields _ _ _ _ H1) as (_ & _ & _ & F4 & F5 & F6 & _).
  destruct (refresh_fields _ _ _ H3) as (_ & _ & G3 & G4 & G5 & _).
  cbn [m_las m_index_initial] in *.
  change (l_data (norm l2)) with (l_data l2). change (l_other (norm l2)) with (l_other l2).
  change (l_custom (norm l2)) with (l_custom l2).
  rewrite G3, G4, G5, F4, F5, F6. repeat split.
Qed.

Theorem write_curves_frame o m text m' :
  write o m = WOk text m' ->
  Forall2 cframe (s_items (l_curves (m_las m))) (s_items (l_curves (m_las m'))) /\
  tl (s_items (l_curves (m_las m'))) = tl (s_items (l_curves (m_las m))) /\
  s_transforms (l_curves (m_las m')) = s_transforms (l_curves (m_las m)).
Proof.
  intro H. destruct (write_ok_inv _ _ _ _ H) as (wrap & l1 & v & l2 & H1 & _ & H3 & -> & _).
  destruct (wrap_step_fields _ _ _ _ H1) as (_ & F2 & _).
  destruct (refresh_inv _ _ _ _ _ _ H3) as (need & nS & nP & nE & _ & _ & _ & _ & ->).
  cbn [m_las m_index_initial] in *.
  change (l_curves (norm (refresh_result fmtv fmt_diff (col_fmt o 0%nat) l1 need nS nP nE)))
    with (mksect (curves_aligned l1 (unit_of l1 nS)) (s_transforms (l_curves l1))).
  cbn [s_items s_transforms].
  destruct (curves_aligned_frame l1 (unit_of l1 nS)) as [A B].
  unfold curves_aligned in *. rewrite F2 in *. repeat split; assumption.
Qed.

Theorem write_params_frame o m text m' :
  write o m = WOk text m' ->
  l_params (m_las m') = map_section (stdf fzero) (l_params (m_las m)).
Proof.
  intro H. destruct (write_ok_inv _ _ _ _ H) as (wrap & l1 & v & l2 & H1 & _ & H3 & -> & _).
  destruct (wrap_step_fields _ _ _ _ H1) as (_ & _ & F3 & _).
  destruct (refresh_fields _ _ _ H3) as (_ & G2 & _).
  cbn [m_las m_index_initial] in *.
  change (l_params (norm l2)) with (map_section (stdf fzero) (l_params l2)).
  rewrite G2, F3. reflexivity.
Qed.

Theorem write_well_frame o m text m' :
  write o m = WOk text m' ->
  Forall2 (wframe_n fzero (s_transforms (l_well (m_las m))))
          (s_items (l_well (m_las m))) (s_items (l_well (m_las m'))) /\
  s_transforms (l_well (m_las m')) = s_transforms (l_well (m_las m)).
Proof.
  intro H. destruct (write_ok_inv _ _ _ _ H) as (wrap & l1 & v & l2 & H1 & _ & H3 & -> & _).
  destruct (wrap_step_fields _ _ _ _ H1) as (F1 & _).
  destruct (refresh_inv _ _ _ _ _ _ H3) as (need & nS & nP & nE & _ & HS & HP & HE & ->).
  cbn [m_las m_index_initial] in *.
  split.
  - rewrite <- F1. apply refresh_norm_well_frame; assumption.
  - rewrite <- F1. reflexivity.
Qed.

Theorem write_version_frame o m text m' :
  write o m = WOk text m' ->
  match wo_wrap o with
  | None => l_version (m_las m') = l_version (m_las m)
  | Some b => l_version (m_las m') =
              mksect (set_item (s_transforms (l_version (m_las m))) k_wrap (wrap_item b)
                               (s_items (l_version (m_las m))))
                     (s_transforms (l_version (m_las m)))
  end.
Proof.
  intro H. destruct (write_ok_inv _ _ _ _ H) as (wrap & l1 & v & l2 & H1 & _ & H3 & -> & _).
  destruct (refresh_fields _ _ _ H3) as (G1 & _).
  cbn [m_las m_index_initial] in *.
  change (l_version (norm l2)) with (l_version l2). rewrite G1.
  destruct (wo_wrap o) as [b|] eqn:E.
  - rewrite (wrap_step_some o _ b E) in H1. injection H1 as _ <-. reflexivity.
  - rewrite (wrap_step_none o _ E) in H1. destruct (sect_find _ _ _); [|discriminate].
    injection H1 as _ <-. reflexivity.
Qed.

Theorem write_header_frame o m text m' :
  write o m = WOk text m' ->
  (Forall2 cframe (s_items (l_curves (m_las m))) (s_items (l_curves (m_las m'))) /\
   tl (s_items (l_curves (m_las m'))) = tl (s_items (l_curves (m_las m)))) /\
  l_params (m_las m') = map_section (stdf fzero) (l_params (m_las m)) /\
  Forall2 (wframe_n fzero (s_transforms (l_well (m_las m))))
          (s_items (l_well (m_las m))) (s_items (l_well (m_las m'))) /\
  match wo_wrap o with
  | None => l_version (m_las m') = l_version (m_las m)
  | Some b => l_version (m_las m') =
              mksect (set_item (s_transforms (l_version (m_las m))) k_wrap (wrap_item b)
                               (s_items (l_version (m_las m))))
                     (s_transforms (l_version (m_las m)))
  end.
Proof.
  intro H.
  destruct (write_curves_frame _ _ _ _ H) as (A & B & _).
  destruct (write_well_frame _ _ _ _ H) as (C & _).
  split; [split; assumption|]. split; [exact (write_params_frame _ _ _ _ H)|].
  split; [exact C|exact (write_version_frame _ _ _ _ H)].
Qed.

(* the in-memory VERS item: untouched, whatever version= says *)
Theorem write_vers_untouched o m text m' :
  write o m = WOk text m' ->
  (wo_wrap o <> None ->
   named_once (s_transforms (l_version (m_las m))) k_wrap (s_items (l_version (m_las m)))) ->
  s_transforms (l_version (m_las m')) = s_transforms (l_version (m_las m)) /\
  sect_find (s_transforms (l_version (m_las m))) k_vers (s_items (l_version (m_las m'))) =
  sect_find (s_transforms (l_version (m_las m))) k_vers (s_items (l_version (m_las m))).
Proof.
  intros H Hw. pose proof (write_version_frame _ _ _ _ H) as F.
  destruct (wo_wrap o) as [b|].
  - rewrite F. cbn [s_items s_transforms]. split; [reflexivity|].
    apply set_wrap_keeps; [apply Hw; discriminate|apply k_wrap_vers].
  - rewrite F. split; reflexivity.
Qed.

(* the resulting object depends on no option other than wrap= and the format of the index
   column (column_fmt[0] or fmt), with which STRT/STOP/STEP are printed *)
Theorem write_state_wrap_only o1 o2 m t1 t2 m1 m2 :
  wo_wrap o1 = wo_wrap o2 -> col_fmt o1 0%nat = col_fmt o2 0%nat ->
  write o1 m = WOk t1 m1 -> write o2 m = WOk t2 m2 -> m1 = m2.
Proof.
  intros E Ef H1 H2.
  destruct (write_ok_inv _ _ _ _ H1) as (w1 & l1 & v1 & l2 & A1 & _ & A3 & -> & _).
  destruct (write_ok_inv _ _ _ _ H2) as (w2 & l1' & v2 & l2' & B1 & _ & B3 & -> & _).
  assert (X : wrap_step_of o1 (m_las m) = wrap_step_of o2 (m_las m)) by (unfold wrap_step_of; rewrite E; reflexivity).
  rewrite X, B1 in A1. injection A1 as _ <-. rewrite Ef, B3 in A3. injection A3 as <-. reflexivity.
Qed.

(* version= never reaches memory *)
Definition set_wo_version (o : wopts) (ver : option wver) : wopts :=
  mkwopts ver (wo_wrap o) (wo_fmt o) (wo_column_fmt o) (wo_len_numeric_field o) (wo_lhs_spacer o)
          (wo_spacer o) (wo_data_width o) (wo_header_width o) (wo_data_section_header o) (wo_mnemonics_header o).

Theorem write_version_in_memory o ver m t1 t2 m1 m2 :
  write o m = WOk t1 m1 -> write (set_wo_version o ver) m = WOk t2 m2 -> m1 = m2.
Proof. apply write_state_wrap_only; reflexivity. Qed.

(* ---- C16: the text is a function of the resulting state and the options ---------------------------- *)
Definition render (o : wopts) (l3 : las) : option (list N) :=
  let trv := s_transforms (l_version l3) in
  match vers_of o trv (l_version l3) with
  | None => None
  | Some v => render_text o (match wo_wrap o with Some b => b | None => false end) v (vsw_of v trv (l_version l3)) l3
  end.

Theorem write_text_function_of_state o m text m' :
  write o m = WOk text m' -> render o (m_las m') = Some text.
Proof.
  intro H. destruct (write_ok_inv _ _ _ _ H) as (wrap & l1 & v & l2 & H1 & H2 & H3 & -> & H5).
  destruct (wrap_step_fields _ _ _ _ H1) as (_ & _ & _ & _ & _ & _ & F7 & ->).
  destruct (refresh_fields _ _ _ H3) as (G1 & _).
  cbn [m_las m_index_initial] in *.
  unfold render. change (l_version (norm l2)) with (l_version l2). rewrite G1, F7, H2. exact H5.
Qed.

(* ---- C16: idempotence -------------------------------------------------------------------------------- *)
Lemma with_version_self l : with_version l (l_version l) = l.
Proof. destruct l. reflexivity. Qed.

Theorem write_idempotent o m text m' :
  (wo_wrap o <> None ->
   named_once (s_transforms (l_version (m_las m))) k_wrap (s_items (l_version (m_las m)))) ->
  write o m = WOk text m' -> write o m' = WOk text m'.
Proof.
  intros Hw H. destruct (write_ok_inv _ _ _ _ H) as (wrap & l1 & v & l2 & H1 & H2 & H3 & -> & H5).
  destruct (wrap_step_fields _ _ _ _ H1) as (_ & _ & _ & _ & _ & _ & F7 & Ewrap).
  destruct (refresh_fields _ _ _ H3) as (G1 & _).
  cbn [m_las m_index_initial] in *.
  assert (A : l_version (norm l2) = l_version l1) by exact G1.
  assert (C : wrap_step_of o (norm l2) = Some (wrap, norm l2)).
  { destruct (wo_wrap o) as [b|] eqn:E.
    - rewrite (wrap_step_some o _ b E) in H1. injection H1 as <- <-.
      rewrite (wrap_step_some o _ b E). f_equal. f_equal.
      rewrite A. cbn [l_version with_version s_items s_transforms].
      rewrite set_wrap_idem by (apply Hw; discriminate).
      rewrite <- (with_version_self (norm l2)) at 2. rewrite A. reflexivity.
    - rewrite (wrap_step_none o _ E) in H1. rewrite (wrap_step_none o _ E).
      destruct (sect_find _ _ _) eqn:EF in H1; [|discriminate]. injection H1 as <- <-.
      rewrite A, EF. reflexivity. }
  rewrite write_eq. cbn [m_las m_index_initial].
  rewrite C, A, F7, H2.
  destruct (refresh_std_idem fmtv fmt_diff numeq (col_fmt o 0%nat) fzero _ _ H3) as (l2' & R1 & R2).
  cbn [m_las m_index_initial] in R1. rewrite R1, R2.
  unfold write_tail. rewrite H5. reflexivity.
Qed.

Corollary write_idempotent_nowrap o m text m' :
  wo_wrap o = None -> write o m = WOk text m' -> write o m' = WOk text m'.
Proof. intros E. apply write_idempotent. intro H. contradiction. Qed.

(* ---- C16: truthfulness of STRT / STOP / STEP ------------------------------------------------------ *)
(* the unit everything is aligned to: curve 0's when it has one, else STRT's *)
Definition aligned_unit (l : las) : list N :=
  match c0unit_of l with
  | [] => match sect_find (s_transforms (l_well l)) k_strt (s_items (l_well l)) with
          | Some it => i_unit it | None => [] end
  | _ => c0unit_of l
  end.

Lemma unit_of_aligned l nS :
  fidx (s_transforms (l_well l)) k_strt (s_items (l_well l)) = Some nS -> unit_of l nS = aligned_unit l.
Proof. intro H. unfold unit_of, aligned_unit. rewrite sect_find_nth, H. reflexivity. Qed.

Lemma need_of_ext f l l' ii :
  l_well l = l_well l' -> l_curves l = l_curves l' -> l_data l = l_data l' ->
  need_of fmtv numeq f (mkmlas l ii) = need_of fmtv numeq f (mkmlas l' ii).
Proof. intros H1 H3 H2. unfold need_of, index_of. cbn [m_las m_index_initial]. rewrite H1, H2, H3. reflexivity. Qed.

Lemma aligned_unit_ext l l' :
  l_well l = l_well l' -> l_curves l = l_curves l' -> aligned_unit l = aligned_unit l'.
Proof. intros H1 H2. unfold aligned_unit, c0unit_of. rewrite H1, H2. reflexivity. Qed.

(* when lasio decides to refresh.  With index_initial set, writer.write evaluates las.index
   unguarded: the three lemmas about that case carry "at least one curve" (without a curve the
   call raises IndexError: need_no_curve, write_no_curve_raises).
   f is the format of the index column: STOP is compared with the value that format prints
   for the last cell of index_initial (float(f % last) != STOP.value), not with the cell. *)
Lemma need_created f m : m_index_initial m = None -> need_of fmtv numeq f m = Some true.
Proof. unfold need_of. intros ->. reflexivity. Qed.

Lemma need_changed f m iv lastc rr svv :
  m_index_initial m = Some iv -> s_items (l_curves (m_las m)) <> [] -> rev iv = lastc :: rr ->
  item_value_by (s_transforms (l_well (m_las m))) k_stop (s_items (l_well (m_las m))) = Some svv ->
  cells_equal numeq iv (index_of (m_las m)) = false ->
  need_of fmtv numeq f m = Some true.
Proof.
  unfold need_of. intros -> Hc -> H1 H2. fold k_stop. rewrite H1, H2.
  destruct (s_items (l_curves (m_las m))); [contradiction|reflexivity].
Qed.

Lemma need_stop_differs_int f m iv t rr z :
  m_index_initial m = Some iv -> s_items (l_curves (m_las m)) <> [] -> rev iv = CNum t :: rr ->
  item_value_by (s_transforms (l_well (m_las m))) k_stop (s_items (l_well (m_las m))) = Some (VInt z) ->
  numeq (fmtv f t) (z_to_str z) = false ->
  need_of fmtv numeq f m = Some true.
Proof.
  unfold need_of. intros -> Hc -> H1 H2. fold k_stop. rewrite H1, H2. rewrite orb_true_r.
  destruct (s_items (l_curves (m_las m))); [contradiction|reflexivity].
Qed.

Lemma need_stop_differs_float f m iv t rr x :
  m_index_initial m = Some iv -> s_items (l_curves (m_las m)) <> [] -> rev iv = CNum t :: rr ->
  item_value_by (s_transforms (l_well (m_las m))) k_stop (s_items (l_well (m_las m))) = Some (VFloat x) ->
  numeq (fmtv f t) x = false ->
  need_of fmtv numeq f m = Some true.
Proof.
  unfold need_of. intros -> Hc -> H1 H2. fold k_stop. rewrite H1, H2. rewrite orb_true_r.
  destruct (s_items (l_curves (m_las m))); [contradiction|reflexivity].
Qed.

Lemma need_stop_text f m iv lastc rr s :
  m_index_initial m = Some iv -> s_items (l_curves (m_las m)) <> [] -> rev iv = lastc :: rr ->
  item_value_by (s_transforms (l_well (m_las m))) k_stop (s_items (l_well (m_las m))) = Some (VStr s) ->
  need_of fmtv numeq f m = Some true.
Proof.
  unfold need_of. intros -> Hc -> H1. fold k_stop. rewrite H1.
  destruct (s_items (l_curves (m_las m))); [contradiction|].
  destruct lastc; rewrite orb_true_r; reflexivity.
Qed.

(* no curve and index_initial set: `las.index` raises IndexError *)
Lemma need_no_curve f m iv :
  m_index_initial m = Some iv -> s_items (l_curves (m_las m)) = [] -> need_of fmtv numeq f m = None.
Proof. unfold need_of. intros -> ->. reflexivity. Qed.

Theorem write_units_aligned o m text m' :
  write o m = WOk text m' ->
  let trw := s_transforms (l_well (m_las m)) in
  let u := aligned_unit (m_las m) in
  exists s p e,
    sect_find trw k_strt (s_items (l_well (m_las m'))) = Some s /\ i_unit s = u /\
    sect_find trw k_stop (s_items (l_well (m_las m'))) = Some p /\ i_unit p = u /\
    sect_find trw k_step (s_items (l_well (m_las m'))) = Some e /\ i_unit e = u /\
    (forall c0 rest, s_items (l_curves (m_las m')) = c0 :: rest -> i_unit c0 = u).
Proof.
  intro H. destruct (write_ok_inv _ _ _ _ H) as (wrap & l1 & v & l2 & H1 & _ & H3 & -> & _).
  destruct (wrap_step_fields _ _ _ _ H1) as (F1 & F2 & _).
  destruct (refresh_inv _ _ _ _ _ _ H3) as (need & nS & nP & nE & _ & HS & HP & HE & ->).
  cbn [m_las m_index_initial] in *. cbv zeta.
  rewrite <- (aligned_unit_ext l1 (m_las m) F1 F2), <- F1, <- (unit_of_aligned l1 nS HS).
  destruct (after_units fmtv fmt_diff (col_fmt o 0%nat) (standardize fzero) l1 need nS nP nE HS HP HE)
    as (a & b & c & A1 & A2 & B1 & B2 & C1 & C2).
  exists a, b, c. repeat split; try assumption.
  intros c0 rest.
  change (s_items (l_curves (norm (refresh_result fmtv fmt_diff (col_fmt o 0%nat) l1 need nS nP nE))))
    with (curves_aligned l1 (unit_of l1 nS)).
  unfold curves_aligned. destruct (s_items (l_curves l1)); [discriminate|].
  intro E. injection E as <- _. reflexivity.
Qed.

Lemma step_of_two f a b rest z rr :
  rev (CNum a :: CNum b :: rest) = CNum z :: rr ->
  step_of fmtv fmt_diff f (CNum a :: CNum b :: rest) =
  if str_eqb (fmtv f a) (fmtv f z) then VNone else VStr (fmt_diff f b a).
Proof. intro H. unfold step_of, strt_of, stop_of. rewrite H. reflexivity. Qed.

Lemma step_of_single f c : step_of fmtv fmt_diff f [c] = VNone.
Proof. destruct c; reflexivity. Qed.

(* a NaN second sample after a numeric first one: first increment NaN *)
Lemma step_of_nan f a rest z rr :
  rev (CNum a :: CNaN :: rest) = CNum z :: rr ->
  step_of fmtv fmt_diff f (CNum a :: CNaN :: rest) =
  if str_eqb (fmtv f a) (fmtv f z) then VNone else VStr (s2l "nan").
Proof. intro H. unfold step_of, strt_of, stop_of. rewrite H. reflexivity. Qed.

Theorem write_truth o m text m' a rest z rr :
  write o m = WOk text m' ->
  need_of fmtv numeq (col_fmt o 0%nat) m = Some true ->
  index_of (m_las m) = CNum a :: rest -> rev (index_of (m_las m)) = CNum z :: rr ->
  let trw := s_transforms (l_well (m_las m)) in
  let u := aligned_unit (m_las m) in
  exists s p e,
    sect_find trw k_strt (s_items (l_well (m_las m'))) = Some s /\
    sect_find trw k_stop (s_items (l_well (m_las m'))) = Some p /\
    sect_find trw k_step (s_items (l_well (m_las m'))) = Some e /\
    i_value s = standardize fzero (VStr (fmtv (col_fmt o 0%nat) a)) u /\
    i_value p = standardize fzero (VStr (fmtv (col_fmt o 0%nat) z)) u /\
    i_value e = standardize fzero (step_of fmtv fmt_diff (col_fmt o 0%nat) (index_of (m_las m))) u /\
    i_unit s = u /\ i_unit p = u /\ i_unit e = u.
Proof.
  intros H Hneed Hfirst Hlast.
  destruct (write_ok_inv _ _ _ _ H) as (wrap & l1 & v & l2 & H1 & _ & H3 & -> & _).
  destruct (wrap_step_fields _ _ _ _ H1) as (F1 & F2 & _ & _ & _ & F6 & _).
  destruct (refresh_inv _ _ _ _ _ _ H3) as (need & nS & nP & nE & Hn & HS & HP & HE & ->).
  cbn [m_las m_index_initial] in *. cbv zeta.
  assert (need = true).
  { destruct m as [l0 ii]. cbn [m_las m_index_initial] in *.
    rewrite (need_of_ext _ l1 l0 ii F1 F2 F6), Hneed in Hn. injection Hn as <-. reflexivity. }
  subst need.
  assert (EI : index_of l1 = index_of (m_las m)) by (unfold index_of; rewrite F2, F6; reflexivity).
  rewrite <- (aligned_unit_ext l1 (m_las m) F1 F2), <- F1, <- (unit_of_aligned l1 nS HS).
  destruct (after_find_strt fmtv fmt_diff (col_fmt o 0%nat) (standardize fzero) l1 true nS nP nE HS HP HE eq_refl) as (itS & _ & AS).
  destruct (after_find_stop fmtv fmt_diff (col_fmt o 0%nat) (standardize fzero) l1 true nS nP nE HS HP HE eq_refl) as (itP & _ & AP).
  destruct (after_find_step fmtv fmt_diff (col_fmt o 0%nat) (standardize fzero) l1 true nS nP nE HS HP HE eq_refl) as (itE & _ & AE).
  eexists _, _, _. split; [exact AS|]. split; [exact AP|]. split; [exact AE|].
  rewrite EI. cbn [hf su sv set_value set_unit i_value i_unit].
  unfold strt_of, stop_of. rewrite Hlast, Hfirst. repeat split.
Qed.

(* the same with the values spelled out, for formats that never print an empty text *)
Theorem write_truth_texts o m text m' a rest z rr :
  (forall t, fmtv (col_fmt o 0%nat) t <> []) ->
  write o m = WOk text m' ->
  need_of fmtv numeq (col_fmt o 0%nat) m = Some true ->
  index_of (m_las m) = CNum a :: rest -> rev (index_of (m_las m)) = CNum z :: rr ->
  let trw := s_transforms (l_well (m_las m)) in
  exists s p e,
    sect_find trw k_strt (s_items (l_well (m_las m'))) = Some s /\ i_value s = VStr (fmtv (col_fmt o 0%nat) a) /\
    sect_find trw k_stop (s_items (l_well (m_las m'))) = Some p /\ i_value p = VStr (fmtv (col_fmt o 0%nat) z) /\
    sect_find trw k_step (s_items (l_well (m_las m'))) = Some e /\
    (forall b rest', rest = CNum b :: rest' -> str_eqb (fmtv (col_fmt o 0%nat) a) (fmtv (col_fmt o 0%nat) z) = false -> fmt_diff (col_fmt o 0%nat) b a <> [] ->
       i_value e = VStr (fmt_diff (col_fmt o 0%nat) b a)) /\
    (rest = [] \/ (exists b rest', rest = CNum b :: rest' /\ str_eqb (fmtv (col_fmt o 0%nat) a) (fmtv (col_fmt o 0%nat) z) = true) ->
       i_value e = standardize fzero VNone (aligned_unit (m_las m))).
Proof.
  intros Hne H Hneed Hfirst Hlast.
  destruct (write_truth o m text m' a rest z rr H Hneed Hfirst Hlast) as (s & p & e & A & B & C & VS & VP & VE & _).
  exists s, p, e. split; [exact A|]. split.
  { rewrite VS. pose proof (Hne a) as X. destruct (fmtv (col_fmt o 0%nat) a); [congruence|apply standardize_text]. }
  split; [exact B|]. split.
  { rewrite VP. pose proof (Hne z) as X. destruct (fmtv (col_fmt o 0%nat) z); [congruence|apply standardize_text]. }
  split; [exact C|]. split.
  - intros b rest' -> Hd Hnd. rewrite VE, Hfirst.
    rewrite Hfirst in Hlast. rewrite (step_of_two _ a b rest' z rr Hlast), Hd.
    destruct (fmt_diff (col_fmt o 0%nat) b a); [congruence|apply standardize_text].
  - intros [->|(b & rest' & -> & Heq)]; rewrite VE, Hfirst.
    + rewrite step_of_single. reflexivity.
    + rewrite Hfirst in Hlast. rewrite (step_of_two _ a b rest' z rr Hlast), Heq. reflexivity.
Qed.

(* index [a; nan; ...; z] with different STRT / STOP texts: STEP is the text "nan" (the first
   increment is NaN), whatever the unit *)
Theorem write_truth_step_nan o m text m' a rest z rr :
  write o m = WOk text m' ->
  need_of fmtv numeq (col_fmt o 0%nat) m = Some true ->
  index_of (m_las m) = CNum a :: CNaN :: rest -> rev (index_of (m_las m)) = CNum z :: rr ->
  str_eqb (fmtv (col_fmt o 0%nat) a) (fmtv (col_fmt o 0%nat) z) = false ->
  exists e, sect_find (s_transforms (l_well (m_las m))) k_step (s_items (l_well (m_las m'))) = Some e /\ i_value e = VStr (s2l "nan").
Proof.
  intros H Hneed Hfirst Hlast Hd.
  destruct (write_truth o m text m' a _ z rr H Hneed Hfirst Hlast) as (s & p & e & _ & _ & C & _ & _ & VE & _).
  exists e. split; [exact C|]. rewrite VE, Hfirst.
  rewrite Hfirst in Hlast. rewrite (step_of_nan _ a rest z rr Hlast), Hd. apply standardize_text.
Qed.

(* no curve and index_initial set (a file was read, its curves deleted): `las.index` raises
   IndexError in writer.write, whatever the options *)
Theorem write_no_curve_raises o m iv :
  m_index_initial m = Some iv -> s_items (l_curves (m_las m)) = [] -> exists e, write o m = WErr e.
Proof.
  intros Hi Hc. destruct (write o m) as [text m'|e] eqn:E; [exfalso|eexists; reflexivity].
  destruct (write_ok_inv _ _ _ _ E) as (wrap & l1 & v & l2 & H1 & _ & H3 & _ & _).
  destruct (wrap_step_fields _ _ _ _ H1) as (_ & F2 & _).
  destruct (refresh_inv _ _ _ _ _ _ H3) as (need & nS & nP & nE & Hn & _).
  rewrite (need_no_curve _ (mkmlas l1 (m_index_initial m)) iv Hi) in Hn; [discriminate|].
  cbn [m_las]. rewrite F2. exact Hc.
Qed.

End WriteLevel.
