(* Proofs.FuncsPinWriter — the header-line layout of Model/Writer.v IS writer.py's
   get_section_order_function, get_formatter_function and get_section_widths, and HeaderItem's
   key dispatch (__getitem__) they use (Gen/Funcs.v, re-translated from /repo on every run).

     order_of_pin       Writer.order_of           = get_section_order_function(section, version)(mnemonic)
     format_item_pin    Writer.format_item        = get_formatter_function(order, lw, mw)(item)
     widths_pin         widths_left/widths_middle = get_section_widths(_, items, _, order_func)
     section_lines_unfold   Writer.section_lines is exactly the composition of the three

   Restated as C12_order_current, C12_format_current, C12_widths_current. *)
From Coq Require Import List Arith NArith ZArith Bool Lia ZifyBool ZifyN ZifyNat String.
Import ListNotations.
Require Import PyStr Regex Regexes Tables Funcs Num HeaderLine SectionParse Writer FuncsPinsLib FuncsPinStandardize.
Open Scope list_scope.
Open Scope N_scope.

(* the header item of the model as the translated functions see it *)
Definition item_of (it : hitem) : py_item hval :=
  mk_py_item (i_sess it) (i_orig it) (i_unit it) (i_value it) (i_descr it).

(* ---------- str_eqb / dict facts ---------------------------------------------------------------- *)
Lemma str_eqb_refl : forall a : list N, str_eqb a a = true.
Proof. induction a as [|x a IH]; cbn [str_eqb]; [reflexivity|]. rewrite N.eqb_refl, IH. reflexivity. Qed.

Lemma str_eqb_sym : forall a b : list N, str_eqb a b = str_eqb b a.
Proof.
  induction a as [|x a IH]; destruct b as [|y b]; cbn [str_eqb]; try reflexivity.
  rewrite N.eqb_sym, IH. reflexivity.
Qed.

Lemma dict_item_set {A : Type} : forall (d : list (list N * A)) k v m,
  pyo_dict_item (pyo_dict_set d k v) m = if str_eqb k m then Some v else pyo_dict_item d m.
Proof.
  induction d as [|[k' v'] d IH]; intros k v m; cbn [pyo_dict_set pyo_dict_item].
  - reflexivity.
  - destruct (str_eqb k' k) eqn:E; cbn [pyo_dict_item].
    + apply str_eqb_true in E. subst k'. destruct (str_eqb k m); reflexivity.
    + rewrite IH. destruct (str_eqb k' m) eqn:E2; [|reflexivity].
      apply str_eqb_true in E2. subst k'. rewrite str_eqb_sym, E. reflexivity.
Qed.

(* ---------- get_section_order_function ----------------------------------------------------------- *)
Lemma version_eqb_same : forall a b, pyo_version_eqb a b = las_version_eqb a b.
Proof. intros a b; destruct a; destruct b; reflexivity. Qed.

Lemma order_lookup_same : forall t v s, pyo_order_lookup t v s = lookup_order_entry v s t.
Proof.
  induction t as [|[[v' s'] e] t IH]; intros v s; cbn [pyo_order_lookup lookup_order_entry]; [reflexivity|].
  rewrite version_eqb_same, IH. reflexivity.
Qed.

Lemma orders_inner : forall (ms : list (list N)) (d : list (list N * list N)) (o m : list N),
  pyo_dict_item (fold_left (fun d mn => pyo_dict_set d mn o) ms d) m
  = if existsb (str_eqb m) ms then Some o else pyo_dict_item d m.
Proof.
  induction ms as [|mn ms IH]; intros d o m; cbn [fold_left existsb]; [reflexivity|].
  rewrite IH, dict_item_set, (str_eqb_sym mn m).
  destruct (str_eqb m mn); cbn [orb]; [destruct (existsb (str_eqb m) ms)|]; reflexivity.
Qed.

Lemma orders_outer : forall (ex : list (item_order * list (list N))) (d : list (list N * list N)) m acc,
  pyo_dict_item d m = option_map order_str acc ->
  pyo_dict_item
    (fold_left (fun d (x : item_order * list (list N)) =>
                  fold_left (fun d mn => pyo_dict_set d mn (order_str (fst x))) (snd x) d) ex d) m
  = option_map order_str (order_from_exceptions m ex acc).
Proof.
  induction ex as [|[o ms] ex IH]; intros d m acc H; cbn [fold_left order_from_exceptions fst snd]; [exact H|].
  apply IH. rewrite orders_inner, H. destruct (existsb (str_eqb m) ms); reflexivity.
Qed.

(* None on both sides: (version, section) is not a key of ORDER_DEFINITIONS (KeyError) *)
Theorem order_of_pin : forall v sect m,
  option_map order_str (order_of v sect m) = py_get_section_order_function sect v order_definitions m.
Proof.
  intros v sect m. unfold order_of, py_get_section_order_function.
  rewrite order_lookup_same.
  destruct (lookup_order_entry v sect order_definitions) as [[dflt ex]|]; cbn [obind option_map fst snd]; [|reflexivity].
  unfold pyo_dict_get.
  pose proof (orders_outer ex [] m None eq_refl) as H1.
  pose proof (orders_outer ex [] (pyo_upper m) None eq_refl) as H2.
  cbv zeta. cbv zeta in H1, H2. rewrite H1, H2. unfold pyo_upper, upper.
  destruct (order_from_exceptions m ex None); cbn [option_map]; [reflexivity|].
  destruct (order_from_exceptions (map ascii_upper m) ex None); reflexivity.
Qed.

(* ---------- get_formatter_function ---------------------------------------------------------------- *)
Lemma str_mul_space : forall n, pyo_str_mul [32] (Z.of_nat n) = repeat_ch 32 n.
Proof.
  intros n. unfold pyo_str_mul, repeat_ch. rewrite Nat2Z.id.
  induction n as [|n IH]; simpl; [reflexivity|]. f_equal. exact IH.
Qed.

Lemma str_mul_nat : forall a b c : nat,
  pyo_str_mul [32] (Z.of_nat a - Z.of_nat b - Z.of_nat c) = repeat_ch 32 (a - b - c).
Proof.
  intros a b c. rewrite <- str_mul_space. unfold pyo_str_mul. f_equal. f_equal. lia.
Qed.

Lemma ljust_same : forall (s : list N) w, pyo_ljust s (Z.of_nat w) = ljust w 32 s.
Proof.
  intros s w. unfold pyo_ljust, ljust, repeat_ch, pyo_len. f_equal. f_equal. lia.
Qed.

Lemma match_46 {A : Type} : forall (c : N) (x y : A),
  match c with 46 => x | _ => y end = if 46 =? c then x else y.
Proof.
  intros c x y. destruct c as [|p]; [reflexivity|].
  do 7 (try (destruct p as [p|p|]; try reflexivity)).
Qed.

Lemma left_col_same : forall lw it,
  left_col lw it =
  (let v_left := pyo_ljust (i_orig it) (Z.of_nat lw) in
   let v_left := if endswith [46] (i_orig it) then i_orig it else v_left in
   if startswith [46] (i_unit it) && negb (endswith [32] v_left) then v_left ++ [32] else v_left).
Proof.
  intros lw it. unfold left_col. cbv zeta. rewrite ljust_same. unfold ch_dot.
  set (l := if endswith [46] (i_orig it) then i_orig it else ljust lw 32 (i_orig it)).
  destruct (i_unit it) as [|c u]; cbn [startswith andb]; [reflexivity|].
  rewrite (match_46 c). rewrite andb_true_r.
  destruct (46 =? c); cbn [andb]; [|reflexivity].
  destruct (endswith [32] l); reflexivity.
Qed.

(* lw, mw: the widths write() passes (never None there); order_str o: the two order strings *)
Theorem format_item_pin : forall fstr fzero o lw mw it,
  Some (format_item fstr o lw mw it)
  = py_get_formatter_function (hval_ops fstr fzero) (order_str o) (Some (Z.of_nat lw)) (Some (Z.of_nat mw)) (item_of it).
Proof.
  intros fstr fzero o lw mw it. unfold py_get_formatter_function, format_item. cbv zeta.
  rewrite (left_col_same lw it). cbv zeta.
  unfold item_of, hval_ops. cbn [it_original_mnemonic it_unit it_value it_descr dyn_str].
  unfold pyo_len.
  destruct o; cbn [order_str str_eqb N.eqb Pos.eqb andb rhs_text tail_text]; f_equal;
    rewrite str_mul_nat; unfold ch_dot;
    let x := eval compute in (s2l " : ") in change (s2l " : ") with x;
    rewrite <- !app_assoc; reflexivity.
Qed.

(* an order string other than the two: get_formatter_function returns None, calling it raises *)
Lemma formatter_other_order : forall fstr fzero ord lw mw it,
  str_eqb ord (order_str ValueDescr) = false -> str_eqb ord (order_str DescrValue) = false ->
  py_get_formatter_function (hval_ops fstr fzero) ord lw mw it = None.
Proof.
  intros fstr fzero ord lw mw it H1 H2. unfold py_get_formatter_function. cbv zeta.
  cbn [order_str] in H1, H2. rewrite H1, H2. reflexivity.
Qed.

(* ---------- HeaderItem.__getitem__ ---------------------------------------------------------------- *)
Lemma getitem_rhs : forall fstr fzero o it,
  option_map (dyn_str (hval_ops fstr fzero))
    (py_item_getitem (hval_ops fstr fzero) (item_of it) (pyo_split_first [58] (order_str o)))
  = Some (rhs_text fstr o it).
Proof. intros fstr fzero o it. destruct o; reflexivity. Qed.

(* ---------- get_section_widths -------------------------------------------------------------------- *)
Definition widths_left (items : list hitem) : nat :=
  max_list (List.map (fun it => List.length (i_orig it)) items).
Definition widths_middle (fstr : list N -> list N) (ord : hitem -> item_order) (items : list hitem) : nat :=
  max_list (List.map (fun it => (List.length (i_unit it) + 1 + List.length (rhs_text fstr (ord it) it))%nat) items).

Lemma fold_max_nat : forall (l : list nat) a,
  fold_left Z.max (List.map Z.of_nat l) (Z.of_nat a) = Z.of_nat (fold_left Nat.max l a).
Proof.
  induction l as [|x l IH]; intros a; cbn [fold_left map]; [reflexivity|].
  rewrite <- Nat2Z.inj_max. apply IH.
Qed.

Lemma pyo_max_nat : forall (l : list nat), l <> [] ->
  pyo_max (List.map Z.of_nat l) = Some (Z.of_nat (max_list l)).
Proof.
  intros [|x l] H; [congruence|]. unfold pyo_max, max_list. cbn [map fold_left].
  rewrite fold_max_nat. reflexivity.
Qed.

Definition key_left_width : list N := Eval compute in s2l "left_width".
Definition key_middle_width : list N := Eval compute in s2l "middle_width".

(* order_func is any function into the two order strings (write() passes the function that
   get_section_order_function returns) *)
Theorem widths_pin : forall fstr fzero (ordf : list N -> item_order) items,
  py_get_section_widths (hval_ops fstr fzero) (List.map item_of items) (fun m => order_str (ordf m))
  = Some (match items with
          | [] => [(key_left_width, None); (key_middle_width, None)]
          | _ => [(key_left_width, Some (Z.of_nat (widths_left items)));
                  (key_middle_width, Some (Z.of_nat (widths_middle fstr (fun it => ordf (i_orig it)) items)))]
          end).
Proof.
  intros fstr fzero ordf items. unfold py_get_section_widths. cbv zeta.
  destruct items as [|it0 items0]; [reflexivity|].
  set (items := it0 :: items0). assert (Hne : items <> []) by (unfold items; congruence).
  assert (Hlen : (0 <? pyo_llen (List.map item_of items))%Z = true)
    by (unfold pyo_llen, items; cbn [map List.length]; lia).
  rewrite Hlen.
  (* left width *)
  rewrite map_map. cbn [item_of it_original_mnemonic]. unfold pyo_len at 1.
  rewrite <- (map_map (fun it => List.length (i_orig it)) Z.of_nat).
  rewrite pyo_max_nat by (intros H; apply map_eq_nil in H; exact (Hne H)).
  cbn [obind].
  (* the loop *)
  assert (Hfold : forall (l : list hitem) (acc : list Z),
    fold_left (fun (a : option (list Z)) (v_i : py_item hval) =>
      obind a (fun v_middle_widths =>
        obind (obind (obind (obind (obind
          (py_item_getitem (hval_ops fstr fzero) v_i (pyo_split_first [58] (order_str (ordf (it_original_mnemonic v_i)))))
          (fun t => Some (dyn_str (hval_ops fstr fzero) t)))
          (fun t => Some (pyo_len t)))
          (fun t => Some ((pyo_len (it_unit v_i) + 1)%Z + t)%Z))
          (fun t => Some (v_middle_widths ++ [t])))
          (fun v_middle_widths => Some v_middle_widths)))
      (List.map item_of l) (Some acc)
    = Some (acc ++ List.map (fun it => Z.of_nat (List.length (i_unit it) + 1 + List.length (rhs_text fstr (ordf (i_orig it)) it))%nat) l)).
  { set (body := fun (a : option (list Z)) (v_i : py_item hval) => _).
    assert (Hstep : forall acc it, body (Some acc) (item_of it)
              = Some (acc ++ [Z.of_nat (List.length (i_unit it) + 1 + List.length (rhs_text fstr (ordf (i_orig it)) it))%nat])).
    { intros acc it. unfold body. cbn [obind].
      change (it_original_mnemonic (item_of it)) with (i_orig it).
      change (it_unit (item_of it)) with (i_unit it).
      pose proof (getitem_rhs fstr fzero (ordf (i_orig it)) it) as Hg.
      destruct (py_item_getitem (hval_ops fstr fzero) (item_of it) (pyo_split_first [58] (order_str (ordf (i_orig it)))))
        as [t|]; cbn [option_map] in Hg; [|discriminate Hg].
      assert (Hg' : dyn_str (hval_ops fstr fzero) t = rhs_text fstr (ordf (i_orig it)) it) by congruence.
      cbn [obind]. rewrite Hg'. f_equal. f_equal. f_equal. unfold pyo_len. lia. }
    induction l as [|it l IH]; intros acc; cbn [map fold_left]; [rewrite app_nil_r; reflexivity|].
    rewrite Hstep, IH, <- app_assoc. reflexivity. }
  cbv zeta in Hfold. rewrite (Hfold items []). cbn [obind app].
  rewrite <- (map_map (fun it => (List.length (i_unit it) + 1 + List.length (rhs_text fstr (ordf (i_orig it)) it))%nat) Z.of_nat).
  rewrite pyo_max_nat by (intros H; apply map_eq_nil in H; exact (Hne H)).
  cbn [obind]. reflexivity.
Qed.

(* section_lines is the composition of exactly these three functions *)
Lemma section_lines_unfold : forall fstr v sect items,
  section_lines fstr v sect items =
  match lookup_order_entry v sect order_definitions with
  | None => None
  | Some _ =>
      let ord it := match order_of v sect (i_orig it) with Some o => o | None => ValueDescr end in
      Some (List.map (fun it => format_item fstr (ord it) (widths_left items) (widths_middle fstr ord items) it) items)
  end.
Proof. reflexivity. Qed.
