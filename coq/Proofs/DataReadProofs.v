(* Proofs.DataReadProofs — facts about Model/DataRead.v:
   * NULL -> NaN replacement (C06),
   * reshape / transpose of the flat token array (C07),
   * both data engines reduce to the token matrix of the data lines (C02).            *)
From Coq Require Import List Arith NArith Bool Lia ZifyBool ZifyN ZifyNat.
Import ListNotations.
Require Import PyStr Regex Regexes NumLit DataRead.
Open Scope list_scope.

(* ======================================================================================= *)
(* C06: NULL -> NaN                                                                        *)
(* ======================================================================================= *)
Section Null.
Variable nulleq : list N -> bool.

Definition null_cell (c : cell) : cell :=
  match c with CNum t => if nulleq t then CNaN else c | _ => c end.

Lemma null_column_strict idx col :
  is_float_col col = true -> idx <> 0%nat ->
  null_column nulleq true idx col =
  map (fun c => match c with CNum t => if nulleq t then CNaN else c | _ => c end) col.
Proof.
  intros Hf Hi. unfold null_column. rewrite Hf.
  destruct (Nat.eqb_spec idx 0); [contradiction|]. reflexivity.
Qed.

Lemma null_cell_nan c :
  null_cell c = CNaN <-> (c = CNaN \/ exists t, c = CNum t /\ nulleq t = true).
Proof.
  destruct c as [t| |s]; cbn [null_cell].
  - destruct (nulleq t) eqn:E; split.
    + intros _. right. exists t. auto.
    + reflexivity.
    + discriminate.
    + intros [H|(t' & H & H')]; [discriminate|]. injection H as ->. congruence.
  - split; auto.
  - split; [discriminate|]. intros [H|(t' & H & _)]; discriminate.
Qed.

Lemma null_cell_other c : null_cell c <> CNaN -> null_cell c = c.
Proof.
  destruct c as [t| |s]; cbn [null_cell]; try reflexivity.
  destruct (nulleq t); [congruence|reflexivity].
Qed.

(* cell-wise: position i of the result is NaN iff the input cell is NaN already or is a
   number equal to NULL; every other cell is the input cell *)
Lemma null_column_cellwise idx col :
  is_float_col col = true -> idx <> 0%nat ->
  forall i c, nth_error col i = Some c ->
  exists c', nth_error (null_column nulleq true idx col) i = Some c' /\
    (c' = CNaN <-> (c = CNaN \/ exists t, c = CNum t /\ nulleq t = true)) /\
    (c' <> CNaN -> c' = c).
Proof.
  intros Hf Hi i c Hc. rewrite (null_column_strict idx col Hf Hi).
  exists (null_cell c). split.
  - change (fun c0 => match c0 with CNum t => if nulleq t then CNaN else c0 | _ => c0 end) with null_cell.
    rewrite nth_error_map, Hc. reflexivity.
  - split; [apply null_cell_nan|apply null_cell_other].
Qed.

Lemma null_column_index strict col : null_column nulleq strict 0 col = col.
Proof. unfold null_column. cbn [Nat.eqb negb]. rewrite andb_false_r. reflexivity. Qed.

Lemma null_column_text strict idx col :
  is_float_col col = false -> null_column nulleq strict idx col = col.
Proof. intros H. unfold null_column. rewrite H, andb_false_r. reflexivity. Qed.

Lemma null_column_none idx col : null_column nulleq false idx col = col.
Proof. reflexivity. Qed.

Lemma null_columns_none : forall cols k, null_columns nulleq false k cols = cols.
Proof.
  induction cols as [|c cols IH]; intros k; cbn [null_columns]; [reflexivity|].
  rewrite IH, null_column_none. reflexivity.
Qed.

Lemma null_columns_nth strict : forall cols k j,
  (j < List.length cols)%nat ->
  nth j (null_columns nulleq strict k cols) [] = null_column nulleq strict (k + j) (nth j cols []).
Proof.
  induction cols as [|c cols IH]; intros k j Hj; cbn [List.length] in Hj; [lia|].
  cbn [null_columns]. destruct j as [|j]; cbn [nth].
  - rewrite Nat.add_0_r. reflexivity.
  - rewrite IH by lia. f_equal. lia.
Qed.

Lemma null_columns_length strict : forall cols k,
  List.length (null_columns nulleq strict k cols) = List.length cols.
Proof.
  induction cols as [|c cols IH]; intros k; cbn [null_columns List.length]; [reflexivity|].
  rewrite IH. reflexivity.
Qed.

Lemma null_column_length strict idx col :
  List.length (null_column nulleq strict idx col) = List.length col.
Proof. unfold null_column. destruct (_ && _ && _); [apply map_length|reflexivity]. Qed.

Lemma null_columns_col_length strict cols k j :
  List.length (nth j (null_columns nulleq strict k cols) []) = List.length (nth j cols []).
Proof.
  destruct (Nat.ltb_spec j (List.length cols)) as [Hj|Hj].
  - rewrite null_columns_nth by exact Hj. apply null_column_length.
  - rewrite !nth_overflow; [reflexivity|lia|rewrite null_columns_length; lia].
Qed.

End Null.

(* ======================================================================================= *)
(* C07: reshape / transpose                                                                *)
(* ======================================================================================= *)
Lemma chunks_fuel_concat n : (0 < n)%nat -> forall rows fuel,
  Forall (fun r : list (list N) => List.length r = n) rows ->
  (List.length (concat rows) < fuel)%nat ->
  chunks_fuel fuel n (concat rows) = Some rows.
Proof.
  intros Hn. induction rows as [|r rows IH]; intros fuel Hall Hfuel.
  - cbn [concat]. destruct fuel; reflexivity.
  - inversion Hall as [|r' rows' Hr Hrows]; subst r' rows'.
    cbn [concat] in *. rewrite app_length in Hfuel.
    destruct fuel as [|f]; [lia|].
    destruct r as [|x r]; [cbn in Hr; lia|].
    cbn [app]. cbn [chunks_fuel].
    change (x :: r ++ concat rows) with ((x :: r) ++ concat rows).
    assert (Hlen : Nat.ltb (List.length ((x :: r) ++ concat rows)) n = false).
    { apply Nat.ltb_ge. rewrite app_length. lia. }
    rewrite Hlen.
    assert (Hskip : skipn n ((x :: r) ++ concat rows) = concat rows).
    { rewrite <- Hr. rewrite skipn_app, skipn_all, Nat.sub_diag. reflexivity. }
    assert (Hfirst : firstn n ((x :: r) ++ concat rows) = x :: r).
    { rewrite <- Hr. rewrite firstn_app, firstn_all, Nat.sub_diag. cbn [firstn]. apply app_nil_r. }
    rewrite Hskip, Hfirst, IH; [reflexivity|exact Hrows|lia].
Qed.

Lemma reshape_concat n rows :
  (0 < n)%nat -> Forall (fun r : list (list N) => List.length r = n) rows ->
  reshape n (concat rows) = Some rows.
Proof. intros Hn Hall. unfold reshape. apply chunks_fuel_concat; auto. Qed.

Lemma transpose_n_length : forall n rows, List.length (transpose_n n rows) = n.
Proof. induction n as [|n IH]; intros rows; cbn [transpose_n List.length]; [reflexivity|]. rewrite IH. reflexivity. Qed.

Lemma transpose_n_nth : forall n rows j,
  (j < n)%nat -> nth j (transpose_n n rows) [] = map (fun r => nth j r []) rows.
Proof.
  induction n as [|n IH]; intros rows j Hj; [lia|]. cbn [transpose_n].
  destruct j as [|j]; cbn [nth].
  - apply map_ext. intros [|x r]; reflexivity.
  - rewrite IH by lia. rewrite map_map. apply map_ext. intros [|x r]; cbn [tl nth]; [destruct j|]; reflexivity.
Qed.

(* every column of the transposed matrix has one cell per row *)
Lemma transpose_n_col_length n rows j :
  (j < n)%nat -> List.length (nth j (transpose_n n rows) []) = List.length rows.
Proof. intros Hj. rewrite transpose_n_nth by exact Hj. apply map_length. Qed.
