(* Proofs.DataReadProofs — facts about Model/DataRead.v:
   * NULL -> NaN replacement (C06),
   * reshape / transpose of the flat token array (C07),
   * both data engines reduce to the token matrix of the data lines (C02).            *)
From Coq Require Import List Arith NArith Bool Lia ZifyBool ZifyN ZifyNat.
Import ListNotations.
Require Import PyStr Regex Regexes NumLit DataRead.
Open Scope list_scope.

(* ======================================================================================= *)
(* C06: NULL -> NaN                                                                        *)
(* ======================================================================================= *)
Section Null.
Variable nulleq : list N -> bool.

Definition null_cell (c : cell) : cell :=
  match c with CNum t => if nulleq t then CNaN else c | _ => c end.

Lemma null_column_strict idx col :
  is_float_col col = true -> idx <> 0%nat ->
  null_column nulleq true idx col =
  map (fun c => match c with CNum t => if nulleq t then CNaN else c | _ => c end) col.
Proof.
  intros Hf Hi. unfold null_column. rewrite Hf.
  destruct (Nat.eqb_spec idx 0); [contradiction|]. reflexivity.
Qed.

Lemma null_cell_nan c :
  null_cell c = CNaN <-> (c = CNaN \/ exists t, c = CNum t /\ nulleq t = true).
Proof.
  destruct c as [t| |s]; cbn [null_cell].
  - destruct (nulleq t) eqn:E; split.
    + intros _. right. exists t. auto.
    + reflexivity.
    + discriminate.
    + intros [H|(t' & H & H')]; [discriminate|]. injection H as ->. congruence.
  - split; auto.
  - split; [discriminate|]. intros [H|(t' & H & _)]; discriminate.
Qed.

Lemma null_cell_other c : null_cell c <> CNaN -> null_cell c = c.
Proof.
  destruct c as [t| |s]; cbn [null_cell]; try reflexivity.
  destruct (nulleq t); [congruence|reflexivity].
Qed.

(* cell-wise: position i of the result is NaN iff the input cell is NaN already or is a
   number equal to NULL; every other cell is the input cell *)
Lemma null_column_cellwise idx col :
  is_float_col col = true -> idx <> 0%nat ->
  forall i c, nth_error col i = Some c ->
  exists c', nth_error (null_column nulleq true idx col) i = Some c' /\
    (c' = CNaN <-> (c = CNaN \/ exists t, c = CNum t /\ nulleq t = true)) /\
    (c' <> CNaN -> c' = c).
Proof.
  intros Hf Hi i c Hc. rewrite (null_column_strict idx col Hf Hi).
  exists (null_cell c). split.
  - change (fun c0 => match c0 with CNum t => if nulleq t then CNaN else c0 | _ => c0 end) with null_cell.
    rewrite nth_error_map, Hc. reflexivity.
  - split; [apply null_cell_nan|apply null_cell_other].
Qed.

Lemma null_column_index strict col : null_column nulleq strict 0 col = col.
Proof. unfold null_column. cbn [Nat.eqb negb]. rewrite andb_false_r. reflexivity. Qed.

Lemma null_column_text strict idx col :
  is_float_col col = false -> null_column nulleq strict idx col = col.
Proof. intros H. unfold null_column. rewrite H, andb_false_r. reflexivity. Qed.

Lemma null_column_none idx col : null_column nulleq false idx col = col.
Proof. reflexivity. Qed.

Lemma null_columns_none : forall cols k, null_columns nulleq false k cols = cols.
Proof.
  induction cols as [|c cols IH]; intros k; cbn [null_columns]; [reflexivity|].
  rewrite IH, null_column_none. reflexivity.
Qed.

Lemma null_columns_nth strict : forall cols k j,
  (j < List.length cols)%nat ->
  nth j (null_columns nulleq strict k cols) [] = null_column nulleq strict (k + j) (nth j cols []).
Proof.
  induction cols as [|c cols IH]; intros k j Hj; cbn [List.length] in Hj; [lia|].
  cbn [null_columns]. destruct j as [|j]; cbn [nth].
  - rewrite Nat.add_0_r. reflexivity.
  - rewrite IH by lia. f_equal. lia.
Qed.

Lemma null_columns_length strict : forall cols k,
  List.length (null_columns nulleq strict k cols) = List.length cols.
Proof.
  induction cols as [|c cols IH]; intros k; cbn [null_columns List.length]; [reflexivity|].
  rewrite IH. reflexivity.
Qed.

Lemma null_column_length strict idx col :
  List.length (null_column nulleq strict idx col) = List.length col.
Proof. unfold null_column. destruct (_ && _ && _); [apply map_length|reflexivity]. Qed.

Lemma null_columns_col_length strict cols k j :
  List.length (nth j (null_columns nulleq strict k cols) []) = List.length (nth j cols []).
Proof.
  destruct (Nat.ltb_spec j (List.length cols)) as [Hj|Hj].
  - rewrite null_columns_nth by exact Hj. apply null_column_length.
  - rewrite !nth_overflow; [reflexivity|lia|rewrite null_columns_length; lia].
Qed.

End Null.

(* ======================================================================================= *)
(* C07: reshape / transpose                                                                *)
(* ======================================================================================= *)
Lemma chunks_fuel_concat n : (0 < n)%nat -> forall rows fuel,
  Forall (fun r : list (list N) => List.length r = n) rows ->
  (List.length (concat rows) < fuel)%nat ->
  chunks_fuel fuel n (concat rows) = Some rows.
Proof.
  intros Hn. induction rows as [|r rows IH]; intros fuel Hall Hfuel.
  - cbn [concat]. destruct fuel; reflexivity.
  - inversion Hall as [|r' rows' Hr Hrows]; subst r' rows'.
    cbn [concat] in *. rewrite app_length in Hfuel.
    destruct fuel as [|f]; [lia|].
    destruct r as [|x r]; [cbn in Hr; lia|].
    cbn [app]. cbn [chunks_fuel].
    change (x :: r ++ concat rows) with ((x :: r) ++ concat rows).
    assert (Hlen : Nat.ltb (List.length ((x :: r) ++ concat rows)) n = false).
    { apply Nat.ltb_ge. rewrite app_length. lia. }
    rewrite Hlen.
    assert (Hskip : skipn n ((x :: r) ++ concat rows) = concat rows).
    { rewrite <- Hr. rewrite skipn_app, skipn_all, Nat.sub_diag. reflexivity. }
    assert (Hfirst : firstn n ((x :: r) ++ concat rows) = x :: r).
    { rewrite <- Hr. rewrite firstn_app, firstn_all, Nat.sub_diag. cbn [firstn]. apply app_nil_r. }
    rewrite Hskip, Hfirst, IH; [reflexivity|exact Hrows|lia].
Qed.

Lemma reshape_concat n rows :
  (0 < n)%nat -> Forall (fun r : list (list N) => List.length r = n) rows ->
  reshape n (concat rows) = Some rows.
Proof. intros Hn Hall. unfold reshape. apply chunks_fuel_concat; auto. Qed.

Lemma transpose_n_length : forall n rows, List.length (transpose_n n rows) = n.
Proof. induction n as [|n IH]; intros rows; cbn [transpose_n List.length]; [reflexivity|]. rewrite IH. reflexivity. Qed.

Lemma transpose_n_nth : forall n rows j,
  (j < n)%nat -> nth j (transpose_n n rows) [] = map (fun r => nth j r []) rows.
Proof.
  induction n as [|n IH]; intros rows j Hj; [lia|]. cbn [transpose_n].
  destruct j as [|j]; cbn [nth].
  - apply map_ext. intros [|x r]; reflexivity.
  - rewrite IH by lia. rewrite map_map. apply map_ext. intros [|x r]; cbn [tl nth]; [destruct j|]; reflexivity.
Qed.

(* every column of the transposed matrix has one cell per row *)
Lemma transpose_n_col_length n rows j :
  (j < n)%nat -> List.length (nth j (transpose_n n rows) []) = List.length rows.
Proof. intros Hj. rewrite transpose_n_nth by exact Hj. apply map_length. Qed.

(* ======================================================================================= *)
(* C02: both engines reduce to the token matrix of the data lines                          *)
(* ======================================================================================= *)
Require Import RegexSubFacts.

Definition nonempty {A} (r : list A) : bool := match r with [] => false | _ => true end.

Lemma concat_filter_nonempty {A} : forall l : list (list A), concat (filter nonempty l) = concat l.
Proof.
  induction l as [|r l IH]; [reflexivity|]. cbn [filter concat].
  destruct r as [|x r]; cbn [nonempty concat app]; rewrite IH; reflexivity.
Qed.

Lemma forallb_concat {A} (f : A -> bool) : forall l, forallb f (concat l) = forallb (forallb f) l.
Proof.
  induction l as [|r l IH]; [reflexivity|]. cbn [concat forallb]. rewrite forallb_app, IH. reflexivity.
Qed.

(* what one physical line of the section contributes to the flat token array *)
Definition line_items (d : dlm) (subs : list rsub) (raw : list N) : list (list N) :=
  let line := strip raw in
  if startswith [ch_hash] line then []
  else
    let line := remove_char 26 (apply_subs subs line) in
    match line with [] => [] | _ => split_line d line end.

Lemma normal_items_concat d subs : forall body,
  normal_items d subs body = concat (map (line_items d subs) body).
Proof.
  induction body as [|raw body IH]; [reflexivity|].
  cbn [normal_items map concat]. unfold line_items at 1.
  destruct (startswith [ch_hash] (strip raw)); [exact IH|].
  destruct (remove_char 26 (apply_subs subs (strip raw))); rewrite IH; reflexivity.
Qed.

Section Engines.
Variable fhex : list N -> option (list N).
Variable fstr : list N -> list N.

Lemma column_cells_float col : column_cells fhex fstr false col = map (mk_num fhex) col.
Proof. reflexivity. Qed.

(* ---- the normal engine on lines of exactly c float tokens ------------------------------ *)
Theorem normal_engine_rows d subs c body :
  (0 < c)%nat ->
  Forall (fun raw => line_items d subs raw = [] \/ List.length (line_items d subs raw) = c) body ->
  filter nonempty (map (line_items d subs) body) <> [] ->
  forallb (forallb (is_float_tok fhex)) (map (line_items d subs) body) = true ->
  normal_engine fhex fstr d subs c body =
  DOk (map (map (mk_num fhex)) (transpose_n c (filter nonempty (map (line_items d subs) body)))).
Proof.
  intros Hc Hall Hne Hfl. unfold normal_engine. rewrite normal_items_concat.
  rewrite <- concat_filter_nonempty.
  assert (Hf : forallb (is_float_tok fhex) (concat (map (line_items d subs) body)) = true)
    by (rewrite forallb_concat; exact Hfl).
  rewrite <- concat_filter_nonempty in Hf.
  set (rows := filter nonempty (map (line_items d subs) body)) in *.
  assert (Hrows : Forall (fun r : list (list N) => List.length r = c) rows).
  { apply Forall_forall. intros r Hin. apply filter_In in Hin as [Hin Hr].
    apply in_map_iff in Hin as (raw & <- & Hraw).
    rewrite Forall_forall in Hall. destruct (Hall raw Hraw) as [E|E]; [|exact E].
    rewrite E in Hr. discriminate. }
  assert (Hn : match concat rows with [] => 0%nat | _ => c end = c).
  { destruct rows as [|r0 rows']; [congruence|].
    inversion Hrows as [|? ? Hr0 _]. destruct r0; [cbn in Hr0; lia|]. reflexivity. }
  rewrite Hn. destruct c as [|c']; [lia|].
  rewrite (reshape_concat (S c') rows Hc Hrows), Hf. cbn [negb]. reflexivity.
Qed.

(* ---- the numpy engine on rows of exactly c float tokens -------------------------------- *)
Theorem numpy_engine_rows c body :
  genfromtxt_rows body <> [] ->
  Forall (fun r : list (list N) => List.length r = c) (genfromtxt_rows body) ->
  forallb (forallb (is_float_tok fhex)) (genfromtxt_rows body) = true ->
  numpy_engine fhex body =
  Some (map (map (mk_num fhex)) (transpose_n c (genfromtxt_rows body))).
Proof.
  intros Hne Hall Hfl. unfold numpy_engine.
  destruct (genfromtxt_rows body) as [|r0 rows] eqn:E; [congruence|].
  inversion Hall as [|? ? Hr0 Hrows]. subst.
  rewrite Hfl, andb_true_r.
  assert (Hl : forallb (fun r : list (list N) => Nat.eqb (List.length r) (List.length r0)) (r0 :: rows) = true).
  { apply forallb_forall. intros r Hin. rewrite Forall_forall in Hall. rewrite (Hall r Hin).
    apply Nat.eqb_refl. }
  rewrite Hl. reflexivity.
Qed.

(* ---- the domain of C02, line by line (boolean, executable) ------------------------------- *)
Definition sub_nomatchb (s : rsub) (l : list N) : bool :=
  match s with
  | SubComma => nomatchb rx_sub_comma [] l
  | SubRunonMinus => nomatchb rx_sub_runon_minus [] l
  | SubRunonDot => nomatchb rx_sub_runon_dot [] l
  end.

Definition is_data_lineb (c : nat) (raw : list N) : bool :=
  let l := strip raw in
  negb (in_str 35 raw) && negb (in_str 34 raw) && negb (in_str 39 raw) && negb (in_str 26 raw)
  && nomatchb rx_sub_comma [] l && nomatchb rx_sub_runon_minus [] l && nomatchb rx_sub_runon_dot [] l
  && Nat.eqb (List.length (split_ws l)) c && forallb (is_float_tok fhex) (split_ws l).

Definition dom2_lineb (c : nat) (raw : list N) : bool :=
  let l := strip raw in
  match l with
  | [] => true
  | _ => startswith [ch_hash] l || is_data_lineb c raw
  end.

(* the tokens of one line, as the statement reads it: none for blank and comment lines *)
Definition line_toks (raw : list N) : list (list N) :=
  let l := strip raw in if startswith [ch_hash] l then [] else split_ws l.
Definition data_rows (body : list (list N)) : list (list (list N)) :=
  filter nonempty (map line_toks body).

Lemma apply_sub_id s l : sub_nomatchb s l = true -> apply_sub s l = l.
Proof. destruct s; cbn [sub_nomatchb apply_sub]; apply re_sub_nomatch. Qed.

Lemma apply_subs_id : forall subs l, (forall s, sub_nomatchb s l = true) -> apply_subs subs l = l.
Proof.
  unfold apply_subs. induction subs as [|s subs IH]; intros l H; cbn [fold_left]; [reflexivity|].
  rewrite apply_sub_id by apply H. apply IH. exact H.
Qed.

Lemma subs_nomatch_nil s : sub_nomatchb s [] = true.
Proof. destruct s; reflexivity. Qed.

Lemma cut_comment_absent : forall raw, in_str 35 raw = false -> cut_comment raw = raw.
Proof.
  induction raw as [|x raw IH]; intros H; [reflexivity|].
  unfold in_str in H. cbn [existsb] in H. apply orb_false_iff in H as [Hx Hr].
  cbn [cut_comment]. unfold ch_hash. rewrite N.eqb_sym, Hx, IH by exact Hr. reflexivity.
Qed.

Lemma cut_comment_space : forall a t, forallb is_space a = true -> cut_comment (a ++ ch_hash :: t) = a.
Proof.
  induction a as [|x a IH]; intros t H.
  - cbn [app cut_comment]. rewrite N.eqb_refl. reflexivity.
  - cbn [forallb] in H. apply andb_true_iff in H as [Hx Ha]. cbn [app cut_comment].
    destruct (N.eqb_spec x ch_hash) as [->|_]; [discriminate Hx|]. rewrite IH by exact Ha. reflexivity.
Qed.

Lemma cut_comment_all_space : forall a, forallb is_space a = true -> cut_comment a = a.
Proof.
  induction a as [|x a IH]; intros H; [reflexivity|].
  cbn [forallb] in H. apply andb_true_iff in H as [Hx Ha]. cbn [cut_comment].
  destruct (N.eqb_spec x ch_hash) as [->|_]; [discriminate Hx|]. rewrite IH by exact Ha. reflexivity.
Qed.

(* line classification *)
Lemma blank_line_np raw : strip raw = [] -> split_ws (cut_comment raw) = [].
Proof.
  intros E. destruct (strip_decomp raw) as (a & b & Eraw & Ha & Hb & _).
  rewrite E in Eraw. cbn [app] in Eraw.
  assert (Hs : forallb is_space raw = true) by (rewrite Eraw; apply forallb_app_true; auto).
  rewrite cut_comment_all_space by exact Hs. apply split_ws_all_space. exact Hs.
Qed.

Lemma comment_line_np raw : startswith [ch_hash] (strip raw) = true -> split_ws (cut_comment raw) = [].
Proof.
  intros H. destruct (strip_decomp raw) as (a & b & Eraw & Ha & _).
  destruct (strip raw) as [|x l]; [discriminate H|].
  cbn [startswith] in H. rewrite andb_true_r in H. apply N.eqb_eq in H. subst x.
  rewrite Eraw. cbn [app]. rewrite cut_comment_space by exact Ha. apply split_ws_all_space. exact Ha.
Qed.

Lemma dom2_cases c raw : dom2_lineb c raw = true ->
  strip raw = [] \/ startswith [ch_hash] (strip raw) = true \/
  (startswith [ch_hash] (strip raw) = false /\ is_data_lineb c raw = true /\ strip raw <> []).
Proof.
  unfold dom2_lineb. destruct (strip raw) as [|x l] eqn:E; [auto|].
  destruct (startswith [ch_hash] (x :: l)); cbn [orb]; auto.
  intros D. right. right. repeat split; [exact D|discriminate].
Qed.

(* on a line of the domain both per-line readings are the tokens of the statement *)
Lemma dom2_line_facts c raw : dom2_lineb c raw = true ->
  split_ws (cut_comment raw) = line_toks raw /\
  (forall subs, line_items DSpace subs raw = line_toks raw) /\
  (line_toks raw = [] \/ List.length (line_toks raw) = c) /\
  forallb (is_float_tok fhex) (line_toks raw) = true.
Proof.
  intros H. apply dom2_cases in H. destruct H as [E|[E|(E & D & _)]].
  - (* blank *)
    assert (T : line_toks raw = []) by (unfold line_toks; rewrite E; reflexivity).
    rewrite T. split; [apply blank_line_np; exact E|]. split; [|split; [auto|reflexivity]].
    intros subs. unfold line_items. rewrite E. cbn [startswith].
    rewrite apply_subs_id by apply subs_nomatch_nil. reflexivity.
  - (* comment *)
    assert (T : line_toks raw = []) by (unfold line_toks; rewrite E; reflexivity).
    rewrite T. split; [apply comment_line_np; exact E|]. split; [|split; [auto|reflexivity]].
    intros subs. unfold line_items. rewrite E. reflexivity.
  - (* data line *)
    unfold is_data_lineb in D. repeat (apply andb_true_iff in D as [D ?]).
    repeat match goal with Hn : negb _ = true |- _ => apply negb_true_iff in Hn end.
    assert (T : line_toks raw = split_ws (strip raw)) by (unfold line_toks; rewrite E; reflexivity).
    rewrite T. split; [|split; [|split]].
    + rewrite cut_comment_absent by assumption. symmetry. apply split_ws_strip.
    + intros subs. unfold line_items. rewrite E.
      rewrite apply_subs_id by (intros [| |]; cbn [sub_nomatchb]; assumption).
      rewrite remove_char_absent by (apply in_str_strip_false; assumption).
      destruct (strip raw) as [|x l] eqn:El; [reflexivity|]. rewrite <- El.
      cbn [split_line]. apply sow_is_split; apply in_str_strip_false; assumption.
    + right. apply Nat.eqb_eq. assumption.
    + assumption.
Qed.

Lemma dom2_rows c body : Forall (fun raw => dom2_lineb c raw = true) body ->
  genfromtxt_rows body = data_rows body /\
  (forall subs, map (line_items DSpace subs) body = map line_toks body) /\
  Forall (fun raw => line_toks raw = [] \/ List.length (line_toks raw) = c) body /\
  forallb (forallb (is_float_tok fhex)) (map line_toks body) = true.
Proof.
  intros H. split; [|split; [|split]].
  - unfold genfromtxt_rows, data_rows. f_equal. apply map_ext_in. intros raw Hin.
    rewrite Forall_forall in H. apply (dom2_line_facts c raw (H raw Hin)).
  - intros subs. apply map_ext_in. intros raw Hin.
    rewrite Forall_forall in H. apply (dom2_line_facts c raw (H raw Hin)).
  - eapply Forall_impl; [|exact H]. intros raw Hr. apply (dom2_line_facts c raw Hr).
  - apply forallb_forall. intros r Hin. apply in_map_iff in Hin as (raw & <- & Hraw).
    rewrite Forall_forall in H. apply (dom2_line_facts c raw (H raw Hraw)).
Qed.

Definition spec_columns (c : nat) (body : list (list N)) : list (list cell) :=
  map (map (mk_num fhex)) (transpose_n c (data_rows body)).

Theorem numpy_spec c body :
  Forall (fun raw => dom2_lineb c raw = true) body -> data_rows body <> [] ->
  numpy_engine fhex body = Some (spec_columns c body).
Proof.
  intros H Hne. destruct (dom2_rows c body H) as (E1 & _ & Hall & Hfl).
  unfold spec_columns. rewrite <- E1 in *.
  apply numpy_engine_rows; [exact Hne| |].
  - rewrite E1. unfold data_rows. apply Forall_forall. intros r Hin. apply filter_In in Hin as [Hin Hr].
    apply in_map_iff in Hin as (raw & <- & Hraw). rewrite Forall_forall in Hall.
    destruct (Hall raw Hraw) as [E|E]; [rewrite E in Hr; discriminate|exact E].
  - rewrite E1. unfold data_rows. apply forallb_forall. intros r Hin. apply filter_In in Hin as [Hin _].
    rewrite forallb_forall in Hfl. apply Hfl. exact Hin.
Qed.

Theorem normal_spec subs c body :
  (0 < c)%nat ->
  Forall (fun raw => dom2_lineb c raw = true) body -> data_rows body <> [] ->
  normal_engine fhex fstr DSpace subs c body = DOk (spec_columns c body).
Proof.
  intros Hc H Hne. destruct (dom2_rows c body H) as (_ & E2 & Hall & Hfl).
  unfold spec_columns, data_rows in *. rewrite <- (E2 subs) in *.
  apply normal_engine_rows; try assumption.
  eapply Forall_impl; [|exact H]. intros raw Hr.
  destruct (dom2_line_facts c raw Hr) as (_ & E & Hl & _). rewrite (E subs). exact Hl.
Qed.

Theorem engines_agree subs c body :
  (0 < c)%nat ->
  Forall (fun raw => dom2_lineb c raw = true) body -> data_rows body <> [] ->
  numpy_engine fhex body = Some (spec_columns c body) /\
  normal_engine fhex fstr DSpace subs c body = DOk (spec_columns c body).
Proof. intros Hc H Hne. split; [apply numpy_spec|apply normal_spec]; assumption. Qed.

(* ---- the sniffed column count ------------------------------------------------------------- *)
Lemma inspect_loop_cons d raw rest i subs hyph counts :
  inspect_loop d (raw :: rest) i subs hyph counts =
  let line := strip raw in
  if negb (nonempty line) then inspect_loop d rest (S i) subs hyph counts
  else
    if startswith [ch_hash] line then inspect_loop d rest (S i) subs hyph counts
    else
      let hyph' := if in_str ch_minus line then S hyph else hyph in
      let n := List.length (split_line d (apply_subs subs line)) in
      let counts' := n :: counts in
      match rest with
      | [] => (hyph', rev counts')
      | _ => if Nat.ltb 20 (List.length counts') then (hyph', rev counts')
             else inspect_loop d rest (S i) subs hyph' counts'
      end.
Proof. cbn [inspect_loop]. destruct (strip raw); reflexivity. Qed.

Lemma data_rows_cons_nil raw rest : line_toks raw = [] -> data_rows (raw :: rest) = data_rows rest.
Proof. intros E. unfold data_rows. cbn [map filter]. rewrite E. reflexivity. Qed.

Lemma inspect_loop_dom c subs : forall body i hyph counts,
  Forall (fun raw => dom2_lineb c raw = true) body ->
  exists hyph' k, inspect_loop DSpace body i subs hyph counts = (hyph', rev counts ++ repeat c k) /\
                  (data_rows body <> [] -> (0 < k)%nat).
Proof.
  clear fstr. induction body as [|raw rest IH]; intros i hyph counts H.
  - exists hyph, 0%nat. cbn [inspect_loop repeat]. rewrite app_nil_r. split; [reflexivity|]. intros F. exfalso. apply F. reflexivity.
  - inversion H as [|? ? Hraw Hrest]; subst. rewrite inspect_loop_cons. cbv zeta.
    destruct (dom2_line_facts c raw Hraw) as (_ & Hit & _ & _).
    pose proof (dom2_cases c raw Hraw) as [E|[E|(E & D & Hnb)]].
    + assert (T : line_toks raw = []) by (unfold line_toks; rewrite E; reflexivity).
      rewrite E. cbn [nonempty negb]. rewrite (data_rows_cons_nil _ _ T). apply IH. exact Hrest.
    + assert (T : line_toks raw = []) by (unfold line_toks; rewrite E; reflexivity).
      rewrite E. rewrite (data_rows_cons_nil _ _ T).
      destruct (negb (nonempty (strip raw))); apply IH; exact Hrest.
    + rewrite E.
      assert (Hn : List.length (split_line DSpace (apply_subs subs (strip raw))) = c).
      { unfold is_data_lineb in D. repeat (apply andb_true_iff in D as [D ?]).
        repeat match goal with Hn : negb _ = true |- _ => apply negb_true_iff in Hn end.
        rewrite apply_subs_id by (intros [| |]; cbn [sub_nomatchb]; assumption).
        cbn [split_line]. rewrite sow_is_split by (apply in_str_strip_false; assumption).
        apply Nat.eqb_eq. assumption. }
      rewrite Hn.
      assert (Hne : nonempty (strip raw) = true).
      { destruct (strip raw); [congruence|reflexivity]. }
      rewrite Hne. cbn [negb rev].
      set (h' := if in_str ch_minus (strip raw) then S hyph else hyph).
      destruct rest as [|raw2 rest2].
      * exists h', 1%nat. cbn [repeat]. split; [reflexivity|]. intros _. lia.
      * destruct (Nat.ltb 20 (List.length (c :: counts))).
        -- exists h', 1%nat. cbn [repeat]. split; [reflexivity|]. intros _. lia.
        -- destruct (IH (S i) h' (c :: counts) Hrest) as (h2 & k & E2 & _).
           exists h2, (S k). rewrite E2. cbn [rev repeat]. rewrite <- app_assoc. cbn [app].
           split; [reflexivity|]. intros _. lia.
Qed.

Lemma all_equal_repeat c k : (0 < k)%nat -> all_equal (repeat c k) = Some c.
Proof.
  intros Hk. destruct k as [|k]; [lia|]. cbn [repeat all_equal].
  assert (H : forallb (Nat.eqb c) (repeat c k) = true).
  { apply forallb_forall. intros x Hx. apply repeat_spec in Hx. subst x. apply Nat.eqb_refl. }
  rewrite H. reflexivity.
Qed.

(* inspect_data_section returns the common token count as soon as the body has a data line *)
Theorem sniff_spec subs c body :
  Forall (fun raw => dom2_lineb c raw = true) body -> data_rows body <> [] ->
  fst (inspect DSpace body subs) = Some c.
Proof using fhex.
  intros H Hne. unfold inspect.
  destruct (inspect_loop_dom c subs body 0%nat 0%nat [] H) as (h & k & E & Hk).
  rewrite E. cbn [rev app fst]. apply all_equal_repeat. apply Hk. exact Hne.
Qed.

Theorem sniff_twice_spec subs c body :
  Forall (fun raw => dom2_lineb c raw = true) body -> data_rows body <> [] ->
  fst (inspect_twice DSpace body subs) = Some c.
Proof using fhex.
  intros H Hne. unfold inspect_twice.
  pose proof (sniff_spec subs c body H Hne) as E1.
  destruct (inspect DSpace body subs) as [n rec]. cbn [fst] in E1. subst n.
  destruct (negb (list_rsub_eqb rec subs)); [|reflexivity].
  pose proof (sniff_spec rec c body H Hne) as E2.
  destruct (inspect DSpace body rec) as [n2 rec2]. cbn [fst] in E2. subst n2. reflexivity.
Qed.

End Engines.
