(* Proofs.PresExt — the presentation family of C09 extended by the generators that
   BlocksCongr.pres_step lacks (audit D5):

     re-wrapping of the data lines of a WRAP=YES file (Proofs/RewrapRead.v), here with the
       domain widened from "sniffed count < m" to "sniffed count <= m" (m <= number of
       curves), so that the wrapping with ALL values of a depth step on one line is inside;
     re-spacing / re-delimiting of data lines under the file's delimiter d: two data bodies
       whose lines are pairwise `line_alike d` (same tokens after every list of
       substitutions, same sniffer count, same hyphen flag, same numpy tokens) are read
       alike; for SPACE the relation follows from "equal str.split() fields" on plain lines
       (respace_line_alike, from toks_space_ws / sow_is_split); for COMMA a line is determined
       by its tokens (split_char_inj), so only white space at the line ends can differ.

   Both go through ONE generic theorem (read_rel / read_rel_blocks): a relation DR on data
   bodies that preserves data_core under the delimiter d whenever a file-level predicate P
   holds of (WRAP steering value, ~Curves, WRAP declaration), P stable when curves are added.
   The step relation is parameterised by the read options o because the file-level premise of
   a re-wrap / re-delimit step speaks about first_pass o (what DLM / WRAP the file declares). *)
From Coq Require Import List Arith NArith Bool Lia String.
Import ListNotations.
Require Import PyStr Regex Regexes NumLit Num HeaderLine Tables SectionParse Sections DataRead Read.
Require Import RegexSubFacts SplitWsFacts StripFacts SectionsProofs ItemsBindProofs JunkProofs ReadInvProofs ReadCongr
  BlocksCongr RewrapRead.
Open Scope string_scope.
Open Scope list_scope.
Open Scope N_scope.

(* ======================================================================================= *)
(* 1. the generic congruence                                                               *)
(* ======================================================================================= *)
Section WithOracles.
Variable fhex : list N -> option (list N).
Variable fstr : list N -> list N.
Variable numeq : list N -> list N -> bool.

Section Gen.
Variable o : ropts.
Variable d : dlm.
Variable P : hval -> section -> bool -> Prop.
Variable DR : list (list N) -> list (list N) -> Prop.
Hypothesis DR_core : forall pw pn cs wd b b', P pw cs wd -> DR b b' ->
  data_core fhex fstr numeq o pw pn d b cs wd = data_core fhex fstr numeq o pw pn d b' cs wd.
Hypothesis P_grow : forall pw pn b cs wd cs' dat eng, P pw cs wd ->
  data_core fhex fstr numeq o pw pn d b cs wd = inl (cs', dat, eng) -> P pw cs' wd.

Section TwoTexts.
Variables ls ls' : list (list N).

Definition dsec_rel (p p' : spos) : Prop := DR (body_lines ls p) (body_lines ls' p').

Definition sec_rel (p p' : spos) : Prop :=
  sp_title p = sp_title p' /\
  match section_type (sp_title p) with
  | THeader => forall v c ig, parse_section v (sp_title p) c ig [ch_hash] (body_lines ls p)
                            = parse_section v (sp_title p) c ig [ch_hash] (body_lines ls' p')
  | TOther => other_text ls p = other_text ls' p'
  | _ => dsec_rel p p'
  end.

Definition ps_rel (ps ps' : pstate) : Prop :=
  p_version ps = p_version ps' /\ p_wrapped ps = p_wrapped ps' /\ p_null ps = p_null ps' /\
  p_dlm ps = p_dlm ps' /\ p_las ps = p_las ps' /\
  Forall2 dsec_rel (p_data ps) (p_data ps') /\ Forall2 dsec_rel (p_las3data ps) (p_las3data ps').

Lemma step_section_rel ps ps' p p' : ps_rel ps ps' -> sec_rel p p' ->
  res_equiv ps_rel (step_section o ls ps p) (step_section o ls' ps' p').
Proof.
  intros (Ev & Ew & En & Ed & El & Hd & H3) (Et & Hs).
  destruct ps as [pv pw pn pd pl pdat p3]. destruct ps' as [pv' pw' pn' pd' pl' pdat' p3'].
  cbn [p_version p_wrapped p_null p_dlm p_las p_data p_las3data] in *. subst pv' pw' pn' pd' pl'.
  destruct (section_type (sp_title p)) eqn:Ety.
  - unfold step_section. rewrite <- Et, Ety. cbn [res_equiv]. unfold ps_rel.
    cbn [p_version p_wrapped p_null p_dlm p_las p_data p_las3data].
    repeat split; try assumption. apply Forall2_snoc; assumption.
  - rewrite !step_section_other by (rewrite <- ?Et; exact Ety). rewrite <- Et, <- Hs.
    cbn [res_equiv]. unfold ps_rel, with_las. cbn [p_version p_wrapped p_null p_dlm p_las p_data p_las3data].
    repeat split; assumption.
  - unfold step_section. rewrite <- Et, Ety. cbn [res_equiv]. unfold ps_rel.
    cbn [p_version p_wrapped p_null p_dlm p_las p_data p_las3data].
    repeat split; try assumption. apply Forall2_snoc; assumption.
  - unfold step_section. rewrite <- Et, Ety. cbn [p_version p_wrapped p_null p_dlm p_las p_data p_las3data].
    destruct (version_of pv) as [ver|]; [|reflexivity].
    destruct (las_version_eqb ver V30 && las3_like (sp_title p)); [reflexivity|].
    rewrite <- Hs. destruct (parse_section ver (sp_title p) (o_mcase o) (o_ignore_header_errors o) [ch_hash] (body_lines ls p));
      [|reflexivity].
    destruct (second_upper (sp_title p)) as [letter|]; [|reflexivity].
    cbn [res_equiv]. unfold ps_rel, with_las, update_steering.
    destruct (letter =? 86); [|destruct (letter =? 87)];
      cbn [p_version p_wrapped p_null p_dlm p_las p_data p_las3data]; repeat split; assumption.
Qed.

Lemma first_pass_rel : forall sects sects', Forall2 sec_rel sects sects' ->
  forall ps ps', ps_rel ps ps' ->
  res_equiv ps_rel (first_pass o ls ps sects) (first_pass o ls' ps' sects').
Proof.
  induction 1 as [|p p' l l' Hp H IH]; intros ps ps' Hps; [exact Hps|].
  cbn [first_pass]. pose proof (step_section_rel ps ps' p p' Hps Hp) as S.
  destruct (step_section o ls ps p) as [a|e]; destruct (step_section o ls' ps' p') as [b|e']; cbn [res_equiv] in S;
    try contradiction.
  - apply IH. exact S.
  - exact S.
Qed.

Lemma read_data_sections_rel ps ps' :
  p_wrapped ps = p_wrapped ps' -> p_null ps = p_null ps' ->
  forall ds ds', Forall2 dsec_rel ds ds' -> forall l,
  P (p_wrapped ps) (l_curves l) (wrap_decl l) ->
  read_data_sections fhex fstr numeq o ls ps d ds l = read_data_sections fhex fstr numeq o ls' ps' d ds' l.
Proof.
  intros Ew En. induction 1 as [|p p' ds ds' Hp H IH]; intros l HP; [reflexivity|].
  cbn [read_data_sections].
  assert (E : read_one_data fhex fstr numeq o ls ps d p l = read_one_data fhex fstr numeq o ls' ps' d p' l).
  { rewrite !read_one_data_core, <- Ew, <- En.
    rewrite (DR_core (p_wrapped ps) (p_null ps) (l_curves l) (wrap_decl l) _ _ HP Hp). reflexivity. }
  rewrite <- E. destruct (read_one_data fhex fstr numeq o ls ps d p l) as [l1|e] eqn:E1; [|reflexivity].
  apply IH. rewrite read_one_data_core in E1.
  destruct (data_core fhex fstr numeq o (p_wrapped ps) (p_null ps) d (body_lines ls p) (l_curves l) (wrap_decl l))
    as [[[cs dat] eng]|e] eqn:Ec; [|discriminate]. injection E1 as <-. cbn [l_curves].
  change (wrap_decl (mklas (l_version l) (l_well l) cs (l_params l) (l_other l) (l_custom l) dat eng))
    with (wrap_decl l).
  exact (P_grow _ _ _ _ _ _ _ _ HP Ec).
Qed.

End TwoTexts.

Definition file_ok (t : list N) : Prop :=
  forall ps, first_pass o (lines_keep t)
               (mkps (VFloat (s2l "2.0")) (VStr (s2l "YES")) None (VStr (s2l "SPACE")) empty_las [] [])
               (find_sections (lines_keep t)) = inl ps ->
  dlm_of (p_dlm ps) = Some d /\ P (p_wrapped ps) (l_curves (p_las ps)) (wrap_decl (p_las ps)).

Theorem read_rel t t' :
  Forall2 (sec_rel (lines_keep t) (lines_keep t'))
          (find_sections (lines_keep t)) (find_sections (lines_keep t')) ->
  file_ok t ->
  read fhex fstr numeq o t = read fhex fstr numeq o t'.
Proof.
  intros H Hfile. unfold file_ok in Hfile. unfold read. set (ls := lines_keep t) in *. set (ls' := lines_keep t') in *.
  set (ps0 := mkps _ _ _ _ _ _ _) in *.
  assert (H0 : ps_rel ls ls' ps0 ps0) by (repeat split; constructor).
  pose proof (first_pass_rel ls ls' _ _ H ps0 ps0 H0) as F.
  destruct H as [|p p' l l' Hp H]; [reflexivity|].
  set (sects := p :: l) in *. set (sects' := p' :: l') in *.
  destruct (first_pass o ls ps0 sects) as [ps|e]; destruct (first_pass o ls' ps0 sects') as [ps'|e'];
    cbn [res_equiv] in F; try contradiction; [|congruence].
  destruct (Hfile ps eq_refl) as (Hdl & HP).
  destruct F as (Ev & Ew & En & Ed & El & Hd & H3). rewrite <- Ed, <- El, Hdl.
  destruct (o_ignore_data o); [reflexivity|].
  assert (Hds : Forall2 (dsec_rel ls ls') (match p_data ps with [] => p_las3data ps | x => x end)
                        (match p_data ps' with [] => p_las3data ps' | x => x end)).
  { destruct Hd; [exact H3|constructor; assumption]. }
  rewrite (read_data_sections_rel ls ls' ps ps' Ew En _ _ Hds (p_las ps) HP). reflexivity.
Qed.

(* ---- on blocks ---- *)
Definition rel_view (x y : sview) : Prop :=
  match x, y with
  | (t, b, ot), (t', b', ot') =>
      t = t' /\
      match section_type t with
      | THeader => forall v c ig, parse_section v t c ig [ch_hash] b = parse_section v t c ig [ch_hash] b'
      | TOther => ot = ot'
      | _ => DR b b'
      end
  end.
Definition rel_block (b b' : block) : Prop := rel_view (block_view b) (block_view b').

Theorem read_rel_blocks t t' pre pre' bs bs' :
  lines_keep t = pre ++ render bs -> lines_keep t' = pre' ++ render bs' ->
  notitles pre -> notitles pre' -> Forall wf_block bs -> Forall wf_block bs' ->
  Forall2 rel_block bs bs' -> file_ok t ->
  read fhex fstr numeq o t = read fhex fstr numeq o t'.
Proof.
  intros E E' Hp Hp' Hb Hb' H Hfile. apply read_rel; [|exact Hfile]. rewrite E, E'.
  change (Forall2 (fun a b => rel_view (view (pre ++ render bs) a) (view (pre' ++ render bs') b))
                  (find_sections (pre ++ render bs)) (find_sections (pre' ++ render bs'))).
  apply (Forall2_map_iff rel_view). rewrite !views_exact by assumption.
  apply (Forall2_map_iff rel_view block_view block_view). exact H.
Qed.

End Gen.
End WithOracles.

(* ======================================================================================= *)
(* 2. data bodies that are alike under ONE delimiter                                        *)
(* ======================================================================================= *)
(* data_equiv (ReadCongr) quantifies over every delimiter; changing the blanks between the
   fields of a SPACE-delimited line is invisible under SPACE only *)
Definition data_alike (d : dlm) (b b' : list (list N)) : Prop :=
  (forall subs, inspect_twice d b subs = inspect_twice d b' subs) /\
  (forall subs, normal_items d subs b = normal_items d subs b') /\
  genfromtxt_rows b = genfromtxt_rows b'.

Lemma data_alike_refl d b : data_alike d b b.
Proof. repeat split. Qed.
Lemma data_alike_sym d b b' : data_alike d b b' -> data_alike d b' b.
Proof. intros (H1 & H2 & H3). repeat split; intros; symmetry; auto. Qed.
Lemma data_alike_trans d b1 b2 b3 : data_alike d b1 b2 -> data_alike d b2 b3 -> data_alike d b1 b3.
Proof.
  intros (H1 & H2 & H3) (K1 & K2 & K3). repeat split; intros.
  - rewrite H1. apply K1.
  - rewrite H2. apply K2.
  - rewrite H3. exact K3.
Qed.
Lemma data_equiv_alike d b b' : data_equiv b b' -> data_alike d b b'.
Proof. intros (H1 & H2 & H3). repeat split; intros; auto. Qed.

Lemma data_core_alike fhex fstr numeq o pw pn d b b' cs wd : data_alike d b b' ->
  data_core fhex fstr numeq o pw pn d b cs wd = data_core fhex fstr numeq o pw pn d b' cs wd.
Proof.
  intros (H1 & H2 & H3). unfold data_core. rewrite H1.
  rewrite (numpy_engine_rows_eq fhex b b' H3).
  destruct (inspect_twice d b' _) as [sniffed subs]. cbv zeta.
  rewrite (normal_engine_items fhex fstr d subs _ b b' (H2 subs)). reflexivity.
Qed.

(* line by line: what each of the three data readers takes from one physical line *)
Definition line_alike (d : dlm) (x y : list N) : Prop :=
  is_skip x = is_skip y /\ dhyph x = dhyph y /\
  (forall subs, dcount d subs x = dcount d subs y) /\
  (forall subs, toks d subs x = toks d subs y) /\
  np_toks x = np_toks y.

Lemma line_alike_refl d x : line_alike d x x.
Proof. repeat split. Qed.

Lemma line_alike_streq d x y : streq x y -> line_alike d x y.
Proof.
  intros H. repeat split; intros.
  - apply is_skip_streq. exact H.
  - unfold dhyph. unfold streq in H. rewrite H. reflexivity.
  - unfold dcount. unfold streq in H. rewrite H. reflexivity.
  - apply toks_streq. exact H.
  - apply np_toks_streq. exact H.
Qed.

Lemma inspect_loop_alike d subs : forall b b', Forall2 (line_alike d) b b' ->
  forall i j hyph counts, inspect_loop d b i subs hyph counts = inspect_loop d b' j subs hyph counts.
Proof.
  induction 1 as [|x y l l' (Hs & Hh & Hc & _ & _) H IH]; intros i j hyph counts; [reflexivity|].
  rewrite !inspect_loop_step, Hs, Hh, (Hc subs).
  destruct (is_skip y); [apply IH|]. cbv zeta. destruct (Nat.ltb 20 _); [reflexivity|apply IH].
Qed.

Lemma inspect_alike d subs b b' : Forall2 (line_alike d) b b' -> inspect d b subs = inspect d b' subs.
Proof. intros H. unfold inspect. rewrite (inspect_loop_alike d subs b b' H 0%nat 0%nat). reflexivity. Qed.

Lemma inspect_twice_alike d subs b b' : Forall2 (line_alike d) b b' ->
  inspect_twice d b subs = inspect_twice d b' subs.
Proof.
  intros H. unfold inspect_twice. rewrite (inspect_alike d subs b b' H).
  destruct (inspect d b' subs) as [n rec]. rewrite (inspect_alike d rec b b' H). reflexivity.
Qed.

Theorem lines_alike_data d b b' : Forall2 (line_alike d) b b' -> data_alike d b b'.
Proof.
  intros H. repeat split; intros.
  - apply inspect_twice_alike. exact H.
  - rewrite !normal_items_toks. f_equal.
    induction H as [|x y l l' (_ & _ & _ & Ht & _) H IH]; cbn [map]; [reflexivity|]. rewrite (Ht subs), IH. reflexivity.
  - rewrite !genfromtxt_rows_np. f_equal.
    induction H as [|x y l l' (_ & _ & _ & _ & Hn) H IH]; cbn [map]; [reflexivity|]. rewrite Hn, IH. reflexivity.
Qed.

(* ---- SPACE: equal str.split() fields on plain lines ------------------------------------- *)
(* a plain data line: no ^Z, no quote characters, no '#', and no read substitution fires *)
Definition plain_line (x : list N) : Prop :=
  in_str 26 x = false /\ in_str 34 x = false /\ in_str 39 x = false /\ in_str ch_hash x = false /\
  forall subs, apply_subs subs (strip x) = strip x.

Lemma split_ws_aux_nil_inv : forall s cur, split_ws_aux s cur = [] -> cur = [] /\ forallb is_space s = true.
Proof.
  induction s as [|c s IH]; intros cur H.
  - destruct cur; [split; reflexivity|discriminate].
  - cbn [split_ws_aux] in H. cbn [forallb]. destruct (is_space c).
    + destruct cur; [|discriminate]. destruct (IH [] H) as (_ & Hs). split; [reflexivity|exact Hs].
    + destruct (IH (c :: cur) H) as (Hc & _). discriminate.
Qed.

Lemma split_ws_nil_iff s : split_ws s = [] <-> strip s = [].
Proof.
  split; intros H.
  - apply strip_nil_iff. unfold split_ws in H. apply (split_ws_aux_nil_inv s [] H).
  - apply split_ws_all_space. apply strip_nil_iff. exact H.
Qed.

Lemma in_str_rev c l : in_str c (rev l) = in_str c l.
Proof. unfold in_str. apply existsb_rev. Qed.

Lemma in_str_split_ws_aux c : is_space c = false -> forall s cur,
  existsb (in_str c) (split_ws_aux s cur) = in_str c cur || in_str c s.
Proof.
  intros Hc. induction s as [|x s IH]; intros cur.
  - cbn [split_ws_aux]. destruct cur as [|y cur]; [reflexivity|].
    cbn [existsb]. rewrite in_str_rev, orb_false_r. unfold in_str at 3. cbn [existsb]. rewrite orb_false_r. reflexivity.
  - cbn [split_ws_aux]. destruct (is_space x) eqn:Hx.
    + assert (Ex : (c =? x) = false).
      { destruct (N.eqb_spec c x) as [->|_]; [congruence|reflexivity]. }
      unfold in_str at 3. cbn [existsb]. rewrite Ex. cbn [orb]. fold (in_str c s).
      destruct cur as [|y cur].
      * rewrite IH. reflexivity.
      * cbn [existsb]. rewrite in_str_rev, IH. unfold in_str at 2. cbn [existsb orb]. reflexivity.
    + rewrite IH. unfold in_str at 1 3 4. cbn [existsb]. fold (in_str c cur). fold (in_str c s).
      destruct (c =? x), (in_str c cur), (in_str c s); reflexivity.
Qed.

Lemma in_str_split_ws c s : is_space c = false -> existsb (in_str c) (split_ws s) = in_str c s.
Proof. intros Hc. unfold split_ws. rewrite (in_str_split_ws_aux c Hc s []). reflexivity. Qed.

Lemma startswith_in_str c l : startswith [c] l = true -> in_str c l = true.
Proof.
  destruct l as [|x l]; [discriminate|]. cbn [startswith]. rewrite andb_true_r. intros H.
  unfold in_str. cbn [existsb]. rewrite H. reflexivity.
Qed.

Lemma plain_not_comment x : in_str ch_hash x = false -> startswith [ch_hash] (strip x) = false.
Proof.
  intros H. destruct (startswith [ch_hash] (strip x)) eqn:E; [|reflexivity].
  apply startswith_in_str in E. rewrite (in_str_strip_false ch_hash x H) in E. discriminate.
Qed.

Lemma plain_is_skip x : in_str ch_hash x = false ->
  is_skip x = match split_ws x with [] => true | _ => false end.
Proof.
  intros H. unfold is_skip. rewrite (plain_not_comment x H).
  destruct (strip x) as [|ch r] eqn:E.
  - apply split_ws_nil_iff in E. rewrite E. reflexivity.
  - destruct (split_ws x) eqn:F; [|reflexivity]. apply split_ws_nil_iff in F. congruence.
Qed.

Lemma plain_dcount subs x : plain_line x -> dcount DSpace subs x = List.length (split_ws x).
Proof.
  intros (_ & H34 & H39 & _ & Hs). unfold dcount. rewrite Hs. cbn [split_line].
  rewrite sow_is_split by (apply in_str_strip_false; assumption). rewrite split_ws_strip. reflexivity.
Qed.

Lemma plain_np_toks x : in_str ch_hash x = false -> np_toks x = split_ws x.
Proof. intros H. unfold np_toks. rewrite (cut_comment_nohash x H). reflexivity. Qed.

(* any change of the white space between and around the fields of a plain line *)
Theorem respace_line_alike x y : plain_line x -> plain_line y -> split_ws x = split_ws y ->
  line_alike DSpace x y.
Proof.
  intros Hx Hy E. pose proof Hx as (X26 & X34 & X39 & Xh & Xs). pose proof Hy as (Y26 & Y34 & Y39 & Yh & Ys).
  repeat split; intros.
  - rewrite (plain_is_skip x Xh), (plain_is_skip y Yh), E. reflexivity.
  - unfold dhyph. rewrite <- (in_str_split_ws ch_minus (strip x)) by reflexivity.
    rewrite <- (in_str_split_ws ch_minus (strip y)) by reflexivity. rewrite !split_ws_strip, E. reflexivity.
  - rewrite (plain_dcount subs x Hx), (plain_dcount subs y Hy), E. reflexivity.
  - apply toks_space_ws; try assumption; try (apply plain_not_comment; assumption); auto.
  - rewrite (plain_np_toks x Xh), (plain_np_toks y Yh). exact E.
Qed.

Definition respace_lines (b b' : list (list N)) : Prop :=
  Forall2 (fun x y => plain_line x /\ plain_line y /\ split_ws x = split_ws y) b b'.

Theorem respace_data b b' : respace_lines b b' -> data_alike DSpace b b'.
Proof.
  intros H. apply lines_alike_data. induction H as [|x y l l' (Hx & Hy & E) H IH]; constructor; [|exact IH].
  apply respace_line_alike; assumption.
Qed.

(* ---- COMMA: a line is determined by its fields ------------------------------------------- *)
Lemma split_char_aux_nonempty sep : forall s cur, split_char_aux sep s cur <> [].
Proof. induction s as [|c s IH]; intros cur; cbn [split_char_aux]; [discriminate|]. destruct (c =? sep); [discriminate|apply IH]. Qed.

Lemma join_cons_nonempty (sep x : list N) l : l <> [] -> join sep (x :: l) = x ++ sep ++ join sep l.
Proof. destruct l; [congruence|reflexivity]. Qed.

Lemma join_split_char_aux sep : forall s cur, join [sep] (split_char_aux sep s cur) = rev cur ++ s.
Proof.
  induction s as [|c s IH]; intros cur; cbn [split_char_aux].
  - cbn [join]. rewrite app_nil_r. reflexivity.
  - destruct (N.eqb_spec c sep) as [->|Hne].
    + rewrite join_cons_nonempty by apply split_char_aux_nonempty. rewrite IH. reflexivity.
    + rewrite IH. cbn [rev]. rewrite <- app_assoc. reflexivity.
Qed.

Theorem split_char_inj sep l l' : split_char sep l = split_char sep l' -> l = l'.
Proof.
  intros H. apply (f_equal (join [sep])) in H. unfold split_char in H. rewrite !join_split_char_aux in H. exact H.
Qed.

(* under DLM COMMA the model's token texts determine the line: there is no inter-field freedom
   ("1, 2" has the token " 2", not "2"); what may differ is white space at the line ends *)
Corollary redelimit_comma_unique l l' : split_line DComma l = split_line DComma l' -> l = l'.
Proof. apply split_char_inj. Qed.

(* ======================================================================================= *)
(* 3. the two instances of the generic theorem                                              *)
(* ======================================================================================= *)
(* (a) re-wrapping, sniffed count <= m *)
Definition sniff_le (m : nat) (sn : option nat) : Prop :=
  match sn with Some n => (n <= m)%nat | None => True end.

Definition rewrap_rel_le (m : nat) (d : dlm) (b b' : list (list N)) : Prop :=
  (forall raw subs, In raw (b ++ b') -> apply_subs subs (strip raw) = strip raw) /\
  List.concat (map (toks d []) b) = List.concat (map (toks d []) b') /\
  sniff_le m (fst (inspect_twice d b (match d with DComma => comma_delim_subs | _ => default_subs end))) /\
  sniff_le m (fst (inspect_twice d b' (match d with DComma => comma_delim_subs | _ => default_subs end))).

Lemma sniff_below_le m sn : sniff_below m sn -> sniff_le m sn.
Proof. destruct sn as [n|]; cbn; [lia|auto]. Qed.

Lemma rewrap_rel_weaken m d b b' : rewrap_rel m d b b' -> rewrap_rel_le m d b b'.
Proof. intros (H1 & H2 & H3 & H4). repeat split; try assumption; apply sniff_below_le; assumption. Qed.

(* with WRAP declared the reshape width is the curve count as soon as the sniffed count does
   not exceed it *)
Lemma n_columns_of_wrapped_le sn nc : sniff_le nc sn -> n_columns_of sn nc true = nc.
Proof.
  destruct sn as [n|]; [|reflexivity]. cbn [sniff_le]. intros H. unfold n_columns_of. cbn [andb].
  destruct (Nat.ltb_spec n nc); [reflexivity|lia].
Qed.

Lemma sniff_le_mono m k sn : (m <= k)%nat -> sniff_le m sn -> sniff_le k sn.
Proof. destruct sn as [n|]; cbn; [lia|auto]. Qed.

Definition wrapP (m : nat) (pw : hval) (cs : section) (wd : bool) : Prop :=
  hval_is_str pw (s2l "YES") = true /\ wd = true /\ (m <= List.length (s_items cs))%nat.

Definition rewrapDR (m : nat) (d : dlm) (b b' : list (list N)) : Prop :=
  data_equiv b b' \/ rewrap_rel_le m d b b'.

Section Inst.
Variable fhex : list N -> option (list N).
Variable fstr : list N -> list N.
Variable numeq : list N -> list N -> bool.

Lemma rewrapDR_core o m d pw pn cs wd b b' : wrapP m pw cs wd -> rewrapDR m d b b' ->
  data_core fhex fstr numeq o pw pn d b cs wd = data_core fhex fstr numeq o pw pn d b' cs wd.
Proof.
  intros (Hw & -> & Hm) [H|(Hid & Ht & S1 & S2)]; [apply data_core_equiv; exact H|].
  apply data_core_rewrap_clean; try assumption.
  rewrite !n_columns_of_wrapped_le; [reflexivity| |]; eapply sniff_le_mono; eassumption.
Qed.

Lemma wrapP_grow o m d pw pn b cs wd cs' dat eng : wrapP m pw cs wd ->
  data_core fhex fstr numeq o pw pn d b cs wd = inl (cs', dat, eng) -> wrapP m pw cs' wd.
Proof.
  intros (Hw & Hwd & Hm) E. split; [exact Hw|]. split; [exact Hwd|].
  apply (data_core_curves_grow fhex fstr numeq) in E. lia.
Qed.

(* (b) alike under d: no file-level condition beyond "the file's delimiter is d" *)
Definition trueP (pw : hval) (cs : section) (wd : bool) : Prop := True.

(* ---- the extended step relation ---------------------------------------------------------- *)
(* a data block re-wrapped / re-spaced; header and ~Other blocks as their consumers see them *)
Definition rewrap_block_le (m : nat) (d : dlm) : block -> block -> Prop := rel_block (rewrapDR m d).
Definition alike_block (d : dlm) : block -> block -> Prop := rel_block (data_alike d).
Definition rewrap_file (o : ropts) (m : nat) (d : dlm) : list N -> Prop := file_ok o d (wrapP m).
Definition dlm_file (o : ropts) (d : dlm) : list N -> Prop := file_ok o d trueP.

Theorem read_rewrap_le o m d t t' pre pre' bs bs' :
  lines_keep t = pre ++ render bs -> lines_keep t' = pre' ++ render bs' ->
  notitles pre -> notitles pre' -> Forall wf_block bs -> Forall wf_block bs' ->
  Forall2 (rewrap_block_le m d) bs bs' -> rewrap_file o m d t ->
  read fhex fstr numeq o t = read fhex fstr numeq o t'.
Proof.
  apply (read_rel_blocks fhex fstr numeq o d (wrapP m) (rewrapDR m d)).
  - intros. apply (rewrapDR_core o m d); assumption.
  - intros pw pn b cs wd cs' dat eng. apply wrapP_grow.
Qed.

Theorem read_alike o d t t' pre pre' bs bs' :
  lines_keep t = pre ++ render bs -> lines_keep t' = pre' ++ render bs' ->
  notitles pre -> notitles pre' -> Forall wf_block bs -> Forall wf_block bs' ->
  Forall2 (alike_block d) bs bs' -> dlm_file o d t ->
  read fhex fstr numeq o t = read fhex fstr numeq o t'.
Proof.
  apply (read_rel_blocks fhex fstr numeq o d trueP (data_alike d)).
  - intros. apply data_core_alike. assumption.
  - intros. exact I.
Qed.

(* one presentation-only change, extended family:
   - any step of BlocksCongr.pres_step (white space at line ends, CRLF, final newline; blank
     and '#' lines; blocks their consumers cannot tell apart);
   - ps_rewrap: the data blocks of a file that says WRAP YES (steering value and ~Version item)
     and declares >= m curves, re-wrapped at any token boundaries, sniffed counts <= m;
   - ps_redelimit: the data blocks of a file whose delimiter is d replaced by bodies that are
     line by line alike under d (or, generally, data_alike d);
   - ps_respace: the instance for SPACE: plain lines with the same white-space separated
     fields, any blanks / tabs between and around them. *)
Definition respace_block (b b' : block) : Prop :=
  fst b = fst b' /\
  match section_type (strip (fst b)) with
  | TData | TLas3Data => respace_lines (snd b) (snd b')
  | _ => snd b = snd b'
  end.

Inductive pres_step_ext (o : ropts) : list N -> list N -> Prop :=
| ps_base t t' : pres_step t t' -> pres_step_ext o t t'
| ps_rewrap m d t t' pre pre' bs bs' :
    lines_keep t = pre ++ render bs -> lines_keep t' = pre' ++ render bs' ->
    notitles pre -> notitles pre' -> Forall wf_block bs -> Forall wf_block bs' ->
    Forall2 (rewrap_block_le m d) bs bs' -> rewrap_file o m d t -> pres_step_ext o t t'
| ps_redelimit d t t' pre pre' bs bs' :
    lines_keep t = pre ++ render bs -> lines_keep t' = pre' ++ render bs' ->
    notitles pre -> notitles pre' -> Forall wf_block bs -> Forall wf_block bs' ->
    Forall2 (alike_block d) bs bs' -> dlm_file o d t -> pres_step_ext o t t'
| ps_respace t t' pre pre' bs bs' :
    lines_keep t = pre ++ render bs -> lines_keep t' = pre' ++ render bs' ->
    notitles pre -> notitles pre' -> Forall wf_block bs -> Forall wf_block bs' ->
    Forall2 respace_block bs bs' -> dlm_file o DSpace t -> pres_step_ext o t t'.

Lemma respace_block_alike b b' : respace_block b b' -> alike_block DSpace b b'.
Proof.
  intros (Et & H). unfold alike_block, rel_block, rel_view, block_view, other_of_block. rewrite <- Et.
  split; [reflexivity|]. destruct (section_type (strip (fst b))).
  - apply respace_data. exact H.
  - rewrite H. reflexivity.
  - apply respace_data. exact H.
  - rewrite H. reflexivity.
Qed.

(* the old rewrap_block (RewrapRead) is an instance *)
Lemma rewrap_block_weaken m d b b' : rewrap_block m d b b' -> rewrap_block_le m d b b'.
Proof.
  intros (Et & H). unfold rewrap_block_le, rel_block, rel_view, block_view, other_of_block. rewrite <- Et.
  split; [reflexivity|]. unfold rewrapDR. destruct (section_type (strip (fst b))).
  - destruct H as [<-|H]; [left; apply data_equiv_refl|right; apply rewrap_rel_weaken; exact H].
  - rewrite H. reflexivity.
  - destruct H as [<-|H]; [left; apply data_equiv_refl|right; apply rewrap_rel_weaken; exact H].
  - rewrite H. reflexivity.
Qed.

Theorem pres_step_ext_read o t t' : pres_step_ext o t t' ->
  read fhex fstr numeq o t = read fhex fstr numeq o t'.
Proof.
  intros [t1 t2 H|m d t1 t2 pre pre' bs bs' E E' Hp Hp' Hb Hb' H Hf|d t1 t2 pre pre' bs bs' E E' Hp Hp' Hb Hb' H Hf
         |t1 t2 pre pre' bs bs' E E' Hp Hp' Hb Hb' H Hf].
  - apply pres_step_read. exact H.
  - apply (read_rewrap_le o m d t1 t2 pre pre' bs bs'); assumption.
  - apply (read_alike o d t1 t2 pre pre' bs bs'); assumption.
  - apply (read_alike o DSpace t1 t2 pre pre' bs bs'); try assumption.
    clear E E' Hb Hb' Hf. induction H as [|b b' l l' Hbb H IH]; constructor; [apply respace_block_alike; exact Hbb|exact IH].
Qed.

(* any finite composition, each change applied in either direction *)
Theorem pres_chain_ext_read o t t' : chain _ (pres_step_ext o) t t' ->
  read fhex fstr numeq o t = read fhex fstr numeq o t'.
Proof. apply chain_inv. intros x y H. apply pres_step_ext_read. exact H. Qed.

Theorem pres_path_ext_read o t mids t' : path _ (pres_step_ext o) t mids t' ->
  read fhex fstr numeq o t = read fhex fstr numeq o t'.
Proof. apply path_inv. intros x y H. apply pres_step_ext_read. exact H. Qed.

End Inst.
