(* Proofs.FuncsPinSection — the str-key lookups of Model/Items.v ARE SectionItems.__contains__ and
   SectionItems.__getitem__ (Gen/Funcs.v, re-translated from /repo on every run), for a key that is
   a str: the isinstance(key, slice) / isinstance(key, int) / hasattr(testitem, "mnemonic") /
   `testitem is item` branches are unreachable for a str and are not translated (int keys, slices and
   item arguments stay hand-modelled: contains_key, lookup_ix, getslice).
   pitem_of shows a model item as the object the translated functions read (session mnemonic,
   original mnemonic, unit, value, descr).  None: KeyError.
   Restated as C15_contains_current, C15_getitem_current. *)
From Coq Require Import List Arith NArith ZArith Bool Lia String.
Import ListNotations.
Require Import PyStr Funcs Items FuncsPinItems.
Open Scope list_scope.
Open Scope N_scope.

Definition pitem_of (it : Items.item) : py_item (list N) :=
  mk_py_item (sess it) (orig it) (Items.it_unit it) (Items.it_value it) (Items.it_descr it).

Theorem section_contains_pin : forall s m,
  contains s m = py_section_contains (transforms s) (List.map pitem_of (items s)) m.
Proof.
  intros s m. unfold contains, py_section_contains.
  set (tr := transforms s). generalize (items s) as l.
  induction l as [|it l IH]; [reflexivity|].
  cbn [existsb map fold_left]. change (Funcs.it_mnemonic (pitem_of it)) with (sess it).
  rewrite <- mnemonic_compare_pin.
  destruct (mnemonic_compare tr m (sess it)); cbn [orb]; [|exact IH].
  clear IH. induction l as [|x l IH]; [reflexivity|exact IH].
Qed.

Definition ires_item (r : ires Items.item) : option (py_item (list N)) :=
  match r with IOk it => Some (pitem_of it) | IErr _ => None end.

Theorem section_getitem_pin : forall s m,
  ires_item (getitem s (KStr m)) = py_section_getitem (transforms s) (List.map pitem_of (items s)) m.
Proof.
  intros s m. unfold getitem, lookup_ix, py_section_getitem.
  set (tr := transforms s). generalize (items s) as l.
  induction l as [|it l IH]; [reflexivity|].
  cbn [find_ix map fold_left]. change (Funcs.it_mnemonic (pitem_of it)) with (sess it).
  rewrite <- mnemonic_compare_pin.
  destruct (mnemonic_compare tr (sess it) m).
  - cbn [nth_error ires_item]. clear IH. induction l as [|x l IH]; [reflexivity|exact IH].
  - rewrite <- IH. destruct (find_ix _ l) as [n|]; reflexivity.
Qed.

(* s[m] succeeds exactly when m in s *)
Corollary section_getitem_some_iff_contains : forall s m,
  (py_section_getitem (transforms s) (List.map pitem_of (items s)) m <> None) <->
  (exists it, In it (items s) /\ mnemonic_compare (transforms s) (sess it) m = true).
Proof.
  intros s m. rewrite <- section_getitem_pin. unfold getitem, lookup_ix.
  generalize (items s) as l. induction l as [|it l IH]; cbn [find_ix].
  - split; [intros H; exfalso; apply H; reflexivity|intros [it [[] _]]].
  - destruct (mnemonic_compare (transforms s) (sess it) m) eqn:E.
    + cbn. split; [intros _; exists it; split; [left; reflexivity|exact E]|discriminate].
    + destruct (find_ix _ l) as [n|] eqn:F; cbn [nth_error] in *.
      * split; [intros H; apply IH in H; destruct H as [x [Hi Hx]]; exists x; split; [right; exact Hi|exact Hx]|].
        intros [x [[->|Hi] Hx]]; [congruence|]. apply IH. exists x. split; assumption.
      * split; [intros H; exfalso; apply H; reflexivity|].
        intros [x [[->|Hi] Hx]]; [congruence|]. exfalso. assert (H : exists it0, In it0 l /\ mnemonic_compare (transforms s) (sess it0) m = true) by (exists x; split; assumption).
        apply IH in H. apply H. reflexivity.
Qed.
