(* Proofs.FuncsPinParserInit — which parser method a section title selects and which orders the
   parser holds (Model/SectionParse.kind_of_title, sect_table_name, parser_entry) ARE
   SectionParser.__init__ (Gen/Funcs.v: py_parser_init, re-translated from /repo on every run), read
   as the function (title, version) -> (func, section_name2, default_order, orders).
   Domain: the title starts with "~" (find_sections keeps only such lines) and the version is not
   3.0 (LAS 3.0 sections are outside the model).  With parser_init_pin the hypotheses of metadata_pin
   (Proofs/FuncsPinParser.v) are what __init__ establishes.
   Restated as C08_parser_init_current. *)
From Coq Require Import List Arith NArith ZArith Bool Lia String.
Import ListNotations.
Require Import PyStr Regex Regexes NumLit Tables Funcs Num HeaderLine SectionParse
  FuncsPinsLib FuncsPinStandardize FuncsPinWriter FuncsPinNum FuncsPinParser.
Open Scope list_scope.
Open Scope N_scope.

Definition tag_curves : list N := Eval compute in s2l "curves".
Definition tag_params : list N := Eval compute in s2l "params".
Definition tag_metadata : list N := Eval compute in s2l "metadata".
(* self.func *)
Definition func_tag (k : skind) : list N :=
  match k with KCurves => tag_curves | KParameter => tag_params | _ => tag_metadata end.
(* self.section_name2 *)
Definition name2 (k : skind) (title : list N) : list N :=
  match k with KCustom => title | _ => sect_table_name k end.

Definition kind_if (u : list N) : skind :=
  if startswith [126; 67] u then KCurves
  else if startswith [126; 80] u then KParameter
  else if startswith [126; 87] u then KWell
  else if startswith [126; 86] u then KVersion
  else KCustom.

Lemma kind_of_title_if : forall t, kind_of_title t = kind_if (upper t).
Proof.
  intros t. unfold kind_of_title. generalize (upper t) as u. intros u. unfold kind_if.
  destruct u as [|a [|b r]]; [reflexivity| |].
  - destruct a as [|p]; [reflexivity|]. do 7 (try (destruct p as [p|p|])); reflexivity.
  - destruct a as [|p]; [reflexivity|]. do 7 (try (destruct p as [p|p|])); try reflexivity.
    destruct b as [|q]; [reflexivity|]. do 7 (try (destruct q as [q|q|])); reflexivity.
Qed.

Lemma lookup_tilde : forall v r, lookup_order_entry v (126 :: r) order_definitions = None.
Proof. intros v r. destruct v; reflexivity. Qed.

Lemma lookup_standard : forall v k, k <> KCustom ->
  lookup_order_entry v (sect_table_name k) order_definitions = Some (parser_entry v k).
Proof. intros v k Hk. destruct k; try congruence; destruct v; reflexivity. Qed.

Theorem parser_init_pin : forall t v,
  startswith [ch_tilde] t = true -> v <> V30 ->
  py_parser_init t v =
  let k := kind_of_title t in
  Some (func_tag k, name2 k t,
        Some (order_str (fst (parser_entry v k))), Some (parser_orders (snd (parser_entry v k)))).
Proof.
  intros t v Ht Hv. cbv zeta. rewrite kind_of_title_if. unfold py_parser_init, kind_if, pyo_upper, upper. cbv zeta.
  assert (H30 : pyo_version_eqb v V30 = false) by (destruct v; try reflexivity; congruence).
  rewrite H30. cbn [andb].
  assert (Hstd : forall k, k <> KCustom ->
            pyo_order_lookup order_definitions v (sect_table_name k) = Some (parser_entry v k))
    by (intros k Hk; rewrite order_lookup_same; apply lookup_standard; exact Hk).
  destruct (startswith [126; 67] (map ascii_upper t));
    [|destruct (startswith [126; 80] (map ascii_upper t));
      [|destruct (startswith [126; 87] (map ascii_upper t));
        [|destruct (startswith [126; 86] (map ascii_upper t))]]].
  - change [67; 117; 114; 118; 101; 115] with (sect_table_name KCurves).
    rewrite (Hstd KCurves) by discriminate. reflexivity.
  - change [80; 97; 114; 97; 109; 101; 116; 101; 114] with (sect_table_name KParameter).
    rewrite (Hstd KParameter) by discriminate. reflexivity.
  - change [87; 101; 108; 108] with (sect_table_name KWell).
    rewrite (Hstd KWell) by discriminate. reflexivity.
  - change [86; 101; 114; 115; 105; 111; 110] with (sect_table_name KVersion).
    rewrite (Hstd KVersion) by discriminate. reflexivity.
  - destruct t as [|c r]; [discriminate Ht|]. cbn [startswith] in Ht. rewrite andb_true_r in Ht.
    apply N.eqb_eq in Ht. unfold ch_tilde in Ht. subst c.
    rewrite order_lookup_same, lookup_tilde. reflexivity.
Qed.

(* SectionParser.__call__: item = self.func(keys...), on the method name __init__ stored *)
Definition parser_call (fstr : list N -> list N) (fzero : list N -> bool)
           (func : list N) (dflt : list N) (orders : list (list N * list N)) (keys : py_keys)
  : option (py_item hval) :=
  if str_eqb func tag_curves then py_parser_curves (hval_ops fstr fzero) keys
  else if str_eqb func tag_params then py_parser_params (hval_ops fstr fzero) num_hval_ops keys
  else py_parser_metadata (hval_ops fstr fzero) num_hval_ops orders dflt keys.

(* the parser object __init__ builds, applied to a parsed line, is build_item *)
Theorem parser_call_pin : forall fstr fzero t v h func n2 dflt orders,
  startswith [ch_tilde] t = true -> v <> V30 ->
  py_parser_init t v = Some (func, n2, Some dflt, Some orders) ->
  parser_call fstr fzero func dflt orders (keys_of h) = Some (item_of (build_item v (kind_of_title t) h)).
Proof.
  intros fstr fzero t v h func n2 dflt orders Ht Hv Hinit.
  rewrite (parser_init_pin t v Ht Hv) in Hinit. cbv zeta in Hinit.
  injection Hinit as <- _ <- <-. unfold parser_call.
  destruct (kind_of_title t) eqn:Ek; cbn [func_tag];
    first [ apply curves_pin | apply params_pin | apply metadata_pin; discriminate ].
Qed.
