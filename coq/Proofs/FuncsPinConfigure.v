(* Proofs.FuncsPinConfigure — Model/HeaderLine.configure_patterns IS
   reader.configure_metadata_patterns (Gen/Funcs.v, re-translated from /repo on every run): equal
   lists of regex ASTs for every line and every section name.  Restated as C04_selection_current. *)
From Coq Require Import List Arith NArith ZArith Bool Lia ZifyBool ZifyN ZifyNat String.
Import ListNotations.
Require Import PyStr Regex Regexes Funcs HeaderLine FuncsPinsLib.
Open Scope list_scope.
Open Scope N_scope.

Lemma lt_opt_Z a b : lt_opt a b = (pyo_optZ a <? pyo_optZ b)%Z.
Proof. destruct a as [x|], b as [y|]; cbn [lt_opt pyo_optZ]; lia. Qed.

(* s[0], s[-1], s[1:-1] on a string of at least one / two characters *)

(* ---------- reader.configure_metadata_patterns --------------------------------------------- *)

Lemma configure_search_current : py_configure_metadata_patterns_rx1 = rx_double_dot_search.
Proof. reflexivity. Qed.

Theorem configure_patterns_pin : forall line section_name,
  configure_patterns line (str_eqb section_name name_Curves) (str_eqb section_name name_Parameter)
  = pats_re (py_configure_metadata_patterns line section_name).
Proof.
  intros line sn.
  unfold configure_patterns, py_configure_metadata_patterns, pyo_in, pyo_find, pyo_rfind_char,
    name_Curves, name_Parameter, find_char, ch_colon, ch_dot.
  rewrite configure_search_current, lt_opt_Z, !contains_single.
  destruct (find [58] line) as [i|] eqn:Hf.
  - assert (Hc : in_str 58 line = true)
      by (rewrite <- contains_single; unfold contains; rewrite Hf; reflexivity).
    rewrite Hc. cbn [pyo_optZ]. rewrite pyo_slice_to.
    destruct (in_str 46 (firstn i line));
      destruct (re_search rx_double_dot_search line);
      destruct (str_eqb sn [67; 117; 114; 118; 101; 115]);
      destruct (Z.ltb (pyo_optZ (find [46; 46] line)) (pyo_optZ (rfind_char 58 line)));
      destruct (str_eqb sn [80; 97; 114; 97; 109; 101; 116; 101; 114]);
      reflexivity.
  - assert (Hc : in_str 58 line = false)
      by (rewrite <- contains_single; unfold contains; rewrite Hf; reflexivity).
    rewrite Hc.
    destruct (contains [46; 46] line);
      destruct (str_eqb sn [67; 117; 114; 118; 101; 115]);
      destruct (str_eqb sn [80; 97; 114; 97; 109; 101; 116; 101; 114]);
      reflexivity.
Qed.
