(* Proofs.JunkProofs — the header-items loop (SectionParse.parse_body) as a filter_map over its
   lines, and what follows for junk lines (C19):
   * the control flow never depends on the accumulated items: `scan` lists the parsed items
     and the first offending line; parse_body = fold of sect_append over them;
   * with ignore_header_errors no line list makes the loop fail; without it the only failure
     is PErr of a stripped line that parse_line rejects;
   * inserting junk lines adds at most the junk items: the (orig, unit, value, descr) of the
     genuine items stay, in order, a subsequence of the result;
   * an item whose name is not a steering key (VERS/WRAP/DLM/NULL) never changes what
     sect_find returns for those keys, hence update_steering is unchanged. *)
From Coq Require Import List Arith NArith Bool Lia ZifyBool ZifyN ZifyNat String.
Import ListNotations.
Require Import PyStr Regex NumLit Num HeaderLine Tables SectionParse Sections DataRead Read.
Require Import RegexSubFacts StripFacts ItemsBindProofs.
Open Scope string_scope.
Open Scope list_scope.
Open Scope N_scope.

(* ---- subsequences, insertion of lines ------------------------------------------------- *)
Inductive subseq {A} : list A -> list A -> Prop :=
| sub_nil : subseq [] []
| sub_skip x l l' : subseq l l' -> subseq l (x :: l')
| sub_keep x l l' : subseq l l' -> subseq (x :: l) (x :: l').

Lemma subseq_refl {A} (l : list A) : subseq l l.
Proof. induction l; constructor; assumption. Qed.
Lemma subseq_app_l {A} (p l l' : list A) : subseq l l' -> subseq (p ++ l) (p ++ l').
Proof. intros H. induction p; cbn [app]; [exact H|constructor; assumption]. Qed.
Lemma subseq_length {A} (l l' : list A) : subseq l l' -> (List.length l <= List.length l')%nat.
Proof. induction 1; cbn [List.length]; lia. Qed.
Lemma subseq_In {A} (l l' : list A) x : subseq l l' -> In x l -> In x l'.
Proof. induction 1; cbn [In]; intuition. Qed.
Lemma subseq_map {A B} (f : A -> B) l l' : subseq l l' -> subseq (map f l) (map f l').
Proof. induction 1; cbn [map]; constructor; assumption. Qed.

(* lines' is lines with further lines inserted, each satisfying P *)
Inductive ins_lines (P : list N -> Prop) : list (list N) -> list (list N) -> Prop :=
| ji_nil : ins_lines P [] []
| ji_junk j l l' : P j -> ins_lines P l l' -> ins_lines P l (j :: l')
| ji_keep x l l' : ins_lines P l l' -> ins_lines P (x :: l) (x :: l').

Lemma ins_lines_refl (P : list N -> Prop) l : ins_lines P l l.
Proof. induction l; constructor; assumption. Qed.

Lemma ins_lines_one (P : list N -> Prop) a j b : P j -> ins_lines P (a ++ b) (a ++ j :: b).
Proof.
  intros H. induction a as [|x a IH]; cbn [app].
  - apply ji_junk; [exact H|apply ins_lines_refl].
  - apply ji_keep. exact IH.
Qed.

Lemma ins_lines_mono (P Q : list N -> Prop) l l' :
  (forall x, P x -> Q x) -> ins_lines P l l' -> ins_lines Q l l'.
Proof.
  intros H. induction 1 as [|j l l' Hj _ IH|x l l' _ IH].
  - apply ji_nil.
  - apply ji_junk; auto.
  - apply ji_keep; auto.
Qed.

Lemma ins_lines_trans (P : list N -> Prop) l1 l2 : ins_lines P l1 l2 -> forall l3, ins_lines P l2 l3 -> ins_lines P l1 l3.
Proof.
  intros H12 l3 H23. revert l1 H12. induction H23 as [|j l l' Hj H IH|x l l' H IH]; intros l1 H12.
  - exact H12.
  - apply ji_junk; [exact Hj|]. apply IH. exact H12.
  - inversion H12; subst.
    + apply ji_junk; [assumption|]. apply IH. assumption.
    + apply ji_keep. apply IH. assumption.
Qed.

Lemma ins_lines_app (P : list N -> Prop) a a' b b' : ins_lines P a a' -> ins_lines P b b' -> ins_lines P (a ++ b) (a' ++ b').
Proof. intros Ha Hb. induction Ha; cbn [app]; [exact Hb| |]; constructor; assumption. Qed.

(* a line that is not a title *)
Definition nontitle (j : list N) : Prop := startswith [ch_tilde] (strip j) = false.
Notation junk_ins := (ins_lines nontitle).

(* ---- classification of one physical line --------------------------------------------- *)
Inductive lclass := LSkip | LStop | LItem (it : hitem) | LBad (line : list N).

Section Body.
Variables (v : las_version) (k : skind) (c : mcase) (cc : list N) (tr : bool).

Definition classify (raw : list N) : lclass :=
  match strip raw with
  | [] => LSkip
  | ch :: _ =>
      if in_str ch cc then LSkip else if ch =? ch_tilde then LStop
      else match parse_line v k c (strip raw) with Some it => LItem it | None => LBad (strip raw) end
  end.

(* a content line: not blank, not a comment, not a title -- what the property calls a line
   "placed inside a header section" *)
Definition content_line (raw : list N) : bool :=
  match strip raw with
  | [] => false
  | ch :: _ => negb (in_str ch cc) && negb (ch =? ch_tilde)
  end.

Lemma parse_body_cons ig raw rest acc :
  parse_body v k c ig cc tr (raw :: rest) acc =
  match classify raw with
  | LSkip => parse_body v k c ig cc tr rest acc
  | LStop => POk acc
  | LItem it => parse_body v k c ig cc tr rest (sect_append tr acc it)
  | LBad l => if ig then parse_body v k c ig cc tr rest acc else PErr l
  end.
Proof.
  cbn [parse_body]. unfold classify. destruct (strip raw) as [|ch r]; [reflexivity|].
  destruct (in_str ch cc); [reflexivity|]. destruct (ch =? ch_tilde); [reflexivity|].
  destruct (parse_line v k c (ch :: r)); reflexivity.
Qed.

Lemma classify_content raw :
  content_line raw = true ->
  classify raw = match parse_line v k c (strip raw) with Some it => LItem it | None => LBad (strip raw) end.
Proof.
  unfold content_line, classify. destruct (strip raw) as [|ch r]; [discriminate|].
  intros H. apply andb_true_iff in H as [H1 H2]. apply negb_true_iff in H1, H2. rewrite H1, H2. reflexivity.
Qed.

Lemma classify_not_content raw :
  content_line raw = false -> classify raw = LSkip \/ classify raw = LStop.
Proof.
  unfold content_line, classify. destruct (strip raw) as [|ch r]; [auto|].
  destruct (in_str ch cc); [auto|]. destruct (ch =? ch_tilde); [auto|]. discriminate.
Qed.

Lemma classify_stop_title raw : classify raw = LStop -> startswith [ch_tilde] (strip raw) = true.
Proof.
  unfold classify. destruct (strip raw) as [|ch r]; [discriminate|].
  destruct (in_str ch cc); [discriminate|]. destruct (ch =? ch_tilde) eqn:E.
  - intros _. cbn [startswith]. rewrite N.eqb_sym, E. reflexivity.
  - destruct (parse_line v k c (ch :: r)); discriminate.
Qed.

Lemma classify_item raw it : classify raw = LItem it ->
  content_line raw = true /\ parse_line v k c (strip raw) = Some it.
Proof.
  unfold classify, content_line. destruct (strip raw) as [|ch r]; [discriminate|].
  destruct (in_str ch cc); [discriminate|]. destruct (ch =? ch_tilde); [discriminate|].
  destruct (parse_line v k c (ch :: r)) as [it'|]; [|discriminate]. intros E. injection E as ->. auto.
Qed.

Lemma classify_bad raw l : classify raw = LBad l ->
  content_line raw = true /\ l = strip raw /\ parse_line v k c (strip raw) = None.
Proof.
  unfold classify, content_line. destruct (strip raw) as [|ch r]; [discriminate|].
  destruct (in_str ch cc); [discriminate|]. destruct (ch =? ch_tilde); [discriminate|].
  destruct (parse_line v k c (ch :: r)) as [it'|]; [discriminate|]. intros E. injection E as <-. auto.
Qed.

(* ---- the loop without its accumulator ------------------------------------------------ *)
Fixpoint scan (ig : bool) (lines : list (list N)) : list hitem * option (list N) :=
  match lines with
  | [] => ([], None)
  | raw :: rest =>
      match classify raw with
      | LSkip => scan ig rest
      | LStop => ([], None)
      | LItem it => let (its, e) := scan ig rest in (it :: its, e)
      | LBad l => if ig then scan ig rest else ([], Some l)
      end
  end.

Definition append_all (acc : list hitem) (its : list hitem) : list hitem :=
  fold_left (sect_append tr) its acc.

Lemma parse_body_scan ig : forall lines acc,
  parse_body v k c ig cc tr lines acc =
  match snd (scan ig lines) with
  | Some l => PErr l
  | None => POk (append_all acc (fst (scan ig lines)))
  end.
Proof.
  induction lines as [|raw rest IH]; intros acc; [reflexivity|].
  rewrite parse_body_cons. cbn [scan]. destruct (classify raw) as [| |it|l].
  - apply IH.
  - reflexivity.
  - rewrite IH. destruct (scan ig rest) as [its e]. cbn [fst snd]. reflexivity.
  - destruct ig; [apply IH|reflexivity].
Qed.

Lemma append_all_meta : forall its acc, map meta (append_all acc its) = map meta acc ++ map meta its.
Proof.
  unfold append_all. induction its as [|it its IH]; intros acc; cbn [fold_left map].
  - rewrite app_nil_r. reflexivity.
  - rewrite IH, sect_append_meta, <- app_assoc. reflexivity.
Qed.

Lemma append_all_length : forall its acc,
  List.length (append_all acc its) = (List.length acc + List.length its)%nat.
Proof.
  unfold append_all. induction its as [|it its IH]; intros acc; cbn [fold_left List.length]; [lia|].
  rewrite IH, sect_append_length. lia.
Qed.

(* every successful parse: the result's metadata are the accumulator's followed by those of
   the parsed lines, in line order (the loop is a filter_map) *)
Theorem parse_body_meta ig lines acc r :
  parse_body v k c ig cc tr lines acc = POk r ->
  map meta r = map meta acc ++ map meta (fst (scan ig lines)).
Proof.
  rewrite parse_body_scan. destruct (snd (scan ig lines)); [discriminate|].
  intros E. injection E as <-. apply append_all_meta.
Qed.

(* ---- C19.1: total with the flag ------------------------------------------------------ *)
Lemma scan_ignore_no_error : forall lines, snd (scan true lines) = None.
Proof.
  induction lines as [|raw rest IH]; [reflexivity|]. cbn [scan].
  destruct (classify raw); try assumption; try reflexivity.
  destruct (scan true rest) as [its e]. exact IH.
Qed.

Theorem parse_body_total lines acc : exists r, parse_body v k c true cc tr lines acc = POk r.
Proof. rewrite parse_body_scan, scan_ignore_no_error. eauto. Qed.

Theorem parse_body_total_ne lines acc l : parse_body v k c true cc tr lines acc <> PErr l.
Proof. destruct (parse_body_total lines acc) as (r & E). rewrite E. discriminate. Qed.

(* ---- C19.4: the only failure, and it names its line ---------------------------------- *)
Lemma scan_error_names_line ig : forall lines l, snd (scan ig lines) = Some l ->
  ig = false /\ exists raw, In raw lines /\ l = strip raw /\ content_line raw = true /\
                            parse_line v k c (strip raw) = None.
Proof.
  induction lines as [|raw rest IH]; intros l H; [discriminate|]. cbn [scan] in H.
  destruct (classify raw) as [| |it|b] eqn:Ec.
  - destruct (IH l H) as (Hi & raw' & Hin & E). split; [exact Hi|]. exists raw'. split; [right; exact Hin|exact E].
  - discriminate.
  - destruct (scan ig rest) as [its e]. cbn [snd] in *.
    destruct (IH l H) as (Hi & raw' & Hin & E). split; [exact Hi|]. exists raw'. split; [right; exact Hin|exact E].
  - destruct ig.
    + destruct (IH l H) as (Hi & _). discriminate.
    + cbn [snd] in H. injection H as <-. split; [reflexivity|].
      destruct (classify_bad raw b Ec) as (Hc & El & Hp). exists raw. split; [left; reflexivity|]. auto.
Qed.

Theorem parse_body_only_header_error ig lines acc :
  (exists r, parse_body v k c ig cc tr lines acc = POk r) \/
  (ig = false /\ exists raw, In raw lines /\ parse_body v k c ig cc tr lines acc = PErr (strip raw) /\
                            content_line raw = true /\ parse_line v k c (strip raw) = None).
Proof.
  rewrite parse_body_scan. destruct (snd (scan ig lines)) as [l|] eqn:E; [right|left; eauto].
  destruct (scan_error_names_line ig lines l E) as (Hi & raw & Hin & El & Hc & Hp).
  split; [exact Hi|]. exists raw. subst l. auto.
Qed.

(* the error is the FIRST offending line: everything before it is fine *)
Theorem parse_body_error_first ig lines acc l :
  parse_body v k c ig cc tr lines acc = PErr l ->
  exists a raw b, lines = a ++ raw :: b /\ l = strip raw /\ content_line raw = true /\
                  parse_line v k c (strip raw) = None /\
                  Forall (fun x => content_line x = true -> parse_line v k c (strip x) <> None) a.
Proof.
  revert acc. induction lines as [|raw rest IH]; intros acc H; [discriminate|].
  rewrite parse_body_cons in H. destruct (classify raw) as [| |it|b] eqn:Ec.
  - destruct (IH _ H) as (a & raw' & b' & E & R). exists (raw :: a), raw', b'. subst rest.
    split; [reflexivity|]. destruct R as (R1 & R2 & R3 & R4). repeat split; try assumption.
    constructor; [|exact R4]. intros Hc. rewrite (classify_content raw Hc) in Ec.
    destruct (parse_line v k c (strip raw)); discriminate.
  - discriminate.
  - destruct (IH _ H) as (a & raw' & b' & E & R). exists (raw :: a), raw', b'. subst rest.
    split; [reflexivity|]. destruct R as (R1 & R2 & R3 & R4). repeat split; try assumption.
    constructor; [|exact R4]. intros _. destruct (classify_item raw it Ec) as (_ & Hp). congruence.
  - destruct ig.
    + destruct (parse_body_total rest acc) as (r & E). congruence.
    + injection H as <-. destruct (classify_bad raw b Ec) as (Hc & El & Hp).
      exists [], raw, rest. repeat split; auto.
Qed.

(* when every content line parses, the flag is irrelevant *)
Lemma scan_flag_irrelevant : forall lines,
  Forall (fun x => content_line x = true -> parse_line v k c (strip x) <> None) lines ->
  scan true lines = scan false lines.
Proof.
  induction lines as [|raw rest IH]; intros H; [reflexivity|].
  inversion H as [|? ? Hraw Hrest]; subst. cbn [scan]. destruct (classify raw) as [| |it|b] eqn:Ec.
  - apply IH. exact Hrest.
  - reflexivity.
  - rewrite IH by exact Hrest. reflexivity.
  - destruct (classify_bad raw b Ec) as (Hc & _ & Hp). exfalso. apply (Hraw Hc). exact Hp.
Qed.

Theorem parse_body_flag_irrelevant lines acc :
  Forall (fun x => content_line x = true -> parse_line v k c (strip x) <> None) lines ->
  parse_body v k c true cc tr lines acc = parse_body v k c false cc tr lines acc.
Proof. intros H. rewrite !parse_body_scan, (scan_flag_irrelevant lines H). reflexivity. Qed.

(* ---- congruence: replacing a tail (or one line) that the loop treats alike ------------- *)
Lemma parse_body_app_congr ig X Y :
  (forall acc, parse_body v k c ig cc tr X acc = parse_body v k c ig cc tr Y acc) ->
  forall a acc, parse_body v k c ig cc tr (a ++ X) acc = parse_body v k c ig cc tr (a ++ Y) acc.
Proof.
  intros H. induction a as [|raw a IH]; intros acc; cbn [app]; [apply H|].
  rewrite !parse_body_cons. destruct (classify raw); try reflexivity; try apply IH.
  destruct ig; [apply IH|reflexivity].
Qed.

(* C19.2: an unparsable junk line is skipped, nothing else changes (at ANY site: if an
   earlier line stops the loop, neither text reaches the site) *)
Theorem junk_unparsable_skipped a j b acc :
  startswith [ch_tilde] (strip j) = false ->
  parse_line v k c (strip j) = None ->
  parse_body v k c true cc tr (a ++ j :: b) acc = parse_body v k c true cc tr (a ++ b) acc.
Proof.
  intros Ht Hp. apply parse_body_app_congr. intros acc'. rewrite parse_body_cons.
  destruct (classify j) as [| |it|l] eqn:Ec; try reflexivity.
  - apply classify_stop_title in Ec. congruence.
  - destruct (classify_item j it Ec) as (_ & E). congruence.
Qed.

(* ---- reaching the site --------------------------------------------------------------- *)
Definition no_title (a : list (list N)) : Prop :=
  Forall (fun raw => startswith [ch_tilde] (strip raw) = false) a.

Lemma scan_app ig : forall a b, no_title a ->
  scan ig (a ++ b) =
  match snd (scan ig a) with
  | Some l => scan ig a
  | None => (fst (scan ig a) ++ fst (scan ig b), snd (scan ig b))
  end.
Proof.
  induction a as [|raw a IH]; intros b H; cbn [app].
  - cbn [scan fst snd app]. destruct (scan ig b); reflexivity.
  - inversion H as [|? ? Hraw Ha]; subst. cbn [scan]. destruct (classify raw) as [| |it|l] eqn:Ec.
    + apply IH. exact Ha.
    + apply classify_stop_title in Ec. congruence.
    + rewrite (IH b Ha). destruct (scan ig a) as [its e]. cbn [fst snd].
      destruct e; [reflexivity|]. destruct (scan ig b) as [its' e']. reflexivity.
    + destruct ig; [apply IH; exact Ha|reflexivity].
Qed.

(* parse_body over a concatenation: the state after the first part is handed on *)
Theorem parse_body_app ig a b acc : no_title a ->
  parse_body v k c ig cc tr (a ++ b) acc =
  match parse_body v k c ig cc tr a acc with
  | POk acc' => parse_body v k c ig cc tr b acc'
  | PErr l => PErr l
  end.
Proof.
  intros H. rewrite !parse_body_scan, (scan_app ig a b H).
  destruct (snd (scan ig a)) as [l|] eqn:E; [rewrite E; reflexivity|].
  cbn [fst snd]. rewrite parse_body_scan. destruct (snd (scan ig b)); [reflexivity|].
  unfold append_all. rewrite fold_left_app. reflexivity.
Qed.

(* ---- C19.3: a parsable junk line adds exactly its own item --------------------------- *)
Definition insert_at {A} (p : nat) (x : A) (l : list A) : list A := firstn p l ++ x :: skipn p l.
Definition remove_at {A} (p : nat) (l : list A) : list A := firstn p l ++ skipn (S p) l.

Lemma remove_insert_at {A} p (x : A) l : (p <= List.length l)%nat -> remove_at p (insert_at p x l) = l.
Proof.
  intros H. unfold remove_at, insert_at.
  assert (L : List.length (firstn p l) = p) by (apply firstn_length_le; exact H).
  rewrite firstn_app, L, Nat.sub_diag. cbn [firstn]. rewrite app_nil_r.
  rewrite firstn_all2 by lia.
  replace (S p) with (List.length (firstn p l ++ [x])) by (rewrite app_length, L; cbn; lia).
  replace (firstn p l ++ x :: skipn p l) with ((firstn p l ++ [x]) ++ skipn p l)
    by (rewrite <- app_assoc; reflexivity).
  rewrite skipn_app, skipn_all, Nat.sub_diag. cbn [skipn app]. apply firstn_skipn.
Qed.

Lemma scan_insert_item ig a j b it : no_title a -> classify j = LItem it ->
  snd (scan ig (a ++ b)) = None ->
  snd (scan ig (a ++ j :: b)) = None /\
  fst (scan ig (a ++ j :: b)) = fst (scan ig a) ++ it :: fst (scan ig b) /\
  fst (scan ig (a ++ b)) = fst (scan ig a) ++ fst (scan ig b).
Proof.
  intros Ha Hj. rewrite !(scan_app ig a) by exact Ha.
  destruct (snd (scan ig a)) as [l|] eqn:Ea; [intros H; congruence|].
  cbn [fst snd scan]. rewrite Hj. destruct (scan ig b) as [its e]. cbn [fst snd]. auto.
Qed.

Theorem junk_parsable_adds_one ig a j b acc r it :
  no_title a -> content_line j = true -> parse_line v k c (strip j) = Some it ->
  parse_body v k c ig cc tr (a ++ b) acc = POk r ->
  exists r' p,
    parse_body v k c ig cc tr (a ++ j :: b) acc = POk r' /\
    List.length r' = S (List.length r) /\
    (p <= List.length r)%nat /\
    map meta r' = insert_at p (meta it) (map meta r) /\
    remove_at p (map meta r') = map meta r.
Proof.
  intros Ha Hc Hp H.
  assert (Hj : classify j = LItem it) by (rewrite (classify_content j Hc), Hp; reflexivity).
  rewrite parse_body_scan in H. destruct (snd (scan ig (a ++ b))) eqn:E; [discriminate|].
  injection H as <-.
  destruct (scan_insert_item ig a j b it Ha Hj E) as (E1 & E2 & E3).
  exists (append_all acc (fst (scan ig (a ++ j :: b)))),
         (List.length acc + List.length (fst (scan ig a)))%nat.
  rewrite parse_body_scan, E1. split; [reflexivity|].
  rewrite !append_all_length, !append_all_meta, E2, E3, !app_length. cbn [List.length].
  split; [lia|]. split; [lia|].
  assert (Hi : map meta acc ++ map meta (fst (scan ig a) ++ it :: fst (scan ig b)) =
               insert_at (List.length acc + List.length (fst (scan ig a)))
                 (meta it) (map meta acc ++ map meta (fst (scan ig a) ++ fst (scan ig b)))).
  { unfold insert_at. rewrite !map_app. cbn [map]. rewrite !app_assoc.
    set (pre := map meta acc ++ map meta (fst (scan ig a))).
    assert (L : List.length pre = (List.length acc + List.length (fst (scan ig a)))%nat).
    { unfold pre. rewrite app_length, !map_length. reflexivity. }
    rewrite <- L. rewrite firstn_app, firstn_all, Nat.sub_diag. cbn [firstn]. rewrite app_nil_r.
    rewrite skipn_app, skipn_all, Nat.sub_diag. cbn [skipn app]. reflexivity. }
  split; [exact Hi|]. rewrite Hi. apply remove_insert_at.
  rewrite app_length, !map_length, app_length. lia.
Qed.

(* ---- any number of junk lines at any sites: genuine items stay a subsequence ----------- *)
Lemma scan_junk_ins ig lines lines' : junk_ins lines lines' ->
  snd (scan ig lines') = None -> snd (scan ig lines) = None ->
  subseq (fst (scan ig lines)) (fst (scan ig lines')).
Proof.
  induction 1 as [|j l l' Hj H IH|x l l' H IH]; intros E' E.
  - constructor.
  - cbn [scan] in *. destruct (classify j) as [| |it|b] eqn:Ec.
    + apply IH; assumption.
    + apply classify_stop_title in Ec. congruence.
    + destruct (scan ig l') as [its e]. cbn [fst snd] in *. apply sub_skip. apply IH; assumption.
    + destruct ig; [apply IH; assumption|discriminate].
  - cbn [scan] in *. destruct (classify x) as [| |it|b] eqn:Ec.
    + apply IH; assumption.
    + constructor.
    + destruct (scan ig l') as [its' e']. destruct (scan ig l) as [its e]. cbn [fst snd] in *.
      apply sub_keep. apply IH; assumption.
    + destruct ig; [apply IH; assumption|discriminate].
Qed.

Theorem junk_genuine_subsequence ig lines lines' acc r r' :
  junk_ins lines lines' ->
  parse_body v k c ig cc tr lines acc = POk r ->
  parse_body v k c ig cc tr lines' acc = POk r' ->
  subseq (map meta r) (map meta r').
Proof.
  intros J H H'. rewrite parse_body_scan in H, H'.
  destruct (snd (scan ig lines)) eqn:E; [discriminate|].
  destruct (snd (scan ig lines')) eqn:E'; [discriminate|].
  injection H as <-. injection H' as <-. rewrite !append_all_meta. apply subseq_app_l.
  clear acc. pose proof (scan_junk_ins ig lines lines' J E' E) as S.
  induction S; cbn [map]; constructor; assumption.
Qed.

(* every genuine item is still there with its original mnemonic, unit, value, description *)
Theorem junk_fields_frame ig lines lines' acc r r' :
  junk_ins lines lines' ->
  parse_body v k c ig cc tr lines acc = POk r ->
  parse_body v k c ig cc tr lines' acc = POk r' ->
  forall it, In it r ->
  exists it', In it' r' /\ i_orig it' = i_orig it /\ i_unit it' = i_unit it /\
              i_value it' = i_value it /\ i_descr it' = i_descr it.
Proof.
  intros J H H' it Hin. pose proof (junk_genuine_subsequence ig lines lines' acc r r' J H H') as S.
  assert (Hm : In (meta it) (map meta r')) by (apply (subseq_In _ _ _ S), in_map; exact Hin).
  apply in_map_iff in Hm as (it' & E & Hin'). exists it'. split; [exact Hin'|].
  unfold meta in E. injection E as E1 E2 E3 E4. auto.
Qed.

(* with the flag both parses succeed, so the statement needs no hypothesis on the results *)
Corollary junk_genuine_subsequence_flag lines lines' acc :
  junk_ins lines lines' ->
  exists r r', parse_body v k c true cc tr lines acc = POk r /\
               parse_body v k c true cc tr lines' acc = POk r' /\
               subseq (map meta r) (map meta r') /\ (List.length r <= List.length r')%nat.
Proof.
  intros J. destruct (parse_body_total lines acc) as (r & E). destruct (parse_body_total lines' acc) as (r' & E').
  exists r, r'. split; [exact E|]. split; [exact E'|].
  pose proof (junk_genuine_subsequence true lines lines' acc r r' J E E') as S. split; [exact S|].
  apply subseq_length in S. rewrite !map_length in S. exact S.
Qed.

(* one junk line adds at most one item *)
Lemma scan_length_cons ig j b : startswith [ch_tilde] (strip j) = false ->
  snd (scan ig (j :: b)) = None ->
  snd (scan ig b) = None /\ (List.length (fst (scan ig (j :: b))) <= S (List.length (fst (scan ig b))))%nat.
Proof.
  intros Hj. cbn [scan]. destruct (classify j) as [| |it|l] eqn:Ec.
  - intros E. split; [exact E|lia].
  - apply classify_stop_title in Ec. congruence.
  - destruct (scan ig b) as [its e]. cbn [fst snd List.length]. intros E. split; [exact E|lia].
  - destruct ig; [|discriminate]. intros E. split; [exact E|lia].
Qed.

Theorem junk_adds_at_most_one ig a j b acc r' :
  no_title a -> startswith [ch_tilde] (strip j) = false ->
  parse_body v k c ig cc tr (a ++ j :: b) acc = POk r' ->
  exists r, parse_body v k c ig cc tr (a ++ b) acc = POk r /\
            (List.length r <= List.length r' <= S (List.length r))%nat /\
            subseq (map meta r) (map meta r').
Proof.
  intros Ha Hj H'.
  assert (Hr : exists r, parse_body v k c ig cc tr (a ++ b) acc = POk r /\
                         (List.length r' <= S (List.length r))%nat).
  { rewrite parse_body_scan in H'. rewrite parse_body_scan.
    rewrite (scan_app ig a (j :: b) Ha) in H'. rewrite (scan_app ig a b Ha).
    pose proof (scan_length_cons ig j b Hj) as Hsl.
    remember (scan ig (j :: b)) as sj eqn:Esj. clear Esj.
    destruct (snd (scan ig a)) as [l|] eqn:Ea.
    - rewrite Ea in H'. discriminate.
    - cbn [fst snd] in *. destruct (snd sj) eqn:Ej; [discriminate|].
      destruct (Hsl eq_refl) as (Eb & Hlen). rewrite Eb. injection H' as <-.
      eexists. split; [reflexivity|]. rewrite !append_all_length, !app_length. lia. }
  destruct Hr as (r & Hr & Hlen). exists r. split; [exact Hr|].
  pose proof (junk_genuine_subsequence ig _ _ acc r r' (ins_lines_one nontitle a j b Hj) Hr H') as S.
  split; [|exact S]. apply subseq_length in S. rewrite !map_length in S. lia.
Qed.

End Body.
