(* Proofs.FuncsPinSectionType — Model/Sections.section_type IS reader.determine_section_type
   (Gen/Funcs.v).  Restated as C05_section_type_current. *)
From Coq Require Import List Arith NArith ZArith Bool Lia ZifyBool ZifyN ZifyNat String.
Import ListNotations.
Require Import PyStr Regex Regexes Funcs Sections StripFacts FuncsPinsLib.
Open Scope list_scope.
Open Scope N_scope.

(* ---------- strip().strip("\n") is strip() ------------------------------------------------ *)
Lemma lstrip_by_len f : forall s : list N, (List.length (lstrip_by f s) <= List.length s)%nat.
Proof. induction s as [|c s IH]; cbn [lstrip_by List.length]; [lia|]. destruct (f c); cbn [List.length]; lia. Qed.

Lemma lstrip_by_fix_head f c (r : list N) : lstrip_by f (c :: r) = c :: r -> f c = false.
Proof.
  cbn [lstrip_by]. destruct (f c); [|reflexivity]. intros H.
  pose proof (lstrip_by_len f r) as L. rewrite H in L. cbn [List.length] in L. lia.
Qed.

Lemma strip_last_nonspace t z m : rev (strip t) = z :: m -> is_space z = false.
Proof.
  intros E. pose proof (strip_idem t) as H.
  assert (L : lstrip_by is_space (strip t) = strip t).
  { destruct (strip t) as [|c r] eqn:Es; [reflexivity|]. apply lstrip_by_head. exact (strip_head _ _ _ Es). }
  unfold strip at 1 in H. unfold strip_by in H. rewrite L in H. unfold rstrip_by in H. rewrite E in H.
  apply (f_equal (@rev N)) in H. rewrite rev_involutive, E in H.
  exact (lstrip_by_fix_head _ _ _ H).
Qed.

Lemma strip_nl_strip t : strip_chars [10] (strip t) = strip t.
Proof.
  unfold strip_chars, strip_by.
  set (f := fun c : N => existsb (N.eqb c) [10]).
  assert (sub : forall c, is_space c = false -> f c = false).
  { intros c Hc. unfold f. cbn [existsb]. rewrite orb_false_r.
    destruct (c =? 10) eqn:E; [|reflexivity]. apply N.eqb_eq in E. subst c. discriminate Hc. }
  assert (L : lstrip_by f (strip t) = strip t).
  { destruct (strip t) as [|c r] eqn:Es; [reflexivity|]. apply lstrip_by_head. apply sub. exact (strip_head _ _ _ Es). }
  rewrite L. unfold rstrip_by. destruct (rev (strip t)) as [|z m] eqn:Er.
  - cbn [lstrip_by rev]. apply (f_equal (@rev N)) in Er. rewrite rev_involutive in Er. symmetry. exact Er.
  - rewrite lstrip_by_head by (apply sub; exact (strip_last_nonspace _ _ _ Er)).
    rewrite <- Er. apply rev_involutive.
Qed.

(* ---------- re.search of a literal pattern is `in` ---------------------------------------- *)
Fixpoint lit_re (l : list N) : re :=
  match l with
  | [] => Eps
  | [c] => Cls (CChar c)
  | c :: l' => Seq (Cls (CChar c)) (lit_re l')
  end.

Lemma m_lit : forall l p s cs cont,
  m (lit_re l) (mkst p s cs) cont =
  if startswith l s then cont (mkst (rev l ++ p) (skipn (List.length l) s) cs) else None.
Proof.
  induction l as [|c l IH]; intros p s cs cont.
  - reflexivity.
  - assert (step : forall k : K,
      m (Cls (CChar c)) (mkst p s cs) k =
      match s with x :: s' => if c =? x then k (mkst (c :: p) s' cs) else None | [] => None end).
    { intros k. cbn [m rem pre caps cmatch]. destruct s as [|x s']; [reflexivity|].
      rewrite (N.eqb_sym x c). destruct (c =? x) eqn:E; [|reflexivity].
      apply N.eqb_eq in E. subst x. reflexivity. }
    destruct l as [|d l'].
    + cbn [lit_re]. rewrite step. destruct s as [|x s']; [reflexivity|].
      cbn [startswith]. destruct (c =? x); reflexivity.
    + change (lit_re (c :: d :: l')) with (Seq (Cls (CChar c)) (lit_re (d :: l'))).
      change (m (Seq (Cls (CChar c)) (lit_re (d :: l'))) (mkst p s cs) cont)
        with (m (Cls (CChar c)) (mkst p s cs) (fun y => m (lit_re (d :: l')) y cont)).
      rewrite step. destruct s as [|x s']; [reflexivity|].
      cbn [startswith]. destruct (c =? x); cbn [andb]; [|reflexivity].
      rewrite IH. cbn [rev List.length skipn]. rewrite <- !app_assoc. reflexivity.
Qed.

Lemma re_search_lit l s : re_search (lit_re l) s = contains l s.
Proof.
  unfold re_search, contains, find. generalize 0%nat. generalize (@nil N).
  induction s as [|x s IH]; intros p i; cbn [search_from find_from]; rewrite m_lit;
    destruct (startswith l _); try reflexivity.
  apply IH.
Qed.

(* ---------- reader.determine_section_type ---------------------------------------------------- *)
(* the string determine_section_type returns for each type of the model *)
Definition stype_name : stype -> list N := Eval compute in
  fun t => match t with
  | TData => s2l "Data"
  | TOther => s2l "Header (other)"
  | TLas3Data => s2l "Las3_Data"
  | THeader => s2l "Header items"
  end.

Lemma stype_name_inj a b : stype_name a = stype_name b -> a = b.
Proof. destruct a, b; intros H; try reflexivity; discriminate H. Qed.

Definition lit_Data : list N := Eval compute in s2l "_Data".
Lemma section_type_search_current : py_determine_section_type_rx1 = lit_re lit_Data.
Proof. reflexivity. Qed.

Theorem section_type_pin : forall title, stype_name (section_type title) = py_determine_section_type title.
Proof.
  intros title. unfold section_type, py_determine_section_type, first2_upper, pyo_upper, pyo_in.
  rewrite section_type_search_current, re_search_lit, strip_nl_strip, pyo_slice_to2.
  let x := eval compute in (s2l "~Log_Data") in change (s2l "~Log_Data") with x.
  let x := eval compute in (s2l "_Data") in change (s2l "_Data") with x.
  unfold lit_Data.
  destruct (str_eqb (map ascii_upper (firstn 2 (strip title))) [126; 65]);
    destruct (contains [126; 76; 111; 103; 95; 68; 97; 116; 97] (strip title));
    destruct (str_eqb (map ascii_upper (firstn 2 (strip title))) [126; 79]);
    destruct (contains [95; 68; 97; 116; 97] (strip title));
    reflexivity.
Qed.
